(** CmdIR.v — a small imperative IR ("mini-Go") for the DECISION code of the mutating commands
    (commands_work.go, storage.go, model.go): [buildSetEvents], [applySetUpdates], [buildResultEvent],
    [validateResultSummary], [validateResultPath], [writeLinkEvents], [createTaskWithDir], the lock
    section of [RunClaimOldestReady], and the helpers they call ([isEpic], [prunedErr],
    [validateDepSelf], [validateDepKinds]) — and its INTERPRETER over the model's values
    ([task], [graph], [event]).

    The translator (tools/gen/cmd_ir.go) turns the Go bodies statement by statement into this IR
    (gen/CmdGen.v): no reordering, no simplification; named constants are replaced by their VALUES,
    payload struct fields by their json KEYS; whatever it does not recognise becomes [CEUnknown] /
    [CSUnknown] carrying the Go text, on which the interpreter is stuck ([None]), so no theorem about
    a function containing one can be proved.  bridge/B_Cmd*.v prove that the interpretation of the
    generated program is, for all inputs, the hand-written model's transaction (theories/Cmd.v).

    ** What is fixed here by hand (the dictionary between the two worlds)
    - values: Go [string] = Coq [string]; [*Task] = [task] or nil; [*Graph] = [graph] (held in a
      variable; the three statements that mutate it re-bind the variable — the fragment never
      aliases a graph); [map[string]string] and [map[string]*Task] = association lists with unique
      keys ([VMap]); [graph.Tasks] / [graph.Tombstones] = views of the model's maps ([VGTasks],
      [VGTombs]); slices = lists; structs = field lists; an error = nil or [VErr k] (the message is
      not modelled: the model's transactions only distinguish success from abort; [k] says whether
      [os.IsNotExist] holds).
    - event construction: [newEvent(type, ts, Payload{...})] is [mk_event type fields], the inverse of
      ReplayIR's [data_fields] ([mk_event_data_fields]); a stamp field must be [formatTime(t)].
    - the environment ORACLES, consumed in call order from the interpreter state: clock readings
      ([time.Now().UTC()]), candidate ids ([newShortID] draws until one is free, at most 64), uuids,
      what [os.Stat] says about the result file, and its evidence (sha, mtime, git head).
    - PRIMITIVES (not derived from this translation; tied elsewhere):
        validateTransition / validateClaimInvariant / validStates   bridge/B_C06.v (StateMachine.v)
        hasCycle                                                    bridge/B_Cycle.v
        readyTasks                                                  bridge/B_Ready.v
        loadGraph (readEvents + replayEvents)                       bridge/B_Read.v, B_Replay.v
        appendEvents                                                Skeleton.v / B_C04.v (one write)
        withLock                                                    Skeleton.v / B_C01.v, B_C02.v
        strings.TrimSpace, strings.ContainsAny, HasPrefix, Contains, filepath.Clean / IsAbs / Join / Dir:
                                                                    theories/Text.v, Path.v (function-level difftest)
        captureResultEvidence (reads and hashes the file)           oracle
        formatTime / parseTime round trip, json.Marshal of a payload never fails. *)
From Ergo Require Import Base Text Events Replay Ready Path Cmd.
From ErgoBridge Require Import ReadyIR ReplayIR.
From Coq Require Import Ascii String ZArith.
Local Open Scope string_scope.
Local Open Scope list_scope.

(** * Syntax *)
Inductive cexpr :=
| CENil | CEBool (b : bool) | CEInt (z : Z) | CEStr (s : string)
| CEVar (v : string)
| CEGlobal (v : string)                        (* a package-level variable (validStates) *)
| CEFuncRef (f : string)                       (* a package-level function used as a value *)
| CEField (e : cexpr) (f : string)             (* e.F *)
| CEIndex (e k : cexpr)                        (* e[k] (one-value form) *)
| CEIndexInt (e : cexpr) (n : nat)             (* e[n], n a literal *)
| CENot (a : cexpr)
| CEEq (a b : cexpr) | CENe (a b : cexpr)
| CEAnd (a b : cexpr) | CEOr (a b : cexpr)     (* short-circuit *)
| CEGt (a b : cexpr) | CEAdd (a b : cexpr)
| CELen (a : cexpr)
| CENow                                        (* time.Now().UTC() *)
| CECall (f : string) (args : cexprs)          (* f(args): package function, builtin or pkg.Func, by name *)
| CECallVar (v : string) (args : cexprs)       (* v(args), v a func-typed local *)
| CEMethod (recv : cexpr) (m : string) (args : cexprs)   (* recv.m(args) on an os.FileInfo / FileMode *)
| CEStruct (ty : string) (fs : cfields)        (* T{F: e, ...}; fields of payload structs by json key *)
| CEAddr (e : cexpr)                           (* &T{...} *)
| CEDeref (e : cexpr)                          (* *e, e a *string: nil or the string *)
| CEUnit                                       (* struct{}{} *)
| CESlice (ty : string) (es : cexprs)          (* []T{e, ...} *)
| CEMakeMap | CEMakeSlice                      (* make(map[..]..., ..) / make([]T, 0, ..) *)
| CEAppend (a : cexpr) (es : cexprs)           (* append(a, e, ...) *)
| CEAppendAll (a b : cexpr)                    (* append(a, b...) *)
| CEUnknown (go : string)
with cexprs := CXNil | CXCons (e : cexpr) (r : cexprs)
with cfields := CFNil | CFCons (f : string) (e : cexpr) (r : cfields).

Inductive cstmt :=
| CSSkip
| CSDefine (vs : list (string * bool)) (e : cexpr)
    (* a, b := e  /  a, b = e: each name with "is declared by this statement" *)
| CSVar (v ty : string)                        (* var v T *)
| CSLookup2 (v ok : string * bool) (m k : cexpr)   (* v, ok := m[k] *)
| CSSetIndex (m : string) (k e : cexpr)        (* m[k] = e, m a local map *)
| CSSetField (v f : string) (e : cexpr)        (* v.F = e, v a local struct *)
| CSDelete (m : string) (k : cexpr)            (* delete(m, k), m a local map *)
| CSGraphStoreTask (g : string) (k e : cexpr)  (* g.Tasks[k] = e *)
| CSDepEnsure (g : string) (from : cexpr)      (* g.Deps[from] = map[string]struct{}{} *)
| CSDepInsert (g : string) (from to : cexpr)   (* g.Deps[from][to] = struct{}{} *)
| CSDepDelete (g : string) (from to : cexpr)   (* delete(g.Deps[from], to) *)
| CSIf (init : cstmt) (c : cexpr) (th el : cblock)
| CSRange (k v : string) (e : cexpr) (body : cblock)   (* for k, v := range e { body } *)
| CSExpr (e : cexpr)                           (* a call for its effect *)
| CSLock (dst : option (string * bool)) (mode : string) (body : cblock)
    (* [dst = None]: return withLock(p, mode, func() error { body });
       [dst = Some (v, new)]: v := / v = withLock(p, mode, func() error { body }) *)
| CSReturn (es : cexprs)
| CSContinue
| CSUnknown (go : string)
with cblock := CBNil | CBCons (s : cstmt) (b : cblock).

Fixpoint cblk (l : list cstmt) : cblock :=
  match l with [] => CBNil | s :: r => CBCons s (cblk r) end.
Fixpoint cxs (l : list cexpr) : cexprs :=
  match l with [] => CXNil | e :: r => CXCons e (cxs r) end.
Fixpoint cfs (l : list (string * cexpr)) : cfields :=
  match l with [] => CFNil | (f, e) :: r => CFCons f e (cfs r) end.

Record cfn := CFn { cf_params : list string; cf_body : cblock }.
Definition cprog := list (string * cfn).

(** * Values *)
Inductive errk := EGen | ENotExist.
Inductive cval :=
| VNil | VBool (b : bool) | VInt (z : Z) | VStr (s : string)
| VTime (t : time)
| VStamp (t : time)                            (* formatTime(t) *)
| VErr (k : errk)
| VTask (t : task)
| VGraph (g : graph)
| VGTasks (g : graph) | VGTombs (g : graph)    (* graph.Tasks, graph.Tombstones *)
| VGlobal (v : string)
| VMap (m : list (string * cval))
| VStruct (ty : string) (fs : list (string * cval))
| VEvent (e : event)
| VList (l : list cval)
| VTuple (l : list cval)
| VInfo (k : fkind) | VMode (k : fkind)
| VFunc (f : string)
| VUnit.                                       (* struct{}{} *)

Definition cenv := list (string * cval).

(** The interpreter state: oracles (consumed in call order) and effects. *)
Record cstate := CState {
  cs_clock : list time;
  cs_ids : list string;
  cs_uuids : list string;
  cs_load : option graph;        (* loadGraph: the replayed log, or an error *)
  cs_fkind : fkind;              (* os.Stat of the result file *)
  cs_sha : string; cs_mtime : string; cs_git : string;
  cs_writes : list (list event); (* appendEvents calls, oldest first *)
  cs_out : list cval }.          (* fmt.Println arguments, oldest first *)

Definition with_clock (σ : cstate) c := CState c (cs_ids σ) (cs_uuids σ) (cs_load σ) (cs_fkind σ) (cs_sha σ) (cs_mtime σ) (cs_git σ) (cs_writes σ) (cs_out σ).
Definition with_ids (σ : cstate) i := CState (cs_clock σ) i (cs_uuids σ) (cs_load σ) (cs_fkind σ) (cs_sha σ) (cs_mtime σ) (cs_git σ) (cs_writes σ) (cs_out σ).
Definition with_uuids (σ : cstate) u := CState (cs_clock σ) (cs_ids σ) u (cs_load σ) (cs_fkind σ) (cs_sha σ) (cs_mtime σ) (cs_git σ) (cs_writes σ) (cs_out σ).
Definition with_write (σ : cstate) (es : list event) := CState (cs_clock σ) (cs_ids σ) (cs_uuids σ) (cs_load σ) (cs_fkind σ) (cs_sha σ) (cs_mtime σ) (cs_git σ) (cs_writes σ ++ [es]) (cs_out σ).
Definition with_out (σ : cstate) (v : cval) := CState (cs_clock σ) (cs_ids σ) (cs_uuids σ) (cs_load σ) (cs_fkind σ) (cs_sha σ) (cs_mtime σ) (cs_git σ) (cs_writes σ) (cs_out σ ++ [v]).

(** * Helpers *)
(** map keys are compared with the private [name_eqb] (it is [String.eqb]: [name_eqb_is_eqb]) so that
    look-ups of literal keys compute in proofs without unfolding comparisons on data *)
Fixpoint massoc (k : string) (m : list (string * cval)) : option cval :=
  match m with
  | [] => None
  | (k', v) :: r => if name_eqb k k' then Some v else massoc k r
  end.
Fixpoint mdelete (k : string) (m : list (string * cval)) : list (string * cval) :=
  match m with
  | [] => []
  | (k', v) :: r => if name_eqb k k' then mdelete k r else (k', v) :: mdelete k r
  end.
(** m[k] = v: replace in place, or add at the end *)
Fixpoint minsert (k : string) (v : cval) (m : list (string * cval)) : list (string * cval) :=
  match m with
  | [] => [(k, v)]
  | (k', v') :: r => if name_eqb k k' then (k, v) :: r else (k', v') :: minsert k v r
  end.

Lemma name_eqb_is_eqb a b : name_eqb a b = String.eqb a b.
Proof.
  revert b. induction a as [|x a IH]; intros [|y b]; cbn [name_eqb String.eqb]; try reflexivity.
  rewrite IH. destruct x as [a0 a1 a2 a3 a4 a5 a6 a7], y as [b0 b1 b2 b3 b4 b5 b6 b7].
  cbn [ascii_name_eqb Ascii.eqb].
  destruct a0, a1, a2, a3, a4, a5, a6, a7, b0, b1, b2, b3, b4, b5, b6, b7; reflexivity.
Qed.

(** struct fields are looked up by name with the private [name_eqb] (they are syntax) *)
Fixpoint fassoc (f : string) (fs : list (string * cval)) : option cval :=
  match fs with
  | [] => None
  | (f', v) :: r => if name_eqb f f' then Some v else fassoc f r
  end.
Fixpoint fupdate (f : string) (v : cval) (fs : list (string * cval)) : option (list (string * cval)) :=
  match fs with
  | [] => None
  | (f', v') :: r =>
      if name_eqb f f' then Some ((f', v) :: r)
      else match fupdate f v r with Some r' => Some ((f', v') :: r') | None => None end
  end.

Fixpoint cupdate (v : string) (x : cval) (ρ : cenv) : option cenv :=
  match ρ with
  | [] => None
  | (y, old) :: r =>
      if name_eqb v y then Some ((y, x) :: r)
      else match cupdate v x r with Some r' => Some ((y, old) :: r') | None => None end
  end.
Definition cbind (v : string) (x : cval) (ρ : cenv) : cenv :=
  if name_eqb v "_" then ρ else (v, x) :: ρ.
Definition crestore (n : nat) (ρ : cenv) : cenv := drop (List.length ρ - n) ρ.
(** [v := x] (new) or [v = x] *)
Definition cassign (vb : string * bool) (x : cval) (ρ : cenv) : option cenv :=
  if snd vb then Some (cbind (fst vb) x ρ)
  else if name_eqb (fst vb) "_" then Some ρ else cupdate (fst vb) x ρ.
Fixpoint cassign_all (vs : list (string * bool)) (xs : list cval) (ρ : cenv) : option cenv :=
  match vs, xs with
  | [], [] => Some ρ
  | v :: vs', x :: xs' => match cassign v x ρ with Some ρ' => cassign_all vs' xs' ρ' | None => None end
  | _, _ => None
  end.
Fixpoint cbind_params (ps : list string) (vs : list cval) : option cenv :=
  match ps, vs with
  | [], [] => Some []
  | p :: ps', v :: vs' => match cbind_params ps' vs' with Some ρ => Some (cbind p v ρ) | None => None end
  | _, _ => None
  end.

(** Go field name of Task -> model record field *)
Definition task_field (f : string) (t : task) : option cval :=
  if name_eqb f "ID" then Some (VStr (t_id t)) else
  if name_eqb f "UUID" then Some (VStr (t_uuid t)) else
  if name_eqb f "EpicID" then Some (VStr (t_epic t)) else
  if name_eqb f "IsEpic" then Some (VBool (t_is_epic t)) else
  if name_eqb f "State" then Some (VStr (t_state t)) else
  if name_eqb f "Title" then Some (VStr (t_title t)) else
  if name_eqb f "Body" then Some (VStr (t_body t)) else
  if name_eqb f "ClaimedBy" then Some (VStr (t_claimed t)) else
  if name_eqb f "CreatedAt" then Some (VTime (t_created t)) else
  if name_eqb f "UpdatedAt" then Some (VTime (t_updated t)) else None.

(** &Task{...}: the fields a literal may give; everything else is the zero value.  The meta half
    of the model's record (what replay would have stored) is filled in as [new_task] does. *)
Definition str_field (f : string) (fs : list (string * cval)) : option string :=
  match fassoc f fs with Some (VStr s) => Some s | None => Some "" | _ => None end.
Definition time_field (f : string) (fs : list (string * cval)) : option time :=
  match fassoc f fs with Some (VTime t) => Some t | None => Some zero_time | _ => None end.
Definition bool_field (f : string) (fs : list (string * cval)) : option bool :=
  match fassoc f fs with Some (VBool b) => Some b | None => Some false | _ => None end.
Definition task_literal_fields : list string :=
  ["ID"; "UUID"; "EpicID"; "IsEpic"; "State"; "Title"; "Body"; "ClaimedBy"; "CreatedAt"; "UpdatedAt"].
Definition mk_task (fs : list (string * cval)) : option task :=
  if negb (forallb (λ '(f, _), existsb (name_eqb f) task_literal_fields) fs) then None else
  match str_field "ID" fs, str_field "UUID" fs, str_field "EpicID" fs, bool_field "IsEpic" fs,
        str_field "State" fs, str_field "Title" fs, str_field "Body" fs, str_field "ClaimedBy" fs,
        time_field "CreatedAt" fs, time_field "UpdatedAt" fs with
  | Some i, Some uu, Some ep, Some ie, Some st, Some ti, Some bo, Some cl, Some cr, Some up =>
      Some (Task i uu ep ie st ti bo cl cr up [] ti bo st ep cr zero_time zero_time zero_time zero_time zero_time)
  | _, _, _, _, _, _, _, _, _, _ => None
  end.

(** newEvent(type, _, payload): payload fields by json key; stamps must be formatted times *)
Definition pstr (k : string) (fs : list (string * cval)) : option string :=
  match fassoc k fs with Some (VStr s) => Some s | None => Some "" | _ => None end.
Definition pstamp (k : string) (fs : list (string * cval)) : option (option time) :=
  match fassoc k fs with Some (VStamp t) => Some (Some t) | _ => None end.
Definition keys_within (fs : list (string * cval)) (ks : list string) : bool :=
  forallb (λ '(f, _), existsb (name_eqb f) ks) fs.

Definition mk_event (ty : string) (fs : list (string * cval)) : option event :=
  if name_eqb ty "new_task" || name_eqb ty "new_epic" then
    if negb (keys_within fs ["id"; "uuid"; "epic_id"; "state"; "title"; "body"; "created_at"]) then None else
    match pstr "id" fs, pstr "uuid" fs, pstr "epic_id" fs, pstr "state" fs, pstr "title" fs, pstr "body" fs,
          pstamp "created_at" fs with
    | Some i, Some uu, Some ep, Some st, Some ti, Some bo, Some at_ =>
        Some (ENew (name_eqb ty "new_epic") i uu ep st ti bo at_)
    | _, _, _, _, _, _, _ => None
    end
  else if name_eqb ty "state" then
    if negb (keys_within fs ["id"; "state"; "ts"]) then None else
    match pstr "id" fs, pstr "state" fs, pstamp "ts" fs with
    | Some i, Some st, Some at_ => Some (EState i st at_) | _, _, _ => None end
  else if name_eqb ty "claim" then
    if negb (keys_within fs ["id"; "agent_id"; "ts"]) then None else
    match pstr "id" fs, pstr "agent_id" fs, pstamp "ts" fs with
    | Some i, Some ag, Some at_ => Some (EClaim i ag at_) | _, _, _ => None end
  else if name_eqb ty "unclaim" then
    if negb (keys_within fs ["id"; "ts"]) then None else
    match pstr "id" fs with Some i => Some (EUnclaim i) | None => None end
  else if name_eqb ty "link" then
    if negb (keys_within fs ["from_id"; "to_id"; "type"]) then None else
    match pstr "from_id" fs, pstr "to_id" fs, pstr "type" fs with
    | Some a, Some b, Some t => Some (ELink a b t) | _, _, _ => None end
  else if name_eqb ty "unlink" then
    if negb (keys_within fs ["from_id"; "to_id"; "type"]) then None else
    match pstr "from_id" fs, pstr "to_id" fs, pstr "type" fs with
    | Some a, Some b, Some t => Some (EUnlink a b t) | _, _, _ => None end
  else if name_eqb ty "title" then
    if negb (keys_within fs ["id"; "title"; "ts"]) then None else
    match pstr "id" fs, pstr "title" fs, pstamp "ts" fs with
    | Some i, Some x, Some at_ => Some (ETitle i x at_) | _, _, _ => None end
  else if name_eqb ty "body" then
    if negb (keys_within fs ["id"; "body"; "ts"]) then None else
    match pstr "id" fs, pstr "body" fs, pstamp "ts" fs with
    | Some i, Some x, Some at_ => Some (EBody i x at_) | _, _, _ => None end
  else if name_eqb ty "epic" then
    if negb (keys_within fs ["id"; "epic_id"; "ts"]) then None else
    match pstr "id" fs, pstr "epic_id" fs, pstamp "ts" fs with
    | Some i, Some x, Some at_ => Some (EEpic i x at_) | _, _, _ => None end
  else if name_eqb ty "tombstone" then
    if negb (keys_within fs ["id"; "agent_id"; "ts"]) then None else
    match pstr "id" fs, pstr "agent_id" fs, pstamp "ts" fs with
    | Some i, Some ag, Some at_ => Some (ETomb i ag at_) | _, _, _ => None end
  else if name_eqb ty "result" then
    if negb (keys_within fs ["task_id"; "summary"; "path"; "sha256_at_attach"; "mtime_at_attach";
                             "git_commit_at_attach"; "ts"]) then None else
    match pstr "task_id" fs, pstr "summary" fs, pstr "path" fs, pstr "sha256_at_attach" fs,
          pstr "mtime_at_attach" fs, pstr "git_commit_at_attach" fs, pstamp "ts" fs with
    | Some i, Some su, Some pa, Some sh, Some mt, Some gi, Some at_ => Some (EResult i su pa sh mt gi at_)
    | _, _, _, _, _, _, _ => None
    end
  else None.

(** == / != ; [None]: ill-typed *)
Definition ceq (a b : cval) : option bool :=
  match a, b with
  | VNil, VNil => Some true
  | VNil, (VErr _ | VTask _ | VGraph _ | VMap _ | VList _ | VStr _) | (VErr _ | VTask _ | VGraph _ | VMap _ | VList _ | VStr _), VNil => Some false
  | VBool x, VBool y => Some (Bool.eqb x y)
  | VInt x, VInt y => Some (Z.eqb x y)
  | VStr x, VStr y => Some (String.eqb x y)
  | _, _ => None
  end.

Definition clen (v : cval) : option Z :=
  match v with
  | VStr s => Some (Z.of_nat (String.length s))
  | VMap m => Some (Z.of_nat (List.length m))
  | VList l => Some (Z.of_nat (List.length l))
  | VNil => Some 0%Z
  | VGTasks g => Some (Z.of_nat (size (g_tasks g)))
  | VGTombs g => Some (Z.of_nat (size (g_tombs g)))
  | _ => None
  end.

Definition as_list (v : cval) : option (list cval) :=
  match v with VList l => Some l | VNil => Some [] | _ => None end.
Fixpoint as_events (l : list cval) : option (list event) :=
  match l with
  | [] => Some []
  | VEvent e :: r => match as_events r with Some es => Some (e :: es) | None => None end
  | _ => None
  end.

(** the valid states, as the keys of the package-level map (tied to model.go by B_C06) *)
Definition valid_states_list : list string := ["todo"; "doing"; "done"; "blocked"; "canceled"; "error"].

(** m[k] with its presence flag *)
Definition clookup2 (m : cval) (k : string) : option (cval * bool) :=
  match m with
  | VMap l => match massoc k l with Some v => Some (v, true) | None => Some (VNil, false) end
  | VGTasks g => match g_tasks g !! k with Some t => Some (VTask t, true) | None => Some (VNil, false) end
  | VGTombs g => Some (VUnit, tombed g k)
  | VGlobal v => if name_eqb v "validStates" then Some (VUnit, mem_str k valid_states_list) else None
  | _ => None
  end.
(** the zero value of a map[string]string element is ""; the fragment uses the one-value form only
    on such maps *)
Definition clookup1 (m : cval) (k : string) : option cval :=
  match m with
  | VMap l => match massoc k l with Some v => Some v | None => Some (VStr "") end
  | _ => None
  end.

Definition pick_taken (taken : cval) (c : string) : bool :=
  match taken with VMap l => is_some (massoc c l) | _ => false end.

(** ** Primitive calls *)
Definition err_of (b : bool) : cval := if b then VNil else VErr EGen.

Definition prim_call (f : string) (vs : list cval) (σ : cstate) : option (cval * cstate) :=
  if name_eqb f "strings.TrimSpace" then
    match vs with [VStr s] => Some (VStr (trim_space s), σ) | _ => None end
  else if name_eqb f "strings.ContainsAny" then
    match vs with
    | [VStr s; VStr cs] => if name_eqb cs (String "010" (String "013" "")) then Some (VBool (contains_nl_cr s), σ) else None
    | _ => None end
  else if name_eqb f "strings.HasPrefix" then
    match vs with [VStr s; VStr p] => Some (VBool (String.prefix p s), σ) | _ => None end
  else if name_eqb f "strings.Contains" then
    match vs with [VStr s; VStr p] => Some (VBool (contains_sub p s), σ) | _ => None end
  else if name_eqb f "filepath.Clean" then
    match vs with [VStr s] => Some (VStr (clean s), σ) | _ => None end
  else if name_eqb f "filepath.IsAbs" then
    match vs with [VStr s] => Some (VBool (is_abs s), σ) | _ => None end
  else if name_eqb f "filepath.Join" then
    match vs with [VStr a; VStr b] => Some (VStr (a ++ "/" ++ b), σ) | _ => None end
  else if name_eqb f "filepath.Dir" then
    match vs with [VStr a] => Some (VStr ("dir:" ++ a), σ) | _ => None end
  else if name_eqb f "getEventsPath" then
    match vs with [VStr a] => Some (VStr ("log:" ++ a), σ) | _ => None end
  else if name_eqb f "errors.New" then
    match vs with [VStr _] => Some (VErr EGen, σ) | _ => None end
  else if name_eqb f "fmt.Errorf" then
    match vs with VStr _ :: _ => Some (VErr EGen, σ) | _ => None end
  else if name_eqb f "strings.Join" then
    match vs with [_; VStr _] => Some (VStr "", σ) | _ => None end
  else if name_eqb f "formatTime" then
    match vs with [VTime t] => Some (VStamp t, σ) | _ => None end
  else if name_eqb f "newEvent" then
    match vs with
    | [VStr ty; VTime _; VStruct _ fs] =>
        match mk_event ty fs with Some e => Some (VTuple [VEvent e; VNil], σ) | None => None end
    | _ => None end
  else if name_eqb f "validateTransition" then
    match vs with [VStr a; VStr b] => Some (err_of (validate_transition a b), σ) | _ => None end
  else if name_eqb f "validateClaimInvariant" then
    match vs with [VStr a; VStr b] => Some (err_of (validate_claim_invariant a b), σ) | _ => None end
  else if name_eqb f "hasCycle" then
    match vs with [VGraph g; VStr a; VStr b] => Some (VBool (has_cycle g a b), σ) | _ => None end
  else if name_eqb f "readyTasks" then
    match vs with
    | [VGraph g; VStr ep; VStr k] =>
        if String.eqb k "task" then Some (VList (VTask <$> ready_tasks g ep), σ) else None
    | _ => None end
  else if name_eqb f "loadGraph" then
    match vs with
    | [VStr _] => match cs_load σ with
                  | Some g => Some (VTuple [VGraph g; VNil], σ)
                  | None => Some (VTuple [VNil; VErr EGen], σ)
                  end
    | _ => None end
  else if name_eqb f "selectPruneTargets" then
    (* the prune policy: tied to the model's [prune_targets] by B_Prune.v *)
    match vs with [VGraph g] => Some (VList (VStr <$> prune_targets g), σ) | _ => None end
  else if name_eqb f "readEvents" then
    (* the log as read: an opaque token; its replay is [cs_load] *)
    match vs with [VStr _] => Some (VTuple [VGlobal "<log>"; VNil], σ) | _ => None end
  else if name_eqb f "replayEvents" then
    match vs with
    | [VGlobal l] => if name_eqb l "<log>" then
                       match cs_load σ with
                       | Some g => Some (VTuple [VGraph g; VNil], σ)
                       | None => Some (VTuple [VNil; VErr EGen], σ)
                       end else None
    | _ => None end
  else if name_eqb f "appendEventsAtomically" then
    (* rewrite of the whole log = what was read ++ the new events; recorded as the new events *)
    match vs with
    | [VStr _; VGlobal l; new] =>
        if name_eqb l "<log>" then
          match as_list new with
          | Some l' => match as_events l' with Some es => Some (VNil, with_write σ es) | None => None end
          | None => None end
        else None
    | _ => None end
  else if name_eqb f "appendEvents" then
    match vs with
    | [VStr _; l] => match as_list l with
                     | Some l' => match as_events l' with
                                  | Some es => Some (VNil, with_write σ es)
                                  | None => None end
                     | None => None end
    | _ => None end
  else if name_eqb f "newShortID" then
    match vs with
    | [taken] =>
        match pick_id (cs_ids σ) (pick_taken taken) with
        | Some (i, rest) => Some (VTuple [VStr i; VNil], with_ids σ rest)
        | None => Some (VTuple [VStr ""; VErr EGen], with_ids σ [])
        end
    | _ => None end
  else if name_eqb f "newUUID" then
    match vs, cs_uuids σ with
    | [], u :: rest => Some (VTuple [VStr u; VNil], with_uuids σ rest)
    | _, _ => None end
  else if name_eqb f "os.Stat" then
    match vs with
    | [VStr _] => match cs_fkind σ with
                  | FMissing => Some (VTuple [VNil; VErr ENotExist], σ)
                  | k => Some (VTuple [VInfo k; VNil], σ)
                  end
    | _ => None end
  else if name_eqb f "os.IsNotExist" then
    match vs with [VErr k] => Some (VBool (match k with ENotExist => true | EGen => false end), σ) | _ => None end
  else if name_eqb f "captureResultEvidence" then
    match vs with
    | [VStr _; VStr _] =>
        Some (VTuple [VStruct "ResultEvidence" [("Sha256AtAttach", VStr (cs_sha σ)); ("MtimeAtAttach", VStr (cs_mtime σ));
                                                  ("GitCommitAtAttach", VStr (cs_git σ))]; VNil], σ)
    | _ => None end
  else if name_eqb f "deps.isnil" then
    (* graph.Deps[from] == nil: no edge leaves [from] (an empty inner map is not distinguished) *)
    match vs with
    | [VGraph g; VStr a] => Some (VBool (negb (existsb (λ e, String.eqb (fst e) a) (elements (g_deps g)))), σ)
    | _ => None end
  else if name_eqb f "fmt.Println" then
    match vs with [v] => Some (VNil, with_out σ v) | _ => None end
  else None.

Definition is_prim (f : string) : bool :=
  existsb (name_eqb f)
    ["strings.TrimSpace"; "strings.ContainsAny"; "strings.HasPrefix"; "strings.Contains"; "filepath.Clean";
     "filepath.IsAbs"; "filepath.Join"; "filepath.Dir"; "getEventsPath"; "errors.New"; "fmt.Errorf"; "strings.Join";
     "formatTime"; "newEvent"; "validateTransition"; "validateClaimInvariant"; "hasCycle"; "readyTasks"; "loadGraph";
     "appendEvents"; "selectPruneTargets"; "readEvents"; "replayEvents"; "appendEventsAtomically"; "newShortID"; "newUUID"; "os.Stat"; "os.IsNotExist"; "captureResultEvidence"; "deps.isnil"; "fmt.Println"].

(** * Expressions (left to right; calls thread the state) *)
Section ceval.
  Context (call : string -> list cval -> cstate -> option (cval * cstate)).

  Definition do_call (f : string) (vs : list cval) (σ : cstate) : option (cval * cstate) :=
    if is_prim f then prim_call f vs σ else call f vs σ.

  Fixpoint ceval (ρ : cenv) (σ : cstate) (e : cexpr) : option (cval * cstate) :=
    match e with
    | CENil => Some (VNil, σ)
    | CEBool b => Some (VBool b, σ)
    | CEInt z => Some (VInt z, σ)
    | CEStr s => Some (VStr s, σ)
    | CEVar v => match lookup v ρ with Some x => Some (x, σ) | None => None end
    | CEGlobal v => Some (VGlobal v, σ)
    | CEFuncRef f => Some (VFunc f, σ)
    | CEField a f =>
        match ceval ρ σ a with
        | Some (VTask t, σ1) => match task_field f t with Some v => Some (v, σ1) | None => None end
        | Some (VStruct _ fs, σ1) => match fassoc f fs with Some v => Some (v, σ1) | None => None end
        | Some (VGraph g, σ1) =>
            if name_eqb f "Tasks" then Some (VGTasks g, σ1)
            else if name_eqb f "Tombstones" then Some (VGTombs g, σ1)
            else None
        | _ => None
        end
    | CEIndex a k =>
        match ceval ρ σ a with
        | Some (VGraph g, σ1) => None
        | Some (m, σ1) =>
            match ceval ρ σ1 k with
            | Some (VStr s, σ2) => match clookup1 m s with Some v => Some (v, σ2) | None => None end
            | _ => None
            end
        | None => None
        end
    | CEIndexInt a n =>
        match ceval ρ σ a with
        | Some (VList l, σ1) => match l !! n with Some v => Some (v, σ1) | None => None end
        | _ => None
        end
    | CENot a => match ceval ρ σ a with Some (VBool x, σ1) => Some (VBool (negb x), σ1) | _ => None end
    | CEEq a b =>
        match ceval ρ σ a with
        | Some (x, σ1) =>
            match ceval ρ σ1 b with
            | Some (y, σ2) => match ceq x y with Some r => Some (VBool r, σ2) | None => None end
            | None => None
            end
        | None => None
        end
    | CENe a b =>
        match ceval ρ σ a with
        | Some (x, σ1) =>
            match ceval ρ σ1 b with
            | Some (y, σ2) => match ceq x y with Some r => Some (VBool (negb r), σ2) | None => None end
            | None => None
            end
        | None => None
        end
    | CEAnd a b =>
        match ceval ρ σ a with
        | Some (VBool x, σ1) =>
            if x then match ceval ρ σ1 b with Some (VBool y, σ2) => Some (VBool y, σ2) | _ => None end
            else Some (VBool false, σ1)
        | _ => None
        end
    | CEOr a b =>
        match ceval ρ σ a with
        | Some (VBool x, σ1) =>
            if x then Some (VBool true, σ1)
            else match ceval ρ σ1 b with Some (VBool y, σ2) => Some (VBool y, σ2) | _ => None end
        | _ => None
        end
    | CEGt a b =>
        match ceval ρ σ a with
        | Some (VInt x, σ1) =>
            match ceval ρ σ1 b with Some (VInt y, σ2) => Some (VBool (Z.ltb y x), σ2) | _ => None end
        | _ => None
        end
    | CEAdd a b =>
        match ceval ρ σ a with
        | Some (VInt x, σ1) =>
            match ceval ρ σ1 b with Some (VInt y, σ2) => Some (VInt (x + y), σ2) | _ => None end
        | Some (VStr x, σ1) =>
            match ceval ρ σ1 b with Some (VStr y, σ2) => Some (VStr (x ++ y), σ2) | _ => None end
        | _ => None
        end
    | CELen a =>
        match ceval ρ σ a with
        | Some (x, σ1) => match clen x with Some n => Some (VInt n, σ1) | None => None end
        | None => None
        end
    | CENow =>
        match cs_clock σ with
        | t :: rest => Some (VTime t, with_clock σ rest)
        | [] => None
        end
    | CECall f args =>
        match ceval_args ρ σ args with Some (vs, σ1) => do_call f vs σ1 | None => None end
    | CECallVar v args =>
        match lookup v ρ with
        | Some (VFunc f) =>
            match ceval_args ρ σ args with Some (vs, σ1) => do_call f vs σ1 | None => None end
        | _ => None
        end
    | CEMethod r m args =>
        match ceval ρ σ r, args with
        | Some (VInfo k, σ1), CXNil =>
            if name_eqb m "IsDir" then Some (VBool (match k with FDir => true | _ => false end), σ1)
            else if name_eqb m "Mode" then Some (VMode k, σ1)
            else None
        | Some (VMode k, σ1), CXNil =>
            if name_eqb m "IsRegular" then Some (VBool (match k with FRegular => true | _ => false end), σ1)
            else None
        | _, _ => None
        end
    | CEStruct ty fs =>
        match ceval_fields ρ σ fs with Some (vs, σ1) => Some (VStruct ty vs, σ1) | None => None end
    | CEAddr a =>
        match ceval ρ σ a with
        | Some (VStruct ty fs, σ1) =>
            if name_eqb ty "Task" then match mk_task fs with Some t => Some (VTask t, σ1) | None => None end
            else None
        | _ => None
        end
    | CESlice _ es =>
        match ceval_args ρ σ es with Some (vs, σ1) => Some (VList vs, σ1) | None => None end
    | CEMakeMap => Some (VMap [], σ)
    | CEMakeSlice => Some (VList [], σ)
    | CEAppend a es =>
        match ceval ρ σ a with
        | Some (x, σ1) =>
            match as_list x, ceval_args ρ σ1 es with
            | Some l, Some (vs, σ2) => Some (VList (l ++ vs), σ2)
            | _, _ => None
            end
        | None => None
        end
    | CEAppendAll a b =>
        match ceval ρ σ a with
        | Some (x, σ1) =>
            match ceval ρ σ1 b with
            | Some (y, σ2) =>
                match as_list x, as_list y with
                | Some l, Some l' => Some (VList (l ++ l'), σ2)
                | _, _ => None
                end
            | None => None
            end
        | None => None
        end
    | CEDeref a => match ceval ρ σ a with Some (VStr x, σ1) => Some (VStr x, σ1) | _ => None end
    | CEUnit => Some (VUnit, σ)
    | CEUnknown _ => None
    end
  with ceval_args (ρ : cenv) (σ : cstate) (l : cexprs) : option (list cval * cstate) :=
    match l with
    | CXNil => Some ([], σ)
    | CXCons e r =>
        match ceval ρ σ e with
        | Some (v, σ1) => match ceval_args ρ σ1 r with
                          | Some (vs, σ2) => Some (v :: vs, σ2)
                          | None => None
                          end
        | None => None
        end
    end
  with ceval_fields (ρ : cenv) (σ : cstate) (l : cfields) : option (list (string * cval) * cstate) :=
    match l with
    | CFNil => Some ([], σ)
    | CFCons f e r =>
        match ceval ρ σ e with
        | Some (v, σ1) => match ceval_fields ρ σ1 r with
                          | Some (vs, σ2) => Some ((f, v) :: vs, σ2)
                          | None => None
                          end
        | None => None
        end
    end.
End ceval.

(** * Statements *)
Inductive coutcome :=
| ONormal (ρ : cenv) (σ : cstate)
| OReturn (vs : list cval) (ρ : cenv) (σ : cstate)
| OContinue (ρ : cenv) (σ : cstate)
| OStuck.

(** One loop over (key, value) pairs.  The body runs in the environment extended by the loop
    variables; what it declares is dropped after each iteration, what it assigns persists. *)
Fixpoint cfor_each (f : cenv -> cstate -> coutcome) (k v : string) (ρ : cenv) (σ : cstate)
    (l : list (cval * cval)) : coutcome :=
  match l with
  | [] => ONormal ρ σ
  | (x, y) :: r =>
      match f (cbind v y (cbind k x ρ)) σ with
      | ONormal ρ' σ' | OContinue ρ' σ' => cfor_each f k v (crestore (List.length ρ) ρ') σ' r
      | OReturn vs ρ' σ' => OReturn vs (crestore (List.length ρ) ρ') σ'
      | OStuck => OStuck
      end
  end.

(** what [range e] iterates over: (key, value) pairs, in the model's fixed order for the graph's
    maps (the fragment's loops over maps are order-insensitive: they copy or collect) *)
Definition range_items (v : cval) : option (list (cval * cval)) :=
  match v with
  | VList l => Some (imap (λ i x, (VInt (Z.of_nat i), x)) l)
  | VNil => Some []
  | VMap m => Some ((λ '(k, x), (VStr k, x)) <$> m)
  | VGTasks g => Some ((λ '(k, t), (VStr k, VTask t)) <$> map_to_list (g_tasks g))
  | VGTombs g => Some ((λ k, (VStr k, VUnit)) <$> elements (g_tombs g))
  | _ => None
  end.

Definition zero_value (ty : string) : option cval :=
  if name_eqb ty "[]Event" then Some VNil
  else if name_eqb ty "[]string" then Some VNil
  else if name_eqb ty "*Task" then Some VNil
  else if name_eqb ty "time.Time" then Some (VTime zero_time)
  else if name_eqb ty "string" then Some (VStr "")
  else if name_eqb ty "createOutput" then Some (VStruct "createOutput" [])
  else if name_eqb ty "PrunePlan" then Some (VStruct "PrunePlan" [("PrunedIDs", VNil); ("Items", VNil)])
  else None.

Definition get_graph (ρ : cenv) (g : string) : option graph :=
  match lookup g ρ with Some (VGraph gr) => Some gr | _ => None end.

Section cexec.
  Context (call : string -> list cval -> cstate -> option (cval * cstate)).

  Fixpoint cexec_stmt (ρ : cenv) (σ : cstate) (s : cstmt) : coutcome :=
    match s with
    | CSSkip => ONormal ρ σ
    | CSDefine vs e =>
        match ceval call ρ σ e with
        | Some (x, σ1) =>
            match vs, x with
            | [v], _ => match cassign v x ρ with Some ρ' => ONormal ρ' σ1 | None => OStuck end
            | _, VTuple xs => match cassign_all vs xs ρ with Some ρ' => ONormal ρ' σ1 | None => OStuck end
            | _, _ => OStuck
            end
        | None => OStuck
        end
    | CSVar v ty => match zero_value ty with Some x => ONormal (cbind v x ρ) σ | None => OStuck end
    | CSLookup2 v ok m k =>
        match ceval call ρ σ m with
        | Some (mv, σ1) =>
            match ceval call ρ σ1 k with
            | Some (VStr s, σ2) =>
                match clookup2 mv s with
                | Some (x, b) => match cassign_all [v; ok] [x; VBool b] ρ with
                                 | Some ρ' => ONormal ρ' σ2 | None => OStuck end
                | None => OStuck
                end
            | _ => OStuck
            end
        | None => OStuck
        end
    | CSSetIndex m k e =>
        match lookup m ρ, ceval call ρ σ k with
        | Some (VMap l), Some (VStr s, σ1) =>
            match ceval call ρ σ1 e with
            | Some (x, σ2) => match cupdate m (VMap (minsert s x l)) ρ with
                              | Some ρ' => ONormal ρ' σ2 | None => OStuck end
            | None => OStuck
            end
        | _, _ => OStuck
        end
    | CSSetField v f e =>
        match lookup v ρ, ceval call ρ σ e with
        | Some (VStruct ty fs), Some (x, σ1) =>
            match fupdate f x fs with
            | Some fs' => match cupdate v (VStruct ty fs') ρ with Some ρ' => ONormal ρ' σ1 | None => OStuck end
            | None => OStuck
            end
        | _, _ => OStuck
        end
    | CSDelete m k =>
        match lookup m ρ, ceval call ρ σ k with
        | Some (VMap l), Some (VStr s, σ1) =>
            match cupdate m (VMap (mdelete s l)) ρ with Some ρ' => ONormal ρ' σ1 | None => OStuck end
        | _, _ => OStuck
        end
    | CSGraphStoreTask g k e =>
        match get_graph ρ g, ceval call ρ σ k with
        | Some gr, Some (VStr s, σ1) =>
            match ceval call ρ σ1 e with
            | Some (VTask t, σ2) =>
                match cupdate g (VGraph (Graph (<[s := t]> (g_tasks gr)) (g_deps gr) (g_tombs gr))) ρ with
                | Some ρ' => ONormal ρ' σ2 | None => OStuck end
            | _ => OStuck
            end
        | _, _ => OStuck
        end
    | CSDepEnsure g from =>
        match get_graph ρ g, ceval call ρ σ from with
        | Some _, Some (VStr _, σ1) => ONormal ρ σ1
        | _, _ => OStuck
        end
    | CSDepInsert g from to =>
        match get_graph ρ g, ceval call ρ σ from with
        | Some gr, Some (VStr a, σ1) =>
            match ceval call ρ σ1 to with
            | Some (VStr b, σ2) =>
                match cupdate g (VGraph (Graph (g_tasks gr) ({[ (a, b) ]} ∪ g_deps gr) (g_tombs gr))) ρ with
                | Some ρ' => ONormal ρ' σ2 | None => OStuck end
            | _ => OStuck
            end
        | _, _ => OStuck
        end
    | CSDepDelete g from to =>
        match get_graph ρ g, ceval call ρ σ from with
        | Some gr, Some (VStr a, σ1) =>
            match ceval call ρ σ1 to with
            | Some (VStr b, σ2) =>
                match cupdate g (VGraph (Graph (g_tasks gr) (g_deps gr ∖ {[ (a, b) ]}) (g_tombs gr))) ρ with
                | Some ρ' => ONormal ρ' σ2 | None => OStuck end
            | _ => OStuck
            end
        | _, _ => OStuck
        end
    | CSIf init c th el =>
        match cexec_stmt ρ σ init with
        | ONormal ρ1 σ1 =>
            match ceval call ρ1 σ1 c with
            | Some (VBool b, σ2) =>
                match (if b then cexec_block ρ1 σ2 th else cexec_block ρ1 σ2 el) with
                | ONormal ρ2 σ3 => ONormal (crestore (List.length ρ) ρ2) σ3
                | OReturn vs ρ2 σ3 => OReturn vs (crestore (List.length ρ) ρ2) σ3
                | OContinue ρ2 σ3 => OContinue (crestore (List.length ρ) ρ2) σ3
                | OStuck => OStuck
                end
            | _ => OStuck
            end
        | _ => OStuck
        end
    | CSRange k v e body =>
        match ceval call ρ σ e with
        | Some (x, σ1) =>
            match range_items x with
            | Some items => cfor_each (λ ρ' σ', cexec_block ρ' σ' body) k v ρ σ1 items
            | None => OStuck
            end
        | None => OStuck
        end
    | CSExpr e => match ceval call ρ σ e with Some (_, σ1) => ONormal ρ σ1 | None => OStuck end
    | CSLock dst mode body =>
        if negb (name_eqb mode "syscall.LOCK_EX") then OStuck else
        match cexec_block ρ σ body with
        | OReturn [r] ρ1 σ1 =>
            let ρ2 := crestore (List.length ρ) ρ1 in
            match dst with
            | None => OReturn [r] ρ2 σ1
            | Some vb => match cassign vb r ρ2 with Some ρ3 => ONormal ρ3 σ1 | None => OStuck end
            end
        | _ => OStuck
        end
    | CSReturn es =>
        match ceval_args call ρ σ es with
        | Some ([VTuple vs], σ1) => OReturn vs ρ σ1       (* return f(), f multi-valued *)
        | Some (vs, σ1) => OReturn vs ρ σ1
        | None => OStuck
        end
    | CSContinue => OContinue ρ σ
    | CSUnknown _ => OStuck
    end
  with cexec_block (ρ : cenv) (σ : cstate) (b : cblock) : coutcome :=
    match b with
    | CBNil => ONormal ρ σ
    | CBCons s r =>
        match cexec_stmt ρ σ s with
        | ONormal ρ1 σ1 => cexec_block ρ1 σ1 r
        | o => o
        end
    end.

  Definition pack (vs : list cval) : cval := match vs with [v] => v | _ => VTuple vs end.

  Definition cexec_fn (fd : cfn) (vs : list cval) (σ : cstate) : option (cval * cstate) :=
    match cbind_params (cf_params fd) vs with
    | Some ρ =>
        match cexec_block ρ σ (cf_body fd) with
        | OReturn rs _ σ' => Some (pack rs, σ')
        | _ => None
        end
    | None => None
    end.
End cexec.

(** * Programs: the fuel bounds the call depth *)
Fixpoint crun (n : nat) (p : cprog) (f : string) (vs : list cval) (σ : cstate) : option (cval * cstate) :=
  match n with
  | O => None
  | S n' => match lookup f p with
            | Some fd => cexec_fn (crun n' p) fd vs σ
            | None => None
            end
  end.

Lemma crun_S n p f vs σ :
  crun (S n) p f vs σ = match lookup f p with
                        | Some fd => cexec_fn (crun n p) fd vs σ
                        | None => None
                        end.
Proof. reflexivity. Qed.

(** A lock section of a function, as its own unit: the captured variables are given as an
    environment; the result is what the closure returns, together with the final environment
    (assignments to captured variables) and state. *)
Definition crun_section (n : nat) (p : cprog) (body : cblock) (ρ : cenv) (σ : cstate) : option (cval * cenv * cstate) :=
  match cexec_block (crun n p) ρ σ body with
  | OReturn [r] ρ' σ' => Some (r, crestore (List.length ρ) ρ', σ')
  | _ => None
  end.

Ltac cir_simpl :=
  cbn [cblk cxs cfs cexec_fn cexec_block cexec_stmt ceval ceval_args ceval_fields do_call is_prim existsb
       cbind_params cbind cassign cassign_all cupdate crestore lookup name_eqb ascii_name_eqb bit_eqb
       andb orb negb cf_params cf_body fst snd pack cfor_each get_graph zero_value
       List.length drop Nat.sub
       prim_call ceq clen clookup1 clookup2 massoc mdelete minsert fassoc fupdate err_of as_list as_events
       range_items fmap list_fmap imap app task_field pick_taken is_some mk_event pstr pstamp keys_within forallb mk_task str_field time_field bool_field
       cs_clock cs_ids cs_uuids cs_load cs_fkind cs_sha cs_mtime cs_git cs_writes cs_out
       with_clock with_ids with_uuids with_write with_out].

Lemma cexec_block_cons call ρ σ s r :
  cexec_block call ρ σ (CBCons s r)
  = match cexec_stmt call ρ σ s with ONormal ρ1 σ1 => cexec_block call ρ1 σ1 r | o => o end.
Proof. reflexivity. Qed.
Lemma cexec_block_nil call ρ σ : cexec_block call ρ σ CBNil = ONormal ρ σ.
Proof. reflexivity. Qed.

(** ... the same without [cexec_block]: blocks stay folded, one statement is executed at a time
    ([cexec_block_cons]), so that a proof never normalises code that is not being executed. *)
Ltac cir_step_simpl :=
  cbn [cblk cxs cfs cexec_fn cexec_stmt ceval ceval_args ceval_fields do_call is_prim existsb
       cbind_params cbind cassign cassign_all cupdate crestore lookup name_eqb ascii_name_eqb bit_eqb
       andb orb negb cf_params cf_body fst snd pack cfor_each get_graph zero_value
       List.length drop Nat.sub
       prim_call ceq clen clookup1 clookup2 massoc mdelete minsert fassoc fupdate err_of as_list as_events
       range_items fmap list_fmap imap app task_field pick_taken is_some mk_event pstr pstamp keys_within forallb mk_task str_field time_field bool_field
       cs_clock cs_ids cs_uuids cs_load cs_fkind cs_sha cs_mtime cs_git cs_writes cs_out
       with_clock with_ids with_uuids with_write with_out].

(** * Fast symbolic execution for the bridge proofs
    [cexec_stmt_body] is the body of [cexec_stmt] with the recursive calls replaced by the constants,
    so that one statement can be unfolded ([change], by conversion) and normalised with [lazy] without
    ever unfolding [cexec_block] / [cexec_stmt] themselves: blocks stay folded and are entered one
    statement at a time. *)
Definition cexec_stmt_body (call : string -> list cval -> cstate -> option (cval * cstate)) (ρ : cenv) (σ : cstate) (s : cstmt) : coutcome :=
    match s with
    | CSSkip => ONormal ρ σ
    | CSDefine vs e =>
        match ceval call ρ σ e with
        | Some (x, σ1) =>
            match vs, x with
            | [v], _ => match cassign v x ρ with Some ρ' => ONormal ρ' σ1 | None => OStuck end
            | _, VTuple xs => match cassign_all vs xs ρ with Some ρ' => ONormal ρ' σ1 | None => OStuck end
            | _, _ => OStuck
            end
        | None => OStuck
        end
    | CSVar v ty => match zero_value ty with Some x => ONormal (cbind v x ρ) σ | None => OStuck end
    | CSLookup2 v ok m k =>
        match ceval call ρ σ m with
        | Some (mv, σ1) =>
            match ceval call ρ σ1 k with
            | Some (VStr s, σ2) =>
                match clookup2 mv s with
                | Some (x, b) => match cassign_all [v; ok] [x; VBool b] ρ with
                                 | Some ρ' => ONormal ρ' σ2 | None => OStuck end
                | None => OStuck
                end
            | _ => OStuck
            end
        | None => OStuck
        end
    | CSSetIndex m k e =>
        match lookup m ρ, ceval call ρ σ k with
        | Some (VMap l), Some (VStr s, σ1) =>
            match ceval call ρ σ1 e with
            | Some (x, σ2) => match cupdate m (VMap (minsert s x l)) ρ with
                              | Some ρ' => ONormal ρ' σ2 | None => OStuck end
            | None => OStuck
            end
        | _, _ => OStuck
        end
    | CSSetField v f e =>
        match lookup v ρ, ceval call ρ σ e with
        | Some (VStruct ty fs), Some (x, σ1) =>
            match fupdate f x fs with
            | Some fs' => match cupdate v (VStruct ty fs') ρ with Some ρ' => ONormal ρ' σ1 | None => OStuck end
            | None => OStuck
            end
        | _, _ => OStuck
        end
    | CSDelete m k =>
        match lookup m ρ, ceval call ρ σ k with
        | Some (VMap l), Some (VStr s, σ1) =>
            match cupdate m (VMap (mdelete s l)) ρ with Some ρ' => ONormal ρ' σ1 | None => OStuck end
        | _, _ => OStuck
        end
    | CSGraphStoreTask g k e =>
        match get_graph ρ g, ceval call ρ σ k with
        | Some gr, Some (VStr s, σ1) =>
            match ceval call ρ σ1 e with
            | Some (VTask t, σ2) =>
                match cupdate g (VGraph (Graph (<[s := t]> (g_tasks gr)) (g_deps gr) (g_tombs gr))) ρ with
                | Some ρ' => ONormal ρ' σ2 | None => OStuck end
            | _ => OStuck
            end
        | _, _ => OStuck
        end
    | CSDepEnsure g from =>
        match get_graph ρ g, ceval call ρ σ from with
        | Some _, Some (VStr _, σ1) => ONormal ρ σ1
        | _, _ => OStuck
        end
    | CSDepInsert g from to =>
        match get_graph ρ g, ceval call ρ σ from with
        | Some gr, Some (VStr a, σ1) =>
            match ceval call ρ σ1 to with
            | Some (VStr b, σ2) =>
                match cupdate g (VGraph (Graph (g_tasks gr) ({[ (a, b) ]} ∪ g_deps gr) (g_tombs gr))) ρ with
                | Some ρ' => ONormal ρ' σ2 | None => OStuck end
            | _ => OStuck
            end
        | _, _ => OStuck
        end
    | CSDepDelete g from to =>
        match get_graph ρ g, ceval call ρ σ from with
        | Some gr, Some (VStr a, σ1) =>
            match ceval call ρ σ1 to with
            | Some (VStr b, σ2) =>
                match cupdate g (VGraph (Graph (g_tasks gr) (g_deps gr ∖ {[ (a, b) ]}) (g_tombs gr))) ρ with
                | Some ρ' => ONormal ρ' σ2 | None => OStuck end
            | _ => OStuck
            end
        | _, _ => OStuck
        end
    | CSIf init c th el =>
        match cexec_stmt call ρ σ init with
        | ONormal ρ1 σ1 =>
            match ceval call ρ1 σ1 c with
            | Some (VBool b, σ2) =>
                match (if b then cexec_block call ρ1 σ2 th else cexec_block call ρ1 σ2 el) with
                | ONormal ρ2 σ3 => ONormal (crestore (List.length ρ) ρ2) σ3
                | OReturn vs ρ2 σ3 => OReturn vs (crestore (List.length ρ) ρ2) σ3
                | OContinue ρ2 σ3 => OContinue (crestore (List.length ρ) ρ2) σ3
                | OStuck => OStuck
                end
            | _ => OStuck
            end
        | _ => OStuck
        end
    | CSRange k v e body =>
        match ceval call ρ σ e with
        | Some (x, σ1) =>
            match range_items x with
            | Some items => cfor_each (λ ρ' σ', cexec_block call ρ' σ' body) k v ρ σ1 items
            | None => OStuck
            end
        | None => OStuck
        end
    | CSExpr e => match ceval call ρ σ e with Some (_, σ1) => ONormal ρ σ1 | None => OStuck end
    | CSLock dst mode body =>
        if negb (name_eqb mode "syscall.LOCK_EX") then OStuck else
        match cexec_block call ρ σ body with
        | OReturn [r] ρ1 σ1 =>
            let ρ2 := crestore (List.length ρ) ρ1 in
            match dst with
            | None => OReturn [r] ρ2 σ1
            | Some vb => match cassign vb r ρ2 with Some ρ3 => ONormal ρ3 σ1 | None => OStuck end
            end
        | _ => OStuck
        end
    | CSReturn es =>
        match ceval_args call ρ σ es with
        | Some ([VTuple vs], σ1) => OReturn vs ρ σ1       (* return f(), f multi-valued *)
        | Some (vs, σ1) => OReturn vs ρ σ1
        | None => OStuck
        end
    | CSContinue => OContinue ρ σ
    | CSUnknown _ => OStuck
    end.

Lemma cexec_stmt_body_eq call ρ σ s : cexec_stmt call ρ σ s = cexec_stmt_body call ρ σ s.
Proof. destruct s; reflexivity. Qed.

Ltac cir_lazy :=
  lazy beta iota zeta delta
      [cexec_stmt_body cblk cxs cfs ceval ceval_args ceval_fields do_call is_prim existsb
       cbind_params cbind cassign cassign_all cupdate crestore lookup name_eqb ascii_name_eqb bit_eqb
       andb orb negb cf_params cf_body fst snd pack get_graph zero_value
       List.length drop Nat.sub
       prim_call ceq clen clookup1 clookup2 massoc mdelete minsert fassoc fupdate as_list as_events
       range_items fmap list_fmap imap app task_field pick_taken is_some mk_event pstr pstamp keys_within forallb
       mk_task str_field time_field bool_field
       cs_clock cs_ids cs_uuids cs_load cs_fkind cs_sha cs_mtime cs_git cs_writes cs_out
       with_clock with_ids with_uuids with_write with_out].

(** one step at the point of execution: enter the next statement of the block being executed *)
Ltac cir_step_block :=
  lazymatch goal with
  | |- context C [cexec_block ?call ?ρ ?σ (CBCons ?s ?r)] =>
      let t := constr:(match cexec_stmt_body call ρ σ s with ONormal ρ1 σ1 => cexec_block call ρ1 σ1 r | o => o end) in
      let G := context C [t] in change G; cir_lazy
  | |- context C [cexec_block ?call ?ρ ?σ CBNil] =>
      let G := context C [ONormal ρ σ] in change G; cir_lazy
  | |- context C [cexec_stmt ?call ?ρ ?σ ?s] =>
      let G := context C [cexec_stmt_body call ρ σ s] in change G; cir_lazy
  | |- context C [@cfor_each ?f ?k ?v ?ρ ?σ ((?x, ?y) :: ?r)] =>
      let t := constr:(match f (cbind v y (cbind k x ρ)) σ with
                       | ONormal ρ' σ' | OContinue ρ' σ' => cfor_each f k v (crestore (List.length ρ) ρ') σ' r
                       | OReturn vs ρ' σ' => OReturn vs (crestore (List.length ρ) ρ') σ'
                       | OStuck => OStuck
                       end) in
      let G := context C [t] in change G; cir_lazy
  | |- context C [@cfor_each ?f ?k ?v ?ρ ?σ []] =>
      let G := context C [ONormal ρ σ] in change G; cir_lazy
  end.
