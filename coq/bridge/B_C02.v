(** Bridge C02: lock discipline of every mutating entry point, from the generated skeleton. *)
From Coq Require Import String List.
From ErgoGen Require Import Skeleton.
From ErgoBridge Require Import SkelLib.
Import ListNotations.
Local Open Scope string_scope.

(** every mutating command: ONE exclusive lock section; the log is read inside it, before its single
    write; nothing is written outside it; no loop of writes; no direct file-system manipulation. *)
Example C02_mutating_commands_are_one_locked_transaction :
  concat (map mutating_ok mutating_entries) = [].
Proof. vm_compute. reflexivity. Qed.

(** the lock file is never replaced: every process flocks the same inode. *)
Example C02_lock_file_is_never_replaced : withlock_prim_ok = [].
Proof. vm_compute. reflexivity. Qed.

(** init takes no lock and only creates what is missing (MkdirAll + the no-truncate ensure): it never renames, removes or rewrites a log. *)
Example C02_init_only_creates : init_ok = [].
Proof. vm_compute. reflexivity. Qed.

(** appendEvents: one write(2) per append, so no reader or crash can observe half a line of it. *)
Example C02_append_is_one_write : append_prim_ok = [].
Proof. vm_compute. reflexivity. Qed.
