(** ReadyIR.v — a small boolean-decision IR for the readiness functions of graph.go, and its
    interpreter over the model's [graph] / [task] types.

    The translator (tools/gen/ready_ir.go) pattern-matches the Go AST of [isReady], [isBlocked],
    [isEpicComplete], [areEpicDepsComplete] (and every package function they call), the loop bodies
    of [listTasks] / [filterTasksByKind] and the [sort.Slice] comparison closures of [readyTasks] /
    [sortByCreatedAt] into this IR (gen/ReadyGen.v).  Anything outside the fragment becomes an
    [EUnknown] / [SUnknown] node, on which the interpreter yields no result, so no equivalence
    theorem about a function containing one can be proved.

    Values are dynamically typed; a nil dereference, an ill-typed comparison, an unbound variable,
    a missing callee or running off the end of a function all yield [None] / [OErr]. *)
From Ergo Require Import Base Replay.
From Coq Require Import Ascii String.
Local Open Scope string_scope.
Local Open Scope list_scope.

(** ** Syntax *)

(** Fields of [Task] the fragment may read. *)
Inductive field :=
| FID | FUUID | FEpicID | FIsEpic | FState | FTitle | FBody | FClaimedBy | FCreatedAt | FUpdatedAt.

(** Element types of the local maps of the stateful fragment (bridge/HeapIR.v):
    map[string]bool, map[string]int, map[string]struct{}. *)
Inductive mapkind := KBool | KInt | KUnit.

Inductive expr :=
| EStr (s : string)                 (* string literal, or a named constant resolved to its value *)
| EBool (b : bool)                  (* true / false *)
| EVar (v : string)                 (* local variable or parameter *)
| EField (v : string) (f : field)   (* v.F with v a *Task variable *)
| EEq (a b : expr)                  (* a == b (strings or booleans) *)
| ENe (a b : expr)                  (* a != b *)
| ELt (a b : expr)                  (* a < b on strings (byte-wise) *)
| ETimeEqual (a b : expr)           (* a.Equal(b) *)
| ETimeBefore (a b : expr)          (* a.Before(b) *)
| ETimeAfter (a b : expr)           (* a.After(b) *)
| EAnd (a b : expr)                 (* a && b, short-circuit *)
| EOr (a b : expr)                  (* a || b, short-circuit *)
| ENot (a : expr)                   (* !a *)
| EIsNil (v : string)               (* v == nil *)
| ECall (f : string) (args : exprs) (* call of another translated function *)
| EInt (z : Z)                      (* integer literal (stateful fragment) *)
| EUnit                             (* struct{}{} (stateful fragment) *)
| EMapGet (m : string) (k : expr)   (* m[k], m a local map variable: the element or the zero value (stateful fragment) *)
| EUnknown (go : string)            (* not in the fragment; no value *)
with exprs := XNil | XCons (e : expr) (r : exprs).

Inductive stmt :=
| SIf (c : expr) (th el : block)                       (* if c { th } else { el } *)
| SReturn (e : expr)                                   (* return e *)
| SContinue                                            (* continue *)
| SLet (v : string) (e : expr)                         (* v := e *)
| SLookup (v ok gv : string) (key : expr)              (* v, ok := gv.Tasks[key] *)
| SRangeDeps (v gv : string) (key : expr) (body : block) (* for v := range gv.Deps[key] { body } *)
| SRangeTasks (v gv : string) (body : block)           (* for _, v := range gv.Tasks { body } *)
| SKeep                                                (* acc = append(acc, elem), tail position of a filter loop *)
(* the stateful fragment: local maps / string slices live in a heap; only bridge/HeapIR.v runs these *)
| SMakeMap (v : string) (k : mapkind)                  (* v := make(map[string]T) or v := map[string]T{} *)
| SMapSet (m : string) (k e : expr)                    (* m[k] = e *)
| SMapIncr (m : string) (k : expr)                     (* m[k]++ *)
| SMapHas (ok m : string) (k : expr)                   (* _, ok := m[k] *)
| SRangeKeys (v m : string) (body : block)             (* for v := range m { body }, m a local map *)
| SMakeStrs (v : string)                               (* v := make([]string, 0, n) *)
| SAppendStr (v : string) (e : expr)                   (* v = append(v, e) *)
| SSortStrs (v : string)                               (* sort.Strings(v) *)
| SUnknown (go : string)                               (* not in the fragment; error *)
with block := BNil | BCons (s : stmt) (b : block).

(** List-shaped front ends used by the generated file. *)
Fixpoint blk (l : list stmt) : block :=
  match l with [] => BNil | s :: r => BCons s (blk r) end.
Fixpoint xs (l : list expr) : exprs :=
  match l with [] => XNil | e :: r => XCons e (xs r) end.

(** [fn_filter = true]: the body is (element-independent prelude ++ loop body) of a filtering
    loop; the element is kept iff execution reaches [SKeep]; [continue] or the end of the body
    drops it.  Otherwise an ordinary function: it must reach a [return]. *)
Inductive ty := TString | TBool | TTask | TTaskSlice | TTaskMap | TGraph | TMap (k : mapkind) | TOther (go : string).
Record fndef := FnDef { fn_params : list (string * ty); fn_filter : bool; fn_body : block }.
Definition prog := list (string * fndef).

(** ** Values and environments *)

Inductive value :=
| VStr (s : string) | VBool (b : bool) | VTime (z : time)
| VTask (o : option task)      (* a *Task; [None] is nil *)
| VGraph                       (* the *Graph (there is exactly one) *)
| VSlice                       (* a []*Task / map[string]*Task the fragment never inspects as a whole *)
| VInt (z : Z) | VUnit         (* stateful fragment: an int, struct{}{} *)
| VRef (r : nat).              (* stateful fragment: a local map / []string, by reference into the heap *)

Definition env := list (string * value).

(** Variable / function names are compared with a private copy of string equality, so that
    proofs can compute name look-ups without unfolding the [String.eqb] tests on data. *)
Definition bit_eqb (a b : bool) : bool := if a then b else negb b.
Definition ascii_name_eqb (a b : ascii) : bool :=
  match a, b with
  | Ascii a0 a1 a2 a3 a4 a5 a6 a7, Ascii b0 b1 b2 b3 b4 b5 b6 b7 =>
      bit_eqb a0 b0 && bit_eqb a1 b1 && bit_eqb a2 b2 && bit_eqb a3 b3
      && bit_eqb a4 b4 && bit_eqb a5 b5 && bit_eqb a6 b6 && bit_eqb a7 b7
  end.
Fixpoint name_eqb (a b : string) : bool :=
  match a, b with
  | EmptyString, EmptyString => true
  | String x a', String y b' => ascii_name_eqb x y && name_eqb a' b'
  | _, _ => false
  end.

Fixpoint lookup {A} (x : string) (l : list (string * A)) : option A :=
  match l with
  | [] => None
  | (y, v) :: r => if name_eqb x y then Some v else lookup x r
  end.

Definition get_field (f : field) (t : task) : value :=
  match f with
  | FID => VStr (t_id t) | FUUID => VStr (t_uuid t) | FEpicID => VStr (t_epic t)
  | FIsEpic => VBool (t_is_epic t) | FState => VStr (t_state t) | FTitle => VStr (t_title t)
  | FBody => VStr (t_body t) | FClaimedBy => VStr (t_claimed t)
  | FCreatedAt => VTime (t_created t) | FUpdatedAt => VTime (t_updated t)
  end.

(** How the model's graph represents the Go maps the fragment ranges over.  The Go iteration
    order is unspecified; the interpreter fixes the order of [elements] / [map_to_list]. *)
Definition go_deps_keys (g : graph) (i : string) : list string :=
  snd <$> filter (λ p, p.1 = i) (elements (g_deps g)).           (* keys of graph.Deps[i] *)
Definition go_tasks_values (g : graph) : list task := snd <$> map_to_list (g_tasks g).
Definition go_tasks_lookup (g : graph) (i : string) : option task := g_tasks g !! i.
Definition is_some {A} (o : option A) : bool := match o with Some _ => true | None => false end.

Definition eq_values (a b : value) : option bool :=
  match a, b with
  | VStr x, VStr y => Some (String.eqb x y)
  | VBool x, VBool y => Some (Bool.eqb x y)
  | VInt x, VInt y => Some (Z.eqb x y)
  | _, _ => None
  end.

(** ** Expressions *)
Section eval.
  Context (call : string -> list value -> option value) (ρ : env).

  Definition as_bool (o : option value) : option bool :=
    match o with Some (VBool b) => Some b | _ => None end.
  Definition time_rel (r : Z -> Z -> bool) (a b : option value) : option value :=
    match a, b with Some (VTime x), Some (VTime y) => Some (VBool (r x y)) | _, _ => None end.

  Fixpoint eval (e : expr) : option value :=
    match e with
    | EStr s => Some (VStr s)
    | EBool b => Some (VBool b)
    | EVar v => lookup v ρ
    | EField v f =>
        match lookup v ρ with
        | Some (VTask (Some t)) => Some (get_field f t)
        | _ => None
        end
    | EEq a b =>
        match eval a, eval b with
        | Some x, Some y => match eq_values x y with Some r => Some (VBool r) | None => None end
        | _, _ => None
        end
    | ENe a b =>
        match eval a, eval b with
        | Some x, Some y => match eq_values x y with Some r => Some (VBool (negb r)) | None => None end
        | _, _ => None
        end
    | ELt a b =>
        match eval a, eval b with
        | Some (VStr x), Some (VStr y) => Some (VBool (String.ltb x y))
        | _, _ => None
        end
    | ETimeEqual a b => time_rel Z.eqb (eval a) (eval b)
    | ETimeBefore a b => time_rel Z.ltb (eval a) (eval b)
    | ETimeAfter a b => time_rel (λ x y, Z.ltb y x) (eval a) (eval b)
    | EAnd a b =>
        match as_bool (eval a) with
        | Some x => if x then (match as_bool (eval b) with Some y => Some (VBool y) | None => None end)
                    else Some (VBool false)
        | None => None
        end
    | EOr a b =>
        match as_bool (eval a) with
        | Some x => if x then Some (VBool true)
                    else (match as_bool (eval b) with Some y => Some (VBool y) | None => None end)
        | None => None
        end
    | ENot a => match as_bool (eval a) with Some x => Some (VBool (negb x)) | None => None end
    | EIsNil v =>
        match lookup v ρ with
        | Some (VTask o) => Some (VBool (negb (is_some o)))
        | _ => None
        end
    | ECall f args =>
        match eval_args args with Some vs => call f vs | None => None end
    | EInt z => Some (VInt z)
    | EUnit => Some VUnit
    | EMapGet _ _ => None            (* there is no heap here: stuck *)
    | EUnknown _ => None
    end
  with eval_args (l : exprs) : option (list value) :=
    match l with
    | XNil => Some []
    | XCons e r =>
        match eval e, eval_args r with
        | Some v, Some vs => Some (v :: vs)
        | _, _ => None
        end
    end.
End eval.

(** ** Statements *)
Inductive outcome := ONormal (ρ : env) | OReturn (v : value) | OContinue | OErr.

(** One loop: [continue] / falling off the body go on to the next element; [return] stops. *)
Fixpoint for_each {A} (f : A -> outcome) (ρ : env) (l : list A) : outcome :=
  match l with
  | [] => ONormal ρ
  | x :: r => match f x with
              | ONormal _ | OContinue => for_each f ρ r
              | o => o
              end
  end.

Definition is_graph (ρ : env) (gv : string) : bool :=
  match lookup gv ρ with Some VGraph => true | _ => false end.

Section exec.
  Context (call : string -> list value -> option value) (g : graph).

  (** Blocks are scoped: variables bound inside an [if] / loop body do not escape. *)
  Fixpoint exec_stmt (ρ : env) (s : stmt) : outcome :=
    match s with
    | SIf c th el =>
        match as_bool (eval call ρ c) with
        | Some b => match (if b then exec_block ρ th else exec_block ρ el) with
                    | ONormal _ => ONormal ρ
                    | o => o
                    end
        | None => OErr
        end
    | SReturn e => match eval call ρ e with Some v => OReturn v | None => OErr end
    | SContinue => OContinue
    | SLet v e => match eval call ρ e with Some x => ONormal ((v, x) :: ρ) | None => OErr end
    | SLookup v ok gv key =>
        if is_graph ρ gv then
          match eval call ρ key with
          | Some (VStr k) =>
              ONormal ((ok, VBool (is_some (go_tasks_lookup g k))) :: (v, VTask (go_tasks_lookup g k)) :: ρ)
          | _ => OErr
          end
        else OErr
    | SRangeDeps v gv key body =>
        if is_graph ρ gv then
          match eval call ρ key with
          | Some (VStr k) => for_each (λ d, exec_block ((v, VStr d) :: ρ) body) ρ (go_deps_keys g k)
          | _ => OErr
          end
        else OErr
    | SRangeTasks v gv body =>
        if is_graph ρ gv then
          for_each (λ t, exec_block ((v, VTask (Some t)) :: ρ) body) ρ (go_tasks_values g)
        else OErr
    | SKeep => OReturn (VBool true)
    | SMakeMap _ _ | SMapSet _ _ _ | SMapIncr _ _ | SMapHas _ _ _ | SRangeKeys _ _ _
    | SMakeStrs _ | SAppendStr _ _ | SSortStrs _ => OErr      (* there is no heap here: stuck *)
    | SUnknown _ => OErr
    end
  with exec_block (ρ : env) (b : block) : outcome :=
    match b with
    | BNil => ONormal ρ
    | BCons s r => match exec_stmt ρ s with
                   | ONormal ρ' => exec_block ρ' r
                   | o => o
                   end
    end.

  (** Parameters are bound by position; the declared Go type must fit the value. *)
  Definition fits (t : ty) (v : value) : bool :=
    match t, v with
    | TString, VStr _ | TBool, VBool _ | TTask, VTask _ | TGraph, VGraph | TTaskSlice, VSlice | TTaskMap, VSlice
    | TMap _, VRef _ => true
    | _, _ => false
    end.
  Fixpoint bind_params (ps : list (string * ty)) (vs : list value) : option env :=
    match ps, vs with
    | [], [] => Some []
    | (p, t) :: ps', v :: vs' =>
        if fits t v then
          match bind_params ps' vs' with Some ρ => Some ((p, v) :: ρ) | None => None end
        else None
    | _, _ => None
    end.

  Definition exec_fn (fd : fndef) (vs : list value) : option value :=
    match bind_params (fn_params fd) vs with
    | Some ρ =>
        match exec_block ρ (fn_body fd) with
        | OReturn v => Some v
        | ONormal _ | OContinue => if fn_filter fd then Some (VBool false) else None
        | OErr => None
        end
    | None => None
    end.
End exec.

(** ** Programs: calls are resolved by name; the call depth is bounded by the fuel. *)
Fixpoint run (n : nat) (p : prog) (g : graph) (f : string) (vs : list value) : option value :=
  match n with
  | O => None
  | S n' => match lookup f p with
            | Some fd => exec_fn (run n' p g) g fd vs
            | None => None
            end
  end.

Lemma run_S n p g f vs :
  run (S n) p g f vs = match lookup f p with
                       | Some fd => exec_fn (run n p g) g fd vs
                       | None => None
                       end.
Proof. reflexivity. Qed.

(** The translated functions do not recurse, so [length p] levels of calls always suffice. *)
Definition interp (p : prog) (g : graph) (f : string) (vs : list value) : option value :=
  run (List.length p) p g f vs.
Definition interp_bool (p : prog) (g : graph) (f : string) (vs : list value) : option bool :=
  as_bool (interp p g f vs).

(** ** Pipelines: [readyTasks] is "take a filtering function's result, filter it again, sort it".
    The abstract result of a pipeline is, per element [t] of graph.Tasks, whether the returned slice
    contains it, together with the name of the comparison the slice is finally sorted by.  (Go's nil
    and empty slices are identified; filtering keeps the order; the last sort decides the order.) *)
Inductive pstage :=
| PFrom (v keep : string) (args : exprs)     (* v := f(args), f a filtering loop over graph.Tasks with predicate [keep] *)
| PNilIfEmpty (v : string)                   (* if len(v) == 0 { return nil } *)
| PFilter (v keep : string) (args : exprs)   (* v = f(v, args), f a filtering loop over its first parameter *)
| PSort (v less : string)                    (* sort.Slice(v, less) *)
| PReturn (v : string)                       (* return v *)
| PUnknown (go : string).
Record pipeline := Pipeline { pl_params : list (string * ty); pl_stages : list pstage }.

Section pipe.
  Context (call : string -> list value -> option value) (ρ : env) (t : task).
  (** state: the slice variable, is [t] in it, the order it was last sorted by *)
  Fixpoint pipe_run (st : option (string * bool * option string)) (l : list pstage) : option (bool * string) :=
    match l with
    | [] => None
    | PFrom v keep args :: r =>
        match st, eval_args call ρ args with
        | None, Some vs =>
            match as_bool (call keep (vs ++ [VTask (Some t)])) with
            | Some b => pipe_run (Some (v, b, None)) r
            | None => None
            end
        | _, _ => None
        end
    | PNilIfEmpty v :: r =>
        match st with
        | Some (v', b, o) => if name_eqb v v' then pipe_run st r else None
        | None => None
        end
    | PFilter v keep args :: r =>
        match st, eval_args call ρ args with
        | Some (v', b, o), Some vs =>
            if name_eqb v v' then
              match as_bool (call keep (VSlice :: vs ++ [VTask (Some t)])) with
              | Some b' => pipe_run (Some (v', b && b', o)) r
              | None => None
              end
            else None
        | _, _ => None
        end
    | PSort v less :: r =>
        match st with
        | Some (v', b, _) => if name_eqb v v' then pipe_run (Some (v', b, Some less)) r else None
        | None => None
        end
    | PReturn v :: r =>
        match st, r with
        | Some (v', b, Some less), [] => if name_eqb v v' then Some (b, less) else None
        | _, _ => None
        end
    | PUnknown _ :: _ => None
    end.
End pipe.

Definition interp_pipeline (p : prog) (pl : pipeline) (g : graph) (vs : list value) (t : task) : option (bool * string) :=
  match bind_params (pl_params pl) vs with
  | Some ρ => pipe_run (run (List.length p) p g) ρ t None (pl_stages pl)
  | None => None
  end.

(** ** Loop lemmas: the loops of the fragment are "exists an element on which the body returns". *)
Definition is_skip (o : outcome) : Prop :=
  match o with ONormal _ | OContinue => True | _ => False end.

Lemma for_each_any {A} (f : A -> outcome) (ρ : env) (l : list A) (p : A -> bool) (v : value) :
  (forall x, if p x then f x = OReturn v else is_skip (f x)) ->
  for_each f ρ l = if existsb p l then OReturn v else ONormal ρ.
Proof.
  intros H. induction l as [|x l IH]; [reflexivity|].
  cbn [for_each existsb]. specialize (H x). destruct (p x); cbn [orb].
  - rewrite H. reflexivity.
  - destruct (f x); cbn in H; try contradiction; exact IH.
Qed.

Lemma existsb_negb_forallb {A} (q : A -> bool) (l : list A) :
  existsb (λ x, negb (q x)) l = negb (forallb q l).
Proof.
  induction l as [|x l IH]; [reflexivity|]. cbn [existsb forallb].
  rewrite IH. destruct (q x); reflexivity.
Qed.

(** Symbolic execution of IR terms: unfold exactly the interpreter, nothing of the data. *)
Ltac ir_simpl :=
  cbn [pipe_run pl_params pl_stages app blk xs exec_fn exec_block exec_stmt eval eval_args bind_params fits lookup name_eqb ascii_name_eqb
       bit_eqb andb orb negb as_bool time_rel eq_values get_field is_graph is_some
       fn_params fn_filter fn_body].
