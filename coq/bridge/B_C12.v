(** Bridge C12: read-only entry points contain no write effect, no lock, no raw file operation. *)
From Coq Require Import String List.
From ErgoGen Require Import Skeleton.
From ErgoBridge Require Import SkelLib.
Import ListNotations.
Local Open Scope string_scope.
Example C12_read_only_commands_do_not_write : concat (map readonly_ok readonly_entries) = [].
Proof. vm_compute. reflexivity. Qed.
Example C12_init_only_creates : init_ok = [].
Proof. vm_compute. reflexivity. Qed.

(** appendEvents itself: the whole batch in ONE write(2) (or the atomic rewrite), never a loop of writes, never truncating in place. *)
Example C12_append_is_one_write : append_prim_ok = [].
Proof. vm_compute. reflexivity. Qed.
