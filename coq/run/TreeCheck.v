(** TreeCheck.v — differential runner for Layout/Tree: evaluates the model on
    harness-recorded cases and returns the indexes (and tags) that disagree
    with the Go implementation.  Outputs are compared through a 61-bit
    polynomial hash of their bytes (string literals are expensive to
    elaborate); inputs are literal. *)
From Ergo Require Import Base Text Events Replay Ready Compact Utf8Lite Layout Tree.
From ErgoRun Require Import Check.
From stdpp Require Import nmap.
Local Open Scope string_scope.
Local Open Scope list_scope.

Definition hmod : N := 2305843009213693951%N.
Definition hash_bytes (l : list N) (h : N) : N :=
  fold_left (λ h b, ((h * 257 + b + 1) mod hmod)%N) l h.
Definition hash_str (s : string) : N := hash_bytes (bytes_of s) 0%N.
Fixpoint hash_lines (ls : list string) (h : N) : N :=
  match ls with
  | [] => h
  | l :: r => hash_lines r (hash_bytes (bytes_of l ++ [10%N]) h)
  end.

(** rune-width table as measured from go-runewidth for the runes in use *)
Definition mk_rw (m : Nmap nat) : N → nat :=
  λ r, match m !! r with Some n => n | None => 7 end.

Inductive lcase :=
| LFmt (w : Z) (pfx conn : string) (show : bool) (icon i title : string) (anns : list string)
       (blocker : string) (is_epic : bool) (expect : N) (vis : Z)
| LTrunc (w : Z) (s : string) (expect : N)
| LAbbr (w : Z) (s : string) (expect : N).

Definition run_lcase (rw : N → nat) (c : lcase) : bool :=
  match c with
  | LFmt w p c s ic i t a b e x vis =>
      let line := format_tree_line rw w p c s ic i t a b e in
      (N.eqb (hash_str line) x && Z.eqb (vl rw line) vis)%bool
  | LTrunc w s x => N.eqb (hash_str (truncate_to_width rw s w)) x
  | LAbbr w s x => N.eqb (hash_str (abbreviate s w)) x
  end.

Fixpoint run_lcases_aux (rw : N → nat) (cs : list lcase) (k : nat) : list nat :=
  match cs with
  | [] => []
  | c :: r => (if run_lcase rw c then [] else [k]) ++ run_lcases_aux rw r (1 + k)%nat
  end.
Definition run_lcases rw cs := run_lcases_aux rw cs 0.

(** Stores *)
Inductive tq := TQ (all ready : bool) (epic : string) (w : Z) (expect : N).
Inductive cq := CQ (m : mode) (expect : N).
Record scase := SCase { sc_events : list event; sc_repo : string; sc_tq : list tq; sc_cq : list cq }.

Definition run_tq rw g repo (q : tq) : bool :=
  let '(TQ a r e w x) := q in
  N.eqb (hash_lines (list_rows rw g w repo a r e) 0%N) x.
Definition run_cq rw g repo (q : cq) : bool :=
  let '(CQ m x) := q in
  match list_output rw g 80 repo m with
  | Some ls => N.eqb (hash_lines ls 0%N) x
  | None => false
  end.

Fixpoint idx_false (l : list bool) (k : nat) : list nat :=
  match l with [] => [] | b :: r => (if b then [] else [k]) ++ idx_false r (1 + k)%nat end.

(** per store: (store index, failing tree queries, failing cli queries); 999 = replay failed *)
Definition run_scase rw (c : scase) : list nat * list nat :=
  match replay (sc_events c) with
  | Ok g => (idx_false (run_tq rw g (sc_repo c) <$> sc_tq c) 0, idx_false (run_cq rw g (sc_repo c) <$> sc_cq c) 0)
  | Err _ => ([999], [999])
  end.
Fixpoint run_scases_aux rw (cs : list scase) (k : nat) : list (nat * list nat * list nat) :=
  match cs with
  | [] => []
  | c :: r => (match run_scase rw c with
               | ([], []) => []
               | (a, b) => [(k, a, b)]
               end) ++ run_scases_aux rw r (1 + k)%nat
  end.
Definition run_scases rw cs := run_scases_aux rw cs 0.
