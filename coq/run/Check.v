(** Check.v — correspondence: run the model on harness-recorded cases and
    return the list of mismatch tags (pure Gallina, evaluated by vm_compute). *)
From Ergo Require Import Base Text Events Replay Ready Compact Path Cmd Input View Storage.
Local Open Scope string_scope.
Local Open Scope list_scope.

Global Instance result_eq_dec : EqDecision result. Proof. solve_decision. Defined.
Global Instance event_eq_dec : EqDecision event. Proof. solve_decision. Defined.
Global Instance reply_eq_dec : EqDecision reply. Proof. solve_decision. Defined.

(** Build strings from byte lists (for text the harness cannot write as a literal). *)
Fixpoint S (l : list N) : string :=
  match l with [] => EmptyString | n :: r => String (Ascii.ascii_of_N n) (S r) end.

Inductive osnap_or_err := SnapOk (s : osnap) | SnapErr.

Record step := Step {
  s_req : request; s_env : env;
  s_ok : bool;                 (* observed exit status = 0 *)
  s_log : list event;          (* observed log after the command, decoded by Go *)
  s_snap : osnap_or_err;       (* observed snapshot of that log, by Go's replay *)
  s_reply : reply }.           (* observed reply, projected *)
Record case := Case { c_init : list event; c_steps : list step }.

Definition tag_if (b : bool) (t : string) : list string := if b then [t] else [].

Definition cmp_task (m o : otask) : list string :=
  tag_if (negb (String.eqb (o_id m) (o_id o))) "LiveSet"
  ++ tag_if (negb (String.eqb (o_uuid m) (o_uuid o))) "Uuid"
  ++ tag_if (negb (String.eqb (o_epic m) (o_epic o))) "Epic"
  ++ tag_if (negb (Bool.eqb (o_is_epic m) (o_is_epic o))) "Kind"
  ++ tag_if (negb (String.eqb (o_state m) (o_state o))) "State"
  ++ tag_if (negb (String.eqb (o_title m) (o_title o))) "Title"
  ++ tag_if (negb (String.eqb (o_body m) (o_body o))) "Body"
  ++ tag_if (negb (String.eqb (o_claimed m) (o_claimed o))) "ClaimedBy"
  ++ tag_if (negb (Z.eqb (o_created m) (o_created o))) "Created"
  ++ tag_if (negb (Z.eqb (o_updated m) (o_updated o))) "Updated"
  ++ tag_if (negb (bool_decide (o_claimed_at m = o_claimed_at o))) "ClaimedAt"
  ++ tag_if (negb (bool_decide (o_deps m = o_deps o))) "Deps"
  ++ tag_if (negb (bool_decide (o_rdeps m = o_rdeps o))) "RDeps"
  ++ tag_if (negb (bool_decide (o_results m = o_results o))) "Results"
  ++ tag_if (negb (Bool.eqb (o_ready m) (o_ready o))) "ReadyFlag"
  ++ tag_if (negb (Bool.eqb (o_blocked m) (o_blocked o))) "BlockedFlag".

Fixpoint cmp_tasks (ms os : list otask) : list string :=
  match ms, os with
  | [], [] => []
  | m :: ms', o :: os' => cmp_task m o ++ cmp_tasks ms' os'
  | _, _ => ["LiveSet"]
  end.

Definition cmp_snap (m : res graph) (o : osnap_or_err) : list string :=
  match m, o with
  | Err _, SnapErr => []
  | Ok g, SnapOk s =>
      let v := view g in
      cmp_tasks (os_tasks v) (os_tasks s)
      ++ tag_if (negb (bool_decide (os_tombs v = os_tombs s))) "Tombs"
      ++ tag_if (negb (bool_decide (os_ready_order v = os_ready_order s))) "ClaimOrder"
      ++ tag_if (negb (bool_decide (os_prune v = os_prune s))) "PruneTargets"
  | _, _ => ["ReplayErr"]
  end.

Definition check_step (log : list event) (st : step) : list string :=
  let '(log', (ok, r)) := exec_req (s_env st) log (s_req st) in
  tag_if (negb (Bool.eqb ok (s_ok st))) "Exit"
  ++ tag_if (negb (bool_decide (log' = s_log st))) "Events"
  ++ tag_if (ok && s_ok st && negb (bool_decide (r = s_reply st)))%bool "Reply"
  ++ cmp_snap (replay (s_log st)) (s_snap st).

Fixpoint check_steps (k : nat) (log : list event) (sts : list step) : list (nat * string) :=
  match sts with
  | [] => []
  | st :: rest => ((λ t, (k, t)) <$> check_step log st) ++ check_steps (Datatypes.S k) (s_log st) rest
  end.

Definition check_case (c : case) : list (nat * string) := check_steps 0 (c_init c) (c_steps c).

Definition run_cases (cs : list case) : list (nat * nat * string) :=
  concat (imap (λ i c, (λ p, (i, p.1, p.2)) <$> check_case c) cs).

(** * Synthetic logs: replay (and compaction) of an arbitrary event list vs Go *)
Record logcase := LogCase {
  lc_log : list event;
  lc_snap : osnap_or_err;                               (* Go's replay of the log *)
  lc_compact : option (list event * osnap_or_err) }.    (* Go's compactEvents + replay of that *)

Definition obs_tags (a b : osnap) : list string :=
  cmp_tasks (os_tasks a) (os_tasks b)
  ++ tag_if (negb (bool_decide (os_ready_order a = os_ready_order b))) "ClaimOrder".

Definition check_logcase (c : logcase) : list string :=
  cmp_snap (replay (lc_log c)) (lc_snap c)
  ++ match lc_compact c, replay (lc_log c) with
     | Some (cevs, csnap), Ok g =>
         tag_if (negb (bool_decide (compact_events g = cevs))) "CompactEvents"
         ++ cmp_snap (replay (compact_events g)) csnap
     | _, _ => []
     end.

Definition run_logcases (cs : list logcase) : list (nat * string) :=
  concat (imap (λ i c, (λ t, (i, t)) <$> check_logcase c) cs).

(** * Arbitrary file contents: readEvents over classified lines vs Go *)
Inductive fileobs := FOk (evs : list event) | FBadLine (k : nat) | FTooLong | FOtherErr.
Record filecase := FileCase { fc_lines : list line; fc_ends_nl : bool; fc_obs : fileobs }.
Definition check_filecase (c : filecase) : list string :=
  match read_lines (fc_lines c) (fc_ends_nl c), fc_obs c with
  | Ok evs, FOk evs' => tag_if (negb (bool_decide (evs = evs'))) "ReadEvents"
  | Err (RBadJSON k), FBadLine k' => tag_if (negb (Nat.eqb k k')) "ReadErrLine"
  | Err RTooLong, FTooLong => []
  | _, _ => ["ReadErr"]
  end.
Definition run_filecases (cs : list filecase) : list (nat * string) :=
  concat (imap (λ i c, (λ t, (i, t)) <$> check_filecase c) cs).
