(** SchedCheck.v — correspondence for controlled schedules: the same schedule the controller drove
    the real processes through is fed to [run_schedule]; outcomes, final log and reader results are compared. *)
From Ergo Require Import Base Text Events Replay Ready Compact Path Cmd Input View Storage Sched Concurrent.
From ErgoRun Require Import Check.
Local Open Scope string_scope.
Local Open Scope list_scope.

Notation PWriter := Writer (only parsing).
Notation PReader := Reader (only parsing).
Inductive pobs := ObsOk | ObsFail | ObsBusy | ObsDead | ObsRead (evs : list event) | ObsReadErr | ObsNone | ObsSkip.
Inductive tailobs := TailClean | TailTorn | TailValid.

Record schedcase := SchedCase {
  sc_init : list event; sc_init_tail : tailobs;
  sc_procs : list proc;
  sc_sched : list (nat * action);
  sc_outcomes : list pobs;
  sc_final : list event;           (* what readEvents returns on the final file *)
  sc_final_tail : tailobs }.

Definition init_pst (p : proc) : pst event := pst_of p.

Definition obs_of_pst (s : pst event) : pobs :=
  match s with
  | PDone OOk => ObsOk | PDone OFail => ObsFail | PDone OBusy => ObsBusy | PDead => ObsDead
  | RDone (Some evs) => ObsRead evs | RDone None => ObsReadErr
  | _ => ObsNone
  end.
Global Instance pobs_eq_dec : EqDecision pobs. Proof. solve_decision. Defined.

Definition tail_of (t : tail event) : tailobs :=
  match t with TClean => TailClean | TTorn => TailTorn | TValid _ => TailValid end.
Global Instance tailobs_eq_dec : EqDecision tailobs. Proof. solve_decision. Defined.

Definition check_schedcase (c : schedcase) : list string :=
  let f0 := match sc_init_tail c with
            | TailClean => File (sc_init c) TClean
            | TailTorn => File (sc_init c) TTorn
            | TailValid => match reverse (sc_init c) with
                           | e :: r => File (reverse r) (TValid e)
                           | [] => File [] TClean
                           end
            end in
  let w := run_schedule (init_world f0 (init_pst <$> sc_procs c)) (sc_sched c) in
  tag_if (negb (forallb (fun mo => match mo.2 with ObsSkip => true | o => bool_decide (mo.1 = o) end)
                        (zip (obs_of_pst <$> w_procs w) (sc_outcomes c))
                && Nat.eqb (length (w_procs w)) (length (sc_outcomes c)))) "SchedOutcome"
  ++ tag_if (negb (bool_decide (read_events (cur_file w) = sc_final c))) "SchedFinalLog"
  ++ tag_if (negb (bool_decide (tail_of (f_tail (cur_file w)) = sc_final_tail c))) "SchedTail".

Definition run_schedcases (cs : list schedcase) : list (nat * string) :=
  concat (imap (λ i c, (λ t, (i, t)) <$> check_schedcase c) cs).
