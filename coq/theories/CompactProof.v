(** CompactProof.v — compaction preserves everything a reader can observe. *)
From Ergo Require Import Base Text Events Replay Ready Compact Cmd View TextFacts CompactCore.
Local Open Scope string_scope.
Local Open Scope list_scope.

(** * Time arithmetic *)

Lemma max_time_max a b : max_time a b = Z.max a b.
Proof. unfold max_time, after. destruct (Z.ltb_spec a b); lia. Qed.

Lemma is_zero_false_iff ts : is_zero ts = false <-> ts <> zero_time.
Proof. unfold is_zero. destruct (Z.eqb_spec ts zero_time); split; congruence. Qed.

Lemma touched_true last c : touched last c = true <-> is_zero last = false /\ (c < last)%Z.
Proof.
  unfold touched, after. destruct (is_zero last); cbn; [split; [discriminate|intros [? _]; discriminate]|].
  destruct (Z.ltb_spec c last); split; try tauto; try discriminate. intros [_ ?]. lia.
Qed.

Lemma pick_time_nonzero last u : is_zero last = false -> pick_time last u = last.
Proof. unfold pick_time. intros ->. reflexivity. Qed.

Lemma pick_time_le last u : (is_zero last = false -> (last <= u)%Z) -> (pick_time last u <= u)%Z.
Proof. unfold pick_time. destruct (is_zero last); [lia|]. intros H. apply H. reflexivity. Qed.

(** * Well-formedness of replayed tasks *)

(** The part needed for everything but [updated_at]. *)
Record task_wf0 (t : task) : Prop := {
  wf_created : created_at t = t_created t;
  wf_claim : t_claimed t <> "" -> is_zero (m_last_claim t) = false;
  wf_epic : t_is_epic t = true -> t_epic t = m_epic t }.

(** The part needed for [updated_at]: [t_updated] dominates every recorded
    stamp and is attained by one that compaction re-emits. *)
Record task_wfu (t : task) : Prop := {
  wf_created_le : (t_created t <= t_updated t)%Z;
  wf_last_title : is_zero (m_last_title t) = false -> (m_last_title t <= t_updated t)%Z;
  wf_last_body : is_zero (m_last_body t) = false -> (m_last_body t <= t_updated t)%Z;
  wf_last_state : is_zero (m_last_state t) = false -> (m_last_state t <= t_updated t)%Z;
  wf_last_epic : t_is_epic t = false -> is_zero (m_last_epic t) = false -> (m_last_epic t <= t_updated t)%Z;
  wf_results : Forall (fun r => (r_at r <= t_updated t)%Z) (t_results t);
  wf_attained :
    t_updated t = t_created t
    \/ (is_zero (m_last_title t) = false /\ t_updated t = m_last_title t)
    \/ (is_zero (m_last_body t) = false /\ t_updated t = m_last_body t)
    \/ (is_zero (m_last_state t) = false /\ t_updated t = m_last_state t)
    \/ (t_is_epic t = false /\ is_zero (m_last_epic t) = false /\ t_updated t = m_last_epic t)
    \/ Exists (fun r => r_at r = t_updated t) (t_results t) }.

Definition graph_wf0 (g : graph) : Prop :=
  forall k t, g_tasks g !! k = Some t -> t_id t = k /\ task_wf0 t.
Definition graph_wf (g : graph) : Prop :=
  forall k t, g_tasks g !! k = Some t -> t_id t = k /\ task_wf0 t /\ task_wfu t.

Lemma graph_wf_wf0 g : graph_wf g -> graph_wf0 g.
Proof. intros H k t E. destruct (H k t E) as (?&?&?). split; assumption. Qed.

Lemma task_wf0_migrate t : task_wf0 t -> task_wf0 (migrate t).
Proof.
  intros [H1 H2 H3].
  destruct (migrate_fields t) as (_&_&He&Hi&_&Hcl&Hc&_&_&_&Hme&Hlc&_).
  split.
  - rewrite created_at_migrate, Hc. exact H1.
  - rewrite Hcl, Hlc. exact H2.
  - rewrite Hi, He, Hme. exact H3.
Qed.

Lemma task_wfu_migrate t : task_wfu t -> task_wfu (migrate t).
Proof.
  intros [H1 H2 H3 H4 H5 H6 H7].
  destruct (migrate_fields t) as (_&_&_&Hi&_&_&Hc&Hu&Hr&_&_&_&Hlt&Hlb&Hle&Hls).
  split; rewrite ?Hi, ?Hc, ?Hu, ?Hr, ?Hlt, ?Hlb, ?Hle, ?Hls; assumption.
Qed.

(** * [t_updated] of the rebuilt task *)

Definition upd5 (t : task) : time :=
  let u0 := created_at t in
  let u1 := if em_title t then Z.max u0 (st_title t) else u0 in
  let u2 := if em_body t then Z.max u1 (st_body t) else u1 in
  let u3 := if em_epic t then Z.max u2 (st_epic t) else u2 in
  if em_state t then Z.max u3 (st_state t) else u3.

Lemma rebuild5_updated t : t_updated (rebuild5 t) = upd5 t.
Proof.
  unfold rebuild5, upd5.
  destruct (em_title t), (em_body t), (em_epic t), (em_state t), (em_claim t); cbn;
    rewrite ?max_time_max; reflexivity.
Qed.

Lemma foldr_add_result_updated rs t0 :
  t_updated (foldr add_result t0 rs) = foldr (fun r u => Z.max u (r_at r)) (t_updated t0) rs.
Proof. induction rs as [|r rs IH]; cbn; [reflexivity|]. rewrite max_time_max, IH. reflexivity. Qed.

Lemma foldr_max_ge_base rs u0 : (u0 <= foldr (fun (r : result) u => Z.max u (r_at r)) u0 rs)%Z.
Proof. induction rs as [|r rs IH]; cbn; lia. Qed.

Lemma foldr_max_ge_elem rs u0 :
  Forall (fun r => (r_at r <= foldr (fun (r : result) u => Z.max u (r_at r)) u0 rs)%Z) rs.
Proof.
  induction rs as [|r rs IH]; cbn; constructor; [lia|].
  eapply List.Forall_impl; [|exact IH]. cbn. intros; lia.
Qed.

Lemma foldr_max_le rs u0 U :
  (u0 <= U)%Z -> Forall (fun r => (r_at r <= U)%Z) rs ->
  (foldr (fun (r : result) u => Z.max u (r_at r)) u0 rs <= U)%Z.
Proof. intros H0 H. induction H as [|r rs Hr _ IH]; cbn; lia. Qed.

Lemma rebuild_updated_eq t : t_updated (rebuild t) = foldr (fun r u => Z.max u (r_at r)) (upd5 t) (t_results t).
Proof. unfold rebuild. rewrite foldr_add_result_updated, rebuild5_updated. reflexivity. Qed.

Section updated.
  Context (t : task) (H0 : task_wf0 t) (HU : task_wfu t).


  Lemma st_title_le : (st_title t <= t_updated t)%Z.
  Proof. apply pick_time_le, HU. Qed.
  Lemma st_body_le : (st_body t <= t_updated t)%Z.
  Proof. apply pick_time_le, HU. Qed.
  Lemma st_state_le : (st_state t <= t_updated t)%Z.
  Proof. apply pick_time_le, HU. Qed.
  Lemma st_epic_le : em_epic t = true -> (st_epic t <= t_updated t)%Z.
  Proof.
    intros He. apply pick_time_le, HU. unfold em_epic in He.
    destruct (t_is_epic t); [discriminate|reflexivity].
  Qed.

  Lemma upd5_le : (upd5 t <= t_updated t)%Z.
  Proof.
    pose proof st_title_le. pose proof st_body_le. pose proof st_state_le. pose proof st_epic_le as He.
    pose proof (wf_created_le t HU). pose proof (wf_created t H0) as Hc.
    unfold upd5. rewrite Hc.
    destruct (em_title t), (em_body t), (em_epic t), (em_state t);
      try specialize (He eq_refl); lia.
  Qed.

  Lemma upd5_ge_created : (t_created t <= upd5 t)%Z.
  Proof.
    unfold upd5. rewrite (wf_created t H0).
    destruct (em_title t), (em_body t), (em_epic t), (em_state t); lia.
  Qed.
  Lemma upd5_ge_title : em_title t = true -> (st_title t <= upd5 t)%Z.
  Proof. unfold upd5. intros ->. destruct (em_body t), (em_epic t), (em_state t); lia. Qed.
  Lemma upd5_ge_body : em_body t = true -> (st_body t <= upd5 t)%Z.
  Proof. unfold upd5. intros ->. destruct (em_title t), (em_epic t), (em_state t); lia. Qed.
  Lemma upd5_ge_epic : em_epic t = true -> (st_epic t <= upd5 t)%Z.
  Proof. unfold upd5. intros ->. destruct (em_title t), (em_body t), (em_state t); lia. Qed.
  Lemma upd5_ge_state : em_state t = true -> (st_state t <= upd5 t)%Z.
  Proof. unfold upd5. intros ->. destruct (em_title t), (em_body t), (em_epic t); lia. Qed.

  Lemma rebuild_updated_le : (t_updated (rebuild t) <= t_updated t)%Z.
  Proof. rewrite rebuild_updated_eq. apply foldr_max_le; [apply upd5_le|apply HU]. Qed.

  Lemma rebuild_updated_ge : (upd5 t <= t_updated (rebuild t))%Z.
  Proof. rewrite rebuild_updated_eq. apply foldr_max_ge_base. Qed.

  (** A stamp that is non-zero and later than the creation forces its event to be emitted. *)
  Lemma title_emitted : is_zero (m_last_title t) = false -> (t_created t < m_last_title t)%Z ->
    em_title t = true /\ st_title t = m_last_title t.
  Proof.
    intros Hz Hlt. split; [|apply pick_time_nonzero, Hz].
    unfold em_title. apply orb_true_iff. right. apply touched_true. rewrite (wf_created t H0). tauto.
  Qed.
  Lemma body_emitted : is_zero (m_last_body t) = false -> (t_created t < m_last_body t)%Z ->
    em_body t = true /\ st_body t = m_last_body t.
  Proof.
    intros Hz Hlt. split; [|apply pick_time_nonzero, Hz].
    unfold em_body. apply orb_true_iff. right. apply touched_true. rewrite (wf_created t H0). tauto.
  Qed.
  Lemma state_emitted : is_zero (m_last_state t) = false -> (t_created t < m_last_state t)%Z ->
    em_state t = true /\ st_state t = m_last_state t.
  Proof.
    intros Hz Hlt. split; [|apply pick_time_nonzero, Hz].
    unfold em_state. apply orb_true_iff. right. apply touched_true. rewrite (wf_created t H0). tauto.
  Qed.
  Lemma epic_emitted : t_is_epic t = false -> is_zero (m_last_epic t) = false -> (t_created t < m_last_epic t)%Z ->
    em_epic t = true /\ st_epic t = m_last_epic t.
  Proof.
    intros Hne Hz Hlt. split; [|apply pick_time_nonzero, Hz].
    unfold em_epic. rewrite Hne. cbn. apply orb_true_iff. right. apply touched_true.
    rewrite (wf_created t H0). tauto.
  Qed.

  Theorem rebuild_updated : t_updated (rebuild t) = t_updated t.
  Proof.
    pose proof rebuild_updated_le as Hle. pose proof rebuild_updated_ge as Hge.
    pose proof upd5_ge_created as Hc. pose proof (wf_created_le t HU) as HCU.
    apply Z.le_antisymm; [exact Hle|].
    destruct (wf_attained t HU) as [Ha|[[Hz Ha]|[[Hz Ha]|[[Hz Ha]|[(Hne&Hz&Ha)|Ha]]]]].
    - lia.
    - destruct (Z_lt_le_dec (t_created t) (m_last_title t)) as [Hlt|?]; [|lia].
      destruct (title_emitted Hz Hlt) as [He Hs]. pose proof (upd5_ge_title He). lia.
    - destruct (Z_lt_le_dec (t_created t) (m_last_body t)) as [Hlt|?]; [|lia].
      destruct (body_emitted Hz Hlt) as [He Hs]. pose proof (upd5_ge_body He). lia.
    - destruct (Z_lt_le_dec (t_created t) (m_last_state t)) as [Hlt|?]; [|lia].
      destruct (state_emitted Hz Hlt) as [He Hs]. pose proof (upd5_ge_state He). lia.
    - destruct (Z_lt_le_dec (t_created t) (m_last_epic t)) as [Hlt|?]; [|lia].
      destruct (epic_emitted Hne Hz Hlt) as [He Hs]. pose proof (upd5_ge_epic He). lia.
    - apply Exists_exists in Ha as (r & Hin & Hr).
      pose proof (foldr_max_ge_elem (t_results t) (upd5 t)) as Hall.
      rewrite Forall_forall in Hall. specialize (Hall r Hin).
      rewrite <- rebuild_updated_eq in Hall. lia.
  Qed.
End updated.

(** * The rebuilt task is well-formed again *)

Lemma rebuild_m_last_claim t : m_last_claim (rebuild t) = if em_claim t then st_claim t else zero_time.
Proof.
  rebuild_fields t. rewrite Hf_lclaim. unfold rebuild5.
  destruct (em_title t), (em_body t), (em_epic t), (em_state t), (em_claim t); reflexivity.
Qed.
Lemma rebuild_m_last_title t : m_last_title (rebuild t) = if em_title t then st_title t else zero_time.
Proof.
  rebuild_fields t. rewrite Hf_ltitle. unfold rebuild5.
  destruct (em_title t), (em_body t), (em_epic t), (em_state t), (em_claim t); reflexivity.
Qed.
Lemma rebuild_m_last_body t : m_last_body (rebuild t) = if em_body t then st_body t else zero_time.
Proof.
  rebuild_fields t. rewrite Hf_lbody. unfold rebuild5.
  destruct (em_title t), (em_body t), (em_epic t), (em_state t), (em_claim t); reflexivity.
Qed.
Lemma rebuild_m_last_epic t : m_last_epic (rebuild t) = if em_epic t then st_epic t else zero_time.
Proof.
  rebuild_fields t. rewrite Hf_lepic. unfold rebuild5.
  destruct (em_title t), (em_body t), (em_epic t), (em_state t), (em_claim t); reflexivity.
Qed.
Lemma rebuild_m_last_state t : m_last_state (rebuild t) = if em_state t then st_state t else zero_time.
Proof.
  rebuild_fields t. rewrite Hf_lstate. unfold rebuild5.
  destruct (em_title t), (em_body t), (em_epic t), (em_state t), (em_claim t); reflexivity.
Qed.

Lemma em_claim_true t : t_claimed t <> "" -> em_claim t = true.
Proof.
  intros H. unfold em_claim. apply negb_true_iff, String.eqb_neq, H.
Qed.

Lemma rebuild_claim_stamp t :
  task_wf0 t -> t_claimed t <> "" -> m_last_claim (rebuild t) = m_last_claim t.
Proof.
  intros H0 Hc. rewrite rebuild_m_last_claim, (em_claim_true t Hc).
  apply pick_time_nonzero, H0, Hc.
Qed.

Lemma task_wf0_rebuild t : task_wf0 t -> task_wf0 (rebuild t).
Proof.
  intros H0. split.
  - unfold created_at at 1. rewrite rebuild_m_created, rebuild_created.
    destruct (is_zero (created_at t)); reflexivity.
  - rewrite rebuild_claimed. intros Hc. rewrite (rebuild_claim_stamp t H0 Hc). apply H0, Hc.
  - rewrite rebuild_is_epic, rebuild_m_epic. intros He.
    rewrite rebuild_epic; apply H0; exact He.
Qed.

Lemma is_zero_zero_time : is_zero zero_time = true.
Proof. reflexivity. Qed.

Lemma task_wfu_rebuild t : task_wf0 t -> task_wfu t -> task_wfu (rebuild t).
Proof.
  intros H0 HU.
  pose proof (rebuild_updated t H0 HU) as HUeq.
  pose proof (wf_created t H0) as HC.
  pose proof (wf_created_le t HU) as HCU.
  split; rewrite ?HUeq, ?rebuild_created, ?rebuild_results, ?rebuild_is_epic,
           ?rebuild_m_last_title, ?rebuild_m_last_body, ?rebuild_m_last_epic, ?rebuild_m_last_state, ?HC.
  - exact HCU.
  - destruct (em_title t); [intros _; apply st_title_le, HU|rewrite is_zero_zero_time; discriminate].
  - destruct (em_body t); [intros _; apply st_body_le, HU|rewrite is_zero_zero_time; discriminate].
  - destruct (em_state t); [intros _; apply st_state_le, HU|rewrite is_zero_zero_time; discriminate].
  - intros _. destruct (em_epic t) eqn:E; [intros _; apply st_epic_le; assumption|rewrite is_zero_zero_time; discriminate].
  - apply HU.
  - destruct (wf_attained t HU) as [Ha|[[Hz Ha]|[[Hz Ha]|[[Hz Ha]|[(Hne&Hz&Ha)|Ha]]]]].
    + left. exact Ha.
    + destruct (Z_lt_le_dec (t_created t) (m_last_title t)) as [Hlt|?]; [|left; lia].
      destruct (title_emitted t H0 Hz Hlt) as [He Hs]. right; left. rewrite He, Hs. tauto.
    + destruct (Z_lt_le_dec (t_created t) (m_last_body t)) as [Hlt|?]; [|left; lia].
      destruct (body_emitted t H0 Hz Hlt) as [He Hs]. right; right; left. rewrite He, Hs. tauto.
    + destruct (Z_lt_le_dec (t_created t) (m_last_state t)) as [Hlt|?]; [|left; lia].
      destruct (state_emitted t H0 Hz Hlt) as [He Hs]. right; right; right; left. rewrite He, Hs. tauto.
    + destruct (Z_lt_le_dec (t_created t) (m_last_epic t)) as [Hlt|?]; [|left; lia].
      destruct (epic_emitted t H0 Hne Hz Hlt) as [He Hs]. right; right; right; right; left.
      rewrite He, Hs. tauto.
    + right; right; right; right; right. exact Ha.
Qed.

(** * What a reader sees of one task *)

(** Everything [view_task] shows that comes from the task itself, except [updated_at]. *)
Definition task_view0 (t : task) :=
  (t_id t, t_uuid t, t_epic t, t_is_epic t, t_state t, t_title t, t_body t, t_claimed t,
   t_created t, claimed_at t, t_results t).
Definition task_view (t : task) := (task_view0 t, t_updated t).

Lemma claimed_at_rebuild t : task_wf0 t -> claimed_at (rebuild t) = claimed_at t.
Proof.
  intros H0. unfold claimed_at. rewrite rebuild_claimed.
  destruct (String.eqb_spec (t_claimed t) "") as [E|E]; [reflexivity|].
  rewrite (rebuild_claim_stamp t H0 E). reflexivity.
Qed.

Lemma task_view0_rebuild t : task_wf0 t -> task_view0 (rebuild t) = task_view0 t.
Proof.
  intros H0. unfold task_view0.
  rewrite rebuild_id, rebuild_uuid, rebuild_epic, rebuild_is_epic, rebuild_state, rebuild_title,
    rebuild_body, rebuild_claimed, rebuild_created, claimed_at_rebuild, rebuild_results, (wf_created t H0);
    [reflexivity|exact H0|apply H0].
Qed.

Lemma task_view_rebuild t : task_wf0 t -> task_wfu t -> task_view (rebuild t) = task_view t.
Proof.
  intros H0 HU. unfold task_view. rewrite task_view0_rebuild, rebuild_updated by assumption. reflexivity.
Qed.

(** * Title migration is idempotent *)

Lemma migrate_title_nonblank t : is_blank (t_title (migrate t)) = false.
Proof.
  unfold migrate. destruct (is_blank (t_title t)) eqn:E; [|exact E].
  pose proof (derive_title_nonblank (t_body t)) as H.
  destruct (derive_title_body (t_body t)) as [ti b]. exact H.
Qed.

Lemma migrate_nonblank t : is_blank (t_title t) = false -> migrate t = t.
Proof. unfold migrate. intros ->. reflexivity. Qed.

Lemma migrate_idem t : migrate (migrate t) = migrate t.
Proof. apply migrate_nonblank, migrate_title_nonblank. Qed.

Lemma migrate_rebuild_migrate t : migrate (rebuild (migrate t)) = rebuild (migrate t).
Proof. apply migrate_nonblank. rewrite rebuild_title. apply migrate_title_nonblank. Qed.

(** * List helpers: sorting is determined by the multiset when keys are unique *)

Lemma StronglySorted_unique_key {A K} (R : relation A) (key : A -> K) (l1 : list A) :
  (forall a b, R a b -> R b a -> key a = key b) ->
  forall l2, NoDup (key <$> l1) -> StronglySorted R l1 -> StronglySorted R l2 -> l1 ≡ₚ l2 -> l1 = l2.
Proof.
  intros Hanti. induction l1 as [|x1 l1 IH]; intros l2 Hnd Hs1 Hs2 E.
  - symmetry. apply Permutation_nil. exact E.
  - destruct l2 as [|x2 l2].
    { symmetry in E. apply Permutation_nil_cons in E. contradiction. }
    apply StronglySorted_inv in Hs1 as [Hs1 Hx1]. apply StronglySorted_inv in Hs2 as [Hs2 Hx2].
    cbn [fmap list_fmap] in Hnd. apply stdpp.list.NoDup_cons in Hnd as [Hk1 Hnd].
    assert (x1 = x2) as ->.
    { rewrite list.Forall_forall in Hx1, Hx2.
      assert (Hx2' : x2 ∈ x1 :: l1) by (rewrite E; left).
      assert (Hx1' : x1 ∈ x2 :: l2) by (rewrite <- E; left).
      apply elem_of_cons in Hx2' as [->|Hx2']; [reflexivity|].
      apply elem_of_cons in Hx1' as [->|Hx1']; [reflexivity|].
      exfalso. apply Hk1. rewrite (Hanti x1 x2 (Hx1 _ Hx2') (Hx2 _ Hx1')).
      apply elem_of_list_fmap. exists x2. split; [reflexivity|exact Hx2']. }
    f_equal. apply IH; [exact Hnd|exact Hs1|exact Hs2|]. eapply Permutation_cons_inv, E.
Qed.

Lemma StronglySorted_fmap_in {A} (R : relation A) (F : A -> A) l :
  (forall a b, a ∈ l -> b ∈ l -> R a b -> R (F a) (F b)) ->
  StronglySorted R l -> StronglySorted R (F <$> l).
Proof.
  intros Hmono Hs. induction Hs as [|a l Hs IH Ha]; cbn; constructor.
  - apply IH. intros x y Hx Hy. apply Hmono; right; assumption.
  - apply Forall_fmap, list.Forall_forall. intros y Hy. cbn.
    apply Hmono; [left|right; exact Hy|]. rewrite list.Forall_forall in Ha. apply Ha, Hy.
Qed.

Lemma merge_sort_sim {A K} (R : relation A) `{!forall a b, Decision (R a b)} `{!Transitive R} `{!Total R}
    (key : A -> K) (F : A -> A) (l1 l2 : list A) :
  (forall a b, R a b -> R b a -> key a = key b) ->
  NoDup (key <$> l2) ->
  (forall a b, a ∈ l1 -> b ∈ l1 -> R a b -> R (F a) (F b)) ->
  l2 ≡ₚ F <$> l1 ->
  merge_sort R l2 = F <$> merge_sort R l1.
Proof.
  intros Hanti Hnd Hmono Hperm.
  apply (StronglySorted_unique_key R key _ Hanti).
  - rewrite merge_sort_Permutation. exact Hnd.
  - apply StronglySorted_merge_sort; assumption.
  - apply StronglySorted_fmap_in.
    + intros a b Ha Hb. rewrite merge_sort_Permutation in Ha, Hb. apply Hmono; assumption.
    + apply StronglySorted_merge_sort; assumption.
  - rewrite !merge_sort_Permutation. exact Hperm.
Qed.

Lemma forallb_ext {A} (p q : A -> bool) l : (forall x, p x = q x) -> forallb p l = forallb q l.
Proof. intros H. induction l as [|x l IH]; cbn; [reflexivity|]. rewrite H, IH. reflexivity. Qed.

Lemma perm_of_eq {A} (l1 l2 : list A) : l1 = l2 -> l1 ≡ₚ l2.
Proof. intros ->. reflexivity. Qed.

Lemma sort_strings_perm l1 l2 : l1 ≡ₚ l2 -> sort_strings l1 = sort_strings l2.
Proof.
  intros E. unfold sort_strings.
  apply (Sorted_unique str_le); try apply Sorted_merge_sort; try apply _.
  rewrite !merge_sort_Permutation. exact E.
Qed.

Lemma filter_fmap_sim {A} (P Q : A -> Prop) `{!forall x, Decision (P x)} `{!forall x, Decision (Q x)}
    (F : A -> A) (l : list A) :
  (forall x, x ∈ l -> Q (F x) <-> P x) -> filter Q (F <$> l) = F <$> filter P l.
Proof.
  induction l as [|x l IH]; intros Hpq; [reflexivity|].
  cbn [fmap list_fmap]. assert (HI : filter Q (F <$> l) = F <$> filter P l).
  { apply IH. intros y Hy. apply Hpq. right. exact Hy. }
  destruct (decide (P x)) as [Hp|Hp].
  - rewrite filter_cons_True by (apply Hpq; [left|exact Hp]).
    rewrite (filter_cons_True P) by exact Hp. cbn. f_equal. exact HI.
  - rewrite filter_cons_False by (rewrite Hpq; [exact Hp|left]).
    rewrite (filter_cons_False P) by exact Hp. exact HI.
Qed.

Lemma NoDup_fmap_filter {A K} (key : A -> K) (P : A -> Prop) `{!forall x, Decision (P x)} (l : list A) :
  NoDup (key <$> l) -> NoDup (key <$> filter P l).
Proof.
  induction l as [|x l IH]; cbn [fmap list_fmap]; intros Hnd; [constructor|].
  apply stdpp.list.NoDup_cons in Hnd as [Hx Hnd].
  destruct (decide (P x)) as [Hp|Hp].
  - rewrite filter_cons_True by exact Hp. cbn. apply stdpp.list.NoDup_cons. split; [|apply IH, Hnd].
    intros Hin. apply Hx. apply elem_of_list_fmap in Hin as (y & -> & Hy).
    apply elem_of_list_filter in Hy as [_ Hy]. apply elem_of_list_fmap. exists y. tauto.
  - rewrite filter_cons_False by exact Hp. apply IH, Hnd.
Qed.

Lemma forallb_sim {A} (p q : A -> bool) (F : A -> A) (l1 l2 : list A) :
  l2 ≡ₚ F <$> l1 -> (forall x, x ∈ l1 -> q (F x) = p x) -> forallb q l2 = forallb p l1.
Proof.
  intros E H. apply eq_iff_eq_true. rewrite !forallb_forall. split.
  - intros Hq x Hx. apply elem_of_list_In in Hx. rewrite <- (H x Hx). apply Hq.
    apply elem_of_list_In. rewrite E. apply elem_of_list_fmap. exists x. tauto.
  - intros Hp y Hy. apply elem_of_list_In in Hy. rewrite E in Hy.
    apply elem_of_list_fmap in Hy as (x & -> & Hx). rewrite (H x Hx). apply Hp, elem_of_list_In, Hx.
Qed.

Lemma existsb_sim {A} (p q : A -> bool) (F : A -> A) (l1 l2 : list A) :
  l2 ≡ₚ F <$> l1 -> (forall x, x ∈ l1 -> q (F x) = p x) -> existsb q l2 = existsb p l1.
Proof.
  intros E H. apply eq_iff_eq_true. rewrite !existsb_exists. split.
  - intros (y & Hy & Hq). apply elem_of_list_In in Hy. rewrite E in Hy.
    apply elem_of_list_fmap in Hy as (x & -> & Hx). exists x. split; [apply elem_of_list_In, Hx|].
    rewrite <- (H x Hx). exact Hq.
  - intros (x & Hx & Hp). apply elem_of_list_In in Hx. exists (F x). split.
    + apply elem_of_list_In. rewrite E. apply elem_of_list_fmap. exists x. tauto.
    + rewrite (H x Hx). exact Hp.
Qed.

(** * Order facts for the claim order *)

Global Instance claim_le_total : Total claim_le.
Proof.
  intros a b. unfold claim_le. rewrite (Z.eqb_sym (t_created b)).
  destruct (Z.eqb_spec (t_created a) (t_created b)); [apply str_le_total|lia].
Qed.
Global Instance claim_le_trans : Transitive claim_le.
Proof.
  intros a b c. unfold claim_le.
  destruct (Z.eqb_spec (t_created a) (t_created b)), (Z.eqb_spec (t_created b) (t_created c)),
    (Z.eqb_spec (t_created a) (t_created c)); try lia; try (intros; lia).
  apply str_le_trans.
Qed.
Lemma claim_le_antisym_id a b : claim_le a b -> claim_le b a -> t_id a = t_id b.
Proof.
  unfold claim_le. rewrite (Z.eqb_sym (t_created b)).
  destruct (Z.eqb_spec (t_created a) (t_created b)); [apply str_le_antisym|lia].
Qed.

Lemma task_core_inv a b :
  task_core a = task_core b ->
  t_id a = t_id b /\ t_is_epic a = t_is_epic b /\ t_state a = t_state b /\ t_claimed a = t_claimed b
  /\ t_epic a = t_epic b /\ t_created a = t_created b.
Proof. unfold task_core. intros [= -> -> -> -> -> ->]. repeat split. Qed.

(** [prune_targets] with its local definitions named. *)
Definition prune_elig (t : task) : bool := (negb (t_is_epic t) && done_or_canceled (t_state t))%bool.
Definition prune_rem (ts : list task) (ep : string) : bool :=
  existsb (fun t => (negb (t_is_epic t) && negb (prune_elig t) && negb (String.eqb (t_epic t) "") && String.eqb (t_epic t) ep)%bool) ts.
Definition prune_keep (ts : list task) (t : task) : Prop :=
  (if t_is_epic t then negb (prune_rem ts (t_id t)) else prune_elig t) = true.
Global Instance prune_keep_dec ts t : Decision (prune_keep ts t).
Proof. unfold prune_keep. apply _. Defined.
Lemma prune_targets_eq g :
  prune_targets g = sort_strings (t_id <$> filter (prune_keep (all_tasks g)) (all_tasks g)).
Proof. reflexivity. Qed.

(** * Congruence: everything derived from the graph depends only on the edges and the task cores *)

(** [obs] with [updated_at] projected away. *)
Definition clear_updated (o : otask) : otask :=
  OTask (o_id o) (o_uuid o) (o_epic o) (o_is_epic o) (o_state o) (o_title o) (o_body o) (o_claimed o)
        (o_created o) 0%Z (o_claimed_at o) (o_deps o) (o_rdeps o) (o_results o) (o_ready o) (o_blocked o).
Definition obs_no_updated (g : graph) : list otask * list string :=
  (clear_updated <$> (obs g).1, (obs g).2).

Section sim.
  Context (gA gB : graph) (F : task -> task).
  Context (Htasks : g_tasks gB = F <$> g_tasks gA).
  Context (Hdeps : g_deps gB = g_deps gA).
  Context (Hids : ids_ok gA).
  Context (Hcore : forall k t, g_tasks gA !! k = Some t -> task_core (F t) = task_core t).

  Lemma in_all_tasks g t : t ∈ all_tasks g <-> exists k, g_tasks g !! k = Some t.
  Proof.
    unfold all_tasks. rewrite elem_of_list_fmap. split.
    - intros ([k t'] & -> & Hin). exists k. apply elem_of_map_to_list in Hin. exact Hin.
    - intros [k Hk]. exists (k, t). split; [reflexivity|]. apply elem_of_map_to_list. exact Hk.
  Qed.

  Lemma core_in t : t ∈ all_tasks gA -> task_core (F t) = task_core t.
  Proof. intros Hin. apply in_all_tasks in Hin as [k Hk]. eapply Hcore, Hk. Qed.

  Lemma all_tasks_sim : all_tasks gB ≡ₚ F <$> all_tasks gA.
  Proof.
    unfold all_tasks. rewrite Htasks, map_to_list_fmap, <- !list_fmap_compose.
    apply perm_of_eq. apply list_fmap_ext. intros ? [k t]. reflexivity.
  Qed.

  Lemma lookup_sim d : g_tasks gB !! d = F <$> (g_tasks gA !! d).
  Proof. rewrite Htasks. apply lookup_fmap. Qed.

  Lemma dep_ids_sim i : dep_ids gB i = dep_ids gA i.
  Proof. unfold dep_ids. rewrite Hdeps. reflexivity. Qed.

  Lemma deps_satisfied_sim i : deps_satisfied gB i = deps_satisfied gA i.
  Proof.
    unfold deps_satisfied. rewrite dep_ids_sim. apply forallb_ext. intros d.
    rewrite lookup_sim. destruct (g_tasks gA !! d) as [o|] eqn:E; [|reflexivity]. cbn.
    destruct (task_core_inv _ _ (Hcore d o E)) as (_&_&->&_). reflexivity.
  Qed.

  Lemma is_epic_complete_sim e : is_epic_complete gB e = is_epic_complete gA e.
  Proof.
    unfold is_epic_complete. apply (forallb_sim _ _ F); [apply all_tasks_sim|].
    intros t Hin. destruct (task_core_inv _ _ (core_in t Hin)) as (_&_&->&_&->&_). reflexivity.
  Qed.

  Lemma epic_deps_complete_sim e : epic_deps_complete gB e = epic_deps_complete gA e.
  Proof.
    unfold epic_deps_complete. rewrite dep_ids_sim. apply forallb_ext. intros d.
    rewrite lookup_sim. destruct (g_tasks gA !! d) as [o|] eqn:E; [|reflexivity]. cbn.
    destruct (task_core_inv _ _ (Hcore d o E)) as (_&->&_). rewrite is_epic_complete_sim. reflexivity.
  Qed.

  Lemma is_ready_sim t : t ∈ all_tasks gA -> is_ready gB (F t) = is_ready gA t.
  Proof.
    intros Hin. unfold is_ready.
    destruct (task_core_inv _ _ (core_in t Hin)) as (->&_&->&->&->&_).
    rewrite deps_satisfied_sim, epic_deps_complete_sim. reflexivity.
  Qed.

  Lemma is_blocked_sim t : t ∈ all_tasks gA -> is_blocked gB (F t) = is_blocked gA t.
  Proof.
    intros Hin. unfold is_blocked.
    destruct (task_core_inv _ _ (core_in t Hin)) as (->&_&->&->&->&_).
    rewrite deps_satisfied_sim, epic_deps_complete_sim. reflexivity.
  Qed.

  Lemma deps_of_sim i : deps_of gB i = deps_of gA i.
  Proof. unfold deps_of. rewrite Hdeps. reflexivity. Qed.
  Lemma rdeps_of_sim i : rdeps_of gB i = rdeps_of gA i.
  Proof. unfold rdeps_of. rewrite Hdeps. reflexivity. Qed.

  Lemma sorted_tasks_in t : t ∈ sorted_tasks gA <-> t ∈ all_tasks gA.
  Proof. unfold sorted_tasks, all_tasks. rewrite merge_sort_Permutation. reflexivity. Qed.

  Lemma sorted_tasks_sim : sorted_tasks gB = F <$> sorted_tasks gA.
  Proof.
    unfold sorted_tasks. rewrite Htasks.
    rewrite (merge_sort_sim key_le fst (prod_map (@Datatypes.id string) F) (map_to_list (g_tasks gA))).
    - rewrite <- !list_fmap_compose. apply list_fmap_ext. intros ? [k t]. reflexivity.
    - intros a b Hab Hba. apply str_le_antisym; assumption.
    - apply NoDup_fst_map_to_list.
    - intros [k1 t1] [k2 t2] _ _ H. exact H.
    - apply map_to_list_fmap.
  Qed.

  Lemma all_ids_nodup : NoDup (t_id <$> all_tasks gA).
  Proof.
    unfold all_tasks. rewrite <- list_fmap_compose.
    erewrite list_fmap_ext; [apply (NoDup_fst_map_to_list (g_tasks gA))|].
    intros i [k t] Hl. cbn. apply Hids. apply elem_of_map_to_list. eapply elem_of_list_lookup_2, Hl.
  Qed.

  Lemma ready_tasks_sim epic : ready_tasks gB epic = F <$> ready_tasks gA epic.
  Proof.
    unfold ready_tasks.
    set (PA := fun t => (epic = "" \/ t_epic t = epic) /\ t_is_epic t = false /\ is_ready gA t = true).
    set (PB := fun t => (epic = "" \/ t_epic t = epic) /\ t_is_epic t = false /\ is_ready gB t = true).
    assert (Hf : filter PB (F <$> all_tasks gA) = F <$> filter PA (all_tasks gA)).
    { apply filter_fmap_sim. intros t Hin. unfold PA, PB.
      destruct (task_core_inv _ _ (core_in t Hin)) as (_&->&_&_&->&_).
      rewrite (is_ready_sim t Hin). reflexivity. }
    assert (Hperm : filter PB (all_tasks gB) ≡ₚ F <$> filter PA (all_tasks gA)).
    { rewrite all_tasks_sim, Hf. reflexivity. }
    apply (merge_sort_sim claim_le t_id F).
    - apply claim_le_antisym_id.
    - rewrite Hperm, <- list_fmap_compose.
      erewrite list_fmap_ext; [apply NoDup_fmap_filter, all_ids_nodup|].
      intros i t Hl. cbn. apply elem_of_list_lookup_2, elem_of_list_filter in Hl as [_ Hl].
      destruct (task_core_inv _ _ (core_in t Hl)) as (->&_). reflexivity.
    - intros a b Ha Hb. apply elem_of_list_filter in Ha as [_ Ha]. apply elem_of_list_filter in Hb as [_ Hb].
      unfold claim_le.
      destruct (task_core_inv _ _ (core_in a Ha)) as (->&_&_&_&_&->).
      destruct (task_core_inv _ _ (core_in b Hb)) as (->&_&_&_&_&->). tauto.
    - exact Hperm.
  Qed.

  Lemma prune_targets_sim : prune_targets gB = prune_targets gA.
  Proof.
    rewrite !prune_targets_eq. apply sort_strings_perm.
    assert (Hrem : forall ep, prune_rem (all_tasks gB) ep = prune_rem (all_tasks gA) ep).
    { intros ep. unfold prune_rem. apply (existsb_sim _ _ F); [apply all_tasks_sim|].
      intros t Hin. unfold prune_elig.
      destruct (task_core_inv _ _ (core_in t Hin)) as (_&->&->&_&->&_). reflexivity. }
    assert (Hf : filter (prune_keep (all_tasks gB)) (F <$> all_tasks gA)
                 = F <$> filter (prune_keep (all_tasks gA)) (all_tasks gA)).
    { apply filter_fmap_sim. intros t Hin. unfold prune_keep, prune_elig.
      destruct (task_core_inv _ _ (core_in t Hin)) as (->&->&->&_). rewrite Hrem. reflexivity. }
    transitivity (t_id <$> filter (prune_keep (all_tasks gB)) (F <$> all_tasks gA)).
    { apply fmap_Permutation, filter_Permutation, all_tasks_sim. }
    rewrite Hf, <- list_fmap_compose.
    apply perm_of_eq. apply list_fmap_ext. intros i t Hl. cbn.
    apply elem_of_list_lookup_2, elem_of_list_filter in Hl as [_ Hl].
    destruct (task_core_inv _ _ (core_in t Hl)) as (->&_). reflexivity.
  Qed.

  (** The per-task view, given equality of the fields the task itself contributes. *)
  Lemma view_task_sim t :
    t ∈ all_tasks gA -> task_view (F t) = task_view t -> view_task gB (F t) = view_task gA t.
  Proof.
    intros Hin Hv. unfold view_task.
    rewrite (is_ready_sim t Hin), (is_blocked_sim t Hin).
    unfold task_view, task_view0 in Hv.
    injection Hv as -> -> -> -> -> -> -> -> -> -> -> ->.
    rewrite deps_of_sim, rdeps_of_sim. reflexivity.
  Qed.

  Lemma obs_sim :
    (forall k t, g_tasks gA !! k = Some t -> task_view (F t) = task_view t) -> obs gB = obs gA.
  Proof.
    intros Hv. unfold obs. f_equal.
    - rewrite sorted_tasks_sim, <- list_fmap_compose. apply list_fmap_ext. intros i t Hl. cbn.
      apply elem_of_list_lookup_2, sorted_tasks_in in Hl.
      apply view_task_sim; [exact Hl|]. apply in_all_tasks in Hl as [k Hk]. eapply Hv, Hk.
    - rewrite ready_tasks_sim, <- list_fmap_compose. apply list_fmap_ext. intros i t Hl. cbn.
      apply elem_of_list_lookup_2 in Hl. unfold ready_tasks in Hl.
      rewrite merge_sort_Permutation in Hl. apply elem_of_list_filter in Hl as [_ Hl].
      destruct (task_core_inv _ _ (core_in t Hl)) as (->&_). reflexivity.
  Qed.
  Lemma view_task_sim0 t :
    t ∈ all_tasks gA -> task_view0 (F t) = task_view0 t ->
    clear_updated (view_task gB (F t)) = clear_updated (view_task gA t).
  Proof.
    intros Hin Hv. unfold view_task, clear_updated. cbn.
    rewrite (is_ready_sim t Hin), (is_blocked_sim t Hin).
    unfold task_view0 in Hv.
    injection Hv as -> -> -> -> -> -> -> -> -> -> ->.
    rewrite deps_of_sim, rdeps_of_sim. reflexivity.
  Qed.

  Lemma obs_no_updated_sim :
    (forall k t, g_tasks gA !! k = Some t -> task_view0 (F t) = task_view0 t) ->
    obs_no_updated gB = obs_no_updated gA.
  Proof.
    intros Hv. unfold obs_no_updated, obs. cbn [fst snd]. f_equal.
    - rewrite sorted_tasks_sim, <- !list_fmap_compose. apply list_fmap_ext. intros i t Hl. cbn.
      apply elem_of_list_lookup_2, sorted_tasks_in in Hl.
      apply view_task_sim0; [exact Hl|]. apply in_all_tasks in Hl as [k Hk]. eapply Hv, Hk.
    - rewrite ready_tasks_sim, <- list_fmap_compose. apply list_fmap_ext. intros i t Hl. cbn.
      apply elem_of_list_lookup_2 in Hl. unfold ready_tasks in Hl.
      rewrite merge_sort_Permutation in Hl. apply elem_of_list_filter in Hl as [_ Hl].
      destruct (task_core_inv _ _ (core_in t Hl)) as (->&_). reflexivity.
  Qed.
End sim.

(** * Compaction preserves what a reader observes *)

Lemma finalize_lookup g k tf :
  g_tasks (finalize g) !! k = Some tf -> exists t, g_tasks g !! k = Some t /\ tf = migrate t.
Proof.
  cbn. rewrite lookup_fmap. destruct (g_tasks g !! k) as [t|]; cbn; [|discriminate].
  intros [= <-]. exists t. split; reflexivity.
Qed.

Lemma finalize_compact_graph_tasks g :
  g_tasks (finalize (compact_graph g)) = rebuild <$> g_tasks (finalize g).
Proof.
  apply map_eq. intros i. cbn. rewrite !lookup_fmap.
  destruct (g_tasks g !! i) as [t|]; cbn; [|reflexivity]. f_equal. apply migrate_rebuild_migrate.
Qed.

Lemma graph_wf0_ids g : graph_wf0 g -> ids_ok g.
Proof. intros H k t E. apply (H k t E). Qed.

Lemma compact_graph_wf0 g : graph_wf0 g -> graph_wf0 (compact_graph g).
Proof.
  intros H k t'. rewrite compact_graph_lookup. destruct (g_tasks g !! k) as [t|] eqn:E; cbn; [|discriminate].
  intros [= <-]. destruct (H k t E) as [Hid H0]. split.
  - rewrite rebuild_id. destruct (migrate_fields t) as (->&_). exact Hid.
  - apply task_wf0_rebuild, task_wf0_migrate, H0.
Qed.

Lemma compact_graph_wf g : graph_wf g -> graph_wf (compact_graph g).
Proof.
  intros H k t'. rewrite compact_graph_lookup. destruct (g_tasks g !! k) as [t|] eqn:E; cbn; [|discriminate].
  intros [= <-]. destruct (H k t E) as (Hid & H0 & HU). split; [|split].
  - rewrite rebuild_id. destruct (migrate_fields t) as (->&_). exact Hid.
  - apply task_wf0_rebuild, task_wf0_migrate, H0.
  - apply task_wfu_rebuild; [apply task_wf0_migrate, H0|apply task_wfu_migrate, HU].
Qed.

Lemma compact_core_wf0 g i :
  graph_wf0 g -> task_core <$> (g_tasks (compact_graph g) !! i) = task_core <$> (g_tasks g !! i).
Proof.
  intros H. rewrite compact_graph_lookup. destruct (g_tasks g !! i) as [t|] eqn:E; [|reflexivity].
  cbn. f_equal. destruct (H i t E) as [_ H0]. pose proof (task_wf0_migrate t H0) as Hm.
  rewrite task_core_rebuild, task_core_migrate; [reflexivity|apply Hm|apply Hm].
Qed.

Lemma finalize_core g k tf :
  graph_wf0 g -> g_tasks (finalize g) !! k = Some tf -> task_core (rebuild tf) = task_core tf.
Proof.
  intros H E. apply finalize_lookup in E as (t & E & ->). destruct (H k t E) as [_ H0].
  pose proof (task_wf0_migrate t H0) as Hm. apply task_core_rebuild; apply Hm.
Qed.

(** Without any hypothesis on the order of stamps: everything but [updated_at]. *)
Theorem compact_preserves_all_but_updated (g : graph) :
  graph_wf0 g ->
  exists g', replay_raw (compact_events (finalize g)) = Ok g'
          /\ obs_no_updated (finalize g') = obs_no_updated (finalize g)
          /\ g_tombs g' = ∅
          /\ dom (g_tasks g') = dom (g_tasks g)
          /\ g_deps g' = g_deps g
          /\ prune_targets (finalize g') = prune_targets (finalize g)
          /\ (forall i, task_core <$> (g_tasks g' !! i) = task_core <$> (g_tasks g !! i))
          /\ graph_wf0 g'.
Proof.
  intros H. exists (compact_graph g).
  pose proof (ids_ok_finalize g (graph_wf0_ids g H)) as Hids.
  split; [apply replay_compact_events, Hids|].
  split.
  { apply (obs_no_updated_sim (finalize g) (finalize (compact_graph g)) rebuild).
    - apply finalize_compact_graph_tasks.
    - reflexivity.
    - exact Hids.
    - intros k tf. apply finalize_core, H.
    - intros k tf E. apply finalize_lookup in E as (t & E & ->). destruct (H k t E) as [_ H0].
      apply task_view0_rebuild, task_wf0_migrate, H0. }
  split; [reflexivity|].
  split; [cbn; rewrite !dom_fmap_L; reflexivity|].
  split; [reflexivity|].
  split.
  { apply (prune_targets_sim (finalize g) (finalize (compact_graph g)) rebuild).
    - apply finalize_compact_graph_tasks.
    - intros k tf. apply finalize_core, H. }
  split; [intros i; apply compact_core_wf0, H|apply compact_graph_wf0, H].
Qed.

(** The main theorem. *)
Theorem compact_preserves (g : graph) :
  graph_wf g ->
  exists g', replay_raw (compact_events (finalize g)) = Ok g'
          /\ obs (finalize g') = obs (finalize g)
          /\ g_tombs g' = ∅
          /\ dom (g_tasks g') = dom (g_tasks g)
          /\ g_deps g' = g_deps g
          /\ prune_targets (finalize g') = prune_targets (finalize g)
          /\ (forall i, task_core <$> (g_tasks g' !! i) = task_core <$> (g_tasks g !! i))
          /\ graph_wf g'.
Proof.
  intros H. exists (compact_graph g).
  pose proof (graph_wf_wf0 g H) as H0.
  pose proof (ids_ok_finalize g (graph_wf0_ids g H0)) as Hids.
  split; [apply replay_compact_events, Hids|].
  split.
  { apply (obs_sim (finalize g) (finalize (compact_graph g)) rebuild).
    - apply finalize_compact_graph_tasks.
    - reflexivity.
    - exact Hids.
    - intros k tf. apply finalize_core, H0.
    - intros k tf E. apply finalize_lookup in E as (t & E & ->). destruct (H k t E) as (_ & Hw0 & HwU).
      apply task_view_rebuild; [apply task_wf0_migrate, Hw0|apply task_wfu_migrate, HwU]. }
  split; [reflexivity|].
  split; [cbn; rewrite !dom_fmap_L; reflexivity|].
  split; [reflexivity|].
  split.
  { apply (prune_targets_sim (finalize g) (finalize (compact_graph g)) rebuild).
    - apply finalize_compact_graph_tasks.
    - intros k tf. apply finalize_core, H0. }
  split; [intros i; apply compact_core_wf0, H0|apply compact_graph_wf, H].
Qed.

(** Per id, without sorted lists: the finalized items agree on every observable field. *)
Theorem compact_preserves_per_id (g : graph) :
  graph_wf g ->
  exists g', replay_raw (compact_events (finalize g)) = Ok g'
    /\ (forall i, task_core <$> (g_tasks g' !! i) = task_core <$> (g_tasks g !! i))
    /\ (forall i, task_view <$> (g_tasks (finalize g') !! i) = task_view <$> (g_tasks (finalize g) !! i)).
Proof.
  intros H. exists (compact_graph g).
  pose proof (graph_wf_wf0 g H) as H0.
  split; [apply replay_compact_events, ids_ok_finalize, graph_wf0_ids, H0|].
  split; [intros i; apply compact_core_wf0, H0|].
  intros i. rewrite finalize_compact_graph_tasks, lookup_fmap.
  destruct (g_tasks (finalize g) !! i) as [tf|] eqn:E; [|reflexivity]. cbn. f_equal.
  apply finalize_lookup in E as (t & E & ->). destruct (H i t E) as (_ & Hw0 & HwU).
  apply task_view_rebuild; [apply task_wf0_migrate, Hw0|apply task_wfu_migrate, HwU].
Qed.

(** * Every replay result is well-formed, given well-behaved stamps *)

(** Item [i] is live in [g] (not tombstoned, present) with record [t]: exactly
    the situation in which replay parses an update event's stamp. *)
Definition live (g : graph) (i : string) (t : task) : Prop :=
  tombed g i = false /\ g_tasks g !! i = Some t.

(** Needed for everything: a claim by a non-empty agent carries a non-zero
    stamp; epics are never re-parented. *)
Definition ev_ok0 (g : graph) (e : event) : Prop :=
  match e with
  | EClaim i ag (Some ts) => forall t, live g i t -> ag <> "" -> is_zero ts = false
  | EEpic i _ (Some _) => forall t, live g i t -> t_is_epic t = false
  | _ => True
  end.

(** Needed for [updated_at] only: the stamps that move [t_updated] are
    non-decreasing per item, and those kept in [m_last_*] are non-zero. *)
Definition ev_oku (g : graph) (e : event) : Prop :=
  match e with
  | EState i _ (Some ts) | ETitle i _ (Some ts) | EBody i _ (Some ts) | EEpic i _ (Some ts) =>
      forall t, live g i t -> is_zero ts = false /\ (t_updated t <= ts)%Z
  | EResult i _ _ _ _ _ (Some ts) => forall t, live g i t -> (t_updated t <= ts)%Z
  | _ => True
  end.

Fixpoint stamps_from (ok : graph -> event -> Prop) (g : graph) (es : list event) : Prop :=
  match es with
  | [] => True
  | e :: es' => ok g e /\ forall g', apply_event g e = Ok g' -> stamps_from ok g' es'
  end.

Definition stamps_ok0 (es : list event) : Prop := stamps_from ev_ok0 empty_graph es.
Definition stamps_ok (es : list event) : Prop :=
  stamps_from (fun g e => ev_ok0 g e /\ ev_oku g e) empty_graph es.

Lemma stamps_from_weaken (ok1 ok2 : graph -> event -> Prop) es :
  (forall g e, ok1 g e -> ok2 g e) -> forall g, stamps_from ok1 g es -> stamps_from ok2 g es.
Proof.
  intros Hw. induction es as [|e es IH]; intros g; cbn; [tauto|].
  intros [H1 H2]. split; [apply Hw, H1|]. intros g' Hg'. apply IH, H2, Hg'.
Qed.

Lemma stamps_ok_ok0 es : stamps_ok es -> stamps_ok0 es.
Proof. apply stamps_from_weaken. intros g e [H _]. exact H. Qed.

Lemma stamps_from_inv (ok : graph -> event -> Prop) (I : graph -> Prop) :
  (forall g e g', I g -> ok g e -> apply_event g e = Ok g' -> I g') ->
  forall es g g', I g -> stamps_from ok g es -> replay_from g es = Ok g' -> I g'.
Proof.
  intros Hstep. induction es as [|e es IH]; intros g g' HI Hs Hr.
  - cbn in Hr. injection Hr as <-. exact HI.
  - unfold replay_from in Hr. cbn in Hr, Hs. destruct Hs as [Hok Hs].
    destruct (apply_event g e) as [g1|] eqn:E; [|discriminate].
    apply (IH g1 g'); [eapply Hstep; eassumption|apply Hs; reflexivity|exact Hr].
Qed.

(** An executable checker for [stamps_ok] / [stamps_ok0] (sound; used for examples). *)
Definition live_b (g : graph) (i : string) (p : task -> bool) : bool :=
  if tombed g i then true else match g_tasks g !! i with None => true | Some t => p t end.

Lemma live_b_spec g i p : live_b g i p = true -> forall t, live g i t -> p t = true.
Proof. unfold live_b, live. intros H t [Ht Hl]. rewrite Ht, Hl in H. exact H. Qed.

Definition ev_ok0_b (g : graph) (e : event) : bool :=
  match e with
  | EClaim i ag (Some ts) => live_b g i (fun _ => String.eqb ag "" || negb (is_zero ts))%bool
  | EEpic i _ (Some _) => live_b g i (fun t => negb (t_is_epic t))
  | _ => true
  end.
Definition ev_oku_b (g : graph) (e : event) : bool :=
  match e with
  | EState i _ (Some ts) | ETitle i _ (Some ts) | EBody i _ (Some ts) | EEpic i _ (Some ts) =>
      live_b g i (fun t => negb (is_zero ts) && Z.leb (t_updated t) ts)%bool
  | EResult i _ _ _ _ _ (Some ts) => live_b g i (fun t => Z.leb (t_updated t) ts)
  | _ => true
  end.

Lemma ev_ok0_b_sound g e : ev_ok0_b g e = true -> ev_ok0 g e.
Proof.
  destruct e as [| | i ag [ts|] | | | | | | i ep [ts|] | | | |]; cbn; try (intros; exact I).
  - intros H t Hl Hag. pose proof (live_b_spec _ _ _ H t Hl) as Hp. cbn in Hp.
    apply orb_true_iff in Hp as [Hp|Hp]; [apply String.eqb_eq in Hp; contradiction|].
    apply negb_true_iff, Hp.
  - intros H t Hl. pose proof (live_b_spec _ _ _ H t Hl) as Hp. cbn in Hp. apply negb_true_iff, Hp.
Qed.

Lemma ev_oku_b_sound g e : ev_oku_b g e = true -> ev_oku g e.
Proof.
  assert (Hgen : forall i ts, live_b g i (fun t => negb (is_zero ts) && Z.leb (t_updated t) ts)%bool = true ->
                 forall t, live g i t -> is_zero ts = false /\ (t_updated t <= ts)%Z).
  { intros i ts H t Hl. pose proof (live_b_spec _ _ _ H t Hl) as Hp. cbn in Hp.
    apply andb_true_iff in Hp as [Hz Hle]. split; [apply negb_true_iff, Hz|apply Z.leb_le, Hle]. }
  destruct e as [| i st [ts|] | | | | | i ti [ts|] | i b [ts|] | i ep [ts|] | | i su pa sha mt gi [ts|] | |];
    cbn; try (intros; exact I); try apply Hgen.
  intros H t Hl. pose proof (live_b_spec _ _ _ H t Hl) as Hp. cbn in Hp. apply Z.leb_le, Hp.
Qed.

Fixpoint stamps_b (okb : graph -> event -> bool) (g : graph) (es : list event) : bool :=
  match es with
  | [] => true
  | e :: es' => okb g e && match apply_event g e with Ok g' => stamps_b okb g' es' | Err _ => true end
  end.

Lemma stamps_b_sound (okb : graph -> event -> bool) (ok : graph -> event -> Prop) :
  (forall g e, okb g e = true -> ok g e) ->
  forall es g, stamps_b okb g es = true -> stamps_from ok g es.
Proof.
  intros Hs. induction es as [|e es IH]; intros g; cbn; [tauto|].
  intros H. apply andb_true_iff in H as [H1 H2]. split; [apply Hs, H1|].
  intros g' Hg'. rewrite Hg' in H2. apply IH, H2.
Qed.

Definition stamps_ok_b (es : list event) : bool :=
  stamps_b (fun g e => ev_ok0_b g e && ev_oku_b g e)%bool empty_graph es.
Definition stamps_ok0_b (es : list event) : bool := stamps_b ev_ok0_b empty_graph es.

Lemma stamps_ok_b_sound es : stamps_ok_b es = true -> stamps_ok es.
Proof.
  apply stamps_b_sound. intros g e H. apply andb_true_iff in H as [H1 H2].
  split; [apply ev_ok0_b_sound, H1|apply ev_oku_b_sound, H2].
Qed.
Lemma stamps_ok0_b_sound es : stamps_ok0_b es = true -> stamps_ok0 es.
Proof. apply stamps_b_sound, ev_ok0_b_sound. Qed.

(** Task-level preservation. *)

Lemma wf0_new ie i u ep st ti b ts : task_wf0 (new_task ie i u ep st ti b ts).
Proof.
  split; cbn.
  - unfold created_at. cbn. destruct (is_zero ts); reflexivity.
  - congruence.
  - reflexivity.
Qed.
Lemma wfu_new ie i u ep st ti b ts : task_wfu (new_task ie i u ep st ti b ts).
Proof. split; cbn; try discriminate; try lia. constructor. Qed.

Lemma wf0_set_state st ts t : task_wf0 t -> task_wf0 (set_state st ts t).
Proof.
  intros [H1 H2 H3]. split; cbn; [exact H1| |exact H3].
  destruct (clears_claim st); [congruence|exact H2].
Qed.
Lemma wf0_set_title ti ts t : task_wf0 t -> task_wf0 (set_title ti ts t).
Proof. intros [H1 H2 H3]. split; cbn; assumption. Qed.
Lemma wf0_set_body b ts t : task_wf0 t -> task_wf0 (set_body b ts t).
Proof. intros [H1 H2 H3]. split; cbn; assumption. Qed.
Lemma wf0_add_result r t : task_wf0 t -> task_wf0 (add_result r t).
Proof. intros [H1 H2 H3]. split; cbn; assumption. Qed.
Lemma wf0_set_unclaim t : task_wf0 t -> task_wf0 (set_unclaim t).
Proof. intros [H1 H2 H3]. split; cbn; [exact H1|congruence|exact H3]. Qed.
Lemma wf0_set_claim ag ts t : (ag <> "" -> is_zero ts = false) -> task_wf0 t -> task_wf0 (set_claim ag ts t).
Proof. intros Hz [H1 H2 H3]. split; cbn; assumption. Qed.
Lemma wf0_set_epic e ts t : t_is_epic t = false -> task_wf0 t -> task_wf0 (set_epic e ts t).
Proof. intros Hne [H1 H2 H3]. split; cbn; [exact H1|exact H2|congruence]. Qed.

Lemma wfu_set_claim ag ts t : task_wfu t -> task_wfu (set_claim ag ts t).
Proof. intros [H1 H2 H3 H4 H5 H6 H7]. split; cbn; assumption. Qed.
Lemma wfu_set_unclaim t : task_wfu t -> task_wfu (set_unclaim t).
Proof. intros [H1 H2 H3 H4 H5 H6 H7]. split; cbn; assumption. Qed.

Lemma Forall_results_le rs (u ts : time) :
  (u <= ts)%Z -> Forall (fun r => (r_at r <= u)%Z) rs -> Forall (fun r => (r_at r <= ts)%Z) rs.
Proof. intros Hle H. eapply List.Forall_impl; [|exact H]. cbn. intros; lia. Qed.

Lemma wfu_set_state st ts t :
  is_zero ts = false -> (t_updated t <= ts)%Z -> task_wfu t -> task_wfu (set_state st ts t).
Proof.
  intros Hz Hle [H1 H2 H3 H4 H5 H6 H7].
  assert (Hm : max_time (t_updated t) ts = ts) by (rewrite max_time_max; lia).
  split; cbn; rewrite ?Hm.
  - lia.
  - intros Hn; specialize (H2 Hn); lia.
  - intros Hn; specialize (H3 Hn); lia.
  - lia.
  - intros Hn1 Hn; specialize (H5 Hn1 Hn); lia.
  - eapply Forall_results_le; eassumption.
  - right; right; right; left. tauto.
Qed.
Lemma wfu_set_title ti ts t :
  is_zero ts = false -> (t_updated t <= ts)%Z -> task_wfu t -> task_wfu (set_title ti ts t).
Proof.
  intros Hz Hle [H1 H2 H3 H4 H5 H6 H7].
  assert (Hm : max_time (t_updated t) ts = ts) by (rewrite max_time_max; lia).
  split; cbn; rewrite ?Hm.
  - lia.
  - lia.
  - intros Hn; specialize (H3 Hn); lia.
  - intros Hn; specialize (H4 Hn); lia.
  - intros Hn1 Hn; specialize (H5 Hn1 Hn); lia.
  - eapply Forall_results_le; eassumption.
  - right; left. tauto.
Qed.
Lemma wfu_set_body b ts t :
  is_zero ts = false -> (t_updated t <= ts)%Z -> task_wfu t -> task_wfu (set_body b ts t).
Proof.
  intros Hz Hle [H1 H2 H3 H4 H5 H6 H7].
  assert (Hm : max_time (t_updated t) ts = ts) by (rewrite max_time_max; lia).
  split; cbn; rewrite ?Hm.
  - lia.
  - intros Hn; specialize (H2 Hn); lia.
  - lia.
  - intros Hn; specialize (H4 Hn); lia.
  - intros Hn1 Hn; specialize (H5 Hn1 Hn); lia.
  - eapply Forall_results_le; eassumption.
  - right; right; left. tauto.
Qed.
Lemma wfu_set_epic e ts t :
  t_is_epic t = false -> is_zero ts = false -> (t_updated t <= ts)%Z -> task_wfu t -> task_wfu (set_epic e ts t).
Proof.
  intros Hne Hz Hle [H1 H2 H3 H4 H5 H6 H7].
  assert (Hm : max_time (t_updated t) ts = ts) by (rewrite max_time_max; lia).
  split; cbn; rewrite ?Hm.
  - lia.
  - intros Hn; specialize (H2 Hn); lia.
  - intros Hn; specialize (H3 Hn); lia.
  - intros Hn; specialize (H4 Hn); lia.
  - lia.
  - eapply Forall_results_le; eassumption.
  - right; right; right; right; left. tauto.
Qed.
Lemma wfu_add_result r t :
  (t_updated t <= r_at r)%Z -> task_wfu t -> task_wfu (add_result r t).
Proof.
  intros Hle [H1 H2 H3 H4 H5 H6 H7].
  assert (Hm : max_time (t_updated t) (r_at r) = r_at r) by (rewrite max_time_max; lia).
  split; cbn; rewrite ?Hm.
  - lia.
  - intros Hn; specialize (H2 Hn); lia.
  - intros Hn; specialize (H3 Hn); lia.
  - intros Hn; specialize (H4 Hn); lia.
  - intros Hn1 Hn; specialize (H5 Hn1 Hn); lia.
  - constructor; [lia|]. eapply Forall_results_le; eassumption.
  - right; right; right; right; right. constructor. reflexivity.
Qed.

(** Graph-level preservation, generic in the per-task predicate. *)

Definition graph_all (P : task -> Prop) (g : graph) : Prop :=
  forall k t, g_tasks g !! k = Some t -> t_id t = k /\ P t.

Lemma graph_all_upd (P : task -> Prop) g i f :
  graph_all P g ->
  (forall t, g_tasks g !! i = Some t -> P t -> t_id (f t) = t_id t /\ P (f t)) ->
  graph_all P (upd_task g i f).
Proof.
  intros Hg Hf k t'. cbn. intros Hl. apply lookup_alter_Some in Hl as [(-> & t & Hl & ->)|[Hne Hl]].
  - destruct (Hg _ _ Hl) as [Hid HP]. destruct (Hf t Hl HP) as [Hid' HP']. split; [congruence|exact HP'].
  - apply Hg, Hl.
Qed.

Lemma on_item_inv g i at_ f g' :
  on_item g i at_ f = Ok g' ->
  g' = g \/ exists ts t, at_ = Some ts /\ live g i t /\ g' = upd_task g i (f ts).
Proof.
  unfold on_item, live. destruct (tombed g i) eqn:Et; [intros [= <-]; left; reflexivity|].
  destruct (g_tasks g !! i) as [t|] eqn:El; [|intros [= <-]; left; reflexivity].
  destruct at_ as [ts|]; [|discriminate]. intros [= <-]. right. exists ts, t. tauto.
Qed.

Lemma graph_all_on_item (P : task -> Prop) g i at_ f g' :
  graph_all P g -> on_item g i at_ f = Ok g' ->
  (forall ts t, at_ = Some ts -> live g i t -> P t -> t_id (f ts t) = t_id t /\ P (f ts t)) ->
  graph_all P g'.
Proof.
  intros Hg Ho Hf. apply on_item_inv in Ho as [->|(ts & t & -> & Hlive & ->)]; [exact Hg|].
  apply graph_all_upd; [exact Hg|]. intros t' Hl HP. apply Hf; [reflexivity| |exact HP].
  destruct Hlive as [Ht Hl']. split; [exact Ht|exact Hl].
Qed.

Lemma graph_all_step (P : task -> Prop) (ok : graph -> event -> Prop) :
  (forall g ie i u ep st ti b ts, ok g (ENew ie i u ep st ti b (Some ts)) -> P (new_task ie i u ep st ti b ts)) ->
  (forall t, P t -> P (set_unclaim t)) ->
  (forall g i st ts t, ok g (EState i st (Some ts)) -> live g i t -> P t -> P (set_state st ts t)) ->
  (forall g i ag ts t, ok g (EClaim i ag (Some ts)) -> live g i t -> P t -> P (set_claim ag ts t)) ->
  (forall g i ti ts t, ok g (ETitle i ti (Some ts)) -> live g i t -> P t -> P (set_title ti ts t)) ->
  (forall g i b ts t, ok g (EBody i b (Some ts)) -> live g i t -> P t -> P (set_body b ts t)) ->
  (forall g i e ts t, ok g (EEpic i e (Some ts)) -> live g i t -> P t -> P (set_epic e ts t)) ->
  (forall g i su pa sha mt gi ts t, ok g (EResult i su pa sha mt gi (Some ts)) -> live g i t -> P t ->
      P (add_result (Result su pa sha mt gi ts) t)) ->
  forall g e g', graph_all P g -> ok g e -> apply_event g e = Ok g' -> graph_all P g'.
Proof.
  intros Hnew Hun Hst Hcl Hti Hbo Hep Hre g e g' Hg Hok Ha.
  destruct e as [ie i u ep st ti b at_| i st at_ | i ag at_ | i | a b ty | a b ty | i ti at_ | i b at_
                | i ep at_ | i ag at_ | i su pa sha mt gi at_ | |]; cbn in Ha.
  - (* ENew *)
    destruct (tombed g i); [injection Ha as <-; exact Hg|].
    destruct (g_tasks g !! i) eqn:El; [discriminate|]. destruct at_ as [ts|]; [|discriminate].
    injection Ha as <-. intros k t. cbn. intros Hl. apply lookup_insert_Some in Hl as [[<- <-]|[Hne Hl]].
    + split; [reflexivity|eapply Hnew, Hok].
    + apply Hg, Hl.
  - eapply graph_all_on_item; [exact Hg|exact Ha|]. intros ts t -> Hlive HP. split; [reflexivity|eauto].
  - eapply graph_all_on_item; [exact Hg|exact Ha|]. intros ts t -> Hlive HP. split; [reflexivity|eauto].
  - destruct (tombed g i); injection Ha as <-; [exact Hg|].
    apply graph_all_upd; [exact Hg|]. intros t _ HP. split; [reflexivity|apply Hun, HP].
  - destruct (_ || _ || _)%bool; injection Ha as <-; exact Hg.
  - destruct (_ || _ || _)%bool; injection Ha as <-; exact Hg.
  - eapply graph_all_on_item; [exact Hg|exact Ha|]. intros ts t -> Hlive HP. split; [reflexivity|eauto].
  - eapply graph_all_on_item; [exact Hg|exact Ha|]. intros ts t -> Hlive HP. split; [reflexivity|eauto].
  - eapply graph_all_on_item; [exact Hg|exact Ha|]. intros ts t -> Hlive HP. split; [reflexivity|eauto].
  - destruct at_ as [ts0|]; [|discriminate]. injection Ha as <-. intros k t. cbn. intros Hl.
    apply lookup_delete_Some in Hl as [_ Hl]. apply Hg, Hl.
  - eapply graph_all_on_item; [exact Hg|exact Ha|]. intros ts t -> Hlive HP. split; [reflexivity|eauto].
  - discriminate.
  - injection Ha as <-. exact Hg.
Qed.

Lemma graph_wf0_all g : graph_wf0 g <-> graph_all task_wf0 g.
Proof. reflexivity. Qed.
Lemma graph_wf_all g : graph_wf g <-> graph_all (fun t => task_wf0 t /\ task_wfu t) g.
Proof. reflexivity. Qed.

Lemma graph_wf0_step g e g' : graph_wf0 g -> ev_ok0 g e -> apply_event g e = Ok g' -> graph_wf0 g'.
Proof.
  apply (graph_all_step task_wf0 ev_ok0).
  - intros; apply wf0_new.
  - intros; apply wf0_set_unclaim; assumption.
  - intros; apply wf0_set_state; assumption.
  - intros g0 i ag ts t Hok Hl HP. apply wf0_set_claim; [|exact HP]. cbn in Hok. eapply Hok, Hl.
  - intros; apply wf0_set_title; assumption.
  - intros; apply wf0_set_body; assumption.
  - intros g0 i ep ts t Hok Hl HP. apply wf0_set_epic; [|exact HP]. cbn in Hok. eapply Hok, Hl.
  - intros; apply wf0_add_result; assumption.
Qed.

Lemma graph_wf_step g e g' :
  graph_wf g -> ev_ok0 g e /\ ev_oku g e -> apply_event g e = Ok g' -> graph_wf g'.
Proof.
  apply (graph_all_step (fun t => task_wf0 t /\ task_wfu t) (fun g e => ev_ok0 g e /\ ev_oku g e)).
  - intros; split; [apply wf0_new|apply wfu_new].
  - intros t [? ?]; split; [apply wf0_set_unclaim|apply wfu_set_unclaim]; assumption.
  - intros g0 i st ts t [_ Hok] Hl [H0 HU]. cbn in Hok. destruct (Hok t Hl) as [Hz Hle].
    split; [apply wf0_set_state|apply wfu_set_state]; assumption.
  - intros g0 i ag ts t [Hok _] Hl [H0 HU]. cbn in Hok.
    split; [apply wf0_set_claim; [eapply Hok, Hl|exact H0]|apply wfu_set_claim, HU].
  - intros g0 i ti ts t [_ Hok] Hl [H0 HU]. cbn in Hok. destruct (Hok t Hl) as [Hz Hle].
    split; [apply wf0_set_title|apply wfu_set_title]; assumption.
  - intros g0 i b ts t [_ Hok] Hl [H0 HU]. cbn in Hok. destruct (Hok t Hl) as [Hz Hle].
    split; [apply wf0_set_body|apply wfu_set_body]; assumption.
  - intros g0 i ep ts t [Hok0 Hok] Hl [H0 HU]. cbn in Hok0, Hok. destruct (Hok t Hl) as [Hz Hle].
    pose proof (Hok0 t Hl) as Hne.
    split; [apply wf0_set_epic|apply wfu_set_epic]; assumption.
  - intros g0 i su pa sha mt gi ts t [_ Hok] Hl [H0 HU]. cbn in Hok. pose proof (Hok t Hl) as Hle.
    split; [apply wf0_add_result|apply wfu_add_result]; assumption.
Qed.

Lemma graph_wf_empty : graph_wf empty_graph.
Proof. intros k t. cbn. rewrite lookup_empty. discriminate. Qed.
Lemma graph_wf0_empty : graph_wf0 empty_graph.
Proof. intros k t. cbn. rewrite lookup_empty. discriminate. Qed.

Theorem replay_wf (es : list event) (g : graph) :
  stamps_ok es -> replay_raw es = Ok g -> graph_wf g.
Proof.
  intros Hs Hr.
  eapply (stamps_from_inv _ graph_wf graph_wf_step es empty_graph g graph_wf_empty Hs Hr).
Qed.

Theorem replay_wf0 (es : list event) (g : graph) :
  stamps_ok0 es -> replay_raw es = Ok g -> graph_wf0 g.
Proof.
  intros Hs Hr.
  eapply (stamps_from_inv _ graph_wf0 graph_wf0_step es empty_graph g graph_wf0_empty Hs Hr).
Qed.

(** * A purely syntactic sufficient condition for [stamps_ok]

    [stamps_simple es] looks only at the events, never at a graph:
    (1) the stamps replay stores in [m_last_*] are non-zero (a claim by the
        empty agent is exempt);
    (2) per item id, the stamps of the events that move [updated_at] (create,
        state, title, body, epic, result) never decrease along the log;
    (3) no [EEpic] event targets an id that an earlier [ENew true] created. *)

Definition upd_stamp (e : event) : option (string * time) :=
  match e with
  | ENew _ i _ _ _ _ _ (Some ts) | EState i _ (Some ts) | ETitle i _ (Some ts) | EBody i _ (Some ts)
  | EEpic i _ (Some ts) | EResult i _ _ _ _ _ (Some ts) => Some (i, ts)
  | _ => None
  end.
Definition kept_nonzero (e : event) : Prop :=
  match e with
  | EState _ _ (Some ts) | ETitle _ _ (Some ts) | EBody _ _ (Some ts) | EEpic _ _ (Some ts) => is_zero ts = false
  | EClaim _ ag (Some ts) => ag <> "" -> is_zero ts = false
  | _ => True
  end.
Definition new_epic_id (e : event) : option string :=
  match e with ENew true i _ _ _ _ _ _ => Some i | _ => None end.
Definition epic_target (e : event) : option string :=
  match e with EEpic i _ _ => Some i | _ => None end.

(** [past] is the already-processed prefix (most recent first). *)
Fixpoint stamps_simple_from (past es : list event) : Prop :=
  match es with
  | [] => True
  | e :: es' =>
      kept_nonzero e
      /\ (forall i ts, upd_stamp e = Some (i, ts) ->
            forall e0 ts0, e0 ∈ past -> upd_stamp e0 = Some (i, ts0) -> (ts0 <= ts)%Z)
      /\ (forall i, epic_target e = Some i -> forall e0, e0 ∈ past -> new_epic_id e0 <> Some i)
      /\ stamps_simple_from (e :: past) es'
  end.
Definition stamps_simple (es : list event) : Prop := stamps_simple_from [] es.

(** What replaying [past] guarantees about each task. *)
Definition past_inv (past : list event) (t : task) : Prop :=
  (exists e0, e0 ∈ past /\ upd_stamp e0 = Some (t_id t, t_updated t))
  /\ (t_is_epic t = true -> exists e0, e0 ∈ past /\ new_epic_id e0 = Some (t_id t)).

Lemma past_inv_mono e past t : past_inv past t -> past_inv (e :: past) t.
Proof.
  intros [(e0 & Hin & Hu) He]. split.
  - exists e0. split; [right; exact Hin|exact Hu].
  - intros Hep. destruct (He Hep) as (e1 & Hin1 & Hn). exists e1. split; [right; exact Hin1|exact Hn].
Qed.

Lemma past_inv_upd e past t t' ts :
  upd_stamp e = Some (t_id t, ts) -> (t_updated t <= ts)%Z ->
  t_id t' = t_id t -> t_is_epic t' = t_is_epic t -> t_updated t' = max_time (t_updated t) ts ->
  past_inv (e :: past) t -> past_inv (e :: past) t'.
Proof.
  intros Hu Hle Hid Hie Hup [_ He]. split.
  - exists e. split; [left|]. rewrite Hid, Hup, max_time_max, Hu. do 2 f_equal. lia.
  - rewrite Hid, Hie. exact He.
Qed.

Lemma past_inv_same e past t t' :
  t_id t' = t_id t -> t_is_epic t' = t_is_epic t -> t_updated t' = t_updated t ->
  past_inv (e :: past) t -> past_inv (e :: past) t'.
Proof. intros Hid Hie Hup [Hs He]. split; rewrite Hid, ?Hie, ?Hup; assumption. Qed.

Lemma stamps_simple_from_ok es : forall past g,
  graph_all (past_inv past) g -> stamps_simple_from past es ->
  stamps_from (fun g e => ev_ok0 g e /\ ev_oku g e) g es.
Proof.
  induction es as [|e es IH]; intros past g HJ Hs; [exact I|].
  cbn [stamps_simple_from] in Hs. destruct Hs as (Hnz & Hmono & Hepic & Hs).
  assert (Hle : forall i ts t, upd_stamp e = Some (i, ts) -> live g i t -> (t_updated t <= ts)%Z).
  { intros i ts t Hu [_ Hl]. destruct (HJ i t Hl) as [Hid [(e0 & Hin & Hu0) _]].
    rewrite Hid in Hu0. eapply Hmono; eassumption. }
  assert (Hok0 : ev_ok0 g e).
  { destruct e as [| | i ag [ts|] | | | | | | i ep [ts|] | | | |]; cbn; try exact I.
    - intros t _. exact Hnz.
    - intros t [_ Hl]. destruct (t_is_epic t) eqn:Eie; [exfalso|reflexivity].
      destruct (HJ i t Hl) as [Hid [_ He]]. destruct (He Eie) as (e0 & Hin & Hn).
      rewrite Hid in Hn. eapply Hepic; [reflexivity|exact Hin|exact Hn]. }
  assert (Hoku : ev_oku g e).
  { destruct e as [| i st [ts|] | | | | | i ti [ts|] | i b [ts|] | i ep [ts|] | | i su pa sha mt gi [ts|] | |];
      cbn; try exact I; intros t Hl; try split; try exact Hnz; eapply Hle; try exact Hl; reflexivity. }
  cbn [stamps_from]. split; [split; assumption|]. intros g' Hg'.
  apply (IH (e :: past)); [|exact Hs].
  assert (HJ' : graph_all (past_inv (e :: past)) g).
  { intros k t Hl. destruct (HJ k t Hl) as [Hid HP]. split; [exact Hid|apply past_inv_mono, HP]. }
  assert (Hid : forall i t, live g i t -> t_id t = i).
  { intros i t [_ Hl]. apply (HJ i t Hl). }
  revert Hg'.
  apply (graph_all_step (past_inv (e :: past)) (fun g0 e0 => g0 = g /\ e0 = e)); try exact HJ'; try (split; reflexivity).
  - intros g0 ie i u ep st ti b ts [-> <-]. split; cbn.
    + eexists. split; [left|]. reflexivity.
    + intros ->. eexists. split; [left|]. reflexivity.
  - intros t. apply past_inv_same; reflexivity.
  - intros g0 i st ts t [-> <-] Hl. apply (past_inv_upd _ _ t _ ts); try reflexivity.
    + cbn. rewrite (Hid i t Hl). reflexivity.
    + eapply Hle; [reflexivity|exact Hl].
  - intros g0 i ag ts t _ _. apply past_inv_same; reflexivity.
  - intros g0 i ti ts t [-> <-] Hl. apply (past_inv_upd _ _ t _ ts); try reflexivity.
    + cbn. rewrite (Hid i t Hl). reflexivity.
    + eapply Hle; [reflexivity|exact Hl].
  - intros g0 i b ts t [-> <-] Hl. apply (past_inv_upd _ _ t _ ts); try reflexivity.
    + cbn. rewrite (Hid i t Hl). reflexivity.
    + eapply Hle; [reflexivity|exact Hl].
  - intros g0 i ep ts t [-> <-] Hl. apply (past_inv_upd _ _ t _ ts); try reflexivity.
    + cbn. rewrite (Hid i t Hl). reflexivity.
    + eapply Hle; [reflexivity|exact Hl].
  - intros g0 i su pa sha mt gi ts t [-> <-] Hl. apply (past_inv_upd _ _ t _ ts); try reflexivity.
    + cbn. rewrite (Hid i t Hl). reflexivity.
    + eapply Hle; [reflexivity|exact Hl].
Qed.

Theorem stamps_simple_ok es : stamps_simple es -> stamps_ok es.
Proof.
  apply stamps_simple_from_ok. intros k t. cbn. rewrite lookup_empty. discriminate.
Qed.

(** * Corollaries on logs *)

Corollary compact_preserves_log (es : list event) (g : graph) :
  stamps_ok es -> replay_raw es = Ok g ->
  exists g', replay_raw (compact_events (finalize g)) = Ok g'
          /\ obs (finalize g') = obs (finalize g)
          /\ g_tombs g' = ∅
          /\ dom (g_tasks g') = dom (g_tasks g)
          /\ g_deps g' = g_deps g
          /\ prune_targets (finalize g') = prune_targets (finalize g)
          /\ (forall i, task_core <$> (g_tasks g' !! i) = task_core <$> (g_tasks g !! i))
          /\ graph_wf g'.
Proof. intros Hs Hr. apply compact_preserves. eapply replay_wf; eassumption. Qed.

Corollary compact_preserves_all_but_updated_log (es : list event) (g : graph) :
  stamps_ok0 es -> replay_raw es = Ok g ->
  exists g', replay_raw (compact_events (finalize g)) = Ok g'
          /\ obs_no_updated (finalize g') = obs_no_updated (finalize g)
          /\ g_tombs g' = ∅
          /\ dom (g_tasks g') = dom (g_tasks g)
          /\ g_deps g' = g_deps g
          /\ prune_targets (finalize g') = prune_targets (finalize g)
          /\ (forall i, task_core <$> (g_tasks g' !! i) = task_core <$> (g_tasks g !! i))
          /\ graph_wf0 g'.
Proof. intros Hs Hr. apply compact_preserves_all_but_updated. eapply replay_wf0; eassumption. Qed.

(** Compacting the compacted log changes nothing a reader can see. *)
Corollary compact_idempotent (es : list event) (g : graph) :
  stamps_ok es -> replay_raw es = Ok g ->
  exists g1 g2,
    replay_raw (compact_events (finalize g)) = Ok g1
    /\ replay_raw (compact_events (finalize g1)) = Ok g2
    /\ obs (finalize g2) = obs (finalize g1)
    /\ obs (finalize g1) = obs (finalize g)
    /\ g_deps g2 = g_deps g /\ dom (g_tasks g2) = dom (g_tasks g) /\ graph_wf g2.
Proof.
  intros Hs Hr.
  destruct (compact_preserves_log es g Hs Hr) as (g1 & Hr1 & Ho1 & _ & Hd1 & He1 & _ & _ & Hw1).
  destruct (compact_preserves g1 Hw1) as (g2 & Hr2 & Ho2 & _ & Hd2 & He2 & _ & _ & Hw2).
  exists g1, g2. split; [exact Hr1|]. split; [exact Hr2|]. split; [exact Ho2|]. split; [exact Ho1|].
  split; [rewrite He2; exact He1|]. split; [rewrite Hd2; exact Hd1|exact Hw2].
Qed.

(** * The hypotheses are necessary: concrete logs, evaluated *)

Definition compaction_changes_obs (es : list event) : Prop :=
  exists g g', replay_raw es = Ok g
            /\ replay_raw (compact_events (finalize g)) = Ok g'
            /\ obs (finalize g') <> obs (finalize g).

(** Proof by evaluation, without ever normalising a graph (only the
    observations are computed). *)
Definition unwrap (m : res graph) : graph := match m with Ok g => g | Err _ => empty_graph end.
Definition compacted_of (es : list event) : res graph :=
  replay_raw (compact_events (finalize (unwrap (replay_raw es)))).

Lemma is_ok_unwrap m : is_ok m = true -> m = Ok (unwrap m).
Proof. destruct m; [reflexivity|discriminate]. Qed.

Lemma changes_obs_by_compute es :
  is_ok (replay_raw es) = true -> is_ok (compacted_of es) = true ->
  obs (finalize (unwrap (compacted_of es))) <> obs (finalize (unwrap (replay_raw es))) ->
  compaction_changes_obs es.
Proof.
  intros H1 H2 H3. exists (unwrap (replay_raw es)), (unwrap (compacted_of es)).
  split; [apply is_ok_unwrap, H1|]. split; [apply (is_ok_unwrap _ H2)|exact H3].
Qed.

Ltac changes_obs :=
  apply changes_obs_by_compute;
  [vm_compute; reflexivity|vm_compute; reflexivity|vm_compute; let H := fresh in intros H; discriminate H].

(** Stamps going backwards (title at 50, then title at 30): [updated_at] is 50
    before compaction and 30 after.  Everything else about the log is fine. *)
Definition log_backwards : list event :=
  [ENew false "a" "u1" "" "todo" "T" "B" (Some 10%Z);
   ETitle "a" "T2" (Some 50%Z);
   ETitle "a" "T3" (Some 30%Z)].

Theorem log_backwards_changes_obs : compaction_changes_obs log_backwards.
Proof. changes_obs. Qed.

Theorem compact_updated_at_needs_monotone_refuted :
  exists es g, stamps_ok0 es /\ replay_raw es = Ok g
    /\ exists g', replay_raw (compact_events (finalize g)) = Ok g'
               /\ obs (finalize g') <> obs (finalize g).
Proof.
  destruct log_backwards_changes_obs as (g & g' & Hg & Hg' & Hne).
  exists log_backwards, g. split; [apply stamps_ok0_b_sound; vm_compute; reflexivity|].
  split; [exact Hg|]. exists g'. split; [exact Hg'|exact Hne].
Qed.

(** The log suggested in the task statement (create 10, title 50, state 30) does
    NOT refute the theorem: both stamps are re-emitted and replay takes the max. *)
Example backwards_across_kinds_is_harmless :
  exists g g',
    replay_raw [ENew false "a" "u1" "" "todo" "T" "B" (Some 10%Z);
                ETitle "a" "T2" (Some 50%Z);
                EState "a" "doing" (Some 30%Z)] = Ok g
    /\ replay_raw (compact_events (finalize g)) = Ok g'
    /\ obs (finalize g') = obs (finalize g).
Proof.
  eexists _, _. split; [vm_compute; reflexivity|]. split; [vm_compute; reflexivity|].
  vm_compute. reflexivity.
Qed.

(** A claim stamped with Go's zero time: [claimed_at] is absent before and present after. *)
Theorem zero_claim_stamp_refuted :
  compaction_changes_obs
    [ENew false "a" "u1" "" "todo" "T" "B" (Some 10%Z);
     EClaim "a" "bob" (Some zero_time)].
Proof. changes_obs. Qed.

(** An epic that is re-parented: compaction never re-emits the epic field of an epic. *)
Theorem epic_reparent_refuted :
  compaction_changes_obs
    [ENew true "e" "u1" "" "todo" "E" "" (Some 10%Z);
     EEpic "e" "x" (Some 20%Z)].
Proof. changes_obs. Qed.

(** A zero update stamp on an item created before year 1: the state event is
    neither "touched" nor a change, so it is dropped and [updated_at] moves back. *)
Theorem zero_update_stamp_refuted :
  compaction_changes_obs
    [ENew false "a" "u1" "" "todo" "T" "B" (Some (zero_time - 5)%Z);
     EState "a" "todo" (Some zero_time)].
Proof. changes_obs. Qed.

(** * The hypotheses are satisfiable by a non-trivial log *)

Definition example_log : list event :=
  [ENew true "e1" "u0" "" "todo" "Epic one" "" (Some 5%Z);
   ENew false "a" "u1" "e1" "todo" "Task A" "body a" (Some 10%Z);
   ENew false "b" "u2" "" "todo" "" "# heading
legacy title
rest" (Some 11%Z);
   ELink "b" "a" "depends";
   EState "a" "doing" (Some 20%Z);
   EClaim "a" "bob" (Some 20%Z);
   EResult "a" "summary" "out.txt" "sha" "mt" "git" (Some 30%Z);
   EBody "a" "body a2" (Some 30%Z);
   EEpic "b" "e1" (Some 40%Z);
   ENew false "c" "u3" "" "todo" "Task C" "" (Some 41%Z);
   ETomb "c" "bob" (Some 42%Z);
   ETitle "c" "ignored" None]%string.

Example example_log_ok :
  stamps_ok example_log
  /\ exists g, replay_raw example_log = Ok g /\ graph_wf g
     /\ size (g_tasks g) = 3 /\ size (g_deps g) = 1 /\ size (g_tombs g) = 1.
Proof.
  assert (Hs : stamps_ok example_log) by (apply stamps_ok_b_sound; vm_compute; reflexivity).
  assert (Hr : replay_raw example_log = Ok (unwrap (replay_raw example_log)))
    by (apply is_ok_unwrap; vm_compute; reflexivity).
  split; [exact Hs|]. exists (unwrap (replay_raw example_log)).
  split; [exact Hr|]. split; [eapply replay_wf; [exact Hs|exact Hr]|].
  split; [vm_compute; reflexivity|]. split; vm_compute; reflexivity.
Qed.

(** On the example log compaction indeed preserves the observations (also checked by evaluation). *)
Example example_log_compact :
  obs (finalize (unwrap (compacted_of example_log))) = obs (finalize (unwrap (replay_raw example_log)))
  /\ length (compact_events (finalize (unwrap (replay_raw example_log)))) = 10.
Proof. split; vm_compute; reflexivity. Qed.

Print Assumptions trim_space_idem.
Print Assumptions compact_core.
Print Assumptions compact_preserves.
Print Assumptions compact_preserves_per_id.
Print Assumptions compact_preserves_all_but_updated.
Print Assumptions replay_wf.
Print Assumptions replay_wf0.
Print Assumptions stamps_simple_ok.
Print Assumptions compact_preserves_log.
Print Assumptions compact_preserves_all_but_updated_log.
Print Assumptions compact_idempotent.
Print Assumptions compact_updated_at_needs_monotone_refuted.
Print Assumptions zero_claim_stamp_refuted.
Print Assumptions epic_reparent_refuted.
Print Assumptions zero_update_stamp_refuted.
Print Assumptions example_log_ok.
