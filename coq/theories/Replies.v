(** Replies.v — C16: what a success value reports (new id and state, claimed id,
    pruned ids, planned ids / edges) is what replaying the new log shows. *)
From Ergo Require Import Base Text Events Replay Ready Compact Path Cmd Input Graphs TextFacts
  Invariants ReadySpec Facts PrunePlan Reach.
Local Open Scope string_scope.
Local Open Scope list_scope.

(** * buildSetEvents: the exact (state, claimant) its events produce *)
Definition implicit_claim (t : task) (u : upd) (agent : string) : option (option string) :=
  match u_claim u with
  | Some c => Some (Some c)
  | None =>
      if (negb (t_is_epic t) && String.eqb (t_claimed t) "")%bool then
        match u_state u with
        | Some s => if (String.eqb s "doing" || String.eqb s "error")%bool
                    then (if String.eqb agent "" then None else Some (Some agent))
                    else Some None
        | None => Some None
        end
      else Some None
  end.

Definition final_sc (t : task) (u : upd) (claim : option string) : string * string :=
  let claim_set := (is_some claim && negb (t_is_epic t))%bool in
  let claim_val := opt_default "" claim in
  match u_state u with
  | Some s => (s, if clears_claim s then "" else if claim_set then claim_val else t_claimed t)
  | None => if (claim_set && negb (String.eqb claim_val ""))%bool then ("doing", claim_val)
            else if claim_set then (t_state t, "") else (t_state t, t_claimed t)
  end.

Definition no_text (e : event) : Prop :=
  match e with ETitle _ _ _ | EBody _ _ _ => False | _ => True end.

Local Ltac inv_some H := injection H as <-.

Lemma build_set_events_final i t u agent now evs :
  build_set_events i t u agent now = Some evs ->
  exists claim, implicit_claim t u agent = Some claim /\
    Forall (is_upd i) evs /\
    fold_left (fun sc e => sc_step e sc) evs (t_state t, t_claimed t) = final_sc t u claim /\
    (u_title u = None -> u_body u = None -> Forall no_text evs).
Proof.
  unfold build_set_events. intros H.
  set (claim0 := match u_claim u with Some c => Some (Some c) | None => _ end) in H.
  assert (Hic : implicit_claim t u agent = claim0) by reflexivity.
  destruct claim0 as [claim|] eqn:Hclaim0; [|discriminate].
  exists claim. split; [exact Hic|].
  destruct (match u_title u with Some ti => _ | None => Some [] end) as [ev_title|] eqn:Htitle; [|discriminate].
  destruct (match u_epic u with Some e => _ | None => Some [] end) as [ev_epic|] eqn:Hepic; [|discriminate].
  set (ev_body := match u_body u with Some b => [EBody i b (Some now)] | None => [] end) in H.
  set (claim_set := (is_some claim && negb (t_is_epic t))%bool) in H.
  set (claim_val := opt_default "" claim) in H.
  set (ev_claim := if claim_set then _ else []) in H.
  assert (Ht_upd : Forall (is_upd i) ev_title /\ Forall sc_neutral ev_title /\ (u_title u = None -> ev_title = [])).
  { destruct (u_title u) as [ti|]; [|inv_some Htitle; repeat split; constructor].
    destruct (String.eqb (trim_space ti) ""); [discriminate|]. inv_some Htitle.
    repeat split; repeat constructor. discriminate. }
  assert (Hb_upd : Forall (is_upd i) ev_body /\ Forall sc_neutral ev_body /\ (u_body u = None -> ev_body = [])).
  { subst ev_body. destruct (u_body u); repeat split; repeat constructor. discriminate. }
  assert (He_upd : Forall (is_upd i) ev_epic /\ Forall sc_neutral ev_epic /\ Forall no_text ev_epic).
  { destruct (u_epic u) as [e|]; [|inv_some Hepic; repeat split; constructor].
    destruct (t_is_epic t); [discriminate|]. inv_some Hepic. repeat split; repeat constructor. }
  assert (Hc_upd : Forall (is_upd i) ev_claim /\ Forall no_text ev_claim).
  { subst ev_claim. destruct claim_set; [|split; constructor].
    destruct (String.eqb claim_val ""); split; repeat constructor. }
  destruct Ht_upd as (Ht1 & Ht2 & Ht3). destruct Hb_upd as (Hb1 & Hb2 & Hb3).
  destruct He_upd as (He1 & He2 & He3). destruct Hc_upd as (Hc1 & Hc3).
  assert (Hclaim_sc : forall sc, fold_left (fun sc e => sc_step e sc) ev_claim sc
                                 = if claim_set then (sc.1, claim_val) else sc).
  { intros sc. subst ev_claim. destruct claim_set; [|done].
    destruct (String.eqb claim_val "") eqn:E; cbn; [apply eqb_true in E; rewrite E|]; done. }
  assert (Hpre_sc : forall tail sc, fold_left (fun sc e => sc_step e sc) (ev_title ++ ev_body ++ ev_epic ++ ev_claim ++ tail) sc
                    = fold_left (fun sc e => sc_step e sc) tail (if claim_set then (sc.1, claim_val) else sc)).
  { intros tail sc. rewrite !fold_left_app, (fold_sc_neutral _ _ Ht2), (fold_sc_neutral _ _ Hb2),
      (fold_sc_neutral _ _ He2), Hclaim_sc. done. }
  assert (Hpre_upd : forall tail, Forall (is_upd i) tail ->
            Forall (is_upd i) (ev_title ++ ev_body ++ ev_epic ++ ev_claim ++ tail)).
  { intros tail Htl. repeat (apply Forall_app; split); assumption. }
  assert (Hpre_txt : forall tail, Forall no_text tail -> u_title u = None -> u_body u = None ->
            Forall no_text (ev_title ++ ev_body ++ ev_epic ++ ev_claim ++ tail)).
  { intros tail Htl Hut Hub. rewrite (Ht3 Hut), (Hb3 Hub). cbn [app].
    repeat (apply Forall_app; split); assumption. }
  unfold final_sc. fold claim_set claim_val.
  destruct (u_state u) as [s|] eqn:Hstate.
  - destruct (valid_state s) eqn:Hvs; [|discriminate]. cbn [negb] in H.
    destruct (validate_transition (t_state t) s) eqn:Hvt; [|discriminate]. cbn [negb] in H.
    destruct (validate_claim_invariant s _) eqn:Hci; [|discriminate]. cbn [negb] in H. inv_some H.
    split; [apply Hpre_upd; repeat constructor|]. split; [|apply Hpre_txt; repeat constructor].
    rewrite Hpre_sc. cbn [fold_left sc_step fst snd]. destruct claim_set; reflexivity.
  - destruct (claim_set && negb (String.eqb claim_val ""))%bool eqn:Hc1'.
    + destruct (validate_transition (t_state t) "doing") eqn:Hvt; [|discriminate]. inv_some H.
      apply andb_prop in Hc1' as [Hcs Hne].
      split; [apply Hpre_upd; repeat constructor|]. split; [|apply Hpre_txt; repeat constructor].
      rewrite Hpre_sc, Hcs. reflexivity.
    + destruct (claim_set && String.eqb claim_val "")%bool eqn:Hc2'.
      * destruct (validate_claim_invariant (t_state t) "") eqn:Hci; [|discriminate]. inv_some H.
        apply andb_prop in Hc2' as [Hcs He]. apply eqb_true in He.
        rewrite <- (app_nil_r ev_claim).
        split; [apply Hpre_upd; constructor|]. split; [|apply Hpre_txt; constructor].
        rewrite Hpre_sc, Hcs, He. reflexivity.
      * inv_some H.
        assert (Hcs : claim_set = false).
        { destruct claim_set; [|done]. cbn in Hc1', Hc2'. destruct (String.eqb claim_val ""); discriminate. }
        rewrite <- (app_nil_r ev_claim).
        split; [apply Hpre_upd; constructor|]. split; [|apply Hpre_txt; constructor].
        rewrite Hpre_sc, Hcs. reflexivity.
Qed.

(** * Events that leave title and body alone *)
Lemma no_text_fixed e t : no_text e -> t_title (ev_fun e t) = t_title t /\ t_body (ev_fun e t) = t_body t.
Proof.
  destruct e as [| j s [ts|] | j a [ts|] | j | | | j ti [ts|] | j b [ts|] | j ep [ts|] | | j su pa sha mt gi [ts|] | |];
    cbn; intros H; try contradiction; split; reflexivity.
Qed.
Lemma fold_no_text evs t :
  Forall no_text evs ->
  let t' := fold_left (fun t e => ev_fun e t) evs t in t_title t' = t_title t /\ t_body t' = t_body t.
Proof.
  intros H. revert t. induction H as [|e evs He _ IH]; intros t; cbn [fold_left]; [split; reflexivity|].
  specialize (IH (ev_fun e t)). cbn zeta in *. destruct IH as [-> ->]. apply no_text_fixed. exact He.
Qed.
Lemma result_event_no_text e g i s p ev : build_result_event e g i s p = Some ev -> no_text ev.
Proof.
  unfold build_result_event. destruct (tombed g i); [discriminate|].
  destruct (g_tasks g !! i) as [t|]; [|discriminate]. destruct (t_is_epic t); [discriminate|].
  destruct (valid_summary s); [|discriminate]. destruct (lexical_result_path p); [|discriminate].
  destruct (e_fkind e); try discriminate. intros [= <-]. exact I.
Qed.

Lemma final_state_new i uuid ep title body now u agent claim :
  let t := new_task false i uuid ep "todo" title body now in
  implicit_claim t u agent = Some claim -> (final_sc t u claim).1 = final_state_of u.
Proof.
  cbn zeta. unfold implicit_claim, final_sc, final_state_of. cbn [new_task t_is_epic t_claimed t_state negb andb].
  destruct (u_state u) as [s|]; [reflexivity|].
  destruct (u_claim u) as [c|].
  - intros [= <-]. cbn [is_some opt_default andb]. destruct (String.eqb c ""); reflexivity.
  - change (String.eqb "" "") with true. cbn [andb]. intros [= <-]. reflexivity.
Qed.

(** * 1. create: the reported id is fresh and now live; the reported state is the task's state *)
Theorem new_reply_truthful e k title body epic u agent graw evs i st :
  Inv graw ->
  new_txn e k title body epic u agent (finalize graw) = Some (evs, RCreated i st) ->
  exists g', replay_from graw evs = Ok g' /\
    exists t, g_tasks g' !! i = Some t /\ t_id t = i /\ t_state t = st /\ t_is_epic t = k /\
              t_title t = title /\ t_body t = body /\ t_epic t = (if k then "" else epic) /\
              g_tasks graw !! i = None /\ i ∉ g_tombs graw.
Proof.
  intros HI. unfold new_txn.
  set (u' := Upd None None None (u_state u) (u_claim u) (u_rpath u) (u_rsum u)).
  set (epic_ok := if (negb k && negb (String.eqb epic ""))%bool then _ else true).
  destruct epic_ok eqn:Hepok; [|discriminate]. cbn [negb].
  destruct (pick_id (e_ids e) (taken_in (finalize graw) [])) as [[j rest]|] eqn:Hpick; [|discriminate].
  apply pick_id_fresh, taken_in_false in Hpick as (Hfresh & Hnt & _).
  rewrite finalize_lookup in Hfresh. destruct (g_tasks graw !! j) eqn:Hfresh0; [discriminate|]. clear Hfresh.
  rewrite finalize_tombed in Hnt.
  assert (Hnt' : j ∉ g_tombs graw) by (apply tombed_false; exact Hnt).
  set (uuid := opt_default "" (head (e_uuids e))).
  set (ep := if k then "" else epic).
  set (t := new_task k j uuid ep "todo" title body (e_now e)).
  assert (Hcreate : apply_event graw (ENew k j uuid ep "todo" title body (Some (e_now e))) = Ok (put graw j t)).
  { cbn. rewrite Hnt, Hfresh0. reflexivity. }
  destruct (k || upd_empty u')%bool eqn:Hplain.
  { intros [= <- <- <-]. exists (put graw j t). split.
    - unfold replay_from. cbn [foldM]. rewrite Hcreate. reflexivity.
    - exists t. rewrite put_lookup. repeat split; assumption. }
  apply orb_false_elim in Hplain as [Hisep _]. subst k. cbn in ep.
  destruct (result_req u') as [rq|]; [|discriminate].
  set (g' := Graph _ _ _).
  set (R := match rq with Some (p, s) => _ | None => Some [] end).
  destruct R as [ev_res|] eqn:HR; [|discriminate].
  assert (Hrs : Forall (is_upd j) ev_res /\ Forall sc_neutral ev_res /\ Forall epic_neutral ev_res /\ Forall no_text ev_res).
  { subst R. destruct rq as [[p s]|]; [|injection HR as <-; repeat split; constructor].
    destruct (build_result_event e g' j s p) as [ev|] eqn:Hb; [|discriminate].
    injection HR as <-. pose proof (result_event_no_text _ _ _ _ _ _ Hb) as Hnt2.
    apply result_event_upd in Hb as (H1 & H2 & H3 & _). repeat split; repeat constructor; assumption. }
  destruct Hrs as (Hr1 & Hr2 & Hr3 & Hr4).
  assert (Hfin : forall sevs st',
            Forall (is_upd j) sevs -> Forall no_text sevs ->
            (fold_left (fun sc e => sc_step e sc) sevs ("todo", "")).1 = st' ->
            fold_left (fun ep e => epic_step e ep) sevs ep = ep ->
            exists g2, replay_from graw (ENew false j uuid ep "todo" title body (Some (e_now e)) :: ev_res ++ sevs) = Ok g2 /\
              exists t', g_tasks g2 !! j = Some t' /\ t_id t' = j /\ t_state t' = st' /\ t_is_epic t' = false /\
                         t_title t' = title /\ t_body t' = body /\ t_epic t' = epic /\
                         g_tasks graw !! j = None /\ j ∉ g_tombs graw).
  { intros sevs st' Hupd Htxt Hst Hepf.
    unfold replay_from. cbn [foldM]. rewrite Hcreate.
    change (foldM apply_event (ev_res ++ sevs) (put graw j t)) with (replay_from (put graw j t) (ev_res ++ sevs)).
    assert (Hall : Forall (is_upd j) (ev_res ++ sevs)) by (apply Forall_app; done).
    rewrite (replay_upds (put graw j t) j t _ (put_lookup _ _ _) Hnt Hall). rewrite put_put.
    eexists; split; [reflexivity|].
    destruct (fold_sc (ev_res ++ sevs) t) as (Hfsc & Hfid & Hfk & Hfep & _).
    destruct (fold_no_text (ev_res ++ sevs) t) as (Hfti & Hfbo); [apply Forall_app; done|].
    set (t' := fold_left (fun t e => ev_fun e t) (ev_res ++ sevs) t) in *.
    rewrite fold_left_app, (fold_sc_neutral _ _ Hr2) in Hfsc.
    rewrite fold_left_app, (fold_epic_neutral _ _ Hr3) in Hfep.
    exists t'. rewrite put_lookup. split; [reflexivity|]. split; [exact Hfid|].
    split. { cbn [t new_task t_state t_claimed] in Hfsc. rewrite <- Hfsc in Hst. exact Hst. }
    split; [exact Hfk|]. split; [exact Hfti|]. split; [exact Hfbo|].
    split. { rewrite Hfep. exact Hepf. }
    split; assumption. }
  change (new_task false j uuid ep "todo" title body (e_now e)) with t.
  destruct (upd_nonresult_empty u').
  - intros [= <- <- <-]. rewrite <- (app_nil_r ev_res). apply Hfin; try constructor; reflexivity.
  - destruct (build_set_events j t u' agent (e_now e)) as [sevs|] eqn:Hb; [|discriminate].
    intros [= <- <- <-].
    pose proof (build_set_events_spec _ _ _ _ _ _ Hb) as [_ _ _ Hepc _].
    destruct (build_set_events_final _ _ _ _ _ _ Hb) as (claim & Hic & Hupd & Hsc & Htxt).
    apply Hfin.
    + exact Hupd.
    + apply Htxt; reflexivity.
    + change ("todo", "") with (t_state t, t_claimed t). rewrite Hsc.
      apply (final_state_new j uuid ep title body (e_now e) u' agent claim Hic).
    + exact Hepc.
Qed.

(** The same at the level of the command: the read that follows sees the reported id / state. *)
Corollary new_reply_truthful_run e k title body epic u agent log graw evs i st :
  Inv graw -> replay_raw log = Ok graw ->
  run_txn e (CNew k title body epic u agent) log = (Append evs, RCreated i st) ->
  g_tasks graw !! i = None /\ i ∉ g_tombs graw /\
  exists g', replay_raw (log ++ evs) = Ok g' /\
    exists t, g_tasks g' !! i = Some t /\ t_id t = i /\ t_state t = st /\ t_is_epic t = k /\
              t_title t = title /\ t_body t = body /\ t_epic t = (if k then "" else epic).
Proof.
  intros HI Hr. cbn [run_txn]. rewrite (replay_of_raw log graw Hr).
  destruct (new_txn e k title body epic u agent (finalize graw)) as [[es r]|] eqn:Hn; [|discriminate].
  intros [= <- ->].
  destruct (new_reply_truthful _ _ _ _ _ _ _ _ _ _ _ HI Hn) as (g' & Hr' & t & H1 & H2 & H3 & H4 & H5 & H6 & H7 & H8 & H9).
  split; [exact H8|]. split; [exact H9|]. exists g'. split; [rewrite (replay_raw_app log _ graw Hr); exact Hr'|].
  exists t. repeat split; assumption.
Qed.

(** * 6. a failing command reports no success value *)
Theorem reply_only_on_success e c log r : run_txn e c log = (Abort, r) -> r = RNone.
Proof.
  intros H. destruct c; cbn [run_txn] in H;
    repeat match type of H with
           | context [match ?x with _ => _ end] => destruct x eqn:?
           end; congruence.
Qed.

Corollary reply_only_on_success_exec e c log :
  (exec e log c).2.1 = false -> (exec e log c).2.2 = RNone /\ (exec e log c).1 = log.
Proof.
  unfold exec. destruct (run_txn e c log) as [d r] eqn:H. destruct d; cbn; try discriminate.
  intros _. split; [eapply reply_only_on_success; eauto|reflexivity].
Qed.

Corollary reply_only_on_success_req e q log :
  (exec_req e log q).2.1 = false -> (exec_req e log q).2.2 = RNone /\ (exec_req e log q).1 = log.
Proof.
  unfold exec_req. destruct (normalize q) as [c|]; [apply reply_only_on_success_exec|]. cbn. auto.
Qed.

(** Which commands produce which success value. *)
Lemma new_txn_reply e k title body epic u agent g evs r :
  new_txn e k title body epic u agent g = Some (evs, r) -> exists i st, r = RCreated i st.
Proof.
  unfold new_txn. intros H.
  repeat match type of H with
         | context [match ?x with _ => _ end] => destruct x eqn:?
         end; try discriminate; injection H as <- <-; eauto.
Qed.

(** * 2. claim: the reported task is now doing and claimed by the caller *)
Definition claimed_by (g : graph) (i agent : string) : Prop :=
  exists t, g_tasks g !! i = Some t /\ t_id t = i /\ t_is_epic t = false /\ t_state t = "doing" /\ t_claimed t = agent.

Theorem claim_oldest_reply_truthful e epic agent log graw evs i :
  Inv graw -> replay_raw log = Ok graw ->
  run_txn e (CClaimOldest epic agent) log = (Append evs, RClaimed i) ->
  agent <> "" /\ exists g', replay_raw (log ++ evs) = Ok g' /\ claimed_by g' i agent.
Proof.
  intros HI Hr. cbn [run_txn]. rewrite (replay_of_raw log graw Hr).
  destruct (String.eqb agent "") eqn:Hag; [discriminate|]. apply String.eqb_neq in Hag.
  destruct (ready_tasks (finalize graw) epic) as [|t rest] eqn:Hrt; [discriminate|].
  intros [= <- <-]. split; [exact Hag|].
  assert (Hin : t ∈ ready_tasks (finalize graw) epic) by (rewrite Hrt; left).
  apply ready_tasks_elem in Hin as (Hall & _ & Hk & Hrd).
  apply all_tasks_lookup in Hall as (k & Hl). apply finalize_lookup_Some in Hl as (t0 & Hl0 & ->).
  mig t0. rewrite Hmk in Hk. destruct (inv_key graw HI k t0 Hl0) as [Hkey _]. rewrite Hmid, Hkey.
  rewrite (replay_raw_app log _ graw Hr).
  rewrite (replay_upds graw k t0 _ Hl0 (live_not_tombed _ _ _ HI Hl0)) by (repeat constructor).
  eexists; split; [reflexivity|]. cbn [fold_left ev_fun].
  eexists. rewrite put_lookup. split; [reflexivity|]. cbn. repeat split; assumption.
Qed.

Definition claim_upd (agent : string) : upd := Upd None None None (Some "doing") (Some agent) None None.

Theorem claim_id_reply_truthful e j agent log graw evs i :
  Inv graw -> replay_raw log = Ok graw ->
  run_txn e (CClaimId j agent) log = (Append evs, RClaimed i) ->
  i = j /\ agent <> "" /\ exists g', replay_raw (log ++ evs) = Ok g' /\ claimed_by g' i agent.
Proof.
  intros HI Hr. cbn [run_txn]. rewrite (replay_of_raw log graw Hr).
  destruct (String.eqb agent "") eqn:Hag; [discriminate|]. apply String.eqb_neq in Hag.
  fold (claim_upd agent).
  destruct (set_txn e j (claim_upd agent) agent (finalize graw)) as [es|] eqn:Hs; [|discriminate].
  intros [= <- <-]. split; [reflexivity|]. split; [exact Hag|].
  unfold set_txn in Hs. cbn [claim_upd result_req u_rpath u_rsum is_some andb u_state u_claim u_epic orb negb app] in Hs.
  rewrite finalize_tombed, finalize_lookup in Hs.
  destruct (tombed graw j) eqn:Htomb; [discriminate|].
  destruct (g_tasks graw !! j) as [t0|] eqn:Hl; [|discriminate]. cbn [fmap option_fmap option_map] in Hs.
  mig t0. rewrite Hmk in Hs. destruct (t_is_epic t0) eqn:Hk; [discriminate|]. cbn [andb negb] in Hs.
  destruct (build_set_events j (migrate t0) _ agent (e_now e)) as [sevs|] eqn:Hb; [|discriminate].
  injection Hs as <-.
  destruct (build_set_events_final _ _ _ _ _ _ Hb) as (claim & Hic & Hupd & Hsc & _).
  cbn in Hic. injection Hic as <-.
  unfold final_sc in Hsc. rewrite Hmk, Hmst, Hmcl in Hsc. cbn in Hsc.
  rewrite (replay_raw_app log _ graw Hr), (replay_upds graw j t0 _ Hl Htomb Hupd).
  eexists; split; [reflexivity|].
  destruct (fold_sc sevs t0) as (Hfsc & Hfid & Hfk & _). rewrite Hsc in Hfsc. injection Hfsc as Hst Hcl.
  eexists. rewrite put_lookup. split; [reflexivity|].
  destruct (inv_key graw HI j t0 Hl) as [Hkey _].
  split; [congruence|]. split; [congruence|]. split; assumption.
Qed.

(** Any command answering "claimed i" is a claim, and [i] is then doing and claimed by its caller. *)
Theorem claim_reply_truthful e c log graw evs i :
  Inv graw -> replay_raw log = Ok graw ->
  run_txn e c log = (Append evs, RClaimed i) ->
  exists agent, agent <> "" /\ ((exists epic, c = CClaimOldest epic agent) \/ c = CClaimId i agent) /\
    exists g', replay_raw (log ++ evs) = Ok g' /\ claimed_by g' i agent.
Proof.
  intros HI Hr H.
  destruct c as [k title body epic u agent | j u agent | j agent | epic agent | link ids | yes agent | | p].
  - exfalso. cbn [run_txn] in H. destruct (replay log); [|discriminate].
    destruct (new_txn e k title body epic u agent a) as [[es r]|] eqn:Hn; [|discriminate].
    apply new_txn_reply in Hn as (i' & st & ->). discriminate.
  - exfalso. cbn [run_txn] in H.
    repeat match type of H with context [match ?x with _ => _ end] => destruct x eqn:? end; discriminate.
  - destruct (claim_id_reply_truthful e j agent log graw evs i HI Hr H) as (-> & Hag & Hg).
    exists agent. split; [exact Hag|]. split; [right; reflexivity|exact Hg].
  - destruct (claim_oldest_reply_truthful e epic agent log graw evs i HI Hr H) as (Hag & Hg).
    exists agent. split; [exact Hag|]. split; [left; eauto|exact Hg].
  - exfalso. cbn [run_txn] in H.
    repeat match type of H with context [match ?x with _ => _ end] => destruct x eqn:? end; discriminate.
  - exfalso. cbn [run_txn] in H.
    repeat match type of H with context [match ?x with _ => _ end] => destruct x eqn:? end; discriminate.
  - exfalso. cbn [run_txn] in H. destruct (replay log); discriminate.
  - exfalso. cbn [run_txn] in H.
    repeat match type of H with context [match ?x with _ => _ end] => destruct x eqn:? end; discriminate.
Qed.

(** * 3. set: the item is still there, same id and kind (the CLI re-reads the rest) *)
Lemma set_txn_upds e i u agent graw evs :
  set_txn e i u agent (finalize graw) = Some evs ->
  exists t0, g_tasks graw !! i = Some t0 /\ tombed graw i = false /\ Forall (is_upd i) evs.
Proof.
  unfold set_txn.
  destruct (result_req u) as [rq|]; [|discriminate].
  set (R := match rq with Some (p, s) => _ | None => Some [] end).
  destruct R as [ev_res|] eqn:HR; [|discriminate].
  assert (Hres : (ev_res = [] /\ rq = None) \/
                 exists ev t0, ev_res = [ev] /\ is_upd i ev /\ g_tasks graw !! i = Some t0 /\ tombed graw i = false).
  { subst R. destruct rq as [[p s]|]; [|left; split; congruence].
    destruct (build_result_event e (finalize graw) i s p) as [ev|] eqn:Hb; [|discriminate].
    injection HR as <-. right. apply result_event_upd in Hb as (H1 & _ & _ & H4 & t & Hl & _).
    apply finalize_lookup_Some in Hl as (t0 & Hl0 & _). exists ev, t0. repeat split; assumption. }
  destruct (is_some rq && upd_nonresult_empty u)%bool eqn:Honly.
  - intros [= <-]. destruct Hres as [[-> ->]|(ev & t0 & -> & Hu & Hl & Ht)]; [discriminate|].
    exists t0. repeat split; try assumption. repeat constructor. exact Hu.
  - rewrite finalize_tombed. destruct (tombed graw i) eqn:Htomb; [discriminate|].
    rewrite finalize_lookup. destruct (g_tasks graw !! i) as [t0|] eqn:Hl; [|discriminate].
    cbn [fmap option_fmap option_map].
    destruct (t_is_epic (migrate t0) && _)%bool; [discriminate|].
    destruct (negb _); [discriminate|].
    destruct (build_set_events i (migrate t0) u agent (e_now e)) as [sevs|] eqn:Hb; [|discriminate].
    intros [= <-]. apply build_set_events_spec in Hb as [Hupd _ _ _ _].
    exists t0. repeat split; try assumption. apply Forall_app. split; [|exact Hupd].
    destruct Hres as [[-> _]|(ev & ? & -> & Hu & _)]; repeat constructor. exact Hu.
Qed.

Theorem set_reply_truthful e i u agent log graw evs r :
  Inv graw -> replay_raw log = Ok graw ->
  run_txn e (CSet i u agent) log = (Append evs, r) ->
  r = RNone /\
  exists t0 g', g_tasks graw !! i = Some t0 /\ replay_raw (log ++ evs) = Ok g' /\
    (exists t, g_tasks g' !! i = Some t /\ t_id t = i /\ t_is_epic t = t_is_epic t0) /\
    (forall j, j <> i -> g_tasks g' !! j = g_tasks graw !! j) /\
    g_deps g' = g_deps graw /\ g_tombs g' = g_tombs graw.
Proof.
  intros HI Hr. cbn [run_txn]. rewrite (replay_of_raw log graw Hr).
  destruct (upd_empty u); [discriminate|].
  destruct (set_txn e i u agent (finalize graw)) as [es|] eqn:Hs; [|discriminate].
  intros [= <- <-]. split; [reflexivity|].
  apply set_txn_upds in Hs as (t0 & Hl & Htomb & Hupd).
  exists t0. eexists. split; [exact Hl|].
  rewrite (replay_raw_app log _ graw Hr), (replay_upds graw i t0 _ Hl Htomb Hupd).
  split; [reflexivity|].
  destruct (fold_sc es t0) as (_ & Hfid & Hfk & _). destruct (inv_key graw HI i t0 Hl) as [Hkey _].
  split; [|split; [|split; reflexivity]].
  - eexists. rewrite put_lookup. split; [reflexivity|]. split; [congruence|exact Hfk].
  - intros j Hne. cbn. rewrite lookup_insert_ne by congruence. reflexivity.
Qed.

(** * 4. prune: exactly the reported ids are gone and tombstoned; a dry run writes nothing *)
Theorem prune_reply_truthful e yes agent log graw evs ids :
  Inv graw -> acyclic graw -> replay_raw log = Ok graw ->
  run_txn e (CPrune yes agent) log = (Append evs, RPruned ids) ->
  ids = prune_targets (finalize graw) /\
  if yes then
    exists g', replay_raw (log ++ evs) = Ok g' /\
      (forall j, j ∈ ids -> is_Some (g_tasks graw !! j) /\ g_tasks g' !! j = None /\ j ∈ g_tombs g') /\
      (forall j, j ∉ ids -> g_tasks g' !! j = g_tasks graw !! j /\ (j ∈ g_tombs g' <-> j ∈ g_tombs graw)) /\
      (forall a b, (a, b) ∈ g_deps g' <-> (a, b) ∈ g_deps graw /\ a ∉ ids /\ b ∉ ids)
  else evs = [].
Proof.
  intros HI Hac Hr. cbn [run_txn]. rewrite (replay_of_raw log graw Hr).
  destruct yes; intros [= <- <-]; (split; [reflexivity|]); [|reflexivity].
  destruct (prune_inv graw agent (e_now e) HI Hac) as (g' & Hr' & _ & _ & Ht & Hd & Hb).
  exists g'. split; [rewrite (replay_raw_app log _ graw Hr); exact Hr'|].
  split; [|split; [|exact Hd]].
  - intros j Hj. split.
    + apply (prune_targets_spec _ _ (inv_finalize graw HI)) in Hj as (t & Hl & _).
      apply finalize_lookup_Some in Hl as (t0 & -> & _). eauto.
    + split; [rewrite Ht, bool_decide_eq_true_2 by exact Hj; reflexivity|]. apply Hb. left. exact Hj.
  - intros j Hj. split; [rewrite Ht, bool_decide_eq_false_2 by exact Hj; reflexivity|].
    rewrite Hb. tauto.
Qed.

(** * 5. plan: the reported epic, task ids (in plan order) and edges are what the new store contains *)
Theorem plan_reply_truthful e p log graw es eid tids edges :
  Inv graw -> acyclic graw -> replay_raw log = Ok graw ->
  run_txn e (CPlan p) log = (Replace es, RPlanned eid tids edges) ->
  exists new g', es = log ++ new /\ replay_raw es = Ok g' /\
    length tids = length (p_tasks p) /\ NoDup (eid :: tids) /\
    (forall i, i ∈ eid :: tids -> g_tasks graw !! i = None /\ i ∉ g_tombs graw) /\
    (forall j, j ∉ eid :: tids -> g_tasks g' !! j = g_tasks graw !! j) /\
    g_tombs g' = g_tombs graw /\
    g_deps g' = list_to_set edges ∪ g_deps graw /\
    (exists te, g_tasks g' !! eid = Some te /\ t_is_epic te = true /\ t_title te = p_title p
                /\ t_body te = opt_default "" (p_body p) /\ t_state te = "todo" /\ t_claimed te = ""
                /\ t_epic te = "") /\
    (forall k pt i, p_tasks p !! k = Some pt -> tids !! k = Some i ->
        exists t, g_tasks g' !! i = Some t /\ t_is_epic t = false /\ t_title t = pt_title pt
                  /\ t_body t = opt_default "" (pt_body pt) /\ t_state t = "todo" /\ t_claimed t = ""
                  /\ t_epic t = eid) /\
    (forall a b, (a, b) ∈ edges <->
        exists k1 pt k2 pt2, p_tasks p !! k1 = Some pt /\ tids !! k1 = Some a /\ pt_title pt2 ∈ pt_after pt
                             /\ p_tasks p !! k2 = Some pt2 /\ tids !! k2 = Some b).
Proof.
  intros HI Hac Hr. cbn [run_txn]. destruct (plan_valid p); cbn [negb]; [|discriminate].
  rewrite (replay_of_raw log graw Hr).
  destruct (plan_txn e p log (finalize graw)) as [[es' r']|] eqn:Hp; [|discriminate].
  intros [= <- ->].
  destruct (plan_inv e p log graw es' _ HI Hac Hp)
    as (eid' & tids' & edges' & new & g' & Heq & -> & Hr' & _ & _ & Hlen & Hnd & Hfresh & Hold & Htb & Hd & Hte & Hts & Hed).
  injection Heq as <- <- <-.
  exists new, g'. split; [reflexivity|]. split; [rewrite (replay_raw_app log _ graw Hr); exact Hr'|].
  split; [exact Hlen|]. split; [exact Hnd|]. split; [exact Hfresh|]. split; [exact Hold|].
  split; [exact Htb|]. split; [exact Hd|]. split; [exact Hte|]. split; [|exact Hed].
  intros k pt i Hpt Hi. destruct (Hts k pt i Hpt Hi) as (t & H1 & H2 & H3 & H4 & H5 & H6 & H7 & _).
  exists t. repeat split; assumption.
Qed.

(** * Examples *)
Example new_reply_example :
  let e := Env ["T1"] ["u"] 7%Z 7%Z [] FMissing "" "" "" in
  let u := Upd None None None None (Some "ann") None None in
  match run_txn e (CNew false "write" "body" "" u "ann") [] with
  | (Append evs, RCreated i st) =>
      i = "T1" /\ st = "doing" /\
      match replay evs with
      | Ok g => match g_tasks g !! i with
                | Some t => t_state t = st /\ t_claimed t = "ann" /\ t_title t = "write"
                | None => False end
      | Err _ => False end
  | _ => False end.
Proof. vm_compute. repeat split; reflexivity. Qed.

Example claim_reply_example :
  let log := [ENew false "A" "u" "" "todo" "a" "" (Some 1%Z); ENew false "B" "u" "" "todo" "b" "" (Some 2%Z);
              ELink "A" "B" depends] in
  let e := Env [] [] 9%Z 9%Z [] FMissing "" "" "" in
  match run_txn e (CClaimOldest "" "bob") log, run_txn e (CClaimId "A" "bob") log with
  | (Append evs, RClaimed i), (Append evs2, RClaimed i2) =>
      i = "B" /\ i2 = "A" /\
      match replay (log ++ evs), replay (log ++ evs2) with
      | Ok g, Ok g2 =>
          match g_tasks g !! i, g_tasks g2 !! i2 with
          | Some t, Some t2 => t_state t = "doing" /\ t_claimed t = "bob" /\ t_state t2 = "doing" /\ t_claimed t2 = "bob"
          | _, _ => False end
      | _, _ => False end
  | _, _ => False end.
Proof. vm_compute. repeat split; reflexivity. Qed.

Print Assumptions build_set_events_final.
Print Assumptions new_reply_truthful.
Print Assumptions new_reply_truthful_run.
Print Assumptions claim_reply_truthful.
Print Assumptions claim_oldest_reply_truthful.
Print Assumptions claim_id_reply_truthful.
Print Assumptions set_reply_truthful.
Print Assumptions prune_reply_truthful.
Print Assumptions plan_reply_truthful.
Print Assumptions reply_only_on_success.
Print Assumptions reply_only_on_success_req.
