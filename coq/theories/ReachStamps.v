(** ReachStamps.v — the clock-dependent compaction theorem for every log the CLI
    can produce when the wall clock never reads the zero time and never reads a
    time before a stamp already recorded in the log.

    [CompactProof.compact_preserves] needs [graph_wf]; [CompactProof.replay_wf]
    derives it from the per-event condition [stamps_ok], which is too strong for
    reachable logs ([new] with a result and a state appends
    [ENew @now; EResult @now_result; EState @now], and [now < now_result]
    violates [ev_oku] at the state event).  Here [graph_wf] is proved directly
    as an invariant of [ReachM]. *)
From Ergo Require Import Base Text Events Replay Ready Compact Path Cmd Input Graphs TextFacts
  CompactCore CompactProof Invariants PrunePlan Reach Replies View.
Local Open Scope string_scope.
Local Open Scope list_scope.

(** * Monotone-clock reachability *)

(** The parsed payload stamp of an event, if it has one. *)
Definition ev_stamp (e : event) : option time :=
  match e with
  | ENew _ _ _ _ _ _ _ a | EState _ _ a | EClaim _ _ a | ETitle _ _ a | EBody _ _ a | EEpic _ _ a
  | ETomb _ _ a | EResult _ _ _ _ _ _ a => a
  | _ => None
  end.

(** All parsed payload stamps occurring in a log. *)
Definition stamps_of (log : list event) : list time := omap ev_stamp log.

(** Every clock reading of this step is non-zero and not before anything
    already recorded.  No order between the readings of one step is assumed. *)
Definition clock_ok (e : env) (log : list event) : Prop :=
  let rs := e_now e :: e_now_result e :: e_nows e in
  Forall (fun r => is_zero r = false /\ Forall (fun s => (s <= r)%Z) (stamps_of log)) rs.

Inductive ReachM : list event -> Prop :=
| reachm_init : ReachM []
| reachm_step log e q : ReachM log -> clock_ok e log -> ReachM (exec_req e log q).1.

Lemma reachm_reach log : ReachM log -> Reach log.
Proof. induction 1; [apply reach_init|apply reach_step; assumption]. Qed.

(** What is actually used of [clock_ok]: the section reading [e_now]. *)
Lemma clock_ok_now e log :
  clock_ok e log -> is_zero (e_now e) = false /\ Forall (fun s => (s <= e_now e)%Z) (stamps_of log).
Proof. unfold clock_ok. cbn zeta. intros H. apply Forall_cons_1 in H as [H _]. exact H. Qed.

(** * [t_updated] of every replayed item is a stamp of the log, hence bounded *)

Definition upd_le (r : time) (t : task) : Prop := (t_updated t <= r)%Z.
Definition stamp_le (r : time) (e : event) : Prop :=
  match ev_stamp e with Some ts => (ts <= r)%Z | None => True end.

Lemma stamps_of_le r log : Forall (fun s => (s <= r)%Z) (stamps_of log) -> Forall (stamp_le r) log.
Proof.
  unfold stamps_of, stamp_le. induction log as [|e log IH]; cbn; [constructor|].
  destruct (ev_stamp e) as [ts|] eqn:E.
  - intros H. apply Forall_cons_1 in H as [H1 H2]. constructor; [rewrite E; exact H1|apply IH, H2].
  - intros H. constructor; [rewrite E; exact I|apply IH, H].
Qed.

Lemma stamps_from_Forall (P : event -> Prop) es g :
  Forall P es -> stamps_from (fun _ e => P e) g es.
Proof.
  intros H. revert g. induction H as [|e es He _ IH]; intros g; cbn; [exact I|].
  split; [exact He|]. intros g' _. apply IH.
Qed.

Lemma max_le r a b : (a <= r)%Z -> (b <= r)%Z -> (max_time a b <= r)%Z.
Proof. rewrite max_time_max. lia. Qed.

Lemma upd_le_step r g e g' :
  graph_all (upd_le r) g -> stamp_le r e -> apply_event g e = Ok g' -> graph_all (upd_le r) g'.
Proof.
  apply (graph_all_step (upd_le r) (fun _ e => stamp_le r e)); unfold upd_le, stamp_le; cbn.
  - intros _ _ _ _ _ _ _ _ ts H. exact H.
  - intros t H. exact H.
  - intros _ _ _ ts t H _ Ht. apply max_le; assumption.
  - intros _ _ _ ts t _ _ Ht. exact Ht.
  - intros _ _ _ ts t H _ Ht. apply max_le; assumption.
  - intros _ _ _ ts t H _ Ht. apply max_le; assumption.
  - intros _ _ _ ts t H _ Ht. apply max_le; assumption.
  - intros _ _ _ _ _ _ _ ts t H _ Ht. apply max_le; assumption.
Qed.

Lemma graph_all_empty P : graph_all P empty_graph.
Proof. intros k t. cbn. rewrite lookup_empty. discriminate. Qed.

Lemma upd_le_replay r log g :
  Forall (fun s => (s <= r)%Z) (stamps_of log) -> replay_raw log = Ok g -> graph_all (upd_le r) g.
Proof.
  intros Hs Hr. apply stamps_of_le in Hs.
  eapply (stamps_from_inv (fun _ e => stamp_le r e) (graph_all (upd_le r)) (upd_le_step r)
            log empty_graph g (graph_all_empty _) (stamps_from_Forall _ _ _ Hs) Hr).
Qed.

(** * Task-level preservation with a stamp that may be smaller than [t_updated]

    [task_wfu] survives an update event whose non-zero stamp [ts] is at least the
    item's previous stamp of the SAME kind: either [ts] is the new maximum
    (attained by the new [m_last_X]), or [t_updated] is unchanged and was not
    attained by the overwritten [m_last_X] alone. *)

Lemma wfu_set_state_g st ts t :
  is_zero ts = false -> (is_zero (m_last_state t) = false -> (m_last_state t <= ts)%Z) ->
  task_wfu t -> task_wfu (set_state st ts t).
Proof.
  intros Hz Hs HU. destruct (Z.le_gt_cases (t_updated t) ts) as [Hle|Hgt]; [apply wfu_set_state; assumption|].
  destruct HU as [H1 H2 H3 H4 H5 H6 H7].
  assert (Hm : max_time (t_updated t) ts = t_updated t) by (rewrite max_time_max; lia).
  split; cbn; rewrite ?Hm; try assumption.
  - intros _. lia.
  - destruct H7 as [H7|[H7|[H7|[H7|[H7|H7]]]]]; try tauto.
    destruct H7 as [Hn He]. specialize (Hs Hn). lia.
Qed.
Lemma wfu_set_title_g ti ts t :
  is_zero ts = false -> (is_zero (m_last_title t) = false -> (m_last_title t <= ts)%Z) ->
  task_wfu t -> task_wfu (set_title ti ts t).
Proof.
  intros Hz Hs HU. destruct (Z.le_gt_cases (t_updated t) ts) as [Hle|Hgt]; [apply wfu_set_title; assumption|].
  destruct HU as [H1 H2 H3 H4 H5 H6 H7].
  assert (Hm : max_time (t_updated t) ts = t_updated t) by (rewrite max_time_max; lia).
  split; cbn; rewrite ?Hm; try assumption.
  - intros _. lia.
  - destruct H7 as [H7|[H7|[H7|[H7|[H7|H7]]]]]; try tauto.
    destruct H7 as [Hn He]. specialize (Hs Hn). lia.
Qed.
Lemma wfu_set_body_g b ts t :
  is_zero ts = false -> (is_zero (m_last_body t) = false -> (m_last_body t <= ts)%Z) ->
  task_wfu t -> task_wfu (set_body b ts t).
Proof.
  intros Hz Hs HU. destruct (Z.le_gt_cases (t_updated t) ts) as [Hle|Hgt]; [apply wfu_set_body; assumption|].
  destruct HU as [H1 H2 H3 H4 H5 H6 H7].
  assert (Hm : max_time (t_updated t) ts = t_updated t) by (rewrite max_time_max; lia).
  split; cbn; rewrite ?Hm; try assumption.
  - intros _. lia.
  - destruct H7 as [H7|[H7|[H7|[H7|[H7|H7]]]]]; try tauto.
    destruct H7 as [Hn He]. specialize (Hs Hn). lia.
Qed.
Lemma wfu_set_epic_g ep ts t :
  t_is_epic t = false -> is_zero ts = false ->
  (is_zero (m_last_epic t) = false -> (m_last_epic t <= ts)%Z) ->
  task_wfu t -> task_wfu (set_epic ep ts t).
Proof.
  intros Hk Hz Hs HU. destruct (Z.le_gt_cases (t_updated t) ts) as [Hle|Hgt]; [apply wfu_set_epic; assumption|].
  destruct HU as [H1 H2 H3 H4 H5 H6 H7].
  assert (Hm : max_time (t_updated t) ts = t_updated t) by (rewrite max_time_max; lia).
  split; cbn; rewrite ?Hm; try assumption.
  - intros _ _. lia.
  - destruct H7 as [H7|[H7|[H7|[H7|[H7|H7]]]]]; try tauto.
    destruct H7 as (_ & Hn & He). specialize (Hs Hn). lia.
Qed.
(** A result event needs no condition at all. *)
Lemma wfu_add_result_g r t : task_wfu t -> task_wfu (add_result r t).
Proof.
  intros HU. destruct (Z.le_gt_cases (t_updated t) (r_at r)) as [Hle|Hgt]; [apply wfu_add_result; assumption|].
  destruct HU as [H1 H2 H3 H4 H5 H6 H7].
  assert (Hm : max_time (t_updated t) (r_at r) = t_updated t) by (rewrite max_time_max; lia).
  split; cbn; rewrite ?Hm; try assumption.
  - constructor; [lia|exact H6].
  - destruct H7 as [H7|[H7|[H7|[H7|[H7|H7]]]]]; try tauto.
    do 5 right. apply Exists_cons_tl. exact H7.
Qed.

(** * The invariant of one item during one command

    [now] is the section reading of the command ([e_now]).  Every update event
    that writes an [m_last_X] carries [now]; the result event and the create
    carry arbitrary stamps. *)

Record lastle (now : time) (t : task) : Prop := {
  ll_title : is_zero (m_last_title t) = false -> (m_last_title t <= now)%Z;
  ll_body : is_zero (m_last_body t) = false -> (m_last_body t <= now)%Z;
  ll_state : is_zero (m_last_state t) = false -> (m_last_state t <= now)%Z;
  ll_epic : t_is_epic t = false -> is_zero (m_last_epic t) = false -> (m_last_epic t <= now)%Z }.

Definition Q (now : time) (t : task) : Prop := task_wf0 t /\ task_wfu t /\ lastle now t.

Lemma Q_init now t : task_wf0 t -> task_wfu t -> (t_updated t <= now)%Z -> Q now t.
Proof.
  intros H0 HU Hle. split; [exact H0|]. split; [exact HU|].
  destruct HU as [H1 H2 H3 H4 H5 H6 H7]. split.
  - intros Hn. specialize (H2 Hn). lia.
  - intros Hn. specialize (H3 Hn). lia.
  - intros Hn. specialize (H4 Hn). lia.
  - intros Hk Hn. specialize (H5 Hk Hn). lia.
Qed.

Lemma Q_new now ie i u ep st ti b ts : Q now (new_task ie i u ep st ti b ts).
Proof.
  split; [apply wf0_new|]. split; [apply wfu_new|].
  split; cbn; intros; discriminate.
Qed.

(** The events of one command, relative to its section reading. *)
Definition ev_now (now : time) (allow_epic : bool) (e : event) : Prop :=
  match e with
  | EState _ _ (Some ts) | ETitle _ _ (Some ts) | EBody _ _ (Some ts) | EClaim _ _ (Some ts) => ts = now
  | EEpic _ _ (Some ts) => ts = now /\ allow_epic = true
  | _ => True
  end.

Lemma ev_now_weaken now b e : ev_now now false e -> ev_now now b e.
Proof.
  destruct e as [| j s [ts|] | j a [ts|] | j | | | j ti [ts|] | j bo [ts|] | j ep [ts|] | | j su pa sha mt gi [ts|] | |];
    cbn; try tauto. intros [_ ?]; discriminate.
Qed.

Lemma Q_ev_fun now e t :
  is_zero now = false -> Q now t -> ev_now now (negb (t_is_epic t)) e -> Q now (ev_fun e t).
Proof.
  intros Hz (H0 & HU & [L1 L2 L3 L4]) He.
  destruct e as [| j s [ts|] | j a [ts|] | j | | | j ti [ts|] | j bo [ts|] | j ep [ts|] | | j su pa sha mt gi [ts|] | |];
    cbn [ev_fun]; try (split; [exact H0|split; [exact HU|split; assumption]]); cbn in He.
  - subst ts. split; [apply wf0_set_state, H0|]. split; [apply wfu_set_state_g; assumption|].
    split; cbn; try assumption. intros _. lia.
  - subst ts. split; [apply wf0_set_claim; [intros _; exact Hz|exact H0]|]. split; [apply wfu_set_claim, HU|].
    split; cbn; assumption.
  - split; [apply wf0_set_unclaim, H0|]. split; [apply wfu_set_unclaim, HU|]. split; cbn; assumption.
  - subst ts. split; [apply wf0_set_title, H0|]. split; [apply wfu_set_title_g; assumption|].
    split; cbn; try assumption. intros _. lia.
  - subst ts. split; [apply wf0_set_body, H0|]. split; [apply wfu_set_body_g; assumption|].
    split; cbn; try assumption. intros _. lia.
  - destruct He as [-> Hk]. apply negb_true_iff in Hk.
    split; [apply wf0_set_epic; assumption|]. split; [apply wfu_set_epic_g; auto|].
    split; cbn; try assumption. intros _ _. lia.
  - split; [apply wf0_add_result, H0|]. split; [apply wfu_add_result_g, HU|]. split; cbn; assumption.
Qed.

Lemma fold_Q now evs t :
  is_zero now = false -> Q now t -> Forall (ev_now now (negb (t_is_epic t))) evs ->
  Q now (fold_left (fun t e => ev_fun e t) evs t).
Proof.
  intros Hz HQ Hall. revert t HQ Hall. induction evs as [|e evs IH]; intros t HQ Hall; cbn [fold_left]; [exact HQ|].
  apply Forall_cons_1 in Hall as [He Hall]. apply IH.
  - apply Q_ev_fun; assumption.
  - destruct (ev_fun_fixed e t) as (_ & -> & _). exact Hall.
Qed.

(** * Graph level *)

Lemma graph_Q_init now g : graph_wf g -> graph_all (upd_le now) g -> graph_all (Q now) g.
Proof.
  intros Hw Hu k t Hl. destruct (Hw k t Hl) as (Hid & H0 & HU). destruct (Hu k t Hl) as [_ Hle].
  split; [exact Hid|apply Q_init; assumption].
Qed.
Lemma graph_Q_wf now g : graph_all (Q now) g -> graph_wf g.
Proof. intros H k t Hl. destruct (H k t Hl) as (Hid & H0 & HU & _). auto. Qed.

Lemma Q_step now g e g' :
  is_zero now = false ->
  graph_all (Q now) g -> ev_now now false e -> apply_event g e = Ok g' -> graph_all (Q now) g'.
Proof.
  intros Hz.
  apply (graph_all_step (Q now) (fun _ e => ev_now now false e)).
  - intros. apply Q_new.
  - intros t HQ. apply (Q_ev_fun now (EUnclaim "") t Hz HQ I).
  - intros _ i st ts t He _ HQ. apply (Q_ev_fun now (EState i st (Some ts)) t Hz HQ). apply ev_now_weaken, He.
  - intros _ i ag ts t He _ HQ. apply (Q_ev_fun now (EClaim i ag (Some ts)) t Hz HQ). apply ev_now_weaken, He.
  - intros _ i ti ts t He _ HQ. apply (Q_ev_fun now (ETitle i ti (Some ts)) t Hz HQ). apply ev_now_weaken, He.
  - intros _ i b ts t He _ HQ. apply (Q_ev_fun now (EBody i b (Some ts)) t Hz HQ). apply ev_now_weaken, He.
  - intros _ i ep ts t He _ HQ. apply (Q_ev_fun now (EEpic i ep (Some ts)) t Hz HQ). apply ev_now_weaken, He.
  - intros _ i su pa sha mt gi ts t He _ HQ. apply (Q_ev_fun now (EResult i su pa sha mt gi (Some ts)) t Hz HQ I).
Qed.

(** Appending events none of which re-parents an item: creates, results, links,
    tombstones with arbitrary stamps; state / title / body / claim stamped [now]. *)
Lemma step_wf_gen now g es g' :
  is_zero now = false -> graph_wf g -> graph_all (upd_le now) g ->
  Forall (ev_now now false) es -> replay_from g es = Ok g' -> graph_wf g'.
Proof.
  intros Hz Hw Hu Hall Hr. apply (graph_Q_wf now).
  eapply (stamps_from_inv (fun _ e => ev_now now false e) (graph_all (Q now))
            (fun g e g' => Q_step now g e g' Hz) es g g' (graph_Q_init now g Hw Hu)
            (stamps_from_Forall _ _ _ Hall) Hr).
Qed.

(** Update events on one live item, possibly re-parenting a non-epic. *)
Lemma graph_wf_put g i t' :
  graph_wf g -> t_id t' = i -> task_wf0 t' -> task_wfu t' -> graph_wf (put g i t').
Proof.
  intros Hw Hid H0 HU k t. cbn. intros Hl. apply lookup_insert_Some in Hl as [[<- <-]|[_ Hl]]; [auto|].
  apply Hw, Hl.
Qed.

Lemma step_wf_upds now g i t0 es g' :
  is_zero now = false -> graph_wf g -> graph_all (upd_le now) g ->
  g_tasks g !! i = Some t0 -> tombed g i = false -> Forall (is_upd i) es ->
  Forall (ev_now now (negb (t_is_epic t0))) es -> replay_from g es = Ok g' -> graph_wf g'.
Proof.
  intros Hz Hw Hu Hl Ht Hupd Hall. rewrite (replay_upds g i t0 es Hl Ht Hupd). intros [= <-].
  destruct (Hw i t0 Hl) as (Hid & H0 & HU). destruct (Hu i t0 Hl) as [_ Hle].
  destruct (fold_Q now es t0 Hz (Q_init now t0 H0 HU Hle) Hall) as (H0' & HU' & _).
  destruct (fold_sc es t0) as (_ & Hfid & _).
  apply graph_wf_put; try assumption. rewrite Hfid. exact Hid.
Qed.

(** * The stamps of the events each transaction appends *)

Lemma build_set_events_stamps i t u agent now evs :
  build_set_events i t u agent now = Some evs ->
  Forall (ev_now now (negb (t_is_epic t) && is_some (u_epic u))) evs.
Proof.
  unfold build_set_events. intros H.
  set (claim0 := match u_claim u with Some c => Some (Some c) | None => _ end) in H.
  destruct claim0 as [claim|] eqn:Hclaim0; [|discriminate].
  destruct (match u_title u with Some ti => _ | None => Some [] end) as [ev_title|] eqn:Htitle; [|discriminate].
  destruct (match u_epic u with Some e => _ | None => Some [] end) as [ev_epic|] eqn:Hepic; [|discriminate].
  set (ev_body := match u_body u with Some b => [EBody i b (Some now)] | None => [] end) in H.
  set (claim_set := (is_some claim && negb (t_is_epic t))%bool) in H.
  set (claim_val := opt_default "" claim) in H.
  set (ev_claim := if claim_set then _ else []) in H.
  set (P := ev_now now (negb (t_is_epic t) && is_some (u_epic u))).
  assert (Ht : Forall P ev_title).
  { destruct (u_title u) as [ti|]; [|injection Htitle as <-; constructor].
    destruct (String.eqb (trim_space ti) ""); [discriminate|]. injection Htitle as <-. repeat constructor. }
  assert (Hb : Forall P ev_body).
  { subst ev_body. destruct (u_body u); repeat constructor. }
  assert (He : Forall P ev_epic).
  { subst P. destruct (u_epic u) as [e|]; [|injection Hepic as <-; constructor].
    destruct (t_is_epic t); [discriminate|]. injection Hepic as <-. repeat constructor. }
  assert (Hc : Forall P ev_claim).
  { subst ev_claim. destruct claim_set; [|constructor].
    destruct (String.eqb claim_val ""); repeat constructor. }
  assert (Hpre : forall tail, Forall P tail -> Forall P (ev_title ++ ev_body ++ ev_epic ++ ev_claim ++ tail)).
  { intros tail Htl. repeat (apply Forall_app; split); assumption. }
  assert (Hpre0 : Forall P (ev_title ++ ev_body ++ ev_epic ++ ev_claim)).
  { rewrite <- (app_nil_r ev_claim). apply Hpre. constructor. }
  destruct (u_state u) as [s|].
  - destruct (negb (valid_state s)); [discriminate|].
    destruct (negb (validate_transition (t_state t) s)); [discriminate|].
    destruct (negb (validate_claim_invariant s _)); [discriminate|]. injection H as <-.
    apply Hpre. repeat constructor.
  - destruct (claim_set && negb (String.eqb claim_val ""))%bool.
    + destruct (validate_transition (t_state t) "doing"); [|discriminate]. injection H as <-.
      apply Hpre. repeat constructor.
    + destruct (claim_set && String.eqb claim_val "")%bool.
      * destruct (validate_claim_invariant (t_state t) ""); [|discriminate]. injection H as <-. exact Hpre0.
      * injection H as <-. exact Hpre0.
Qed.

Lemma result_event_stamps e g i s p ev now b :
  build_result_event e g i s p = Some ev -> ev_now now b ev.
Proof.
  unfold build_result_event. destruct (tombed g i); [discriminate|].
  destruct (g_tasks g !! i) as [t|]; [|discriminate]. destruct (t_is_epic t); [discriminate|].
  destruct (valid_summary s); [|discriminate]. destruct (lexical_result_path p); [|discriminate].
  destruct (e_fkind e); try discriminate. intros [= <-]. exact I.
Qed.

Lemma set_txn_stamps e i u agent graw evs t0 :
  set_txn e i u agent (finalize graw) = Some evs -> g_tasks graw !! i = Some t0 ->
  Forall (ev_now (e_now e) (negb (t_is_epic t0))) evs.
Proof.
  unfold set_txn. intros H Hl.
  destruct (result_req u) as [rq|]; [|discriminate].
  set (R := match rq with Some (p, s) => _ | None => Some [] end) in H.
  destruct R as [ev_res|] eqn:HR; [|discriminate].
  assert (Hres : Forall (ev_now (e_now e) (negb (t_is_epic t0))) ev_res).
  { subst R. destruct rq as [[p s]|]; [|injection HR as <-; constructor].
    destruct (build_result_event e (finalize graw) i s p) as [ev|] eqn:Hb; [|discriminate].
    injection HR as <-. repeat constructor. eapply result_event_stamps, Hb. }
  destruct (is_some rq && upd_nonresult_empty u)%bool; [injection H as <-; exact Hres|].
  destruct (tombed (finalize graw) i); [discriminate|].
  rewrite Invariants.finalize_lookup, Hl in H. cbn [fmap option_fmap option_map] in H.
  destruct (t_is_epic (migrate t0) && _)%bool; [discriminate|].
  destruct (negb _); [discriminate|].
  destruct (build_set_events i (migrate t0) u agent (e_now e)) as [sevs|] eqn:Hb; [|discriminate].
  injection H as <-. apply Forall_app. split; [exact Hres|].
  apply build_set_events_stamps in Hb. mig t0. rewrite Hmk in Hb.
  eapply List.Forall_impl; [|exact Hb]. intros ev Hev.
  destruct (t_is_epic t0); cbn in *; [apply ev_now_weaken, Hev|].
  destruct (is_some (u_epic u)); [exact Hev|apply ev_now_weaken, Hev].
Qed.

Lemma new_txn_stamps e k title body epic u agent g evs r :
  new_txn e k title body epic u agent g = Some (evs, r) -> Forall (ev_now (e_now e) false) evs.
Proof.
  unfold new_txn.
  set (u' := Upd None None None (u_state u) (u_claim u) (u_rpath u) (u_rsum u)).
  destruct (negb _); [discriminate|].
  destruct (pick_id (e_ids e) (taken_in g [])) as [[i rest]|]; [|discriminate].
  destruct (k || upd_empty u')%bool; [intros [= <- _]; repeat constructor|].
  destruct (result_req u') as [rq|]; [|discriminate].
  set (R := match rq with Some (p, s) => _ | None => Some [] end).
  destruct R as [ev_res|] eqn:HR; [|discriminate].
  assert (Hres : Forall (ev_now (e_now e) false) ev_res).
  { subst R. destruct rq as [[p s]|]; [|injection HR as <-; constructor].
    match type of HR with context [build_result_event ?a ?b ?c ?d ?f] =>
      destruct (build_result_event a b c d f) as [ev|] eqn:Hb; [|discriminate] end.
    injection HR as <-. repeat constructor. eapply result_event_stamps, Hb. }
  destruct (upd_nonresult_empty u').
  - intros [= <- _]. constructor; [exact I|exact Hres].
  - match goal with |- context [build_set_events ?a ?b ?c ?d ?f] =>
      destruct (build_set_events a b c d f) as [sevs|] eqn:Hb; [|discriminate] end.
    intros [= <- _]. constructor; [exact I|]. apply Forall_app. split; [exact Hres|].
    apply build_set_events_stamps in Hb. cbn [u' u_epic is_some] in Hb. rewrite andb_false_r in Hb. exact Hb.
Qed.

Lemma seq_txn_stamps link g edges evs now :
  seq_txn link g edges = Some evs -> Forall (ev_now now false) evs.
Proof.
  revert g evs. induction edges as [|[a b] es IH]; intros g evs; cbn [seq_txn]; [intros [= <-]; constructor|].
  destruct (link_ok link g a b); [|discriminate].
  match goal with |- context [seq_txn link ?g' es] => destruct (seq_txn link g' es) as [evs'|] eqn:Hs; [|discriminate] end.
  intros [= <-]. constructor; [destruct link; exact I|]. eapply IH, Hs.
Qed.

Lemma plan_links_stamps g edges evs now :
  plan_links g edges = Some evs -> Forall (ev_now now false) evs.
Proof.
  revert g evs. induction edges as [|[a b] es IH]; intros g evs; cbn [plan_links]; [intros [= <-]; constructor|].
  destruct (_ || _)%bool; [discriminate|].
  match goal with |- context [plan_links ?g' es] => destruct (plan_links g' es) as [evs'|] eqn:Hs; [|discriminate] end.
  intros [= <-]. constructor; [exact I|]. eapply IH, Hs.
Qed.

Lemma plan_txn_stamps e p log g es r :
  plan_txn e p log g = Some (es, r) -> exists new, es = log ++ new /\ Forall (ev_now (e_now e) false) new.
Proof.
  unfold plan_txn. destruct (negb (plan_valid p)); [discriminate|].
  destruct (plan_ids _ _ _ _) as [[|eid tids]|]; try discriminate.
  match goal with |- context [plan_links ?g' ?ed] => destruct (plan_links g' ed) as [links|] eqn:Hl; [|discriminate] end.
  intros [= <- _]. eexists; split; [reflexivity|].
  constructor; [exact I|]. apply Forall_app. split; [|eapply plan_links_stamps, Hl].
  apply Forall_forall. intros x Hx. apply elem_of_list_In, elem_of_lookup_imap in Hx as (k & [t i] & -> & _). exact I.
Qed.

(** * One command *)

Theorem step_graph_wf e c log :
  Good log -> (forall g, replay_raw log = Ok g -> graph_wf g) ->
  is_zero (e_now e) = false -> Forall (fun s => (s <= e_now e)%Z) (stamps_of log) ->
  forall g', replay_raw (exec e log c).1 = Ok g' -> graph_wf g'.
Proof.
  intros (g & Hr & HI & HA) IH Hz Hle.
  pose proof (IH g Hr) as Hw. pose proof (upd_le_replay _ _ _ Hle Hr) as Hu.
  unfold exec. destruct (run_txn e c log) as [d r] eqn:Hrun. cbn [fst].
  assert (Hsame : forall g', replay_raw log = Ok g' -> graph_wf g') by exact IH.
  assert (Hgen : forall es g', Forall (ev_now (e_now e) false) es -> replay_raw (log ++ es) = Ok g' -> graph_wf g').
  { intros es g' Hall. rewrite (replay_raw_app log es g Hr). apply (step_wf_gen (e_now e)); assumption. }
  assert (Hset : forall i u agent es g', set_txn e i u agent (finalize g) = Some es ->
             replay_raw (log ++ es) = Ok g' -> graph_wf g').
  { intros i u agent es g' Hs. rewrite (replay_raw_app log es g Hr).
    destruct (set_txn_upds _ _ _ _ _ _ Hs) as (t0 & Hl & Ht & Hupd).
    apply (step_wf_upds (e_now e) g i t0); try assumption. eapply set_txn_stamps; eassumption. }
  destruct c as [is_epic title body epic u agent | i u agent | i agent | epic agent | link ids | yes agent | | p];
    cbn [run_txn] in Hrun; rewrite ?(replay_of_raw log g Hr) in Hrun.
  - (* new *)
    destruct (new_txn e is_epic title body epic u agent (finalize g)) as [[es r']|] eqn:Hn;
      injection Hrun as <- <-; cbn [apply_decision]; [|exact Hsame].
    intros g'. apply Hgen. eapply new_txn_stamps, Hn.
  - (* set *)
    destruct (upd_empty u); [injection Hrun as <- <-; exact Hsame|].
    destruct (set_txn e i u agent (finalize g)) as [es|] eqn:Hs; injection Hrun as <- <-; cbn [apply_decision]; [|exact Hsame].
    intros g'. eapply Hset, Hs.
  - (* claim <id> *)
    destruct (String.eqb agent ""); [injection Hrun as <- <-; exact Hsame|].
    destruct (set_txn e i _ agent (finalize g)) as [es|] eqn:Hs; injection Hrun as <- <-; cbn [apply_decision]; [|exact Hsame].
    intros g'. eapply Hset, Hs.
  - (* claim oldest *)
    destruct (String.eqb agent ""); [injection Hrun as <- <-; exact Hsame|].
    destruct (ready_tasks (finalize g) epic) as [|t rest]; injection Hrun as <- <-; cbn [apply_decision].
    + rewrite app_nil_r. exact Hsame.
    + intros g'. apply Hgen. repeat constructor.
  - (* sequence *)
    destruct (seq_edges ids) as [|ed eds]; [injection Hrun as <- <-; exact Hsame|].
    destruct (seq_txn link (finalize g) (ed :: eds)) as [es|] eqn:Hs; injection Hrun as <- <-; cbn [apply_decision]; [|exact Hsame].
    intros g'. apply Hgen. eapply seq_txn_stamps, Hs.
  - (* prune *)
    destruct yes; injection Hrun as <- <-; cbn [apply_decision]; [|rewrite app_nil_r; exact Hsame].
    intros g'. apply Hgen. apply Forall_fmap, Forall_forall. intros x _. exact I.
  - (* compact *)
    injection Hrun as <- <-. cbn [apply_decision].
    destruct (compact_preserves g Hw) as (g1 & Hr1 & _ & _ & _ & _ & _ & _ & Hw1).
    intros g'. rewrite Hr1. intros [= <-]. exact Hw1.
  - (* plan *)
    destruct (plan_valid p); cbn [negb] in Hrun; [|injection Hrun as <- <-; exact Hsame].
    destruct (plan_txn e p log (finalize g)) as [[es r']|] eqn:Hp; injection Hrun as <- <-; cbn [apply_decision]; [|exact Hsame].
    destruct (plan_txn_stamps _ _ _ _ _ _ Hp) as (new & -> & Hall).
    intros g'. apply Hgen, Hall.
Qed.

(** * Main theorems *)

Theorem reachm_graph_wf log g : ReachM log -> replay_raw log = Ok g -> graph_wf g.
Proof.
  intros H. revert g. induction H as [|log e q HR IH Hc]; intros g.
  - cbn. intros [= <-]. apply graph_wf_empty.
  - unfold exec_req. destruct (normalize q) as [c|]; [|apply IH].
    destruct (clock_ok_now e log Hc) as [Hz Hle].
    apply step_graph_wf; try assumption. apply reach_good, reachm_reach, HR.
Qed.

Theorem reachm_compact_preserves log g : ReachM log -> replay_raw log = Ok g ->
  exists g', replay_raw (compact_events (finalize g)) = Ok g' /\ obs (finalize g') = obs (finalize g) /\ g_tombs g' = ∅
          /\ dom (g_tasks g') = dom (g_tasks g) /\ g_deps g' = g_deps g
          /\ prune_targets (finalize g') = prune_targets (finalize g) /\ graph_wf g'.
Proof.
  intros HR Hr. destruct (compact_preserves g (reachm_graph_wf log g HR Hr))
    as (g' & H1 & H2 & H3 & H4 & H5 & H6 & _ & H8).
  exists g'. exact (conj H1 (conj H2 (conj H3 (conj H4 (conj H5 (conj H6 H8)))))).
Qed.

(** * Why the direct invariant is the right statement

    [new] with a result and a state in ONE command, the result stamp read after
    the section stamp ([now < now_result], the order the Go code reads them in
    for [new]): the log is [ReachM], the old hypothesis [stamps_ok] FAILS for it
    (the state event is stamped before the item's current [t_updated]), and
    compaction nevertheless preserves every observable. *)
Definition ex_env : env :=
  Env ["ABCDEF"] ["uuid-1"] 1000%Z 2000%Z [] FRegular "sha" "mtime" "git".
Definition ex_req : request :=
  QCmd (CNew false "Title" "" "" (Upd None None None (Some "done") None (Some "out.txt") (Some "summary")) "agent").
Definition ex_log : list event := (exec_req ex_env [] ex_req).1.

Example ex_log_eq :
  ex_log = [ENew false "ABCDEF" "uuid-1" "" "todo" "Title" "" (Some 1000%Z);
            EResult "ABCDEF" "summary" "out.txt" "sha" "mtime" "git" (Some 2000%Z);
            EState "ABCDEF" "done" (Some 1000%Z)].
Proof. vm_compute. reflexivity. Qed.

Example ex_reachm : ReachM ex_log.
Proof. apply (reachm_step [] ex_env ex_req reachm_init). repeat constructor. Qed.

Example ex_stamps_ok_b : stamps_ok_b ex_log = false.
Proof. vm_compute. reflexivity. Qed.

(** [stamps_ok_b] is only a sound checker; the hypothesis itself is false too. *)
Example ex_not_stamps_ok : ~ stamps_ok ex_log.
Proof.
  rewrite ex_log_eq. unfold stamps_ok. cbn [stamps_from]. intros (_ & H).
  destruct (H _ eq_refl) as (_ & H2). destruct (H2 _ eq_refl) as ((_ & H3) & _).
  cbn [ev_oku] in H3.
  destruct (H3 (add_result (Result "summary" "out.txt" "sha" "mtime" "git" 2000%Z)
                  (new_task false "ABCDEF" "uuid-1" "" "todo" "Title" "" 1000%Z))) as [_ Hle].
  - split; vm_compute; reflexivity.
  - vm_compute in Hle. apply Hle. reflexivity.
Qed.

Definition obs_of (log : list event) : option (list otask * list string) :=
  match replay_raw log with Ok g => Some (obs (finalize g)) | Err _ => None end.
Definition compacted (log : list event) : list event :=
  match replay log with Ok g => compact_events g | Err _ => [] end.

Example ex_compacted :
  compacted ex_log = [ENew false "ABCDEF" "uuid-1" "" "todo" "Title" "" (Some 1000%Z);
                      EState "ABCDEF" "done" (Some 1000%Z);
                      EResult "ABCDEF" "summary" "out.txt" "sha" "mtime" "git" (Some 2000%Z)].
Proof. vm_compute. reflexivity. Qed.

Example ex_compact_obs :
  obs_of (compacted ex_log) = obs_of ex_log /\
  obs_of ex_log =
    Some ([OTask "ABCDEF" "uuid-1" "" false "done" "Title" "" "" 1000%Z 2000%Z None [] []
                 [Result "summary" "out.txt" "sha" "mtime" "git" 2000%Z] false false], []).
Proof. split; vm_compute; reflexivity. Qed.

(** The same, as an instance of the theorem. *)
Example ex_compact_thm g : replay_raw ex_log = Ok g ->
  exists g', replay_raw (compact_events (finalize g)) = Ok g' /\ obs (finalize g') = obs (finalize g).
Proof.
  intros Hr. destruct (reachm_compact_preserves ex_log g ex_reachm Hr) as (g' & H1 & H2 & _).
  exists g'. split; assumption.
Qed.

Print Assumptions reachm_reach.
Print Assumptions reachm_graph_wf.
Print Assumptions reachm_compact_preserves.
Print Assumptions ex_not_stamps_ok.
Print Assumptions ex_compact_obs.
