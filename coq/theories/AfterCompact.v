(** AfterCompact.v — commands issued after a compaction behave exactly as they
    would have without it (third sentence of C05).

    Twin stores: [l] (never compacted) and [l'] (compacted at some point).  The
    two replayed graphs are related by [GSim T0 g g']: every live item shows the
    same [task_view] (all fields a reader or a command can see), the edges are
    equal, and the tombstones of [g] are those of [g'] plus ids from [T0], the
    set of ids that were pruned before the compaction (they have no item on
    either side).  The relation is (a) established by compaction, (b) enough to
    make every transaction decide the same, (c) preserved by replaying the same
    appended events, hence by every later command. *)
From Ergo Require Import Base Text Events Replay Ready Compact Path Cmd Input Graphs TextFacts
  CompactCore CompactProof Invariants PrunePlan Reach Replies View ReachStamps.
Local Open Scope string_scope.
Local Open Scope list_scope.

(** * 1. One item: equal views are preserved by every update *)

Definition tv_rel (t t' : task) : Prop := task_view t = task_view t'.

Lemma tv_core t t' : tv_rel t t' -> task_core t = task_core t'.
Proof.
  unfold tv_rel, task_view, task_view0, task_core.
  intros [= Hid Hu He Hk Hs Hti Hb Hc Hcr Hca Hr Hup]. congruence.
Qed.

Lemma tv_fields t t' : tv_rel t t' ->
  t_id t = t_id t' /\ t_is_epic t = t_is_epic t' /\ t_state t = t_state t' /\ t_claimed t = t_claimed t'
  /\ t_epic t = t_epic t' /\ t_created t = t_created t' /\ t_updated t = t_updated t'
  /\ t_title t = t_title t' /\ t_body t = t_body t'.
Proof.
  unfold tv_rel, task_view, task_view0.
  intros [= Hid Hu He Hk Hs Hti Hb Hc Hcr Hca Hr Hup]. repeat split; assumption.
Qed.

Ltac tv_crush :=
  unfold tv_rel, task_view, task_view0, claimed_at;
  let t := fresh "t" in let t' := fresh "t'" in
  intros t t'; destruct t, t'; cbn;
  let Hca := fresh "Hca" in
  intros [= -> -> -> -> -> -> -> -> -> Hca -> ->].

Lemma tv_set_state st ts : forall t t', tv_rel t t' -> tv_rel (set_state st ts t) (set_state st ts t').
Proof. tv_crush. destruct (clears_claim st); cbn; [reflexivity|rewrite Hca; reflexivity]. Qed.
Lemma tv_set_claim ag ts : forall t t', tv_rel t t' -> tv_rel (set_claim ag ts t) (set_claim ag ts t').
Proof. tv_crush. reflexivity. Qed.
Lemma tv_set_unclaim : forall t t', tv_rel t t' -> tv_rel (set_unclaim t) (set_unclaim t').
Proof. tv_crush. reflexivity. Qed.
Lemma tv_set_title ti ts : forall t t', tv_rel t t' -> tv_rel (set_title ti ts t) (set_title ti ts t').
Proof. tv_crush. rewrite Hca. reflexivity. Qed.
Lemma tv_set_body b ts : forall t t', tv_rel t t' -> tv_rel (set_body b ts t) (set_body b ts t').
Proof. tv_crush. rewrite Hca. reflexivity. Qed.
Lemma tv_set_epic ep ts : forall t t', tv_rel t t' -> tv_rel (set_epic ep ts t) (set_epic ep ts t').
Proof. tv_crush. rewrite Hca. reflexivity. Qed.
Lemma tv_add_result r : forall t t', tv_rel t t' -> tv_rel (add_result r t) (add_result r t').
Proof. tv_crush. rewrite Hca. reflexivity. Qed.
Lemma tv_migrate : forall t t', tv_rel t t' -> tv_rel (migrate t) (migrate t').
Proof.
  unfold migrate. tv_crush. destruct (is_blank _); [|cbn; rewrite Hca; reflexivity].
  destruct (derive_title_body _) as [ti b]. cbn. rewrite Hca. reflexivity.
Qed.

(** * 2. Two graphs: the relation between the uncompacted and the compacted side *)

Record GSim (T0 : gset string) (g g' : graph) : Prop := {
  gs_view : forall i, task_view <$> (g_tasks g !! i) = task_view <$> (g_tasks g' !! i);
  gs_deps : g_deps g = g_deps g';
  gs_t1 : g_tombs g' ⊆ g_tombs g;
  gs_t2 : g_tombs g ⊆ g_tombs g' ∪ T0;
  gs_dead : forall i, i ∈ T0 -> g_tasks g !! i = None;
  gs_ids : ids_ok g }.

Section gsim_facts.
  Context (T0 : gset string) (g g' : graph) (HS : GSim T0 g g').

  Lemma gsim_none i : g_tasks g !! i = None <-> g_tasks g' !! i = None.
  Proof.
    pose proof (gs_view T0 g g' HS i) as H.
    destruct (g_tasks g !! i), (g_tasks g' !! i); cbn in H; split; intros; congruence.
  Qed.

  Lemma gsim_some i t : g_tasks g !! i = Some t -> exists t', g_tasks g' !! i = Some t' /\ tv_rel t t'.
  Proof.
    intros Hl. pose proof (gs_view T0 g g' HS i) as H. rewrite Hl in H.
    destruct (g_tasks g' !! i) as [t'|]; cbn in H; [|discriminate]. exists t'. split; [reflexivity|].
    unfold tv_rel. congruence.
  Qed.

  Lemma gsim_some' i t' : g_tasks g' !! i = Some t' -> exists t, g_tasks g !! i = Some t /\ tv_rel t t'.
  Proof.
    intros Hl. pose proof (gs_view T0 g g' HS i) as H. rewrite Hl in H.
    destruct (g_tasks g !! i) as [t|]; cbn in H; [|discriminate]. exists t. split; [reflexivity|].
    unfold tv_rel. congruence.
  Qed.

  Lemma gsim_dead' i : i ∈ T0 -> g_tasks g' !! i = None.
  Proof. intros Hi. apply gsim_none, (gs_dead T0 g g' HS), Hi. Qed.

  (** Outside [T0] the two sides agree on who is tombstoned. *)
  Lemma gsim_tombed i : i ∉ T0 -> tombed g' i = tombed g i.
  Proof.
    intros Hi. pose proof (gs_t1 T0 g g' HS) as H1. pose proof (gs_t2 T0 g g' HS) as H2.
    unfold tombed. destruct (decide (i ∈ g_tombs g)) as [Hin|Hin].
    - rewrite (bool_decide_eq_true_2 _ Hin). apply bool_decide_eq_true_2. set_solver.
    - rewrite (bool_decide_eq_false_2 _ Hin). apply bool_decide_eq_false_2. set_solver.
  Qed.

  (** A live item (not tombstoned, present) on one side is live on the other. *)
  Lemma gsim_live i t : g_tasks g !! i = Some t -> tombed g' i = tombed g i.
  Proof.
    intros Hl. apply gsim_tombed. intros Hi. rewrite (gs_dead T0 g g' HS i Hi) in Hl. discriminate.
  Qed.

  Lemma gsim_tombed_mono i : tombed g i = false -> tombed g' i = false.
  Proof.
    pose proof (gs_t1 T0 g g' HS) as H1. unfold tombed. rewrite !bool_decide_eq_false. set_solver.
  Qed.

  (** Tombstoned on the uncompacted side: no item on the compacted side either. *)
  Lemma gsim_tombed_none i : tombed g i = true -> tombed g' i = false -> g_tasks g' !! i = None.
  Proof.
    pose proof (gs_t2 T0 g g' HS) as H2. unfold tombed.
    rewrite bool_decide_eq_true, bool_decide_eq_false. intros Hin Hnin.
    apply gsim_dead'. set_solver.
  Qed.

  Lemma gsim_ids' : ids_ok g'.
  Proof.
    intros k t' Hl. destruct (gsim_some' k t' Hl) as (t & Hl0 & Hv).
    destruct (tv_fields t t' Hv) as (Hid & _). rewrite <- Hid. apply (gs_ids T0 g g' HS k t Hl0).
  Qed.
End gsim_facts.

(** The item a command or an update event can act on. *)
Definition live_task (g : graph) (i : string) : option task :=
  if tombed g i then None else g_tasks g !! i.

Lemma gsim_live_task T0 g g' i : GSim T0 g g' ->
  (live_task g i = None /\ live_task g' i = None) \/
  (exists t t', live_task g i = Some t /\ live_task g' i = Some t' /\ tv_rel t t'
                /\ tombed g i = false /\ tombed g' i = false
                /\ g_tasks g !! i = Some t /\ g_tasks g' !! i = Some t').
Proof.
  intros HS. unfold live_task. destruct (tombed g i) eqn:Et.
  - left. split; [reflexivity|]. destruct (tombed g' i) eqn:Et'; [reflexivity|].
    apply (gsim_tombed_none T0 g g' HS i Et Et').
  - rewrite (gsim_tombed_mono T0 g g' HS i Et).
    destruct (g_tasks g !! i) as [t|] eqn:El.
    + destruct (gsim_some T0 g g' HS i t El) as (t' & El' & Hv). right. exists t, t'. rewrite El'. tauto.
    + left. split; [reflexivity|]. apply (gsim_none T0 g g' HS i), El.
Qed.

(** ** Building blocks for preservation *)

Lemma gsim_upd T0 g g' i f :
  GSim T0 g g' ->
  (forall t t', tv_rel t t' -> tv_rel (f t) (f t')) ->
  (forall t, t_id (f t) = t_id t) ->
  GSim T0 (upd_task g i f) (upd_task g' i f).
Proof.
  intros HS Hf Hid. split; cbn.
  - intros j. destruct (decide (j = i)) as [->|Hne].
    + rewrite !lookup_alter.
      destruct (g_tasks g !! i) as [t|] eqn:El.
      * destruct (gsim_some T0 g g' HS i t El) as (t' & -> & Hv). cbn. f_equal. apply Hf, Hv.
      * apply (gsim_none T0 g g' HS i) in El. rewrite El. reflexivity.
    + rewrite !lookup_alter_ne by congruence. apply (gs_view T0 g g' HS).
  - apply (gs_deps T0 g g' HS).
  - apply (gs_t1 T0 g g' HS).
  - apply (gs_t2 T0 g g' HS).
  - intros j Hj. destruct (decide (j = i)) as [->|Hne].
    + rewrite lookup_alter, (gs_dead T0 g g' HS i Hj). reflexivity.
    + rewrite lookup_alter_ne by congruence. apply (gs_dead T0 g g' HS j Hj).
  - intros k t Hl. cbn in Hl. apply lookup_alter_Some in Hl as [(Hik & t0 & Hl & ->)|[Hne Hl]].
    + rewrite Hid. apply (gs_ids T0 g g' HS k t0 Hl).
    + apply (gs_ids T0 g g' HS k t Hl).
Qed.

Lemma upd_task_absent g i f : g_tasks g !! i = None -> upd_task g i f = g.
Proof.
  intros Hl. unfold upd_task. destruct g as [T D X]. cbn in *. f_equal.
  apply map_eq. intros j. destruct (decide (j = i)) as [->|Hne].
  - rewrite lookup_alter, Hl. reflexivity.
  - rewrite lookup_alter_ne by congruence. reflexivity.
Qed.

Lemma gsim_insert T0 g g' i t :
  GSim T0 g g' -> i ∉ T0 -> t_id t = i ->
  GSim T0 (Graph (<[i := t]> (g_tasks g)) (g_deps g) (g_tombs g))
          (Graph (<[i := t]> (g_tasks g')) (g_deps g') (g_tombs g')).
Proof.
  intros HS Hi Hid. split; cbn.
  - intros j. destruct (decide (j = i)) as [->|Hne].
    + rewrite !lookup_insert. reflexivity.
    + rewrite !lookup_insert_ne by congruence. apply (gs_view T0 g g' HS).
  - apply (gs_deps T0 g g' HS).
  - apply (gs_t1 T0 g g' HS).
  - apply (gs_t2 T0 g g' HS).
  - intros j Hj. rewrite lookup_insert_ne by (intros ->; contradiction). apply (gs_dead T0 g g' HS j Hj).
  - intros k t0 Hl. cbn in Hl. apply lookup_insert_Some in Hl as [[<- <-]|[Hne Hl]]; [exact Hid|].
    apply (gs_ids T0 g g' HS k t0 Hl).
Qed.

Lemma gsim_deps (T0 : gset string) (g g' : graph) (F : gset (string * string) -> gset (string * string)) :
  GSim T0 g g' ->
  GSim T0 (Graph (g_tasks g) (F (g_deps g)) (g_tombs g)) (Graph (g_tasks g') (F (g_deps g')) (g_tombs g')).
Proof.
  intros HS. split; cbn.
  - apply (gs_view T0 g g' HS).
  - rewrite (gs_deps T0 g g' HS). reflexivity.
  - apply (gs_t1 T0 g g' HS).
  - apply (gs_t2 T0 g g' HS).
  - apply (gs_dead T0 g g' HS).
  - apply (gs_ids T0 g g' HS).
Qed.

Lemma gsim_tombstone T0 g g' i :
  GSim T0 g g' -> GSim T0 (apply_tombstone g i) (apply_tombstone g' i).
Proof.
  intros HS. pose proof (gs_t1 T0 g g' HS) as H1. pose proof (gs_t2 T0 g g' HS) as H2.
  split; cbn.
  - intros j. destruct (decide (j = i)) as [->|Hne].
    + rewrite !lookup_delete. reflexivity.
    + rewrite !lookup_delete_ne by congruence. apply (gs_view T0 g g' HS).
  - rewrite (gs_deps T0 g g' HS). reflexivity.
  - set_solver.
  - set_solver.
  - intros j Hj. destruct (decide (j = i)) as [->|Hne].
    + apply lookup_delete.
    + rewrite lookup_delete_ne by congruence. apply (gs_dead T0 g g' HS j Hj).
  - intros k t Hl. cbn in Hl. apply lookup_delete_Some in Hl as [_ Hl]. apply (gs_ids T0 g g' HS k t Hl).
Qed.

(** ** Replaying one event on both sides *)

(** The events a command may append without telling the two sides apart: a
    create never re-uses an id of [T0], a link never names one. *)
Definition ev_safe (T0 : gset string) (e : event) : Prop :=
  match e with
  | ENew _ i _ _ _ _ _ _ => i ∉ T0
  | ELink a b _ | EUnlink a b _ => a ∉ T0 /\ b ∉ T0
  | _ => True
  end.

Definition res_rel (T0 : gset string) (r r' : res graph) : Prop :=
  match r, r' with
  | Ok a, Ok b => GSim T0 a b
  | Err x, Err y => x = y
  | _, _ => False
  end.

Lemma sim_on_item T0 g g' i at_ (f : time -> task -> task) :
  GSim T0 g g' ->
  (forall ts t t', tv_rel t t' -> tv_rel (f ts t) (f ts t')) ->
  (forall ts t, t_id (f ts t) = t_id t) ->
  res_rel T0 (on_item g i at_ f) (on_item g' i at_ f).
Proof.
  intros HS Hf Hid. unfold on_item.
  destruct (gsim_live_task T0 g g' i HS) as [[Hn Hn']|(t & t' & _ & _ & Hv & Et & Et' & El & El')].
  - unfold live_task in Hn, Hn'.
    destruct (tombed g i); destruct (tombed g' i); cbn; try exact HS;
      rewrite ?Hn, ?Hn'; cbn; exact HS.
  - rewrite Et, Et', El, El'. destruct at_ as [ts|]; cbn; [|reflexivity].
    apply gsim_upd; [exact HS|apply Hf|apply Hid].
Qed.

Lemma sim_apply_event T0 g g' e :
  GSim T0 g g' -> ev_safe T0 e -> res_rel T0 (apply_event g e) (apply_event g' e).
Proof.
  intros HS Hsafe.
  destruct e as [ie i u ep st ti b at_| i st at_ | i ag at_ | i | a b ty | a b ty | i ti at_ | i b at_
                | i ep at_ | i ag at_ | i su pa sha mt gi at_ | |]; cbn [apply_event].
  - (* ENew *)
    cbn in Hsafe. rewrite (gsim_tombed T0 g g' HS i Hsafe).
    destruct (tombed g i); [exact HS|].
    destruct (g_tasks g !! i) as [t|] eqn:El.
    + destruct (gsim_some T0 g g' HS i t El) as (t' & -> & _). reflexivity.
    + apply (gsim_none T0 g g' HS i) in El. rewrite El.
      destruct at_ as [ts|]; cbn; [|reflexivity].
      apply gsim_insert; [exact HS|exact Hsafe|reflexivity].
  - apply sim_on_item; [exact HS|intros; apply tv_set_state; assumption|reflexivity].
  - apply sim_on_item; [exact HS|intros; apply tv_set_claim; assumption|reflexivity].
  - (* EUnclaim *)
    destruct (tombed g i) eqn:Et.
    + destruct (tombed g' i) eqn:Et'; cbn; [exact HS|].
      rewrite upd_task_absent; [exact HS|]. apply (gsim_tombed_none T0 g g' HS i Et Et').
    + rewrite (gsim_tombed_mono T0 g g' HS i Et). cbn.
      apply gsim_upd; [exact HS|apply tv_set_unclaim|reflexivity].
  - (* ELink *)
    destruct Hsafe as [Ha Hb].
    rewrite (gsim_tombed T0 g g' HS a Ha), (gsim_tombed T0 g g' HS b Hb).
    destruct (_ || _ || _)%bool; cbn; [exact HS|].
    apply (gsim_deps T0 g g' (fun D => {[ (a, b) ]} ∪ D) HS).
  - (* EUnlink *)
    destruct Hsafe as [Ha Hb].
    rewrite (gsim_tombed T0 g g' HS a Ha), (gsim_tombed T0 g g' HS b Hb).
    destruct (_ || _ || _)%bool; cbn; [exact HS|].
    apply (gsim_deps T0 g g' (fun D => D ∖ {[ (a, b) ]}) HS).
  - apply sim_on_item; [exact HS|intros; apply tv_set_title; assumption|reflexivity].
  - apply sim_on_item; [exact HS|intros; apply tv_set_body; assumption|reflexivity].
  - apply sim_on_item; [exact HS|intros; apply tv_set_epic; assumption|reflexivity].
  - (* ETomb *)
    destruct at_ as [ts|]; cbn; [|reflexivity]. apply gsim_tombstone, HS.
  - apply sim_on_item; [exact HS|intros; apply tv_add_result; assumption|reflexivity].
  - reflexivity.
  - exact HS.
Qed.

Lemma sim_replay_from T0 es : forall g g',
  GSim T0 g g' -> Forall (ev_safe T0) es -> res_rel T0 (replay_from g es) (replay_from g' es).
Proof.
  induction es as [|e es IH]; intros g g' HS Hall; [exact HS|].
  apply Forall_cons_1 in Hall as [He Hall].
  unfold replay_from in *. cbn [foldM].
  pose proof (sim_apply_event T0 g g' e HS He) as Hstep.
  destruct (apply_event g e) as [g1|x], (apply_event g' e) as [g1'|x']; cbn in Hstep; try contradiction.
  - apply IH; assumption.
  - exact Hstep.
Qed.

(** * 3. What a reader sees is the same on both sides *)

Lemma gsim_finalize T0 g g' : GSim T0 g g' -> GSim T0 (finalize g) (finalize g').
Proof.
  intros HS. split; try (cbn; apply HS).
  - intros i. rewrite !Invariants.finalize_lookup.
    destruct (g_tasks g !! i) as [t|] eqn:El.
    + destruct (gsim_some T0 g g' HS i t El) as (t' & -> & Hv). cbn. f_equal. apply tv_migrate, Hv.
    + apply (gsim_none T0 g g' HS i) in El. rewrite El. reflexivity.
  - intros i Hi. rewrite Invariants.finalize_lookup, (gs_dead T0 g g' HS i Hi). reflexivity.
  - apply ids_ok_finalize, (gs_ids T0 g g' HS).
Qed.

(** The item of the other side with the same id. *)
Definition twin (g' : graph) (t : task) : task := default t (g_tasks g' !! t_id t).

Lemma gsim_twin T0 g g' : GSim T0 g g' ->
  g_tasks g' = twin g' <$> g_tasks g /\
  (forall k t, g_tasks g !! k = Some t -> tv_rel t (twin g' t)).
Proof.
  intros HS. split.
  - apply map_eq. intros i. rewrite lookup_fmap.
    destruct (g_tasks g !! i) as [t|] eqn:El; cbn.
    + destruct (gsim_some T0 g g' HS i t El) as (t' & El' & _).
      unfold twin. rewrite (gs_ids T0 g g' HS i t El), El'. reflexivity.
    + apply (gsim_none T0 g g' HS i), El.
  - intros k t El. destruct (gsim_some T0 g g' HS k t El) as (t' & El' & Hv).
    unfold twin. rewrite (gs_ids T0 g g' HS k t El), El'. exact Hv.
Qed.

Lemma gsim_twin_core T0 g g' : GSim T0 g g' ->
  forall k t, g_tasks g !! k = Some t -> task_core (twin g' t) = task_core t.
Proof.
  intros HS k t El. destruct (gsim_twin T0 g g' HS) as [_ Hv]. symmetry. apply tv_core, (Hv k t El).
Qed.

Lemma gsim_obs T0 g g' : GSim T0 g g' -> obs g' = obs g.
Proof.
  intros HS. destruct (gsim_twin T0 g g' HS) as [Ht Hv].
  apply (obs_sim g g' (twin g')).
  - exact Ht.
  - symmetry. apply (gs_deps T0 g g' HS).
  - apply (gs_ids T0 g g' HS).
  - apply (gsim_twin_core T0 g g' HS).
  - intros k t El. symmetry. apply (Hv k t El).
Qed.

Lemma gsim_prune_targets T0 g g' : GSim T0 g g' -> prune_targets g' = prune_targets g.
Proof.
  intros HS. destruct (gsim_twin T0 g g' HS) as [Ht _].
  apply (prune_targets_sim g g' (twin g') Ht (gsim_twin_core T0 g g' HS)).
Qed.

Lemma gsim_ready T0 g g' epic : GSim T0 g g' ->
  t_id <$> ready_tasks g' epic = t_id <$> ready_tasks g epic.
Proof.
  intros HS. destruct (gsim_twin T0 g g' HS) as [Ht Hv].
  rewrite (ready_tasks_sim g g' (twin g') Ht (eq_sym (gs_deps T0 g g' HS)) (gs_ids T0 g g' HS)
             (gsim_twin_core T0 g g' HS) epic).
  rewrite <- list_fmap_compose. apply list_fmap_ext. intros i t Hl. cbn.
  apply elem_of_list_lookup_2 in Hl. apply ready_tasks_elem in Hl as [Hin _].
  apply all_tasks_lookup in Hin as [k Hk].
  destruct (tv_fields _ _ (Hv k t Hk)) as (Hid & _). symmetry. exact Hid.
Qed.

(** * 4. Every transaction decides the same on both sides

    What [run_txn] reads from the replayed graph: for a target id, whether it is
    tombstoned and its item's kind / state / claimant (through [set_txn],
    [build_result_event], [link_ok]); for an epic reference, the kind of the
    referenced item; the edge set ([has_cycle]); the derived ready order and
    prune selection; and, for [new] / [plan] only, whether a candidate id is
    live or tombstoned ([taken_in]).  Everything but the last is the same on
    both sides of [GSim]; the last is the same for candidates outside [T0]. *)

Lemma build_set_events_view i t t' u agent now :
  tv_rel t t' -> build_set_events i t' u agent now = build_set_events i t u agent now.
Proof.
  intros Hv. destruct (tv_fields t t' Hv) as (_ & Hk & Hs & Hc & _).
  unfold build_set_events. rewrite Hk, Hs, Hc. reflexivity.
Qed.

Lemma epic_lookup_sim T0 g g' ep : GSim T0 g g' ->
  match g_tasks g' !! ep with Some et => t_is_epic et | None => false end
  = match g_tasks g !! ep with Some et => t_is_epic et | None => false end.
Proof.
  intros HS. destruct (g_tasks g !! ep) as [t|] eqn:El.
  - destruct (gsim_some T0 g g' HS ep t El) as (t' & -> & Hv).
    destruct (tv_fields t t' Hv) as (_ & Hk & _). symmetry. exact Hk.
  - apply (gsim_none T0 g g' HS ep) in El. rewrite El. reflexivity.
Qed.

Lemma is_some_lookup_sim T0 g g' c : GSim T0 g g' ->
  is_some (g_tasks g' !! c) = is_some (g_tasks g !! c).
Proof.
  intros HS. destruct (g_tasks g !! c) as [t|] eqn:El.
  - destruct (gsim_some T0 g g' HS c t El) as (t' & -> & _). reflexivity.
  - apply (gsim_none T0 g g' HS c) in El. rewrite El. reflexivity.
Qed.

Lemma build_result_event_sim T0 e g g' i s p : GSim T0 g g' ->
  build_result_event e g' i s p = build_result_event e g i s p.
Proof.
  intros HS. unfold build_result_event.
  destruct (gsim_live_task T0 g g' i HS) as [[Hn Hn']|(t & t' & _ & _ & Hv & Et & Et' & El & El')].
  - unfold live_task in Hn, Hn'. destruct (tombed g i), (tombed g' i); rewrite ?Hn, ?Hn'; reflexivity.
  - rewrite Et, Et', El, El'. destruct (tv_fields t t' Hv) as (_ & Hk & _). rewrite Hk. reflexivity.
Qed.

(** [set_txn] after the result event has been built. *)
Definition set_core (e : env) (i : string) (u : upd) (agent : string) (g : graph) (ev_res : list event)
  : option (list event) :=
  if tombed g i then None else
  match g_tasks g !! i with
  | None => None
  | Some t =>
      if (t_is_epic t && (is_some (u_state u) || is_some (u_claim u)))%bool then None
      else
      let epic_ok :=
        match u_epic u with
        | Some ep =>
            if (String.eqb ep "" || t_is_epic t)%bool then true
            else match g_tasks g !! ep with
                 | Some et => t_is_epic et
                 | None => false
                 end
        | None => true
        end in
      if negb epic_ok then None
      else match build_set_events i t u agent (e_now e) with
           | None => None
           | Some evs => Some (ev_res ++ evs)
           end
  end.

Lemma set_txn_eq e i u agent g :
  set_txn e i u agent g =
  match result_req u with
  | None => None
  | Some rq =>
    match (match rq with
           | Some (p, s) => match build_result_event e g i s p with
                            | Some ev => Some [ev] | None => None end
           | None => Some [] end) with
    | None => None
    | Some ev_res =>
      if (is_some rq && upd_nonresult_empty u)%bool then Some ev_res
      else set_core e i u agent g ev_res
    end
  end.
Proof. reflexivity. Qed.

Lemma set_core_sim T0 e i u agent g g' ev_res : GSim T0 g g' ->
  set_core e i u agent g' ev_res = set_core e i u agent g ev_res.
Proof.
  intros HS. unfold set_core.
  destruct (gsim_live_task T0 g g' i HS) as [[Hn Hn']|(t & t' & _ & _ & Hv & Et & Et' & El & El')].
  - unfold live_task in Hn, Hn'. destruct (tombed g i), (tombed g' i); rewrite ?Hn, ?Hn'; reflexivity.
  - rewrite Et, Et', El, El'. destruct (tv_fields t t' Hv) as (_ & Hk & _). rewrite <- Hk.
    rewrite (build_set_events_view i t t' u agent (e_now e) Hv).
    destruct (u_epic u) as [ep|]; [|reflexivity].
    rewrite (epic_lookup_sim T0 g g' ep HS). reflexivity.
Qed.

Lemma set_txn_sim T0 e i u agent g g' : GSim T0 g g' ->
  set_txn e i u agent g' = set_txn e i u agent g.
Proof.
  intros HS. rewrite !set_txn_eq.
  destruct (result_req u) as [rq|]; [|reflexivity].
  destruct rq as [[p s]|].
  - rewrite (build_result_event_sim T0 e g g' i s p HS).
    destruct (build_result_event e g i s p) as [ev|]; [|reflexivity].
    destruct (_ && _)%bool; [reflexivity|]. apply (set_core_sim T0 e i u agent g g' _ HS).
  - destruct (_ && _)%bool; [reflexivity|]. apply (set_core_sim T0 e i u agent g g' _ HS).
Qed.

(** ** Fresh ids *)

Lemma pick_id_fuel_ext n : forall cands (f f' : string -> bool),
  (forall c, c ∈ cands -> f' c = f c) -> pick_id_fuel n cands f' = pick_id_fuel n cands f.
Proof.
  induction n as [|n IH]; intros cands f f' Hext; [reflexivity|].
  destruct cands as [|c rest]; [reflexivity|]. cbn.
  rewrite (Hext c) by (left). destruct (f c); [|reflexivity].
  apply IH. intros c' Hc'. apply Hext. right. exact Hc'.
Qed.

Lemma pick_id_fuel_sub n : forall cands (f : string -> bool) i rest,
  pick_id_fuel n cands f = Some (i, rest) -> i ∈ cands /\ (forall c, c ∈ rest -> c ∈ cands).
Proof.
  induction n as [|n IH]; intros cands f i rest; [discriminate|].
  destruct cands as [|c cs]; [discriminate|]. cbn. destruct (f c).
  - intros Hp. destruct (IH cs f i rest Hp) as [Hi Hsub]. split; [right; exact Hi|].
    intros c' Hc'. right. apply Hsub, Hc'.
  - intros [= <- <-]. split; [left|]. intros c' Hc'. right. exact Hc'.
Qed.

Lemma taken_in_sim T0 g g' extra c : GSim T0 g g' -> c ∉ T0 ->
  taken_in g' extra c = taken_in g extra c.
Proof.
  intros HS Hc. unfold taken_in.
  rewrite (is_some_lookup_sim T0 g g' c HS), (gsim_tombed T0 g g' HS c Hc). reflexivity.
Qed.

Definition ids_fresh (T0 : gset string) (e : env) : Prop := forall c, c ∈ e_ids e -> c ∉ T0.

Lemma pick_id_sim T0 g g' cands extra : GSim T0 g g' -> (forall c, c ∈ cands -> c ∉ T0) ->
  pick_id cands (taken_in g' extra) = pick_id cands (taken_in g extra).
Proof.
  intros HS Hc. apply pick_id_fuel_ext. intros c Hin. apply (taken_in_sim T0 g g' extra c HS), Hc, Hin.
Qed.

Lemma plan_ids_sim T0 g g' n : GSim T0 g g' -> forall cands taken,
  (forall c, c ∈ cands -> c ∉ T0) -> plan_ids cands g' taken n = plan_ids cands g taken n.
Proof.
  intros HS. induction n as [|n IH]; intros cands taken Hc; [reflexivity|].
  cbn [plan_ids]. rewrite (pick_id_sim T0 g g' cands taken HS Hc).
  destruct (pick_id cands (taken_in g taken)) as [[i rest]|] eqn:Hp; [|reflexivity].
  rewrite IH; [reflexivity|].
  intros c Hin. apply Hc. destruct (pick_id_fuel_sub 64 cands _ i rest Hp) as [_ Hsub]. apply Hsub, Hin.
Qed.

Lemma plan_ids_sub g n : forall cands taken l,
  plan_ids cands g taken n = Some l -> forall i, i ∈ l -> i ∈ cands.
Proof.
  induction n as [|n IH]; intros cands taken l; cbn [plan_ids].
  - intros [= <-] i Hi. apply elem_of_nil in Hi. contradiction.
  - destruct (pick_id cands (taken_in g taken)) as [[i rest]|] eqn:Hp; [|discriminate].
    destruct (plan_ids rest g (i :: taken) n) as [l'|] eqn:Hr; [|discriminate].
    intros [= <-] j Hj. destruct (pick_id_fuel_sub 64 cands _ i rest Hp) as [Hi Hsub].
    apply elem_of_cons in Hj as [->|Hj]; [exact Hi|]. apply Hsub. eapply IH; eassumption.
Qed.

(** ** new *)
Lemma new_txn_sim T0 e is_epic title body epic u agent g g' :
  GSim T0 g g' -> ids_fresh T0 e ->
  new_txn e is_epic title body epic u agent g' = new_txn e is_epic title body epic u agent g.
Proof.
  intros HS Hfresh. unfold new_txn. cbv zeta.
  rewrite (epic_lookup_sim T0 g g' epic HS).
  destruct (negb _); [reflexivity|].
  rewrite (pick_id_sim T0 g g' (e_ids e) [] HS Hfresh).
  destruct (pick_id (e_ids e) (taken_in g [])) as [[i rest]|] eqn:Hp; [|reflexivity].
  destruct (is_epic || _)%bool; [reflexivity|].
  destruct (result_req _) as [rq|]; [|reflexivity].
  destruct rq as [[p s]|]; [|reflexivity].
  assert (Hi : i ∉ T0).
  { apply Hfresh. destruct (pick_id_fuel_sub 64 _ _ i rest Hp) as [Hin _]. exact Hin. }
  match goal with |- context [build_result_event e (Graph (<[i := ?t]> (g_tasks g')) _ _) i s p] =>
    rewrite (build_result_event_sim T0 e _ _ i s p (gsim_insert T0 g g' i t HS Hi eq_refl)) end.
  reflexivity.
Qed.

(** ** sequence *)
Lemma link_ok_live link g a b :
  link_ok link g a b =
  match live_task g a, live_task g b with
  | Some ft, Some tk =>
      if String.eqb a b then false
      else if negb (Bool.eqb (t_is_epic ft) (t_is_epic tk)) then false
      else if link then negb (has_cycle g a b) else true
  | _, _ => false
  end.
Proof.
  unfold link_ok, live_task.
  destruct (tombed g a), (tombed g b); cbn; try reflexivity;
    destruct (g_tasks g !! a); reflexivity.
Qed.

Lemma link_ok_sim T0 link g g' a b : GSim T0 g g' -> link_ok link g' a b = link_ok link g a b.
Proof.
  intros HS. rewrite !link_ok_live.
  destruct (gsim_live_task T0 g g' a HS) as [[Ha Ha']|(ta & ta' & Ha & Ha' & Hva & _)];
    rewrite Ha, Ha'; [reflexivity|].
  destruct (gsim_live_task T0 g g' b HS) as [[Hb Hb']|(tb & tb' & Hb & Hb' & Hvb & _)];
    rewrite Hb, Hb'; [reflexivity|].
  destruct (tv_fields ta ta' Hva) as (_ & Hka & _). destruct (tv_fields tb tb' Hvb) as (_ & Hkb & _).
  rewrite Hka, Hkb, (has_cycle_deps g' g a b (eq_sym (gs_deps T0 g g' HS))). reflexivity.
Qed.

Lemma seq_txn_sim T0 link edges : forall g g', GSim T0 g g' ->
  seq_txn link g' edges = seq_txn link g edges.
Proof.
  induction edges as [|[a b] rest IH]; intros g g' HS; [reflexivity|].
  cbn [seq_txn]. rewrite (link_ok_sim T0 link g g' a b HS).
  destruct (link_ok link g a b); [|reflexivity]. destruct link.
  - rewrite (IH _ _ (gsim_deps T0 g g' (fun D => {[ (a, b) ]} ∪ D) HS)). reflexivity.
  - rewrite (IH _ _ (gsim_deps T0 g g' (fun D => D ∖ {[ (a, b) ]}) HS)). reflexivity.
Qed.

(** ** plan: the part of the decision that does not mention the old log *)
Definition plan_new (e : env) (p : plan) (g : graph) : option (list event * reply) :=
  if negb (plan_valid p) then None else
  let n := length (p_tasks p) in
  match plan_ids (e_ids e) g [] (S n) with
  | Some (eid :: tids) =>
      let uu k := opt_default "" (e_uuids e !! k) in
      let epic_ev := ENew true eid (uu 0%nat) "" "todo" (p_title p) (opt_default "" (p_body p)) (Some (e_now e)) in
      let task_evs :=
        imap (λ k '(t, i), ENew false i (uu (S k)) eid "todo" (pt_title t) (opt_default "" (pt_body t))
                                (Some (opt_default (e_now e) (e_nows e !! k))))
             (zip (p_tasks p) tids) in
      let tmap := zip (pt_title <$> p_tasks p) tids in
      let edges := plan_edges p (lookup_title tmap) in
      match plan_links g edges with
      | None => None
      | Some links => Some (epic_ev :: task_evs ++ links, RPlanned eid tids edges)
      end
  | _ => None
  end.

Lemma plan_txn_new e p log g :
  plan_txn e p log g =
  match plan_new e p g with Some (new, r) => Some (log ++ new, r) | None => None end.
Proof.
  unfold plan_txn, plan_new. destruct (negb (plan_valid p)); [reflexivity|]. cbv zeta.
  destruct (plan_ids _ _ _ _) as [[|eid tids]|]; try reflexivity.
  destruct (plan_links _ _); reflexivity.
Qed.

Lemma plan_new_sim T0 e p g g' : GSim T0 g g' -> ids_fresh T0 e -> plan_new e p g' = plan_new e p g.
Proof.
  intros HS Hfresh. unfold plan_new. destruct (negb (plan_valid p)); [reflexivity|]. cbv zeta.
  rewrite (plan_ids_sim T0 g g' _ HS (e_ids e) [] Hfresh).
  destruct (plan_ids _ _ _ _) as [[|eid tids]|]; try reflexivity.
  rewrite (plan_links_deps_irrel g' g _ (eq_sym (gs_deps T0 g g' HS))). reflexivity.
Qed.

(** ** The transaction of every command but [compact] *)

Definition mints (c : cmd) : bool :=
  match c with CNew _ _ _ _ _ _ | CPlan _ => true | _ => false end.

(** The id hypothesis: a command that draws new ids is not offered an id of [T0]. *)
Definition ids_hyp (T0 : gset string) (e : env) (c : cmd) : Prop := mints c = true -> ids_fresh T0 e.

(** Same decision: both abort, both append the SAME events, or (plan) both
    rewrite their own log extended by the SAME new events. *)
Definition dec_rel (l l' : list event) (d d' : decision) : Prop :=
  match d, d' with
  | Abort, Abort => True
  | Append a, Append b => a = b
  | Replace a, Replace b => exists new, a = l ++ new /\ b = l' ++ new
  | _, _ => False
  end.

Theorem run_txn_sim T0 e c l l' g g' :
  replay_raw l = Ok g -> replay_raw l' = Ok g' -> GSim T0 (finalize g) (finalize g') ->
  ids_hyp T0 e c -> c <> CCompact ->
  (run_txn e c l').2 = (run_txn e c l).2 /\ dec_rel l l' (run_txn e c l).1 (run_txn e c l').1.
Proof.
  intros Hr Hr' HS Hids Hnc.
  destruct c as [is_epic title body epic u agent | i u agent | i agent | epic agent | link ids | yes agent | | p];
    cbn [run_txn]; rewrite ?(replay_of_raw l g Hr), ?(replay_of_raw l' g' Hr').
  - (* new *)
    rewrite (new_txn_sim T0 e is_epic title body epic u agent _ _ HS (Hids eq_refl)).
    destruct (new_txn e is_epic title body epic u agent (finalize g)) as [[es r]|]; cbn; tauto.
  - (* set *)
    destruct (upd_empty u); [cbn; tauto|].
    rewrite (set_txn_sim T0 e i u agent _ _ HS).
    destruct (set_txn e i u agent (finalize g)) as [es|]; cbn; tauto.
  - (* claim <id> *)
    destruct (String.eqb agent ""); [cbn; tauto|].
    rewrite (set_txn_sim T0 e i _ agent _ _ HS).
    destruct (set_txn e i _ agent (finalize g)) as [es|]; cbn; tauto.
  - (* claim oldest *)
    destruct (String.eqb agent ""); [cbn; tauto|].
    pose proof (gsim_ready T0 _ _ epic HS) as Hrd.
    destruct (ready_tasks (finalize g) epic) as [|t rest], (ready_tasks (finalize g') epic) as [|t' rest'];
      cbn in Hrd; try discriminate; [cbn; tauto|].
    injection Hrd as Hid _. rewrite Hid. cbn. tauto.
  - (* sequence *)
    destruct (seq_edges ids) as [|ed eds]; [cbn; tauto|].
    rewrite (seq_txn_sim T0 link (ed :: eds) _ _ HS).
    destruct (seq_txn link (finalize g) (ed :: eds)) as [es|]; cbn; tauto.
  - (* prune *)
    rewrite (gsim_prune_targets T0 _ _ HS). destruct yes; cbn; tauto.
  - contradiction.
  - (* plan *)
    destruct (negb (plan_valid p)); [cbn; tauto|].
    rewrite !plan_txn_new, (plan_new_sim T0 e p _ _ HS (Hids eq_refl)).
    destruct (plan_new e p (finalize g)) as [[new r]|]; cbn; [|tauto].
    split; [reflexivity|]. exists new. tauto.
Qed.

(** * 5. The events a command appends are safe to replay on both sides *)

Lemma is_upd_safe T0 i e : is_upd i e -> ev_safe T0 e.
Proof.
  destruct e as [| j s [ts|] | j a [ts|] | j | | | j ti [ts|] | j b [ts|] | j ep [ts|] | | j su pa sha mt gi [ts|] | |];
    cbn; tauto.
Qed.

Lemma Forall_upd_safe T0 i es : Forall (is_upd i) es -> Forall (ev_safe T0) es.
Proof. apply List.Forall_impl. intros ev. apply is_upd_safe. Qed.

Lemma new_txn_safe T0 e k title body epic u agent g evs r :
  ids_fresh T0 e -> new_txn e k title body epic u agent g = Some (evs, r) -> Forall (ev_safe T0) evs.
Proof.
  intros Hfresh. unfold new_txn.
  set (u' := Upd None None None (u_state u) (u_claim u) (u_rpath u) (u_rsum u)).
  destruct (negb _); [discriminate|].
  destruct (pick_id (e_ids e) (taken_in g [])) as [[i rest]|] eqn:Hp; [|discriminate].
  assert (Hi : i ∉ T0).
  { apply Hfresh. destruct (pick_id_fuel_sub 64 _ _ i rest Hp) as [Hin _]. exact Hin. }
  destruct (k || upd_empty u')%bool; [intros [= <- _]; repeat constructor; exact Hi|].
  destruct (result_req u') as [rq|]; [|discriminate].
  set (R := match rq with Some (p, s) => _ | None => Some [] end).
  destruct R as [ev_res|] eqn:HR; [|discriminate].
  assert (Hres : Forall (ev_safe T0) ev_res).
  { subst R. destruct rq as [[p s]|]; [|injection HR as <-; constructor].
    match type of HR with context [build_result_event ?a ?b ?c ?d ?f] =>
      destruct (build_result_event a b c d f) as [ev|] eqn:Hb; [|discriminate] end.
    injection HR as <-. repeat constructor. apply result_event_upd in Hb as (Hu & _).
    eapply is_upd_safe, Hu. }
  destruct (upd_nonresult_empty u').
  - intros [= <- _]. constructor; [exact Hi|exact Hres].
  - match goal with |- context [build_set_events ?a ?b ?c ?d ?f] =>
      destruct (build_set_events a b c d f) as [sevs|] eqn:Hb; [|discriminate] end.
    intros [= <- _]. constructor; [exact Hi|]. apply Forall_app. split; [exact Hres|].
    apply build_set_events_spec in Hb. eapply Forall_upd_safe, (ss_upd _ _ _ _ Hb).
Qed.

Lemma seq_txn_safe T0 link edges : forall g evs,
  (forall i, i ∈ T0 -> g_tasks g !! i = None) ->
  seq_txn link g edges = Some evs -> Forall (ev_safe T0) evs.
Proof.
  induction edges as [|[a b] rest IH]; intros g evs Hdead; cbn [seq_txn]; [intros [= <-]; constructor|].
  destruct (link_ok link g a b) eqn:Hok; [|discriminate].
  match goal with |- context [seq_txn link ?g1 rest] =>
    destruct (seq_txn link g1 rest) as [evs'|] eqn:Hs; [|discriminate];
    assert (Hrest : Forall (ev_safe T0) evs') by (apply (IH g1 evs'); [destruct link; exact Hdead|exact Hs]) end.
  intros [= <-].
  apply link_ok_spec in Hok as (_ & _ & _ & (ta & tb & Ha & Hb & _) & _).
  assert (Hab : a ∉ T0 /\ b ∉ T0).
  { split; intros Hin; apply Hdead in Hin; congruence. }
  constructor; [destruct link; exact Hab|exact Hrest].
Qed.

Lemma lookup_title_in titles : forall ids ti,
  ti ∈ titles -> length titles <= length ids -> lookup_title (zip titles ids) ti ∈ ids.
Proof.
  induction titles as [|t titles IH]; intros ids ti Hin Hlen.
  - apply elem_of_nil in Hin. contradiction.
  - destruct ids as [|j ids]; [cbn in Hlen; lia|]. cbn.
    destruct (String.eqb t ti) eqn:E; [left|].
    right. apply IH; [|cbn in Hlen; lia].
    apply elem_of_cons in Hin as [->|Hin]; [|exact Hin].
    rewrite String.eqb_refl in E. discriminate.
Qed.

Lemma plan_new_safe T0 e p g new r :
  ids_fresh T0 e -> plan_new e p g = Some (new, r) -> Forall (ev_safe T0) new.
Proof.
  intros Hfresh. unfold plan_new. destruct (plan_valid p) eqn:Hv; [|discriminate]. cbn [negb]. cbv zeta.
  destruct (plan_ids (e_ids e) g [] (S (length (p_tasks p)))) as [[|eid tids]|] eqn:Hids; try discriminate.
  destruct (plan_links _ _) as [links|] eqn:Hl; [|discriminate].
  intros [= <- _].
  assert (Hsub : forall i, i ∈ eid :: tids -> i ∉ T0).
  { intros i Hi. apply Hfresh. eapply plan_ids_sub; eassumption. }
  apply plan_ids_spec in Hids as (Hlen & _ & _). cbn in Hlen.
  apply plan_valid_spec in Hv as (_ & _ & _ & Hv4 & _).
  constructor; [apply Hsub; left|]. apply Forall_app. split.
  - apply Forall_forall. intros x Hx.
    apply elem_of_list_In, elem_of_lookup_imap in Hx as (k & [t i] & -> & Hz).
    apply lookup_zip_with_Some in Hz as (? & ? & [= <- <-] & _ & Hi).
    cbn. apply Hsub. right. eapply elem_of_list_lookup_2, Hi.
  - apply plan_links_spec in Hl as [-> _].
    apply Forall_fmap, Forall_forall. intros [a b] Hab. apply elem_of_list_In in Hab.
    apply elem_of_plan_edges in Hab as (pt & a' & Hpt & Ha' & -> & ->). cbn.
    destruct (Hv4 pt Hpt) as (_ & _ & Haft). destruct (Haft a' Ha') as (_ & _ & pt2 & Hpt2 & Heq).
    split; apply Hsub; right; apply lookup_title_in; rewrite ?fmap_length; try lia.
    + apply elem_of_list_fmap. exists pt. split; [reflexivity|exact Hpt].
    + apply elem_of_list_fmap. exists pt2. split; [symmetry; exact Heq|exact Hpt2].
Qed.

(** * 6. Two stores in lock-step *)

(** The two logs replay to related graphs (or both fail to replay, identically). *)
Definition Sim (T0 : gset string) (l l' : list event) : Prop :=
  res_rel T0 (replay_raw l) (replay_raw l').

Lemma replay_err_abort e c l x : replay_raw l = Err x -> run_txn e c l = (Abort, RNone).
Proof.
  intros Hr.
  destruct c as [is_epic title body epic u agent | i u agent | i agent | epic agent | link ids | yes agent | | p];
    cbn [run_txn]; unfold replay; rewrite Hr; try reflexivity.
  destruct (negb (plan_valid p)); reflexivity.
Qed.

Lemma sim_append T0 l l' g g' es :
  replay_raw l = Ok g -> replay_raw l' = Ok g' -> GSim T0 g g' -> Forall (ev_safe T0) es ->
  Sim T0 (l ++ es) (l' ++ es).
Proof.
  intros Hr Hr' HS Hsafe. unfold Sim.
  rewrite (replay_raw_app l es g Hr), (replay_raw_app l' es g' Hr').
  apply sim_replay_from; assumption.
Qed.

(** What the model's [compact] writes for a log. *)
Definition compact_log (l : list event) : list event := (exec (Env [] [] 0%Z 0%Z [] FMissing "" "" "") l CCompact).1.

Lemma compact_log_ok l g : replay_raw l = Ok g -> compact_log l = compact_events (finalize g).
Proof. intros Hr. unfold compact_log, exec. cbn [run_txn]. rewrite (replay_of_raw l g Hr). reflexivity. Qed.

Lemma exec_compact e l : (exec e l CCompact).1 = compact_log l.
Proof. unfold compact_log, exec. cbn [run_txn]. destruct (replay l); reflexivity. Qed.

(** One later command, any command but [compact]: same reply (success flag and
    payload), and the two stores stay related. *)
Theorem step_sim T0 e c l l' :
  Sim T0 l l' -> ids_hyp T0 e c -> c <> CCompact ->
  (exec e l' c).2 = (exec e l c).2 /\ Sim T0 (exec e l c).1 (exec e l' c).1.
Proof.
  unfold Sim at 1. intros HS Hids Hnc.
  destruct (replay_raw l) as [g|x] eqn:Hr, (replay_raw l') as [g'|x'] eqn:Hr'; cbn in HS; try contradiction.
  - pose proof (gsim_finalize T0 g g' HS) as HSf.
    destruct (run_txn_sim T0 e c l l' g g' Hr Hr' HSf Hids Hnc) as [Hrep Hdec].
    unfold exec.
    destruct (run_txn e c l) as [d r] eqn:Hrun, (run_txn e c l') as [d' r'] eqn:Hrun'.
    cbn [fst snd] in *. subst r'.
    destruct d as [|es|rl], d' as [|es'|rl']; cbn in Hdec; try contradiction; cbn [apply_decision is_abort negb].
    + split; [reflexivity|]. unfold Sim. rewrite Hr, Hr'. exact HS.
    + subst es'. split; [reflexivity|]. apply (sim_append T0 l l' g g' es Hr Hr' HS).
      (* the appended events are safe *)
      destruct c as [is_epic title body epic u agent | i u agent | i agent | epic agent | link ids | yes agent | | p];
        cbn [run_txn] in Hrun; rewrite ?(replay_of_raw l g Hr) in Hrun.
      * destruct (new_txn e is_epic title body epic u agent (finalize g)) as [[es0 r0]|] eqn:Hn; [|discriminate].
        injection Hrun as <- _. eapply new_txn_safe; [apply Hids; reflexivity|exact Hn].
      * destruct (upd_empty u); [discriminate|].
        destruct (set_txn e i u agent (finalize g)) as [es0|] eqn:Hs; [|discriminate].
        injection Hrun as <- _. apply set_txn_upds in Hs as (_ & _ & _ & Hu). eapply Forall_upd_safe, Hu.
      * destruct (String.eqb agent ""); [discriminate|].
        destruct (set_txn e i _ agent (finalize g)) as [es0|] eqn:Hs; [|discriminate].
        injection Hrun as <- _. apply set_txn_upds in Hs as (_ & _ & _ & Hu). eapply Forall_upd_safe, Hu.
      * destruct (String.eqb agent ""); [discriminate|].
        destruct (ready_tasks (finalize g) epic) as [|t rest]; injection Hrun as <- _; repeat constructor.
      * destruct (seq_edges ids) as [|ed eds]; [discriminate|].
        destruct (seq_txn link (finalize g) (ed :: eds)) as [es0|] eqn:Hs; [|discriminate].
        injection Hrun as <- _. eapply seq_txn_safe; [|exact Hs]. apply (gs_dead T0 _ _ HSf).
      * destruct yes; injection Hrun as <- _; [|constructor].
        apply Forall_fmap, Forall_forall. intros x _. exact I.
      * discriminate.
      * destruct (negb (plan_valid p)); [discriminate|].
        destruct (plan_txn e p l (finalize g)) as [[es0 r0]|]; discriminate.
    + destruct Hdec as (new & -> & ->). split; [reflexivity|].
      apply (sim_append T0 l l' g g' new Hr Hr' HS).
      destruct c as [is_epic title body epic u agent | i u agent | i agent | epic agent | link ids | yes agent | | p];
        cbn [run_txn] in Hrun; rewrite ?(replay_of_raw l g Hr) in Hrun.
      * destruct (new_txn e is_epic title body epic u agent (finalize g)) as [[es0 r0]|]; discriminate.
      * destruct (upd_empty u); [discriminate|]. destruct (set_txn e i u agent (finalize g)); discriminate.
      * destruct (String.eqb agent ""); [discriminate|]. destruct (set_txn e i _ agent (finalize g)); discriminate.
      * destruct (String.eqb agent ""); [discriminate|]. destruct (ready_tasks (finalize g) epic); discriminate.
      * destruct (seq_edges ids) as [|ed eds]; [discriminate|].
        destruct (seq_txn link (finalize g) (ed :: eds)); discriminate.
      * destruct yes; discriminate.
      * contradiction.
      * destruct (negb (plan_valid p)); [discriminate|]. rewrite plan_txn_new in Hrun.
        destruct (plan_new e p (finalize g)) as [[new0 r0]|] eqn:Hp; [|discriminate].
        injection Hrun as Hl _. apply app_inv_head in Hl. subst new0.
        eapply plan_new_safe; [apply Hids; reflexivity|exact Hp].
  - subst x'. unfold exec. rewrite (replay_err_abort e c l x Hr), (replay_err_abort e c l' x Hr').
    cbn. split; [reflexivity|]. unfold Sim. rewrite Hr, Hr'. reflexivity.
Qed.

(** * 7. Compaction establishes the relation *)

(** ** Compacting twice writes literally the same log *)

Lemma foldr_add_result_m rs t0 :
  m_title (foldr add_result t0 rs) = m_title t0 /\ m_body (foldr add_result t0 rs) = m_body t0
  /\ m_state (foldr add_result t0 rs) = m_state t0.
Proof. induction rs as [|r rs IH]; cbn; [repeat split; reflexivity|exact IH]. Qed.

Lemma rebuild_m_title t : m_title (rebuild t) = created_title t.
Proof.
  unfold rebuild. destruct (foldr_add_result_m (t_results t) (rebuild5 t)) as (-> & _ & _). unfold rebuild5.
  destruct (em_title t), (em_body t), (em_epic t), (em_state t), (em_claim t); reflexivity.
Qed.
Lemma rebuild_m_body t : m_body (rebuild t) = created_body t.
Proof.
  unfold rebuild. destruct (foldr_add_result_m (t_results t) (rebuild5 t)) as (_ & -> & _). unfold rebuild5.
  destruct (em_title t), (em_body t), (em_epic t), (em_state t), (em_claim t); reflexivity.
Qed.
Lemma rebuild_m_state t : m_state (rebuild t) = created_state t.
Proof.
  unfold rebuild. destruct (foldr_add_result_m (t_results t) (rebuild5 t)) as (_ & _ & ->). unfold rebuild5.
  destruct (em_title t), (em_body t), (em_epic t), (em_state t), (em_claim t); reflexivity.
Qed.

Lemma created_stable (m cur : string) :
  (if String.eqb (if String.eqb m "" then cur else m) "" then cur else (if String.eqb m "" then cur else m))
  = (if String.eqb m "" then cur else m).
Proof.
  destruct (String.eqb m "") eqn:E; [destruct (String.eqb cur ""); reflexivity|]. rewrite E. reflexivity.
Qed.

Lemma created_title_rebuild t : created_title (rebuild t) = created_title t.
Proof. unfold created_title at 1. rewrite rebuild_m_title, rebuild_title. apply created_stable. Qed.
Lemma created_body_rebuild t : created_body (rebuild t) = created_body t.
Proof. unfold created_body at 1. rewrite rebuild_m_body, rebuild_body. apply created_stable. Qed.
Lemma created_state_rebuild t : created_state (rebuild t) = created_state t.
Proof. unfold created_state at 1. rewrite rebuild_m_state, rebuild_state. apply created_stable. Qed.
Lemma created_at_rebuild t : created_at (rebuild t) = created_at t.
Proof.
  unfold created_at at 1. rewrite rebuild_m_created, rebuild_created.
  destruct (is_zero (created_at t)); reflexivity.
Qed.

Lemma touched_zero ca : touched zero_time ca = false.
Proof. reflexivity. Qed.

Lemma em_stable (A : bool) (last ca u : time) :
  (A || touched (if (A || touched last ca)%bool then pick_time last u else zero_time) ca)%bool
  = (A || touched last ca)%bool.
Proof.
  destruct A; [reflexivity|]. cbn. destruct (touched last ca) eqn:E; [|apply touched_zero].
  apply touched_true in E as [Hz Hlt]. rewrite (pick_time_nonzero last u Hz).
  apply touched_true. tauto.
Qed.

Lemma pick_time_idem a u : pick_time (pick_time a u) u = pick_time a u.
Proof. unfold pick_time. destruct (is_zero a) eqn:E; [destruct (is_zero u); reflexivity|rewrite E; reflexivity]. Qed.

Section rebuild_twice.
  Context (t : task) (H0 : task_wf0 t) (HU : task_wfu t).

  Lemma em_title_rebuild : em_title (rebuild t) = em_title t.
  Proof.
    unfold em_title at 1. rewrite rebuild_title, created_title_rebuild, rebuild_m_last_title, created_at_rebuild.
    unfold em_title, st_title. apply em_stable.
  Qed.
  Lemma em_body_rebuild : em_body (rebuild t) = em_body t.
  Proof.
    unfold em_body at 1. rewrite rebuild_body, created_body_rebuild, rebuild_m_last_body, created_at_rebuild.
    unfold em_body, st_body. apply em_stable.
  Qed.
  Lemma em_state_rebuild : em_state (rebuild t) = em_state t.
  Proof.
    unfold em_state at 1. rewrite rebuild_state, created_state_rebuild, rebuild_m_last_state, created_at_rebuild.
    unfold em_state, st_state. apply em_stable.
  Qed.
  Lemma em_epic_rebuild : em_epic (rebuild t) = em_epic t.
  Proof.
    unfold em_epic at 1.
    rewrite rebuild_is_epic, (rebuild_epic t (wf_epic t H0)), rebuild_m_epic, rebuild_m_last_epic, created_at_rebuild.
    unfold em_epic, st_epic. destruct (t_is_epic t); [reflexivity|]. cbn. apply em_stable.
  Qed.
  Lemma em_claim_rebuild : em_claim (rebuild t) = em_claim t.
  Proof. unfold em_claim. rewrite rebuild_claimed. reflexivity. Qed.

  Lemma st_title_rebuild : em_title t = true -> st_title (rebuild t) = st_title t.
  Proof.
    intros He. unfold st_title at 1. rewrite rebuild_m_last_title, He, (rebuild_updated t H0 HU).
    apply pick_time_idem.
  Qed.
  Lemma st_body_rebuild : em_body t = true -> st_body (rebuild t) = st_body t.
  Proof.
    intros He. unfold st_body at 1. rewrite rebuild_m_last_body, He, (rebuild_updated t H0 HU).
    apply pick_time_idem.
  Qed.
  Lemma st_state_rebuild : em_state t = true -> st_state (rebuild t) = st_state t.
  Proof.
    intros He. unfold st_state at 1. rewrite rebuild_m_last_state, He, (rebuild_updated t H0 HU).
    apply pick_time_idem.
  Qed.
  Lemma st_epic_rebuild : em_epic t = true -> st_epic (rebuild t) = st_epic t.
  Proof.
    intros He. unfold st_epic at 1. rewrite rebuild_m_last_epic, He, (rebuild_updated t H0 HU).
    apply pick_time_idem.
  Qed.
  Lemma st_claim_rebuild : em_claim t = true -> st_claim (rebuild t) = st_claim t.
  Proof.
    intros He. unfold st_claim at 1. rewrite rebuild_m_last_claim, He, (rebuild_updated t H0 HU).
    apply pick_time_idem.
  Qed.

  Lemma compact_task_rebuild : compact_task (rebuild t) = compact_task t.
  Proof.
    rewrite !compact_task_eq. unfold block_tail.
    rewrite rebuild_is_epic, rebuild_id, rebuild_uuid, rebuild_m_epic, created_state_rebuild,
      created_title_rebuild, created_body_rebuild, created_at_rebuild, rebuild_title, rebuild_body,
      (rebuild_epic t (wf_epic t H0)), rebuild_state, rebuild_claimed, rebuild_results,
      em_title_rebuild, em_body_rebuild, em_epic_rebuild, em_state_rebuild, em_claim_rebuild.
    f_equal. unfold opt_ev.
    f_equal; [destruct (em_title t) eqn:E; [rewrite (st_title_rebuild E)|]; reflexivity|].
    f_equal; [destruct (em_body t) eqn:E; [rewrite (st_body_rebuild E)|]; reflexivity|].
    f_equal; [destruct (em_epic t) eqn:E; [rewrite (st_epic_rebuild E)|]; reflexivity|].
    f_equal; [destruct (em_state t) eqn:E; [rewrite (st_state_rebuild E)|]; reflexivity|].
    f_equal. destruct (em_claim t) eqn:E; [rewrite (st_claim_rebuild E)|]; reflexivity.
  Qed.
End rebuild_twice.

Theorem compact_events_idem g :
  graph_wf g -> compact_events (finalize (compact_graph g)) = compact_events (finalize g).
Proof.
  intros Hw. unfold compact_events. f_equal.
  rewrite (sorted_tasks_sim (finalize g) (finalize (compact_graph g)) rebuild (finalize_compact_graph_tasks g)).
  f_equal. rewrite <- list_fmap_compose. apply list_fmap_ext. intros i tf Hl. cbn.
  apply elem_of_list_lookup_2 in Hl. unfold sorted_tasks in Hl. rewrite merge_sort_Permutation in Hl.
  apply elem_of_list_fmap in Hl as ([k tf'] & -> & Hin). apply elem_of_map_to_list in Hin. cbn.
  apply CompactProof.finalize_lookup in Hin as (t0 & Hl0 & ->).
  destruct (Hw k t0 Hl0) as (_ & Hw0 & HwU).
  apply compact_task_rebuild; [apply task_wf0_migrate, Hw0|apply task_wfu_migrate, HwU].
Qed.

(** ** The relation right after a compaction *)

Lemma tombs_dead_of_inv g : Inv g -> forall i, i ∈ g_tombs g -> g_tasks g !! i = None.
Proof. intros HI. apply (inv_tombs g HI). Qed.

(** The graphs the next command sees ([replay] = finalized): related without
    any hypothesis on titles. *)
Lemma gsim_compact_finalized g :
  graph_wf g -> (forall i, i ∈ g_tombs g -> g_tasks g !! i = None) ->
  GSim (g_tombs g) (finalize g) (finalize (compact_graph g)).
Proof.
  intros Hw Hdead. split.
  - intros i. rewrite (finalize_compact_graph_tasks g), lookup_fmap.
    destruct (g_tasks (finalize g) !! i) as [tf|] eqn:El; [|reflexivity]. cbn. f_equal.
    apply CompactProof.finalize_lookup in El as (t0 & Hl0 & ->).
    destruct (Hw i t0 Hl0) as (_ & Hw0 & HwU). symmetry.
    apply task_view_rebuild; [apply task_wf0_migrate, Hw0|apply task_wfu_migrate, HwU].
  - reflexivity.
  - cbn. set_solver.
  - cbn. set_solver.
  - intros i Hi. rewrite Invariants.finalize_lookup, (Hdead i Hi). reflexivity.
  - apply ids_ok_finalize, graph_wf0_ids, graph_wf_wf0, Hw.
Qed.

(** Every live item carries a non-blank title: true of every store written
    through the CLI's input layer (see [ReachC] below); false for legacy stores,
    where replay derives the title from the body. *)
Definition titled (g : graph) : Prop := graph_all (fun t => is_blank (t_title t) = false) g.

(** The raw graphs: related when no item is legacy-untitled. *)
Lemma gsim_compact_raw g :
  graph_wf g -> (forall i, i ∈ g_tombs g -> g_tasks g !! i = None) -> titled g ->
  GSim (g_tombs g) g (compact_graph g).
Proof.
  intros Hw Hdead Hti. split.
  - intros i. rewrite compact_graph_lookup.
    destruct (g_tasks g !! i) as [t|] eqn:El; [|reflexivity]. cbn. f_equal.
    destruct (Hw i t El) as (_ & Hw0 & HwU). destruct (Hti i t El) as [_ Hnb].
    rewrite (migrate_nonblank t Hnb). symmetry. apply task_view_rebuild; assumption.
  - reflexivity.
  - cbn. set_solver.
  - cbn. set_solver.
  - exact Hdead.
  - apply graph_wf0_ids, graph_wf_wf0, Hw.
Qed.

(** A later compaction, performed on both sides. *)
Lemma gsim_compact_both T0 g g' :
  GSim T0 g g' -> graph_wf g -> graph_wf g' -> GSim T0 (compact_graph g) (compact_graph g').
Proof.
  intros HS Hw Hw'. split.
  - intros i. rewrite !compact_graph_lookup.
    destruct (g_tasks g !! i) as [t|] eqn:El.
    + destruct (gsim_some T0 g g' HS i t El) as (t' & El' & Hv). rewrite El'. cbn. f_equal.
      destruct (Hw i t El) as (_ & Hw0 & HwU). destruct (Hw' i t' El') as (_ & Hw0' & HwU').
      rewrite (task_view_rebuild (migrate t)), (task_view_rebuild (migrate t'));
        [apply tv_migrate, Hv|apply task_wf0_migrate, Hw0'|apply task_wfu_migrate, HwU'
        |apply task_wf0_migrate, Hw0|apply task_wfu_migrate, HwU].
    + apply (gsim_none T0 g g' HS i) in El. rewrite El. reflexivity.
  - cbn. apply (gs_deps T0 g g' HS).
  - cbn. set_solver.
  - cbn. set_solver.
  - intros i Hi. rewrite compact_graph_lookup, (gs_dead T0 g g' HS i Hi). reflexivity.
  - apply graph_wf0_ids, graph_wf_wf0, compact_graph_wf, Hw.
Qed.

Lemma replay_compact_graph g : graph_wf g -> replay_raw (compact_events (finalize g)) = Ok (compact_graph g).
Proof. intros Hw. apply replay_compact_events, ids_ok_finalize, graph_wf0_ids, graph_wf_wf0, Hw. Qed.

(** * 8. The first command after a compaction *)

Lemma cmd_eq_compact c : c = CCompact \/ c <> CCompact.
Proof. destruct c; (left; reflexivity) || (right; discriminate). Qed.

Lemma not_replace e c l :
  (forall p, c <> CPlan p) -> c <> CCompact -> forall rl, (run_txn e c l).1 <> Replace rl.
Proof.
  intros Hnp Hnc rl.
  destruct c as [is_epic title body epic u agent | i u agent | i agent | epic agent | link ids | yes agent | | p];
    cbn [run_txn]; try contradiction; try (exfalso; apply (Hnp p); reflexivity);
    (destruct (replay l) as [g|x]; [|cbn; discriminate]).
  - destruct (new_txn e is_epic title body epic u agent g) as [[es r]|]; cbn; discriminate.
  - destruct (upd_empty u); [cbn; discriminate|]. destruct (set_txn e i u agent g); cbn; discriminate.
  - destruct (String.eqb agent ""); [cbn; discriminate|]. destruct (set_txn e i _ agent g); cbn; discriminate.
  - destruct (String.eqb agent ""); [cbn; discriminate|]. destruct (ready_tasks g epic); cbn; discriminate.
  - destruct (seq_edges ids) as [|ed eds]; [cbn; discriminate|].
    destruct (seq_txn link g (ed :: eds)); cbn; discriminate.
  - destruct yes; cbn; discriminate.
Qed.

(** For EVERY history the CLI can produce under a monotone clock ([ReachM]),
    [log'] the log [compact] writes for it, EVERY environment and EVERY command
    whose candidate ids (if it draws any) avoid the ids pruned before the
    compaction:
    - the reply (success flag and payload) is the same;
    - [compact] again: [Replace] with literally the same log (idempotence at the
      level of the written bytes, stronger than [C05_idempotent]);
    - [plan]: both abort, or [Replace (log ++ new)] / [Replace (log' ++ new)]
      with the SAME [new] (plan rewrites the whole file, so the two replacement
      logs differ exactly by the compaction of their common prefix);
    - every other command: literally the same decision ([Abort], or [Append] of
      the same events). *)
Theorem after_compact_same_decision log g e c :
  ReachM log -> replay_raw log = Ok g -> ids_hyp (g_tombs g) e c ->
  let log' := compact_events (finalize g) in
  (run_txn e c log').2 = (run_txn e c log).2 /\
  match c with
  | CPlan _ => dec_rel log log' (run_txn e c log).1 (run_txn e c log').1
  | _ => (run_txn e c log').1 = (run_txn e c log).1
  end.
Proof.
  intros HR Hr Hids log'.
  pose proof (reachm_graph_wf log g HR Hr) as Hw.
  destruct (reach_good log (reachm_reach log HR)) as (g0 & Hr0 & HI & _).
  rewrite Hr in Hr0. injection Hr0 as <-.
  pose proof (replay_compact_graph g Hw) as Hr'. fold log' in Hr'.
  pose proof (gsim_compact_finalized g Hw (tombs_dead_of_inv g HI)) as HS.
  destruct (cmd_eq_compact c) as [->|Hnc].
  - cbn [run_txn]. rewrite (replay_of_raw log g Hr), (replay_of_raw log' _ Hr'). cbn.
    split; [reflexivity|]. f_equal. apply compact_events_idem, Hw.
  - destruct (run_txn_sim (g_tombs g) e c log log' g (compact_graph g) Hr Hr' HS Hids Hnc) as [Hrep Hdec].
    split; [exact Hrep|].
    destruct c as [is_epic title body epic u agent | i u agent | i agent | epic agent | link ids | yes agent | | p];
      try exact Hdec; try contradiction;
      (destruct (run_txn e _ log).1 as [|es|rl] eqn:Hd, (run_txn e _ log').1 as [|es'|rl'] eqn:Hd';
       cbn in Hdec; try contradiction; [reflexivity|subst; reflexivity|];
       exfalso; eapply (not_replace e _ log); [| |exact Hd]; intros; discriminate).
Qed.

(** * 9. Stores written through the input layer have no untitled item

    [Reach] / [ReachM] accept any [cmd] as a request, including a raw
    [CNew] with a blank title, which the CLI's input layer ([normalize]) never
    produces.  [ReachC] is [ReachM] restricted to requests whose raw [CNew]
    (if any) carries a non-blank title; every [QNew] / [QSet] request is
    accepted. *)

Definition ev_titled (e : event) : Prop :=
  match e with
  | ENew _ _ _ _ _ ti _ _ | ETitle _ ti _ => is_blank ti = false
  | _ => True
  end.

Lemma titled_step g e g' : titled g -> ev_titled e -> apply_event g e = Ok g' -> titled g'.
Proof.
  apply (graph_all_step (fun t => is_blank (t_title t) = false) (fun _ e => ev_titled e)); cbn; auto.
Qed.

Lemma titled_replay es g g' :
  titled g -> Forall ev_titled es -> replay_from g es = Ok g' -> titled g'.
Proof.
  intros Ht Hall Hr.
  eapply (stamps_from_inv (fun _ e => ev_titled e) titled titled_step es g g' Ht
            (stamps_from_Forall _ _ _ Hall) Hr).
Qed.

Lemma trim_nonempty_nonblank s : String.eqb (trim_space s) "" = false -> is_blank (trim_space s) = false.
Proof.
  intros H. rewrite is_blank_trim_space. unfold is_blank.
  destruct (trim_space s); [discriminate|reflexivity].
Qed.

Lemma is_upd_not_title_titled i e : is_upd i e -> (forall j ti a, e <> ETitle j ti a) -> ev_titled e.
Proof.
  destruct e as [| j s [ts|] | j a [ts|] | j | | | j ti [ts|] | j b [ts|] | j ep [ts|] | | j su pa sha mt gi [ts|] | |];
    cbn; try tauto. intros _ H. exfalso. eapply H. reflexivity.
Qed.

Lemma build_set_events_titled i t u agent now evs :
  build_set_events i t u agent now = Some evs -> Forall ev_titled evs.
Proof.
  unfold build_set_events. intros H.
  set (claim0 := match u_claim u with Some c => Some (Some c) | None => _ end) in H.
  destruct claim0 as [claim|] eqn:Hclaim0; [|discriminate].
  destruct (match u_title u with Some ti => _ | None => Some [] end) as [ev_title|] eqn:Htitle; [|discriminate].
  destruct (match u_epic u with Some e => _ | None => Some [] end) as [ev_epic|] eqn:Hepic; [|discriminate].
  set (ev_body := match u_body u with Some b => [EBody i b (Some now)] | None => [] end) in H.
  set (claim_set := (is_some claim && negb (t_is_epic t))%bool) in H.
  set (claim_val := opt_default "" claim) in H.
  set (ev_claim := if claim_set then _ else []) in H.
  set (P := ev_titled).
  assert (Ht : Forall P ev_title).
  { destruct (u_title u) as [ti|]; [|injection Htitle as <-; constructor].
    destruct (String.eqb (trim_space ti) "") eqn:E; [discriminate|]. injection Htitle as <-.
    repeat constructor. apply trim_nonempty_nonblank, E. }
  assert (Hb : Forall P ev_body).
  { subst ev_body. destruct (u_body u); repeat constructor. }
  assert (He : Forall P ev_epic).
  { destruct (u_epic u) as [e|]; [|injection Hepic as <-; constructor].
    destruct (t_is_epic t); [discriminate|]. injection Hepic as <-. repeat constructor. }
  assert (Hc : Forall P ev_claim).
  { subst ev_claim. destruct claim_set; [|constructor].
    destruct (String.eqb claim_val ""); repeat constructor. }
  assert (Hpre : forall tail, Forall P tail -> Forall P (ev_title ++ ev_body ++ ev_epic ++ ev_claim ++ tail)).
  { intros tail Htl. repeat (apply Forall_app; split); assumption. }
  assert (Hpre0 : Forall P (ev_title ++ ev_body ++ ev_epic ++ ev_claim)).
  { rewrite <- (app_nil_r ev_claim). apply Hpre. constructor. }
  destruct (u_state u) as [s|].
  - destruct (negb (valid_state s)); [discriminate|].
    destruct (negb (validate_transition (t_state t) s)); [discriminate|].
    destruct (negb (validate_claim_invariant s _)); [discriminate|]. injection H as <-.
    apply Hpre. repeat constructor.
  - destruct (claim_set && negb (String.eqb claim_val ""))%bool.
    + destruct (validate_transition (t_state t) "doing"); [|discriminate]. injection H as <-.
      apply Hpre. repeat constructor.
    + destruct (claim_set && String.eqb claim_val "")%bool.
      * destruct (validate_claim_invariant (t_state t) ""); [|discriminate]. injection H as <-. exact Hpre0.
      * injection H as <-. exact Hpre0.
Qed.

Lemma result_event_titled e g i s p ev : build_result_event e g i s p = Some ev -> ev_titled ev.
Proof.
  unfold build_result_event. destruct (tombed g i); [discriminate|].
  destruct (g_tasks g !! i) as [t|]; [|discriminate]. destruct (t_is_epic t); [discriminate|].
  destruct (valid_summary s); [|discriminate]. destruct (lexical_result_path p); [|discriminate].
  destruct (e_fkind e); try discriminate. intros [= <-]. exact I.
Qed.

Lemma set_txn_titled e i u agent g evs : set_txn e i u agent g = Some evs -> Forall ev_titled evs.
Proof.
  rewrite set_txn_eq.
  destruct (result_req u) as [rq|]; [|discriminate].
  set (R := match rq with Some (p, s) => _ | None => Some [] end).
  destruct R as [ev_res|] eqn:HR; [|discriminate].
  assert (Hres : Forall ev_titled ev_res).
  { subst R. destruct rq as [[p s]|]; [|injection HR as <-; constructor].
    destruct (build_result_event e g i s p) as [ev|] eqn:Hb; [|discriminate].
    injection HR as <-. repeat constructor. eapply result_event_titled, Hb. }
  destruct (is_some rq && upd_nonresult_empty u)%bool; [intros [= <-]; exact Hres|].
  unfold set_core. destruct (tombed g i); [discriminate|].
  destruct (g_tasks g !! i) as [t|]; [|discriminate].
  destruct (t_is_epic t && _)%bool; [discriminate|]. cbv zeta.
  destruct (negb _); [discriminate|].
  destruct (build_set_events i t u agent (e_now e)) as [sevs|] eqn:Hb; [|discriminate].
  intros [= <-]. apply Forall_app. split; [exact Hres|]. eapply build_set_events_titled, Hb.
Qed.

Lemma new_txn_titled e k title body epic u agent g evs r :
  is_blank title = false -> new_txn e k title body epic u agent g = Some (evs, r) -> Forall ev_titled evs.
Proof.
  intros Hti. unfold new_txn.
  set (u' := Upd None None None (u_state u) (u_claim u) (u_rpath u) (u_rsum u)).
  destruct (negb _); [discriminate|].
  destruct (pick_id (e_ids e) (taken_in g [])) as [[i rest]|]; [|discriminate].
  destruct (k || upd_empty u')%bool; [intros [= <- _]; repeat constructor; exact Hti|].
  destruct (result_req u') as [rq|]; [|discriminate].
  set (R := match rq with Some (p, s) => _ | None => Some [] end).
  destruct R as [ev_res|] eqn:HR; [|discriminate].
  assert (Hres : Forall ev_titled ev_res).
  { subst R. destruct rq as [[p s]|]; [|injection HR as <-; constructor].
    match type of HR with context [build_result_event ?a ?b ?c ?d ?f] =>
      destruct (build_result_event a b c d f) as [ev|] eqn:Hb; [|discriminate] end.
    injection HR as <-. repeat constructor. eapply result_event_titled, Hb. }
  destruct (upd_nonresult_empty u').
  - intros [= <- _]. constructor; [exact Hti|exact Hres].
  - match goal with |- context [build_set_events ?a ?b ?c ?d ?f] =>
      destruct (build_set_events a b c d f) as [sevs|] eqn:Hb; [|discriminate] end.
    intros [= <- _]. constructor; [exact Hti|]. apply Forall_app. split; [exact Hres|].
    eapply build_set_events_titled, Hb.
Qed.

Lemma seq_txn_titled link edges : forall g evs, seq_txn link g edges = Some evs -> Forall ev_titled evs.
Proof.
  induction edges as [|[a b] es IH]; intros g evs; cbn [seq_txn]; [intros [= <-]; constructor|].
  destruct (link_ok link g a b); [|discriminate].
  match goal with |- context [seq_txn link ?g' es] => destruct (seq_txn link g' es) as [evs'|] eqn:Hs; [|discriminate] end.
  intros [= <-]. constructor; [destruct link; exact I|]. eapply IH, Hs.
Qed.

Lemma plan_new_titled e p g new r : plan_new e p g = Some (new, r) -> Forall ev_titled new.
Proof.
  unfold plan_new. destruct (plan_valid p) eqn:Hv; [|discriminate]. cbn [negb]. cbv zeta.
  destruct (plan_ids _ _ _ _) as [[|eid tids]|]; try discriminate.
  destruct (plan_links _ _) as [links|] eqn:Hl; [|discriminate].
  intros [= <- _]. apply plan_valid_spec in Hv as (Hv1 & _ & _ & Hv4 & _).
  constructor; [exact Hv1|]. apply Forall_app. split.
  - apply Forall_forall. intros x Hx.
    apply elem_of_list_In, elem_of_lookup_imap in Hx as (k & [t i] & -> & Hz).
    apply lookup_zip_with_Some in Hz as (? & ? & [= <- <-] & Hpt & _).
    cbn. destruct (Hv4 t) as [Hnb _]; [eapply elem_of_list_lookup_2, Hpt|exact Hnb].
  - apply plan_links_spec in Hl as [-> _]. apply Forall_fmap, Forall_forall. intros x _. exact I.
Qed.

Definition cmd_titled (c : cmd) : Prop :=
  match c with CNew _ title _ _ _ _ => is_blank title = false | _ => True end.

Lemma compact_graph_titled g : ids_ok g -> titled (compact_graph g).
Proof.
  intros Hid k t. rewrite compact_graph_lookup. destruct (g_tasks g !! k) as [t0|] eqn:El; [|discriminate].
  intros [= <-]. split.
  - rewrite rebuild_id. destruct (CompactCore.migrate_fields t0) as (-> & _). apply (Hid k t0 El).
  - rewrite rebuild_title. apply migrate_title_nonblank.
Qed.

Theorem step_titled e c log :
  Good log -> (forall g, replay_raw log = Ok g -> titled g) -> cmd_titled c ->
  forall g', replay_raw (exec e log c).1 = Ok g' -> titled g'.
Proof.
  intros (g & Hr & HI & HA) IH Hc.
  pose proof (IH g Hr) as Ht.
  unfold exec. destruct (run_txn e c log) as [d r] eqn:Hrun. cbn [fst].
  assert (Hgen : forall es g', Forall ev_titled es -> replay_raw (log ++ es) = Ok g' -> titled g').
  { intros es g' Hall. rewrite (replay_raw_app log es g Hr). apply titled_replay; assumption. }
  destruct c as [is_epic title body epic u agent | i u agent | i agent | epic agent | link ids | yes agent | | p];
    cbn [run_txn] in Hrun; rewrite ?(replay_of_raw log g Hr) in Hrun.
  - destruct (new_txn e is_epic title body epic u agent (finalize g)) as [[es r']|] eqn:Hn;
      injection Hrun as <- <-; cbn [apply_decision]; [|exact IH].
    intros g'. apply Hgen. eapply new_txn_titled; [exact Hc|exact Hn].
  - destruct (upd_empty u); [injection Hrun as <- <-; exact IH|].
    destruct (set_txn e i u agent (finalize g)) as [es|] eqn:Hs; injection Hrun as <- <-; cbn [apply_decision]; [|exact IH].
    intros g'. apply Hgen. eapply set_txn_titled, Hs.
  - destruct (String.eqb agent ""); [injection Hrun as <- <-; exact IH|].
    destruct (set_txn e i _ agent (finalize g)) as [es|] eqn:Hs; injection Hrun as <- <-; cbn [apply_decision]; [|exact IH].
    intros g'. apply Hgen. eapply set_txn_titled, Hs.
  - destruct (String.eqb agent ""); [injection Hrun as <- <-; exact IH|].
    destruct (ready_tasks (finalize g) epic) as [|t rest]; injection Hrun as <- <-; cbn [apply_decision].
    + rewrite app_nil_r. exact IH.
    + intros g'. apply Hgen. repeat constructor.
  - destruct (seq_edges ids) as [|ed eds]; [injection Hrun as <- <-; exact IH|].
    destruct (seq_txn link (finalize g) (ed :: eds)) as [es|] eqn:Hs; injection Hrun as <- <-; cbn [apply_decision]; [|exact IH].
    intros g'. apply Hgen. eapply seq_txn_titled, Hs.
  - destruct yes; injection Hrun as <- <-; cbn [apply_decision]; [|rewrite app_nil_r; exact IH].
    intros g'. apply Hgen. apply Forall_fmap, Forall_forall. intros x _. exact I.
  - injection Hrun as <- <-. cbn [apply_decision].
    assert (Hid : ids_ok g) by (intros k t Hl; apply (inv_key g HI k t Hl)).
    intros g'. rewrite (replay_compact_events (finalize g) (ids_ok_finalize g Hid)). intros [= <-].
    apply compact_graph_titled, Hid.
  - destruct (plan_valid p); cbn [negb] in Hrun; [|injection Hrun as <- <-; exact IH].
    rewrite plan_txn_new in Hrun.
    destruct (plan_new e p (finalize g)) as [[new r']|] eqn:Hp; injection Hrun as <- <-; cbn [apply_decision]; [|exact IH].
    intros g'. apply Hgen. eapply plan_new_titled, Hp.
Qed.

(** The raw requests of the input layer. *)
Definition req_titled (q : request) : Prop :=
  match q with QCmd c => cmd_titled c | _ => True end.

Lemma normalize_titled q c : req_titled q -> normalize q = Some c -> cmd_titled c.
Proof.
  destruct q as [is_epic m r agent | i m r agent | c0 |]; cbn [normalize req_titled].
  - intros _. destruct m.
    + destruct (json_valid true is_epic r) eqn:Hv; [|discriminate]. cbn [negb].
      assert (Hti : is_blank (opt_default "" (w_title r)) = false).
      { unfold json_valid in Hv. repeat (apply andb_prop in Hv as [Hv ?]).
        destruct (w_title r) as [ti|]; [|discriminate]. cbn. apply negb_true_iff, Hv. }
      destruct is_epic; intros [= <-]; exact Hti.
    + destruct (negb _); [discriminate|].
      destruct (w_title r) as [ti|]; cbn [nonblank_trim]; [|discriminate].
      destruct (String.eqb (trim_space ti) "") eqn:E; [discriminate|].
      destruct is_epic; intros [= <-]; apply trim_nonempty_nonblank, E.
    + destruct (w_title r) as [ti|]; cbn [nonblank_trim]; [|discriminate].
      destruct (String.eqb (trim_space ti) "") eqn:E; [discriminate|].
      destruct is_epic; intros [= <-]; apply trim_nonempty_nonblank, E.
  - intros _. destruct m.
    + destruct (negb _); [discriminate|]. destruct (upd_empty _); [discriminate|]. intros [= <-]. exact I.
    + destruct (upd_empty _); [discriminate|]. intros [= <-]. exact I.
    + destruct (w_body r) as [b|]; [|discriminate]. destruct (is_blank b); [discriminate|]. intros [= <-]. exact I.
  - intros Hc [= <-]. exact Hc.
  - discriminate.
Qed.

Inductive ReachC : list event -> Prop :=
| reachc_init : ReachC []
| reachc_step log e q : ReachC log -> clock_ok e log -> req_titled q -> ReachC (exec_req e log q).1.

Lemma reachc_reachm log : ReachC log -> ReachM log.
Proof. induction 1; [apply reachm_init|apply reachm_step; assumption]. Qed.

Theorem reachc_titled log g : ReachC log -> replay_raw log = Ok g -> titled g.
Proof.
  intros H. revert g. induction H as [|log e q HR IH Hc Hq]; intros g.
  - cbn. intros [= <-]. apply graph_all_empty.
  - unfold exec_req. destruct (normalize q) as [c|] eqn:Hn; [|apply IH].
    apply step_titled; [apply reach_good, reachm_reach, reachc_reachm, HR|exact IH|].
    eapply normalize_titled; eassumption.
Qed.

(** * 10. Any sequence of later commands *)

Lemma sim_obs T0 l l' : Sim T0 l l' -> obs_of l' = obs_of l.
Proof.
  unfold Sim, obs_of. destruct (replay_raw l) as [g|x], (replay_raw l') as [g'|x']; cbn; try contradiction.
  - intros HS. f_equal. apply (gsim_obs T0 _ _ (gsim_finalize T0 g g' HS)).
  - reflexivity.
Qed.

(** Also the prune selection (what [prune] would remove next). *)
Lemma sim_prune_targets T0 l l' g g' :
  Sim T0 l l' -> replay_raw l = Ok g -> replay_raw l' = Ok g' ->
  prune_targets (finalize g') = prune_targets (finalize g).
Proof.
  unfold Sim. intros HS Hr Hr'. rewrite Hr, Hr' in HS. cbn in HS.
  apply (gsim_prune_targets T0 _ _ (gsim_finalize T0 g g' HS)).
Qed.

Definition step := (env * cmd)%type.

Fixpoint run_cmds (l : list event) (ss : list step) : list event :=
  match ss with
  | [] => l
  | (e, c) :: rest => run_cmds (exec e l c).1 rest
  end.

(** What an observer records along a run: per command its reply (success flag
    and payload) and everything a reader sees of the store afterwards. *)
Fixpoint trace (l : list event) (ss : list step) : list ((bool * reply) * option (list otask * list string)) :=
  match ss with
  | [] => []
  | (e, c) :: rest => ((exec e l c).2, obs_of (exec e l c).1) :: trace (exec e l c).1 rest
  end.

(** ** Without a further compaction: no clock hypothesis at all *)
Theorem later_commands_no_compact T0 ss : forall l l',
  Sim T0 l l' ->
  Forall (fun s : step => ids_hyp T0 s.1 s.2 /\ s.2 <> CCompact) ss ->
  trace l' ss = trace l ss /\ Sim T0 (run_cmds l ss) (run_cmds l' ss).
Proof.
  induction ss as [|[e c] rest IH]; intros l l' HS Hall; [split; [reflexivity|exact HS]|].
  apply Forall_cons_1 in Hall as [[Hids Hnc] Hall]. cbn [fst snd] in Hids, Hnc.
  destruct (step_sim T0 e c l l' HS Hids Hnc) as [Hrep HS1].
  destruct (IH _ _ HS1 Hall) as [Htr HSn].
  cbn [trace run_cmds]. rewrite Hrep, (sim_obs T0 _ _ HS1), Htr. split; [reflexivity|exact HSn].
Qed.

(** ** With further compactions: the clock must stay monotone *)

(** The stamp invariant behind [C05_every_cli_history], as a property of a log. *)
Definition WF (l : list event) : Prop :=
  Good l /\ forall g, replay_raw l = Ok g -> graph_wf g.

Lemma wf_step e c l : WF l -> clock_ok e l -> WF (exec e l c).1.
Proof.
  intros [HG Hw] Hc. destruct (clock_ok_now e l Hc) as [Hz Hle]. split.
  - apply step_good, HG.
  - apply step_graph_wf; assumption.
Qed.

Lemma reachm_wf l : ReachM l -> WF l.
Proof.
  intros HR. split; [apply reach_good, reachm_reach, HR|]. intros g. apply reachm_graph_wf, HR.
Qed.

Lemma sim_compact T0 l l' : Sim T0 l l' -> WF l -> WF l' -> Sim T0 (compact_log l) (compact_log l').
Proof.
  intros HS [(g & Hr & _) Hw] [(g' & Hr' & _) Hw']. unfold Sim in *.
  rewrite Hr, Hr' in HS. cbn in HS.
  rewrite (compact_log_ok l g Hr), (compact_log_ok l' g' Hr').
  rewrite (replay_compact_graph g (Hw g Hr)), (replay_compact_graph g' (Hw' g' Hr')). cbn.
  apply gsim_compact_both; [exact HS|apply Hw, Hr|apply Hw', Hr'].
Qed.

Lemma exec_compact_reply e l g : replay_raw l = Ok g -> (exec e l CCompact).2 = (true, RNone).
Proof. intros Hr. unfold exec. cbn [run_txn]. rewrite (replay_of_raw l g Hr). reflexivity. Qed.

(** One later command, [compact] included. *)
Theorem step_sim_wf T0 e c l l' :
  Sim T0 l l' -> WF l -> WF l' -> ids_hyp T0 e c -> clock_ok e l -> clock_ok e l' ->
  (exec e l' c).2 = (exec e l c).2 /\
  Sim T0 (exec e l c).1 (exec e l' c).1 /\ WF (exec e l c).1 /\ WF (exec e l' c).1.
Proof.
  intros HS HW HW' Hids Hc Hc'.
  assert (Hwf : WF (exec e l c).1 /\ WF (exec e l' c).1) by (split; apply wf_step; assumption).
  destruct (cmd_eq_compact c) as [->|Hnc].
  - destruct HW as [(g & Hr & HG) Hw]. destruct HW' as [(g' & Hr' & HG') Hw'].
    rewrite (exec_compact_reply e l g Hr), (exec_compact_reply e l' g' Hr').
    split; [reflexivity|]. split; [|exact Hwf]. rewrite !exec_compact.
    apply sim_compact; [exact HS|split; [exists g; tauto|exact Hw]|split; [exists g'; tauto|exact Hw']].
  - destruct (step_sim T0 e c l l' HS Hids Hnc) as [Hrep HS1]. tauto.
Qed.

(** * 10b. The compacted run needs no clock hypothesis of its own

    Every stamp the compacted log carries is bounded by the stamps of the
    uncompacted one, so a clock that is monotone along the uncompacted run is
    monotone along the compacted run too. *)

Definition stamps_le (r : time) (l : list event) : Prop := Forall (fun s => (s <= r)%Z) (stamps_of l).
Definition Bnd (l l' : list event) : Prop := forall r, stamps_le r l -> stamps_le r l'.

Lemma stamps_of_app a b : stamps_of (a ++ b) = stamps_of a ++ stamps_of b.
Proof. apply omap_app. Qed.

Lemma stamp_le_stamps r l : Forall (stamp_le r) l -> stamps_le r l.
Proof.
  unfold stamps_le, stamps_of, stamp_le. induction 1 as [|e l He _ IH]; cbn; [constructor|].
  destruct (ev_stamp e) as [ts|]; [constructor; assumption|exact IH].
Qed.

Lemma bnd_refl l : Bnd l l.
Proof. intros r H. exact H. Qed.

Lemma bnd_app l l' es : Bnd l l' -> Bnd (l ++ es) (l' ++ es).
Proof.
  intros HB r. unfold stamps_le. rewrite !stamps_of_app, !Forall_app. intros [H1 H2].
  split; [apply HB, H1|exact H2].
Qed.

(** The claim stamp a reader sees is a stamp of the log. *)
Definition claimat_le (r : time) (t : task) : Prop := forall s, claimed_at t = Some s -> (s <= r)%Z.

Lemma claimat_step r g e g' :
  graph_all (claimat_le r) g -> stamp_le r e -> apply_event g e = Ok g' -> graph_all (claimat_le r) g'.
Proof.
  apply (graph_all_step (claimat_le r) (fun _ e => stamp_le r e)); unfold claimat_le, stamp_le, claimed_at; cbn.
  - intros _ _ _ _ _ _ _ _ _ _ s H. discriminate.
  - intros t _ s H. discriminate.
  - intros _ _ st ts t _ _ Ht s. destruct (clears_claim st); cbn; [discriminate|apply Ht].
  - intros _ _ ag ts t Hle _ _ s. destruct (_ || _)%bool; [discriminate|]. intros [= <-]. exact Hle.
  - intros _ _ _ _ t _ _ Ht. exact Ht.
  - intros _ _ _ _ t _ _ Ht. exact Ht.
  - intros _ _ _ _ t _ _ Ht. exact Ht.
  - intros _ _ _ _ _ _ _ _ t _ _ Ht. exact Ht.
Qed.

Lemma claimat_replay r log g :
  stamps_le r log -> replay_raw log = Ok g -> graph_all (claimat_le r) g.
Proof.
  intros Hs Hr. apply stamps_of_le in Hs.
  eapply (stamps_from_inv (fun _ e => stamp_le r e) (graph_all (claimat_le r)) (claimat_step r)
            log empty_graph g (graph_all_empty _) (stamps_from_Forall _ _ _ Hs) Hr).
Qed.

Lemma compact_task_stamps r t :
  task_wf0 t -> task_wfu t -> (t_updated t <= r)%Z -> claimat_le r t -> Forall (stamp_le r) (compact_task t).
Proof.
  intros H0 HU Hu Hc. rewrite compact_task_eq.
  pose proof (wf_created t H0) as Hca. pose proof (wf_created_le t HU) as Hcu.
  constructor; [unfold stamp_le; cbn; lia|].
  unfold block_tail, opt_ev. repeat apply Forall_app_2.
  - destruct (em_title t); repeat constructor. unfold stamp_le; cbn. pose proof (st_title_le t HU). lia.
  - destruct (em_body t); repeat constructor. unfold stamp_le; cbn. pose proof (st_body_le t HU). lia.
  - destruct (em_epic t) eqn:E; repeat constructor. unfold stamp_le; cbn. pose proof (st_epic_le t HU E). lia.
  - destruct (em_state t); repeat constructor. unfold stamp_le; cbn. pose proof (st_state_le t HU). lia.
  - destruct (em_claim t) eqn:E; repeat constructor. unfold stamp_le; cbn.
    unfold em_claim in E. apply negb_true_iff in E.
    assert (Hne : t_claimed t <> "") by (apply String.eqb_neq, E).
    pose proof (wf_claim t H0 Hne) as Hz.
    unfold st_claim. rewrite (pick_time_nonzero _ _ Hz). apply Hc.
    unfold claimed_at. rewrite E, Hz. reflexivity.
  - apply Forall_fmap, Forall_forall. intros x Hx. unfold stamp_le. cbn.
    apply (proj2 (in_rev _ _)) in Hx. pose proof (wf_results t HU) as Hres.
    rewrite List.Forall_forall in Hres. specialize (Hres x Hx). cbn in Hres. lia.
Qed.

Lemma compact_stamps_le r g :
  graph_wf g -> graph_all (upd_le r) g -> graph_all (claimat_le r) g ->
  stamps_le r (compact_events (finalize g)).
Proof.
  intros Hw Hu Hc. apply stamp_le_stamps. unfold compact_events. apply Forall_app_2.
  - apply Forall_concat, Forall_fmap, Forall_forall. intros tf Hin.
    rewrite <- elem_of_list_In in Hin. unfold sorted_tasks in Hin. rewrite merge_sort_Permutation in Hin.
    apply elem_of_list_fmap in Hin as ([k tf'] & -> & Hin). apply elem_of_map_to_list in Hin. cbn.
    apply CompactProof.finalize_lookup in Hin as (t0 & Hl0 & ->).
    destruct (Hw k t0 Hl0) as (_ & Hw0 & HwU). destruct (Hu k t0 Hl0) as [_ Hu0]. destruct (Hc k t0 Hl0) as [_ Hc0].
    destruct (CompactCore.migrate_fields t0) as (_&_&_&_&_&Hmcl&_&Hmu&_&_&_&Hmlc&_).
    apply compact_task_stamps.
    + apply task_wf0_migrate, Hw0.
    + apply task_wfu_migrate, HwU.
    + rewrite Hmu. exact Hu0.
    + unfold claimat_le, claimed_at. rewrite Hmcl, Hmlc. exact Hc0.
  - apply Forall_fmap, Forall_forall. intros x _. exact I.
Qed.

Lemma tv_claimed_at t t' : tv_rel t t' -> claimed_at t = claimed_at t'.
Proof.
  unfold tv_rel, task_view, task_view0.
  intros [= Hid Hu He Hk Hs Hti Hb Hc Hcr Hca Hr Hup]. exact Hca.
Qed.

Lemma bnd_compact_initial l g : replay_raw l = Ok g -> graph_wf g -> Bnd l (compact_log l).
Proof.
  intros Hr Hw r Hs. rewrite (compact_log_ok l g Hr).
  apply compact_stamps_le; [exact Hw|apply (upd_le_replay r l g Hs Hr)|apply (claimat_replay r l g Hs Hr)].
Qed.

Lemma bnd_compact_both T0 l l' : Sim T0 l l' -> WF l -> WF l' -> Bnd (compact_log l) (compact_log l').
Proof.
  intros HS [(g & Hr & _) Hw] [(g' & Hr' & _) Hw'] r Hs.
  unfold Sim in HS. rewrite Hr, Hr' in HS. cbn in HS.
  rewrite (compact_log_ok l g Hr) in Hs. rewrite (compact_log_ok l' g' Hr').
  pose proof (replay_compact_graph g (Hw g Hr)) as Hrc.
  pose proof (upd_le_replay r _ _ Hs Hrc) as Hu. pose proof (claimat_replay r _ _ Hs Hrc) as Hc.
  assert (Hback : forall k t', g_tasks g' !! k = Some t' ->
            exists t, g_tasks g !! k = Some t /\ tv_rel t t' /\ task_wf0 (migrate t) /\ task_wfu (migrate t)
                      /\ g_tasks (compact_graph g) !! k = Some (rebuild (migrate t))).
  { intros k t' Hl'. destruct (gsim_some' T0 g g' HS k t' Hl') as (t & Hl & Hv).
    destruct (Hw g Hr k t Hl) as (_ & Hw0 & HwU). exists t.
    split; [exact Hl|]. split; [exact Hv|]. split; [apply task_wf0_migrate, Hw0|].
    split; [apply task_wfu_migrate, HwU|]. rewrite compact_graph_lookup, Hl. reflexivity. }
  apply compact_stamps_le; [apply Hw', Hr'| |].
  - intros k t' Hl'. split; [apply (Hw' g' Hr' k t' Hl')|].
    destruct (Hback k t' Hl') as (t & Hl & Hv & Hm0 & HmU & Hlc).
    destruct (Hu k _ Hlc) as [_ Hle]. unfold upd_le in *.
    rewrite (rebuild_updated (migrate t) Hm0 HmU) in Hle.
    destruct (CompactCore.migrate_fields t) as (_&_&_&_&_&_&_&Hmu&_). rewrite Hmu in Hle.
    destruct (tv_fields t t' Hv) as (_&_&_&_&_&_&Hup&_). rewrite <- Hup. exact Hle.
  - intros k t' Hl'. split; [apply (Hw' g' Hr' k t' Hl')|].
    destruct (Hback k t' Hl') as (t & Hl & Hv & Hm0 & HmU & Hlc).
    destruct (Hc k _ Hlc) as [_ Hle]. unfold claimat_le in *.
    rewrite (claimed_at_rebuild (migrate t) Hm0) in Hle.
    assert (Heq : claimed_at t' = claimed_at (migrate t)).
    { rewrite <- (tv_claimed_at t t' Hv). unfold claimed_at.
      destruct (CompactCore.migrate_fields t) as (_&_&_&_&_&Hmcl&_&_&_&_&_&Hmlc&_). rewrite Hmcl, Hmlc. reflexivity. }
    rewrite Heq. exact Hle.
Qed.

Lemma exec_sim_shape T0 e c l l' : Sim T0 l l' -> ids_hyp T0 e c -> c <> CCompact ->
  exists es, (exec e l c).1 = l ++ es /\ (exec e l' c).1 = l' ++ es.
Proof.
  unfold Sim. intros HS Hids Hnc.
  destruct (replay_raw l) as [g|x] eqn:Hr, (replay_raw l') as [g'|x'] eqn:Hr'; cbn in HS; try contradiction.
  - destruct (run_txn_sim T0 e c l l' g g' Hr Hr' (gsim_finalize T0 g g' HS) Hids Hnc) as [_ Hdec].
    unfold exec. destruct (run_txn e c l) as [d r], (run_txn e c l') as [d' r']. cbn [fst] in *.
    destruct d as [|es|rl], d' as [|es'|rl']; cbn in Hdec; try contradiction; cbn [apply_decision].
    + exists []. rewrite !app_nil_r. tauto.
    + subst es'. exists es. tauto.
    + destruct Hdec as (new & -> & ->). exists new. tauto.
  - unfold exec. rewrite (replay_err_abort e c l x Hr), (replay_err_abort e c l' x' Hr'). cbn.
    exists []. rewrite !app_nil_r. tauto.
Qed.

Lemma clock_ok_bnd e l l' : Bnd l l' -> clock_ok e l -> clock_ok e l'.
Proof.
  unfold clock_ok. cbv zeta. intros HB. apply List.Forall_impl. intros r [Hz Hs].
  split; [exact Hz|apply HB, Hs].
Qed.

(** One later command, [compact] included, with the clock hypothesis on the
    uncompacted run only. *)
Theorem step_sim_bnd T0 e c l l' :
  Sim T0 l l' -> WF l -> WF l' -> Bnd l l' -> ids_hyp T0 e c -> clock_ok e l ->
  (exec e l' c).2 = (exec e l c).2 /\
  Sim T0 (exec e l c).1 (exec e l' c).1 /\ WF (exec e l c).1 /\ WF (exec e l' c).1
  /\ Bnd (exec e l c).1 (exec e l' c).1.
Proof.
  intros HS HW HW' HB Hids Hc.
  pose proof (clock_ok_bnd e l l' HB Hc) as Hc'.
  destruct (step_sim_wf T0 e c l l' HS HW HW' Hids Hc Hc') as (Hrep & HS1 & HW1 & HW1').
  split; [exact Hrep|]. split; [exact HS1|]. split; [exact HW1|]. split; [exact HW1'|].
  destruct (cmd_eq_compact c) as [->|Hnc].
  - rewrite !exec_compact. apply (bnd_compact_both T0 l l' HS HW HW').
  - destruct (exec_sim_shape T0 e c l l' HS Hids Hnc) as (es & -> & ->). apply bnd_app, HB.
Qed.

(** The hypotheses on a sequence of later commands, along the UNCOMPACTED run:
    a command that draws ids is not offered one of [T0]; the clock is non-zero
    and does not run backwards. *)
Fixpoint steps_ok (T0 : gset string) (l : list event) (ss : list step) : Prop :=
  match ss with
  | [] => True
  | (e, c) :: rest => ids_hyp T0 e c /\ clock_ok e l /\ steps_ok T0 (exec e l c).1 rest
  end.

Theorem later_commands_sim T0 ss : forall l l',
  Sim T0 l l' -> WF l -> WF l' -> Bnd l l' -> steps_ok T0 l ss ->
  trace l' ss = trace l ss /\ Sim T0 (run_cmds l ss) (run_cmds l' ss).
Proof.
  induction ss as [|[e c] rest IH]; intros l l' HS HW HW' HB Hok; [split; [reflexivity|exact HS]|].
  cbn [steps_ok] in Hok. destruct Hok as (Hids & Hc & Hok).
  destruct (step_sim_bnd T0 e c l l' HS HW HW' HB Hids Hc) as (Hrep & HS1 & HW1 & HW1' & HB1).
  destruct (IH _ _ HS1 HW1 HW1' HB1 Hok) as [Htr HSn].
  cbn [trace run_cmds]. rewrite Hrep, (sim_obs T0 _ _ HS1), Htr. split; [reflexivity|exact HSn].
Qed.

(** * 11. The statements for reachable stores *)

(** Right after the compaction the two stores are related. *)
Theorem compact_establishes_sim log g :
  ReachC log -> replay_raw log = Ok g -> Sim (g_tombs g) log (compact_log log).
Proof.
  intros HC Hr. pose proof (reachc_reachm log HC) as HR.
  pose proof (reachm_graph_wf log g HR Hr) as Hw.
  destruct (reach_good log (reachm_reach log HR)) as (g0 & Hr0 & HI & _).
  rewrite Hr in Hr0. injection Hr0 as <-.
  unfold Sim. rewrite (compact_log_ok log g Hr), Hr, (replay_compact_graph g Hw). cbn.
  apply gsim_compact_raw; [exact Hw|apply tombs_dead_of_inv, HI|apply (reachc_titled log g HC Hr)].
Qed.

Lemma wf_compact_log l : WF l -> WF (compact_log l).
Proof.
  intros [HG Hw]. pose proof HG as (g & Hr & HI & HA).
  rewrite (compact_log_ok l g Hr). split.
  - destruct (compact_inv g HI HA) as (g' & Hr' & HI' & HA' & _). exists g'. tauto.
  - intros g'. rewrite (replay_compact_graph g (Hw g Hr)). intros [= <-]. apply compact_graph_wf, Hw, Hr.
Qed.

(** MAIN THEOREM (sentence 3 of C05).  For every store [log] the CLI can
    produce ([ReachC]: any requests in any input mode, any id stream and file
    system, a clock that is never zero and never runs backwards), [log'] what
    [compact] writes for it, and every sequence [ss] of later commands — each
    with its own environment — such that, along the run WITHOUT compaction,
    - a command that draws new ids ([new], [plan]) is not offered an id that was
      pruned before the compaction ([ids_hyp] with [T0 = g_tombs g]), and
    - each command's clock readings are non-zero and not before any stamp
      already in the store ([clock_ok]: the run stays a [ReachC] history; needed
      only so that a LATER compaction is again covered by
      [C05_every_cli_history]):
    running [ss] from [log'] and from [log] gives, step by step, the same reply
    (success flag and payload) and the same observable store ([obs]: per item
    id, uuid, kind, state, claimant and claim time, title, body, epic, deps,
    rdeps, results, created / updated stamps, ready / blocked flags; and the
    claim order). *)
Theorem C05_after_compact log g ss :
  ReachC log -> replay_raw log = Ok g ->
  steps_ok (g_tombs g) log ss ->
  trace (compact_log log) ss = trace log ss
  /\ obs_of (run_cmds (compact_log log) ss) = obs_of (run_cmds log ss).
Proof.
  intros HC Hr Hok.
  pose proof (reachm_wf log (reachc_reachm log HC)) as HW.
  destruct (later_commands_sim (g_tombs g) ss log (compact_log log)
              (compact_establishes_sim log g HC Hr) HW (wf_compact_log log HW)
              (bnd_compact_initial log g Hr (proj2 HW g Hr)) Hok) as [Htr HS].
  split; [exact Htr|apply (sim_obs _ _ _ HS)].
Qed.

(** Requests (the three input modes of [new] / [set], malformed input) are
    covered by the statement over commands: a request the input layer rejects
    behaves like the command [sequence] with no ids (aborts, writes nothing). *)
Definition req_cmd (q : request) : cmd :=
  match normalize q with Some c => c | None => CSeq true [] end.

Lemma exec_req_as_cmd e l q : exec_req e l q = exec e l (req_cmd q).
Proof.
  unfold exec_req, req_cmd. destruct (normalize q) as [c|]; [reflexivity|].
  unfold exec. cbn [run_txn]. destruct (replay l); reflexivity.
Qed.

(** The same without any clock hypothesis on the later commands, when none of
    them is a further [compact]. *)
Theorem C05_after_compact_no_clock log g ss :
  ReachC log -> replay_raw log = Ok g ->
  Forall (fun s : step => ids_hyp (g_tombs g) s.1 s.2 /\ s.2 <> CCompact) ss ->
  trace (compact_log log) ss = trace log ss
  /\ obs_of (run_cmds (compact_log log) ss) = obs_of (run_cmds log ss).
Proof.
  intros HC Hr Hall.
  destruct (later_commands_no_compact (g_tombs g) ss log (compact_log log)
              (compact_establishes_sim log g HC Hr) Hall) as [Htr HS].
  split; [exact Htr|apply (sim_obs _ _ _ HS)].
Qed.

(** * 12. Executable checkers for the hypotheses (used by the examples) *)

Definition clock_ok_b (e : env) (l : list event) : bool :=
  forallb (fun r => negb (is_zero r) && forallb (fun s => Z.leb s r) (stamps_of l))%bool
          (e_now e :: e_now_result e :: e_nows e).

Lemma clock_ok_b_sound e l : clock_ok_b e l = true -> clock_ok e l.
Proof.
  unfold clock_ok_b, clock_ok. cbv zeta. intros H. rewrite forallb_forall in H.
  apply Forall_forall. intros r Hr. specialize (H r Hr).
  apply andb_prop in H as [Hz Hle]. split; [apply negb_true_iff, Hz|].
  rewrite forallb_forall in Hle. apply Forall_forall. intros s Hs.
  apply Z.leb_le, Hle, Hs.
Qed.

Definition ids_hyp_b (T0 : gset string) (e : env) (c : cmd) : bool :=
  (negb (mints c) || forallb (fun i => negb (bool_decide (i ∈ T0))) (e_ids e))%bool.

Lemma ids_hyp_b_sound T0 e c : ids_hyp_b T0 e c = true -> ids_hyp T0 e c.
Proof.
  unfold ids_hyp_b, ids_hyp, ids_fresh. intros H Hm. rewrite Hm in H. cbn in H.
  rewrite forallb_forall in H. intros i Hi. rewrite elem_of_list_In in Hi. specialize (H i Hi).
  apply negb_true_iff, bool_decide_eq_false in H. exact H.
Qed.

Fixpoint steps_ok_b (T0 : gset string) (l : list event) (ss : list step) : bool :=
  match ss with
  | [] => true
  | (e, c) :: rest => (ids_hyp_b T0 e c && clock_ok_b e l && steps_ok_b T0 (exec e l c).1 rest)%bool
  end.

Lemma steps_ok_b_sound T0 ss : forall l, steps_ok_b T0 l ss = true -> steps_ok T0 l ss.
Proof.
  induction ss as [|[e c] rest IH]; intros l H; [exact I|]. cbn [steps_ok_b steps_ok] in *.
  apply andb_prop in H as [H H3]. apply andb_prop in H as [H1 H2].
  split; [apply ids_hyp_b_sound, H1|]. split; [apply clock_ok_b_sound, H2|apply IH, H3].
Qed.

(** Requests before the compaction. *)
Fixpoint run_reqs (l : list event) (qs : list (env * request)) : list event :=
  match qs with
  | [] => l
  | (e, q) :: rest => run_reqs (exec_req e l q).1 rest
  end.

Definition req_titled_b (q : request) : bool :=
  match q with QCmd (CNew _ title _ _ _ _) => negb (is_blank title) | _ => true end.

Fixpoint reqs_ok_b (l : list event) (qs : list (env * request)) : bool :=
  match qs with
  | [] => true
  | (e, q) :: rest => (clock_ok_b e l && req_titled_b q && reqs_ok_b (exec_req e l q).1 rest)%bool
  end.

Lemma reachc_run_reqs qs : forall l, ReachC l -> reqs_ok_b l qs = true -> ReachC (run_reqs l qs).
Proof.
  induction qs as [|[e q] rest IH]; intros l HR H; [exact HR|]. cbn [reqs_ok_b run_reqs] in *.
  apply andb_prop in H as [H H3]. apply andb_prop in H as [H1 H2].
  apply IH; [|exact H3]. apply reachc_step; [exact HR|apply clock_ok_b_sound, H1|].
  destruct q as [| |c|]; try exact I. destruct c; try exact I. cbn in *. apply negb_true_iff, H2.
Qed.

(** * 13. Examples: the hypotheses are satisfiable, and they are needed *)

Section examples.
  Let E (ids : list string) (now : Z) : env := Env ids ["uuid"] now now [] FMissing "" "" "".
  Let raw_title (ti : string) : raw := Raw (Some ti) None None None None None None.

  (** An epic with two tasks, a loose task, a dependency, a claim, two
      finished tasks, and a prune that removes them ("AA" and "CC"). *)
  Definition ac_reqs : list (env * request) :=
    [ (E ["EP"] 10, QNew true MFlags (raw_title "Ship it") "al");
      (E ["AA"] 20, QNew false MFlags (Raw (Some "Task A") (Some "body a") (Some "EP") None None None None) "al");
      (E ["BB"] 30, QNew false MJson (Raw (Some "Task B") None (Some "EP") None None None None) "al");
      (E ["CC"] 40, QNew false MFlags (raw_title "Task C") "al");
      (E [] 50, QCmd (CSeq true ["AA"; "BB"]));
      (E [] 60, QCmd (CClaimId "AA" "al"));
      (E [] 70, QSet "AA" MFlags (Raw None None None (Some "done") None None None) "al");
      (E [] 80, QSet "CC" MJson (Raw None None None (Some "canceled") None None None) "al");
      (E [] 90, QCmd (CPrune true "al")) ].
  Definition ac_log : list event := run_reqs [] ac_reqs.
  Definition ac_graph : graph := unwrap (replay_raw ac_log).

  Example ac_log_eq :
    ac_log =
    [ENew true "EP" "uuid" "" "todo" "Ship it" "" (Some 10%Z);
     ENew false "AA" "uuid" "EP" "todo" "Task A" "body a" (Some 20%Z);
     ENew false "BB" "uuid" "EP" "todo" "Task B" "" (Some 30%Z);
     ENew false "CC" "uuid" "" "todo" "Task C" "" (Some 40%Z);
     ELink "BB" "AA" depends;
     EClaim "AA" "al" (Some 60%Z); EState "AA" "doing" (Some 60%Z);
     EState "AA" "done" (Some 70%Z);
     EState "CC" "canceled" (Some 80%Z);
     ETomb "AA" "al" (Some 90%Z); ETomb "CC" "al" (Some 90%Z)].
  Proof. vm_compute. reflexivity. Qed.

  Example ac_reach : ReachC ac_log.
  Proof. apply reachc_run_reqs; [apply reachc_init|]. vm_compute. reflexivity. Qed.

  Example ac_replay : replay_raw ac_log = Ok ac_graph.
  Proof. apply is_ok_unwrap. vm_compute. reflexivity. Qed.

  Example ac_tombs : elements (g_tombs ac_graph) = ["AA"; "CC"] \/ elements (g_tombs ac_graph) = ["CC"; "AA"].
  Proof. vm_compute. tauto. Qed.

  Example ac_compacted :
    compact_log ac_log =
    [ENew false "BB" "uuid" "EP" "todo" "Task B" "" (Some 30%Z);
     ENew true "EP" "uuid" "" "todo" "Ship it" "" (Some 10%Z)].
  Proof. vm_compute. reflexivity. Qed.

  (** Later commands: a create, claim-next, a title edit, an update of a pruned
      id (refused on both sides), a plan, finishing a task, prune, a SECOND
      compaction, and another create. *)
  Definition ac_later : list step :=
    [ (E ["DD"] 100, CNew false "Task D" "" "EP" upd_none "bo");
      (E [] 110, CClaimOldest "" "bo");
      (E [] 120, CSet "BB" (Upd (Some "Task B, renamed") None None None None None None) "bo");
      (E [] 130, CSet "AA" (Upd None (Some "too late") None None None None None) "bo");
      (E ["P0"; "P1"; "P2"] 140,
         CPlan (Plan "Phase two" None [PTask "design" None []; PTask "build" (Some "do it") ["design"]]));
      (E [] 150, CSet "BB" (Upd None None None (Some "done") None None None) "bo");
      (E [] 160, CPrune true "bo");
      (E [] 170, CCompact);
      (E ["ZZ"] 180, CNew false "Task Z" "" "" (Upd None None None (Some "doing") None None None) "bo") ].

  Example ac_hyps : steps_ok (g_tombs ac_graph) ac_log ac_later.
  Proof. apply steps_ok_b_sound. vm_compute. reflexivity. Qed.

  (** The theorem applies ... *)
  Example ac_instance :
    trace (compact_log ac_log) ac_later = trace ac_log ac_later
    /\ obs_of (run_cmds (compact_log ac_log) ac_later) = obs_of (run_cmds ac_log ac_later).
  Proof. exact (C05_after_compact ac_log ac_graph ac_later ac_reach ac_replay ac_hyps). Qed.

  (** ... and its content is not vacuous: the replies of the run. *)
  Example ac_replies :
    fst <$> trace (compact_log ac_log) ac_later =
    [ (true, RCreated "DD" "todo");
      (true, RClaimed "BB");
      (true, RNone);
      (false, RNone);
      (true, RPlanned "P0" ["P1"; "P2"] [("P2", "P1")]);
      (true, RNone);
      (true, RPruned ["BB"]);
      (true, RNone);
      (true, RCreated "ZZ" "doing") ].
  Proof. vm_compute. reflexivity. Qed.

  (** The two stores themselves stay different (the uncompacted one keeps its
      history and tombstones) although no reader can tell. *)
  Example ac_logs_differ : run_cmds (compact_log ac_log) (take 7 ac_later) <> run_cmds ac_log (take 7 ac_later).
  Proof. vm_compute. discriminate. Qed.

  (** The id hypothesis is necessary (the recorded finding
      [C09_reissue_after_compact_refuted], seen from this side): offered the
      pruned id "AA" first, [new] skips it before the compaction and takes it
      after. *)
  Theorem after_compact_needs_fresh_ids_refuted :
    exists log g e c,
      ReachC log /\ replay_raw log = Ok g /\ ~ ids_hyp (g_tombs g) e c /\
      (exec e log c).2 = (true, RCreated "DD" "todo") /\
      (exec e (compact_log log) c).2 = (true, RCreated "AA" "todo").
  Proof.
    exists ac_log, ac_graph, (E ["AA"; "DD"] 100), (CNew false "Task D" "" "EP" upd_none "bo").
    split; [exact ac_reach|]. split; [exact ac_replay|]. split.
    - intros H. specialize (H eq_refl "AA"). apply H; [left|]. apply tombed_true. vm_compute. reflexivity.
    - split; vm_compute; reflexivity.
  Qed.

  (** The title hypothesis ([ReachC] rather than [ReachM]) is necessary in the
      MODEL: a raw [CNew] with a blank title (never produced by the input
      layer; the shape of a legacy store) makes replay derive the title from the
      body on every load, while compaction freezes the derived title.  A later
      body edit then re-derives the title on the uncompacted side only. *)
  Let legacy_body : string := String.append "# Old heading" (String nl "details").
  Theorem after_compact_needs_titles_refuted :
    exists log g ss,
      ReachM log /\ replay_raw log = Ok g /\ steps_ok (g_tombs g) log ss /\
      obs_of (run_cmds (compact_log log) ss) <> obs_of (run_cmds log ss).
  Proof.
    exists (exec_req (E ["LL"] 10) [] (QCmd (CNew false "" legacy_body "" upd_none "al"))).1.
    eexists.
    exists [(E [] 20, CSet "LL" (Upd None (Some "New text") None None None None None) "al")].
    split; [apply (reachm_step [] _ _ reachm_init); repeat constructor|].
    split; [apply is_ok_unwrap; vm_compute; reflexivity|].
    split; [apply steps_ok_b_sound; vm_compute; reflexivity|].
    vm_compute. discriminate.
  Qed.
End examples.

Print Assumptions run_txn_sim.
Print Assumptions step_sim.
Print Assumptions compact_events_idem.
Print Assumptions after_compact_same_decision.
Print Assumptions later_commands_sim.
Print Assumptions C05_after_compact.
Print Assumptions C05_after_compact_no_clock.
Print Assumptions reachc_titled.
Print Assumptions exec_req_as_cmd.
Print Assumptions ac_instance.
Print Assumptions after_compact_needs_fresh_ids_refuted.
Print Assumptions after_compact_needs_titles_refuted.
