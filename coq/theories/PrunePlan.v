(** PrunePlan.v — the [prune] and [plan] transactions (Cmd.v) preserve the
    store invariant [Inv] and acyclicity, and change exactly what they say. *)
From stdpp Require Import relations.
From Ergo Require Import Base Text Events Replay Ready Compact Path Cmd Input Graphs TextFacts Invariants.
Local Open Scope string_scope.
Local Open Scope list_scope.

(** * Finalisation keeps the invariant *)
Lemma migrate_m_created t : m_created (migrate t) = m_created t.
Proof.
  unfold migrate. destruct (is_blank (t_title t)); [|reflexivity].
  destruct (derive_title_body (t_body t)). reflexivity.
Qed.

Lemma inv_finalize g : Inv g -> Inv (finalize g).
Proof.
  intros HI. split.
  - intros i t (t0 & H0 & ->)%finalize_lookup_Some. mig t0.
    destruct (inv_key g HI i t0 H0). rewrite migrate_m_created. split; congruence.
  - intros i t (t0 & H0 & ->)%finalize_lookup_Some. mig t0.
    rewrite Hmk, Hmst, Hmcl. by apply (inv_state g HI i).
  - intros i t (t0 & H0 & ->)%finalize_lookup_Some. mig t0.
    rewrite Hmk, Hmst, Hmcl, Hmep, Hmme. by apply (inv_epic g HI i).
  - intros i t (t0 & H0 & ->)%finalize_lookup_Some. mig t0. rewrite Hmep. intros Hne.
    destruct (inv_ref g HI i t0 H0 Hne) as (e & He & Hk). exists (migrate e).
    rewrite finalize_lookup, He. split; [done|]. mig e. congruence.
  - intros a b Hab. cbn in Hab. destruct (inv_deps g HI a b Hab) as (Hne & ta & tb & Ha & Hb & Hk).
    split; [done|]. exists (migrate ta), (migrate tb). rewrite !finalize_lookup, Ha, Hb.
    repeat split; try done. mig ta. mig tb. congruence.
  - intros i Hi. cbn in Hi. rewrite finalize_lookup, (inv_tombs g HI i Hi). done.
Qed.

(** * Part 1 — prune *)

(** The policy of [prune_targets], with the local definitions named. *)
Definition prune_rem (g : graph) (ep : string) : bool :=
  existsb (λ t, (negb (t_is_epic t) && negb (negb (t_is_epic t) && done_or_canceled (t_state t))
                 && negb (String.eqb (t_epic t) "") && String.eqb (t_epic t) ep)%bool) (all_tasks g).
Definition prune_ok (g : graph) (t : task) : bool :=
  if t_is_epic t then negb (prune_rem g (t_id t))
  else (negb (t_is_epic t) && done_or_canceled (t_state t))%bool.

Lemma prune_targets_unfold g :
  prune_targets g = sort_strings (t_id <$> filter (λ t, prune_ok g t = true) (all_tasks g)).
Proof. reflexivity. Qed.

Lemma negb_existsb_true {A} (f : A -> bool) l :
  negb (existsb f l) = true <-> forall x, x ∈ l -> f x = false.
Proof.
  rewrite negb_true_iff. induction l as [|a l IH]; cbn.
  - split; [|done]. intros _ x Hx. by apply elem_of_nil in Hx.
  - rewrite orb_false_iff, IH. split.
    + intros [Ha Hl] x [->|Hx]%elem_of_cons; auto.
    + intros H. split; [apply H; left|intros x Hx; apply H; by right].
Qed.

Lemma prune_ok_spec g t :
  prune_ok g t = true <->
  (if t_is_epic t
   then forall c, c ∈ all_tasks g -> t_is_epic c = false -> t_epic c = t_id t -> t_epic c <> "" ->
                  done_or_canceled (t_state c) = true
   else done_or_canceled (t_state t) = true).
Proof.
  unfold prune_ok. destruct (t_is_epic t) eqn:Hk; [|done].
  unfold prune_rem. rewrite negb_existsb_true. split.
  - intros H c Hc Hkc Hep Hne. specialize (H c Hc). rewrite Hkc in H. cbn in H.
    apply eqb_true in Hep. apply eqb_false in Hne. rewrite Hep, Hne in H. cbn in H.
    rewrite !andb_true_r in H. by apply negb_false_iff in H.
  - intros H c Hc. destruct (t_is_epic c) eqn:Hkc; [done|]. cbn.
    destruct (String.eqb (t_epic c) (t_id t)) eqn:Hep; [|apply andb_false_r].
    destruct (String.eqb (t_epic c) "") eqn:Hne; [cbn; rewrite !andb_false_r; reflexivity|].
    apply eqb_true in Hep. apply eqb_false in Hne. rewrite (H c Hc Hkc Hep Hne). done.
Qed.

Lemma prune_targets_spec g i : Inv g ->
  (i ∈ prune_targets g <->
   exists t, g_tasks g !! i = Some t /\
     (if t_is_epic t
      then forall k c, g_tasks g !! k = Some c -> t_is_epic c = false -> t_epic c = i -> t_epic c <> "" ->
                       done_or_canceled (t_state c) = true
      else done_or_canceled (t_state t) = true)).
Proof.
  intros HI. rewrite prune_targets_unfold. unfold sort_strings.
  rewrite merge_sort_Permutation, elem_of_list_fmap. split.
  - intros (t & -> & [Hok Hin]%elem_of_list_filter).
    apply all_tasks_lookup in Hin as (k & Hk). destruct (inv_key g HI k t Hk) as [Hid _].
    exists t. rewrite Hid. split; [done|]. apply prune_ok_spec in Hok.
    destruct (t_is_epic t); [|done]. intros k' c Hc Hkc Hep Hne.
    apply (Hok c); [apply all_tasks_lookup; eauto|done|congruence|done].
  - intros (t & Hl & H). destruct (inv_key g HI i t Hl) as [Hid _].
    exists t. split; [done|]. apply elem_of_list_filter. split; [|apply all_tasks_lookup; eauto].
    apply prune_ok_spec. destruct (t_is_epic t); [|done].
    intros c (k & Hc)%all_tasks_lookup. rewrite Hid. by apply (H k).
Qed.

Lemma all_tasks_ids_NoDup g : Inv g -> NoDup (t_id <$> all_tasks g).
Proof.
  intros HI. unfold all_tasks.
  replace (t_id <$> (snd <$> map_to_list (g_tasks g))) with (fst <$> map_to_list (g_tasks g)).
  - apply NoDup_fst_map_to_list.
  - rewrite <- list_fmap_compose. apply Forall_fmap_ext. apply list.Forall_forall. intros [k t] Hin.
    apply elem_of_map_to_list in Hin. cbn. symmetry. apply (inv_key g HI k t Hin).
Qed.

Lemma NoDup_fmap_filter {A B} (f : A -> B) (P : A -> Prop) `{!forall x, Decision (P x)} l :
  NoDup (f <$> l) -> NoDup (f <$> filter P l).
Proof.
  induction l as [|x l IH]; [done|]. rewrite fmap_cons. intros [Hx Hl]%list.NoDup_cons.
  rewrite filter_cons. destruct (decide (P x)); [|auto].
  rewrite fmap_cons. apply list.NoDup_cons. split; [|auto].
  intros (y & Hy & [_ Hin]%elem_of_list_filter)%elem_of_list_fmap.
  apply Hx, elem_of_list_fmap. eauto.
Qed.

Lemma prune_targets_sorted_nodup g : Inv g ->
  NoDup (prune_targets g) /\ Sorted str_le (prune_targets g).
Proof.
  intros HI. rewrite prune_targets_unfold. unfold sort_strings. split.
  - rewrite merge_sort_Permutation.
    apply NoDup_fmap_filter, (all_tasks_ids_NoDup g HI).
  - apply Sorted_merge_sort. apply _.
Qed.

Lemma prune_never_active g i t : Inv g ->
  i ∈ prune_targets g -> g_tasks g !! i = Some t -> t_is_epic t = false ->
  t_state t = "done" \/ t_state t = "canceled".
Proof.
  intros HI (t' & Hl & H)%prune_targets_spec Hl' Hk; [|done].
  rewrite Hl' in Hl. injection Hl as <-. rewrite Hk in H.
  unfold done_or_canceled in H. apply orb_prop in H as [H|H]; apply eqb_true in H; auto.
Qed.

Lemma prune_epic_has_no_remaining_child g i t k c : Inv g ->
  i ∈ prune_targets g -> g_tasks g !! i = Some t -> t_is_epic t = true ->
  g_tasks g !! k = Some c -> t_is_epic c = false -> t_epic c = i -> i <> "" ->
  t_state c = "done" \/ t_state c = "canceled".
Proof.
  intros HI (t' & Hl & H)%prune_targets_spec Hl' Hk Hc Hkc Hep Hne; [|done].
  rewrite Hl' in Hl. injection Hl as <-. rewrite Hk in H.
  assert (Hne' : t_epic c <> "") by (rewrite Hep; exact Hne). specialize (H k c Hc Hkc Hep Hne').
  unfold done_or_canceled in H. apply orb_prop in H as [H|H]; apply eqb_true in H; auto.
Qed.

(** ** Folding tombstones *)
Lemma replay_tombstones g ids agent now :
  replay_from g ((fun i => ETomb i agent (Some now)) <$> ids) = Ok (fold_left apply_tombstone ids g).
Proof.
  unfold replay_from. revert g. induction ids as [|i ids IH]; intros g; [done|].
  cbn. apply IH.
Qed.

Lemma fold_tombstone_tasks ids g j :
  g_tasks (fold_left apply_tombstone ids g) !! j
  = if bool_decide (j ∈ ids) then None else g_tasks g !! j.
Proof.
  revert g. induction ids as [|i ids IH]; intros g; cbn [fold_left].
  - case_bool_decide as H; [by apply elem_of_nil in H|done].
  - rewrite IH. cbn [apply_tombstone g_tasks].
    repeat case_bool_decide; try done.
    + set_solver.
    + destruct (decide (j = i)) as [->|Hne]; [by rewrite lookup_delete|set_solver].
    + rewrite lookup_delete_ne; [done|]. set_solver.
Qed.

Lemma fold_tombstone_deps ids g a b :
  (a, b) ∈ g_deps (fold_left apply_tombstone ids g) <-> (a, b) ∈ g_deps g /\ a ∉ ids /\ b ∉ ids.
Proof.
  revert g. induction ids as [|i ids IH]; intros g; cbn [fold_left].
  - set_solver.
  - rewrite IH. cbn [apply_tombstone g_deps]. rewrite elem_of_filter. cbn.
    rewrite !not_elem_of_cons. naive_solver.
Qed.

Lemma fold_tombstone_tombs ids g j :
  j ∈ g_tombs (fold_left apply_tombstone ids g) <-> j ∈ ids \/ j ∈ g_tombs g.
Proof.
  revert g. induction ids as [|i ids IH]; intros g; cbn [fold_left].
  - set_solver.
  - rewrite IH. cbn [apply_tombstone g_tombs]. set_solver.
Qed.

Lemma fold_tombstone_acyclic ids g : acyclic g -> acyclic (fold_left apply_tombstone ids g).
Proof.
  revert g. induction ids as [|i ids IH]; intros g Hac; [done|].
  cbn [fold_left]. by apply IH, apply_tombstone_acyclic.
Qed.

Theorem prune_inv graw agent now :
  Inv graw -> acyclic graw ->
  let ids := prune_targets (finalize graw) in
  exists g', replay_from graw ((fun i => ETomb i agent (Some now)) <$> ids) = Ok g'
    /\ Inv g' /\ acyclic g'
    /\ (forall j, g_tasks g' !! j = if bool_decide (j ∈ ids) then None else g_tasks graw !! j)
    /\ (forall a b, (a, b) ∈ g_deps g' <-> (a, b) ∈ g_deps graw /\ a ∉ ids /\ b ∉ ids)
    /\ (forall j, j ∈ g_tombs g' <-> j ∈ ids \/ j ∈ g_tombs graw).
Proof.
  intros HI Hac ids. exists (fold_left apply_tombstone ids graw).
  split; [apply replay_tombstones|].
  pose proof (fold_tombstone_tasks ids graw) as Ht.
  pose proof (fold_tombstone_deps ids graw) as Hd.
  pose proof (fold_tombstone_tombs ids graw) as Hb.
  split; [|split; [by apply fold_tombstone_acyclic|done]].
  set (g' := fold_left apply_tombstone ids graw) in *.
  assert (HIf : Inv (finalize graw)) by by apply inv_finalize.
  (* a task that survives is not selected and was live before *)
  assert (Hsurv : forall j t, g_tasks g' !! j = Some t -> j ∉ ids /\ g_tasks graw !! j = Some t).
  { intros j t. rewrite Ht. case_bool_decide; [done|]. done. }
  assert (Hkeep : forall j t, g_tasks graw !! j = Some t -> j ∉ ids -> g_tasks g' !! j = Some t).
  { intros j t Hj Hn. rewrite Ht. by rewrite bool_decide_eq_false_2. }
  split.
  - intros j t [_ Hj]%Hsurv. by apply (inv_key graw HI).
  - intros j t [_ Hj]%Hsurv. by apply (inv_state graw HI j).
  - intros j t [_ Hj]%Hsurv. by apply (inv_epic graw HI j).
  - intros j t [Hn Hj]%Hsurv Hne.
    destruct (inv_ref graw HI j t Hj Hne) as (e & He & Hke).
    exists e. split; [|done]. apply Hkeep; [done|]. intros Hin.
    (* [t] is a plain task (epics have no epic) that is not selected, hence not closed;
       so its epic has a remaining child and is not selected either *)
    assert (Hkt : t_is_epic t = false).
    { destruct (t_is_epic t) eqn:Hkt; [|done]. destruct (inv_epic graw HI j t Hj Hkt) as (_ & _ & ? & _). done. }
    apply (prune_targets_spec _ _ HIf) in Hin as (e' & He' & Hall).
    rewrite finalize_lookup, He in He'. injection He' as <-.
    mig e. rewrite Hmk, Hke in Hall.
    assert (Hjf : g_tasks (finalize graw) !! j = Some (migrate t)) by (by rewrite finalize_lookup, Hj).
    mig t. specialize (Hall j (migrate t) Hjf). rewrite Hmk0, Hmst0, Hmep0 in Hall.
    specialize (Hall Hkt eq_refl Hne).
    apply Hn. apply (prune_targets_spec _ _ HIf). exists (migrate t). split; [done|].
    by rewrite Hmk0, Hkt, Hmst0.
  - intros a b (Hab & Ha & Hb')%Hd.
    destruct (inv_deps graw HI a b Hab) as (Hne & ta & tb & Hta & Htb & Hk).
    split; [done|]. exists ta, tb. repeat split; try done; by apply Hkeep.
  - intros j [Hj|Hj]%Hb; rewrite Ht.
    + by rewrite bool_decide_eq_true_2.
    + case_bool_decide; [done|]. by apply (inv_tombs graw HI).
Qed.

(** * Part 2 — plan *)

(** ** Rejection and the readable form of [plan_valid] *)
Lemma plan_reject e p log : plan_valid p = false -> run_txn e (CPlan p) log = (Abort, RNone).
Proof. intros H. cbn. by rewrite H. Qed.

Lemma forallb_elem {A} (f : A -> bool) l : forallb f l = true <-> forall x, x ∈ l -> f x = true.
Proof. rewrite forallb_forall. split; intros H x Hx; apply H; by apply elem_of_list_In. Qed.

Lemma plan_valid_spec p :
  plan_valid p = true <->
  is_blank (p_title p) = false /\
  (forall b, p_body p = Some b -> is_blank b = false) /\
  p_tasks p <> [] /\
  (forall t, t ∈ p_tasks p ->
     is_blank (pt_title t) = false /\
     (forall b, pt_body t = Some b -> is_blank b = false) /\
     (forall a, a ∈ pt_after t ->
        is_blank a = false /\ a <> pt_title t /\ exists t', t' ∈ p_tasks p /\ pt_title t' = a)) /\
  NoDup (pt_title <$> p_tasks p).
Proof.
  assert (Hbody : forall o : option string,
            match o with Some b => negb (is_blank b) | None => true end = true
            <-> forall b, o = Some b -> is_blank b = false).
  { intros [b|]; rewrite ?negb_true_iff; naive_solver. }
  assert (Hne : negb (match p_tasks p with [] => true | _ => false end) = true <-> p_tasks p <> []).
  { destruct (p_tasks p); cbn; naive_solver. }
  assert (Hafter : forall ti a,
            (negb (is_blank a) && negb (String.eqb a ti) && mem_str a (pt_title <$> p_tasks p))%bool = true
            <-> is_blank a = false /\ a <> ti /\ exists t', t' ∈ p_tasks p /\ pt_title t' = a).
  { intros ti a. rewrite !andb_true_iff, !negb_true_iff, eqb_false, mem_str_true, elem_of_list_fmap.
    naive_solver. }
  unfold plan_valid. cbn zeta.
  rewrite !andb_true_iff, bool_decide_eq_true, forallb_elem, negb_true_iff, Hbody, Hne.
  split.
  - intros ((((H1 & H2) & H3) & H4) & H5). split; [done|]. split; [done|]. split; [done|]. split; [|done].
    intros t Ht. specialize (H4 t Ht). rewrite !andb_true_iff, negb_true_iff, Hbody, forallb_elem in H4.
    destruct H4 as ((? & ?) & H4). split; [done|]. split; [done|]. intros a Ha. by apply Hafter, H4.
  - intros (H1 & H2 & H3 & H4 & H5). split; [|done]. split; [done|].
    intros t Ht. destruct (H4 t Ht) as (? & ? & H6).
    rewrite !andb_true_iff, negb_true_iff, Hbody, forallb_elem. split; [done|].
    intros a Ha. by apply Hafter, H6.
Qed.

(** ** Fresh ids *)
Lemma plan_ids_spec cands g taken n l :
  plan_ids cands g taken n = Some l ->
  length l = n /\ NoDup l /\
  forall i, i ∈ l -> g_tasks g !! i = None /\ i ∉ g_tombs g /\ i ∉ taken.
Proof.
  revert cands taken l. induction n as [|n IH]; intros cands taken l; cbn [plan_ids].
  - intros [= <-]. split; [done|]. split; [constructor|]. intros i Hi. by apply elem_of_nil in Hi.
  - destruct (pick_id cands (taken_in g taken)) as [[i rest]|] eqn:Hp; [|done].
    destruct (plan_ids rest g (i :: taken) n) as [l'|] eqn:Hr; [|done]. intros [= <-].
    unfold pick_id in Hp.
    apply pick_id_fresh, taken_in_false in Hp as (H1 & H2%tombed_false & H3%mem_str_false).
    apply IH in Hr as (Hlen & Hnd & Hall).
    split; [cbn; lia|]. split.
    + apply list.NoDup_cons. split; [|done]. intros Hi. apply Hall in Hi as (_ & _ & Hi). set_solver.
    + intros j [->|Hj]%elem_of_cons; [done|]. apply Hall in Hj as (? & ? & ?). set_solver.
Qed.

(** ** The cycle check only looks at the edges *)
Lemma dep_ids_deps_irrel g1 g2 : g_deps g1 = g_deps g2 -> dep_ids g1 = dep_ids g2.
Proof. unfold dep_ids. by intros ->. Qed.

Lemma reach_fuel_deps_irrel n g1 g2 fr seen tg :
  g_deps g1 = g_deps g2 -> reach_fuel n g1 fr seen tg = reach_fuel n g2 fr seen tg.
Proof.
  intros E. revert fr seen. induction n as [|n IH]; intros fr seen; cbn; [done|].
  destruct (mem_str tg fr); [done|]. rewrite (dep_ids_deps_irrel g1 g2 E).
  destruct (filter _ _); [done|]. apply IH.
Qed.

Lemma has_cycle_deps_irrel g1 g2 a b :
  g_deps g1 = g_deps g2 -> has_cycle g1 a b = has_cycle g2 a b.
Proof.
  intros E. unfold has_cycle. rewrite E. destruct (String.eqb a b); [done|].
  by apply reach_fuel_deps_irrel.
Qed.

Lemma plan_links_deps_irrel g1 g2 es :
  g_deps g1 = g_deps g2 -> plan_links g1 es = plan_links g2 es.
Proof.
  revert g1 g2. induction es as [|[a b] es IH]; intros g1 g2 E; cbn; [done|].
  rewrite (has_cycle_deps_irrel g1 g2 a b E).
  destruct (_ || _)%bool; [done|].
  rewrite (IH _ (Graph (g_tasks g2) ({[(a, b)]} ∪ g_deps g2) (g_tombs g2))); [done|].
  cbn. by rewrite E.
Qed.

(** ** Inserting a batch of new plain tasks *)
Definition puts (g : graph) (ts : list task) : graph :=
  fold_left (λ g t, put g (t_id t) t) ts g.
Definition new_ev (t : task) : event :=
  ENew (t_is_epic t) (t_id t) (t_uuid t) (t_epic t) (t_state t) (t_title t) (t_body t)
       (Some (t_created t)).

Lemma apply_new g k i u ep st ti b ts :
  g_tasks g !! i = None -> i ∉ g_tombs g ->
  apply_event g (ENew k i u ep st ti b (Some ts)) = Ok (put g i (new_task k i u ep st ti b ts)).
Proof. intros Hf Ht%tombed_false. cbn. by rewrite Ht, Hf. Qed.

Lemma puts_cons g t ts : puts g (t :: ts) = puts (put g (t_id t) t) ts.
Proof. reflexivity. Qed.
Lemma puts_deps g ts : g_deps (puts g ts) = g_deps g.
Proof. revert g; induction ts as [|t ts IH]; intros g; [done|]. by rewrite puts_cons, IH. Qed.
Lemma puts_tombs g ts : g_tombs (puts g ts) = g_tombs g.
Proof. revert g; induction ts as [|t ts IH]; intros g; [done|]. by rewrite puts_cons, IH. Qed.
Lemma puts_lookup_ne g ts j : j ∉ t_id <$> ts -> g_tasks (puts g ts) !! j = g_tasks g !! j.
Proof.
  revert g; induction ts as [|t ts IH]; intros g Hj; [done|].
  rewrite fmap_cons, not_elem_of_cons in Hj. destruct Hj as [Hne Hj].
  rewrite puts_cons, IH by done. cbn. by rewrite lookup_insert_ne.
Qed.
Lemma puts_lookup g ts t :
  NoDup (t_id <$> ts) -> t ∈ ts -> g_tasks (puts g ts) !! t_id t = Some t.
Proof.
  revert g; induction ts as [|x ts IH]; intros g Hnd Hin; [by apply elem_of_nil in Hin|].
  rewrite fmap_cons in Hnd. apply list.NoDup_cons in Hnd as [Hx Hnd].
  apply elem_of_cons in Hin as [->|Hin]; rewrite puts_cons.
  - rewrite puts_lookup_ne by done. cbn. apply lookup_insert.
  - by apply IH.
Qed.

Definition plain_new (eid : string) (t : task) : Prop :=
  exists i u ti b ts, t = new_task false i u eid "todo" ti b ts.

Lemma puts_replay_inv g eid ts :
  Inv g -> (exists e, g_tasks g !! eid = Some e /\ t_is_epic e = true) ->
  NoDup (t_id <$> ts) ->
  Forall (λ t, g_tasks g !! t_id t = None /\ t_id t ∉ g_tombs g /\ plain_new eid t) ts ->
  replay_from g (new_ev <$> ts) = Ok (puts g ts) /\ Inv (puts g ts).
Proof.
  revert g. induction ts as [|t0 ts IH]; intros g HI He Hnd Hall; [done|].
  apply Forall_cons_1 in Hall as [(Hf & Ht & (i & u & ti & b & tm & ->)) Hall]. cbn in Hf, Ht.
  rewrite fmap_cons in Hnd. apply list.NoDup_cons in Hnd as [Hni Hnd]. cbn in Hni.
  set (t := new_task false i u eid "todo" ti b tm).
  assert (HI1 : Inv (put g i t)).
  { apply inv_insert_fresh; done. }
  destruct (IH (put g i t)) as [Hr HI2]; try done.
  - destruct He as (e & He & Hk). exists e. split; [|done]. cbn.
    rewrite lookup_insert_ne; [done|]. intros ->. congruence.
  - apply list.Forall_forall. intros t' Hin.
    destruct (proj1 (list.Forall_forall _ _) Hall t' Hin) as (H1 & H2 & H3).
    split; [|done]. cbn. rewrite lookup_insert_ne; [done|]. intros E. apply Hni. rewrite E.
    apply elem_of_list_fmap. eauto.
  - split; [|exact HI2]. unfold replay_from in *. rewrite fmap_cons. cbn [foldM].
    change (new_ev t) with (ENew false i u eid "todo" ti b (Some tm)).
    rewrite apply_new by done. exact Hr.
Qed.

(** ** Adding edges between live same-kind items keeps the invariant *)
Lemma inv_add_edges g es :
  Inv g ->
  (forall a b, (a, b) ∈ es -> a <> b /\
     exists ta tb, g_tasks g !! a = Some ta /\ g_tasks g !! b = Some tb /\ t_is_epic ta = t_is_epic tb) ->
  Inv (add_edges g es).
Proof.
  intros HI Hes. split; rewrite ?add_edges_tasks, ?add_edges_tombs, ?add_edges_deps.
  - apply (inv_key g HI).
  - apply (inv_state g HI).
  - apply (inv_epic g HI).
  - apply (inv_ref g HI).
  - intros a b [Hab%elem_of_list_to_set|Hab]%elem_of_union; [by apply Hes|by apply (inv_deps g HI)].
  - apply (inv_tombs g HI).
Qed.

(** ** Title -> id map *)
Lemma lookup_title_zip titles ids k ti i :
  NoDup titles -> titles !! k = Some ti -> ids !! k = Some i ->
  lookup_title (zip titles ids) ti = i.
Proof.
  revert ids k. induction titles as [|t titles IH]; intros ids k Hnd Ht Hi; [done|].
  destruct ids as [|j ids]; [done|]. apply list.NoDup_cons in Hnd as [Hn Hnd].
  destruct k as [|k]; cbn in *.
  - injection Ht as ->. injection Hi as ->. by rewrite String.eqb_refl.
  - destruct (String.eqb t ti) eqn:E.
    + apply eqb_true in E. subst. exfalso. apply Hn. by eapply elem_of_list_lookup_2.
    + by eapply IH.
Qed.

(** ** [plan_edges]: the raw pairs, first occurrences kept *)
Lemma dedup_fold_elem (raw acc : list (string * string)) x :
  x ∈ fold_left (λ acc e, if bool_decide (e ∈ acc) then acc else acc ++ [e]) raw acc
  <-> x ∈ acc \/ x ∈ raw.
Proof.
  revert acc. induction raw as [|e raw IH]; intros acc; cbn [fold_left].
  - set_solver.
  - rewrite IH. case_bool_decide; set_solver.
Qed.

Lemma dedup_fold_NoDup (raw acc : list (string * string)) :
  NoDup acc -> NoDup (fold_left (λ acc e, if bool_decide (e ∈ acc) then acc else acc ++ [e]) raw acc).
Proof.
  revert acc. induction raw as [|e raw IH]; intros acc Hnd; cbn [fold_left]; [done|].
  apply IH. case_bool_decide; [done|]. apply NoDup_app. split; [done|]. split; [set_solver|].
  apply NoDup_singleton.
Qed.

Lemma elem_of_plan_edges p tid a b :
  (a, b) ∈ plan_edges p tid <->
  exists pt a', pt ∈ p_tasks p /\ a' ∈ pt_after pt /\ a = tid (pt_title pt) /\ b = tid a'.
Proof.
  unfold plan_edges. rewrite dedup_fold_elem. split.
  - intros [H|H]; [by apply elem_of_nil in H|].
    apply elem_of_list_In, in_concat in H as (l & Hl & Hin).
    apply elem_of_list_In, elem_of_list_fmap in Hl as (pt & -> & Hpt).
    apply elem_of_list_In, elem_of_list_fmap in Hin as (a' & [= -> ->] & Ha'). eauto 10.
  - intros (pt & a' & Hpt & Ha' & -> & ->). right. apply elem_of_list_In, in_concat.
    eexists. split.
    + apply elem_of_list_In, elem_of_list_fmap. eauto.
    + apply elem_of_list_In, elem_of_list_fmap. eauto.
Qed.

Lemma plan_edges_NoDup p tid : NoDup (plan_edges p tid).
Proof. apply dedup_fold_NoDup. constructor. Qed.

(** ** The tasks a plan creates *)
Definition plan_task (e : env) (eid : string) (k : nat) (x : ptask * string) : task :=
  new_task false x.2 (opt_default "" (e_uuids e !! S k)) eid "todo" (pt_title x.1)
           (opt_default "" (pt_body x.1)) (opt_default (e_now e) (e_nows e !! k)).

Lemma imap_zip_ids {A} (f : nat -> A * string -> task) ps tids :
  (forall k x, t_id (f k x) = x.2) -> length ps = length tids ->
  t_id <$> imap f (zip ps tids) = tids.
Proof.
  revert f tids. induction ps as [|p ps IH]; intros f [|i tids] Hf Hlen; try done.
  cbn. rewrite Hf. cbn. f_equal. apply IH; [intros; apply Hf|]. cbn in Hlen. lia.
Qed.

(** ** The plan transaction *)
Theorem plan_inv e p log graw es r :
  Inv graw -> acyclic graw ->
  plan_txn e p log (finalize graw) = Some (es, r) ->
  exists eid tids edges new g',
    r = RPlanned eid tids edges /\ es = log ++ new /\
    replay_from graw new = Ok g' /\ Inv g' /\ acyclic g' /\
    length tids = length (p_tasks p) /\ NoDup (eid :: tids) /\
    (forall i, i ∈ eid :: tids -> g_tasks graw !! i = None /\ i ∉ g_tombs graw) /\
    (forall j, j ∉ eid :: tids -> g_tasks g' !! j = g_tasks graw !! j) /\
    g_tombs g' = g_tombs graw /\
    g_deps g' = list_to_set edges ∪ g_deps graw /\
    (exists te, g_tasks g' !! eid = Some te /\ t_is_epic te = true /\ t_title te = p_title p
                /\ t_body te = opt_default "" (p_body p) /\ t_state te = "todo" /\ t_claimed te = ""
                /\ t_epic te = "") /\
    (forall k pt i, p_tasks p !! k = Some pt -> tids !! k = Some i ->
        exists t, g_tasks g' !! i = Some t /\ t_is_epic t = false /\ t_title t = pt_title pt
                  /\ t_body t = opt_default "" (pt_body pt) /\ t_state t = "todo" /\ t_claimed t = ""
                  /\ t_epic t = eid
                  /\ t_created t = opt_default (e_now e) (e_nows e !! k)) /\
    (forall a b, (a, b) ∈ edges <->
        exists k1 pt k2 pt2, p_tasks p !! k1 = Some pt /\ tids !! k1 = Some a /\ pt_title pt2 ∈ pt_after pt
                             /\ p_tasks p !! k2 = Some pt2 /\ tids !! k2 = Some b).
Proof.
  intros HI Hac. unfold plan_txn.
  destruct (plan_valid p) eqn:Hv; [|done]. cbn [negb].
  destruct (plan_ids (e_ids e) (finalize graw) [] (S (length (p_tasks p)))) as [[|eid tids]|] eqn:Hids;
    try done.
  lazy zeta.
  destruct (plan_links _ _) as [links|] eqn:Hlinks; [|done].
  intros [= <- <-].
  set (edges := plan_edges p (lookup_title (zip (pt_title <$> p_tasks p) tids))) in *.
  set (te := new_task true eid (opt_default "" (e_uuids e !! 0%nat)) "" "todo" (p_title p)
                      (opt_default "" (p_body p)) (e_now e)).
  set (nts := imap (plan_task e eid) (zip (p_tasks p) tids)).
  set (g1 := put graw eid te). set (g2 := puts g1 nts). set (g' := add_edges g2 edges).
  apply plan_valid_spec in Hv as (Hv1 & Hv2 & Hv3 & Hv4 & Hv5).
  apply plan_ids_spec in Hids as (Hlen & Hnd & Hfresh).
  assert (Hlen' : length tids = length (p_tasks p)) by (cbn in Hlen; lia).
  assert (Hfresh' : forall i, i ∈ eid :: tids -> g_tasks graw !! i = None /\ i ∉ g_tombs graw).
  { intros i Hi. destruct (Hfresh i Hi) as (H1 & H2 & _). split; [|done].
    rewrite finalize_lookup in H1. by destruct (g_tasks graw !! i). }
  pose proof Hnd as [Heid_nin Hnd_tids]%list.NoDup_cons.
  (* the task events are the [new_ev]s of [nts] *)
  assert (Hevs : imap (λ k '(t, i), ENew false i (opt_default "" (e_uuids e !! S k)) eid "todo" (pt_title t)
                          (opt_default "" (pt_body t)) (Some (opt_default (e_now e) (e_nows e !! k))))
                      (zip (p_tasks p) tids) = new_ev <$> nts).
  { unfold nts. rewrite fmap_imap. apply imap_ext. by intros k [pt i] _. }
  rewrite Hevs.
  assert (Hids_nts : t_id <$> nts = tids).
  { apply imap_zip_ids; [done|lia]. }
  assert (Hnts : forall k pt i, p_tasks p !! k = Some pt -> tids !! k = Some i ->
                   nts !! k = Some (plan_task e eid k (pt, i))).
  { intros k pt i Hpt Hi. unfold nts. rewrite list_lookup_imap, lookup_zip_with, Hpt. cbn. by rewrite Hi. }
  (* step 1: the epic *)
  destruct (Hfresh' eid) as [Hfe Hte]; [left|].
  assert (Hstep1 : apply_event graw (ENew true eid (opt_default "" (e_uuids e !! 0%nat)) "" "todo" (p_title p)
                     (opt_default "" (p_body p)) (Some (e_now e))) = Ok g1) by by apply apply_new.
  assert (HI1 : Inv g1) by (apply inv_insert_fresh; done).
  (* step 2: the tasks *)
  assert (Hall : Forall (λ t, g_tasks g1 !! t_id t = None /\ t_id t ∉ g_tombs g1 /\ plain_new eid t) nts).
  { apply list.Forall_forall. intros t (k & [pt i] & -> & Hz)%elem_of_lookup_imap.
    apply lookup_zip_with_Some in Hz as (? & ? & [= <- <-] & Hpt & Hi).
    apply elem_of_list_lookup_2 in Hi.
    destruct (Hfresh' i) as [H1 H2]; [by right|]. cbn. split; [|split; [done|]].
    - rewrite lookup_insert_ne; [done|]. intros <-. done.
    - unfold plain_new, plan_task. eauto 10. }
  destruct (puts_replay_inv g1 eid nts HI1) as [Hr2 HI2]; try done.
  { exists te. split; [apply put_lookup|done]. }
  { by rewrite Hids_nts. }
  fold g2 in Hr2, HI2.
  assert (Hdeps2 : g_deps g2 = g_deps graw) by (unfold g2; by rewrite puts_deps).
  assert (Htombs2 : g_tombs g2 = g_tombs graw) by (unfold g2; by rewrite puts_tombs).
  assert (Htask : forall k pt i, p_tasks p !! k = Some pt -> tids !! k = Some i ->
                    g_tasks g2 !! i = Some (plan_task e eid k (pt, i))).
  { intros k pt i Hpt Hi.
    change i with (t_id (plan_task e eid k (pt, i))) at 1. apply puts_lookup.
    - by rewrite Hids_nts.
    - eapply elem_of_list_lookup_2, Hnts; done. }
  (* every new id has a plan entry *)
  assert (Hentry : forall i, i ∈ tids -> exists k pt, p_tasks p !! k = Some pt /\ tids !! k = Some i).
  { intros i (k & Hk)%elem_of_list_lookup.
    destruct (lookup_lt_is_Some_2 (p_tasks p) k) as [pt Hpt]; [|by eauto].
    rewrite <- Hlen'. eapply lookup_lt_Some. done. }
  (* step 3: the edges *)
  set (tid := lookup_title (zip (pt_title <$> p_tasks p) tids)) in *.
  assert (Htid : forall k pt i, p_tasks p !! k = Some pt -> tids !! k = Some i -> tid (pt_title pt) = i).
  { intros k pt i Hpt Hi. apply (lookup_title_zip _ _ k); try done.
    by rewrite list_lookup_fmap, Hpt. }
  assert (Hedges : forall a b, (a, b) ∈ edges <->
            exists k1 pt k2 pt2, p_tasks p !! k1 = Some pt /\ tids !! k1 = Some a /\ pt_title pt2 ∈ pt_after pt
                                 /\ p_tasks p !! k2 = Some pt2 /\ tids !! k2 = Some b).
  { intros a b. unfold edges. rewrite elem_of_plan_edges. split.
    - intros (pt & a' & Hpt & Ha' & -> & ->).
      destruct (Hv4 pt Hpt) as (_ & _ & Haft). destruct (Haft a' Ha') as (_ & _ & pt2 & Hpt2 & <-).
      apply elem_of_list_lookup in Hpt as (k1 & Hk1). apply elem_of_list_lookup in Hpt2 as (k2 & Hk2).
      destruct (lookup_lt_is_Some_2 tids k1) as [i1 Hi1].
      { rewrite Hlen'. by eapply lookup_lt_Some. }
      destruct (lookup_lt_is_Some_2 tids k2) as [i2 Hi2].
      { rewrite Hlen'. by eapply lookup_lt_Some. }
      exists k1, pt, k2, pt2. rewrite (Htid k1 pt i1), (Htid k2 pt2 i2) by done. done.
    - intros (k1 & pt & k2 & pt2 & Hk1 & Hi1 & Haft & Hk2 & Hi2).
      exists pt, (pt_title pt2). rewrite (Htid k1 pt a), (Htid k2 pt2 b) by done.
      split; [by eapply elem_of_list_lookup_2|done]. }
  assert (Hends : forall a b, (a, b) ∈ edges -> a ∈ tids /\ b ∈ tids).
  { intros a b (k1 & pt & k2 & pt2 & _ & Hi1 & _ & _ & Hi2)%Hedges.
    split; by eapply elem_of_list_lookup_2. }
  assert (Hlinks2 : plan_links g2 edges = Some links).
  { rewrite <- Hlinks. apply plan_links_deps_irrel. by rewrite Hdeps2. }
  assert (Hlive : Forall (live_ends g2) edges).
  { apply list.Forall_forall. intros [a b] [Ha Hb]%Hends. unfold live_ends. rewrite Htombs2. cbn.
    split; [apply (Hfresh' a)|apply (Hfresh' b)]; by right. }
  destruct (plan_links_replay g2 edges links Hlinks2 Hlive) as (Hl & Hr3 & Hac3).
  fold g' in Hr3, Hac3.
  assert (Hac2 : acyclic g2).
  { apply (subgraph_acyclic graw); [by rewrite Hdeps2|done]. }
  assert (HI' : Inv g').
  { apply inv_add_edges; [done|]. intros a b Hab.
    split.
    - apply plan_links_spec in Hlinks2 as [_ Hok].
      apply elem_of_list_split in Hab as (l1 & l2 & E). by destruct (Hok l1 a b l2 E).
    - destruct (Hends a b Hab) as [Ha Hb].
      apply Hentry in Ha as (k1 & pt1 & Hk1 & Hi1). apply Hentry in Hb as (k2 & pt2 & Hk2 & Hi2).
      exists (plan_task e eid k1 (pt1, a)), (plan_task e eid k2 (pt2, b)).
      split; [by apply Htask|]. split; [by apply Htask|]. done. }
  exists eid, tids, edges, (ENew true eid (opt_default "" (e_uuids e !! 0%nat)) "" "todo" (p_title p)
                     (opt_default "" (p_body p)) (Some (e_now e)) :: (new_ev <$> nts) ++ links), g'.
  split; [done|]. split; [done|]. split.
  { unfold replay_from. cbn [foldM]. rewrite Hstep1.
    change (foldM apply_event ((new_ev <$> nts) ++ links) g1)
      with (replay_from g1 ((new_ev <$> nts) ++ links)).
    rewrite replay_from_app, Hr2. cbn [rbind]. exact Hr3. }
  split; [done|]. split; [by apply Hac3|]. split; [done|]. split; [done|]. split; [done|].
  split.
  { intros j [Hj1 Hj2]%not_elem_of_cons. unfold g'. rewrite add_edges_tasks. unfold g2.
    rewrite puts_lookup_ne by (by rewrite Hids_nts). cbn. by rewrite lookup_insert_ne. }
  split. { unfold g'. by rewrite add_edges_tombs. }
  split. { unfold g'. by rewrite add_edges_deps, Hdeps2. }
  split.
  { exists te. split; [|done]. unfold g'. rewrite add_edges_tasks. unfold g2.
    rewrite puts_lookup_ne by (by rewrite Hids_nts). apply put_lookup. }
  split; [|done].
  intros k pt i Hpt Hi. exists (plan_task e eid k (pt, i)). split; [|done].
  unfold g'. rewrite add_edges_tasks. by eapply Htask.
Qed.

(** * Examples (the hypotheses are satisfiable; the functions compute what the theorems say) *)
Section examples.
  Let env0 : env :=
    Env ["old"; "E1"; "A1"; "old"; "B1"; "C1"] ["u0"; "u1"; "u2"; "u3"] 100%Z 101%Z [201%Z; 202%Z]
        FMissing "" "" "".

  (** A 3-task plan with two [after] edges on a non-empty store; candidate ids
      that are already live ("old") are skipped. *)
  Let log0 : list event := [ENew false "old" "u" "" "todo" "Old task" "" (Some 1%Z)].
  Let plan0 : plan :=
    Plan "Ship it" None
      [PTask "design" None []; PTask "build" (Some "do it") ["design"]; PTask "test" None ["build"]].
  Example ex_plan :
    run_txn env0 (CPlan plan0) log0 =
    (Replace
       [ENew false "old" "u" "" "todo" "Old task" "" (Some 1%Z);
        ENew true "E1" "u0" "" "todo" "Ship it" "" (Some 100%Z);
        ENew false "A1" "u1" "E1" "todo" "design" "" (Some 201%Z);
        ENew false "B1" "u2" "E1" "todo" "build" "do it" (Some 202%Z);
        ENew false "C1" "u3" "E1" "todo" "test" "" (Some 100%Z);
        ELink "B1" "A1" depends; ELink "C1" "B1" depends],
     RPlanned "E1" ["A1"; "B1"; "C1"] [("B1", "A1"); ("C1", "B1")]).
  Proof. vm_compute. reflexivity. Qed.

  (** Rejections: a dependency cycle among the new tasks; a duplicate title; an
      [after] naming no task of the document. *)
  Example ex_plan_cycle :
    run_txn env0 (CPlan (Plan "P" None [PTask "a" None ["b"]; PTask "b" None ["a"]])) log0 = (Abort, RNone).
  Proof. vm_compute. reflexivity. Qed.
  Example ex_plan_dup_title :
    run_txn env0 (CPlan (Plan "P" None [PTask "a" None []; PTask "a" None []])) log0 = (Abort, RNone).
  Proof. vm_compute. reflexivity. Qed.
  Example ex_plan_unknown_after :
    run_txn env0 (CPlan (Plan "P" None [PTask "a" None ["zzz"]])) log0 = (Abort, RNone).
  Proof. vm_compute. reflexivity. Qed.

  (** Prune: epic "ep" holds a done task "t1" and an active sibling "t2" (which
      depends on "t1"); "t3" is a canceled loose task; "e2" is an empty epic.
      Selected: "t1", "t3", "e2" — not "t2", and not "ep" (it still has "t2"). *)
  Let logp : list event :=
    [ENew true "ep" "u" "" "todo" "Epic" "" (Some 1%Z);
     ENew false "t1" "u" "ep" "todo" "one" "" (Some 2%Z);
     ENew false "t2" "u" "ep" "todo" "two" "" (Some 3%Z);
     ENew false "t3" "u" "" "todo" "three" "" (Some 4%Z);
     ENew true "e2" "u" "" "todo" "Empty epic" "" (Some 5%Z);
     ELink "t2" "t1" depends;
     EState "t1" "done" (Some 6%Z);
     EState "t3" "canceled" (Some 7%Z)].
  Example ex_prune :
    run_txn env0 (CPrune true "me") logp =
    (Append [ETomb "e2" "me" (Some 100%Z); ETomb "t1" "me" (Some 100%Z); ETomb "t3" "me" (Some 100%Z)],
     RPruned ["e2"; "t1"; "t3"]).
  Proof. vm_compute. reflexivity. Qed.
  Example ex_prune_after :
    match replay (fst (exec env0 logp (CPrune true "me"))) with
    | Ok g => Some (fst <$> map_to_list (g_tasks g), elements (g_deps g), elements (g_tombs g))
    | Err _ => None
    end = Some (["t2"; "ep"], [], ["t1"; "t3"; "e2"]).
  Proof. vm_compute. reflexivity. Qed.
  (** dry run: same selection, nothing appended *)
  Example ex_prune_dry :
    run_txn env0 (CPrune false "me") logp = (Append [], RPruned ["e2"; "t1"; "t3"]).
  Proof. vm_compute. reflexivity. Qed.
End examples.

Print Assumptions prune_inv.
Print Assumptions prune_targets_spec.
Print Assumptions prune_targets_sorted_nodup.
Print Assumptions plan_inv.
Print Assumptions plan_valid_spec.
