(** Concurrent.v — the generic lock-protocol theorems of Serial.v instantiated with ergo's
    commands: each writer process runs the transaction of one request. *)
From Ergo Require Import Base Text Events Replay Ready Compact Path Cmd Input Graphs Invariants ReadySpec Sched Serial.
Local Open Scope string_scope.
Local Open Scope list_scope.

Definition txn_of (e : env) (q : request) : txn event :=
  fun log => match normalize q with
             | None => Sched.Abort
             | Some c => match (run_txn e c log).1 with
                         | Cmd.Abort => Sched.Abort
                         | Cmd.Append es => Sched.Append es
                         | Cmd.Replace es => Sched.Replace es
                         end
             end.

(** The effect of a committed section on the event list is exactly sequential execution. *)
Lemma effect_txn_of e q log : effect (txn_of e q log) log = (exec_req e log q).1.
Proof.
  unfold txn_of, exec_req. destruct (normalize q) as [c|]; [|reflexivity].
  unfold exec. destruct (run_txn e c log) as [d r]. destruct d; reflexivity.
Qed.

(** A process is a writer running one request under one environment oracle, or a reader. *)
Inductive proc := Writer (e : env) (q : request) | Reader.
Definition pst_of (p : proc) : pst event :=
  match p with Writer e q => PStart (txn_of e q) | Reader => RStart end.

Lemma init_ok_procs (procs : list proc) : init_ok (pst_of <$> procs).
Proof.
  unfold init_ok. apply Forall_forall. intros s Hin. apply elem_of_list_In, elem_of_list_fmap in Hin as (p & -> & _).
  destruct p; cbn; eauto.
Qed.

(** Run the writers named by [order] one at a time. *)
Definition run_serially (procs : list proc) (order : list pid) (log0 : list event) : list event :=
  fold_left (fun log p => match procs !! p with
                          | Some (Writer e q) => (exec_req e log q).1
                          | _ => log
                          end) order log0.

Lemma serial_snoc {ev} (evs0 : list ev) h e :
  serial evs0 (h ++ [e]) = match en_status e with SCommitted => effect (en_dec e) (serial evs0 h) | _ => serial evs0 h end.
Proof. unfold serial. rewrite fold_left_app. reflexivity. Qed.

Lemma lookup_pst_of (procs : list proc) (p : pid) t :
  (pst_of <$> procs) !! p = Some (PStart t) -> exists e q, procs !! p = Some (Writer e q) /\ t = txn_of e q.
Proof.
  intros H. pose proof (list_lookup_fmap pst_of procs p) as E. unfold pid in *. rewrite E in H. clear E.
  destruct (procs !! p) as [[e q|]|]; cbn in H; try discriminate. injection H as <-. eauto.
Qed.

(** * C02: any crash-free concurrent execution = the sections of its history, one at a time,
      in lock-acquisition order, each being the sequential [exec_req] of its command. *)
Theorem concurrent_is_serial (procs : list proc) (log0 : list event) (s : sched) :
  crash_free s ->
  let w := run_schedule (init_world (File log0 TClean) (pst_of <$> procs)) s in
  w_lock w = None ->
  cur_file w = File (run_serially procs (en_pid <$> w_hist w) log0) TClean.
Proof.
  intros Hcf w Hlock.
  destruct (serializable (File log0 TClean) (pst_of <$> procs) s (init_ok_procs procs) eq_refl Hcf) as (Hfile & Hall & Hent).
  fold w in Hfile, Hall, Hent. rewrite Hfile. f_equal. cbn [f_evs].
  specialize (Hall Hlock).
  assert (Hgen : forall h, h `prefix_of` w_hist w -> serial log0 h = run_serially procs (en_pid <$> h) log0).
  { intros h. induction h as [|e h IH] using rev_ind; intros [rest Hpre]; [reflexivity|].
    rewrite <- app_assoc in Hpre. cbn in Hpre.
    destruct (Hent h e rest Hpre) as (_ & _ & t & Hlk & Hdec).
    assert (Hst : en_status e = SCommitted).
    { rewrite Forall_forall in Hall. apply Hall. rewrite Hpre. apply elem_of_list_In, elem_of_app. right. left. }
    rewrite serial_snoc, Hst, fmap_app. unfold run_serially. rewrite fold_left_app. cbn [fmap list_fmap fold_left].
    fold (run_serially procs (en_pid <$> h) log0). rewrite <- IH by (exists (e :: rest); exact Hpre).
    apply lookup_pst_of in Hlk as (en & q & Hpq & Ht). subst t. cbn [f_evs] in Hdec. rewrite Hdec.
    change (base.lookup (en_pid e) procs) with (procs !! en_pid e). rewrite Hpq. apply effect_txn_of. }
  apply Hgen. reflexivity.
Qed.

(** What each exit status means for that serial order. *)
Theorem outcome_in_serial_order (procs : list proc) (log0 : list event) (s : sched) (p : pid) (o : outcome) :
  let w := run_schedule (init_world (File log0 TClean) (pst_of <$> procs)) s in
  w_procs w !! p = Some (PDone o) ->
  match o with
  | OOk => exists d, entries_of p (w_hist w) = [Entry p d SCommitted] /\ d <> Sched.Abort   (* in effect exactly once *)
  | OFail => entries_of p (w_hist w) = [Entry p Sched.Abort SCommitted]                      (* contributed nothing *)
  | OBusy => entries_of p (w_hist w) = []                                                    (* lock busy: no section at all *)
  end.
Proof. intros w H. apply (outcome_meaning (File log0 TClean) (pst_of <$> procs) s p o (init_ok_procs procs) H). Qed.

(** * C01: every oldest-ready claim decides on the serial state at the moment it holds the lock. *)
Theorem claim_decides_on_serial_state (procs : list proc) (log0 : list event) (s : sched) :
  crash_free s ->
  let w := run_schedule (init_world (File log0 TClean) (pst_of <$> procs)) s in
  forall h1 e h2 en epic agent g,
    w_hist w = h1 ++ e :: h2 ->
    procs !! en_pid e = Some (Writer en (QCmd (CClaimOldest epic agent))) ->
    agent <> "" -> replay (serial log0 h1) = Ok g ->
    (en_dec e = Sched.Append [] /\
       forall t, ~ ((exists k, g_tasks g !! k = Some t) /\ in_scope epic t /\ t_is_epic t = false /\ Ready g t))
    \/ (exists i t, en_dec e = Sched.Append [EClaim i agent (Some (e_now en)); EState i "doing" (Some (e_now en))] /\
          t_id t = i /\ (exists k, g_tasks g !! k = Some t) /\ in_scope epic t /\ t_is_epic t = false /\ Ready g t /\
          (forall t', (exists k, g_tasks g !! k = Some t') -> in_scope epic t' -> t_is_epic t' = false -> Ready g t' -> claim_le t t')).
Proof.
  intros Hcf w h1 e h2 en epic agent g Hh Hp Hag Hr.
  destruct (serializable (File log0 TClean) (pst_of <$> procs) s (init_ok_procs procs) eq_refl Hcf) as (_ & _ & Hent).
  destruct (Hent h1 e h2 Hh) as (_ & _ & t & Hlk & Hdec). cbn [f_evs] in Hdec.
  apply lookup_pst_of in Hlk as (en' & q' & Hp' & ->). unfold pid in *. rewrite Hp in Hp'. injection Hp' as <- <-.
  unfold txn_of in Hdec. cbn [normalize] in Hdec.
  pose proof (claim_oldest_spec en epic agent (serial log0 h1) g Hag Hr) as Hspec.
  destruct (run_txn en (CClaimOldest epic agent) (serial log0 h1)) as [d r]. cbn [fst] in Hdec.
  destruct d as [|es|es]; try contradiction.
  destruct es as [|x es]; destruct r; try contradiction.
  - right. destruct Hspec as (t & Hid & Hk & Hs & He & HR & Hmin & Hevs). discriminate Hevs.
  - left. split; [exact Hdec|exact Hspec].
  - right. destruct Hspec as (t & Hid & Hk & Hs & He & HR & Hmin & Hevs). exists i, t. rewrite Hdec, Hevs.
    split; [reflexivity|]. split; [exact Hid|]. split; [exact Hk|]. split; [exact Hs|]. split; [exact He|]. split; [exact HR|exact Hmin].
Qed.
