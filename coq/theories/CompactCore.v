(** CompactCore.v — what replaying [compact_events] produces, exactly:
    one rebuilt task per live item, the same dependency edges, no tombstones.
    No hypothesis about timestamps is used in this file. *)
From Ergo Require Import Base Text Events Replay Ready Compact TextFacts.
Local Open Scope string_scope.
Local Open Scope list_scope.

(** * The task a compaction block re-creates *)

Definition em_title (t : task) : bool :=
  (negb (String.eqb (t_title t) (created_title t)) || touched (m_last_title t) (created_at t))%bool.
Definition em_body (t : task) : bool :=
  (negb (String.eqb (t_body t) (created_body t)) || touched (m_last_body t) (created_at t))%bool.
Definition em_epic (t : task) : bool :=
  (negb (t_is_epic t) && (negb (String.eqb (t_epic t) (m_epic t)) || touched (m_last_epic t) (created_at t)))%bool.
Definition em_state (t : task) : bool :=
  (negb (String.eqb (t_state t) (created_state t)) || touched (m_last_state t) (created_at t))%bool.
Definition em_claim (t : task) : bool := negb (String.eqb (t_claimed t) "").

Definition st_title (t : task) : time := pick_time (m_last_title t) (t_updated t).
Definition st_body (t : task) : time := pick_time (m_last_body t) (t_updated t).
Definition st_epic (t : task) : time := pick_time (m_last_epic t) (t_updated t).
Definition st_state (t : task) : time := pick_time (m_last_state t) (t_updated t).
Definition st_claim (t : task) : time := pick_time (m_last_claim t) (t_updated t).

Definition rebuild0 (t : task) : task :=
  new_task (t_is_epic t) (t_id t) (t_uuid t) (m_epic t) (created_state t) (created_title t)
           (created_body t) (created_at t).

(** Everything but the results. *)
Definition rebuild5 (t : task) : task :=
  let t0 := rebuild0 t in
  let t1 := if em_title t then set_title (t_title t) (st_title t) t0 else t0 in
  let t2 := if em_body t then set_body (t_body t) (st_body t) t1 else t1 in
  let t3 := if em_epic t then set_epic (t_epic t) (st_epic t) t2 else t2 in
  let t4 := if em_state t then set_state (t_state t) (st_state t) t3 else t3 in
  if em_claim t then set_claim (t_claimed t) (st_claim t) t4 else t4.

Definition rebuild (t : task) : task := foldr add_result (rebuild5 t) (t_results t).

(** * Replaying a run of update events that all target one live item *)

Definition item_fun (e : event) : task -> task :=
  match e with
  | EState _ st (Some ts) => set_state st ts
  | EClaim _ ag (Some ts) => set_claim ag ts
  | ETitle _ ti (Some ts) => set_title ti ts
  | EBody _ b (Some ts) => set_body b ts
  | EEpic _ e (Some ts) => set_epic e ts
  | EResult _ su pa sha mt gi (Some ts) => add_result (Result su pa sha mt gi ts)
  | _ => fun t => t
  end.

Definition item_ev (i : string) (e : event) : Prop :=
  match e with
  | EState j _ (Some _) | EClaim j _ (Some _) | ETitle j _ (Some _) | EBody j _ (Some _)
  | EEpic j _ (Some _) | EResult j _ _ _ _ _ (Some _) => j = i
  | _ => False
  end.

Lemma upd_task_insert g i f t :
  g_tasks g !! i = Some t ->
  upd_task g i f = Graph (<[i := f t]> (g_tasks g)) (g_deps g) (g_tombs g).
Proof.
  intros Hl. unfold upd_task. f_equal.
  apply map_eq. intros j. destruct (decide (j = i)) as [->|Hne].
  - rewrite lookup_alter, Hl, lookup_insert. reflexivity.
  - rewrite lookup_alter_ne, lookup_insert_ne by congruence. reflexivity.
Qed.

Lemma apply_item_event g i t e :
  tombed g i = false -> g_tasks g !! i = Some t -> item_ev i e ->
  apply_event g e = Ok (Graph (<[i := item_fun e t]> (g_tasks g)) (g_deps g) (g_tombs g)).
Proof.
  intros Ht Hl He.
  destruct e as [| j st [ts|] | j ag [ts|] | | | | j ti [ts|] | j b [ts|] | j ep [ts|] | | j su pa sha mt gi [ts|] | |];
    cbn in He; try contradiction; subst j; cbn [apply_event item_fun]; unfold on_item;
    rewrite Ht, Hl; f_equal; apply upd_task_insert; exact Hl.
Qed.

Lemma replay_item_events es : forall g i t,
  tombed g i = false -> g_tasks g !! i = Some t -> Forall (item_ev i) es ->
  replay_from g es
  = Ok (Graph (<[i := foldl (fun t e => item_fun e t) t es]> (g_tasks g)) (g_deps g) (g_tombs g)).
Proof.
  induction es as [|e es IH]; intros g i t Ht Hl Hes.
  - cbn. f_equal. destruct g as [T D X]; cbn in *. f_equal.
    symmetry. apply insert_id. exact Hl.
  - apply Forall_cons_1 in Hes as [He Hes].
    unfold replay_from in *. cbn [foldM]. rewrite (apply_item_event g i t e Ht Hl He).
    rewrite (IH _ i (item_fun e t)); [|exact Ht|cbn; apply lookup_insert|exact Hes].
    cbn. rewrite insert_insert. reflexivity.
Qed.

(** * One block *)

Definition opt_ev (b : bool) (e : event) : list event := if b then [e] else [].

Definition result_ev (i : string) (r : result) : event :=
  EResult i (r_summary r) (r_path r) (r_sha r) (r_mtime r) (r_git r) (Some (r_at r)).

Definition block_tail (t : task) : list event :=
  opt_ev (em_title t) (ETitle (t_id t) (t_title t) (Some (st_title t)))
  ++ opt_ev (em_body t) (EBody (t_id t) (t_body t) (Some (st_body t)))
  ++ opt_ev (em_epic t) (EEpic (t_id t) (t_epic t) (Some (st_epic t)))
  ++ opt_ev (em_state t) (EState (t_id t) (t_state t) (Some (st_state t)))
  ++ opt_ev (em_claim t) (EClaim (t_id t) (t_claimed t) (Some (st_claim t)))
  ++ (result_ev (t_id t) <$> rev (t_results t)).

Lemma compact_task_eq t :
  compact_task t =
  ENew (t_is_epic t) (t_id t) (t_uuid t) (m_epic t) (created_state t) (created_title t)
       (created_body t) (Some (created_at t)) :: block_tail t.
Proof. reflexivity. Qed.

Lemma block_tail_item t : Forall (item_ev (t_id t)) (block_tail t).
Proof.
  unfold block_tail, opt_ev. repeat apply Forall_app_2.
  - destruct (em_title t); repeat constructor.
  - destruct (em_body t); repeat constructor.
  - destruct (em_epic t); repeat constructor.
  - destruct (em_state t); repeat constructor.
  - destruct (em_claim t); repeat constructor.
  - apply Forall_fmap, Forall_forall. intros r _. reflexivity.
Qed.

Lemma result_ev_fun i r : item_fun (result_ev i r) = add_result r.
Proof. destruct r; reflexivity. Qed.

Lemma foldl_results i rs : forall t0,
  foldl (fun t e => item_fun e t) t0 (result_ev i <$> rev rs) = foldr add_result t0 rs.
Proof.
  induction rs as [|r rs IH]; intros t0; [reflexivity|].
  cbn [rev foldr]. rewrite fmap_app, foldl_app, IH. cbn [fmap list_fmap foldl]. rewrite result_ev_fun. reflexivity.
Qed.

Lemma foldl_opt_ev b e t0 :
  foldl (fun t e => item_fun e t) t0 (opt_ev b e) = if b then item_fun e t0 else t0.
Proof. destruct b; reflexivity. Qed.

Lemma block_tail_fold t :
  foldl (fun t e => item_fun e t) (rebuild0 t) (block_tail t) = rebuild t.
Proof.
  unfold block_tail, rebuild, rebuild5.
  rewrite !foldl_app, foldl_results, !foldl_opt_ev. reflexivity.
Qed.

Lemma replay_block g t :
  tombed g (t_id t) = false -> g_tasks g !! t_id t = None ->
  replay_from g (compact_task t)
  = Ok (Graph (<[t_id t := rebuild t]> (g_tasks g)) (g_deps g) (g_tombs g)).
Proof.
  intros Ht Hn. rewrite compact_task_eq. unfold replay_from. cbn [foldM apply_event].
  rewrite Ht, Hn. fold (rebuild0 t).
  change (foldM apply_event (block_tail t) ?g') with (replay_from g' (block_tail t)).
  rewrite (replay_item_events _ _ (t_id t) (rebuild0 t)).
  - cbn. rewrite insert_insert, block_tail_fold. reflexivity.
  - exact Ht.
  - cbn. apply lookup_insert.
  - apply block_tail_item.
Qed.

(** * All blocks *)

Lemma replay_blocks (l : list (string * task)) : forall g,
  g_tombs g = ∅ ->
  (forall k t, (k, t) ∈ l -> t_id t = k) ->
  NoDup l.*1 ->
  (forall k, k ∈ l.*1 -> g_tasks g !! k = None) ->
  replay_from g (concat (compact_task <$> l.*2))
  = Ok (Graph (list_to_map (prod_map (fun k => k) rebuild <$> l) ∪ g_tasks g) (g_deps g) ∅).
Proof.
  induction l as [|[k t] l IH]; intros g Htomb Hid Hnd Hfresh.
  - cbn. rewrite (left_id_L ∅ (∪)). destruct g; cbn in *. subst. reflexivity.
  - cbn [fmap list_fmap concat]. rewrite replay_from_app.
    assert (Hk : t_id t = k) by (apply Hid; left).
    cbn [fmap list_fmap fst] in Hnd. apply stdpp.list.NoDup_cons in Hnd as [Hkl Hnd].
    rewrite replay_block; cbn [snd]; rewrite ?Hk.
    + cbn [rbind]. rewrite IH; cbn.
      * f_equal. f_equal.
        rewrite <- insert_union_r, <- insert_union_l; [reflexivity|].
        apply not_elem_of_list_to_map_1.
        rewrite <- list_fmap_compose. intros Hin. apply Hkl.
        erewrite list_fmap_ext in Hin; [exact Hin|]. intros ? [? ?]; reflexivity.
      * exact Htomb.
      * intros k' t' Hin. apply Hid. right. exact Hin.
      * exact Hnd.
      * intros k' Hin. rewrite lookup_insert_ne; [apply Hfresh; right; exact Hin|].
        intros ->. contradiction.
    + unfold tombed. rewrite Htomb. apply bool_decide_eq_false. set_solver.
    + apply Hfresh. left.
Qed.

(** * The link events *)

Lemma replay_links (l : list (string * string)) : forall T D,
  replay_from (Graph T D ∅) ((fun p => ELink p.1 p.2 depends) <$> l)
  = Ok (Graph T (list_to_set l ∪ D) ∅).
Proof.
  induction l as [|[a b] l IH]; intros T D.
  - cbn. rewrite (left_id_L ∅ (∪)). reflexivity.
  - cbn [fmap list_fmap]. unfold replay_from in *. cbn [foldM apply_event fst snd].
    unfold tombed. cbn [g_tombs].
    rewrite !bool_decide_eq_false_2 by set_solver. cbn. rewrite IH. f_equal. f_equal.
    set_solver.
Qed.

(** * The whole compacted log *)

Definition ids_ok (g : graph) : Prop := forall k t, g_tasks g !! k = Some t -> t_id t = k.

Definition compacted (gf : graph) : graph := Graph (rebuild <$> g_tasks gf) (g_deps gf) ∅.

Global Instance key_le_trans {A} : Transitive (@key_le A).
Proof. intros a b c. unfold key_le. apply str_le_trans. Qed.
Global Instance key_le_total {A} : Total (@key_le A).
Proof. intros a b. unfold key_le. apply str_le_total. Qed.

Lemma replay_compact_events gf :
  ids_ok gf -> replay_raw (compact_events gf) = Ok (compacted gf).
Proof.
  intros Hid. unfold replay_raw, compact_events, sorted_tasks. rewrite replay_from_app.
  set (l := merge_sort key_le (map_to_list (g_tasks gf))).
  assert (Hperm : l ≡ₚ map_to_list (g_tasks gf)) by apply merge_sort_Permutation.
  rewrite (replay_blocks l empty_graph).
  - cbn [rbind empty_graph g_tasks g_deps]. rewrite replay_links. unfold compacted. f_equal. f_equal.
    + rewrite (right_id_L ∅ (∪)). rewrite list_to_map_fmap. f_equal.
      transitivity (list_to_map (M:=gmap string task) (map_to_list (g_tasks gf)));
        [|apply list_to_map_to_list].
      apply list_to_map_proper; [|exact Hperm].
      rewrite Hperm. apply NoDup_fst_map_to_list.
    + rewrite (right_id_L ∅ (∪)). unfold sorted_edges.
      apply set_eq. intros p. rewrite elem_of_list_to_set, merge_sort_Permutation, elem_of_elements.
      reflexivity.
  - reflexivity.
  - intros k t Hin. rewrite Hperm in Hin. apply elem_of_map_to_list in Hin. apply Hid, Hin.
  - rewrite Hperm. apply NoDup_fst_map_to_list.
  - intros k _. apply lookup_empty.
Qed.

(** * Fields of the rebuilt task that need no stamp reasoning *)

Lemma foldr_add_result_fields rs t0 :
  let t' := foldr add_result t0 rs in
  t_id t' = t_id t0 /\ t_uuid t' = t_uuid t0 /\ t_epic t' = t_epic t0 /\ t_is_epic t' = t_is_epic t0
  /\ t_state t' = t_state t0 /\ t_title t' = t_title t0 /\ t_body t' = t_body t0
  /\ t_claimed t' = t_claimed t0 /\ t_created t' = t_created t0
  /\ t_results t' = rs ++ t_results t0
  /\ m_last_claim t' = m_last_claim t0 /\ m_created t' = m_created t0 /\ m_epic t' = m_epic t0
  /\ m_last_title t' = m_last_title t0 /\ m_last_body t' = m_last_body t0
  /\ m_last_epic t' = m_last_epic t0 /\ m_last_state t' = m_last_state t0.
Proof.
  induction rs as [|r rs IH]; cbn.
  - repeat split; reflexivity.
  - cbn in IH. destruct IH as (?&?&?&?&?&?&?&?&?&Hr&?&?&?&?&?&?&?).
    rewrite Hr. repeat split; assumption.
Qed.

Ltac rebuild_fields t :=
  unfold rebuild;
  pose proof (foldr_add_result_fields (t_results t) (rebuild5 t)) as Hfields; cbn zeta in Hfields;
  destruct Hfields as (Hf_id&Hf_uuid&Hf_epic&Hf_isepic&Hf_state&Hf_title&Hf_body&Hf_claimed&Hf_created
                       &Hf_results&Hf_lclaim&Hf_mcreated&Hf_mepic&Hf_ltitle&Hf_lbody&Hf_lepic&Hf_lstate).

Lemma rebuild_id t : t_id (rebuild t) = t_id t.
Proof.
  rebuild_fields t. rewrite Hf_id. unfold rebuild5.
  destruct (em_title t), (em_body t), (em_epic t), (em_state t), (em_claim t); reflexivity.
Qed.
Lemma rebuild_uuid t : t_uuid (rebuild t) = t_uuid t.
Proof.
  rebuild_fields t. rewrite Hf_uuid. unfold rebuild5.
  destruct (em_title t), (em_body t), (em_epic t), (em_state t), (em_claim t); reflexivity.
Qed.
Lemma rebuild_is_epic t : t_is_epic (rebuild t) = t_is_epic t.
Proof.
  rebuild_fields t. rewrite Hf_isepic. unfold rebuild5.
  destruct (em_title t), (em_body t), (em_epic t), (em_state t), (em_claim t); reflexivity.
Qed.
Lemma rebuild_created t : t_created (rebuild t) = created_at t.
Proof.
  rebuild_fields t. rewrite Hf_created. unfold rebuild5.
  destruct (em_title t), (em_body t), (em_epic t), (em_state t), (em_claim t); reflexivity.
Qed.
Lemma rebuild_m_created t : m_created (rebuild t) = created_at t.
Proof.
  rebuild_fields t. rewrite Hf_mcreated. unfold rebuild5.
  destruct (em_title t), (em_body t), (em_epic t), (em_state t), (em_claim t); reflexivity.
Qed.
Lemma rebuild_m_epic t : m_epic (rebuild t) = m_epic t.
Proof.
  rebuild_fields t. rewrite Hf_mepic. unfold rebuild5.
  destruct (em_title t), (em_body t), (em_epic t), (em_state t), (em_claim t); reflexivity.
Qed.
Lemma rebuild_results t : t_results (rebuild t) = t_results t.
Proof.
  rebuild_fields t. rewrite Hf_results. unfold rebuild5.
  destruct (em_title t), (em_body t), (em_epic t), (em_state t), (em_claim t); cbn; apply app_nil_r.
Qed.

Lemma negb_eqb_false a b : negb (String.eqb a b) = false -> a = b.
Proof. intros H. apply negb_false_iff in H. apply String.eqb_eq. exact H. Qed.

Lemma rebuild_state t : t_state (rebuild t) = t_state t.
Proof.
  rebuild_fields t. rewrite Hf_state. unfold rebuild5.
  destruct (em_state t) eqn:Es;
    destruct (em_title t), (em_body t), (em_epic t), (em_claim t); cbn; try reflexivity;
    unfold em_state in Es; apply orb_false_elim in Es as [Es _];
    symmetry; apply negb_eqb_false, Es.
Qed.
Lemma rebuild_title t : t_title (rebuild t) = t_title t.
Proof.
  rebuild_fields t. rewrite Hf_title. unfold rebuild5.
  destruct (em_title t) eqn:Es;
    destruct (em_state t), (em_body t), (em_epic t), (em_claim t); cbn; try reflexivity;
    unfold em_title in Es; apply orb_false_elim in Es as [Es _];
    symmetry; apply negb_eqb_false, Es.
Qed.
Lemma rebuild_body t : t_body (rebuild t) = t_body t.
Proof.
  rebuild_fields t. rewrite Hf_body. unfold rebuild5.
  destruct (em_body t) eqn:Es;
    destruct (em_state t), (em_title t), (em_epic t), (em_claim t); cbn; try reflexivity;
    unfold em_body in Es; apply orb_false_elim in Es as [Es _];
    symmetry; apply negb_eqb_false, Es.
Qed.
Lemma rebuild_claimed t : t_claimed (rebuild t) = t_claimed t.
Proof.
  rebuild_fields t. rewrite Hf_claimed. unfold rebuild5.
  destruct (em_claim t) eqn:Es;
    destruct (em_state t), (em_title t), (em_epic t), (em_body t); cbn; try reflexivity;
    try destruct (clears_claim (t_state t));
    unfold em_claim in Es; symmetry; apply negb_eqb_false, Es.
Qed.
Lemma rebuild_epic t :
  (t_is_epic t = true -> t_epic t = m_epic t) -> t_epic (rebuild t) = t_epic t.
Proof.
  intros Hep. rebuild_fields t. rewrite Hf_epic. unfold rebuild5.
  destruct (em_epic t) eqn:Es;
    destruct (em_state t), (em_title t), (em_claim t), (em_body t); cbn; try reflexivity;
    unfold em_epic in Es; (destruct (t_is_epic t); [symmetry; apply Hep; reflexivity|]);
    cbn in Es; apply orb_false_elim in Es as [Es _]; symmetry; apply negb_eqb_false, Es.
Qed.

(** * migrate does not touch the core fields *)
Lemma migrate_fields t :
  t_id (migrate t) = t_id t /\ t_uuid (migrate t) = t_uuid t /\ t_epic (migrate t) = t_epic t
  /\ t_is_epic (migrate t) = t_is_epic t /\ t_state (migrate t) = t_state t
  /\ t_claimed (migrate t) = t_claimed t /\ t_created (migrate t) = t_created t
  /\ t_updated (migrate t) = t_updated t /\ t_results (migrate t) = t_results t
  /\ m_created (migrate t) = m_created t /\ m_epic (migrate t) = m_epic t
  /\ m_last_claim (migrate t) = m_last_claim t /\ m_last_title (migrate t) = m_last_title t
  /\ m_last_body (migrate t) = m_last_body t /\ m_last_epic (migrate t) = m_last_epic t
  /\ m_last_state (migrate t) = m_last_state t.
Proof.
  unfold migrate. destruct (is_blank (t_title t)); [|repeat split; reflexivity].
  destruct (derive_title_body (t_body t)). repeat split; reflexivity.
Qed.

Lemma created_at_migrate t : created_at (migrate t) = created_at t.
Proof.
  unfold created_at. destruct (migrate_fields t) as (_&_&_&_&_&_&Hc&_&_&Hm&_). rewrite Hc, Hm. reflexivity.
Qed.

(** * The core of a task: what readiness, claim order and pruning look at *)
Definition task_core (t : task) := (t_id t, t_is_epic t, t_state t, t_claimed t, t_epic t, t_created t).

Lemma task_core_rebuild t :
  created_at t = t_created t -> (t_is_epic t = true -> t_epic t = m_epic t) ->
  task_core (rebuild t) = task_core t.
Proof.
  intros Hc Hep. unfold task_core.
  rewrite rebuild_id, rebuild_is_epic, rebuild_state, rebuild_claimed, rebuild_epic, rebuild_created, Hc
    by exact Hep.
  reflexivity.
Qed.

Lemma task_core_migrate t : task_core (migrate t) = task_core t.
Proof.
  unfold task_core. destruct (migrate_fields t) as (->&_&->&->&->&->&->&_). reflexivity.
Qed.

Lemma ids_ok_finalize g : ids_ok g -> ids_ok (finalize g).
Proof.
  intros Hid k t. cbn. rewrite lookup_fmap. destruct (g_tasks g !! k) as [t0|] eqn:E; cbn; [|discriminate].
  intros [= <-]. destruct (migrate_fields t0) as (->&_). apply Hid, E.
Qed.

Lemma created_at_of_m_created t : m_created t = t_created t -> created_at t = t_created t.
Proof. unfold created_at. intros ->. destruct (is_zero (t_created t)); reflexivity. Qed.

(** The graph replaying the compacted log yields. *)
Definition compact_graph (g : graph) : graph := compacted (finalize g).

Lemma compact_graph_lookup g i :
  g_tasks (compact_graph g) !! i = (fun t => rebuild (migrate t)) <$> (g_tasks g !! i).
Proof. cbn. rewrite !lookup_fmap. destruct (g_tasks g !! i); reflexivity. Qed.

Lemma compact_core_gen (g : graph) :
  ids_ok g ->
  (forall i t, g_tasks g !! i = Some t -> t_is_epic t = true -> t_epic t = m_epic t) ->
  (forall i t, g_tasks g !! i = Some t -> created_at t = t_created t) ->
  replay_raw (compact_events (finalize g)) = Ok (compact_graph g)
  /\ (forall i, task_core <$> (g_tasks (compact_graph g) !! i) = task_core <$> (g_tasks g !! i))
  /\ g_deps (compact_graph g) = g_deps g /\ g_tombs (compact_graph g) = ∅.
Proof.
  intros Hid Hep Hcr. split; [|split; [|split; reflexivity]].
  - apply replay_compact_events, ids_ok_finalize, Hid.
  - intros i. rewrite compact_graph_lookup. destruct (g_tasks g !! i) as [t|] eqn:E; [|reflexivity].
    cbn. f_equal. destruct (migrate_fields t) as (_&_&Hme&Hmi&_&_&Hmc&_&_&_&Hmm&_).
    rewrite task_core_rebuild, task_core_migrate; [reflexivity|..].
    + rewrite created_at_migrate, Hmc. eapply Hcr, E.
    + rewrite Hmi, Hme, Hmm. eapply Hep, E.
Qed.

(** The statement requested by the reachability development. *)
Lemma compact_core (g : graph) :
  (forall i t, g_tasks g !! i = Some t -> t_id t = i) ->
  (forall i t, g_tasks g !! i = Some t -> t_is_epic t = true -> t_epic t = m_epic t) ->
  (forall i t, g_tasks g !! i = Some t -> m_created t = t_created t) ->
  exists g', replay_raw (compact_events (finalize g)) = Ok g'
    /\ (forall i, task_core <$> (g_tasks g' !! i) = task_core <$> (g_tasks g !! i))
    /\ g_deps g' = g_deps g /\ g_tombs g' = ∅.
Proof.
  intros Hid Hep Hcr. exists (compact_graph g). apply compact_core_gen; [exact Hid|exact Hep|].
  intros i t E. apply created_at_of_m_created. eapply Hcr, E.
Qed.

Print Assumptions compact_core.
