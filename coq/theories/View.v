(** View.v — what a reader can observe of a replayed graph: the fields of
    [show --json] / [list --json] per item, plus the derived orders. *)
From Ergo Require Import Base Text Events Replay Ready Compact Cmd.
Local Open Scope string_scope.
Local Open Scope list_scope.

Record otask := OTask {
  o_id : string; o_uuid : string; o_epic : string; o_is_epic : bool; o_state : string;
  o_title : string; o_body : string; o_claimed : string;
  o_created : time; o_updated : time; o_claimed_at : option time;
  o_deps : list string; o_rdeps : list string; o_results : list result;
  o_ready : bool; o_blocked : bool }.

Definition claimed_at (t : task) : option time :=
  if (String.eqb (t_claimed t) "" || is_zero (m_last_claim t))%bool then None else Some (m_last_claim t).

Definition view_task (g : graph) (t : task) : otask :=
  OTask (t_id t) (t_uuid t) (t_epic t) (t_is_epic t) (t_state t) (t_title t) (t_body t) (t_claimed t)
        (t_created t) (t_updated t) (claimed_at t)
        (deps_of g (t_id t)) (rdeps_of g (t_id t)) (t_results t)
        (is_ready g t) (is_blocked g t).

Record osnap := OSnap {
  os_tasks : list otask;            (* sorted by id *)
  os_tombs : list string;           (* sorted *)
  os_ready_order : list string;     (* the order in which claim would hand tasks out *)
  os_prune : list string }.

Definition view (g : graph) : osnap :=
  OSnap (view_task g <$> sorted_tasks g)
        (sort_strings (elements (g_tombs g)))
        (t_id <$> ready_tasks g "")
        (prune_targets g).

(** The part of a view that compaction must preserve (everything but tombstones). *)
Definition obs (g : graph) : list otask * list string :=
  (view_task g <$> sorted_tasks g, t_id <$> ready_tasks g "").
