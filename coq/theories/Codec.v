(** Codec.v — byte-level model of Go's [encoding/json] (go1.24) string encoder
    [appendString] and string decoder (scanner check + [unquoteBytes]), and the
    round-trip theorem for valid UTF-8. *)
From Coq Require Import ZArith NArith Ascii String List Bool Lia ZifyN ZifyNat.
From Ergo Require Import Utf8.
Import ListNotations.
Local Open Scope string_scope.
Local Open Scope N_scope.
Local Ltac Zify.zify_post_hook ::= Z.div_mod_to_equations.

(** * Encoder: [appendString(nil, s, escapeHTML)] *)

Definition hexd (n : N) : N := if n <? 10 then 48 + n else 87 + n.  (* "0123456789abcdef"[n] *)

(** [htmlSafeSet[c] || (!escapeHTML && safeSet[c])] for c < 0x80 (tables.go). *)
Definition safe_byte (html : bool) (c : N) : bool :=
  (32 <=? c) && negb (c =? 34) && negb (c =? 92)
  && negb (html && ((c =? 60) || (c =? 62) || (c =? 38))).

(** What one ASCII byte contributes to the output. *)
Definition enc_ascii (html : bool) (c : N) : string :=
  if safe_byte html c then bytes [c]
  else if (c =? 92) || (c =? 34) then bytes [92; c]
  else if c =? 8 then bytes [92; 98]       (* \b *)
  else if c =? 12 then bytes [92; 102]     (* \f *)
  else if c =? 10 then bytes [92; 110]     (* \n *)
  else if c =? 13 then bytes [92; 114]     (* \r *)
  else if c =? 9 then bytes [92; 116]      (* \t *)
  else bytes [92; 117; 48; 48; hexd (c / 16); hexd (c mod 16)].

Definition esc_fffd : string := bytes [92; 117; 102; 102; 102; 100].     (* � *)
Definition esc_202x (c : N) : string := bytes [92; 117; 50; 48; 50; hexd (c mod 16)].

(** The loop of [appendString].  Go copies the maximal unescaped runs
    [src[start:i]]; emitting each unescaped rune's source bytes as it is
    passed is the same output.  Every iteration consumes >= 1 byte, so
    [length s] fuel is enough. *)
Fixpoint enc_body (n : nat) (html : bool) (s : string) : string :=
  match n with
  | O => ""
  | S n =>
    match s with
    | "" => ""
    | String a r =>
      let c := bv a in
      if c <? 0x80 then enc_ascii html c ++ enc_body n html r
      else
        let d := decode_rune s in
        if is_bad d then esc_fffd ++ enc_body n html r
        else if (fst d =? 0x2028) || (fst d =? 0x2029)
        then esc_202x (fst d) ++ enc_body n html (sdrop (snd d) s)
        else stake (snd d) s ++ enc_body n html (sdrop (snd d) s)
    end
  end.

Definition quote : string := bytes [34].
Definition json_encode_string (html : bool) (s : string) : string :=
  quote ++ enc_body (String.length s) html s ++ quote.

(** * Decoder: [json.Unmarshal] of one string token = scanner check + [unquote] *)

Definition hexval (c : N) : option N :=
  if (48 <=? c) && (c <=? 57) then Some (c - 48)
  else if (97 <=? c) && (c <=? 102) then Some (c - 87)
  else if (65 <=? c) && (c <=? 70) then Some (c - 55)
  else None.

(** The four hex digits of [getu4] (after the "\u"). *)
Definition hex4 (s : string) : option (N * string) :=
  match s with
  | String a (String b (String c (String d r))) =>
    match hexval (bv a), hexval (bv b), hexval (bv c), hexval (bv d) with
    | Some x, Some y, Some z, Some w => Some (((x * 16 + y) * 16 + z) * 16 + w, r)
    | _, _, _, _ => None
    end
  | _ => None
  end.

(** [getu4]: [None] is Go's -1. *)
Definition getu4 (s : string) : option (N * string) :=
  match s with
  | String a (String b r) => if (bv a =? 92) && (bv b =? 117) then hex4 r else None
  | _ => None
  end.

Definition ufffd : string := bytes [0xEF; 0xBF; 0xBD].

Inductive step := Done | Fail | Emit (out rest : string).

(** One iteration of the [unquoteBytes] loop on the text after the opening
    quote.  The closing quote is recognised as a quote that is the last byte
    (Go strips it first and then rejects any quote in the interior; same
    thing).  [\'] is accepted by [unquoteBytes] but the scanner that runs
    before it ([checkValid]) rejects it, so it is rejected here. *)
Definition dec_step (s : string) : step :=
  match s with
  | "" => Fail
  | String a r =>
    let c := bv a in
    if c =? 34 then match r with "" => Done | _ => Fail end
    else if c =? 92 then
      match r with
      | "" => Fail
      | String e r2 =>
        let d := bv e in
        if (d =? 34) || (d =? 92) || (d =? 47) then Emit (bytes [d]) r2
        else if d =? 98 then Emit (bytes [8]) r2
        else if d =? 102 then Emit (bytes [12]) r2
        else if d =? 110 then Emit (bytes [10]) r2
        else if d =? 114 then Emit (bytes [13]) r2
        else if d =? 116 then Emit (bytes [9]) r2
        else if d =? 117 then
          match hex4 r2 with
          | None => Fail
          | Some (rr, r3) =>
            if (0xD800 <=? rr) && (rr <? 0xE000) then           (* utf16.IsSurrogate *)
              match getu4 r3 with
              | Some (rr1, r4) =>
                if (rr <? 0xDC00) && (0xDC00 <=? rr1) && (rr1 <? 0xE000)
                then Emit (encode_rune ((rr - 0xD800) * 1024 + (rr1 - 0xDC00) + 0x10000)) r4
                else Emit ufffd r3
              | None => Emit ufffd r3
              end
            else Emit (encode_rune rr) r3
          end
        else Fail
      end
    else if c <? 32 then Fail
    else if c <? 0x80 then Emit (bytes [c]) r
    else let d := decode_rune s in Emit (encode_rune (fst d)) (sdrop (snd d) s)
  end.

(** Every [Emit] consumes >= 1 byte, so [length s] fuel is enough. *)
Fixpoint dec_body (n : nat) (s : string) : option string :=
  match n with
  | O => None
  | S n =>
    match dec_step s with
    | Done => Some ""
    | Fail => None
    | Emit out rest =>
      match dec_body n rest with Some t => Some (out ++ t) | None => None end
    end
  end.

Definition json_decode_string (q : string) : option string :=
  match q with
  | String a r => if bv a =? 34 then dec_body (String.length r) r else None
  | "" => None
  end.

(** * Round trip *)

(** [string([]rune(s))]: each malformed byte becomes U+FFFD, the rest is kept. *)
Fixpoint coerce_body (n : nat) (s : string) : string :=
  match n with
  | O => ""
  | S n =>
    match s with
    | "" => ""
    | String a r =>
      let d := decode_rune s in
      if is_bad d then ufffd ++ coerce_body n r
      else stake (snd d) s ++ coerce_body n (sdrop (snd d) s)
    end
  end.
Definition to_valid_utf8 (s : string) : string := coerce_body (String.length s) s.

(** What the encoder emits for one well-formed rune. *)
Definition enc_rune (html : bool) (r : N) : string :=
  if r <? 0x80 then enc_ascii html r
  else if (r =? 0x2028) || (r =? 0x2029) then esc_202x r
  else encode_rune r.

Lemma enc_body_good n html s r sz t : rune_head s r sz t ->
  enc_body (S n) html s = enc_rune html r ++ enc_body n html t.
Proof.
  intros H.
  destruct (rune_head_shape _ _ _ _ H) as (a & s' & -> & Ea & Hlt & Hge).
  destruct (rune_head_decode _ _ _ _ H) as [D E].
  destruct (rune_head_encode _ _ _ _ H) as (_ & Es & El).
  pose proof (rune_head_not_bad _ _ _ _ H) as B.
  cbn [enc_body]. cbv zeta. unfold enc_rune. rewrite Ea.
  destruct (N.ltb_spec r 0x80).
  - destruct Hlt as (-> & -> & _); auto.
  - rewrite D, B. cbn [fst snd]. rewrite E.
    destruct ((r =? 0x2028) || (r =? 0x2029)); auto.
    rewrite Es at 1. rewrite El, stake_app. reflexivity.
Qed.

Lemma enc_body_bad n html a r1 : is_bad (decode_rune (String a r1)) = true ->
  enc_body (S n) html (String a r1) = esc_fffd ++ enc_body n html r1.
Proof.
  intros B. pose proof (is_bad_high _ _ B). cbn [enc_body]. cbv zeta.
  destruct (N.ltb_spec (bv a) 0x80); [lia|]. rewrite B. reflexivity.
Qed.

Lemma coerce_body_good n s r sz t : rune_head s r sz t ->
  coerce_body (S n) s = encode_rune r ++ coerce_body n t.
Proof.
  intros H.
  destruct (rune_head_shape _ _ _ _ H) as (a & s' & -> & _).
  destruct (rune_head_decode _ _ _ _ H) as [D E].
  destruct (rune_head_encode _ _ _ _ H) as (_ & Es & El).
  pose proof (rune_head_not_bad _ _ _ _ H) as B.
  cbn [coerce_body]. cbv zeta. rewrite D, B. cbn [snd]. rewrite E.
  rewrite Es at 1. rewrite El, stake_app. reflexivity.
Qed.

(** Decoder steps on what the encoder emits *)
Lemma dec_step_fffd u : dec_step (esc_fffd ++ u) = Emit ufffd u.
Proof. reflexivity. Qed.

Lemma dec_step_202x r u : r = 0x2028 \/ r = 0x2029 ->
  dec_step (esc_202x r ++ u) = Emit (encode_rune r) u.
Proof. intros [-> | ->]; reflexivity. Qed.

Lemma dec_step_ascii html a u : (bv a <? 0x80) = true ->
  dec_step (enc_ascii html (bv a) ++ u) = Emit (bytes [bv a]) u.
Proof.
  destruct a as [[] [] [] [] [] [] [] []]; destruct html; intros H;
    try discriminate H; vm_compute; reflexivity.
Qed.

Lemma dec_step_raw s r sz t : rune_head s r sz t -> 0x80 <= r ->
  dec_step s = Emit (encode_rune r) t.
Proof.
  intros H Hr.
  destruct (rune_head_shape _ _ _ _ H) as (a & s' & -> & _ & _ & Hge).
  destruct (rune_head_decode _ _ _ _ H) as [D E].
  destruct (Hge Hr) as [_ Ha].
  unfold dec_step. cbv zeta.
  destruct (N.eqb_spec (bv a) 34); [lia|].
  destruct (N.eqb_spec (bv a) 92); [lia|].
  destruct (N.ltb_spec (bv a) 32); [lia|].
  destruct (N.ltb_spec (bv a) 0x80); [lia|].
  rewrite D. cbn [fst snd]. rewrite E. reflexivity.
Qed.

Lemma dec_step_rune html r u : is_scalar r = true ->
  dec_step (enc_rune html r ++ u) = Emit (encode_rune r) u.
Proof.
  intros Hs. unfold enc_rune.
  destruct (N.ltb_spec r 0x80).
  - rewrite <- (bv_ch r) by lia. rewrite dec_step_ascii.
    + f_equal. unfold encode_rune. rewrite bv_ch by lia. destruct (N.leb_spec r 0x7F); [reflexivity|lia].
    + rewrite bv_ch by lia. apply N.ltb_lt; auto.
  - destruct (N.eqb_spec r 0x2028); [apply dec_step_202x; auto|].
    destruct (N.eqb_spec r 0x2029); [apply dec_step_202x; auto|].
    cbn [orb]. eapply dec_step_raw; [apply encode_head; auto|auto].
Qed.

Lemma dec_body_quote m : dec_body (S m) quote = Some "".
Proof. reflexivity. Qed.

Lemma enc_rune_length html r : (1 <= String.length (enc_rune html r))%nat.
Proof.
  unfold enc_rune. destruct (r <? 0x80).
  - unfold enc_ascii. repeat match goal with |- context [if ?c then _ else _] => destruct c end; simpl; lia.
  - destruct ((r =? 0x2028) || (r =? 0x2029)); [simpl; lia|].
    unfold encode_rune. repeat match goal with |- context [if ?c then _ else _] => destruct c end; simpl; lia.
Qed.

Lemma roundtrip_body html : forall n s m,
  (String.length s <= n)%nat -> (String.length (enc_body n html s) < m)%nat ->
  dec_body m (enc_body n html s ++ quote) = Some (coerce_body n s).
Proof.
  induction n as [|n IH]; intros s m Hn Hm.
  { destruct m; [lia|]. reflexivity. }
  destruct s as [|a r1].
  { destruct m; [lia|]. reflexivity. }
  destruct (is_bad (decode_rune (String a r1))) eqn:B.
  - rewrite enc_body_bad in * by auto.
    cbn [coerce_body]. cbv zeta. rewrite B.
    destruct m as [|m]; [lia|].
    rewrite app_assoc_s. cbn [dec_body]. rewrite dec_step_fffd.
    rewrite IH; auto.
    + simpl in Hn; lia.
    + rewrite length_app_s in Hm. simpl in Hm. lia.
  - destruct (decode_rune (String a r1)) as [r sz] eqn:D.
    destruct (decode_rune_inv _ _ _ D B) as [t H]; [congruence|].
    destruct (rune_head_length _ _ _ _ H) as [L1 L2].
    destruct (rune_head_encode _ _ _ _ H) as (Hs & _ & _).
    rewrite (enc_body_good _ _ _ _ _ _ H) in *.
    rewrite (coerce_body_good _ _ _ _ _ H).
    destruct m as [|m]; [lia|].
    rewrite app_assoc_s. cbn [dec_body]. rewrite dec_step_rune by auto.
    rewrite length_app_s in Hm. pose proof (enc_rune_length html r).
    rewrite IH; auto; lia.
Qed.

Lemma coerce_body_valid : forall n s, (String.length s <= n)%nat ->
  valid_utf8 s = true -> coerce_body n s = s.
Proof.
  induction n as [|n IH]; intros s Hn V.
  { destruct s; simpl in Hn; [reflexivity|lia]. }
  destruct s as [|a r1]; [reflexivity|].
  rewrite valid_utf8_unfold in V. cbv zeta in V. cbn [coerce_body]. cbv zeta.
  destruct (is_bad (decode_rune (String a r1))) eqn:B; [discriminate|].
  rewrite IH; auto.
  - apply stake_sdrop.
  - destruct (decode_rune (String a r1)) as [r sz] eqn:D.
    destruct (decode_rune_inv _ _ _ D B) as [t H]; [congruence|].
    destruct (rune_head_length _ _ _ _ H) as [L1 L2].
    destruct (rune_head_decode _ _ _ _ H) as [_ E]. cbn [snd]. rewrite E. lia.
Qed.

Theorem decode_encode_any html s :
  json_decode_string (json_encode_string html s) = Some (to_valid_utf8 s).
Proof.
  unfold json_encode_string, json_decode_string, to_valid_utf8.
  cbn [quote bytes append]. rewrite bv_ch by lia. cbn [N.eqb Pos.eqb].
  apply roundtrip_body; auto.
  rewrite length_app_s. simpl. lia.
Qed.

Theorem to_valid_utf8_id s : valid_utf8 s = true -> to_valid_utf8 s = s.
Proof. apply coerce_body_valid; auto. Qed.

Theorem decode_encode html s : valid_utf8 s = true ->
  json_decode_string (json_encode_string html s) = Some s.
Proof. intros V. rewrite decode_encode_any, to_valid_utf8_id; auto. Qed.

(** The hypothesis is necessary: the result is always valid UTF-8. *)
Lemma coerce_body_is_valid : forall n s, valid_utf8 (coerce_body n s) = true.
Proof.
  induction n as [|n IH]; intros s; [reflexivity|].
  destruct s as [|a r1]; [reflexivity|].
  destruct (is_bad (decode_rune (String a r1))) eqn:B.
  - cbn [coerce_body]. cbv zeta. rewrite B. rewrite valid_utf8_app; auto.
  - destruct (decode_rune (String a r1)) as [r sz] eqn:D.
    destruct (decode_rune_inv _ _ _ D B) as [t H]; [congruence|].
    destruct (rune_head_encode _ _ _ _ H) as (Hs & _ & _).
    rewrite (coerce_body_good _ _ _ _ _ H). rewrite valid_utf8_encode_app; auto.
Qed.

Theorem decode_encode_iff html s :
  json_decode_string (json_encode_string html s) = Some s <-> valid_utf8 s = true.
Proof.
  split; [|apply decode_encode].
  rewrite decode_encode_any. intros E. inversion E as [E'].
  rewrite <- E' at 1. apply coerce_body_is_valid.
Qed.

(** * Shape of the encoder output *)

Fixpoint all_bytes (p : N -> bool) (s : string) : bool :=
  match s with "" => true | String a r => p (bv a) && all_bytes p r end.
Lemma all_bytes_app p x y : all_bytes p (x ++ y) = all_bytes p x && all_bytes p y.
Proof. induction x; simpl; auto. rewrite IHx, andb_assoc. reflexivity. Qed.
Lemma all_bytes_impl (p q : N -> bool) s : (forall c, p c = true -> q c = true) ->
  all_bytes p s = true -> all_bytes q s = true.
Proof.
  intros I. induction s; simpl; auto. rewrite !andb_true_iff. intros [A B]. auto.
Qed.

(** The output is a concatenation of chunks of five kinds. *)
Lemma enc_body_chunks (P : string -> Prop) html :
  P "" -> (forall x y, P x -> P y -> P (x ++ y)) ->
  (forall a, bv a < 0x80 -> P (enc_ascii html (bv a))) ->
  P esc_fffd -> P (esc_202x 0x2028) -> P (esc_202x 0x2029) ->
  (forall r, is_scalar r = true -> 0x80 <= r -> P (encode_rune r)) ->
  forall n s, P (enc_body n html s).
Proof.
  intros P0 Papp Pa Pf P8 P9 Pr. induction n as [|n IH]; intros s; [exact P0|].
  destruct s as [|a r1]; [exact P0|].
  destruct (is_bad (decode_rune (String a r1))) eqn:B.
  - rewrite enc_body_bad by auto. auto.
  - destruct (decode_rune (String a r1)) as [r sz] eqn:D.
    destruct (decode_rune_inv _ _ _ D B) as [t H]; [congruence|].
    destruct (rune_head_encode _ _ _ _ H) as (Hs & _ & _).
    destruct (rune_head_shape _ _ _ _ H) as (a' & s' & E & _ & Hlt & _).
    rewrite (enc_body_good _ _ _ _ _ _ H). apply Papp; auto.
    unfold enc_rune. destruct (N.ltb_spec r 0x80).
    + destruct (Hlt H0) as (-> & _). apply Pa; auto.
    + destruct (N.eqb_spec r 0x2028); [subst; exact P8|].
      destruct (N.eqb_spec r 0x2029); [subst; exact P9|]. apply Pr; auto.
Qed.

Lemma encode_rune_high r : 0x80 <= r -> all_bytes (fun c => 0x80 <=? c) (encode_rune r) = true.
Proof.
  intros Hr. unfold encode_rune.
  repeat match goal with |- context [if ?c then _ else _] => destruct c eqn:? end;
  cbn [bytes all_bytes]; try reflexivity.
  - apply N.leb_le in Heqb. lia.
  - apply N.leb_le in Heqb0. rewrite !bv_ch by lia.
    rewrite !andb_true_iff, !N.leb_le. lia.
  - assert (r <= 0xFFFF).
    { apply orb_true_iff in Heqb1. destruct Heqb1 as [A|A].
      - apply N.ltb_lt in A. lia.
      - apply andb_true_iff in A. destruct A as [_ A]. apply N.leb_le in A. auto. }
    rewrite !bv_ch by lia. rewrite !andb_true_iff, !N.leb_le. lia.
  - apply andb_true_iff in Heqb2. destruct Heqb2 as [_ A]. apply N.leb_le in A.
    rewrite !bv_ch by lia. rewrite !andb_true_iff, !N.leb_le. lia.
Qed.

Lemma enc_ascii_printable html a : bv a < 0x80 ->
  all_bytes (fun c => (32 <=? c) && (c <? 0x80)) (enc_ascii html (bv a)) = true.
Proof.
  intros H. apply N.ltb_lt in H. revert H.
  destruct a as [[] [] [] [] [] [] [] []]; destruct html; intros H;
    try discriminate H; vm_compute; reflexivity.
Qed.

(** No byte below 0x20 (in particular no LF / CR) is ever emitted. *)
Theorem encode_no_control html s :
  all_bytes (fun c => 32 <=? c) (json_encode_string html s) = true.
Proof.
  unfold json_encode_string. rewrite !all_bytes_app.
  replace (all_bytes _ quote) with true by reflexivity. rewrite andb_true_r. cbn [andb].
  apply (enc_body_chunks (fun x => all_bytes (fun c => 32 <=? c) x = true)); try reflexivity.
  - intros x y Hx Hy. rewrite all_bytes_app, Hx, Hy. reflexivity.
  - intros a Ha. eapply all_bytes_impl; [|apply enc_ascii_printable; auto].
    intros c Hc. apply andb_true_iff in Hc. tauto.
  - intros r _ Hr. eapply all_bytes_impl; [|apply encode_rune_high; auto].
    intros c Hc. apply N.leb_le in Hc. apply N.leb_le. lia.
Qed.

Fixpoint has_byte (c : N) (s : string) : bool :=
  match s with "" => false | String a r => (bv a =? c) || has_byte c r end.
Lemma has_byte_control c s : c < 32 -> all_bytes (fun c => 32 <=? c) s = true -> has_byte c s = false.
Proof.
  intros Hc. induction s; simpl; auto. rewrite andb_true_iff, N.leb_le. intros [A B].
  rewrite IHs by auto. destruct (N.eqb_spec (bv a) c); auto. lia.
Qed.

(** JSONL line framing: the encoded literal contains neither LF nor CR. *)
Theorem encode_no_newline html s :
  has_byte 10 (json_encode_string html s) = false /\ has_byte 13 (json_encode_string html s) = false.
Proof. split; apply has_byte_control; try lia; apply encode_no_control. Qed.

(** A JSON string scanner: state after reading [s] starting in state [esc]
    (true = just after a backslash); [None] = hit an unescaped quote. *)
Fixpoint scan_state (esc : bool) (s : string) : option bool :=
  match s with
  | "" => Some esc
  | String a r =>
    if esc then scan_state false r
    else if bv a =? 92 then scan_state true r
    else if bv a =? 34 then None
    else scan_state false r
  end.
(** [closes_at_end s]: the first unescaped quote of [s] is its last byte. *)
Fixpoint closes_at_end (esc : bool) (s : string) : bool :=
  match s with
  | "" => false
  | String a r =>
    if esc then closes_at_end false r
    else if bv a =? 92 then closes_at_end true r
    else if bv a =? 34 then match r with "" => true | _ => false end
    else closes_at_end false r
  end.

Lemma scan_state_app e x y :
  scan_state e (x ++ y) = match scan_state e x with Some e' => scan_state e' y | None => None end.
Proof.
  revert e; induction x as [|a x IH]; intros e; [reflexivity|]. cbn [append scan_state].
  destruct e; auto. destruct (bv a =? 92); auto. destruct (bv a =? 34); auto.
Qed.
Lemma closes_at_end_app e x : scan_state e x = Some false -> closes_at_end e (x ++ quote) = true.
Proof.
  revert e; induction x as [|a x IH]; intros e.
  - simpl. intros [= ->]. reflexivity.
  - cbn [append scan_state closes_at_end]. destruct e; auto.
    destruct (bv a =? 92); auto. destruct (bv a =? 34); auto. discriminate.
Qed.
Lemma scan_state_high x : all_bytes (fun c => 0x80 <=? c) x = true -> scan_state false x = Some false.
Proof.
  induction x as [|a x IH]; [reflexivity|]. cbn [all_bytes scan_state].
  rewrite andb_true_iff, N.leb_le. intros [A B].
  destruct (N.eqb_spec (bv a) 92); [lia|]. destruct (N.eqb_spec (bv a) 34); [lia|]. auto.
Qed.
Lemma scan_state_ascii html a : bv a < 0x80 -> scan_state false (enc_ascii html (bv a)) = Some false.
Proof.
  intros H. apply N.ltb_lt in H. revert H.
  destruct a as [[] [] [] [] [] [] [] []]; destruct html; intros H;
    try discriminate H; vm_compute; reflexivity.
Qed.

Lemma enc_body_balanced html n s : scan_state false (enc_body n html s) = Some false.
Proof.
  apply (enc_body_chunks (fun x => scan_state false x = Some false)); try reflexivity.
  - intros x y Hx Hy. rewrite scan_state_app, Hx. exact Hy.
  - apply scan_state_ascii.
  - intros r _ Hr. apply scan_state_high, encode_rune_high, Hr.
Qed.

(** The output is [" body "], where [body] contains no unescaped quote and does
    not end inside an escape: a scanner started after the opening quote finds
    the end of the literal exactly at the last byte. *)
Theorem encode_quoted html s :
  exists body, json_encode_string html s = quote ++ body ++ quote /\
    scan_state false body = Some false /\ closes_at_end false (body ++ quote) = true.
Proof.
  exists (enc_body (String.length s) html s). split; [reflexivity|].
  split; [apply enc_body_balanced|apply closes_at_end_app, enc_body_balanced].
Qed.

(** The escape-free fragment is copied: text made of safe ASCII bytes is just quoted. *)
Lemma enc_ascii_safe html c : safe_byte html c = true -> enc_ascii html c = bytes [c].
Proof. unfold enc_ascii. intros ->. reflexivity. Qed.

Theorem encode_ascii_printable html s :
  all_bytes (fun c => (c <? 0x80) && safe_byte html c) s = true ->
  json_encode_string html s = quote ++ s ++ quote.
Proof.
  intros H. unfold json_encode_string. do 2 f_equal.
  assert (G : forall n, (String.length s <= n)%nat -> enc_body n html s = s); [|apply G; auto].
  induction s as [|a s IH]; intros n Hn; [destruct n; reflexivity|].
  cbn [all_bytes] in H. apply andb_true_iff in H. destruct H as [Ha Hs].
  apply andb_true_iff in Ha. destruct Ha as [Ha1 Ha2].
  destruct n as [|n]; [simpl in Hn; lia|]. cbn [enc_body]. cbv zeta. rewrite Ha1.
  rewrite enc_ascii_safe by auto. cbn [bytes append]. rewrite ch_bv, IH; auto. simpl in Hn; lia.
Qed.

(** * The fuel is enough: results do not depend on it once it is >= the length *)
Lemma hex4_length s v r : hex4 s = Some (v, r) -> String.length s = (4 + String.length r)%nat.
Proof.
  unfold hex4. destruct s as [|a [|b [|c [|d r']]]]; try discriminate.
  destruct (hexval (bv a)), (hexval (bv b)), (hexval (bv c)), (hexval (bv d)); try discriminate.
  intros [= _ <-]. reflexivity.
Qed.
Lemma getu4_length s v r : getu4 s = Some (v, r) -> String.length s = (6 + String.length r)%nat.
Proof.
  unfold getu4. destruct s as [|a [|b r']]; try discriminate.
  destruct ((bv a =? 92) && (bv b =? 117)); try discriminate.
  intros H. apply hex4_length in H. simpl. lia.
Qed.

Lemma decode_rune_size a r1 : let d := decode_rune (String a r1) in
  (1 <= snd d)%nat.
Proof.
  cbv zeta. destruct (is_bad (decode_rune (String a r1))) eqn:B.
  - unfold is_bad in B. apply andb_true_iff in B. destruct B as [_ B]. apply Nat.eqb_eq in B. lia.
  - destruct (decode_rune (String a r1)) as [r sz] eqn:D.
    destruct (decode_rune_inv _ _ _ D B) as [t H]; [congruence|].
    apply rune_head_length in H. cbn [snd]. lia.
Qed.

Lemma dec_step_length s out rest : dec_step s = Emit out rest ->
  (String.length rest < String.length s)%nat.
Proof.
  unfold dec_step. destruct s as [|a r]; [discriminate|]. cbv zeta.
  destruct (bv a =? 34). { destruct r; discriminate. }
  destruct (bv a =? 92).
  { destruct r as [|e r2]; [discriminate|].
    repeat match goal with
    | |- (if ?c then Emit _ _ else _) = _ -> _ => destruct c; [intros [= _ <-]; simpl; lia|]
    end.
    destruct (bv e =? 117); [|discriminate].
    destruct (hex4 r2) as [[rr r3]|] eqn:Hx; [|discriminate]. apply hex4_length in Hx.
    destruct ((0xD800 <=? rr) && (rr <? 0xE000)); [|intros [= _ <-]; simpl; lia].
    destruct (getu4 r3) as [[rr1 r4]|] eqn:Hy; [|intros [= _ <-]; simpl; lia].
    apply getu4_length in Hy.
    destruct ((rr <? 0xDC00) && (0xDC00 <=? rr1) && (rr1 <? 0xE000)); intros [= _ <-]; simpl; lia. }
  destruct (bv a <? 32); [discriminate|].
  destruct (bv a <? 0x80); [intros [= _ <-]; simpl; lia|].
  intros [= _ <-]. apply sdrop_length_lt; [apply decode_rune_size|congruence].
Qed.

Lemma dec_body_fuel : forall n m s, (String.length s < n)%nat -> (String.length s < m)%nat ->
  dec_body n s = dec_body m s.
Proof.
  induction n as [|n IH]; intros m s Hn Hm; [lia|]. destruct m as [|m]; [lia|].
  cbn [dec_body]. destruct (dec_step s) as [| |out rest] eqn:E; auto.
  apply dec_step_length in E. rewrite (IH m rest); auto; lia.
Qed.

Lemma enc_body_fuel html : forall n m s, (String.length s <= n)%nat -> (String.length s <= m)%nat ->
  enc_body n html s = enc_body m html s.
Proof.
  induction n as [|n IH]; intros m s Hn Hm.
  { destruct s; simpl in Hn; [|lia]. destruct m; reflexivity. }
  destruct s as [|a r]; [destruct m; reflexivity|].
  destruct m as [|m]; [simpl in Hm; lia|].
  cbn [enc_body]. cbv zeta. simpl in Hn, Hm.
  pose proof (decode_rune_size a r) as Hsz. cbv zeta in Hsz.
  set (d := decode_rune (String a r)) in *.
  assert (Hd : (String.length (sdrop (snd d) (String a r)) < S (String.length r))%nat).
  { apply (sdrop_length_lt (snd d) (String a r)); [lia|congruence]. }
  rewrite (IH m r) by lia.
  rewrite (IH m (sdrop (snd d) (String a r))) by lia. reflexivity.
Qed.

(** * Bridge to [Text.contains_nl_cr] (the predicate the ergo model uses for line framing) *)
Require Ergo.Text.
Lemma contains_nl_cr_has_byte s :
  Text.contains_nl_cr s = has_byte 10 s || has_byte 13 s.
Proof.
  induction s as [|a s IH]; [reflexivity|]. cbn [Text.contains_nl_cr has_byte]. rewrite IH.
  assert (E10 : Ascii.eqb a Text.nl = (bv a =? 10)).
  { destruct a as [[] [] [] [] [] [] [] []]; reflexivity. }
  assert (E13 : Ascii.eqb a Text.cr = (bv a =? 13)).
  { destruct a as [[] [] [] [] [] [] [] []]; reflexivity. }
  rewrite E10, E13. destruct (bv a =? 10), (bv a =? 13), (has_byte 10 s), (has_byte 13 s); reflexivity.
Qed.
Theorem encode_no_nl_cr html s : Text.contains_nl_cr (json_encode_string html s) = false.
Proof.
  rewrite contains_nl_cr_has_byte. destruct (encode_no_newline html s) as [-> ->]. reflexivity.
Qed.

(** * Examples (expected values are Go's answers, obtained through verif-rpc) *)
(* mixed: h e-acute llo w o-umlaut rld, two CJK characters, U+1F600: copied byte for byte *)
Definition ex_mixed := bytes [104; 195; 169; 108; 108; 111; 32; 119; 195; 182; 114; 108; 100; 32; 228; 184; 150; 231; 149; 140; 32; 240; 159; 152; 128].
Example ex_mixed_html : json_encode_string true ex_mixed = bytes [34; 104; 195; 169; 108; 108; 111; 32; 119; 195; 182; 114; 108; 100; 32; 228; 184; 150; 231; 149; 140; 32; 240; 159; 152; 128; 34].
Proof. vm_compute. reflexivity. Qed.
Example ex_mixed_raw : json_encode_string false ex_mixed = bytes [34; 104; 195; 169; 108; 108; 111; 32; 119; 195; 182; 114; 108; 100; 32; 228; 184; 150; 231; 149; 140; 32; 240; 159; 152; 128; 34].
Proof. vm_compute. reflexivity. Qed.
Example ex_mixed_rt : json_decode_string (json_encode_string true ex_mixed) = Some ex_mixed
  /\ json_decode_string (json_encode_string false ex_mixed) = Some ex_mixed.
Proof. vm_compute. split; reflexivity. Qed.
(* linesep: a U+2028 b U+2029 c U+2027 U+202A: only 2028/2029 are escaped *)
Definition ex_linesep := bytes [97; 226; 128; 168; 98; 226; 128; 169; 99; 226; 128; 167; 226; 128; 170].
Example ex_linesep_html : json_encode_string true ex_linesep = bytes [34; 97; 92; 117; 50; 48; 50; 56; 98; 92; 117; 50; 48; 50; 57; 99; 226; 128; 167; 226; 128; 170; 34].
Proof. vm_compute. reflexivity. Qed.
Example ex_linesep_raw : json_encode_string false ex_linesep = bytes [34; 97; 92; 117; 50; 48; 50; 56; 98; 92; 117; 50; 48; 50; 57; 99; 226; 128; 167; 226; 128; 170; 34].
Proof. vm_compute. reflexivity. Qed.
Example ex_linesep_rt : json_decode_string (json_encode_string true ex_linesep) = Some ex_linesep
  /\ json_decode_string (json_encode_string false ex_linesep) = Some ex_linesep.
Proof. vm_compute. split; reflexivity. Qed.
(* controls: bytes 0..31 and 0x7F: short escapes for 8 9 10 12 13, u00XX for the rest, 0x7F raw *)
Definition ex_controls := bytes [0; 1; 2; 3; 4; 5; 6; 7; 8; 9; 10; 11; 12; 13; 14; 15; 16; 17; 18; 19; 20; 21; 22; 23; 24; 25; 26; 27; 28; 29; 30; 31; 127].
Example ex_controls_html : json_encode_string true ex_controls = bytes [34; 92; 117; 48; 48; 48; 48; 92; 117; 48; 48; 48; 49; 92; 117; 48; 48; 48; 50; 92; 117; 48; 48; 48; 51; 92; 117; 48; 48; 48; 52; 92; 117; 48; 48; 48; 53; 92; 117; 48; 48; 48; 54; 92; 117; 48; 48; 48; 55; 92; 98; 92; 116; 92; 110; 92; 117; 48; 48; 48; 98; 92; 102; 92; 114; 92; 117; 48; 48; 48; 101; 92; 117; 48; 48; 48; 102; 92; 117; 48; 48; 49; 48; 92; 117; 48; 48; 49; 49; 92; 117; 48; 48; 49; 50; 92; 117; 48; 48; 49; 51; 92; 117; 48; 48; 49; 52; 92; 117; 48; 48; 49; 53; 92; 117; 48; 48; 49; 54; 92; 117; 48; 48; 49; 55; 92; 117; 48; 48; 49; 56; 92; 117; 48; 48; 49; 57; 92; 117; 48; 48; 49; 97; 92; 117; 48; 48; 49; 98; 92; 117; 48; 48; 49; 99; 92; 117; 48; 48; 49; 100; 92; 117; 48; 48; 49; 101; 92; 117; 48; 48; 49; 102; 127; 34].
Proof. vm_compute. reflexivity. Qed.
Example ex_controls_raw : json_encode_string false ex_controls = bytes [34; 92; 117; 48; 48; 48; 48; 92; 117; 48; 48; 48; 49; 92; 117; 48; 48; 48; 50; 92; 117; 48; 48; 48; 51; 92; 117; 48; 48; 48; 52; 92; 117; 48; 48; 48; 53; 92; 117; 48; 48; 48; 54; 92; 117; 48; 48; 48; 55; 92; 98; 92; 116; 92; 110; 92; 117; 48; 48; 48; 98; 92; 102; 92; 114; 92; 117; 48; 48; 48; 101; 92; 117; 48; 48; 48; 102; 92; 117; 48; 48; 49; 48; 92; 117; 48; 48; 49; 49; 92; 117; 48; 48; 49; 50; 92; 117; 48; 48; 49; 51; 92; 117; 48; 48; 49; 52; 92; 117; 48; 48; 49; 53; 92; 117; 48; 48; 49; 54; 92; 117; 48; 48; 49; 55; 92; 117; 48; 48; 49; 56; 92; 117; 48; 48; 49; 57; 92; 117; 48; 48; 49; 97; 92; 117; 48; 48; 49; 98; 92; 117; 48; 48; 49; 99; 92; 117; 48; 48; 49; 100; 92; 117; 48; 48; 49; 101; 92; 117; 48; 48; 49; 102; 127; 34].
Proof. vm_compute. reflexivity. Qed.
Example ex_controls_rt : json_decode_string (json_encode_string true ex_controls) = Some ex_controls
  /\ json_decode_string (json_encode_string false ex_controls) = Some ex_controls.
Proof. vm_compute. split; reflexivity. Qed.
(* quotes: say <q>hi<q> <backslash> / 'x' : quote and backslash escaped, slash and apostrophe not *)
Definition ex_quotes := bytes [115; 97; 121; 32; 34; 104; 105; 34; 32; 92; 32; 47; 32; 39; 120; 39].
Example ex_quotes_html : json_encode_string true ex_quotes = bytes [34; 115; 97; 121; 32; 92; 34; 104; 105; 92; 34; 32; 92; 92; 32; 47; 32; 39; 120; 39; 34].
Proof. vm_compute. reflexivity. Qed.
Example ex_quotes_raw : json_encode_string false ex_quotes = bytes [34; 115; 97; 121; 32; 92; 34; 104; 105; 92; 34; 32; 92; 92; 32; 47; 32; 39; 120; 39; 34].
Proof. vm_compute. reflexivity. Qed.
Example ex_quotes_rt : json_decode_string (json_encode_string true ex_quotes) = Some ex_quotes
  /\ json_decode_string (json_encode_string false ex_quotes) = Some ex_quotes.
Proof. vm_compute. split; reflexivity. Qed.
(* html: <b>&amp;</b> : u003c u003e u0026 only when escapeHTML *)
Definition ex_html := bytes [60; 98; 62; 38; 97; 109; 112; 59; 60; 47; 98; 62].
Example ex_html_html : json_encode_string true ex_html = bytes [34; 92; 117; 48; 48; 51; 99; 98; 92; 117; 48; 48; 51; 101; 92; 117; 48; 48; 50; 54; 97; 109; 112; 59; 92; 117; 48; 48; 51; 99; 47; 98; 92; 117; 48; 48; 51; 101; 34].
Proof. vm_compute. reflexivity. Qed.
Example ex_html_raw : json_encode_string false ex_html = bytes [34; 60; 98; 62; 38; 97; 109; 112; 59; 60; 47; 98; 62; 34].
Proof. vm_compute. reflexivity. Qed.
Example ex_html_rt : json_decode_string (json_encode_string true ex_html) = Some ex_html
  /\ json_decode_string (json_encode_string false ex_html) = Some ex_html.
Proof. vm_compute. split; reflexivity. Qed.
(* bounds: U+007F U+0080 U+07FF U+0800 U+FFFD U+FFFF U+10000 U+10FFFF *)
Definition ex_bounds := bytes [127; 194; 128; 223; 191; 224; 160; 128; 239; 191; 189; 239; 191; 191; 240; 144; 128; 128; 244; 143; 191; 191].
Example ex_bounds_html : json_encode_string true ex_bounds = bytes [34; 127; 194; 128; 223; 191; 224; 160; 128; 239; 191; 189; 239; 191; 191; 240; 144; 128; 128; 244; 143; 191; 191; 34].
Proof. vm_compute. reflexivity. Qed.
Example ex_bounds_raw : json_encode_string false ex_bounds = bytes [34; 127; 194; 128; 223; 191; 224; 160; 128; 239; 191; 189; 239; 191; 191; 240; 144; 128; 128; 244; 143; 191; 191; 34].
Proof. vm_compute. reflexivity. Qed.
Example ex_bounds_rt : json_decode_string (json_encode_string true ex_bounds) = Some ex_bounds
  /\ json_decode_string (json_encode_string false ex_bounds) = Some ex_bounds.
Proof. vm_compute. split; reflexivity. Qed.
(* multiline: title CR LF line two LF TAB tabbed *)
Definition ex_multiline := bytes [116; 105; 116; 108; 101; 13; 10; 108; 105; 110; 101; 32; 116; 119; 111; 10; 9; 116; 97; 98; 98; 101; 100].
Example ex_multiline_html : json_encode_string true ex_multiline = bytes [34; 116; 105; 116; 108; 101; 92; 114; 92; 110; 108; 105; 110; 101; 32; 116; 119; 111; 92; 110; 92; 116; 116; 97; 98; 98; 101; 100; 34].
Proof. vm_compute. reflexivity. Qed.
Example ex_multiline_raw : json_encode_string false ex_multiline = bytes [34; 116; 105; 116; 108; 101; 92; 114; 92; 110; 108; 105; 110; 101; 32; 116; 119; 111; 92; 110; 92; 116; 116; 97; 98; 98; 101; 100; 34].
Proof. vm_compute. reflexivity. Qed.
Example ex_multiline_rt : json_decode_string (json_encode_string true ex_multiline) = Some ex_multiline
  /\ json_decode_string (json_encode_string false ex_multiline) = Some ex_multiline.
Proof. vm_compute. split; reflexivity. Qed.
(* bad_ff: a FF b: the invalid byte becomes the six bytes <backslash>ufffd, decoded as EF BF BD *)
Definition ex_bad_ff := bytes [97; 255; 98].
Example ex_bad_ff_html : json_encode_string true ex_bad_ff = bytes [34; 97; 92; 117; 102; 102; 102; 100; 98; 34].
Proof. vm_compute. reflexivity. Qed.
Example ex_bad_ff_raw : json_encode_string false ex_bad_ff = bytes [34; 97; 92; 117; 102; 102; 102; 100; 98; 34].
Proof. vm_compute. reflexivity. Qed.
Example ex_bad_ff_rt : valid_utf8 ex_bad_ff = false /\ json_decode_string (json_encode_string true ex_bad_ff) = Some (bytes [97; 239; 191; 189; 98]).
Proof. vm_compute. split; reflexivity. Qed.
(* bad_trunc: E2 80 (truncated 3-byte sequence): one replacement per byte *)
Definition ex_bad_trunc := bytes [226; 128].
Example ex_bad_trunc_html : json_encode_string true ex_bad_trunc = bytes [34; 92; 117; 102; 102; 102; 100; 92; 117; 102; 102; 102; 100; 34].
Proof. vm_compute. reflexivity. Qed.
Example ex_bad_trunc_raw : json_encode_string false ex_bad_trunc = bytes [34; 92; 117; 102; 102; 102; 100; 92; 117; 102; 102; 102; 100; 34].
Proof. vm_compute. reflexivity. Qed.
Example ex_bad_trunc_rt : valid_utf8 ex_bad_trunc = false /\ json_decode_string (json_encode_string true ex_bad_trunc) = Some (bytes [239; 191; 189; 239; 191; 189]).
Proof. vm_compute. split; reflexivity. Qed.
(* bad_cesu: ED A0 80 (UTF-8 encoded surrogate D800) *)
Definition ex_bad_cesu := bytes [237; 160; 128].
Example ex_bad_cesu_html : json_encode_string true ex_bad_cesu = bytes [34; 92; 117; 102; 102; 102; 100; 92; 117; 102; 102; 102; 100; 92; 117; 102; 102; 102; 100; 34].
Proof. vm_compute. reflexivity. Qed.
Example ex_bad_cesu_raw : json_encode_string false ex_bad_cesu = bytes [34; 92; 117; 102; 102; 102; 100; 92; 117; 102; 102; 102; 100; 92; 117; 102; 102; 102; 100; 34].
Proof. vm_compute. reflexivity. Qed.
Example ex_bad_cesu_rt : valid_utf8 ex_bad_cesu = false /\ json_decode_string (json_encode_string true ex_bad_cesu) = Some (bytes [239; 191; 189; 239; 191; 189; 239; 191; 189]).
Proof. vm_compute. split; reflexivity. Qed.
(* bad_overlong: C0 80 (overlong NUL) *)
Definition ex_bad_overlong := bytes [192; 128].
Example ex_bad_overlong_html : json_encode_string true ex_bad_overlong = bytes [34; 92; 117; 102; 102; 102; 100; 92; 117; 102; 102; 102; 100; 34].
Proof. vm_compute. reflexivity. Qed.
Example ex_bad_overlong_raw : json_encode_string false ex_bad_overlong = bytes [34; 92; 117; 102; 102; 102; 100; 92; 117; 102; 102; 102; 100; 34].
Proof. vm_compute. reflexivity. Qed.
Example ex_bad_overlong_rt : valid_utf8 ex_bad_overlong = false /\ json_decode_string (json_encode_string true ex_bad_overlong) = Some (bytes [239; 191; 189; 239; 191; 189]).
Proof. vm_compute. split; reflexivity. Qed.
(* bad_trunc4: F0 9F 98 41 (4-byte sequence cut by an ASCII byte) *)
Definition ex_bad_trunc4 := bytes [240; 159; 152; 65].
Example ex_bad_trunc4_html : json_encode_string true ex_bad_trunc4 = bytes [34; 92; 117; 102; 102; 102; 100; 92; 117; 102; 102; 102; 100; 92; 117; 102; 102; 102; 100; 65; 34].
Proof. vm_compute. reflexivity. Qed.
Example ex_bad_trunc4_raw : json_encode_string false ex_bad_trunc4 = bytes [34; 92; 117; 102; 102; 102; 100; 92; 117; 102; 102; 102; 100; 92; 117; 102; 102; 102; 100; 65; 34].
Proof. vm_compute. reflexivity. Qed.
Example ex_bad_trunc4_rt : valid_utf8 ex_bad_trunc4 = false /\ json_decode_string (json_encode_string true ex_bad_trunc4) = Some (bytes [239; 191; 189; 239; 191; 189; 239; 191; 189; 65]).
Proof. vm_compute. split; reflexivity. Qed.
(* pair: surrogate pair escape, lower case hex -> F0 9F 98 80 *)
Example dx_pair : json_decode_string (bytes [34; 92; 117; 100; 56; 51; 100; 92; 117; 100; 101; 48; 48; 34]) = Some (bytes [240; 159; 152; 128]).
Proof. vm_compute. reflexivity. Qed.
(* pair_uc: surrogate pair escape, upper case hex, inside text *)
Example dx_pair_uc : json_decode_string (bytes [34; 120; 92; 117; 68; 56; 51; 68; 92; 117; 68; 69; 48; 48; 121; 34]) = Some (bytes [120; 240; 159; 152; 128; 121]).
Proof. vm_compute. reflexivity. Qed.
(* lone_hi: lone high surrogate -> U+FFFD *)
Example dx_lone_hi : json_decode_string (bytes [34; 92; 117; 100; 56; 51; 100; 34]) = Some (bytes [239; 191; 189]).
Proof. vm_compute. reflexivity. Qed.
(* lone_lo: lone low surrogate -> U+FFFD *)
Example dx_lone_lo : json_decode_string (bytes [34; 92; 117; 100; 101; 48; 48; 34]) = Some (bytes [239; 191; 189]).
Proof. vm_compute. reflexivity. Qed.
(* lo_then_pair: low surrogate then a valid pair -> U+FFFD U+1F600 *)
Example dx_lo_then_pair : json_decode_string (bytes [34; 92; 117; 100; 101; 48; 48; 92; 117; 100; 56; 51; 100; 92; 117; 100; 101; 48; 48; 34]) = Some (bytes [239; 191; 189; 240; 159; 152; 128]).
Proof. vm_compute. reflexivity. Qed.
(* hi_then_esc: high surrogate then <backslash>n -> U+FFFD LF *)
Example dx_hi_then_esc : json_decode_string (bytes [34; 92; 117; 100; 56; 51; 100; 92; 110; 34]) = Some (bytes [239; 191; 189; 10]).
Proof. vm_compute. reflexivity. Qed.
(* hi_hi_lo: high, then a valid pair -> U+FFFD U+1F600 *)
Example dx_hi_hi_lo : json_decode_string (bytes [34; 92; 117; 100; 56; 51; 100; 92; 117; 100; 56; 51; 100; 92; 117; 100; 101; 48; 48; 34]) = Some (bytes [239; 191; 189; 240; 159; 152; 128]).
Proof. vm_compute. reflexivity. Qed.
(* escapes: u0041 and all eight short escapes *)
Example dx_escapes : json_decode_string (bytes [34; 92; 117; 48; 48; 52; 49; 92; 47; 92; 98; 92; 102; 92; 110; 92; 114; 92; 116; 92; 34; 92; 92; 34]) = Some (bytes [65; 47; 8; 12; 10; 13; 9; 34; 92]).
Proof. vm_compute. reflexivity. Qed.
(* apos: <backslash>' is rejected (by the scanner; unquote alone would accept it) *)
Example dx_apos : json_decode_string (bytes [34; 92; 39; 34]) = None.
Proof. vm_compute. reflexivity. Qed.
(* unterminated: no closing quote *)
Example dx_unterminated : json_decode_string (bytes [34; 97]) = None.
Proof. vm_compute. reflexivity. Qed.
(* inner_quote: unescaped quote inside *)
Example dx_inner_quote : json_decode_string (bytes [34; 97; 34; 98; 34]) = None.
Proof. vm_compute. reflexivity. Qed.
(* rawctl: raw LF inside the literal *)
Example dx_rawctl : json_decode_string (bytes [34; 97; 10; 98; 34]) = None.
Proof. vm_compute. reflexivity. Qed.
(* badhex: u12G4 *)
Example dx_badhex : json_decode_string (bytes [34; 92; 117; 49; 50; 71; 52; 34]) = None.
Proof. vm_compute. reflexivity. Qed.
(* shortu: u123 followed by the closing quote *)
Example dx_shortu : json_decode_string (bytes [34; 92; 117; 49; 50; 51; 34]) = None.
Proof. vm_compute. reflexivity. Qed.
(* badutf: invalid UTF-8 inside a literal is coerced byte-wise to U+FFFD *)
Example dx_badutf : json_decode_string (bytes [34; 97; 255; 98; 226; 128; 34]) = Some (bytes [97; 239; 191; 189; 98; 239; 191; 189; 239; 191; 189]).
Proof. vm_compute. reflexivity. Qed.
(* empty: the empty string *)
Example dx_empty : json_decode_string (bytes [34; 34]) = Some (bytes []).
Proof. vm_compute. reflexivity. Qed.
(* onequote: a single quote character is not a literal *)
Example dx_onequote : json_decode_string (bytes [34]) = None.
Proof. vm_compute. reflexivity. Qed.
(* del: raw 0x7F is accepted *)
Example dx_del : json_decode_string (bytes [34; 127; 34]) = Some (bytes [127]).
Proof. vm_compute. reflexivity. Qed.

(** Invalid input is not round-tripped: this is why [decode_encode] needs [valid_utf8]. *)
Example encode_invalid_replaced :
  json_encode_string true (bytes [97; 255; 98]) = bytes [34; 97; 92; 117; 102; 102; 102; 100; 98; 34]
  /\ json_decode_string (json_encode_string true (bytes [97; 255; 98])) = Some (bytes [97; 239; 191; 189; 98]).
Proof. vm_compute. split; reflexivity. Qed.

Print Assumptions decode_encode.
Print Assumptions decode_encode_any.
Print Assumptions decode_encode_iff.
Print Assumptions encode_no_control.
Print Assumptions encode_no_newline.
Print Assumptions encode_no_nl_cr.
Print Assumptions encode_quoted.
Print Assumptions encode_ascii_printable.
Print Assumptions dec_body_fuel.
Print Assumptions enc_body_fuel.
