(** Tree.v — tree_view.go tree construction / filtering / rendering and the
    human part of RunList (commands_work.go), without colour.
    Nodes are two-level: buildTree puts every epic at the root with its
    non-epic tasks as children; tasks never have children.
    Task ids are taken from the map keys' tasks ([t_id]); in every replayed
    graph the key of a task is its id.
    [deriveFileURL] is modelled as "file://" +:+ repo +:+ "/" +:+ path
    (percent-escaping and path cleaning are out of scope). *)
From Ergo Require Import Base Text Events Replay Ready Compact Utf8Lite Layout.
From stdpp Require Import pretty.
From Coq Require Import Ascii.
From Coq Require String.
Local Open Scope string_scope.
Local Open Scope list_scope.

(** * topoSortTasks *)

Definition rdy (g : graph) (i : string) : bool :=
  match g_tasks g !! i with Some t => is_ready g t | None => false end.

(** queue order: ready first, then id ascending. *)
Definition topo_le (g : graph) (a b : string) : Prop :=
  if Bool.eqb (rdy g a) (rdy g b) then str_le a b else rdy g a = true.
Global Instance topo_le_dec g a b : Decision (topo_le g a b).
Proof. unfold topo_le. destruct (Bool.eqb _ _); apply _. Defined.

Definition edge (g : graph) (a b : string) : bool := bool_decide ((a, b) ∈ g_deps g).

(** dependencies of [i] that are inside the set being sorted *)
Definition in_set_deps (g : graph) (ids : list string) (i : string) : list string :=
  filter (λ d, d ∈ ids) (dep_ids g i).

Definition topo_sorted (g : graph) (l : list string) : list string := merge_sort (topo_le g) l.

(** [done] holds the popped ids (most recent first).  Popping [t] decrements the
    in-degree of every [o] with an edge [o → t]; [o] reaches 0 exactly when all
    its in-set dependencies have been popped. *)
Definition newly (g : graph) (ids : list string) (t : string) (done' : list string) : list string :=
  filter (λ o, edge g o t = true ∧ forallb (λ d, mem_str d done') (in_set_deps g ids o) = true) ids.

Fixpoint kahn (fuel : nat) (g : graph) (ids : list string) (queue done : list string) : list string :=
  match fuel, queue with
  | S f, t :: q =>
      let done' := t :: done in
      t :: kahn f g ids (topo_sorted g (q ++ newly g ids t done')) done'
  | _, _ => []
  end.

Definition topo_init (g : graph) (ids : list string) : list string :=
  topo_sorted g (filter (λ i, in_set_deps g ids i = []) ids).

Definition topo_sort (g : graph) (ids : list string) : list string :=
  kahn (length ids) g ids (topo_init g ids) [].

Definition tasks_of (g : graph) (ids : list string) : list task :=
  omap (λ i, g_tasks g !! i) ids.

(** * buildTree and the list filters *)

Definition node : Type := task * list task.

Definition epic_ids (g : graph) : list string :=
  t_id <$> filter (λ t, t_is_epic t = true) (all_tasks g).
Definition orphan_ids (g : graph) : list string :=
  t_id <$> filter (λ t, t_is_epic t = false ∧ t_epic t = "") (all_tasks g).
Definition kid_ids (g : graph) (e : string) : list string :=
  t_id <$> filter (λ t, t_is_epic t = false ∧ t_epic t = e) (all_tasks g).

Definition kids_of (g : graph) (e : string) : list task := tasks_of g (topo_sort g (kid_ids g e)).

Definition build_tree (g : graph) : list node :=
  ((λ t, (t, [])) <$> tasks_of g (topo_sort g (orphan_ids g)))
  ++ ((λ e, (e, kids_of g (t_id e))) <$> tasks_of g (topo_sort g (epic_ids g))).

(** filterNodesByReady *)
Definition filter_ready (g : graph) (ns : list node) : list node :=
  omap (λ n : node,
          let '(t, kids) := n in
          if t_is_epic t then
            match filter (λ c, is_ready g c = true) kids with
            | [] => None
            | k => Some (t, k)
            end
          else if is_ready g t then Some (t, kids) else None) ns.

(** derivedEpicState ∈ {done, canceled} for a non-empty child list *)
Definition kids_all_closed (kids : list task) : bool :=
  forallb (λ c, done_or_canceled (t_state c)) kids.

(** filterAndCollapseNodes *)
Definition filter_active (ns : list node) : list node :=
  omap (λ n : node,
          let '(t, kids) := n in
          if t_is_epic t then
            match kids with
            | [] => Some (t, [])
            | _ => if kids_all_closed kids then None
                   else Some (t, filter (λ c, t_state c ≠ "canceled") kids)
            end
          else if done_or_canceled (t_state t) then None else Some (t, kids)) ns.

(** buildListRoots *)
Definition list_roots (g : graph) (all ready : bool) (epic : string) : list node :=
  if String.eqb epic "" then
    if ready then filter_ready g (build_tree g)
    else if all then build_tree g
    else filter_active (build_tree g)
  else
    match g_tasks g !! epic with
    | Some e =>
        if t_is_epic e then
          [(e, if ready then filter (λ c, is_ready g c = true) (kids_of g epic) else kids_of g epic)]
        else []
    | None => []
    end.

(** * renderNode *)

Definition state_icon (t : task) (ready : bool) : string :=
  if t_is_epic t then g_epic else
  let s := t_state t in
  if String.eqb s "done" then g_done
  else if String.eqb s "canceled" then g_canceled
  else if String.eqb s "error" then g_error
  else if String.eqb s "doing" then g_doing
  else if String.eqb s "blocked" then g_blocked
  else if String.eqb s "todo" then (if ready then g_ready else g_blocked)
  else "?".

Definition open_dep (g : graph) (d : string) : bool :=
  match g_tasks g !! d with Some o => negb (done_or_canceled (t_state o)) | None => false end.
Definition open_epic_dep (g : graph) (d : string) : bool :=
  match g_tasks g !! d with Some o => (t_is_epic o && negb (is_epic_complete g d))%bool | None => false end.

Definition get_blockers (g : graph) (t : task) : list string :=
  sort_strings
    (filter (λ d, open_dep g d = true) (dep_ids g (t_id t))
     ++ (if String.eqb (t_epic t) "" then []
         else filter (λ d, open_epic_dep g d = true) (dep_ids g (t_epic t)))).

Record row := Row {
  row_item : string;          (* id of the item the row belongs to *)
  row_result : bool;          (* the "→ file://…" line under a closed task *)
  row_child : bool;           (* rendered under an epic *)
  row_last : bool;            (* isLast *)
  row_text : string }.

Section render.
  Variable rw : N → nat.
  Variable g : graph.
  Variable w : Z.
  Variable repo : string.

  Definition blocker_name (bid : string) : string :=
    match g_tasks g !! bid with
    | Some b => abbreviate (t_title b) 20
    | None => bid
    end.

  (** (annotation, thisBlockers) *)
  Definition blocker_info (t : task) (parent : list string) : string * list string :=
    if (negb (is_ready g t) && String.eqb (t_state t) "todo")%bool then
      let all := get_blockers g t in
      let new := blocker_name <$> filter (λ b, mem_str b parent = false) all in
      (if (2 <? length new)%nat then g_hourglass +:+ " " +:+ pretty (length new) +:+ " blockers"
       else match new with [] => "" | _ => g_hourglass +:+ " " +:+ sjoin ", " new end,
       all)
    else ("", []).

  Definition file_url (path : string) : string := "file://" +:+ repo +:+ "/" +:+ path.

  Definition render_item (t : task) (is_last is_root : bool) (parent : list string) : list row * list string :=
    let connector := if is_last then g_corner else g_tee in
    let ready := is_ready g t in
    let anns := if String.eqb (t_claimed t) "" then [] else ["@" +:+ t_claimed t] in
    let '(bann, this) := blocker_info t parent in
    let line := format_tree_line rw w "" connector (negb is_root) (state_icon t ready) (t_id t) (t_title t)
                                 anns bann (t_is_epic t) in
    let res :=
      if done_or_canceled (t_state t) then
        match t_results t with
        | latest :: _ =>
            let rp := if is_root then "  " else if is_last then "  " else g_bar +:+ " " in
            [Row (t_id t) true (negb is_root) is_last (format_result_line rp (file_url (r_path latest)))]
        | [] => []
        end
      else [] in
    (Row (t_id t) false (negb is_root) is_last line :: res, this).

  Fixpoint render_kids (kids : list task) (parent : list string) : list row :=
    match kids with
    | [] => []
    | k :: rest =>
        (render_item k (match rest with [] => true | _ => false end) false parent).1
        ++ render_kids rest parent
    end.

  Fixpoint render_roots (ns : list node) : list row :=
    match ns with
    | [] => []
    | (t, kids) :: rest =>
        let '(rows, this) := render_item t (match rest with [] => true | _ => false end) true [] in
        rows ++ render_kids kids this ++ render_roots rest
    end.

  Definition list_rows_s (all ready : bool) (epic : string) : list row :=
    render_roots (list_roots g all ready epic).

  Definition list_rows (all ready : bool) (epic : string) : list string :=
    row_text <$> list_rows_s all ready epic.

  (** * computeStatsForTasks / renderSummary *)
  Inductive bucket := BReady | BInProgress | BBlocked | BError | BDone | BCanceled.

  Definition bucket_of (t : task) : bucket :=
    let s := t_state t in
    if String.eqb s "done" then BDone
    else if String.eqb s "canceled" then BCanceled
    else if String.eqb s "error" then BError
    else if String.eqb s "doing" then BInProgress
    else if String.eqb s "blocked" then BBlocked
    else if String.eqb s "todo" then (if is_ready g t then BReady else BBlocked)
    else BBlocked.

  Global Instance bucket_eq_dec : EqDecision bucket.
  Proof. solve_decision. Defined.

  Definition count_bucket (b : bucket) (ts : list task) : nat :=
    length (filter (λ t, t_is_epic t = false ∧ bucket_of t = b) ts).

  Definition bucket_label (b : bucket) : string :=
    match b with
    | BReady => "ready" | BInProgress => "in progress" | BBlocked => "blocked"
    | BError => "error" | BDone => "done" | BCanceled => "canceled"
    end.

  Definition summary_parts (ts : list task) (bs : list bucket) : list string :=
    omap (λ b, let c := count_bucket b ts in
               if (c =? 0)%nat then None else Some (pretty c +:+ " " +:+ bucket_label b)) bs.

  Definition sep_dot : string := " " +:+ g_blocked +:+ " ".

  Definition summary (ts : list task) (bs : list bucket) (spacing : bool) : list string :=
    match summary_parts ts bs with
    | [] => []
    | parts => (if spacing then [""] else []) ++ [sjoin sep_dot parts]
    end.

  Definition all6 : list bucket := [BReady; BInProgress; BBlocked; BError; BDone; BCanceled].

  (** * RunList, human output (stdout lines).  [None]: the command fails. *)
  Inductive mode := MDefault | MAll | MReady | MEpic (e : string) | MEpicReady (e : string) | MEpics.

  Definition non_epic_tasks : list task := filter (λ t, t_is_epic t = false) (all_tasks g).
  Definition active_tasks : list task :=
    filter (λ t, done_or_canceled (t_state t) = false) non_epic_tasks.
  Definition ready_list (ts : list task) : list task := filter (λ t, is_ready g t = true) ts.

  Definition is_live_epic (e : string) : bool :=
    match g_tasks g !! e with Some t => t_is_epic t | None => false end.

  Definition epics_by_creation : list task :=
    merge_sort claim_le (filter (λ t, t_is_epic t = true) (all_tasks g)).

  Definition list_output (m : mode) : option (list string) :=
    match m with
    | MEpics =>
        match epics_by_creation with
        | [] => Some ["No epics."]
        | es => Some ((λ e, format_tree_line rw w "" "" false (state_icon e false) (t_id e) (t_title e) [] ""
                                             (t_is_epic e)) <$> es)
        end
    | MEpic e =>
        if negb (is_live_epic e) then None else
        let rows := list_rows false false e in
        let kids := kids_of g e in
        Some (rows ++ match kids with
                      | [] => ["No tasks in this epic."]
                      | _ => summary kids all6 true
                      end)
    | MEpicReady e =>
        if negb (is_live_epic e) then None else
        let rows := list_rows false true e in
        let kids := kids_of g e in
        Some (rows ++ match kids with
                      | [] => ["No tasks in this epic."]
                      | _ => match ready_list kids with
                             | [] => "No ready tasks in this epic." :: summary kids [BInProgress; BBlocked; BError] false
                             | rk => summary rk [BReady] true
                             end
                      end)
    | MReady =>
        match non_epic_tasks with
        | [] => Some ["No tasks."]
        | _ => match ready_list non_epic_tasks with
               | [] => Some ("No ready tasks." :: summary active_tasks [BInProgress; BBlocked; BError] false)
               | rt => Some (list_rows false true "" ++ summary rt [BReady] true)
               end
        end
    | MAll =>
        let rows := list_rows true false "" in
        match non_epic_tasks, list_roots g true false "" with
        | [], [] => Some ["No tasks."]
        | _, _ => Some (rows ++ summary non_epic_tasks all6 true)
        end
    | MDefault =>
        let rows := list_rows false false "" in
        match non_epic_tasks with
        | [] => match list_roots g false false "" with
                | [] => Some ["No tasks."]
                | _ => Some rows
                end
        | _ => match active_tasks with
               | [] => Some ("No active tasks." :: summary non_epic_tasks [BDone; BCanceled] false)
               | _ => Some (rows ++ summary active_tasks [BReady; BInProgress; BBlocked; BError] true)
               end
        end
    end.
End render.
