(** Base.v — shared vocabulary of the ergo model: ids, time, result monad,
    byte-wise string order (Go's [<] on strings), sorting helpers. *)
From stdpp Require Export base strings gmap sorting list option.
From Coq Require Export ZArith Lia Bool.
From Coq Require Import Ascii String.
Export ListNotations.
Local Open Scope string_scope.

Notation id := string (only parsing).

(** Time: nanoseconds since the Unix epoch, unbounded.  Go's zero [time.Time]
    is 0001-01-01T00:00:00Z. *)
Definition time := Z.
Definition zero_time : time := (-62135596800000000000)%Z.
Definition is_zero (t : time) : bool := Z.eqb t zero_time.
Definition after (a b : time) : bool := Z.ltb b a.           (* a.After(b) *)
Definition max_time (cur nxt : time) : time := if after nxt cur then nxt else cur.
Definition pick_time (cand fallback : time) : time := if is_zero cand then fallback else cand.

(** Errors a replay / read can return, classified. *)
Inductive rerr :=
| RBadPayload            (* event payload does not decode into its typed struct *)
| RBadTime               (* a timestamp replay needs is not RFC 3339 *)
| RDuplicate (i : string)(* second create of a live id *)
| RBadJSON (line : nat)  (* line that is not JSON, 1-based *)
| RTooLong.
Inductive res (A : Type) := Ok (a : A) | Err (e : rerr).
Arguments Ok {A} a. Arguments Err {A} e.
Definition rbind {A B} (m : res A) (f : A -> res B) : res B :=
  match m with Ok a => f a | Err e => Err e end.
Definition is_ok {A} (m : res A) : bool := match m with Ok _ => true | Err _ => false end.

Fixpoint foldM {A S} (f : S -> A -> res S) (l : list A) (s : S) : res S :=
  match l with
  | [] => Ok s
  | x :: xs => match f s x with Ok s' => foldM f xs s' | Err e => Err e end
  end.

Lemma foldM_app {A S} (f : S -> A -> res S) l1 l2 s :
  foldM f (l1 ++ l2) s = rbind (foldM f l1 s) (foldM f l2).
Proof.
  revert s; induction l1 as [|x xs IH]; intros s; cbn; [reflexivity|].
  destruct (f s x); cbn; [apply IH|reflexivity].
Qed.

(** Byte-wise string order = Go's string comparison = sort.Strings order. *)
Definition str_le (a b : string) : Prop := String.leb a b = true.
Global Instance str_le_dec a b : Decision (str_le a b).
Proof. unfold str_le. apply _. Defined.
Definition sort_strings (l : list string) : list string := merge_sort str_le l.

Definition str_eqb (a b : string) : bool := String.eqb a b.
Notation "a =?s b" := (String.eqb a b) (at level 70).

Lemma str_eqb_eq a b : (a =?s b) = true <-> a = b.
Proof. apply String.eqb_eq. Qed.
Lemma str_eqb_neq a b : (a =?s b) = false <-> a <> b.
Proof. apply String.eqb_neq. Qed.

Definition opt_default {A} (d : A) (o : option A) : A := match o with Some a => a | None => d end.

(** Membership test for lists of strings (computational). *)
Definition mem_str (x : string) (l : list string) : bool := existsb (String.eqb x) l.
Lemma mem_str_In x l : mem_str x l = true <-> In x l.
Proof.
  unfold mem_str. rewrite existsb_exists. split.
  - intros (y & Hy & E). apply String.eqb_eq in E. subst. exact Hy.
  - intros H. exists x. split; [exact H|apply String.eqb_refl].
Qed.
