(** TextFacts.v — lemmas about the byte-string helpers of Text.v / Base.v:
    [str_le] is a total order, [rev_str] is an involution, [trim_space] is
    idempotent, and the legacy title derivation never yields a blank title. *)
From Ergo Require Import Base Text.
From Coq Require Import Ascii String.
Local Open Scope string_scope.
Local Arguments String.append !_ _ / : simpl nomatch.

(** * [str_le] is a total order *)

Lemma ascii_compare_refl a : Ascii.compare a a = Eq.
Proof. unfold Ascii.compare. apply N.compare_refl. Qed.

Lemma ascii_compare_lt_trans a b c :
  Ascii.compare a b = Lt -> Ascii.compare b c = Lt -> Ascii.compare a c = Lt.
Proof.
  unfold Ascii.compare. rewrite !N.compare_lt_iff. intros H1 H2.
  eapply N.lt_trans; eassumption.
Qed.

Lemma str_compare_refl s : String.compare s s = Eq.
Proof.
  induction s as [|a s IH]; cbn; [reflexivity|].
  rewrite ascii_compare_refl. exact IH.
Qed.

Lemma str_compare_lt_trans s1 : forall s2 s3,
  String.compare s1 s2 = Lt -> String.compare s2 s3 = Lt -> String.compare s1 s3 = Lt.
Proof.
  induction s1 as [|a s1 IH]; intros [|b s2] [|c s3]; cbn; try congruence.
  destruct (Ascii.compare a b) eqn:Eab; try congruence.
  - apply Ascii.compare_eq_iff in Eab. subst b.
    destruct (Ascii.compare a c) eqn:Eac; try congruence.
    apply IH.
  - destruct (Ascii.compare b c) eqn:Ebc; try congruence.
    + apply Ascii.compare_eq_iff in Ebc. subst c. rewrite Eab. reflexivity.
    + rewrite (ascii_compare_lt_trans _ _ _ Eab Ebc). reflexivity.
Qed.

Lemma str_le_refl s : str_le s s.
Proof. unfold str_le, String.leb. rewrite str_compare_refl. reflexivity. Qed.

Lemma str_le_antisym a b : str_le a b -> str_le b a -> a = b.
Proof. apply String.leb_antisym. Qed.

Lemma str_le_total a b : str_le a b \/ str_le b a.
Proof. apply String.leb_total. Qed.

Lemma str_le_trans a b c : str_le a b -> str_le b c -> str_le a c.
Proof.
  unfold str_le, String.leb. intros Hab Hbc.
  destruct (String.compare a b) eqn:Eab; try discriminate.
  - apply String.compare_eq_iff in Eab. subst b. exact Hbc.
  - destruct (String.compare b c) eqn:Ebc; try discriminate.
    + apply String.compare_eq_iff in Ebc. subst c. rewrite Eab. reflexivity.
    + rewrite (str_compare_lt_trans _ _ _ Eab Ebc). reflexivity.
Qed.

Global Instance str_le_Reflexive : Reflexive str_le := str_le_refl.
Global Instance str_le_Transitive : Transitive str_le := str_le_trans.
Global Instance str_le_Total : Total str_le := str_le_total.
Global Instance str_le_AntiSymm : AntiSymm (=) str_le := str_le_antisym.

(** * [rev_str] *)

Lemma str_app_assoc s1 s2 s3 : (s1 ++ s2) ++ s3 = s1 ++ (s2 ++ s3).
Proof. induction s1 as [|a s1 IH]; cbn; [reflexivity|]. rewrite IH. reflexivity. Qed.

Lemma str_length_app s1 s2 : String.length (s1 ++ s2) = String.length s1 + String.length s2.
Proof. induction s1 as [|a s1 IH]; cbn; [reflexivity|]. rewrite IH. reflexivity. Qed.

Lemma rev_app_spec s : forall acc, rev_app s acc = rev_str s ++ acc.
Proof.
  unfold rev_str. induction s as [|a s IH]; intros acc; cbn; [reflexivity|].
  rewrite (IH (String a acc)), (IH (String a EmptyString)).
  rewrite str_app_assoc. reflexivity.
Qed.

Lemma str_app_nil_r s : s ++ "" = s.
Proof. induction s as [|a s IH]; cbn; [reflexivity|]. rewrite IH. reflexivity. Qed.

Lemma rev_str_cons a s : rev_str (String a s) = rev_str s ++ String a "".
Proof. unfold rev_str at 1. cbn. apply rev_app_spec. Qed.

Lemma rev_str_app s1 s2 : rev_str (s1 ++ s2) = rev_str s2 ++ rev_str s1.
Proof.
  induction s1 as [|a s1 IH]; cbn [append].
  - change (rev_str "") with "". rewrite str_app_nil_r. reflexivity.
  - rewrite !rev_str_cons, IH. rewrite str_app_assoc. reflexivity.
Qed.

Lemma rev_str_involutive s : rev_str (rev_str s) = s.
Proof.
  induction s as [|a s IH]; [reflexivity|].
  rewrite rev_str_cons, rev_str_app, IH. reflexivity.
Qed.

(** * [trim_left] / [trim_left_rev] return a suffix and are idempotent *)

Lemma trim_left_eq1 a : trim_left (String a "") = if is_ascii_ws a then "" else String a "".
Proof. cbn. destruct (is_ascii_ws a); reflexivity. Qed.
Lemma trim_left_eq2 a b : trim_left (String a (String b "")) =
  if is_ascii_ws a then trim_left (String b "") else if ws2 a b then "" else String a (String b "").
Proof. reflexivity. Qed.
Lemma trim_left_eq3 a b c r : trim_left (String a (String b (String c r))) =
  if is_ascii_ws a then trim_left (String b (String c r)) else
  if ws2 a b then trim_left (String c r) else
  if ws3 a b c then trim_left r else String a (String b (String c r)).
Proof. reflexivity. Qed.
Lemma trim_left_rev_eq1 a : trim_left_rev (String a "") = if is_ascii_ws a then "" else String a "".
Proof. cbn. destruct (is_ascii_ws a); reflexivity. Qed.
Lemma trim_left_rev_eq2 a b : trim_left_rev (String a (String b "")) =
  if is_ascii_ws a then trim_left_rev (String b "") else if ws2 b a then "" else String a (String b "").
Proof. reflexivity. Qed.
Lemma trim_left_rev_eq3 a b c r : trim_left_rev (String a (String b (String c r))) =
  if is_ascii_ws a then trim_left_rev (String b (String c r)) else
  if ws2 b a then trim_left_rev (String c r) else
  if ws3 c b a then trim_left_rev r else String a (String b (String c r)).
Proof. reflexivity. Qed.

Lemma trim_left_suffix_n n : forall s, String.length s <= n -> exists p, s = p ++ trim_left s.
Proof.
  induction n as [|n IH]; intros s Hn.
  - destruct s; [exists ""; reflexivity|cbn in Hn; lia].
  - destruct s as [|a [|b [|c r]]]; try (exists ""; reflexivity).
    + rewrite ?trim_left_eq1, ?trim_left_rev_eq1. destruct (is_ascii_ws a); [exists (String a ""); reflexivity|exists ""; reflexivity].
    + cbn in Hn. rewrite ?trim_left_eq1, ?trim_left_eq2, ?trim_left_eq3. destruct (is_ascii_ws a).
      { destruct (IH (String b "")) as [p Hp]; [cbn; lia|].
        exists (String a p). cbn [append]. rewrite <- Hp. reflexivity. }
      destruct (ws2 a b); [exists (String a (String b "")); reflexivity|exists ""; reflexivity].
    + cbn in Hn. rewrite ?trim_left_eq1, ?trim_left_eq2, ?trim_left_eq3. destruct (is_ascii_ws a).
      { destruct (IH (String b (String c r))) as [p Hp]; [cbn; lia|].
        exists (String a p). cbn [append]. rewrite <- Hp. reflexivity. }
      destruct (ws2 a b).
      { destruct (IH (String c r)) as [p Hp]; [cbn; lia|].
        exists (String a (String b p)). cbn [append]. rewrite <- Hp. reflexivity. }
      destruct (ws3 a b c); [|exists ""; reflexivity].
      destruct (IH r) as [p Hp]; [lia|].
      exists (String a (String b (String c p))). cbn [append]. rewrite <- Hp. reflexivity.
Qed.

Lemma trim_left_rev_suffix_n n : forall s, String.length s <= n -> exists p, s = p ++ trim_left_rev s.
Proof.
  induction n as [|n IH]; intros s Hn.
  - destruct s; [exists ""; reflexivity|cbn in Hn; lia].
  - destruct s as [|a [|b [|c r]]]; try (exists ""; reflexivity).
    + rewrite ?trim_left_eq1, ?trim_left_rev_eq1. destruct (is_ascii_ws a); [exists (String a ""); reflexivity|exists ""; reflexivity].
    + cbn in Hn. rewrite ?trim_left_rev_eq1, ?trim_left_rev_eq2, ?trim_left_rev_eq3. destruct (is_ascii_ws a).
      { destruct (IH (String b "")) as [p Hp]; [cbn; lia|].
        exists (String a p). cbn [append]. rewrite <- Hp. reflexivity. }
      destruct (ws2 b a); [exists (String a (String b "")); reflexivity|exists ""; reflexivity].
    + cbn in Hn. rewrite ?trim_left_rev_eq1, ?trim_left_rev_eq2, ?trim_left_rev_eq3. destruct (is_ascii_ws a).
      { destruct (IH (String b (String c r))) as [p Hp]; [cbn; lia|].
        exists (String a p). cbn [append]. rewrite <- Hp. reflexivity. }
      destruct (ws2 b a).
      { destruct (IH (String c r)) as [p Hp]; [cbn; lia|].
        exists (String a (String b p)). cbn [append]. rewrite <- Hp. reflexivity. }
      destruct (ws3 c b a); [|exists ""; reflexivity].
      destruct (IH r) as [p Hp]; [lia|].
      exists (String a (String b (String c p))). cbn [append]. rewrite <- Hp. reflexivity.
Qed.

Lemma trim_left_rev_suffix s : exists p, s = p ++ trim_left_rev s.
Proof. apply (trim_left_rev_suffix_n (String.length s)). lia. Qed.

Lemma trim_left_idem_n n : forall s, String.length s <= n -> trim_left (trim_left s) = trim_left s.
Proof.
  induction n as [|n IH]; intros s Hn.
  - destruct s; [reflexivity|cbn in Hn; lia].
  - destruct s as [|a [|b [|c r]]]; try reflexivity.
    + rewrite ?trim_left_eq1, ?trim_left_rev_eq1. destruct (is_ascii_ws a) eqn:Ea; [reflexivity|]. rewrite ?trim_left_eq1, ?trim_left_rev_eq1, Ea. reflexivity.
    + cbn in Hn. rewrite ?trim_left_eq1, ?trim_left_eq2, ?trim_left_eq3. destruct (is_ascii_ws a) eqn:Ea.
      { apply IH. cbn; lia. }
      destruct (ws2 a b) eqn:Eab; [reflexivity|].
      rewrite trim_left_eq2, Ea, Eab. reflexivity.
    + cbn in Hn. rewrite ?trim_left_eq1, ?trim_left_eq2, ?trim_left_eq3. destruct (is_ascii_ws a) eqn:Ea.
      { apply IH. cbn; lia. }
      destruct (ws2 a b) eqn:Eab.
      { apply IH. cbn; lia. }
      destruct (ws3 a b c) eqn:Eabc.
      { apply IH. lia. }
      rewrite trim_left_eq3, Ea, Eab, Eabc. reflexivity.
Qed.

Lemma trim_left_idem s : trim_left (trim_left s) = trim_left s.
Proof. apply (trim_left_idem_n (String.length s)). lia. Qed.

Lemma trim_left_rev_idem_n n : forall s, String.length s <= n -> trim_left_rev (trim_left_rev s) = trim_left_rev s.
Proof.
  induction n as [|n IH]; intros s Hn.
  - destruct s; [reflexivity|cbn in Hn; lia].
  - destruct s as [|a [|b [|c r]]]; try reflexivity.
    + rewrite ?trim_left_eq1, ?trim_left_rev_eq1. destruct (is_ascii_ws a) eqn:Ea; [reflexivity|]. rewrite ?trim_left_eq1, ?trim_left_rev_eq1, Ea. reflexivity.
    + cbn in Hn. rewrite ?trim_left_rev_eq1, ?trim_left_rev_eq2, ?trim_left_rev_eq3. destruct (is_ascii_ws a) eqn:Ea.
      { apply IH. cbn; lia. }
      destruct (ws2 b a) eqn:Eab; [reflexivity|].
      rewrite trim_left_rev_eq2, Ea, Eab. reflexivity.
    + cbn in Hn. rewrite ?trim_left_rev_eq1, ?trim_left_rev_eq2, ?trim_left_rev_eq3. destruct (is_ascii_ws a) eqn:Ea.
      { apply IH. cbn; lia. }
      destruct (ws2 b a) eqn:Eab.
      { apply IH. cbn; lia. }
      destruct (ws3 c b a) eqn:Eabc.
      { apply IH. lia. }
      rewrite trim_left_rev_eq3, Ea, Eab, Eabc. reflexivity.
Qed.

Lemma trim_left_rev_idem s : trim_left_rev (trim_left_rev s) = trim_left_rev s.
Proof. apply (trim_left_rev_idem_n (String.length s)). lia. Qed.

(** A left-trimmed string stays left-trimmed when its tail is cut: the
    whitespace tests only look at the first one to three bytes. *)
Definition lead_ws (s : string) : bool :=
  match s with
  | String a r1 =>
      is_ascii_ws a ||
      match r1 with
      | String b r2 => ws2 a b || match r2 with String c _ => ws3 a b c | _ => false end
      | _ => false
      end
  | _ => false
  end.

Lemma trim_left_length s : String.length (trim_left s) <= String.length s.
Proof.
  destruct (trim_left_suffix_n _ s (le_n _)) as [p Hp].
  rewrite Hp at 2. rewrite str_length_app. lia.
Qed.

Lemma trim_left_fix_lead s : trim_left s = s -> lead_ws s = false.
Proof.
  destruct s as [|a [|b [|c r]]]; [reflexivity|..].
  - rewrite trim_left_eq1. cbn. destruct (is_ascii_ws a); [discriminate|reflexivity].
  - rewrite trim_left_eq2. cbn [lead_ws].
    destruct (is_ascii_ws a).
    { intros H. apply (f_equal String.length) in H.
      pose proof (trim_left_length (String b "")) as L. cbn in H, L. lia. }
    destruct (ws2 a b); [discriminate|reflexivity].
  - rewrite trim_left_eq3. cbn [lead_ws].
    destruct (is_ascii_ws a).
    { intros H. apply (f_equal String.length) in H.
      pose proof (trim_left_length (String b (String c r))) as L. cbn in H, L. lia. }
    destruct (ws2 a b).
    { intros H. apply (f_equal String.length) in H.
      pose proof (trim_left_length (String c r)) as L. cbn in H, L. lia. }
    destruct (ws3 a b c); [|reflexivity].
    intros H. apply (f_equal String.length) in H.
    pose proof (trim_left_length r) as L. cbn in H, L. lia.
Qed.

Lemma lead_trim_left_fix s : lead_ws s = false -> trim_left s = s.
Proof.
  destruct s as [|a [|b [|c r]]]; [reflexivity|..].
  - rewrite trim_left_eq1. cbn. destruct (is_ascii_ws a); [discriminate|reflexivity].
  - rewrite trim_left_eq2. cbn [lead_ws].
    destruct (is_ascii_ws a); [discriminate|]. destruct (ws2 a b); [discriminate|reflexivity].
  - rewrite trim_left_eq3. cbn [lead_ws].
    destruct (is_ascii_ws a); [discriminate|]. destruct (ws2 a b); [discriminate|].
    destruct (ws3 a b c); [discriminate|reflexivity].
Qed.

Lemma lead_ws_prefix y1 y2 : lead_ws (y1 ++ y2) = false -> lead_ws y1 = false.
Proof.
  destruct y1 as [|a [|b [|c r]]]; [reflexivity|..]; cbn [append lead_ws].
  - destruct (is_ascii_ws a); [discriminate|reflexivity].
  - destruct (is_ascii_ws a); [discriminate|]. destruct (ws2 a b); [discriminate|reflexivity].
  - intros H; exact H.
Qed.

Lemma trim_left_fix_prefix y1 y2 : trim_left (y1 ++ y2) = y1 ++ y2 -> trim_left y1 = y1.
Proof.
  intros H. apply lead_trim_left_fix, (lead_ws_prefix _ y2), trim_left_fix_lead, H.
Qed.

(** * [trim_space] is idempotent *)
Theorem trim_space_idem s : trim_space (trim_space s) = trim_space s.
Proof.
  unfold trim_space.
  set (y := trim_left s).
  assert (Hy : trim_left y = y) by apply trim_left_idem.
  set (w := trim_left_rev (rev_str y)).
  destruct (trim_left_rev_suffix (rev_str y)) as [p Hp]. fold w in Hp.
  assert (Hpre : y = rev_str w ++ rev_str p).
  { rewrite <- (rev_str_involutive y), Hp, rev_str_app. reflexivity. }
  assert (Hz : trim_left (rev_str w) = rev_str w).
  { apply (trim_left_fix_prefix _ (rev_str p)). rewrite <- Hpre. exact Hy. }
  rewrite Hz, rev_str_involutive. unfold w. rewrite trim_left_rev_idem. reflexivity.
Qed.

Lemma is_blank_trim_space s : is_blank (trim_space s) = is_blank s.
Proof. unfold is_blank. rewrite trim_space_idem. reflexivity. Qed.

(** * The derived legacy title is never blank *)
Lemma derive_lines_nonblank ls t r : derive_lines ls = Some (t, r) -> is_blank t = false.
Proof.
  induction ls as [|raw rest IH]; cbn; [discriminate|].
  destruct (trim_space raw) as [|a u] eqn:Et.
  - cbn. exact IH.
  - cbn [orb]. destruct (is_legacy_heading (String a u)); [exact IH|].
    intros H. injection H as <- _. rewrite <- Et.
    rewrite is_blank_trim_space. unfold is_blank. rewrite Et. reflexivity.
Qed.

Lemma derive_title_nonblank body : is_blank (fst (derive_title_body body)) = false.
Proof.
  unfold derive_title_body.
  destruct (derive_lines (split_nl body)) as [[t [rest|]]|] eqn:E.
  - cbn. eapply derive_lines_nonblank; eassumption.
  - cbn. eapply derive_lines_nonblank; eassumption.
  - destruct (is_blank body); vm_compute; reflexivity.
Qed.
