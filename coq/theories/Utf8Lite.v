(** Utf8Lite.v — UTF-8 as Go's [for _, r := range s] / [string([]rune)] see it.
    [decode] turns a byte list into code points, one U+FFFD per byte that does
    not start a well-formed sequence (unicode/utf8.DecodeRune: first-byte table
    plus accept ranges, so overlong forms, surrogates and > U+10FFFF are
    rejected); [encode] is utf8.AppendRune (non-scalar values become U+FFFD). *)
From Ergo Require Import Base.
From Coq Require Import Ascii NArith.
From Coq Require String.
Local Open Scope N_scope.

Definition bytes_of (s : string) : list N := N_of_ascii <$> String.list_ascii_of_string s.
Definition str_of (l : list N) : string := String.string_of_list_ascii (ascii_of_N <$> l).

Definition rune_error : N := 65533.

Definition is_cont (b : N) : bool := (128 <=? b) && (b <=? 191).

(** first[b0] of unicode/utf8: size and accept range of the second byte. *)
Definition lead (b0 : N) : option (N * N * N) :=
  if b0 <? 194 then None
  else if b0 <=? 223 then Some (2, 128, 191)
  else if b0 =? 224 then Some (3, 160, 191)
  else if b0 <=? 236 then Some (3, 128, 191)
  else if b0 =? 237 then Some (3, 128, 159)
  else if b0 <=? 239 then Some (3, 128, 191)
  else if b0 =? 240 then Some (4, 144, 191)
  else if b0 <=? 243 then Some (4, 128, 191)
  else if b0 =? 244 then Some (4, 128, 143)
  else None.

Fixpoint decode (l : list N) : list N :=
  match l with
  | [] => []
  | b0 :: r0 =>
      if b0 <? 128 then b0 :: decode r0 else
      match lead b0 with
      | None => rune_error :: decode r0
      | Some (sz, lo, hi) =>
          match r0 with
          | [] => rune_error :: decode r0
          | b1 :: r1 =>
              if negb ((lo <=? b1) && (b1 <=? hi)) then rune_error :: decode r0 else
              if sz =? 2 then ((b0 - 192) * 64 + (b1 - 128)) :: decode r1 else
              match r1 with
              | [] => rune_error :: decode r0
              | b2 :: r2 =>
                  if negb (is_cont b2) then rune_error :: decode r0 else
                  if sz =? 3 then ((b0 - 224) * 4096 + (b1 - 128) * 64 + (b2 - 128)) :: decode r2 else
                  match r2 with
                  | [] => rune_error :: decode r0
                  | b3 :: r3 =>
                      if negb (is_cont b3) then rune_error :: decode r0 else
                      ((b0 - 240) * 262144 + (b1 - 128) * 4096 + (b2 - 128) * 64 + (b3 - 128)) :: decode r3
                  end
              end
          end
      end
  end.

Definition is_scalar (r : N) : bool :=
  (r <? 55296) || ((57344 <=? r) && (r <=? 1114111)).

Definition enc_rune (r : N) : list N :=
  if r <? 128 then [r]
  else if r <? 2048 then [192 + r / 64; 128 + r mod 64]
  else if negb (is_scalar r) then [239; 191; 189]
  else if r <? 65536 then [224 + r / 4096; 128 + (r / 64) mod 64; 128 + r mod 64]
  else [240 + r / 262144; 128 + (r / 4096) mod 64; 128 + (r / 64) mod 64; 128 + r mod 64].

Definition encode (l : list N) : list N := concat (enc_rune <$> l).

Definition runes (s : string) : list N := decode (bytes_of s).
Definition of_runes (l : list N) : string := str_of (encode l).

(** * Basic facts *)

Lemma bytes_of_app s t : bytes_of (s ++ t) = bytes_of s ++ bytes_of t.
Proof.
  unfold bytes_of. induction s as [|a s IH]; [reflexivity|].
  change (String a s ++ t)%string with (String a (s ++ t)%string).
  cbn [String.list_ascii_of_string fmap list_fmap app]. f_equal. exact IH.
Qed.

Lemma bytes_of_str_of l : Forall (λ b, b < 256) l → bytes_of (str_of l) = l.
Proof.
  unfold bytes_of, str_of. induction 1 as [|b l Hb _ IH]; cbn; [reflexivity|].
  rewrite N_ascii_embedding by exact Hb. f_equal. exact IH.
Qed.

Lemma str_of_bytes_of s : str_of (bytes_of s) = s.
Proof.
  unfold bytes_of, str_of. induction s as [|a s IH]; cbn; [reflexivity|].
  rewrite ascii_N_embedding. f_equal. exact IH.
Qed.

Lemma str_of_app l1 l2 : str_of (l1 ++ l2) = (str_of l1 ++ str_of l2)%string.
Proof.
  unfold str_of. induction l1 as [|a l IH]; cbn; [reflexivity|].
  match goal with |- _ = (String ?c ?x ++ ?y)%string => change (String c x ++ y)%string with (String c (x ++ y)%string) end.
  f_equal. exact IH.
Qed.

Lemma bytes_of_lt s : Forall (λ b, b < 256) (bytes_of s).
Proof.
  unfold bytes_of. induction s as [|a s IH]; cbn; constructor; [apply N_ascii_bounded|exact IH].
Qed.

Lemma encode_app l1 l2 : encode (l1 ++ l2) = encode l1 ++ encode l2.
Proof. unfold encode. rewrite fmap_app, concat_app. reflexivity. Qed.

Lemma of_runes_app l1 l2 : of_runes (l1 ++ l2) = (of_runes l1 ++ of_runes l2)%string.
Proof. unfold of_runes. rewrite encode_app. apply str_of_app. Qed.

(** Every encoded rune starts with a non-continuation byte and is non-empty. *)
Definition starts_clean (l : list N) : Prop :=
  match l with [] => True | b :: _ => is_cont b = false end.

Ltac gen_div := repeat match goal with |- context [N.div ?a ?b] => let x := fresh "x" in set (x := N.div a b); clearbody x end.

Lemma enc_rune_clean r : ∃ b t, enc_rune r = b :: t ∧ is_cont b = false.
Proof.
  unfold enc_rune.
  destruct (N.ltb_spec r 128).
  { eexists _, _; split; [reflexivity|]. unfold is_cont. apply andb_false_iff. left. apply N.leb_gt. lia. }
  destruct (N.ltb_spec r 2048).
  { eexists _, _; split; [reflexivity|]. unfold is_cont. apply andb_false_iff. right. apply N.leb_gt. gen_div. lia. }
  destruct (is_scalar r); cbn [negb].
  2:{ eexists _, _; split; [reflexivity|]. reflexivity. }
  destruct (N.ltb_spec r 65536).
  all: eexists _, _; (split; [reflexivity|]); unfold is_cont; apply andb_false_iff; right; apply N.leb_gt; gen_div; lia.
Qed.

Lemma encode_clean l : starts_clean (encode l).
Proof.
  destruct l as [|r l]; [exact I|].
  unfold encode. cbn. destruct (enc_rune_clean r) as (b & t & -> & Hb). exact Hb.
Qed.

(** * Decoding distributes over a clean boundary.
    A sequence cut short by the end of [s] fails in [s ++ t] exactly as in [s]
    when [t] starts with a non-continuation byte, because every accept range
    is inside 0x80..0xBF. *)

Lemma lead_range b0 sz lo hi : lead b0 = Some (sz, lo, hi) → 128 <= lo ∧ hi <= 191.
Proof.
  unfold lead. repeat (case_match; try discriminate); intros [= <- <- <-]; lia.
Qed.

Lemma decode_app_clean s t : starts_clean t → decode (s ++ t) = decode s ++ decode t.
Proof.
  intros Ht. destruct t as [|bt rt]; [rewrite !app_nil_r; reflexivity|].
  cbn in Ht. set (t := bt :: rt) in *.
  remember (length s) as n eqn:Hn.
  revert s Hn. induction (lt_wf n) as [n _ IH]. intros s ->.
  assert (IH' : ∀ s', (length s' < length s)%nat → decode (s' ++ t) = decode s' ++ decode t)
    by (intros s' Hl; eapply IH; [exact Hl|reflexivity]).
  clear IH.
  assert (Hnc : ∀ lo hi, 128 <= lo → hi <= 191 → (lo <=? bt) && (bt <=? hi) = false).
  { intros lo hi Hlo Hhi. unfold is_cont in Ht.
    apply andb_false_iff in Ht. apply andb_false_iff.
    destruct Ht as [H|H]; [left|right]; apply N.leb_gt; apply N.leb_gt in H; lia. }
  destruct s as [|b0 r0]; [reflexivity|].
  cbn [app decode length] in *.
  destruct (b0 <? 128). { rewrite IH' by lia. reflexivity. }
  destruct (lead b0) as [[[sz lo] hi]|] eqn:Hlead.
  2:{ rewrite IH' by lia. reflexivity. }
  apply lead_range in Hlead as [Hlo Hhi].
  destruct r0 as [|b1 r1].
  { cbn [app]. unfold t at 1. rewrite (Hnc lo hi Hlo Hhi). cbn [negb]. reflexivity. }
  cbn [app length] in *.
  destruct (negb _).
  { change (b1 :: r1 ++ t) with ((b1 :: r1) ++ t). rewrite IH' by (cbn; lia). reflexivity. }
  destruct (sz =? 2). { rewrite IH' by lia. reflexivity. }
  destruct r1 as [|b2 r2].
  { cbn [app]. unfold t at 1. rewrite Ht. cbn [negb]. fold t.
    change (b1 :: t) with ([b1] ++ t). rewrite IH' by (cbn; lia). reflexivity. }
  cbn [app length] in *.
  destruct (negb (is_cont b2)).
  { change (b1 :: b2 :: r2 ++ t) with ((b1 :: b2 :: r2) ++ t). rewrite IH' by (cbn; lia). reflexivity. }
  destruct (sz =? 3). { rewrite IH' by lia. reflexivity. }
  destruct r2 as [|b3 r3].
  { cbn [app]. unfold t at 1. rewrite Ht. cbn [negb]. fold t.
    change (b1 :: b2 :: t) with ([b1; b2] ++ t). rewrite IH' by (cbn; lia). reflexivity. }
  cbn [app length] in *.
  destruct (negb (is_cont b3)).
  { change (b1 :: b2 :: b3 :: r3 ++ t) with ((b1 :: b2 :: b3 :: r3) ++ t). rewrite IH' by (cbn; lia). reflexivity. }
  rewrite IH' by lia. reflexivity.
Qed.

(** After an ASCII byte every boundary is clean. *)
Lemma decode_app_ascii s b t : b < 128 → decode (s ++ b :: t) = decode s ++ b :: decode t.
Proof.
  intros Hb. rewrite decode_app_clean.
  - cbn [decode]. destruct (N.ltb_spec b 128); [reflexivity|lia].
  - cbn. unfold is_cont. apply andb_false_iff. left. apply N.leb_gt. lia.
Qed.

(** * Round trip: decoding an encoding gives the (sanitised) runes back. *)
Definition sanitize (r : N) : N := if is_scalar r then r else rune_error.

Lemma decode_cons b0 r0 : decode (b0 :: r0) =
      if b0 <? 128 then b0 :: decode r0 else
      match lead b0 with
      | None => rune_error :: decode r0
      | Some (sz, lo, hi) =>
          match r0 with
          | [] => rune_error :: decode r0
          | b1 :: r1 =>
              if negb ((lo <=? b1) && (b1 <=? hi)) then rune_error :: decode r0 else
              if sz =? 2 then ((b0 - 192) * 64 + (b1 - 128)) :: decode r1 else
              match r1 with
              | [] => rune_error :: decode r0
              | b2 :: r2 =>
                  if negb (is_cont b2) then rune_error :: decode r0 else
                  if sz =? 3 then ((b0 - 224) * 4096 + (b1 - 128) * 64 + (b2 - 128)) :: decode r2 else
                  match r2 with
                  | [] => rune_error :: decode r0
                  | b3 :: r3 =>
                      if negb (is_cont b3) then rune_error :: decode r0 else
                      ((b0 - 240) * 262144 + (b1 - 128) * 4096 + (b2 - 128) * 64 + (b3 - 128)) :: decode r3
                  end
              end
          end
      end.
Proof. reflexivity. Qed.
Global Arguments decode : simpl never.

Ltac cmp_all :=
  repeat match goal with
  | |- context [N.ltb ?a ?b] => destruct (N.ltb_spec a b); try lia
  | |- context [N.leb ?a ?b] => destruct (N.leb_spec a b); try lia
  | |- context [N.eqb ?a ?b] => destruct (N.eqb_spec a b); try lia
  end.

Lemma decode_2 b0 b1 t : 194 <= b0 <= 223 → 128 <= b1 <= 191 →
  decode (b0 :: b1 :: t) = ((b0 - 192) * 64 + (b1 - 128)) :: decode t.
Proof.
  intros H0 H1. rewrite decode_cons. unfold lead.
  destruct (N.ltb_spec b0 128); [lia|]. destruct (N.ltb_spec b0 194); [lia|].
  destruct (N.leb_spec b0 223); [|lia].
  destruct (N.leb_spec 128 b1); [|lia]. destruct (N.leb_spec b1 191); [|lia].
  reflexivity.
Qed.

Lemma decode_3 b0 b1 b2 t : 224 <= b0 <= 239 → 128 <= b1 <= 191 → 128 <= b2 <= 191 →
  (b0 = 224 → 160 <= b1) → (b0 = 237 → b1 <= 159) →
  decode (b0 :: b1 :: b2 :: t) = ((b0 - 224) * 4096 + (b1 - 128) * 64 + (b2 - 128)) :: decode t.
Proof.
  intros H0 H1 H2 Ha Hb. rewrite decode_cons. unfold lead, is_cont.
  destruct (N.ltb_spec b0 128); [lia|]. destruct (N.ltb_spec b0 194); [lia|].
  destruct (N.leb_spec b0 223); [lia|].
  destruct (N.leb_spec 128 b2); [|lia]. destruct (N.leb_spec b2 191); [|lia].
  destruct (N.eqb_spec b0 224).
  { destruct (N.leb_spec 160 b1); [|lia]. destruct (N.leb_spec b1 191); [|lia]. reflexivity. }
  destruct (N.leb_spec b0 236).
  { destruct (N.leb_spec 128 b1); [|lia]. destruct (N.leb_spec b1 191); [|lia]. reflexivity. }
  destruct (N.eqb_spec b0 237).
  { destruct (N.leb_spec 128 b1); [|lia]. destruct (N.leb_spec b1 159); [|lia]. reflexivity. }
  destruct (N.leb_spec b0 239); [|lia].
  destruct (N.leb_spec 128 b1); [|lia]. destruct (N.leb_spec b1 191); [|lia]. reflexivity.
Qed.

Lemma decode_4 b0 b1 b2 b3 t : 240 <= b0 <= 244 → 128 <= b1 <= 191 → 128 <= b2 <= 191 → 128 <= b3 <= 191 →
  (b0 = 240 → 144 <= b1) → (b0 = 244 → b1 <= 143) →
  decode (b0 :: b1 :: b2 :: b3 :: t)
  = ((b0 - 240) * 262144 + (b1 - 128) * 4096 + (b2 - 128) * 64 + (b3 - 128)) :: decode t.
Proof.
  intros H0 H1 H2 H3 Ha Hb. rewrite decode_cons. unfold lead, is_cont.
  destruct (N.ltb_spec b0 128); [lia|]. destruct (N.ltb_spec b0 194); [lia|].
  destruct (N.leb_spec b0 223); [lia|]. destruct (N.eqb_spec b0 224); [lia|].
  destruct (N.leb_spec b0 236); [lia|]. destruct (N.eqb_spec b0 237); [lia|].
  destruct (N.leb_spec b0 239); [lia|].
  destruct (N.leb_spec 128 b2); [|lia]. destruct (N.leb_spec b2 191); [|lia].
  destruct (N.leb_spec 128 b3); [|lia]. destruct (N.leb_spec b3 191); [|lia].
  destruct (N.eqb_spec b0 240).
  { destruct (N.leb_spec 144 b1); [|lia]. destruct (N.leb_spec b1 191); [|lia]. reflexivity. }
  destruct (N.leb_spec b0 243).
  { destruct (N.leb_spec 128 b1); [|lia]. destruct (N.leb_spec b1 191); [|lia]. reflexivity. }
  destruct (N.eqb_spec b0 244); [|lia].
  destruct (N.leb_spec 128 b1); [|lia]. destruct (N.leb_spec b1 143); [|lia]. reflexivity.
Qed.

Lemma decode_enc_rune r t : decode (enc_rune r ++ t) = sanitize r :: decode t.
Proof.
  unfold enc_rune, sanitize, is_scalar.
  pose proof (N.div_mod r 64 ltac:(lia)) as E. pose proof (N.mod_lt r 64 ltac:(lia)) as Hm.
  pose proof (N.div_mod (r / 64) 64 ltac:(lia)) as E2. pose proof (N.mod_lt (r / 64) 64 ltac:(lia)) as Hm2.
  pose proof (N.div_mod (r / 64 / 64) 64 ltac:(lia)) as E3. pose proof (N.mod_lt (r / 64 / 64) 64 ltac:(lia)) as Hm3.
  replace (r / 262144) with (r / 64 / 64 / 64) by (rewrite !N.div_div by lia; reflexivity).
  replace (r / 4096) with (r / 64 / 64) by (rewrite N.div_div by lia; reflexivity).
  set (m := r mod 64) in *. set (q := r / 64) in *. set (m2 := q mod 64) in *. set (q2 := q / 64) in *.
  set (m3 := q2 mod 64) in *. set (q3 := q2 / 64) in *.
  clearbody m q m2 q2 m3 q3.
  destruct (N.ltb_spec r 128) as [H1|H1].
  { cbn [app]. rewrite decode_cons. destruct (N.ltb_spec r 128); [|lia].
    destruct (N.ltb_spec r 55296); [reflexivity|lia]. }
  destruct (N.ltb_spec r 2048) as [H2|H2].
  { destruct (N.ltb_spec r 55296); [|lia]. cbn [orb app].
    rewrite decode_2 by lia. f_equal. lia. }
  destruct (N.ltb_spec r 55296) as [H3|H3]; cbn [orb].
  { cbn [negb]. destruct (N.ltb_spec r 65536); [|lia]. cbn [app].
    rewrite decode_3 by lia. f_equal. lia. }
  destruct (N.leb_spec 57344 r) as [H4|H4]; cbn [andb].
  2:{ cbn [negb app]. rewrite decode_3 by lia. reflexivity. }
  destruct (N.leb_spec r 1114111) as [H5|H5]; cbn [negb].
  2:{ cbn [app]. rewrite decode_3 by lia. reflexivity. }
  destruct (N.ltb_spec r 65536) as [H6|H6]; cbn [app].
  { rewrite decode_3 by lia. f_equal. lia. }
  rewrite decode_4 by lia. f_equal. lia.
Qed.

Lemma decode_encode l : decode (encode l) = sanitize <$> l.
Proof.
  induction l as [|r l IH]; [reflexivity|].
  unfold encode in *. cbn [fmap list_fmap concat]. rewrite decode_enc_rune. f_equal. exact IH.
Qed.

(** A byte string is valid UTF-8 iff it is the encoding of some rune list. *)
Definition valid_utf8 (s : string) : Prop := ∃ l, s = of_runes l.

Lemma valid_utf8_app s t : valid_utf8 s → valid_utf8 t → valid_utf8 (s ++ t).
Proof. intros [l1 ->] [l2 ->]. exists (l1 ++ l2). symmetry. apply of_runes_app. Qed.

Lemma enc_rune_lt r : Forall (λ b, b < 256) (enc_rune r).
Proof.
  unfold enc_rune, is_scalar.
  destruct (N.ltb_spec r 128). { repeat constructor. lia. }
  destruct (N.ltb_spec r 2048).
  { pose proof (N.mod_lt r 64 ltac:(lia)). assert (r / 64 < 32) by (apply N.div_lt_upper_bound; lia).
    repeat constructor; lia. }
  destruct (N.ltb_spec r 55296); cbn [orb negb].
  { destruct (N.ltb_spec r 65536); [|lia].
    pose proof (N.mod_lt r 64 ltac:(lia)). pose proof (N.mod_lt (r / 64) 64 ltac:(lia)).
    assert (r / 4096 < 16) by (apply N.div_lt_upper_bound; lia).
    repeat constructor; lia. }
  destruct (N.leb_spec 57344 r); cbn [andb negb]. 2:{ repeat constructor; lia. }
  destruct (N.leb_spec r 1114111); cbn [negb]. 2:{ repeat constructor; lia. }
  pose proof (N.mod_lt r 64 ltac:(lia)). pose proof (N.mod_lt (r / 64) 64 ltac:(lia)).
  pose proof (N.mod_lt (r / 4096) 64 ltac:(lia)).
  destruct (N.ltb_spec r 65536).
  { assert (r / 4096 < 16) by (apply N.div_lt_upper_bound; lia). repeat constructor; lia. }
  assert (r / 262144 < 5) by (apply N.div_lt_upper_bound; lia). repeat constructor; lia.
Qed.

Lemma encode_lt l : Forall (λ b, b < 256) (encode l).
Proof.
  unfold encode. induction l as [|r l IH]; cbn; [constructor|].
  apply Forall_app. split; [apply enc_rune_lt|exact IH].
Qed.

Lemma runes_of_runes l : runes (of_runes l) = sanitize <$> l.
Proof.
  unfold runes, of_runes. rewrite bytes_of_str_of by apply encode_lt. apply decode_encode.
Qed.

Lemma bytes_of_of_runes l : bytes_of (of_runes l) = encode l.
Proof. unfold of_runes. apply bytes_of_str_of, encode_lt. Qed.
