(** Path.v — Unix path/filepath.Clean and the lexical part of
    validateResultPath (storage.go:407-423), on byte strings. *)
From Ergo Require Import Base Text.
From Coq Require Import Ascii String.
Local Open Scope string_scope.
Local Open Scope list_scope.

Definition slash : ascii := "/"%char.

(** Split on '/', keeping empty components. *)
Fixpoint split_slash_aux (s : string) (cur : string) : list string :=
  match s with
  | EmptyString => [rev_str cur]
  | String a r => if Ascii.eqb a slash then rev_str cur :: split_slash_aux r EmptyString
                  else split_slash_aux r (String a cur)
  end.
Definition split_slash (s : string) : list string := split_slash_aux s EmptyString.

Fixpoint join_slash (l : list string) : string :=
  match l with
  | [] => EmptyString
  | [x] => x
  | x :: xs => (x ++ String slash (join_slash xs))%string
  end.

Definition is_abs (s : string) : bool :=
  match s with String a _ => Ascii.eqb a slash | _ => false end.

(** Process components left to right; [acc] is the reversed output stack. *)
Fixpoint clean_comps (rooted : bool) (comps : list string) (acc : list string) : list string :=
  match comps with
  | [] => rev acc
  | c :: rest =>
      if (String.eqb c "" || String.eqb c ".")%bool then clean_comps rooted rest acc
      else if String.eqb c ".." then
        match acc with
        | top :: acc' =>
            if String.eqb top ".." then clean_comps rooted rest (c :: acc)
            else clean_comps rooted rest acc'
        | [] => if rooted then clean_comps rooted rest acc else clean_comps rooted rest [c]
        end
      else clean_comps rooted rest (c :: acc)
  end.

Definition clean (p : string) : string :=
  match p with
  | EmptyString => "."
  | _ =>
    let rooted := is_abs p in
    let out := join_slash (clean_comps rooted (split_slash p) []) in
    if rooted then String slash out
    else match out with EmptyString => "." | _ => out end
  end.

Fixpoint contains_sub (sub s : string) : bool :=
  match s with
  | EmptyString => String.prefix sub s
  | String _ r => (String.prefix sub s || contains_sub sub r)%bool
  end.

(** The lexical verdict of validateResultPath: [Some cleaned] if accepted so far. *)
Definition lexical_result_path (p : string) : option string :=
  let c := clean p in
  if is_abs c then None
  else if (String.prefix ".." c || contains_sub "/.." c)%bool then None
  else if (String.prefix ".ergo/" c || String.eqb c ".ergo")%bool then None
  else Some c.
