(** Discovery.v — model of .ergo store discovery (storage.go resolveErgoDir,
    ergoDir, getEventsPath; commands_create.go RunInit) over a file system
    without symlinks, and the facts behind property C18. *)
From Ergo Require Import Base Text Path PathFacts.
From Coq Require Import Ascii String List.
Local Open Scope string_scope.
Local Open Scope list_scope.
Local Arguments String.append !_ _ / : simpl nomatch.

(** * path/filepath on Unix: Join (two elements), Dir, Base, Abs *)
Definition data_dir : string := ".ergo".

(** filepath.Join(a, b): leading empty elements are dropped, the rest is
    joined with "/" and cleaned. *)
Definition join (a b : string) : string :=
  if a =?s "" then (if b =?s "" then "" else clean b) else clean (a +:+ String slash b).

(** s[:i+1] for the last slash position i ("" when there is none). *)
Fixpoint upto_last_slash (s : string) : string :=
  match s with
  | EmptyString => EmptyString
  | String a r => if has_slash s then String a (upto_last_slash r) else EmptyString
  end.
Definition dir (p : string) : string := clean (upto_last_slash p).

(** filepath.Base: "." for "", "/" for all-slashes, else the last non-empty component. *)
Definition base (p : string) : string :=
  if p =?s "" then "." else List.last (comps p) "/".

(** filepath.Abs with the process working directory [cwd]. *)
Definition abs (cwd p : string) : string := if is_abs p then clean p else join cwd p.

(** * Clean absolute paths as component lists *)
Definition abs_of (cs : list string) : string := String slash (join_slash cs).
(** The components an absolute path denotes. *)
Definition canon (p : string) : list string := walk [] (split_slash p).

Lemma canon_nc p : Forall nc (canon p).
Proof. unfold canon. rewrite split_slash_splits. apply walk_root_nc. Qed.
Lemma clean_abs p : is_abs p = true -> clean p = abs_of (canon p).
Proof. intros H. unfold canon. rewrite split_slash_splits. apply clean_abs_walk. assumption. Qed.

Lemma comps_abs_of cs : Forall nc cs -> comps (abs_of cs) = cs.
Proof. apply comps_abs. Qed.
Lemma abs_of_inj cs cs' : Forall nc cs -> Forall nc cs' -> abs_of cs = abs_of cs' -> cs = cs'.
Proof. intros H H' E. rewrite <- (comps_abs_of cs), <- (comps_abs_of cs'), E by assumption. reflexivity. Qed.

Lemma canon_abs_of cs : Forall nc cs -> canon (abs_of cs) = cs.
Proof.
  intros H. unfold canon, abs_of. rewrite split_abs by assumption. unfold walk.
  change (walkr (rev []) ("" :: match cs with [] => [""] | _ :: _ => cs end))
    with (walkr [] (match cs with [] => [""] | _ :: _ => cs end)).
  destruct cs as [|c cs]; [reflexivity|]. rewrite walkr_nc, app_nil_r, rev_involutive by assumption. reflexivity.
Qed.

(** Cleaning  <clean absolute path>/<anything>  walks <anything> from there. *)
Lemma clean_under p t : is_abs p = true ->
  clean (p +:+ String slash t) = abs_of (walk (canon p) (split_slash t)).
Proof.
  intros Hp. assert (Ha : is_abs (p +:+ String slash t) = true) by (destruct p; [discriminate|exact Hp]).
  rewrite clean_abs by assumption. f_equal. unfold canon.
  rewrite !split_slash_splits, splits_app_slash, walk_app. reflexivity.
Qed.

Lemma join_abs p t : is_abs p = true -> join p t = abs_of (walk (canon p) (split_slash t)).
Proof. intros Hp. unfold join. destruct p; [discriminate|]. cbn [String.eqb]. apply clean_under. assumption. Qed.

Lemma join_comp cs c : Forall nc cs -> nc c -> join (abs_of cs) c = abs_of (cs ++ [c]).
Proof.
  intros H Hc. rewrite join_abs, canon_abs_of by (reflexivity || assumption).
  rewrite split_slash_splits, splits_single by apply Hc. rewrite walk_nc by (constructor; [assumption|constructor]).
  reflexivity.
Qed.

Lemma walk_skip root c : skipc c = true -> walk root [c] = root.
Proof. intros H. unfold walk. cbn [walkr]. rewrite H. apply rev_involutive. Qed.

Lemma walk_dotdot root x : walk (root ++ [x]) [".."] = root.
Proof.
  unfold walk. cbn [walkr]. change (skipc "..") with false. change (".." =?s "..") with true. cbn iota.
  rewrite rev_app_distr. cbn [rev app list.tail tl]. apply rev_involutive.
Qed.

Lemma upto_last_slash_app a c : noslash c -> upto_last_slash (a +:+ String slash c) = a +:+ String slash "".
Proof.
  intros Hc. induction a as [|x a IH].
  - cbn [String.append upto_last_slash has_slash]. change (Ascii.eqb slash slash) with true. cbn [orb]. f_equal.
    clear -Hc. destruct c as [|y c]; [reflexivity|]. cbn [upto_last_slash]. rewrite Hc. reflexivity.
  - cbn [String.append upto_last_slash]. rewrite IH.
    assert (has_slash (String x (a +:+ String slash c)) = true) as ->; [|reflexivity].
    cbn [has_slash]. apply orb_true_iff. right. clear. induction a; cbn; [reflexivity|].
    rewrite IHa. apply orb_true_r.
Qed.

Lemma dir_snoc cs c : Forall nc cs -> nc c -> dir (abs_of (cs ++ [c])) = abs_of cs.
Proof.
  intros H Hc. unfold dir, abs_of. destruct cs as [|x cs].
  - cbn [app join_slash]. change (String slash c) with ("" +:+ String slash c).
    rewrite upto_last_slash_app by apply Hc. reflexivity.
  - rewrite join_slash_app by discriminate. change (join_slash [c]) with c.
    change (String slash (join_slash (x :: cs) +:+ String slash c))
      with (String slash (join_slash (x :: cs)) +:+ String slash c).
    rewrite upto_last_slash_app by apply Hc.
    change (String slash (join_slash (x :: cs))) with (abs_of (x :: cs)).
    rewrite clean_under, canon_abs_of by (reflexivity || assumption).
    change (split_slash "") with [""]. rewrite walk_skip by reflexivity. reflexivity.
Qed.
Lemma dir_root : dir (abs_of []) = abs_of [].
Proof. reflexivity. Qed.

Lemma base_abs_of cs : Forall nc cs -> base (abs_of cs) = List.last cs "/".
Proof. intros H. unfold base. rewrite comps_abs_of by assumption. reflexivity. Qed.

Lemma abs_absolute cwd p : is_abs p = true -> abs cwd p = abs_of (canon p).
Proof. intros H. unfold abs. rewrite H. apply clean_abs. assumption. Qed.
Lemma abs_relative cwd p : is_abs cwd = true -> is_abs p = false ->
  abs cwd p = abs_of (walk (canon cwd) (split_slash p)).
Proof. intros Hc H. unfold abs. rewrite H. apply join_abs. assumption. Qed.

(** Every start directory [ergoDir] computes is a clean absolute path. *)
Lemma abs_canonical cwd p : is_abs cwd = true -> exists cs, Forall nc cs /\ abs cwd p = abs_of cs.
Proof.
  intros Hc. destruct (is_abs p) eqn:Hp.
  - exists (canon p). split; [apply canon_nc|apply abs_absolute; assumption].
  - exists (walk (canon cwd) (split_slash p)). split; [|apply abs_relative; assumption].
    unfold walk. apply Forall_rev, walkr_Forall_nc.
    + rewrite split_slash_splits. apply splits_noslash.
    + apply Forall_rev, canon_nc.
Qed.

(** * File systems (no symlinks, no permissions) *)
Record fs := { is_dir : string -> bool; is_file : string -> bool }.
Inductive st := SDir | SFile | SNoEnt | SNotDir.
Global Instance st_eq_dec : EqDecision st. Proof. solve_decision. Defined.

(** What is at [p] itself. *)
Definition kind (f : fs) (p : string) : st :=
  if is_dir f p then SDir else if is_file f p then SFile else SNoEnt.

(** os.Stat: resolve component by component from "/": a missing intermediate
    gives ENOENT, a non-directory intermediate ENOTDIR. *)
Fixpoint stat_from (f : fs) (pre rest : list string) : st :=
  match rest with
  | [] => kind f (abs_of pre)
  | c :: r => match kind f (abs_of pre) with
              | SDir => stat_from f (pre ++ [c]) r
              | SFile | SNotDir => SNotDir
              | SNoEnt => SNoEnt
              end
  end.
Definition stat (f : fs) (p : string) : st := stat_from f [] (comps p).

(** * Discovery *)
Inductive dres :=
| Found (r : string)
| ENotDirectory (p : string)     (* "<p> exists but is not a directory" *)
| EStat (p : string)             (* any other Stat error, here ENOTDIR *)
| ENoErgoDir
| EFuel.                         (* never returned, see [up_loop_fuel] *)
Global Instance dres_eq_dec : EqDecision dres. Proof. solve_decision. Defined.

Definition outcome (p : string) (s : st) : option dres :=
  match s with
  | SDir => Some (Found p) | SFile => Some (ENotDirectory p) | SNotDir => Some (EStat p) | SNoEnt => None
  end.

(** The for-loop of resolveErgoDir; [None] = the loop ended by [break]. *)
Fixpoint up_loop (f : fs) (fuel : nat) (current : string) : option dres :=
  let candidate := join current data_dir in
  match outcome candidate (stat f candidate) with
  | Some r => Some r
  | None =>
      if current =?s dir current then None
      else match fuel with O => Some EFuel | S n => up_loop f n (dir current) end
  end.

Definition resolve_ergo_dir (f : fs) (start : string) : dres :=
  match up_loop f (length (comps start)) start with
  | Some r => r
  | None =>
      if base start =?s data_dir
      then match outcome start (stat f start) with Some r => r | None => ENoErgoDir end
      else ENoErgoDir
  end.

(** ergoDir: [dirflag] is the --dir option ("" = not given), [cwd] is os.Getwd(). *)
Definition start_dir (cwd dirflag : string) : string := abs cwd (if dirflag =?s "" then cwd else dirflag).
Definition ergo_dir (f : fs) (cwd dirflag : string) : dres := resolve_ergo_dir f (start_dir cwd dirflag).

(** * Specification on component lists *)
Definition cand (anc : list string) : string := abs_of (anc ++ [data_dir]).

(** Walk up from the directory with reversed components [rcs]. *)
Fixpoint nearest (f : fs) (rcs : list string) : option dres :=
  match outcome (cand (rev rcs)) (stat f (cand (rev rcs))) with
  | Some r => Some r
  | None => match rcs with [] => None | _ :: r => nearest f r end
  end.

Lemma nc_data_dir : nc data_dir.
Proof. apply ncb_nc. reflexivity. Qed.

Lemma abs_of_snoc_neq cs c : Forall nc cs -> nc c -> abs_of (cs ++ [c]) <> abs_of cs.
Proof.
  intros H Hc E. apply abs_of_inj in E; [|apply Forall_app; split; [assumption|constructor; [assumption|constructor]]|assumption].
  apply (f_equal (@length _)) in E. rewrite app_length in E. cbn in E. lia.
Qed.

Lemma up_loop_spec f rcs : forall fuel, Forall nc rcs -> (length rcs <= fuel)%nat ->
  up_loop f fuel (abs_of (rev rcs)) = nearest f rcs.
Proof.
  induction rcs as [|c rcs IH]; intros fuel H Hf.
  - destruct fuel; cbn [up_loop nearest]; change (join (abs_of (rev [])) data_dir) with (cand (rev []));
      destruct (outcome _ _); reflexivity.
  - inversion H; subst. assert (Hr : Forall nc (rev rcs)) by (apply Forall_rev; assumption).
    destruct fuel as [|fuel]; [cbn in Hf; lia|]. cbn [up_loop nearest].
    rewrite join_comp by first [apply Forall_rev; assumption | apply nc_data_dir]. fold (cand (rev (c :: rcs))).
    destruct (outcome _ _); [reflexivity|]. cbn [rev]. rewrite dir_snoc by assumption.
    destruct (abs_of (rev rcs ++ [c]) =?s abs_of (rev rcs)) eqn:E.
    + apply str_eqb_eq in E. apply abs_of_snoc_neq in E; [contradiction|assumption|assumption].
    + apply IH; [assumption|cbn in Hf; lia].
Qed.

Lemma snoc_cases {A} (k : list A) : k = [] \/ exists y k', k = k' ++ [y].
Proof. induction k as [|y k' _] using rev_ind; [left; reflexivity|right; eauto]. Qed.

(** The result of discovery from a clean absolute start directory: the loop
    decides; the [Base(start) == ".ergo"] fallback after it is dead code
    (it re-examines start = parent/.ergo, which the loop has already probed
    as the candidate of [parent]). *)
Lemma nearest_none_cand f rcs anc : nearest f rcs = None -> anc `prefix_of` rev rcs -> stat f (cand anc) = SNoEnt.
Proof.
  revert anc. induction rcs as [|c rcs IH]; intros anc Hn Hp; cbn [nearest] in Hn.
  - destruct Hp as [k Hk]. cbn in Hk. symmetry in Hk. apply app_eq_nil in Hk as [-> _].
    cbn [rev] in Hn. destruct (stat f (cand [])); cbn in Hn; congruence.
  - destruct (stat f (cand (rev (c :: rcs)))) eqn:Es; cbn [outcome] in Hn; try discriminate.
    destruct Hp as [k Hk]. cbn [rev] in Hk. destruct (snoc_cases k) as [->|(y & k' & ->)].
    + rewrite app_nil_r in Hk. subst anc. exact Es.
    + rewrite app_assoc in Hk. apply app_inj_tail in Hk as [Hk _]. apply IH; [assumption|]. exists k'. assumption.
Qed.

Lemma outcome_none p s : outcome p s = None <-> s = SNoEnt.
Proof. destruct s; cbn; split; congruence. Qed.

(** [anc] is the nearest ancestor-or-self of [cs] whose ".ergo" entry is not
    plainly absent (Stat did not say ENOENT). *)
Definition longest_hit (f : fs) (cs anc : list string) : Prop :=
  anc `prefix_of` cs /\ stat f (cand anc) <> SNoEnt /\
  forall anc', anc' `prefix_of` cs -> (length anc < length anc')%nat -> stat f (cand anc') = SNoEnt.

Lemma prefix_snoc_inv {A} (l k : list A) x : l `prefix_of` k ++ [x] -> l = k ++ [x] \/ l `prefix_of` k.
Proof.
  intros [w Hw]. destruct (snoc_cases w) as [->|(y & w' & ->)].
  - left. rewrite app_nil_r in Hw. congruence.
  - right. rewrite app_assoc in Hw. apply app_inj_tail in Hw as [Hw _]. exists w'. assumption.
Qed.

Lemma nearest_some_inv f rcs o : nearest f rcs = Some o ->
  exists anc, longest_hit f (rev rcs) anc /\ outcome (cand anc) (stat f (cand anc)) = Some o.
Proof.
  induction rcs as [|c rcs IH]; cbn [nearest]; intros Hn.
  - destruct (outcome (cand (rev [])) (stat f (cand (rev [])))) eqn:Eo; [|discriminate].
    exists []. split; [|cbn [rev] in *; congruence]. split; [reflexivity|]. split.
    + intros E. cbn [rev] in *. rewrite E in Eo. discriminate.
    + intros anc' Hp Hl. apply prefix_length in Hp. cbn in *. lia.
  - destruct (outcome (cand (rev (c :: rcs))) (stat f (cand (rev (c :: rcs))))) eqn:Eo.
    + exists (rev (c :: rcs)). split; [|congruence]. split; [reflexivity|]. split.
      * intros E. rewrite E in Eo. discriminate.
      * intros anc' Hp Hl. apply prefix_length in Hp. lia.
    + apply outcome_none in Eo. destruct (IH Hn) as (anc & (Hp & Hs & Hl) & Ho). exists anc. split; [|assumption].
      cbn [rev]. split; [apply prefix_app_r; assumption|]. split; [assumption|].
      intros anc' Hp' Hl'. apply prefix_snoc_inv in Hp' as [->|Hp']; [exact Eo|auto].
Qed.

Lemma prefix_same_length {A} (a b cs : list A) :
  a `prefix_of` cs -> b `prefix_of` cs -> length a = length b -> a = b.
Proof. intros [k ->] [k' E] Hl. apply app_inj_1 in E; [apply E|assumption]. Qed.

Lemma longest_hit_unique f cs a b : longest_hit f cs a -> longest_hit f cs b -> a = b.
Proof.
  intros (Ha & Hsa & Hla) (Hb & Hsb & Hlb).
  destruct (lt_eq_lt_dec (length a) (length b)) as [[Hlt|Heq]|Hgt].
  - destruct Hsb. apply Hla; assumption.
  - eapply prefix_same_length; eassumption.
  - destruct Hsa. apply Hlb; assumption.
Qed.

(** Dead fallback: after the loop has broken out, start = parent/.ergo cannot exist. *)
Lemma fallback_dead f cs : Forall nc cs -> nearest f (rev cs) = None ->
  base (abs_of cs) = data_dir -> stat f (abs_of cs) = SNoEnt.
Proof.
  intros H Hn Hb. rewrite base_abs_of in Hb by assumption.
  destruct (snoc_cases cs) as [->|(y & k & ->)]; [discriminate|].
  rewrite last_last in Hb. subst y. apply (nearest_none_cand f (rev (k ++ [data_dir])) k Hn).
  rewrite rev_involutive. exists [data_dir]. reflexivity.
Qed.

Theorem resolve_ergo_dir_spec f cs : Forall nc cs ->
  resolve_ergo_dir f (abs_of cs) = match nearest f (rev cs) with Some r => r | None => ENoErgoDir end.
Proof.
  intros H. unfold resolve_ergo_dir. rewrite comps_abs_of by assumption.
  rewrite <- (rev_involutive cs) at 2. rewrite up_loop_spec by (rewrite ?rev_length; auto using Forall_rev).
  destruct (nearest f (rev cs)) eqn:En; [reflexivity|].
  destruct (base (abs_of cs) =?s data_dir) eqn:Eb; [|reflexivity].
  apply str_eqb_eq in Eb. rewrite (fallback_dead f cs H En Eb). reflexivity.
Qed.

Definition verdict (p : string) (s : st) : dres :=
  match s with SDir => Found p | SFile => ENotDirectory p | SNotDir => EStat p | SNoEnt => ENoErgoDir end.

(** ** C18.1 on components: discovery returns the verdict on the nearest hit. *)
Theorem resolve_nearest f cs : Forall nc cs ->
  (forall anc, longest_hit f cs anc ->
     resolve_ergo_dir f (abs_of cs) = verdict (cand anc) (stat f (cand anc)))
  /\ ((forall anc, anc `prefix_of` cs -> stat f (cand anc) = SNoEnt) ->
     resolve_ergo_dir f (abs_of cs) = ENoErgoDir)
  /\ ((exists anc, longest_hit f cs anc) \/ (forall anc, anc `prefix_of` cs -> stat f (cand anc) = SNoEnt)).
Proof.
  intros H. rewrite resolve_ergo_dir_spec by assumption.
  destruct (nearest f (rev cs)) as [o|] eqn:En.
  - apply nearest_some_inv in En as (anc0 & Hh & Ho). rewrite rev_involutive in Hh.
    split; [|split].
    + intros anc Ha. rewrite (longest_hit_unique _ _ _ _ Ha Hh).
      destruct (stat f (cand anc0)); cbn in *; congruence.
    + intros Hall. destruct Hh as (Hp & Hs & _). destruct Hs. apply Hall. assumption.
    + left. eauto.
  - assert (Hall : forall anc, anc `prefix_of` cs -> stat f (cand anc) = SNoEnt).
    { intros anc Hp. apply (nearest_none_cand f (rev cs)); [assumption|rewrite rev_involutive; assumption]. }
    split; [|split].
    + intros anc (Hp & Hs & _). destruct Hs. auto.
    + reflexivity.
    + right. assumption.
Qed.

Corollary resolve_found_iff f cs r : Forall nc cs ->
  resolve_ergo_dir f (abs_of cs) = Found r <->
  exists anc, longest_hit f cs anc /\ stat f (cand anc) = SDir /\ r = cand anc.
Proof.
  intros H. destruct (resolve_nearest f cs H) as (Hhit & Hnone & [(anc & Ha)|Hall]).
  - rewrite (Hhit anc Ha). split.
    + destruct (stat f (cand anc)) eqn:Es; cbn; intros [=]. subst. eauto.
    + intros (anc' & Ha' & Hs & ->). rewrite (longest_hit_unique _ _ _ _ Ha Ha'), Hs. reflexivity.
  - rewrite (Hnone Hall). split; [discriminate|].
    intros (anc & (Hp & Hs & _) & _). destruct Hs. auto.
Qed.
Corollary resolve_noergo_iff f cs : Forall nc cs ->
  resolve_ergo_dir f (abs_of cs) = ENoErgoDir <-> forall anc, anc `prefix_of` cs -> stat f (cand anc) = SNoEnt.
Proof.
  intros H. destruct (resolve_nearest f cs H) as (Hhit & Hnone & [(anc & Ha)|Hall]).
  - rewrite (Hhit anc Ha). destruct Ha as (Hp & Hs & _). split.
    + destruct (stat f (cand anc)); cbn; congruence.
    + intros Hall. destruct Hs. auto.
  - split; auto.
Qed.
Corollary resolve_never_fuel f cs : Forall nc cs -> resolve_ergo_dir f (abs_of cs) <> EFuel.
Proof.
  intros H. destruct (resolve_nearest f cs H) as (Hhit & Hnone & [(anc & Ha)|Hall]).
  - rewrite (Hhit anc Ha). destruct (stat f (cand anc)); discriminate.
  - rewrite (Hnone Hall). discriminate.
Qed.

Lemma prefix_Forall {A} (P : A -> Prop) (a cs : list A) : a `prefix_of` cs -> Forall P cs -> Forall P a.
Proof. intros [k ->] H. apply Forall_app in H. apply H. Qed.

Lemma cand_join anc : Forall nc anc -> cand anc = join (abs_of anc) data_dir.
Proof. intros H. symmetry. apply join_comp; [assumption|apply nc_data_dir]. Qed.

Lemma start_dir_canonical cwd d : is_abs cwd = true ->
  exists cs, Forall nc cs /\ start_dir cwd d = abs_of cs /\ comps (start_dir cwd d) = cs.
Proof.
  intros Hc. destruct (abs_canonical cwd (if d =?s "" then cwd else d) Hc) as (cs & H & E).
  exists cs. unfold start_dir. rewrite E. auto using comps_abs_of.
Qed.

(** ** C18.1 [discovery_nearest], on strings.  With [start] the absolute form of
    the start directory, ancestors are the prefixes [anc] of its components;
    [join (abs_of anc) ".ergo"] is the candidate Go probes for that ancestor. *)
Theorem discovery_nearest f cwd d : is_abs cwd = true ->
  let start := start_dir cwd d in
  let cs := comps start in
  start = abs_of cs /\ Forall nc cs /\
  (forall r, ergo_dir f cwd d = Found r <->
     exists anc, anc `prefix_of` cs /\ r = join (abs_of anc) data_dir /\ stat f r = SDir /\
       forall anc', anc' `prefix_of` cs -> (length anc < length anc')%nat ->
                    stat f (join (abs_of anc') data_dir) = SNoEnt)
  /\ (forall p, ergo_dir f cwd d = ENotDirectory p <->
     exists anc, anc `prefix_of` cs /\ p = join (abs_of anc) data_dir /\ stat f p = SFile /\
       forall anc', anc' `prefix_of` cs -> (length anc < length anc')%nat ->
                    stat f (join (abs_of anc') data_dir) = SNoEnt)
  /\ (ergo_dir f cwd d = ENoErgoDir <->
     forall anc, anc `prefix_of` cs -> stat f (join (abs_of anc) data_dir) = SNoEnt)
  /\ ergo_dir f cwd d <> EFuel.
Proof.
  intros Hc. cbv zeta. destruct (start_dir_canonical cwd d Hc) as (cs & H & E & Ec).
  rewrite Ec. unfold ergo_dir. rewrite E. split; [reflexivity|]. split; [assumption|].
  assert (Hj : forall anc, anc `prefix_of` cs -> join (abs_of anc) data_dir = cand anc).
  { intros anc Hp. symmetry. apply cand_join. eapply prefix_Forall; eassumption. }
  destruct (resolve_nearest f cs H) as (Hhit & Hnone & Hcases).
  assert (Hlh : forall anc, longest_hit f cs anc <->
     anc `prefix_of` cs /\ stat f (cand anc) <> SNoEnt /\
     forall anc', anc' `prefix_of` cs -> (length anc < length anc')%nat ->
                  stat f (join (abs_of anc') data_dir) = SNoEnt).
  { intros anc. unfold longest_hit. split; intros (Hp & Hs & Hl); (split; [assumption|split; [assumption|]]);
      intros anc' Hp' Hl'; [rewrite Hj by assumption|rewrite <- Hj by assumption]; auto. }
  split; [|split; [|split]].
  - intros r. rewrite resolve_found_iff by assumption. split.
    + intros (anc & Ha & Hs & ->). apply Hlh in Ha as (Hp & _ & Hl). exists anc.
      rewrite Hj by assumption. auto.
    + intros (anc & Hp & -> & Hs & Hl). rewrite Hj in * by assumption. exists anc. split; [|auto].
      apply Hlh. split; [assumption|]. split; [congruence|assumption].
  - intros p. split.
    + intros Hr. destruct Hcases as [(anc & Ha)|Hall]; [|rewrite (Hnone Hall) in Hr; discriminate].
      rewrite (Hhit anc Ha) in Hr. apply Hlh in Ha as (Hp & _ & Hl). exists anc. rewrite Hj by assumption.
      destruct (stat f (cand anc)) eqn:Es; cbn in Hr; try discriminate. injection Hr as <-. auto.
    + intros (anc & Hp & -> & Hs & Hl). rewrite Hj in * by assumption.
      rewrite (Hhit anc); [rewrite Hs; reflexivity|]. apply Hlh. split; [assumption|]. split; [congruence|assumption].
  - rewrite resolve_noergo_iff by assumption. split; intros Hall anc Hp;
      [rewrite Hj by assumption|rewrite <- Hj by assumption]; auto.
  - apply resolve_never_fuel. assumption.
Qed.

(** ** The same for an existing start directory of a well-formed tree, where
    Stat of a candidate is just "what is there". *)
Definition fs_wf (f : fs) : Prop :=
  forall cs c, kind f (abs_of (cs ++ [c])) <> SNoEnt -> is_dir f (abs_of cs) = true.
Definition all_dirs (f : fs) (cs : list string) : Prop :=
  forall pre, pre `prefix_of` cs -> is_dir f (abs_of pre) = true.

Lemma wf_all_dirs f cs : fs_wf f -> is_dir f (abs_of cs) = true -> all_dirs f cs.
Proof.
  intros Hw. induction cs as [|c cs IH] using rev_ind; intros Hd pre Hp.
  - destruct Hp as [k Hk]. symmetry in Hk. apply app_eq_nil in Hk as [-> _]. assumption.
  - apply prefix_snoc_inv in Hp as [->|Hp]; [assumption|]. apply IH; [|assumption].
    apply (Hw cs c). unfold kind. rewrite Hd. discriminate.
Qed.

Lemma stat_from_dirs f rest : forall pre,
  (forall k, k `prefix_of` rest -> k <> rest -> is_dir f (abs_of (pre ++ k)) = true) ->
  stat_from f pre rest = kind f (abs_of (pre ++ rest)).
Proof.
  induction rest as [|c rest IH]; intros pre H; cbn [stat_from]; [rewrite app_nil_r; reflexivity|].
  assert (Hd : is_dir f (abs_of pre) = true).
  { rewrite <- (app_nil_r pre). apply H; [apply prefix_nil|discriminate]. }
  unfold kind at 1. rewrite Hd. rewrite IH, <- app_assoc; [reflexivity|].
  intros k Hk Hne. rewrite <- app_assoc. apply (H (c :: k)); [apply prefix_cons; assumption|congruence].
Qed.
Lemma stat_under_dirs f cs x : Forall nc cs -> nc x -> all_dirs f cs ->
  stat f (abs_of (cs ++ [x])) = kind f (abs_of (cs ++ [x])).
Proof.
  intros H Hx Hd. unfold stat. rewrite comps_abs_of by (apply Forall_app; auto).
  rewrite stat_from_dirs; [reflexivity|]. intros k Hk Hne. cbn [app]. apply Hd.
  apply prefix_snoc_inv in Hk as [->|Hk]; [congruence|assumption].
Qed.

Theorem discovery_nearest_existing f cwd d : is_abs cwd = true -> fs_wf f ->
  is_dir f (start_dir cwd d) = true ->
  let cs := comps (start_dir cwd d) in
  (forall r, ergo_dir f cwd d = Found r <->
     exists anc, anc `prefix_of` cs /\ r = join (abs_of anc) data_dir /\ is_dir f r = true /\
       forall anc', anc' `prefix_of` cs -> (length anc < length anc')%nat ->
         is_dir f (join (abs_of anc') data_dir) = false /\ is_file f (join (abs_of anc') data_dir) = false)
  /\ (ergo_dir f cwd d = ENoErgoDir <->
     forall anc, anc `prefix_of` cs ->
         is_dir f (join (abs_of anc) data_dir) = false /\ is_file f (join (abs_of anc) data_dir) = false).
Proof.
  intros Hc Hw Hd. cbv zeta.
  destruct (discovery_nearest f cwd d Hc) as (E & H & Hfound & _ & Hnone & _).
  set (cs := comps (start_dir cwd d)) in *. rewrite E in Hd.
  assert (Hall := wf_all_dirs f cs Hw Hd).
  assert (Hst : forall anc, anc `prefix_of` cs ->
            stat f (join (abs_of anc) data_dir) = kind f (join (abs_of anc) data_dir)).
  { intros anc Hp. assert (Ha : Forall nc anc) by (eapply prefix_Forall; eassumption).
    rewrite <- cand_join by assumption. apply stat_under_dirs; [assumption|apply nc_data_dir|].
    intros pre Hpre. apply Hall. etransitivity; eassumption. }
  assert (Hk : forall p, kind f p = SNoEnt <-> is_dir f p = false /\ is_file f p = false).
  { intros p. unfold kind. destruct (is_dir f p), (is_file f p); split; (intros [? ?] || intro); (discriminate || auto). }
  assert (Hkd : forall p, kind f p = SDir <-> is_dir f p = true).
  { intros p. unfold kind. destruct (is_dir f p), (is_file f p); split; intro; (discriminate || auto). }
  split.
  - intros r. rewrite Hfound. split; intros (anc & Hp & -> & Hs & Hl); exists anc; (split; [assumption|split; [reflexivity|]]).
    + rewrite Hst, Hkd in Hs by assumption. split; [assumption|]. intros anc' Hp' Hl'.
      apply Hk. rewrite <- Hst by assumption. auto.
    + rewrite Hst, Hkd by assumption. split; [assumption|]. intros anc' Hp' Hl'.
      rewrite Hst by assumption. apply Hk. auto.
  - rewrite Hnone. split; intros Ha anc Hp.
    + apply Hk. rewrite <- Hst by assumption. auto.
    + rewrite Hst by assumption. apply Hk. auto.
Qed.

(** ** C18.2 — the spelling of the start directory is irrelevant. *)
Theorem discovery_spelling_irrelevant f cwd d cwd' d' :
  start_dir cwd d = start_dir cwd' d' -> ergo_dir f cwd d = ergo_dir f cwd' d'.
Proof. unfold ergo_dir. intros ->. reflexivity. Qed.

Lemma abs_of_is_abs cs : is_abs (abs_of cs) = true.
Proof. reflexivity. Qed.
Lemma abs_of_neq_empty cs : (abs_of cs =?s "") = false.
Proof. reflexivity. Qed.

Lemma start_dir_rel P d : Forall nc P -> d <> "" -> is_abs d = false ->
  start_dir (abs_of P) d = abs_of (walk P (split_slash d)).
Proof.
  intros H Hd Ha. unfold start_dir. apply str_eqb_neq in Hd. rewrite Hd.
  rewrite abs_relative, canon_abs_of by (assumption || reflexivity). reflexivity.
Qed.

Theorem start_dir_spellings P sub : Forall nc P -> nc sub ->
  let cwd := abs_of P in
  start_dir cwd "" = cwd                          (* no --dir *)
  /\ start_dir cwd "." = cwd
  /\ start_dir cwd "./" = cwd
  /\ start_dir cwd cwd = cwd                      (* absolute spelling of cwd *)
  /\ start_dir cwd (cwd +:+ "/") = cwd            (* trailing slash *)
  /\ start_dir cwd (sub +:+ "/..") = cwd          (* down and up again *)
  /\ start_dir cwd ("./" +:+ sub +:+ "/../" +:+ sub) = abs_of (P ++ [sub])
  /\ start_dir cwd sub = abs_of (P ++ [sub])
  /\ start_dir cwd ".." = dir cwd
  /\ start_dir cwd data_dir = abs_of (P ++ [data_dir]).
Proof.
  intros H Hs. cbv zeta.
  assert (Hself : start_dir (abs_of P) "" = abs_of P).
  { unfold start_dir. cbn [String.eqb]. rewrite abs_absolute, canon_abs_of by (reflexivity || assumption). reflexivity. }
  assert (Hsub : walk P [sub] = P ++ [sub]) by (apply walk_nc; constructor; [assumption|constructor]).
  destruct Hs as (S1 & S2 & S3 & S4).
  assert (Hsplit : split_slash sub = [sub]) by (rewrite split_slash_splits; apply splits_single; assumption).
  assert (Hsk : skipc sub = false) by (unfold skipc; apply str_eqb_neq in S1, S2; rewrite S1, S2; reflexivity).
  assert (Hdd : (sub =?s "..") = false) by (apply str_eqb_neq; assumption).
  assert (Hrel : is_abs sub = false).
  { destruct sub as [|a s]; [congruence|]. cbn in S4. apply orb_false_iff in S4. apply S4. }
  repeat split.
  - assumption.
  - rewrite start_dir_rel by (assumption || discriminate || reflexivity).
    change (split_slash ".") with ["."]. rewrite walk_skip by reflexivity. reflexivity.
  - rewrite start_dir_rel by (assumption || discriminate || reflexivity).
    change (split_slash "./") with ["."; ""]. change ["."; ""] with (["."] ++ [""]).
    rewrite walk_app, !walk_skip by reflexivity. reflexivity.
  - unfold start_dir. rewrite abs_of_neq_empty, abs_absolute, canon_abs_of by (reflexivity || assumption). reflexivity.
  - unfold start_dir. destruct (abs_of P +:+ "/" =?s "") eqn:E; [apply str_eqb_eq in E; discriminate|].
    unfold abs. change (is_abs (abs_of P +:+ "/")) with true. cbn iota.
    rewrite clean_under, canon_abs_of by (reflexivity || assumption).
    change (split_slash "") with [""]. rewrite walk_skip by reflexivity. reflexivity.
  - rewrite start_dir_rel; [|assumption|destruct sub; [congruence|discriminate]|destruct sub; [congruence|exact Hrel]].
    rewrite split_slash_splits. change (sub +:+ "/..") with (sub +:+ String slash "..").
    rewrite splits_app_slash, splits_single by assumption. change (splits "..") with [".."].
    rewrite walk_app, Hsub, walk_dotdot. reflexivity.
  - rewrite start_dir_rel by (assumption || discriminate || reflexivity).
    rewrite split_slash_splits.
    change ("./" +:+ sub +:+ "/../" +:+ sub) with ("." +:+ String slash (sub +:+ String slash (".." +:+ String slash sub))).
    rewrite !splits_app_slash, (splits_single sub) by assumption. change (splits ".") with ["."]. change (splits "..") with [".."].
    rewrite !walk_app, (walk_skip P ".") by reflexivity. rewrite Hsub, walk_dotdot. rewrite Hsub. reflexivity.
  - rewrite start_dir_rel by (assumption || exact Hrel). rewrite Hsplit. rewrite Hsub. reflexivity.
  - rewrite start_dir_rel by (assumption || discriminate || reflexivity).
    change (split_slash "..") with [".."].
    destruct (snoc_cases P) as [->|(y & k & ->)]; [reflexivity|].
    apply Forall_app in H as [Hk Hy]. inversion Hy; subst.
    rewrite dir_snoc, walk_dotdot by assumption. reflexivity.
  - rewrite start_dir_rel by (assumption || discriminate || reflexivity).
    change (split_slash data_dir) with [data_dir]. apply f_equal, walk_nc. constructor; [apply nc_data_dir|constructor].
Qed.

(** Relative and absolute spelling of the same directory; an unclean $PWD. *)
Theorem start_dir_rel_vs_abs cwd cwd' d : is_abs cwd = true -> d <> "" -> is_abs d = false ->
  start_dir cwd' (cwd +:+ "/" +:+ d) = start_dir cwd d.
Proof.
  intros Hc Hd Ha. unfold start_dir. apply str_eqb_neq in Hd. rewrite Hd.
  destruct (cwd +:+ "/" +:+ d =?s "") eqn:E; [apply str_eqb_eq in E; destruct cwd; discriminate|].
  unfold abs. rewrite Ha. assert (is_abs (cwd +:+ "/" +:+ d) = true) as -> by (destruct cwd; [discriminate|exact Hc]).
  unfold join. destruct cwd; [discriminate|]. reflexivity.
Qed.
Theorem start_dir_cwd_spelling cwd cwd' d : is_abs cwd = true -> is_abs cwd' = true ->
  canon cwd = canon cwd' -> start_dir cwd d = start_dir cwd' d.
Proof.
  intros Hc Hc' E. unfold start_dir. destruct (d =?s "").
  - rewrite !abs_absolute, E by assumption. reflexivity.
  - destruct (is_abs d) eqn:Ha; [rewrite !abs_absolute by assumption; reflexivity|].
    rewrite !abs_relative, E by assumption. reflexivity.
Qed.

(** ** C18.3 — starting inside the store directory (or deeper). *)
Lemma prefix_longer_inv {A} (a P rest : list A) :
  a `prefix_of` P ++ rest -> (length P < length a)%nat -> exists k, a = P ++ k /\ k `prefix_of` rest /\ k <> [].
Proof.
  intros [w Hw] Hl. exists (drop (length P) a).
  assert (Ht : take (length P) a = P).
  { apply (f_equal (take (length P))) in Hw. rewrite take_app in Hw. rewrite take_app_le in Hw by lia. congruence. }
  rewrite <- Ht at 1. rewrite take_drop. split; [reflexivity|]. split.
  - exists w. apply (f_equal (drop (length P))) in Hw. rewrite drop_app in Hw. rewrite drop_app_le in Hw by lia. congruence.
  - intros E. apply (f_equal (@length _)) in E. rewrite drop_length in E. cbn in E. lia.
Qed.

Theorem discovery_from_inside_dot_ergo f P deeper :
  Forall nc P -> Forall nc deeper ->
  stat f (cand P) = SDir ->
  (forall k, k `prefix_of` deeper -> stat f (cand (P ++ data_dir :: k)) = SNoEnt) ->
  resolve_ergo_dir f (abs_of (P ++ data_dir :: deeper)) = Found (cand P)
  /\ resolve_ergo_dir f (abs_of P) = Found (cand P).
Proof.
  intros HP Hdeep Hs Hno. split.
  - assert (H : Forall nc (P ++ data_dir :: deeper)).
    { apply Forall_app. split; [assumption|constructor; [apply nc_data_dir|assumption]]. }
    destruct (resolve_nearest f _ H) as (Hhit & _). rewrite (Hhit P); [rewrite Hs; reflexivity|].
    split; [exists (data_dir :: deeper); reflexivity|]. split; [congruence|].
    intros anc' Hp Hl. apply prefix_longer_inv in Hp as (k & -> & Hk & Hne); [|assumption].
    destruct k as [|x k]; [congruence|]. destruct Hk as [w Hw]. injection Hw as <- ->.
    apply Hno. exists w. reflexivity.
  - destruct (resolve_nearest f _ HP) as (Hhit & _). rewrite (Hhit P); [rewrite Hs; reflexivity|].
    split; [reflexivity|]. split; [congruence|]. intros anc' Hp Hl. apply prefix_length in Hp. lia.
Qed.

(** In CLI terms: from the project directory [cwd], --dir .ergo (or cd .ergo)
    finds the same store as no --dir at all. *)
Corollary discovery_dot_ergo_spelling f P :
  Forall nc P -> stat f (cand P) = SDir -> stat f (cand (P ++ [data_dir])) = SNoEnt ->
  let cwd := abs_of P in
  ergo_dir f cwd data_dir = Found (join cwd data_dir)
  /\ ergo_dir f cwd "" = Found (join cwd data_dir)
  /\ ergo_dir f (join cwd data_dir) "" = Found (join cwd data_dir).
Proof.
  intros HP Hs Hno. cbv zeta. rewrite <- cand_join by assumption.
  destruct (start_dir_spellings P "x" HP) as (E1 & _ & _ & _ & _ & _ & _ & _ & _ & E2); [apply ncb_nc; reflexivity|].
  destruct (discovery_from_inside_dot_ergo f P [] HP (Forall_nil _) Hs) as [A B].
  { intros k Hk. destruct Hk as [w Hw]. symmetry in Hw. apply app_eq_nil in Hw as [-> _]. exact Hno. }
  unfold ergo_dir. rewrite E1, E2. split; [exact A|]. split; [exact B|].
  unfold cand at 1. unfold start_dir. change ("" =?s "") with true. cbn iota.
  rewrite abs_absolute, canon_abs_of; [exact A|apply Forall_app; split; [assumption|constructor; [apply nc_data_dir|constructor]]|reflexivity].
Qed.

(** * The log file of a store, and [ergo init] *)
Definition plans_name : string := "plans.jsonl".
Definition old_name : string := "events.jsonl".
Definition lock_name : string := "lock".

(** os.Stat(p) returned no error. *)
Definition exists_b (f : fs) (p : string) : bool :=
  match stat f p with SDir | SFile => true | SNoEnt | SNotDir => false end.

Definition get_events_path (f : fs) (d : string) : string :=
  let plans := join d plans_name in
  let old := join d old_name in
  if exists_b f plans then plans else if exists_b f old then old else plans.

Definition add_dir (f : fs) (p : string) : fs :=
  {| is_dir q := (is_dir f q || (q =?s p))%bool; is_file := is_file f |}.
Definition add_file (f : fs) (p : string) : fs :=
  {| is_dir := is_dir f; is_file q := (is_file f q || (q =?s p))%bool |}.

(** os.MkdirAll of the clean absolute path with components [pre ++ rest],
    walking down from [pre]: existing directories are kept, missing ones are
    created, a non-directory on the way is an error. *)
Fixpoint mkdir_all (f : fs) (pre rest : list string) : option fs :=
  match kind f (abs_of pre) with
  | SFile | SNotDir => None
  | k => let f' := match k with SDir => f | _ => add_dir f (abs_of pre) end in
         match rest with
         | [] => Some f'
         | c :: r => mkdir_all f' (pre ++ [c]) r
         end
  end.

(** util.go ensureFileExists(p); creating needs the parent directory. *)
Definition ensure_file (f : fs) (p : string) : option fs :=
  match stat f p with
  | SFile => Some f
  | SDir => None                                   (* "<p> is a directory" *)
  | SNotDir => None
  | SNoEnt => match stat f (dir p) with SDir => Some (add_file f p) | _ => None end  (* O_CREATE *)
  end.

(** RunInit on the clean absolute path [target] of the .ergo directory
    (= Abs(Join(dir argument, ".ergo"))). *)
Definition init (f : fs) (target : string) : option fs :=
  match mkdir_all f [] (comps target) with
  | None => None
  | Some f1 =>
      match ensure_file f1 (get_events_path f1 target) with
      | None => None
      | Some f2 => ensure_file f2 (join target lock_name)
      end
  end.

(** ** Facts *)
Lemma nc_plans : nc plans_name. Proof. apply ncb_nc. reflexivity. Qed.
Lemma nc_old : nc old_name. Proof. apply ncb_nc. reflexivity. Qed.
Lemma nc_lock : nc lock_name. Proof. apply ncb_nc. reflexivity. Qed.

Lemma Forall_nc_snoc T x : Forall nc T -> nc x -> Forall nc (T ++ [x]).
Proof. intros. apply Forall_app. split; [assumption|constructor; [assumption|constructor]]. Qed.

Lemma child_inj T x y : Forall nc T -> nc x -> nc y -> abs_of (T ++ [x]) = abs_of (T ++ [y]) -> x = y.
Proof.
  intros H Hx Hy E. apply abs_of_inj in E; auto using Forall_nc_snoc. apply app_inj_tail in E. apply E.
Qed.
Lemma child_not_prefix T x k : Forall nc T -> nc x -> k `prefix_of` T -> abs_of (T ++ [x]) <> abs_of k.
Proof.
  intros H Hx Hk E. apply abs_of_inj in E; [|auto using Forall_nc_snoc|eapply prefix_Forall; eassumption].
  apply prefix_length in Hk. apply (f_equal (@length _)) in E. rewrite app_length in E. cbn in E. lia.
Qed.

Lemma join_child d x : is_abs d = true -> nc x -> join d x = abs_of (canon d ++ [x]).
Proof.
  intros Hd Hx. rewrite join_abs by assumption. rewrite split_slash_splits, splits_single by apply Hx.
  rewrite walk_nc by (constructor; [assumption|constructor]). reflexivity.
Qed.

(** ** C18.4a [log_choice_total] *)
Theorem log_choice_total f d : is_abs d = true ->
  let plans := join d plans_name in
  let old := join d old_name in
  plans <> old
  /\ (get_events_path f d = plans \/ get_events_path f d = old)
  /\ (get_events_path f d = plans <-> exists_b f plans = true \/ exists_b f old = false)
  /\ (get_events_path f d = old <-> exists_b f plans = false /\ exists_b f old = true).
Proof.
  intros Hd. cbv zeta.
  assert (Hne : join d plans_name <> join d old_name).
  { rewrite !join_child by (assumption || apply nc_plans || apply nc_old).
    intros E. apply child_inj in E; [discriminate|apply canon_nc|apply nc_plans|apply nc_old]. }
  split; [assumption|]. unfold get_events_path.
  destruct (exists_b f (join d plans_name)), (exists_b f (join d old_name)); repeat split; auto;
    try (intros [?|?]; congruence); try (intros [? ?]; congruence); try congruence;
    intros E; try (symmetry in E); contradiction.
Qed.

(** *** stat below a chain of directories *)
Lemma stat_all_dirs f cs : Forall nc cs -> all_dirs f cs -> stat f (abs_of cs) = SDir.
Proof.
  intros H Hd. unfold stat. rewrite comps_abs_of by assumption. rewrite stat_from_dirs.
  - cbn [app]. unfold kind. rewrite Hd; reflexivity.
  - intros k Hk _. cbn [app]. apply Hd. assumption.
Qed.

Lemma stat_from_exists f rest : forall pre,
  stat_from f pre rest = SDir \/ stat_from f pre rest = SFile ->
  forall k, k `prefix_of` rest -> k <> rest -> is_dir f (abs_of (pre ++ k)) = true.
Proof.
  induction rest as [|c rest IH]; intros pre Hs k Hk Hne.
  - destruct Hk as [w Hw]. symmetry in Hw. apply app_eq_nil in Hw as [-> _]. congruence.
  - cbn [stat_from] in Hs. unfold kind in Hs.
    destruct (is_dir f (abs_of pre)) eqn:Hd; [|destruct (is_file f (abs_of pre)); destruct Hs; discriminate].
    destruct k as [|x k]; [rewrite app_nil_r; assumption|].
    destruct Hk as [w Hw]. injection Hw as <- Hw.
    change (pre ++ c :: k) with (pre ++ [c] ++ k). rewrite app_assoc. apply IH; [assumption|exists w; assumption|congruence].
Qed.
Lemma exists_all_dirs f T x : Forall nc T -> nc x -> exists_b f (abs_of (T ++ [x])) = true -> all_dirs f T.
Proof.
  intros H Hx He pre Hp. unfold exists_b, stat in He. rewrite comps_abs_of in He by auto using Forall_nc_snoc.
  apply (stat_from_exists f (T ++ [x]) []).
  - destruct (stat_from f [] (T ++ [x])); auto; discriminate.
  - apply prefix_app_r. assumption.
  - intros ->. apply prefix_length in Hp. rewrite app_length in Hp. cbn in Hp. lia.
Qed.

(** *** mkdir_all *)
Lemma mkdir_all_spec rest : forall f pre f1, mkdir_all f pre rest = Some f1 ->
  (forall q, is_file f1 q = is_file f q)
  /\ (forall q, is_dir f q = true -> is_dir f1 q = true)
  /\ (forall k, k `prefix_of` rest -> is_dir f1 (abs_of (pre ++ k)) = true)
  /\ (forall q, is_dir f1 q = true -> is_dir f q = true \/ exists k, k `prefix_of` rest /\ q = abs_of (pre ++ k)).
Proof.
  induction rest as [|c rest IH]; intros f pre f1; cbn [mkdir_all]; intros Hm.
  - assert (Hk : forall k : list string, k `prefix_of` [] -> pre ++ k = pre).
    { intros k [w Hw]. symmetry in Hw. apply app_eq_nil in Hw as [-> _]. apply app_nil_r. }
    unfold kind in Hm. destruct (is_dir f (abs_of pre)) eqn:Hd.
    + injection Hm as <-. repeat split; auto. intros k Hp. rewrite (Hk k Hp). assumption.
    + destruct (is_file f (abs_of pre)); [discriminate|]. injection Hm as <-. cbn. repeat split; auto.
      * intros q ->. reflexivity.
      * intros k Hp. rewrite (Hk k Hp), String.eqb_refl. apply orb_true_r.
      * intros q Hq. apply orb_true_iff in Hq as [Hq|Hq]; [auto|]. right. exists []. split; [reflexivity|].
        apply str_eqb_eq in Hq. rewrite app_nil_r. assumption.
  - assert (Hcases : exists f0, mkdir_all f0 (pre ++ [c]) rest = Some f1 /\ is_file f0 = is_file f
              /\ (forall q, is_dir f0 q = (is_dir f q || (q =?s abs_of pre))%bool) /\ is_dir f0 (abs_of pre) = true).
    { unfold kind in Hm. destruct (is_dir f (abs_of pre)) eqn:Hd.
      - exists f. repeat split; auto. intros q. destruct (q =?s abs_of pre) eqn:E; [|rewrite orb_false_r; reflexivity].
        apply str_eqb_eq in E. subst. rewrite Hd. reflexivity.
      - destruct (is_file f (abs_of pre)); [discriminate|]. exists (add_dir f (abs_of pre)). repeat split; auto.
        cbn. rewrite String.eqb_refl. apply orb_true_r. }
    destruct Hcases as (f0 & Hm0 & Hf0 & Hd0 & Hpre). destruct (IH _ _ _ Hm0) as (I1 & I2 & I3 & I4).
    split; [|split; [|split]].
    + intros q. rewrite I1, Hf0. reflexivity.
    + intros q Hq. apply I2. rewrite Hd0, Hq. reflexivity.
    + intros k Hp. destruct k as [|x k]; [rewrite app_nil_r; apply I2; assumption|].
      destruct Hp as [w Hw]. injection Hw as <- Hw. change (pre ++ c :: k) with (pre ++ [c] ++ k).
      rewrite app_assoc. apply I3. exists w. assumption.
    + intros q Hq. apply I4 in Hq as [Hq|(k & Hk & ->)].
      * rewrite Hd0 in Hq. apply orb_true_iff in Hq as [Hq|Hq]; [auto|]. right. exists []. split; [apply prefix_nil|].
        apply str_eqb_eq in Hq. rewrite app_nil_r. assumption.
      * right. exists (c :: k). split; [apply prefix_cons; assumption|]. rewrite <- app_assoc. reflexivity.
Qed.

Lemma mkdir_all_existing rest : forall f pre,
  (forall k, k `prefix_of` rest -> is_dir f (abs_of (pre ++ k)) = true) -> mkdir_all f pre rest = Some f.
Proof.
  induction rest as [|c rest IH]; intros f pre H; cbn [mkdir_all];
    (assert (Hd : is_dir f (abs_of pre) = true) by (rewrite <- (app_nil_r pre); apply H, prefix_nil));
    unfold kind; rewrite Hd; [reflexivity|].
  apply IH. intros k Hk. rewrite <- app_assoc. apply (H (c :: k)). apply prefix_cons. assumption.
Qed.

(** *** ensure_file and get_events_path below a chain of directories *)
Lemma kind_add_file f p q : kind (add_file f p) q =
  if q =?s p then (if is_dir f p then SDir else SFile) else kind f q.
Proof.
  unfold kind. cbn. destruct (q =?s p) eqn:E.
  - apply str_eqb_eq in E. subst. rewrite orb_true_r. reflexivity.
  - rewrite orb_false_r. reflexivity.
Qed.

Lemma ensure_file_spec f T x : Forall nc T -> nc x -> all_dirs f T ->
  ensure_file f (abs_of (T ++ [x])) =
  match kind f (abs_of (T ++ [x])) with
  | SFile => Some f | SNoEnt => Some (add_file f (abs_of (T ++ [x]))) | _ => None
  end.
Proof.
  intros H Hx Hd. unfold ensure_file. rewrite stat_under_dirs, dir_snoc, stat_all_dirs by assumption. reflexivity.
Qed.

Definition present (f : fs) (p : string) : bool := negb (bool_decide (kind f p = SNoEnt)).

Lemma exists_b_present f T x : Forall nc T -> nc x -> all_dirs f T ->
  exists_b f (abs_of (T ++ [x])) = present f (abs_of (T ++ [x])).
Proof.
  intros H Hx Hd. unfold exists_b, present. rewrite stat_under_dirs by assumption.
  unfold kind. destruct (is_dir f _); [reflexivity|]. destruct (is_file f _); reflexivity.
Qed.

Lemma gep_all_dirs f T : Forall nc T -> all_dirs f T ->
  get_events_path f (abs_of T) =
  if present f (abs_of (T ++ [plans_name])) then abs_of (T ++ [plans_name])
  else if present f (abs_of (T ++ [old_name])) then abs_of (T ++ [old_name])
  else abs_of (T ++ [plans_name]).
Proof.
  intros H Hd. unfold get_events_path. rewrite !join_comp by (assumption || apply nc_plans || apply nc_old).
  rewrite !exists_b_present by (assumption || apply nc_plans || apply nc_old). reflexivity.
Qed.

Lemma all_dirs_ext f f' T : (forall q, is_dir f q = true -> is_dir f' q = true) -> all_dirs f T -> all_dirs f' T.
Proof. intros He Hd pre Hp. apply He, Hd. assumption. Qed.

Lemma ensure_file_effect f T x f2 : Forall nc T -> nc x -> all_dirs f T ->
  let p := abs_of (T ++ [x]) in
  ensure_file f p = Some f2 ->
  (forall q, is_dir f2 q = is_dir f q)
  /\ (forall q, is_file f q = true -> is_file f2 q = true)
  /\ kind f2 p = SFile
  /\ (forall q, q <> p -> kind f2 q = kind f q)
  /\ (kind f p <> SNoEnt -> f2 = f).
Proof.
  intros H Hx Hd p. unfold p. rewrite ensure_file_spec by assumption.
  destruct (kind f (abs_of (T ++ [x]))) eqn:Ek; try discriminate; intros [= <-].
  - repeat split; auto.
  - repeat split; auto.
    + intros q Hq. cbn. rewrite Hq. reflexivity.
    + rewrite kind_add_file, String.eqb_refl. unfold kind in Ek.
      destruct (is_dir f (abs_of (T ++ [x]))); [discriminate|reflexivity].
    + intros q Hq. rewrite kind_add_file. apply str_eqb_neq in Hq. rewrite Hq. reflexivity.
    + congruence.
Qed.

Section Init.
  Context (T : list string) (HT : Forall nc T).
  Let t := abs_of T.
  Let pp := abs_of (T ++ [plans_name]).
  Let po := abs_of (T ++ [old_name]).
  Let pl := abs_of (T ++ [lock_name]).

  Lemma pp_po : pp <> po. Proof. intros E. apply child_inj in E; auto using nc_plans, nc_old. discriminate. Qed.
  Lemma pp_pl : pp <> pl. Proof. intros E. apply child_inj in E; auto using nc_plans, nc_lock. discriminate. Qed.
  Lemma po_pl : po <> pl. Proof. intros E. apply child_inj in E; auto using nc_old, nc_lock. discriminate. Qed.

  Lemma gep_cases f : all_dirs f T ->
    (get_events_path f t = pp /\ (present f pp = true \/ present f po = false))
    \/ (get_events_path f t = po /\ present f pp = false /\ present f po = true).
  Proof.
    intros Hd. unfold t. rewrite gep_all_dirs by assumption. fold pp po.
    destruct (present f pp), (present f po); auto.
  Qed.

  Lemma init_unfold f f' : init f t = Some f' ->
    exists f1 f2, mkdir_all f [] T = Some f1 /\ all_dirs f1 T
      /\ ensure_file f1 (get_events_path f1 t) = Some f2 /\ all_dirs f2 T /\ ensure_file f2 pl = Some f'.
  Proof.
    unfold init. unfold t at 1. rewrite comps_abs_of by assumption.
    destruct (mkdir_all f [] T) as [f1|] eqn:Em; [|discriminate].
    destruct (ensure_file f1 (get_events_path f1 t)) as [f2|] eqn:E1; [|discriminate].
    unfold t at 1. rewrite join_comp by (assumption || apply nc_lock). fold pl.
    intros E2. exists f1, f2. split; [reflexivity|].
    assert (Hd1 : all_dirs f1 T) by (intros k Hk; apply (mkdir_all_spec _ _ _ _ Em) in Hk; exact Hk).
    split; [assumption|]. split; [assumption|]. split; [|assumption].
    destruct (gep_cases f1 Hd1) as [(Eg & _)|(Eg & _)]; rewrite Eg in E1;
      eapply ensure_file_effect in E1; try eassumption; auto using nc_plans, nc_old;
      destruct E1 as (Hdir & _); (eapply all_dirs_ext; [|eassumption]); intros q; rewrite Hdir; auto.
  Qed.

  (** Nothing that existed disappears. *)
  Theorem init_monotone f f' : init f t = Some f' ->
    forall q, (is_dir f q = true -> is_dir f' q = true) /\ (is_file f q = true -> is_file f' q = true).
  Proof.
    intros Hi q. apply init_unfold in Hi as (f1 & f2 & Em & Hd1 & E1 & Hd2 & E2).
    destruct (mkdir_all_spec _ _ _ _ Em) as (M1 & M2 & _).
    assert (A1 : (forall q, is_dir f2 q = is_dir f1 q) /\ (forall q, is_file f1 q = true -> is_file f2 q = true)).
    { destruct (gep_cases f1 Hd1) as [(Eg & _)|(Eg & _)]; rewrite Eg in E1;
        eapply ensure_file_effect in E1; try eassumption; auto using nc_plans, nc_old; split; apply E1. }
    eapply ensure_file_effect in E2; try eassumption; auto using nc_lock.
    destruct A1 as [A1 A2], E2 as (B1 & B2 & _). split.
    - intros Hq. rewrite B1, A1. auto.
    - intros Hq. apply B2, A2. rewrite M1. assumption.
  Qed.

  (** What the store looks like after a successful init. *)
  Lemma init_post f f' : init f t = Some f' ->
    all_dirs f' T /\ kind f' pl = SFile /\
    exists log, (log = pp \/ log = po) /\ kind f' log = SFile /\ get_events_path f' t = log
      /\ (forall f1, mkdir_all f [] T = Some f1 -> get_events_path f1 t = log).
  Proof.
    intros Hi. apply init_unfold in Hi as (f1 & f2 & Em & Hd1 & E1 & Hd2 & E2).
    pose proof E2 as E2'. eapply ensure_file_effect in E2'; try eassumption; auto using nc_lock.
    destruct E2' as (B1 & _ & B3 & B4 & _). fold pl in B3, B4.
    assert (Hd' : all_dirs f' T) by (eapply all_dirs_ext; [|exact Hd2]; intros q; rewrite B1; auto).
    split; [assumption|]. split; [assumption|].
    assert (Hpres : forall g q, present g q = negb (bool_decide (kind g q = SNoEnt))) by reflexivity.
    destruct (gep_cases f1 Hd1) as [(Eg & Hc)|(Eg & Hc1 & Hc2)]; rewrite Eg in E1;
      pose proof E1 as E1'; eapply ensure_file_effect in E1'; try eassumption; auto using nc_plans, nc_old;
      destruct E1' as (A1 & _ & A3 & A4 & _); fold pp po in A3, A4.
    - exists pp. split; [auto|]. split; [rewrite B4 by apply pp_pl; assumption|]. split; [|congruence].
      unfold t. rewrite gep_all_dirs by assumption. fold pp po.
      rewrite Hpres, B4, A3 by apply pp_pl. reflexivity.
    - exists po. split; [auto|]. split; [rewrite B4 by apply po_pl; assumption|]. split; [|congruence].
      unfold t. rewrite gep_all_dirs by assumption. fold pp po.
      rewrite !Hpres, !B4, A3, A4 by (apply pp_pl || apply po_pl || apply pp_po).
      rewrite Hpres in Hc1. rewrite Hc1. reflexivity.
  Qed.

  (** ** C18.4b [init_idempotent]: a second init changes nothing at all. *)
  Theorem init_idempotent f f' : init f t = Some f' -> init f' t = Some f'.
  Proof.
    intros Hi. destruct (init_post f f' Hi) as (Hd & Hl & log & Hlog & Hk & Hg & _).
    unfold init. unfold t at 1. rewrite comps_abs_of by assumption.
    rewrite mkdir_all_existing by (intros k Hk'; apply Hd; assumption).
    fold t. rewrite Hg.
    assert (E1 : ensure_file f' log = Some f').
    { destruct Hlog as [-> | ->]; unfold pp, po; rewrite ensure_file_spec by (auto using nc_plans, nc_old);
        fold pp po; rewrite Hk; reflexivity. }
    rewrite E1. unfold t. rewrite join_comp by (assumption || apply nc_lock). fold pl.
    unfold pl. rewrite ensure_file_spec by (auto using nc_lock). fold pl. rewrite Hl. reflexivity.
  Qed.

  (** ** C18.4c: init on a store that already has a log file (legacy-only,
      plans-only, or both) keeps the choice of log file. *)
  Theorem init_keeps_log f f' : init f t = Some f' ->
    exists_b f (join t plans_name) = true \/ exists_b f (join t old_name) = true ->
    get_events_path f' t = get_events_path f t.
  Proof.
    intros Hi He. unfold t in He. rewrite !join_comp in He by (assumption || apply nc_plans || apply nc_old).
    assert (Hd : all_dirs f T) by (destruct He as [He|He]; eapply exists_all_dirs; try exact He; auto using nc_plans, nc_old).
    destruct (init_post f f' Hi) as (_ & _ & log & _ & _ & Hg & Hf1).
    rewrite Hg. symmetry. apply Hf1. apply mkdir_all_existing. intros k Hk. apply Hd. assumption.
  Qed.

  (** and it neither creates the other log file nor touches an existing one:
      with a log present, init changes at most the lock file. *)
  Theorem init_existing_store f f' : init f t = Some f' ->
    exists_b f (join t plans_name) = true \/ exists_b f (join t old_name) = true ->
    f' = f \/ (f' = add_file f pl /\ kind f pl = SNoEnt).
  Proof.
    intros Hi He. unfold t in He. rewrite !join_comp in He by (assumption || apply nc_plans || apply nc_old).
    assert (Hd : all_dirs f T) by (destruct He as [He|He]; eapply exists_all_dirs; try exact He; auto using nc_plans, nc_old).
    rewrite !exists_b_present in He by (auto using nc_plans, nc_old). fold pp po in He.
    apply init_unfold in Hi as (f1 & f2 & Em & Hd1 & E1 & Hd2 & E2).
    rewrite mkdir_all_existing in Em by (intros k Hk; apply Hd; assumption). injection Em as <-.
    assert (f2 = f) as ->.
    { destruct (gep_cases f Hd) as [(Eg & Hc)|(Eg & Hc1 & Hc2)]; rewrite Eg in E1;
        eapply ensure_file_effect in E1; try eassumption; auto using nc_plans, nc_old;
        destruct E1 as (_ & _ & _ & _ & A5); apply A5; fold pp po.
      - unfold present in *. destruct Hc as [Hc|Hc].
        + intros K. rewrite K, bool_decide_eq_true_2 in Hc by reflexivity. discriminate.
        + destruct He as [He|He]; [|rewrite He in Hc; discriminate].
          intros K. rewrite K, bool_decide_eq_true_2 in He by reflexivity. discriminate.
      - unfold present in Hc2. intros K. rewrite K, bool_decide_eq_true_2 in Hc2 by reflexivity. discriminate. }
    unfold pl in E2. rewrite ensure_file_spec in E2 by (auto using nc_lock). fold pl in E2.
    destruct (kind f pl) eqn:Ek; try discriminate; injection E2 as <-; auto.
  Qed.
End Init.

(** * Concrete file systems, examples *)
Definition fs_of (dirs files : list string) : fs :=
  {| is_dir p := mem_str p dirs; is_file p := mem_str p files |}.

Module Examples.
  (** /w is a project; /w/a/b is a nested project; /w/a/c/.ergo is a plain file;
      /w/old has a legacy-only store, /w/both has both log files. *)
  Definition F : fs := fs_of
    ["/"; "/w"; "/w/.ergo"; "/w/a"; "/w/a/b"; "/w/a/b/.ergo"; "/w/a/b/x"; "/w/a/c"; "/w/a/c/d"; "/q";
     "/w/old"; "/w/old/.ergo"; "/w/both"; "/w/both/.ergo"; "/w/.ergo/sub"]
    ["/w/.ergo/plans.jsonl"; "/w/.ergo/lock"; "/w/a/b/.ergo/plans.jsonl"; "/w/a/c/.ergo"; "/w/a/f.txt";
     "/w/old/.ergo/events.jsonl"; "/w/both/.ergo/events.jsonl"; "/w/both/.ergo/plans.jsonl"].

  Example nested_inner : ergo_dir F "/w/a/b/x" "" = Found "/w/a/b/.ergo". Proof. vm_compute. reflexivity. Qed.
  Example nested_outer : ergo_dir F "/w/a" "" = Found "/w/.ergo". Proof. vm_compute. reflexivity. Qed.
  Example spelled : ergo_dir F "/w/a" "../a/./b//x/../" = Found "/w/a/b/.ergo". Proof. vm_compute. reflexivity. Qed.
  Example spelled_abs : ergo_dir F "/q" "/w/a/b/x/" = Found "/w/a/b/.ergo". Proof. vm_compute. reflexivity. Qed.
  Example file_dot_ergo : ergo_dir F "/w/a/c/d" "" = ENotDirectory "/w/a/c/.ergo". Proof. vm_compute. reflexivity. Qed.
  Example inside_store : ergo_dir F "/w/.ergo" "" = Found "/w/.ergo" /\ ergo_dir F "/w/.ergo/sub" "" = Found "/w/.ergo"
                         /\ ergo_dir F "/w" ".ergo" = Found "/w/.ergo".
  Proof. vm_compute. auto. Qed.
  Example no_store : ergo_dir F "/q" "" = ENoErgoDir /\ ergo_dir F "/" "" = ENoErgoDir. Proof. vm_compute. auto. Qed.
  Example missing_dir : ergo_dir F "/w" "a/nope/deeper" = Found "/w/.ergo". Proof. vm_compute. reflexivity. Qed.
  Example below_a_file : ergo_dir F "/w" "a/f.txt" = EStat "/w/a/f.txt/.ergo". Proof. vm_compute. reflexivity. Qed.

  Example log_plans : get_events_path F "/w/.ergo" = "/w/.ergo/plans.jsonl". Proof. vm_compute. reflexivity. Qed.
  Example log_legacy : get_events_path F "/w/old/.ergo" = "/w/old/.ergo/events.jsonl". Proof. vm_compute. reflexivity. Qed.
  Example log_both : get_events_path F "/w/both/.ergo" = "/w/both/.ergo/plans.jsonl". Proof. vm_compute. reflexivity. Qed.
  Example log_fresh : get_events_path F "/q/.ergo" = "/q/.ergo/plans.jsonl". Proof. vm_compute. reflexivity. Qed.

  Definition probe (o : option fs) (ps : list string) : option (list (bool * bool)) :=
    match o with Some g => Some (map (fun p => (is_dir g p, is_file g p)) ps) | None => None end.
  Example init_fresh :
    probe (init F "/q/n/.ergo") ["/q/n"; "/q/n/.ergo"; "/q/n/.ergo/plans.jsonl"; "/q/n/.ergo/events.jsonl"; "/q/n/.ergo/lock"]
    = Some [(true, false); (true, false); (false, true); (false, false); (false, true)].
  Proof. vm_compute. reflexivity. Qed.
  Example init_legacy :
    probe (init F "/w/old/.ergo") ["/w/old/.ergo/plans.jsonl"; "/w/old/.ergo/events.jsonl"; "/w/old/.ergo/lock"]
    = Some [(false, false); (false, true); (false, true)].
  Proof. vm_compute. reflexivity. Qed.
  Example init_over_file : init F "/w/a/c/.ergo" = None /\ init F "/w/a/f.txt/.ergo" = None. Proof. vm_compute. auto. Qed.

  (** Not covered by [init_keeps_log] (which speaks about the store being
      initialised): an init ELSEWHERE can create a directory named plans.jsonl
      inside a legacy store and thereby change that store's choice. *)
  Example init_elsewhere_shadows :
    match init F "/w/old/.ergo/plans.jsonl/.ergo" with
    | Some g => get_events_path g "/w/old/.ergo" = "/w/old/.ergo/plans.jsonl"
    | None => False end.
  Proof. vm_compute. reflexivity. Qed.
End Examples.

Print Assumptions discovery_nearest.
Print Assumptions discovery_nearest_existing.
Print Assumptions resolve_nearest.
Print Assumptions discovery_spelling_irrelevant.
Print Assumptions start_dir_spellings.
Print Assumptions start_dir_rel_vs_abs.
Print Assumptions start_dir_cwd_spelling.
Print Assumptions discovery_from_inside_dot_ergo.
Print Assumptions discovery_dot_ergo_spelling.
Print Assumptions log_choice_total.
Print Assumptions init_monotone.
Print Assumptions init_idempotent.
Print Assumptions init_keeps_log.
Print Assumptions init_existing_store.
