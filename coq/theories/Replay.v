(** Replay.v — graph.go:16-342: replaying the event list into a graph.
    Task and TaskMeta are merged into one record (they are inserted and deleted
    together in the Go code, so [Meta[id]] exists iff [Tasks[id]] does). *)
From Ergo Require Import Base Text Events.
Local Open Scope string_scope.
Local Open Scope list_scope.

Record result := Result {
  r_summary : string; r_path : string; r_sha : string; r_mtime : string; r_git : string;
  r_at : time }.

Record task := Task {
  t_id : string; t_uuid : string; t_epic : string; t_is_epic : bool; t_state : string;
  t_title : string; t_body : string; t_claimed : string;
  t_created : time; t_updated : time;
  t_results : list result;                       (* newest first *)
  (* TaskMeta *)
  m_title : string; m_body : string; m_state : string; m_epic : string; m_created : time;
  m_last_state : time; m_last_claim : time; m_last_title : time; m_last_body : time;
  m_last_epic : time }.

Record graph := Graph {
  g_tasks : gmap string task;
  g_deps : gset (string * string);               (* (from, to): from depends on to *)
  g_tombs : gset string }.

Definition empty_graph : graph := Graph ∅ ∅ ∅.

Definition upd_task (g : graph) (i : string) (f : task -> task) : graph :=
  Graph (alter f i (g_tasks g)) (g_deps g) (g_tombs g).

Definition clears_claim (st : string) : bool :=
  (String.eqb st "todo" || String.eqb st "done" || String.eqb st "canceled")%bool.

Definition set_state st ts (t : task) : task :=
  Task (t_id t) (t_uuid t) (t_epic t) (t_is_epic t) st (t_title t) (t_body t)
       (if clears_claim st then "" else t_claimed t)
       (t_created t) (max_time (t_updated t) ts) (t_results t)
       (m_title t) (m_body t) (m_state t) (m_epic t) (m_created t)
       ts (m_last_claim t) (m_last_title t) (m_last_body t) (m_last_epic t).
Definition set_claim ag ts (t : task) : task :=
  Task (t_id t) (t_uuid t) (t_epic t) (t_is_epic t) (t_state t) (t_title t) (t_body t) ag
       (t_created t) (t_updated t) (t_results t)
       (m_title t) (m_body t) (m_state t) (m_epic t) (m_created t)
       (m_last_state t) ts (m_last_title t) (m_last_body t) (m_last_epic t).
Definition set_unclaim (t : task) : task :=
  Task (t_id t) (t_uuid t) (t_epic t) (t_is_epic t) (t_state t) (t_title t) (t_body t) ""
       (t_created t) (t_updated t) (t_results t)
       (m_title t) (m_body t) (m_state t) (m_epic t) (m_created t)
       (m_last_state t) (m_last_claim t) (m_last_title t) (m_last_body t) (m_last_epic t).
Definition set_title ti ts (t : task) : task :=
  Task (t_id t) (t_uuid t) (t_epic t) (t_is_epic t) (t_state t) ti (t_body t) (t_claimed t)
       (t_created t) (max_time (t_updated t) ts) (t_results t)
       (m_title t) (m_body t) (m_state t) (m_epic t) (m_created t)
       (m_last_state t) (m_last_claim t) ts (m_last_body t) (m_last_epic t).
Definition set_body b ts (t : task) : task :=
  Task (t_id t) (t_uuid t) (t_epic t) (t_is_epic t) (t_state t) (t_title t) b (t_claimed t)
       (t_created t) (max_time (t_updated t) ts) (t_results t)
       (m_title t) (m_body t) (m_state t) (m_epic t) (m_created t)
       (m_last_state t) (m_last_claim t) (m_last_title t) ts (m_last_epic t).
Definition set_epic e ts (t : task) : task :=
  Task (t_id t) (t_uuid t) e (t_is_epic t) (t_state t) (t_title t) (t_body t) (t_claimed t)
       (t_created t) (max_time (t_updated t) ts) (t_results t)
       (m_title t) (m_body t) (m_state t) (m_epic t) (m_created t)
       (m_last_state t) (m_last_claim t) (m_last_title t) (m_last_body t) ts.
Definition add_result r (t : task) : task :=
  Task (t_id t) (t_uuid t) (t_epic t) (t_is_epic t) (t_state t) (t_title t) (t_body t) (t_claimed t)
       (t_created t) (max_time (t_updated t) (r_at r)) (r :: t_results t)
       (m_title t) (m_body t) (m_state t) (m_epic t) (m_created t)
       (m_last_state t) (m_last_claim t) (m_last_title t) (m_last_body t) (m_last_epic t).
Definition set_title_body ti b (t : task) : task :=
  Task (t_id t) (t_uuid t) (t_epic t) (t_is_epic t) (t_state t) ti b (t_claimed t)
       (t_created t) (t_updated t) (t_results t)
       (m_title t) (m_body t) (m_state t) (m_epic t) (m_created t)
       (m_last_state t) (m_last_claim t) (m_last_title t) (m_last_body t) (m_last_epic t).

Definition new_task (is_epic : bool) i uuid epic st title body ts : task :=
  Task i uuid epic is_epic st title body "" ts ts []
       title body st epic ts zero_time zero_time zero_time zero_time zero_time.

Definition tombed (g : graph) (i : string) : bool := bool_decide (i ∈ g_tombs g).

(** An update event on item [i]: skipped when tombstoned or unknown, and only
    then is the stamp parsed (graph.go:62-87 and siblings). *)
Definition on_item (g : graph) (i : string) (at_ : option time) (f : time -> task -> task) : res graph :=
  if tombed g i then Ok g else
  match g_tasks g !! i with
  | None => Ok g
  | Some _ => match at_ with
              | None => Err RBadTime
              | Some ts => Ok (upd_task g i (f ts))
              end
  end.

Definition apply_tombstone (g : graph) (i : string) : graph :=
  Graph (delete i (g_tasks g))
        (filter (λ p, p.1 ≠ i ∧ p.2 ≠ i) (g_deps g))
        ({[ i ]} ∪ g_tombs g).

Definition apply_event (g : graph) (e : event) : res graph :=
  match e with
  | ENew is_epic i uuid epic st title body at_ =>
      if tombed g i then Ok g else
      match g_tasks g !! i with
      | Some _ => Err (RDuplicate i)
      | None => match at_ with
                | None => Err RBadTime
                | Some ts => Ok (Graph (<[i := new_task is_epic i uuid epic st title body ts]> (g_tasks g))
                                       (g_deps g) (g_tombs g))
                end
      end
  | EState i st at_ => on_item g i at_ (set_state st)
  | EClaim i ag at_ => on_item g i at_ (set_claim ag)
  | EUnclaim i =>
      if tombed g i then Ok g else Ok (upd_task g i set_unclaim)
  | ELink a b ty =>
      if (tombed g a || tombed g b || negb (String.eqb ty depends))%bool then Ok g
      else Ok (Graph (g_tasks g) ({[ (a, b) ]} ∪ g_deps g) (g_tombs g))
  | EUnlink a b ty =>
      if (tombed g a || tombed g b || negb (String.eqb ty depends))%bool then Ok g
      else Ok (Graph (g_tasks g) (g_deps g ∖ {[ (a, b) ]}) (g_tombs g))
  | ETitle i ti at_ => on_item g i at_ (set_title ti)
  | EBody i b at_ => on_item g i at_ (set_body b)
  | EEpic i e at_ => on_item g i at_ (set_epic e)
  | ETomb i _ at_ =>
      match at_ with None => Err RBadTime | Some _ => Ok (apply_tombstone g i) end
  | EResult i su pa sha mt gi at_ =>
      on_item g i at_ (λ ts, add_result (Result su pa sha mt gi ts))
  | EBad => Err RBadPayload
  | EOther => Ok g
  end.

Definition replay_from (g : graph) (es : list event) : res graph := foldM apply_event es g.
Definition replay_raw (es : list event) : res graph := replay_from empty_graph es.

(** applyLegacyTitleMigration *)
Definition migrate (t : task) : task :=
  if is_blank (t_title t) then
    let '(ti, b) := derive_title_body (t_body t) in set_title_body ti b t
  else t.
Definition finalize (g : graph) : graph :=
  Graph (migrate <$> g_tasks g) (g_deps g) (g_tombs g).
Definition replay (es : list event) : res graph :=
  match replay_raw es with Ok g => Ok (finalize g) | Err e => Err e end.

(** Derived adjacency (Task.Deps / Task.RDeps: sorted keys). *)
Definition deps_of (g : graph) (i : string) : list string :=
  sort_strings (snd <$> filter (λ p, p.1 = i) (elements (g_deps g))).
Definition rdeps_of (g : graph) (i : string) : list string :=
  sort_strings (fst <$> filter (λ p, p.2 = i) (elements (g_deps g))).

Lemma replay_from_app g es1 es2 :
  replay_from g (es1 ++ es2) = rbind (replay_from g es1) (λ g', replay_from g' es2).
Proof. apply foldM_app. Qed.
