(** TreeProofs.v — C19: the human list is a complete, well-formed picture.
    All theorems are stated for an arbitrary rune-width oracle [rw] satisfying
    [RwOk] (Layout.v). *)
From Ergo Require Import Base Text Events Replay Ready Compact Utf8Lite Layout Tree.
From stdpp Require Import pretty relations.
From Coq Require Import Ascii.
From Coq Require String.
Local Open Scope string_scope.
Local Open Scope list_scope.

(** * Invariants of reachable stores (proved elsewhere in the project) *)
Definition dep (g : graph) (a b : string) : Prop := (a, b) ∈ g_deps g.

Record G_ok (g : graph) : Prop := {
  ok_key : ∀ i t, g_tasks g !! i = Some t → t_id t = i;
  ok_nonempty : ∀ t, g_tasks g !! "" = Some t → False;
  ok_acyclic : ∀ a, ¬ tc (dep g) a a;
  ok_edge : ∀ a b, dep g a b →
            ∃ ta tb, g_tasks g !! a = Some ta ∧ g_tasks g !! b = Some tb ∧ t_is_epic ta = t_is_epic tb;
  ok_epic : ∀ i t, g_tasks g !! i = Some t →
            if t_is_epic t then t_epic t = ""
            else t_epic t = "" ∨ ∃ e, g_tasks g !! t_epic t = Some e ∧ t_is_epic e = true }.

Definition is_live (g : graph) (t : task) : Prop := ∃ i, g_tasks g !! i = Some t.

(** * Generic list facts *)

Lemma elem_of_all_tasks g t : t ∈ all_tasks g ↔ is_live g t.
Proof.
  unfold all_tasks, is_live. rewrite elem_of_list_fmap. split.
  - intros ([i t'] & -> & H). apply elem_of_map_to_list in H. exists i. exact H.
  - intros (i & H). exists (i, t). split; [reflexivity|]. apply elem_of_map_to_list, H.
Qed.

Lemma tasks_of_live g ids t : t ∈ tasks_of g ids → is_live g t.
Proof.
  unfold tasks_of. rewrite elem_of_list_omap. intros (i & _ & H). exists i. exact H.
Qed.

Lemma tasks_of_elem g ids t : t ∈ tasks_of g ids → ∃ i, i ∈ ids ∧ g_tasks g !! i = Some t.
Proof. unfold tasks_of. rewrite elem_of_list_omap. intros (i & Hi & H). exists i. split; assumption. Qed.

(** * Structure of the rendered rows *)
Section rows.
  Variable rw : N → nat.
  Variable g : graph.
  Variable w : Z.
  Variable repo : string.

  Definition anns_of (t : task) : list string :=
    if String.eqb (t_claimed t) "" then [] else ["@" +:+ t_claimed t].

  Definition item_row (t : task) (is_last is_root : bool) (parent : list string) : row :=
    Row (t_id t) false (negb is_root) is_last
        (format_tree_line rw w "" (if is_last then g_corner else g_tee) (negb is_root)
           (state_icon t (is_ready g t)) (t_id t) (t_title t) (anns_of t)
           (blocker_info g t parent).1 (t_is_epic t)).

  Definition result_rows (t : task) (is_last is_root : bool) : list row :=
    if done_or_canceled (t_state t) then
      match t_results t with
      | latest :: _ =>
          [Row (t_id t) true (negb is_root) is_last
               (format_result_line (if is_root then "  " else if is_last then "  " else g_bar +:+ " ")
                                   (file_url repo (r_path latest)))]
      | [] => []
      end
    else [].

  Lemma render_item_eq t l r p :
    render_item rw g w repo t l r p = (item_row t l r p :: result_rows t l r, (blocker_info g t p).2).
  Proof.
    unfold render_item, item_row, result_rows, anns_of.
    destruct (blocker_info g t p) as [bann this]. reflexivity.
  Qed.

  Lemma result_rows_result t l r x : x ∈ result_rows t l r → row_result x = true ∧ row_item x = t_id t.
  Proof.
    unfold result_rows. destruct (done_or_canceled _); [|intros H; inversion H].
    destruct (t_results t); [intros H; inversion H|].
    intros H. apply elem_of_list_singleton in H. subst x. split; reflexivity.
  Qed.

  Definition is_lastb {A} (rest : list A) : bool := match rest with [] => true | _ => false end.

  (** position of an item in a forest: a root, or a kid of a root *)
  Inductive item_at : list node → task → bool (* last *) → bool (* root *) → list string (* parent blockers *) → Prop :=
  | at_root t kids pre post :
      item_at (pre ++ (t, kids) :: post) t (is_lastb post) true []
  | at_kid e kids pre post k kpre kpost :
      kids = kpre ++ k :: kpost →
      item_at (pre ++ (e, kids) :: post) k (is_lastb kpost) false (blocker_info g e []).2.

  Lemma item_at_cons n ns t l r p : item_at ns t l r p → item_at (n :: ns) t l r p.
  Proof.
    intros H. destruct H as [t kids pre post|e kids pre post k kpre kpost Hk].
    - apply (at_root t kids (n :: pre) post).
    - apply (at_kid e kids (n :: pre) post k kpre kpost Hk).
  Qed.

  Lemma in_render_kids kids parent x :
    x ∈ render_kids rw g w repo kids parent →
    ∃ k kpre kpost, kids = kpre ++ k :: kpost ∧
      (x = item_row k (is_lastb kpost) false parent ∨ x ∈ result_rows k (is_lastb kpost) false).
  Proof.
    induction kids as [|k rest IH]; cbn [render_kids]; [intros H; inversion H|].
    rewrite render_item_eq. cbn [fst]. rewrite elem_of_app, elem_of_cons.
    intros [[->|Hx]|Hx].
    - exists k, [], rest. split; [reflexivity|]. left. reflexivity.
    - exists k, [], rest. split; [reflexivity|]. right. exact Hx.
    - destruct (IH Hx) as (k' & kpre & kpost & -> & H). exists k', (k :: kpre), kpost. split; [reflexivity|exact H].
  Qed.

  Lemma in_render_roots ns x :
    x ∈ render_roots rw g w repo ns →
    ∃ t l r p, item_at ns t l r p ∧ (x = item_row t l r p ∨ x ∈ result_rows t l r).
  Proof.
    induction ns as [|[t kids] rest IH]; cbn [render_roots]; [intros H; inversion H|].
    rewrite render_item_eq. rewrite !elem_of_app, elem_of_cons.
    intros [[->|Hx]|[Hx|Hx]].
    - exists t, (is_lastb rest), true, []. split; [apply (at_root t kids [] rest)|]. left. reflexivity.
    - exists t, (is_lastb rest), true, []. split; [apply (at_root t kids [] rest)|]. right. exact Hx.
    - destruct (in_render_kids _ _ _ Hx) as (k & kpre & kpost & Hk & H).
      exists k, (is_lastb kpost), false, (blocker_info g t []).2. split; [|exact H].
      apply (at_kid t kids [] rest k kpre kpost Hk).
    - destruct (IH Hx) as (t' & l & r & p & Hat & H). exists t', l, r, p. split; [|exact H].
      apply item_at_cons, Hat.
  Qed.

  (** ids of the item rows, in order *)
  Definition items (ns : list node) : list string :=
    mjoin ((λ n : node, t_id n.1 :: (t_id <$> n.2)) <$> ns).

  Definition item_rows (rs : list row) : list row := filter (λ r, row_result r = false) rs.

  Lemma item_rows_result_rows t l r : item_rows (result_rows t l r) = [].
  Proof.
    unfold item_rows, result_rows. destruct (done_or_canceled _); [|reflexivity].
    destruct (t_results t); reflexivity.
  Qed.

  Lemma item_rows_app a b : item_rows (a ++ b) = item_rows a ++ item_rows b.
  Proof. unfold item_rows. apply filter_app. Qed.

  Lemma items_render_kids kids parent :
    row_item <$> item_rows (render_kids rw g w repo kids parent) = t_id <$> kids.
  Proof.
    induction kids as [|k rest IH]; [reflexivity|]. cbn [render_kids].
    rewrite render_item_eq. cbn [fst]. rewrite item_rows_app.
    change (item_row ?a ?b ?c ?d :: ?r) with ([item_row a b c d] ++ r). rewrite item_rows_app.
    rewrite item_rows_result_rows. rewrite app_nil_r. rewrite fmap_app. rewrite IH. reflexivity.
  Qed.

  Lemma items_render_roots ns :
    row_item <$> item_rows (render_roots rw g w repo ns) = items ns.
  Proof.
    induction ns as [|[t kids] rest IH]; [reflexivity|]. cbn [render_roots].
    rewrite render_item_eq. rewrite !item_rows_app.
    change (item_row ?a ?b ?c ?d :: ?r) with ([item_row a b c d] ++ r). rewrite item_rows_app.
    rewrite item_rows_result_rows, app_nil_r. rewrite !fmap_app, IH, items_render_kids. reflexivity.
  Qed.
End rows.

(** * The queue order is a total order on ids *)

Lemma ascii_compare_N a b : Ascii.compare a b = N.compare (N_of_ascii a) (N_of_ascii b).
Proof. reflexivity. Qed.

Lemma str_compare_cons a s b t :
  String.compare (String a s) (String b t)
  = match Ascii.compare a b with Eq => String.compare s t | c => c end.
Proof. reflexivity. Qed.

Lemma str_le_alt a b : str_le a b ↔ String.compare a b ≠ Gt.
Proof.
  unfold str_le, String.leb. destruct (String.compare a b); split; intros H; try reflexivity; try discriminate.
  contradiction.
Qed.

Lemma str_compare_trans_le a : ∀ b c, String.compare a b ≠ Gt → String.compare b c ≠ Gt → String.compare a c ≠ Gt.
Proof.
  induction a as [|x a IH]; intros [|y b] [|z c]; cbn [String.compare]; try congruence.
  rewrite !ascii_compare_N.
  destruct (N.compare_spec (N_of_ascii x) (N_of_ascii y)) as [E1|L1|G1]; try congruence;
  destruct (N.compare_spec (N_of_ascii y) (N_of_ascii z)) as [E2|L2|G2]; try congruence;
  destruct (N.compare_spec (N_of_ascii x) (N_of_ascii z)) as [E3|L3|G3]; try congruence; try lia.
  apply IH.
Qed.

Global Instance str_le_trans : Transitive str_le.
Proof. intros a b c. rewrite !str_le_alt. apply str_compare_trans_le. Qed.
Global Instance str_le_total : Total str_le.
Proof. intros a b. apply String.leb_total. Qed.
Global Instance str_le_antisym : AntiSymm (=) str_le.
Proof. intros a b. apply String.leb_antisym. Qed.

Global Instance topo_le_total g : Total (topo_le g).
Proof.
  intros a b. unfold topo_le. destruct (rdy g a), (rdy g b); cbn; auto using (total str_le).
  all: apply (total str_le).
Qed.
Global Instance topo_le_trans g : Transitive (topo_le g).
Proof.
  intros a b c. unfold topo_le. destruct (rdy g a), (rdy g b), (rdy g c); cbn; try congruence; try tauto.
  all: apply (transitivity (R := str_le)).
Qed.
Global Instance topo_le_antisym g : AntiSymm (=) (topo_le g).
Proof.
  intros a b. unfold topo_le. destruct (rdy g a), (rdy g b); cbn; try congruence.
  all: apply (anti_symm str_le).
Qed.

Lemma topo_sorted_perm g l : topo_sorted g l ≡ₚ l.
Proof. apply merge_sort_Permutation. Qed.

Lemma topo_sorted_unique g l l' : l ≡ₚ l' → topo_sorted g l = topo_sorted g l'.
Proof.
  intros H. apply (Sorted_unique (topo_le g)).
  - apply Sorted_merge_sort, _.
  - apply Sorted_merge_sort, _.
  - rewrite !topo_sorted_perm. exact H.
Qed.

(** * topoSortTasks *)
Section topo.
  Variable g : graph.

  Lemma elem_of_dep_ids x y : y ∈ dep_ids g x ↔ dep g x y.
  Proof.
    unfold dep_ids, dep. rewrite elem_of_list_fmap. split.
    - intros ([a b] & -> & H). apply elem_of_list_filter in H as [Ha H]. cbn in *. subst a.
      apply elem_of_elements in H. exact H.
    - intros H. exists (x, y). split; [reflexivity|]. apply elem_of_list_filter. split; [reflexivity|].
      apply elem_of_elements, H.
  Qed.

  Lemma elem_of_in_set_deps ids x y : y ∈ in_set_deps g ids x ↔ dep g x y ∧ y ∈ ids.
  Proof. unfold in_set_deps. rewrite elem_of_list_filter, elem_of_dep_ids. tauto. Qed.

  Lemma edge_true a b : edge g a b = true ↔ dep g a b.
  Proof. unfold edge, dep. apply bool_decide_eq_true. Qed.

  Lemma mem_str_elem x l : mem_str x l = true ↔ x ∈ l.
  Proof. rewrite mem_str_In. symmetry. apply elem_of_list_In. Qed.

  Lemma elem_of_newly ids t d o :
    o ∈ newly g ids t d ↔ o ∈ ids ∧ dep g o t ∧ ∀ y, y ∈ in_set_deps g ids o → y ∈ d.
  Proof.
    unfold newly. rewrite elem_of_list_filter, edge_true, forallb_forall.
    split.
    - intros [[He Hf] Hi]. split; [exact Hi|]. split; [exact He|].
      intros y Hy. apply mem_str_elem, Hf, elem_of_list_In, Hy.
    - intros (Hi & He & Hf). split; [|exact Hi]. split; [exact He|].
      intros y Hy. apply mem_str_elem, Hf, elem_of_list_In, Hy.
  Qed.

  Lemma kahn_subset f ids q d x : x ∈ kahn f g ids q d → x ∈ q ∨ x ∈ ids.
  Proof.
    revert q d. induction f as [|f IH]; intros q d; [intros H; inversion H|].
    destruct q as [|t q]; cbn [kahn]; [intros H; inversion H|].
    rewrite elem_of_cons. intros [->|H]; [left; left|].
    destruct (IH _ _ H) as [Hq|Hi]; [|right; exact Hi].
    rewrite topo_sorted_perm, elem_of_app in Hq. destruct Hq as [Hq|Hn].
    - left. right. exact Hq.
    - right. apply elem_of_newly in Hn. tauto.
  Qed.

  Lemma topo_sort_subset ids x : x ∈ topo_sort g ids → x ∈ ids.
  Proof.
    intros H. apply kahn_subset in H as [H|H]; [|exact H].
    unfold topo_init in H. rewrite topo_sorted_perm in H. apply elem_of_list_filter in H. tauto.
  Qed.

  (** ** permuting the input does not change the output *)
  Lemma in_set_deps_perm ids ids' x : ids ≡ₚ ids' → in_set_deps g ids x = in_set_deps g ids' x.
  Proof.
    intros H. unfold in_set_deps. apply list_filter_iff. intros y. rewrite H. reflexivity.
  Qed.

  Lemma newly_perm ids ids' t d : ids ≡ₚ ids' → newly g ids t d ≡ₚ newly g ids' t d.
  Proof.
    intros H. unfold newly. rewrite <- H.
    erewrite list_filter_iff; [reflexivity|]. intros o. cbn. rewrite (in_set_deps_perm _ _ o H). reflexivity.
  Qed.

  Lemma kahn_perm_irrel f ids ids' q d : ids ≡ₚ ids' → kahn f g ids q d = kahn f g ids' q d.
  Proof.
    intros H. revert q d. induction f as [|f IH]; intros q d; [reflexivity|].
    destruct q as [|t q]; [reflexivity|]. cbn [kahn]. f_equal.
    rewrite IH. f_equal. apply topo_sorted_unique. rewrite (newly_perm _ _ _ _ H). reflexivity.
  Qed.

  Theorem topo_sort_perm_irrel ids ids' : ids ≡ₚ ids' → topo_sort g ids = topo_sort g ids'.
  Proof.
    intros H. unfold topo_sort. rewrite (Permutation_length H).
    rewrite (kahn_perm_irrel _ _ _ _ _ H). f_equal.
    unfold topo_init. apply topo_sorted_unique. rewrite <- H.
    erewrite list_filter_iff; [reflexivity|]. intros i. cbn. rewrite (in_set_deps_perm _ _ i H). reflexivity.
  Qed.

  (** ** cycles: a non-empty finite set in which every element has a successor contains a cycle *)
  Fixpoint chain (c : list string) : Prop :=
    match c with
    | a :: (b :: _) as r => dep g a b ∧ chain r
    | _ => True
    end.

  Lemma chain_app_r l1 l2 : chain (l1 ++ l2) → chain l2.
  Proof.
    induction l1 as [|a l1 IH]; [tauto|]. cbn [app]. intros H. apply IH.
    destruct (l1 ++ l2) eqn:E; [destruct l1, l2; try discriminate; exact I|]. cbn in H. tauto.
  Qed.

  Lemma chain_tc x l y : chain (x :: l ++ [y]) → tc (dep g) x y.
  Proof.
    revert x. induction l as [|a l IH]; intros x.
    - cbn. intros [H _]. apply tc_once, H.
    - cbn [app]. intros [H1 H2]. eapply tc_l; [exact H1|]. apply IH, H2.
  Qed.

  Lemma chain_app_l l1 l2 : chain (l1 ++ l2) → chain l1.
  Proof.
    induction l1 as [|a l1 IH]; [intros; exact I|]. cbn [app].
    destruct l1 as [|b l1]; [intros; exact I|]. cbn [app chain] in *. intros [H1 H2]. split; [exact H1|].
    apply IH, H2.
  Qed.

  Lemma not_NoDup_split (l : list string) : ¬ NoDup l → ∃ x l1 l2 l3, l = l1 ++ x :: l2 ++ x :: l3.
  Proof.
    induction l as [|a l IH]; intros H; [destruct H; constructor|].
    destruct (decide (a ∈ l)) as [Hin|Hnin].
    - apply elem_of_list_split in Hin as (l2 & l3 & ->). exists a, [], l2, l3. reflexivity.
    - destruct IH as (x & l1 & l2 & l3 & ->).
      { intros Hnd. apply H. constructor; assumption. }
      exists x, (a :: l1), l2, l3. reflexivity.
  Qed.

  Lemma chain_cycle c (R : list string) :
    chain c → (∀ x, x ∈ c → x ∈ R) → length R < length c → ∃ a, tc (dep g) a a.
  Proof.
    intros Hc Hsub Hlen.
    assert (¬ NoDup c) as Hnd.
    { intros Hnd. pose proof (NoDup_submseteq _ _ Hnd Hsub) as Hs. apply submseteq_length in Hs. lia. }
    apply not_NoDup_split in Hnd as (x & l1 & l2 & l3 & ->).
    exists x. apply (chain_tc x l2 x).
    apply chain_app_r in Hc.
    change (x :: l2 ++ x :: l3) with ((x :: l2) ++ x :: l3) in Hc.
    replace ((x :: l2) ++ x :: l3) with ((x :: l2 ++ [x]) ++ l3) in Hc
      by (cbn; rewrite <- app_assoc; reflexivity).
    apply chain_app_l in Hc. exact Hc.
  Qed.

  Lemma successor_closed_cycle (R : list string) x0 :
    x0 ∈ R → (∀ x, x ∈ R → ∃ y, y ∈ R ∧ dep g x y) → ∃ a, tc (dep g) a a.
  Proof.
    intros Hx0 Hsucc.
    assert (∀ n x, x ∈ R → ∃ c, length c = S n ∧ chain (x :: c) ∧ ∀ y, y ∈ x :: c → y ∈ R) as Hchain.
    { induction n as [|n IH]; intros x Hx.
      - destruct (Hsucc x Hx) as (y & Hy & Hd). exists [y]. split; [reflexivity|]. split; [cbn; tauto|].
        intros z Hz. apply elem_of_cons in Hz as [->|Hz]; [exact Hx|].
        apply elem_of_list_singleton in Hz. subst. exact Hy.
      - destruct (Hsucc x Hx) as (y & Hy & Hd). destruct (IH y Hy) as (c & Hl & Hc & Hin).
        exists (y :: c). split; [cbn; lia|]. split; [cbn [chain]; tauto|].
        intros z Hz. apply elem_of_cons in Hz as [->|Hz]; [exact Hx|]. apply Hin, Hz. }
    destruct (Hchain (length R) x0 Hx0) as (c & Hl & Hc & Hin).
    apply (chain_cycle (x0 :: c) R Hc Hin). cbn. lia.
  Qed.

  (** ** Kahn invariant *)
  Record kinv (ids q d : list string) : Prop := {
    ki_nodup : NoDup (q ++ d);
    ki_sub : ∀ x, x ∈ q ++ d → x ∈ ids;
    ki_deps : ∀ x, x ∈ q ++ d → ∀ y, y ∈ in_set_deps g ids x → y ∈ d;
    ki_ready : ∀ x, x ∈ ids → (∀ y, y ∈ in_set_deps g ids x → y ∈ d) → x ∈ q ++ d }.

  Lemma kinv_perm ids q q' d : q ≡ₚ q' → kinv ids q d → kinv ids q' d.
  Proof.
    intros Hp [H1 H2 H3 H4]. split.
    - rewrite <- Hp. exact H1.
    - intros x. rewrite <- Hp. apply H2.
    - intros x. rewrite <- Hp. apply H3.
    - intros x Hx Hd. rewrite <- Hp. apply H4; assumption.
  Qed.

  Lemma kinv_init ids : NoDup ids → kinv ids (topo_init g ids) [].
  Proof.
    intros Hnd. apply (kinv_perm ids (filter (λ i, in_set_deps g ids i = []) ids)).
    { symmetry. apply topo_sorted_perm. }
    split.
    - rewrite app_nil_r. apply NoDup_filter, Hnd.
    - intros x. rewrite app_nil_r, elem_of_list_filter. tauto.
    - intros x. rewrite app_nil_r, elem_of_list_filter. intros [E _] y Hy. rewrite E in Hy. inversion Hy.
    - intros x Hx Hd. rewrite app_nil_r. apply elem_of_list_filter. split; [|exact Hx].
      destruct (in_set_deps g ids x) as [|y l]; [reflexivity|].
      specialize (Hd y ltac:(left)). inversion Hd.
  Qed.

  Lemma kinv_step ids t q d :
    NoDup ids → kinv ids (t :: q) d → kinv ids (q ++ newly g ids t (t :: d)) (t :: d).
  Proof.
    intros Hnd [H1 H2 H3 H4].
    assert (t ∈ ids) as Ht by (apply H2; left).
    assert (t ∉ q ++ d) as Htn by (cbn in H1; apply NoDup_cons in H1; tauto).
    assert (∀ o, o ∈ newly g ids t (t :: d) → o ∉ (t :: q) ++ d) as Hnew.
    { intros o Ho Hin. apply elem_of_newly in Ho as (Hoi & Hot & _).
      assert (t ∈ d) as Htd by (apply (H3 o Hin), elem_of_in_set_deps; split; assumption).
      apply Htn, elem_of_app. right. exact Htd. }
    split.
    - rewrite <- app_assoc. apply NoDup_app. split; [|split].
      + cbn in H1. apply NoDup_cons in H1 as [_ H1]. apply NoDup_app in H1. tauto.
      + intros x Hx Hin. apply elem_of_app in Hin as [Hin|Hin].
        * apply (Hnew x Hin). cbn. right. apply elem_of_app. left. exact Hx.
        * apply elem_of_cons in Hin as [->|Hin].
          -- apply Htn, elem_of_app. left. exact Hx.
          -- cbn in H1. apply NoDup_cons in H1 as [_ H1]. apply NoDup_app in H1 as (_ & Hdis & _).
             apply (Hdis x Hx Hin).
      + apply NoDup_app. split; [|split].
        * apply NoDup_filter, Hnd.
        * intros x Hx Hin. apply (Hnew x Hx). cbn. apply elem_of_cons in Hin as [->|Hin]; [left|].
          right. apply elem_of_app. right. exact Hin.
        * cbn in H1. apply NoDup_cons in H1 as [Hn H1]. apply NoDup_app in H1 as (_ & _ & Hd).
          constructor; [|exact Hd]. intros Hin. apply Hn, elem_of_app. right. exact Hin.
    - intros x. rewrite <- app_assoc, !elem_of_app, elem_of_cons. intros [Hx|[Hx|[->|Hx]]].
      + apply H2. cbn. right. apply elem_of_app. left. exact Hx.
      + apply elem_of_newly in Hx. tauto.
      + exact Ht.
      + apply H2. cbn. right. apply elem_of_app. right. exact Hx.
    - intros x. rewrite <- app_assoc, !elem_of_app, elem_of_cons. intros [Hx|[Hx|[->|Hx]]] y Hy.
      + right. apply (H3 x); [|exact Hy]. cbn. right. apply elem_of_app. left. exact Hx.
      + apply elem_of_newly in Hx as (_ & _ & Hx). apply Hx, Hy.
      + right. apply (H3 t); [left|exact Hy].
      + right. apply (H3 x); [|exact Hy]. cbn. right. apply elem_of_app. right. exact Hx.
    - intros x Hx Hd. rewrite <- app_assoc, !elem_of_app, elem_of_cons.
      destruct (decide (Forall (λ y, y ∈ d) (in_set_deps g ids x))) as [Hall|Hnall].
      + rewrite Forall_forall in Hall. specialize (H4 x Hx Hall). cbn in H4.
        apply elem_of_cons in H4 as [->|H4]; [right; right; left; reflexivity|].
        apply elem_of_app in H4 as [H4|H4]; [left; exact H4|right; right; right; exact H4].
      + right. left. apply elem_of_newly. split; [exact Hx|]. split; [|exact Hd].
        apply not_Forall_Exists in Hnall; [|apply _]. apply Exists_exists in Hnall as (y & Hy & Hyd).
        specialize (Hd y Hy). apply elem_of_cons in Hd as [->|Hd]; [|contradiction].
        apply elem_of_in_set_deps in Hy. tauto.
  Qed.

  Lemma kahn_complete f ids q d :
    NoDup ids → (∀ a, ¬ tc (dep g) a a) → kinv ids q d → length ids ≤ f + length d →
    kahn f g ids q d ++ d ≡ₚ ids.
  Proof.
    intros Hnd Hac. revert q d. induction f as [|f IH]; intros q d Hinv Hlen.
    - (* no fuel: everything has been popped *)
      destruct Hinv as [H1 H2 H3 H4].
      assert (d ≡ₚ ids) as Hd.
      { apply submseteq_Permutation_length_le; [cbn in Hlen; lia|].
        apply NoDup_submseteq; [apply NoDup_app in H1; tauto|].
        intros x Hx. apply H2, elem_of_app. right. exact Hx. }
      destruct q as [|t q]; [exact Hd|]. exfalso.
      apply NoDup_app in H1 as (_ & Hdis & _). apply (Hdis t); [left|].
      rewrite Hd. apply H2. left.
    - destruct q as [|t q]; cbn [kahn].
      + (* queue empty: the rest would be successor-closed *)
        destruct Hinv as [H1 H2 H3 H4]. cbn in *.
        apply NoDup_Permutation; [exact H1|exact Hnd|]. intros x. split; [apply H2|]. intros Hx.
        destruct (decide (x ∈ d)) as [|Hxd]; [assumption|]. exfalso.
        set (R := filter (λ y, y ∉ d) ids).
        destruct (successor_closed_cycle R x) as (a & Ha).
        * apply elem_of_list_filter. split; assumption.
        * intros z Hz. apply elem_of_list_filter in Hz as [Hzd Hz].
          destruct (decide (Forall (λ y, y ∈ d) (in_set_deps g ids z))) as [Hall|Hnall].
          { rewrite Forall_forall in Hall. specialize (H4 z Hz Hall). contradiction. }
          apply not_Forall_Exists in Hnall; [|apply _]. apply Exists_exists in Hnall as (y & Hy & Hyd).
          apply elem_of_in_set_deps in Hy as [Hdep Hyi]. exists y. split; [|exact Hdep].
          apply elem_of_list_filter. split; assumption.
        * apply (Hac a Ha).
      + pose proof (kinv_step ids t q d Hnd Hinv) as Hinv'.
        apply (kinv_perm _ _ (topo_sorted g (q ++ newly g ids t (t :: d)))) in Hinv';
          [|symmetry; apply topo_sorted_perm].
        specialize (IH _ _ Hinv' ltac:(cbn; lia)).
        etransitivity; [|exact IH]. cbn. apply Permutation_middle.
  Qed.

  Theorem topo_sort_complete ids :
    NoDup ids → (∀ a, ¬ tc (dep g) a a) → topo_sort g ids ≡ₚ ids.
  Proof.
    intros Hnd Hac. unfold topo_sort.
    pose proof (kahn_complete (length ids) ids (topo_init g ids) [] Hnd Hac (kinv_init ids Hnd)) as H.
    rewrite app_nil_r in H. apply H. cbn. lia.
  Qed.

  (** the fuel [length ids] is enough: more fuel gives the same list *)
  Lemma kahn_fuel f f' ids q d :
    NoDup ids → kinv ids q d → length ids ≤ f + length d → f ≤ f' → kahn f' g ids q d = kahn f g ids q d.
  Proof.
    intros Hnd. revert f' q d. induction f as [|f IH]; intros f' q d Hinv Hlen Hle.
    - destruct q as [|t q]; [destruct f'; reflexivity|]. exfalso.
      destruct Hinv as [H1 H2 _ _].
      assert (t :: d ⊆+ ids) as Hs.
      { apply NoDup_submseteq.
        - cbn in H1. apply NoDup_cons in H1 as [Hn H1]. apply NoDup_app in H1 as (_ & _ & Hd).
          constructor; [|exact Hd]. intros Hin. apply Hn, elem_of_app. right. exact Hin.
        - intros x Hx. apply H2. apply elem_of_cons in Hx as [->|Hx]; [left|]. cbn. right.
          apply elem_of_app. right. exact Hx. }
      apply submseteq_length in Hs. cbn in *. lia.
    - destruct f' as [|f']; [lia|]. destruct q as [|t q]; [reflexivity|]. cbn [kahn]. f_equal.
      apply IH; [|cbn; lia|lia].
      apply (kinv_perm _ (q ++ newly g ids t (t :: d))); [symmetry; apply topo_sorted_perm|].
      apply kinv_step; assumption.
  Qed.

  Theorem topo_fuel_enough ids k :
    NoDup ids → kahn (length ids + k) g ids (topo_init g ids) [] = topo_sort g ids.
  Proof.
    intros Hnd. apply kahn_fuel; [exact Hnd|apply kinv_init, Hnd|cbn; lia|lia].
  Qed.
End topo.

(** * More list facts *)
Lemma sublist_NoDup {A} (l1 l2 : list A) : l1 `sublist_of` l2 → NoDup l2 → NoDup l1.
Proof.
  induction 1 as [|x l1 l2 Hs IH|x l1 l2 Hs IH]; intros Hnd.
  - constructor.
  - apply NoDup_cons in Hnd as [Hx Hnd]. constructor; [|apply IH, Hnd].
    intros Hin. apply Hx. eapply sublist_submseteq in Hs. eapply elem_of_submseteq; eassumption.
  - apply NoDup_cons in Hnd as [_ Hnd]. apply IH, Hnd.
Qed.

Lemma fmap_filter_sublist {A B} (f : A → B) (P : A → Prop) `{∀ x, Decision (P x)} l :
  (f <$> filter P l) `sublist_of` (f <$> l).
Proof.
  induction l as [|x l IH]; [constructor|]. rewrite filter_cons. cbn.
  destruct (decide (P x)); cbn; [apply sublist_skip|apply sublist_cons]; exact IH.
Qed.

Lemma filter_split_perm {A} (P : A → Prop) `{∀ x, Decision (P x)} (l : list A) :
  l ≡ₚ filter P l ++ filter (λ x, ¬ P x) l.
Proof.
  induction l as [|x l IH]; [reflexivity|]. rewrite !filter_cons.
  destruct (decide (P x)) as [Hp|Hp].
  - destruct (decide (¬ P x)); [contradiction|]. cbn. constructor. exact IH.
  - destruct (decide (¬ P x)); [|contradiction]. rewrite <- Permutation_middle. constructor. exact IH.
Qed.

Lemma mjoin_fmap_perm {A B} (F F' : A → list B) (l : list A) :
  (∀ x, x ∈ l → F x ≡ₚ F' x) → mjoin (F <$> l) ≡ₚ mjoin (F' <$> l).
Proof.
  induction l as [|x l IH]; intros H; [reflexivity|]. cbn.
  rewrite (H x) by left. rewrite IH; [reflexivity|]. intros y Hy. apply H. right. exact Hy.
Qed.

Lemma mjoin_cons_perm {A B} (h : A → B) (T : A → list B) (l : list A) :
  mjoin ((λ x, h x :: T x) <$> l) ≡ₚ (h <$> l) ++ mjoin (T <$> l).
Proof.
  induction l as [|x l IH]; [reflexivity|]. cbn. constructor. rewrite IH.
  rewrite !app_assoc. apply Permutation_app_tail. apply Permutation_app_comm.
Qed.

Lemma fmap_mjoin {A B} (f : A → B) (ls : list (list A)) : f <$> mjoin ls = mjoin (fmap f <$> ls).
Proof.
  induction ls as [|l ls IH]; [reflexivity|].
  change (mjoin (l :: ls)) with (l ++ mjoin ls). rewrite fmap_app, IH. reflexivity.
Qed.

Lemma partition_by {A} (f : A → string) (K : list string) (L : list A) :
  NoDup K → (∀ x, x ∈ L → f x ∈ K) → L ≡ₚ mjoin ((λ k, filter (λ x, f x = k) L) <$> K).
Proof.
  intros Hnd. revert L. induction Hnd as [|k K Hk Hnd IH]; intros L HL.
  - destruct L as [|x L]; [reflexivity|]. specialize (HL x ltac:(left)). inversion HL.
  - cbn. rewrite (filter_split_perm (λ x, f x = k) L) at 1. apply Permutation_app_head.
    rewrite (IH (filter (λ x, f x ≠ k) L)).
    + apply mjoin_fmap_perm. intros k' Hk'. rewrite list_filter_filter.
      erewrite list_filter_iff; [reflexivity|]. intros x. cbn. split; [tauto|]. intros E. split; [exact E|].
      intros E2. apply Hk. rewrite <- E2, E. exact Hk'.
    + intros x Hx. apply elem_of_list_filter in Hx as [Hne Hx]. specialize (HL x Hx).
      apply elem_of_cons in HL as [E|HL]; [contradiction|exact HL].
Qed.

(** * Trees of stores satisfying the invariants *)
Section trees.
  Variable g : graph.
  Hypothesis Hok : G_ok g.

  Lemma live_key t : is_live g t → g_tasks g !! t_id t = Some t.
  Proof. intros (i & H). rewrite (ok_key g Hok i t H). exact H. Qed.

  Lemma all_ids_keys : t_id <$> all_tasks g = (map_to_list (g_tasks g)).*1.
  Proof.
    unfold all_tasks. rewrite <- list_fmap_compose. apply Forall_fmap_ext_1, Forall_forall.
    intros [i t] H. apply elem_of_map_to_list in H. cbn. apply (ok_key g Hok), H.
  Qed.

  Lemma all_ids_NoDup : NoDup (t_id <$> all_tasks g).
  Proof. rewrite all_ids_keys. apply NoDup_fst_map_to_list. Qed.

  Lemma ids_filter_NoDup (P : task → Prop) `{∀ x, Decision (P x)} : NoDup (t_id <$> filter P (all_tasks g)).
  Proof. eapply sublist_NoDup; [apply fmap_filter_sublist|apply all_ids_NoDup]. Qed.

  Lemma elem_of_ids_filter (P : task → Prop) `{∀ x, Decision (P x)} i :
    i ∈ t_id <$> filter P (all_tasks g) ↔ ∃ t, g_tasks g !! i = Some t ∧ P t.
  Proof.
    rewrite elem_of_list_fmap. split.
    - intros (t & -> & Ht). apply elem_of_list_filter in Ht as [HP Ht]. apply elem_of_all_tasks in Ht.
      exists t. split; [apply live_key, Ht|exact HP].
    - intros (t & Hl & HP). exists t. split; [symmetry; apply (ok_key g Hok), Hl|].
      apply elem_of_list_filter. split; [exact HP|]. apply elem_of_all_tasks. exists i. exact Hl.
  Qed.

  Lemma tasks_of_ids l : (∀ i, i ∈ l → is_Some (g_tasks g !! i)) → t_id <$> tasks_of g l = l.
  Proof.
    induction l as [|i l IH]; intros H; [reflexivity|]. unfold tasks_of in *. cbn.
    destruct (H i ltac:(left)) as [t Ht]. rewrite Ht. cbn. rewrite (ok_key g Hok i t Ht). f_equal.
    apply IH. intros j Hj. apply H. right. exact Hj.
  Qed.

  Lemma elem_of_tasks_of l t : t ∈ tasks_of g l ↔ t_id t ∈ l ∧ is_live g t.
  Proof.
    unfold tasks_of. rewrite elem_of_list_omap. split.
    - intros (i & Hi & H). rewrite (ok_key g Hok i t H). split; [exact Hi|]. exists i. exact H.
    - intros [Hi Hl]. exists (t_id t). split; [exact Hi|apply live_key, Hl].
  Qed.

  Lemma acyclic : ∀ a, ¬ tc (dep g) a a.
  Proof. apply (ok_acyclic g Hok). Qed.

  (** topo-sorted selections of live items *)
  Definition sel (P : task → Prop) `{∀ x, Decision (P x)} : list string := t_id <$> filter P (all_tasks g).

  Lemma topo_sel_perm (P : task → Prop) `{∀ x, Decision (P x)} : topo_sort g (sel P) ≡ₚ sel P.
  Proof. apply topo_sort_complete; [apply ids_filter_NoDup|apply acyclic]. Qed.

  Lemma topo_sel_ids (P : task → Prop) `{∀ x, Decision (P x)} :
    t_id <$> tasks_of g (topo_sort g (sel P)) = topo_sort g (sel P).
  Proof.
    apply tasks_of_ids. intros i Hi. apply topo_sort_subset in Hi. apply elem_of_ids_filter in Hi as (t & Ht & _).
    exists t. exact Ht.
  Qed.

  Lemma elem_of_topo_sel (P : task → Prop) `{∀ x, Decision (P x)} t :
    t ∈ tasks_of g (topo_sort g (sel P)) ↔ is_live g t ∧ P t.
  Proof.
    rewrite elem_of_tasks_of. rewrite topo_sel_perm. unfold sel. rewrite elem_of_ids_filter. split.
    - intros [(t' & Ht' & HP) Hl]. split; [exact Hl|]. apply live_key in Hl. rewrite Hl in Ht'.
      injection Ht' as <-. exact HP.
    - intros [Hl HP]. split; [|exact Hl]. exists t. split; [apply live_key, Hl|exact HP].
  Qed.

  Lemma elem_of_kids_of e k : k ∈ kids_of g e ↔ is_live g k ∧ t_is_epic k = false ∧ t_epic k = e.
  Proof. unfold kids_of, kid_ids. apply (elem_of_topo_sel (λ t, t_is_epic t = false ∧ t_epic t = e)). Qed.

  Lemma kids_of_ids e : t_id <$> kids_of g e ≡ₚ kid_ids g e.
  Proof.
    unfold kids_of. change (kid_ids g e) with (sel (λ t, t_is_epic t = false ∧ t_epic t = e)).
    rewrite (topo_sel_ids (λ t, t_is_epic t = false ∧ t_epic t = e)).
    apply (topo_sel_perm (λ t, t_is_epic t = false ∧ t_epic t = e)).
  Qed.

  (** ** shape of the nodes *)
  Definition node_ok (n : node) : Prop :=
    is_live g n.1
    ∧ (t_is_epic n.1 = false → n.2 = [])
    ∧ Forall (λ k, is_live g k ∧ t_is_epic k = false ∧ t_epic k = t_id n.1) n.2.

  Lemma elem_of_build_tree n :
    n ∈ build_tree g ↔
      (is_live g n.1 ∧ t_is_epic n.1 = false ∧ t_epic n.1 = "" ∧ n.2 = [])
      ∨ (is_live g n.1 ∧ t_is_epic n.1 = true ∧ n.2 = kids_of g (t_id n.1)).
  Proof.
    unfold build_tree. rewrite elem_of_app, !elem_of_list_fmap. split.
    - intros [(t & -> & Ht)|(e & -> & He)].
      + left. apply (elem_of_topo_sel (λ t, t_is_epic t = false ∧ t_epic t = "")) in Ht. cbn. tauto.
      + right. apply (elem_of_topo_sel (λ t, t_is_epic t = true)) in He. cbn. tauto.
    - destruct n as [t kids]. cbn. intros [(Hl & Hne & He & ->)|(Hl & He & ->)].
      + left. exists t. split; [reflexivity|].
        apply (elem_of_topo_sel (λ t, t_is_epic t = false ∧ t_epic t = "")). tauto.
      + right. exists t. split; [reflexivity|]. apply (elem_of_topo_sel (λ t, t_is_epic t = true)). tauto.
  Qed.

  Lemma build_tree_ok : Forall node_ok (build_tree g).
  Proof.
    apply Forall_forall. intros [t kids] Hn. apply elem_of_build_tree in Hn. cbn in Hn. unfold node_ok. cbn.
    destruct Hn as [(Hl & Hne & He & ->)|(Hl & He & ->)].
    - split; [exact Hl|]. split; [reflexivity|constructor].
    - split; [exact Hl|]. split; [congruence|]. apply Forall_forall. intros k Hk.
      apply elem_of_kids_of in Hk. exact Hk.
  Qed.

  Lemma node_ok_kids t kids kids' :
    node_ok (t, kids) → t_is_epic t = true → kids' ⊆ kids → node_ok (t, kids').
  Proof.
    intros (Hl & _ & Hk) He Hsub. split; [exact Hl|]. split; [cbn; congruence|].
    cbn in *. rewrite Forall_forall in *. intros k Hkk. apply Hk, Hsub, Hkk.
  Qed.

  Lemma filter_ready_ok ns : Forall node_ok ns → Forall node_ok (filter_ready g ns).
  Proof.
    rewrite !Forall_forall. intros H n Hn. unfold filter_ready in Hn.
    apply elem_of_list_omap in Hn as ([t kids] & Hin & Hf). specialize (H _ Hin).
    destruct (t_is_epic t) eqn:He.
    - destruct (filter _ kids) as [|k0 k'] eqn:Ek; [discriminate|]. injection Hf as <-.
      apply (node_ok_kids t kids); [exact H|exact He|]. rewrite <- Ek. intros k Hk.
      apply elem_of_list_filter in Hk. tauto.
    - destruct (is_ready g t); [|discriminate]. injection Hf as <-. exact H.
  Qed.

  Lemma filter_active_ok ns : Forall node_ok ns → Forall node_ok (filter_active ns).
  Proof.
    rewrite !Forall_forall. intros H n Hn. unfold filter_active in Hn.
    apply elem_of_list_omap in Hn as ([t kids] & Hin & Hf). specialize (H _ Hin).
    destruct (t_is_epic t) eqn:He.
    - destruct kids as [|k0 k'] eqn:Ek; [injection Hf as <-; exact H|]. rewrite <- Ek in *.
      destruct (kids_all_closed kids); [discriminate|]. injection Hf as <-.
      apply (node_ok_kids t kids); [exact H|exact He|]. intros k Hk. apply elem_of_list_filter in Hk. tauto.
    - destruct (done_or_canceled _); [discriminate|]. injection Hf as <-. exact H.
  Qed.

  Lemma list_roots_ok all ready epic : Forall node_ok (list_roots g all ready epic).
  Proof.
    unfold list_roots. destruct (String.eqb epic "") eqn:Ee.
    - destruct ready; [apply filter_ready_ok, build_tree_ok|].
      destruct all; [apply build_tree_ok|apply filter_active_ok, build_tree_ok].
    - destruct (g_tasks g !! epic) as [e|] eqn:Hl; [|constructor].
      destruct (t_is_epic e) eqn:He; [|constructor].
      pose proof (ok_key g Hok _ _ Hl) as Hid.
      assert (node_ok (e, kids_of g epic)) as Hn.
      { split; [exists epic; exact Hl|]. split; [cbn; congruence|]. cbn. apply Forall_forall.
        intros k Hk. apply elem_of_kids_of in Hk. rewrite Hid. exact Hk. }
      constructor; [|constructor]. destruct ready; [|exact Hn].
      apply (node_ok_kids e (kids_of g epic)); [exact Hn|exact He|].
      intros k Hk. apply elem_of_list_filter in Hk. tauto.
  Qed.

  Lemma item_at_ok ns t l r p :
    Forall node_ok ns → item_at g ns t l r p →
    is_live g t ∧ (r = false → t_is_epic t = false).
  Proof.
    intros H Hat. destruct Hat as [t kids pre post|e kids pre post k kpre kpost Hk].
    - apply Forall_app in H as [_ H]. apply Forall_cons in H as [(Hl & _) _]. split; [exact Hl|discriminate].
    - apply Forall_app in H as [_ H]. apply Forall_cons in H as [(_ & _ & Hks) _]. cbn in Hks. subst kids.
      apply Forall_app in Hks as [_ Hks]. apply Forall_cons in Hks as [(Hl & Hne & _) _]. tauto.
  Qed.

  (** ** 1. --all is complete: every live item has exactly one item row *)
  Lemma items_app a b : items (a ++ b) = items a ++ items b.
  Proof.
    induction a as [|n a IH]; [reflexivity|].
    change (items ((n :: a) ++ b)) with ((t_id n.1 :: (t_id <$> n.2)) ++ items (a ++ b)).
    change (items (n :: a)) with ((t_id n.1 :: (t_id <$> n.2)) ++ items a).
    rewrite IH, app_assoc. reflexivity.
  Qed.

  Lemma items_build_tree : items (build_tree g) ≡ₚ t_id <$> all_tasks g.
  Proof.
    unfold build_tree. rewrite items_app.
    (* orphans *)
    assert (items ((λ t, (t, [])) <$> tasks_of g (topo_sort g (orphan_ids g))) ≡ₚ orphan_ids g) as ->.
    { unfold items. rewrite <- list_fmap_compose.
      transitivity (t_id <$> tasks_of g (topo_sort g (orphan_ids g))).
      - generalize (tasks_of g (topo_sort g (orphan_ids g))). intros l.
        induction l as [|x l IH]; [reflexivity|]. cbn. constructor. exact IH.
      - change (orphan_ids g) with (sel (λ t, t_is_epic t = false ∧ t_epic t = "")).
        rewrite (topo_sel_ids (λ t, t_is_epic t = false ∧ t_epic t = "")).
        apply (topo_sel_perm (λ t, t_is_epic t = false ∧ t_epic t = "")). }
    (* epics *)
    set (es := tasks_of g (topo_sort g (epic_ids g))).
    assert (t_id <$> es ≡ₚ epic_ids g) as Hes.
    { unfold es. change (epic_ids g) with (sel (λ t, t_is_epic t = true)).
      rewrite (topo_sel_ids (λ t, t_is_epic t = true)).
      apply (topo_sel_perm (λ t, t_is_epic t = true)). }
    assert (items ((λ e, (e, kids_of g (t_id e))) <$> es)
            ≡ₚ epic_ids g ++ mjoin (kid_ids g <$> epic_ids g)) as ->.
    { unfold items. rewrite <- list_fmap_compose.
      change ((λ n : node, t_id n.1 :: (t_id <$> n.2)) ∘ (λ e, (e, kids_of g (t_id e))))
        with (λ e, t_id e :: (t_id <$> kids_of g (t_id e))).
      rewrite (mjoin_cons_perm t_id (λ e, t_id <$> kids_of g (t_id e))).
      rewrite Hes. apply Permutation_app_head.
      change (λ e, t_id <$> kids_of g (t_id e)) with ((λ i, t_id <$> kids_of g i) ∘ t_id).
      rewrite list_fmap_compose. rewrite Hes.
      apply mjoin_fmap_perm. intros i _. apply kids_of_ids. }
    (* partition of the live items *)
    set (L := all_tasks g).
    rewrite (filter_split_perm (λ t, t_is_epic t = true) L) at 1. rewrite fmap_app.
    rewrite (Permutation_app_comm (orphan_ids g)). rewrite <- app_assoc.
    apply Permutation_app_head.
    rewrite (filter_split_perm (λ t, t_epic t = "") (filter (λ t, ¬ t_is_epic t = true) L)). rewrite fmap_app.
    rewrite (Permutation_app_comm (mjoin _)).
    apply Permutation_app.
    { unfold orphan_ids. rewrite list_filter_filter. fold L.
      erewrite list_filter_iff; [reflexivity|]. intros t. cbn. destruct (t_is_epic t); split; intros [? ?]; split; congruence. }
    set (L' := filter (λ t, ¬ t_epic t = "") (filter (λ t, ¬ t_is_epic t = true) L)).
    rewrite (partition_by t_epic (epic_ids g) L').
    - rewrite fmap_mjoin. rewrite <- list_fmap_compose.
      apply mjoin_fmap_perm. intros e He. cbn. unfold kid_ids. fold L. unfold L'.
      rewrite !list_filter_filter.
      erewrite list_filter_iff; [reflexivity|]. intros t. cbn.
      assert (e ≠ "") as Hne.
      { intros ->. apply (elem_of_ids_filter (λ t, t_is_epic t = true)) in He as (t' & Ht' & _).
        apply (ok_nonempty g Hok t' Ht'). }
      destruct (t_is_epic t); split; intros H; decompose [and] H; repeat split; congruence.
    - apply (ids_filter_NoDup (λ t, t_is_epic t = true)).
    - intros t Ht. unfold L' in Ht. apply elem_of_list_filter in Ht as [Hne Ht].
      apply elem_of_list_filter in Ht as [Hnep Ht]. apply elem_of_all_tasks in Ht as (i & Hi).
      pose proof (ok_epic g Hok i t Hi) as Hep. destruct (t_is_epic t); [congruence|].
      destruct Hep as [?|(e & He & Hee)]; [contradiction|].
      apply (elem_of_ids_filter (λ t, t_is_epic t = true)). exists e. split; assumption.
  Qed.
End trees.

(** * Small text facts *)
Lemma pretty_N_char_ascii x : (48 ≤ N_of_ascii (pretty_N_char x) ≤ 57)%N.
Proof. unfold pretty_N_char. repeat case_match; vm_compute; split; discriminate. Qed.

Lemma pretty_N_go_ascii x s : ascii_str s → ascii_str (pretty_N_go x s).
Proof.
  revert s. induction (N.lt_wf_0 x) as [x _ IH]. intros s Hs.
  destruct (decide (0 < x)%N) as [Hx|Hx].
  - rewrite pretty_N_go_step by exact Hx. apply IH.
    + apply N.div_lt; lia.
    + unfold ascii_str. change (bytes_of (String ?c s)) with (N_of_ascii c :: bytes_of s).
      constructor; [|exact Hs]. pose proof (pretty_N_char_ascii (x `mod` 10)). lia.
  - assert (x = 0%N) as -> by lia. rewrite pretty_N_go_0. exact Hs.
Qed.

Lemma pretty_nat_ascii (n : nat) : ascii_str (pretty n).
Proof.
  unfold pretty, pretty_nat, pretty, pretty_N. destruct (decide _).
  - unfold ascii_str. vm_compute. constructor; [split; discriminate|constructor].
  - apply pretty_N_go_ascii. constructor.
Qed.

Lemma last_app_some {A} (l1 l2 : list A) x : list.last l2 = Some x → list.last (l1 ++ l2) = Some x.
Proof.
  intros H. induction l1 as [|a l1 IH]; [exact H|]. cbn [app].
  destruct (l1 ++ l2) as [|b r]; [discriminate|]. exact IH.
Qed.

Lemma ends_space_app a b : plain a → plain b → ends_space b = true → ends_space (a +:+ b) = true.
Proof.
  intros (la & -> & Ha) (lb & -> & Hb). unfold ends_space. rewrite <- of_runes_app.
  rewrite !runes_plain by (try apply Forall_app; auto). rewrite !strip_plain by (try apply Forall_app; auto).
  destruct (list.last lb) as [x|] eqn:E; [|discriminate]. intros H.
  rewrite (last_app_some la lb x E). exact H.
Qed.

Lemma ftl_prefix rw w pfx conn show icon i title anns blocker e :
  ∃ rest, format_tree_line rw w pfx conn show icon i title anns blocker e
          = base_str pfx conn show icon e +:+ rest.
Proof.
  unfold format_tree_line. destruct (fit _ _ _ _) as [t' a'].
  unfold with_blocker. repeat case_match; rewrite ?sapp_assoc; eexists; reflexivity.
Qed.

(** * The C19 theorems *)
Section c19.
  Context (rw : N → nat) {Hrw : RwOk rw}.
  Variable g : graph.
  Hypothesis Hok : G_ok g.
  Variable w : Z.
  Variable repo : string.

  Notation rows_s := (list_rows_s rw g w repo).
  Notation vl := (Layout.vl rw).

  Lemma list_rows_s_items all ready epic :
    row_item <$> item_rows (rows_s all ready epic) = items (list_roots g all ready epic).
  Proof. unfold list_rows_s. apply items_render_roots. Qed.

  (** ** 1 *)
  Theorem all_complete :
    row_item <$> item_rows (rows_s true false "") ≡ₚ (map_to_list (g_tasks g)).*1.
  Proof.
    rewrite list_rows_s_items. change (list_roots g true false "") with (build_tree g).
    rewrite (items_build_tree g Hok). rewrite (all_ids_keys g Hok). reflexivity.
  Qed.

  Lemma items_cons n ns : items (n :: ns) = (t_id n.1 :: (t_id <$> n.2)) ++ items ns.
  Proof. reflexivity. Qed.

  Lemma elem_of_items i ns : i ∈ items ns ↔ ∃ n, n ∈ ns ∧ (i = t_id n.1 ∨ i ∈ t_id <$> n.2).
  Proof.
    induction ns as [|n ns IH].
    - split; [intros H; inversion H|intros (n & H & _); inversion H].
    - rewrite items_cons, elem_of_app, elem_of_cons, IH. split.
      + intros [[->|H]|(n' & Hn' & H)].
        * exists n. split; [left|left; reflexivity].
        * exists n. split; [left|right; exact H].
        * exists n'. split; [right; exact Hn'|exact H].
      + intros (n' & Hn' & H). apply elem_of_cons in Hn' as [->|Hn'].
        * left. destruct H; [left|right]; assumption.
        * right. exists n'. split; assumption.
  Qed.

  Lemma items_NoDup_build : NoDup (items (build_tree g)).
  Proof. rewrite (items_build_tree g Hok). apply (all_ids_NoDup g Hok). Qed.

  Lemma omap_items_sublist (f : node → option node) ns :
    (∀ n n', f n = Some n' → n'.1 = n.1 ∧ (t_id <$> n'.2) `sublist_of` (t_id <$> n.2)) →
    items (omap f ns) `sublist_of` items ns.
  Proof.
    intros Hf. induction ns as [|n ns IH]; [constructor|]. cbn [omap list_omap].
    destruct (f n) as [n'|] eqn:E.
    - rewrite !items_cons. destruct (Hf n n' E) as [-> Hs]. apply sublist_app; [|exact IH].
      apply sublist_skip, Hs.
    - rewrite items_cons. apply sublist_inserts_l, IH.
  Qed.

  Lemma items_filter_active_sublist ns : items (filter_active ns) `sublist_of` items ns.
  Proof.
    apply omap_items_sublist. intros [t kids] n'.
    destruct (t_is_epic t).
    - destruct kids as [|k0 ks] eqn:Ek; [intros [= <-]; split; reflexivity|]. rewrite <- Ek.
      destruct (kids_all_closed kids); [discriminate|]. intros [= <-]. cbn. split; [reflexivity|].
      apply fmap_filter_sublist.
    - destruct (done_or_canceled _); [discriminate|]. intros [= <-]. split; reflexivity.
  Qed.

  Lemma items_filter_ready_sublist ns : items (filter_ready g ns) `sublist_of` items ns.
  Proof.
    apply omap_items_sublist. intros [t kids] n'.
    destruct (t_is_epic t).
    - destruct (filter _ kids) eqn:E; [discriminate|]. intros [= <-]. rewrite <- E. split; [reflexivity|].
      apply fmap_filter_sublist.
    - destruct (is_ready g t); [|discriminate]. intros [= <-]. split; reflexivity.
  Qed.

  (** where a live item sits in the unfiltered tree *)
  Lemma locate t : is_live g t → t_is_epic t = false →
    (t_epic t = "" ∧ (t, []) ∈ build_tree g)
    ∨ (∃ e, is_live g e ∧ t_is_epic e = true ∧ t_id e = t_epic t
            ∧ (e, kids_of g (t_id e)) ∈ build_tree g ∧ t ∈ kids_of g (t_id e)).
  Proof.
    intros Hl Hne. destruct Hl as (i & Hi).
    pose proof (ok_epic g Hok i t Hi) as Hep. rewrite Hne in Hep.
    destruct Hep as [He|(e & He & Hee)].
    - left. split; [exact He|]. apply (elem_of_build_tree g Hok). left. cbn. split; [exists i; exact Hi|tauto].
    - right. exists e. pose proof (ok_key g Hok _ _ He) as Hid.
      split; [exists (t_epic t); exact He|]. split; [exact Hee|]. split; [exact Hid|]. split.
      + apply (elem_of_build_tree g Hok). right. cbn. split; [exists (t_epic t); exact He|tauto].
      + apply (elem_of_kids_of g Hok). split; [exists i; exact Hi|]. split; [exact Hne|]. symmetry. exact Hid.
  Qed.

  (** ** 2 *)
  Theorem default_active_once :
    let ids := row_item <$> item_rows (rows_s false false "") in
    NoDup ids
    ∧ ∀ i t, g_tasks g !! i = Some t → t_is_epic t = false → done_or_canceled (t_state t) = false → i ∈ ids.
  Proof.
    cbn zeta. rewrite list_rows_s_items. change (list_roots g false false "") with (filter_active (build_tree g)).
    split.
    { eapply sublist_NoDup; [apply items_filter_active_sublist|apply items_NoDup_build]. }
    intros i t Hi Hne Hopen. pose proof (ok_key g Hok _ _ Hi) as <-.
    apply elem_of_items.
    destruct (locate t (ex_intro _ _ Hi) Hne) as [[He Hin]|(e & Hle & Hee & Hid & Hin & Hk)].
    - exists (t, []). split; [|left; reflexivity].
      unfold filter_active. apply elem_of_list_omap. exists (t, []). split; [exact Hin|].
      rewrite Hne, Hopen. reflexivity.
    - exists (e, filter (λ c, t_state c ≠ "canceled") (kids_of g (t_id e))). split.
      + unfold filter_active. apply elem_of_list_omap. exists (e, kids_of g (t_id e)). split; [exact Hin|].
        rewrite Hee. destruct (kids_of g (t_id e)) as [|k0 ks] eqn:Ek; [inversion Hk|]. rewrite <- Ek in *.
        assert (kids_all_closed (kids_of g (t_id e)) = false) as ->; [|reflexivity].
        apply not_true_is_false. intros Hc. unfold kids_all_closed in Hc. rewrite forallb_forall in Hc.
        apply elem_of_list_In in Hk. rewrite (Hc t Hk) in Hopen. discriminate.
      + right. cbn. apply elem_of_list_fmap. exists t. split; [reflexivity|]. apply elem_of_list_filter.
        split; [|exact Hk]. intros Hs. unfold done_or_canceled in Hopen. rewrite Hs in Hopen. discriminate.
  Qed.

  (** ** 3 *)
  Theorem ready_exact :
    let ids := row_item <$> item_rows (rows_s false true "") in
    NoDup ids
    ∧ (∀ i t, g_tasks g !! i = Some t → t_is_epic t = false → (is_ready g t = true ↔ i ∈ ids))
    ∧ (∀ n, n ∈ list_roots g false true "" → t_is_epic n.1 = true →
            n.2 ≠ [] ∧ Forall (λ k, is_ready g k = true ∧ t_is_epic k = false) n.2).
  Proof.
    cbn zeta. rewrite list_rows_s_items. change (list_roots g false true "") with (filter_ready g (build_tree g)).
    split; [|split].
    { eapply sublist_NoDup; [apply items_filter_ready_sublist|apply items_NoDup_build]. }
    - intros i t Hi Hne. pose proof (ok_key g Hok _ _ Hi) as <-. rewrite elem_of_items. split.
      + intros Hr. destruct (locate t (ex_intro _ _ Hi) Hne) as [[He Hin]|(e & Hle & Hee & Hid & Hin & Hk)].
        * exists (t, []). split; [|left; reflexivity].
          unfold filter_ready. apply elem_of_list_omap. exists (t, []). split; [exact Hin|].
          rewrite Hne, Hr. reflexivity.
        * assert (t ∈ filter (λ c, is_ready g c = true) (kids_of g (t_id e))) as Hf
            by (apply elem_of_list_filter; split; assumption).
          exists (e, filter (λ c, is_ready g c = true) (kids_of g (t_id e))). split.
          -- unfold filter_ready. apply elem_of_list_omap. exists (e, kids_of g (t_id e)). split; [exact Hin|].
             rewrite Hee. destruct (filter _ _) eqn:E; [inversion Hf|reflexivity].
          -- right. cbn. apply elem_of_list_fmap. exists t. split; [reflexivity|exact Hf].
      + intros (n' & Hn' & Hi'). unfold filter_ready in Hn'. apply elem_of_list_omap in Hn' as ([t0 kids] & Hin & Hf).
        pose proof (proj1 (Forall_forall _ _) (build_tree_ok g Hok) _ Hin) as (Hl0 & Hnk & Hks). cbn in *.
        destruct (t_is_epic t0) eqn:He0.
        * destruct (filter _ kids) eqn:E; [discriminate|]. injection Hf as <-. rewrite <- E in Hi'. cbn in Hi'.
          destruct Hi' as [Hi'|Hi'].
          -- apply (live_key g Hok) in Hl0. rewrite <- Hi', Hi in Hl0. injection Hl0 as ->. congruence.
          -- apply elem_of_list_fmap in Hi' as (k & Hik & Hk). apply elem_of_list_filter in Hk as [Hr Hk].
             rewrite Forall_forall in Hks. destruct (Hks k Hk) as (Hlk & _).
             apply (live_key g Hok) in Hlk. rewrite <- Hik, Hi in Hlk. injection Hlk as ->. exact Hr.
        * destruct (is_ready g t0) eqn:Hr0; [|discriminate]. injection Hf as <-. cbn in Hi'.
          rewrite (Hnk eq_refl) in Hi'. destruct Hi' as [Hi'|Hi']; [|inversion Hi'].
          apply (live_key g Hok) in Hl0. rewrite <- Hi', Hi in Hl0. injection Hl0 as ->. exact Hr0.
    - intros n' Hn' He. unfold filter_ready in Hn'. apply elem_of_list_omap in Hn' as ([t0 kids] & Hin & Hf).
      pose proof (proj1 (Forall_forall _ _) (build_tree_ok g Hok) _ Hin) as (Hl0 & Hnk & Hks). cbn in *.
      destruct (t_is_epic t0) eqn:He0.
      + destruct (filter _ kids) eqn:E; [discriminate|]. injection Hf as <-. cbn. split; [discriminate|].
        rewrite <- E. apply Forall_forall. intros k Hk. apply elem_of_list_filter in Hk as [Hr Hk].
        rewrite Forall_forall in Hks. destruct (Hks k Hk) as (_ & Hne & _). split; assumption.
      + destruct (is_ready g t0); [|discriminate]. injection Hf as <-. cbn in He. congruence.
  Qed.
End c19.

(** * Rows: glyphs, layout, UTF-8 *)
Section c19_rows.
  Context (rw : N → nat) {Hrw : RwOk rw}.
  Variable g : graph.
  Hypothesis Hok : G_ok g.
  Variable w : Z.
  Variable repo : string.

  Notation rows_s := (list_rows_s rw g w repo).
  Notation vl := (Layout.vl rw).

  (** ** 4. tree glyphs *)
  Lemma state_icon_cases t r :
    state_icon t r ∈ [g_epic; g_done; g_canceled; g_error; g_doing; g_blocked; g_ready; "?"].
  Proof.
    unfold state_icon. repeat case_match; rewrite !elem_of_cons; tauto.
  Qed.

  Theorem glyphs all ready epic r :
    r ∈ rows_s all ready epic →
    (row_child r = true → row_result r = false →
       ∃ rest, row_text r = (if row_last r then g_corner else g_tee) +:+ " " +:+ rest)
    ∧ (row_child r = true → row_result r = true →
       ∃ rest, row_text r = (if row_last r then "  " else g_bar +:+ " ") +:+ "  " +:+ g_arrow +:+ " " +:+ rest)
    ∧ (row_child r = false →
       String.prefix g_tee (row_text r) = false ∧ String.prefix g_corner (row_text r) = false).
  Proof.
    intros Hr. unfold list_rows_s in Hr. apply in_render_roots in Hr as (t & l & root & p & _ & [->|Hr]).
    - cbn [row_child row_result row_last row_text item_row].
      destruct (ftl_prefix rw w "" (if l then g_corner else g_tee) (negb root) (state_icon t (is_ready g t))
                  (t_id t) (t_title t) (anns_of t) (blocker_info g t p).1 (t_is_epic t)) as (rest & ->).
      split; [|split].
      + intros Hc _. destruct root; [discriminate|]. cbn [negb]. unfold base_str.
        exists (icon_str (state_icon t (is_ready g t)) (t_is_epic t) +:+ rest).
        rewrite !sapp_assoc. reflexivity.
      + discriminate.
      + intros Hc. destruct root; [|discriminate]. cbn [negb]. unfold base_str, icon_str.
        pose proof (state_icon_cases t (is_ready g t)) as Hic.
        rewrite !elem_of_cons in Hic. rewrite elem_of_nil in Hic.
        destruct Hic as [->|[->|[->|[->|[->|[->|[->|[->|[]]]]]]]]]; split; reflexivity.
    - unfold result_rows in Hr. destruct (done_or_canceled _); [|inversion Hr].
      destruct (t_results t) as [|latest ?]; [inversion Hr|]. apply elem_of_list_singleton in Hr. subst r.
      cbn [row_child row_result row_last row_text]. unfold format_result_line.
      split; [discriminate|]. split.
      + intros Hc _. destruct root; [discriminate|]. eexists. reflexivity.
      + intros Hc. destruct root; [|discriminate]. split; reflexivity.
  Qed.

  (** children sit under their own epic *)
  Theorem kids_under_own_epic all ready epic n k :
    n ∈ list_roots g all ready epic → k ∈ n.2 →
    t_is_epic n.1 = true ∧ t_is_epic k = false ∧ t_epic k = t_id n.1.
  Proof.
    intros Hn Hk. pose proof (proj1 (Forall_forall _ _) (list_roots_ok g Hok all ready epic) _ Hn) as (_ & Hnk & Hks).
    rewrite Forall_forall in Hks. destruct (Hks k Hk) as (_ & Hne & He). split; [|tauto].
    destruct (t_is_epic n.1); [reflexivity|]. rewrite (Hnk eq_refl) in Hk. inversion Hk.
  Qed.

  (** ** 7. row layout *)
  Definition texts_plain : Prop :=
    ∀ i t, g_tasks g !! i = Some t →
      ascii_str (t_id t) ∧ String.length (t_id t) = 6 ∧ plain (t_title t) ∧ plain (t_claimed t).

  Lemma get_blockers_live t b : b ∈ get_blockers g t → is_Some (g_tasks g !! b).
  Proof.
    unfold get_blockers, sort_strings. rewrite merge_sort_Permutation, elem_of_app. intros [H|H].
    - apply elem_of_list_filter in H as [H _]. unfold open_dep in H. destruct (g_tasks g !! b); [eauto|discriminate].
    - destruct (String.eqb (t_epic t) ""); [inversion H|].
      apply elem_of_list_filter in H as [H _]. unfold open_epic_dep in H. destruct (g_tasks g !! b); [eauto|discriminate].
  Qed.

  Lemma blocker_info_text (P : string → Prop) t p :
    P "" → (∀ a b, P a → P b → P (a +:+ b)) → (∀ s, ascii_str s → P s) → P g_hourglass →
    (∀ i o, g_tasks g !! i = Some o → P (abbreviate (t_title o) 20)) →
    P (blocker_info g t p).1.
  Proof.
    intros Hnil Happ Hasc Hh Habb. unfold blocker_info.
    destruct (negb (is_ready g t) && String.eqb (t_state t) "todo")%bool; [|exact Hnil]. cbn [fst].
    set (new := blocker_name g <$> filter (λ b, mem_str b p = false) (get_blockers g t)).
    assert (Forall P new) as Hnew.
    { unfold new. apply Forall_fmap, Forall_forall. intros b Hb. apply elem_of_list_filter in Hb as [_ Hb].
      apply get_blockers_live in Hb as [o Ho]. unfold blocker_name. cbn. rewrite Ho. apply (Habb b o Ho). }
    assert (P " ") as Hsp by (apply Hasc; unfold ascii_str; vm_compute; repeat constructor; discriminate).
    destruct (2 <? length new)%nat.
    - apply Happ; [exact Hh|]. apply Happ; [exact Hsp|]. apply Happ; [apply Hasc, pretty_nat_ascii|].
      apply Hasc. unfold ascii_str. vm_compute. repeat constructor; discriminate.
    - destruct new as [|x new']; [exact Hnil|].
      apply Happ; [exact Hh|]. apply Happ; [exact Hsp|].
      assert (P ", ") as Hcs by (apply Hasc; unfold ascii_str; vm_compute; repeat constructor; discriminate).
      clear -Hnew Happ Hcs Hnil. revert Hnew. generalize (x :: new'). intros l. induction 1 as [|y l Hy Hl IH]; [exact Hnil|].
      cbn [sjoin]. destruct l; [exact Hy|]. apply Happ; [exact Hy|]. apply Happ; [exact Hcs|exact IH].
  Qed.

  Local Ltac glyph_ok := split; [reflexivity|discriminate].

  Lemma state_icon_ok t r :
    plain (state_icon t r) ∧ vl (state_icon t r) = 1%Z ∧ String.eqb (state_icon t r) "" = false.
  Proof.
    pose proof (state_icon_cases t r) as Hic. rewrite !elem_of_cons, elem_of_nil in Hic.
    destruct Hic as [->|[->|[->|[->|[->|[->|[->|[->|[]]]]]]]]].
    - split; [apply (plain_glyph 9402); glyph_ok|]. split; [|reflexivity].
      change g_epic with (of_runes [9402%N]). rewrite (vl_glyph rw) by glyph_ok. rewrite rw_epic. reflexivity.
    - split; [apply (plain_glyph 10003); glyph_ok|]. split; [|reflexivity].
      change g_done with (of_runes [10003%N]). rewrite (vl_glyph rw) by glyph_ok. rewrite rw_done. reflexivity.
    - split; [apply (plain_glyph 10007); glyph_ok|]. split; [|reflexivity].
      change g_canceled with (of_runes [10007%N]). rewrite (vl_glyph rw) by glyph_ok. rewrite rw_canceled. reflexivity.
    - split; [apply (plain_glyph 9888); glyph_ok|]. split; [|reflexivity].
      change g_error with (of_runes [9888%N]). rewrite (vl_glyph rw) by glyph_ok. rewrite rw_error. reflexivity.
    - split; [apply (plain_glyph 9680); glyph_ok|]. split; [|reflexivity].
      change g_doing with (of_runes [9680%N]). rewrite (vl_glyph rw) by glyph_ok. rewrite rw_doing. reflexivity.
    - split; [apply (plain_glyph 183); glyph_ok|]. split; [|reflexivity].
      change g_blocked with (of_runes [183%N]). rewrite (vl_glyph rw) by glyph_ok. rewrite rw_blocked. reflexivity.
    - split; [apply (plain_glyph 9675); glyph_ok|]. split; [|reflexivity].
      change g_ready with (of_runes [9675%N]). rewrite (vl_glyph rw) by glyph_ok. rewrite rw_ready. reflexivity.
    - assert (ascii_str "?") as Ha by (unfold ascii_str; vm_compute; repeat constructor; discriminate).
      split; [apply plain_ascii, Ha|]. split; [|reflexivity]. rewrite (vl_ascii rw) by exact Ha. reflexivity.
  Qed.

  Lemma base_facts conn (show e : bool) icon :
    plain conn → vl conn = 1%Z → plain icon → vl icon = 1%Z → String.eqb icon "" = false →
    let base := base_str "" conn show icon e in
    plain base ∧ ends_space base = true
    ∧ vl base = ((if show then 2 else 0) + 2 + (if e then 1 else 0))%Z.
  Proof.
    intros Hc Hvc Hi Hvi Hne. cbn zeta. unfold base_str, icon_str. rewrite Hne.
    set (b := " " +:+ (if e then " " else "")).
    assert (plain b) as Hb by (unfold b; destruct e; [apply (plain_spaces 2)|apply (plain_spaces 1)]).
    assert (ends_space b = true) as Heb by (unfold b; destruct e; reflexivity).
    assert (vl b = 1 + (if e then 1 else 0))%Z as Hvb.
    { unfold b. destruct e; [change (" " +:+ " ") with (spaces 2)|change (" " +:+ "") with (spaces 1)];
        rewrite (vl_spaces rw); reflexivity. }
    set (P := if show then "" +:+ conn +:+ " " else "").
    assert (plain P ∧ vl P = (if show then 2 else 0)%Z) as [HP HvP].
    { unfold P. destruct show; [|split; [apply plain_nil|reflexivity]].
      change ("" +:+ conn +:+ " ") with (conn +:+ " ").
      split; [apply plain_app; [exact Hc|apply (plain_spaces 1)]|].
      rewrite (vl_app rw) by (try exact Hc; apply (plain_spaces 1)). change " " with (spaces 1).
      rewrite (vl_spaces rw). lia. }
    split; [apply plain_app; [exact HP|apply plain_app; assumption]|]. split.
    - apply ends_space_app; [exact HP|apply plain_app; assumption|]. apply ends_space_app; assumption.
    - rewrite !(vl_app rw) by (repeat first [assumption|apply plain_app]). lia.
  Qed.

  Theorem row_layout all ready epic r :
    texts_plain → (14 ≤ w)%Z → r ∈ rows_s all ready epic → row_result r = false →
    ∃ body, row_text r = body +:+ row_item r
            ∧ vl body = (w - 8)%Z              (* the id starts at column w - 8 *)
            ∧ vl (row_text r) = (w - 2)%Z      (* the row is exactly w - 2 columns wide *)
            ∧ String.length (row_item r) = 6.
  Proof.
    intros Htx Hw Hr Hres. unfold list_rows_s in Hr.
    apply in_render_roots in Hr as (t & l & root & p & Hat & [->|Hr]).
    2:{ apply result_rows_result in Hr as [Hr _]. congruence. }
    destruct (item_at_ok g _ _ _ _ _ (list_roots_ok g Hok all ready epic) Hat) as [(i & Hi) Hkid].
    destruct (Htx i t Hi) as (Hida & Hidl & Htt & Htc).
    cbn [row_text row_item item_row].
    set (conn := if l then g_corner else g_tee).
    assert (plain conn ∧ vl conn = 1%Z) as [Hpc Hvc].
    { unfold conn. destruct l; [split; [apply plain_corner|apply (vl_corner rw)]|split; [apply plain_tee|apply (vl_tee rw)]]. }
    destruct (state_icon_ok t (is_ready g t)) as (Hpi & Hvi & Hine).
    destruct (base_facts conn (negb root) (t_is_epic t) _ Hpc Hvc Hpi Hvi Hine) as (Hpb & Hes & Hvb).
    assert (plain (blocker_info g t p).1) as Hpbl.
    { apply blocker_info_text.
      - apply plain_nil.
      - apply plain_app.
      - apply plain_ascii.
      - apply plain_hourglass.
      - intros j o Ho. apply abbreviate_plain. apply (Htx j o Ho). }
    assert (Forall plain (anns_of t)) as Hpa.
    { unfold anns_of. destruct (String.eqb (t_claimed t) ""); [constructor|].
      constructor; [|constructor]. apply plain_app; [|exact Htc].
      apply plain_ascii. unfold ascii_str. vm_compute. repeat constructor; discriminate. }
    destruct (format_tree_line_layout rw w "" conn (negb root) (state_icon t (is_ready g t)) (t_id t) (t_title t)
                (anns_of t) (blocker_info g t p).1 (t_is_epic t)
                plain_nil Hpc Hpi Htt Hpa Hpbl Hida) as (body & Hrow & Hpbody & Hvbody & _ & Hvrow).
    - rewrite Hidl. lia.
    - unfold title_sep. rewrite Hes. rewrite Hvb. change (vl "") with 0%Z.
      unfold id_start. rewrite Hidl.
      destruct root; cbn [negb].
      + destruct (t_is_epic t); lia.
      + rewrite (Hkid eq_refl). lia.
    - exists body. rewrite Hidl in *. split; [exact Hrow|]. split; [rewrite Hvbody; lia|]. split; [exact Hvrow|reflexivity].
  Qed.

  (** the lines of [list --epics] obey the same layout (from width 13) *)
  Theorem epics_row_layout e :
    texts_plain → (13 ≤ w)%Z → is_live g e →
    let line := format_tree_line rw w "" "" false (state_icon e false) (t_id e) (t_title e) [] "" (t_is_epic e) in
    ∃ body, line = body +:+ t_id e ∧ vl body = (w - 8)%Z ∧ vl line = (w - 2)%Z.
  Proof.
    intros Htx Hw (i & Hi). cbn zeta.
    destruct (Htx i e Hi) as (Hida & Hidl & Htt & Htc).
    destruct (state_icon_ok e false) as (Hpi & Hvi & Hine).
    destruct (base_facts g_tee false (t_is_epic e) _ plain_tee (vl_tee rw) Hpi Hvi Hine) as (Hpb & Hes & Hvb).
    change (format_tree_line rw w "" "" false (state_icon e false) (t_id e) (t_title e) [] "" (t_is_epic e))
      with (format_tree_line rw w "" g_tee false (state_icon e false) (t_id e) (t_title e) [] "" (t_is_epic e)).
    destruct (format_tree_line_layout rw w "" g_tee false (state_icon e false) (t_id e) (t_title e)
                [] "" (t_is_epic e) plain_nil plain_tee Hpi Htt ltac:(constructor) plain_nil Hida)
      as (body & Hrow & _ & Hvbody & _ & Hvrow).
    - rewrite Hidl. lia.
    - unfold title_sep. rewrite Hes, Hvb. change (vl "") with 0%Z. unfold id_start. rewrite Hidl.
      destruct (t_is_epic e); lia.
    - exists body. rewrite Hidl in *. split; [exact Hrow|]. split; [rewrite Hvbody; lia|exact Hvrow].
  Qed.

  (** ** 8. rows are valid UTF-8 *)
  Definition texts_valid : Prop :=
    valid_utf8 repo ∧
    ∀ i t, g_tasks g !! i = Some t →
      valid_utf8 (t_id t) ∧ valid_utf8 (t_title t) ∧ valid_utf8 (t_claimed t)
      ∧ Forall (λ r, valid_utf8 (r_path r)) (t_results t).

  Lemma valid_ascii s : ascii_str s → valid_utf8 s.
  Proof. intros H. apply plain_valid, plain_ascii, H. Qed.

  Theorem rows_valid_utf8 all ready epic s :
    texts_valid → s ∈ list_rows rw g w repo all ready epic → valid_utf8 s.
  Proof.
    intros [Hrepo Htx] Hs. unfold list_rows in Hs. apply elem_of_list_fmap in Hs as (r & -> & Hr).
    unfold list_rows_s in Hr. apply in_render_roots in Hr as (t & l & root & p & Hat & Hr).
    destruct (item_at_ok g _ _ _ _ _ (list_roots_ok g Hok all ready epic) Hat) as [(i & Hi) _].
    destruct (Htx i t Hi) as (Hvid & Hvt & Hvc & Hvr).
    destruct Hr as [->|Hr].
    - cbn [row_text item_row]. apply format_tree_line_valid; try assumption.
      + apply valid_nil.
      + destruct l; [apply (valid_of_runes [9492%N])|apply (valid_of_runes [9500%N])].
      + apply plain_valid, state_icon_ok.
      + unfold anns_of. destruct (String.eqb (t_claimed t) ""); [constructor|]. constructor; [|constructor].
        apply valid_utf8_app; [|exact Hvc]. apply valid_ascii. unfold ascii_str. vm_compute. repeat constructor; discriminate.
      + apply blocker_info_text.
        * apply valid_nil.
        * apply valid_utf8_app.
        * apply valid_ascii.
        * apply (valid_of_runes [10711%N]).
        * intros j o Ho. apply abbreviate_valid. apply (Htx j o Ho).
    - unfold result_rows in Hr. destruct (done_or_canceled _); [|inversion Hr].
      destruct (t_results t) as [|latest ?]; [inversion Hr|]. apply elem_of_list_singleton in Hr. subst r.
      cbn [row_text]. unfold format_result_line, file_url.
      apply Forall_cons in Hvr as [Hvp _].
      assert (∀ s, ascii_str s → valid_utf8 s) as Ha by apply valid_ascii.
      repeat apply valid_utf8_app; try assumption.
      + destruct root; [apply (valid_spaces 2)|]. destruct l; [apply (valid_spaces 2)|].
        apply valid_utf8_app; [apply (valid_of_runes [9474%N])|apply (valid_spaces 1)].
      + apply (valid_spaces 2).
      + apply (valid_of_runes [8594%N]).
      + apply (valid_spaces 1).
      + apply Ha. unfold ascii_str. vm_compute. repeat constructor; discriminate.
      + apply Ha. unfold ascii_str. vm_compute. repeat constructor; discriminate.
  Qed.
End c19_rows.

(** * 5 and 6: summary counts and empty-state sentences of RunList *)
Section c19_output.
  Context (rw : N → nat) {Hrw : RwOk rw}.
  Variable g : graph.
  Hypothesis Hok : G_ok g.
  Variable w : Z.
  Variable repo : string.

  Notation rows_s := (list_rows_s rw g w repo).

  (** ** 5. the numbers of the summary line *)
  Lemma count_bucket_spec b ts :
    count_bucket g b ts = length (filter (λ t, t_is_epic t = false ∧ bucket_of g t = b) ts).
  Proof. reflexivity. Qed.

  (** which bucket a task is counted in (todo-but-not-ready counts as blocked) *)
  Lemma bucket_of_spec t :
    (bucket_of g t = BReady ↔ t_state t = "todo" ∧ is_ready g t = true)
    ∧ (bucket_of g t = BInProgress ↔ t_state t = "doing")
    ∧ (bucket_of g t = BError ↔ t_state t = "error")
    ∧ (bucket_of g t = BDone ↔ t_state t = "done")
    ∧ (bucket_of g t = BCanceled ↔ t_state t = "canceled")
    ∧ (bucket_of g t = BBlocked ↔
         t_state t = "blocked" ∨ (t_state t = "todo" ∧ is_ready g t = false)
         ∨ (t_state t ≠ "done" ∧ t_state t ≠ "canceled" ∧ t_state t ≠ "error" ∧ t_state t ≠ "doing"
            ∧ t_state t ≠ "blocked" ∧ t_state t ≠ "todo")).
  Proof.
    unfold bucket_of.
    destruct (String.eqb_spec (t_state t) "done") as [E|H1];
      [rewrite E; intuition (try discriminate; try congruence)|].
    destruct (String.eqb_spec (t_state t) "canceled") as [E|H2];
      [rewrite E; intuition (try discriminate; try congruence)|].
    destruct (String.eqb_spec (t_state t) "error") as [E|H3];
      [rewrite E; intuition (try discriminate; try congruence)|].
    destruct (String.eqb_spec (t_state t) "doing") as [E|H4];
      [rewrite E; intuition (try discriminate; try congruence)|].
    destruct (String.eqb_spec (t_state t) "blocked") as [E|H5];
      [rewrite E; intuition (try discriminate; try congruence)|].
    destruct (String.eqb_spec (t_state t) "todo") as [E|H6].
    - rewrite E. destruct (is_ready g t); intuition (try discriminate; try congruence).
    - intuition (try discriminate; try congruence).
  Qed.

  Lemma summary_parts_spec ts bs s :
    s ∈ summary_parts g ts bs ↔
    ∃ b, b ∈ bs ∧ count_bucket g b ts ≠ 0 ∧ s = pretty (count_bucket g b ts) +:+ " " +:+ bucket_label b.
  Proof.
    unfold summary_parts. rewrite elem_of_list_omap. split.
    - intros (b & Hb & H). exists b. split; [exact Hb|].
      destruct (Nat.eqb_spec (count_bucket g b ts) 0); [discriminate|]. injection H as <-. split; [assumption|reflexivity].
    - intros (b & Hb & Hc & ->). exists b. split; [exact Hb|].
      destruct (Nat.eqb_spec (count_bucket g b ts) 0); [contradiction|reflexivity].
  Qed.

  (** every non-epic task of the scope is counted in exactly one of the six buckets *)
  Lemma count_sum ts :
    count_bucket g BReady ts + count_bucket g BInProgress ts + count_bucket g BBlocked ts
    + count_bucket g BError ts + count_bucket g BDone ts + count_bucket g BCanceled ts
    = length (filter (λ t, t_is_epic t = false) ts).
  Proof.
    unfold count_bucket. induction ts as [|t ts IH]; [reflexivity|].
    rewrite !filter_cons.
    destruct (t_is_epic t).
    - repeat (destruct (decide _) as [[? ?]|?]; [discriminate|]). destruct (decide (true = false)); [discriminate|].
      exact IH.
    - destruct (decide (false = false)) as [_|?]; [|contradiction].
      destruct (bucket_of g t);
        repeat (destruct (decide _) as [[? ?]|?]; try discriminate; try (exfalso; tauto)); cbn [length]; lia.
  Qed.

  (** scope and buckets of the summary, per flag combination (RunList) *)
  Inductive scope_spec : mode → list task → list bucket → Prop :=
  | ss_all : scope_spec MAll (non_epic_tasks g) all6
  | ss_default : scope_spec MDefault (active_tasks g) [BReady; BInProgress; BBlocked; BError]
  | ss_default_none : scope_spec MDefault (non_epic_tasks g) [BDone; BCanceled]
  | ss_ready : scope_spec MReady (ready_list g (non_epic_tasks g)) [BReady]
  | ss_ready_none : scope_spec MReady (active_tasks g) [BInProgress; BBlocked; BError]
  | ss_epic e : scope_spec (MEpic e) (kids_of g e) all6
  | ss_epic_ready e : scope_spec (MEpicReady e) (ready_list g (kids_of g e)) [BReady]
  | ss_epic_ready_none e : scope_spec (MEpicReady e) (kids_of g e) [BInProgress; BBlocked; BError].

  (** no summary line is printed only when the scope holds no task at all (or for --epics) *)
  Definition no_summary (m : mode) : Prop :=
    match m with
    | MDefault | MAll | MReady => non_epic_tasks g = []
    | MEpic e | MEpicReady e => kids_of g e = []
    | MEpics => True
    end.

  Theorem summary_counts m out :
    list_output rw g w repo m = Some out →
    (∃ pre scope bs sp, out = pre ++ summary g scope bs sp ∧ scope_spec m scope bs)
    ∨ no_summary m.
  Proof.
    intros H. destruct m; cbn [list_output no_summary] in *.
    - destruct (non_epic_tasks g) eqn:E1; [right; reflexivity|].
      rewrite <- E1 in *. destruct (active_tasks g) eqn:E2; injection H as <-; left.
      * exists ["No active tasks."], (non_epic_tasks g), [BDone; BCanceled], false. split; [reflexivity|constructor].
      * rewrite <- E2. eexists _, _, _, _. split; [reflexivity|constructor].
    - destruct (non_epic_tasks g) eqn:E1; [right; reflexivity|]. injection H as <-.
      left. rewrite <- E1. eexists _, _, _, _. split; [reflexivity|constructor].
    - destruct (non_epic_tasks g) eqn:E1; [right; reflexivity|]. rewrite <- E1 in *.
      destruct (ready_list g (non_epic_tasks g)) eqn:E2; injection H as <-; left.
      + exists ["No ready tasks."], (active_tasks g), [BInProgress; BBlocked; BError], false.
        split; [reflexivity|constructor].
      + rewrite <- E2. eexists _, _, _, _. split; [reflexivity|constructor].
    - destruct (negb (is_live_epic g e)); [discriminate|]. injection H as <-.
      destruct (kids_of g e) eqn:E1; [right; reflexivity|].
      left. rewrite <- E1. eexists _, _, _, _. split; [reflexivity|constructor].
    - destruct (negb (is_live_epic g e)); [discriminate|]. injection H as <-.
      destruct (kids_of g e) eqn:E1; [right; reflexivity|].
      rewrite <- E1. left. destruct (ready_list g (kids_of g e)) eqn:E2.
      + exists (list_rows rw g w repo false true e ++ ["No ready tasks in this epic."]), (kids_of g e),
          [BInProgress; BBlocked; BError], false.
        split; [rewrite <- app_assoc; reflexivity|constructor].
      + rewrite <- E2. eexists _, _, _, _. split; [reflexivity|constructor].
    - right. exact I.
  Qed.

  (** the summary line itself: one "N label" part per non-empty bucket, joined by " · " *)
  Lemma summary_spec ts bs sp :
    summary g ts bs sp =
    match summary_parts g ts bs with
    | [] => []
    | parts => (if sp then [""] else []) ++ [sjoin sep_dot parts]
    end.
  Proof. reflexivity. Qed.

  (** ** 6. an empty view prints its documented sentence *)
  Definition sentences : list string :=
    ["No tasks."; "No ready tasks."; "No active tasks."; "No tasks in this epic.";
     "No ready tasks in this epic."; "No epics."].

  Definition flags_of (m : mode) : bool * bool * string :=
    match m with
    | MDefault => (false, false, "") | MAll => (true, false, "") | MReady => (false, true, "")
    | MEpic e => (false, false, e) | MEpicReady e => (false, true, e) | MEpics => (false, false, "")
    end.

  Lemma render_roots_nonempty ns :
    ns ≠ [] → ∃ r rest, render_roots rw g w repo ns = r :: rest.
  Proof.
    destruct ns as [|[t kids] rest]; [congruence|]. intros _. cbn [render_roots].
    rewrite render_item_eq. eexists _, _. reflexivity.
  Qed.

  Lemma rows_nonempty all ready epic :
    list_roots g all ready epic ≠ [] →
    ∃ r rest, list_rows rw g w repo all ready epic = row_text r :: rest ∧ r ∈ rows_s all ready epic.
  Proof.
    intros H. unfold list_rows, list_rows_s. destruct (render_roots_nonempty _ H) as (r & rest & E).
    rewrite E. exists r, (row_text <$> rest). split; [reflexivity|left].
  Qed.

  Lemma items_nonempty_roots i ns : i ∈ items ns → ns ≠ [].
  Proof. intros H ->. inversion H. Qed.

  Lemma non_epic_live t : t ∈ non_epic_tasks g → is_live g t ∧ t_is_epic t = false.
  Proof. unfold non_epic_tasks. rewrite elem_of_list_filter, elem_of_all_tasks. tauto. Qed.

  Theorem empty_sentence m out :
    list_output rw g w repo m = Some out →
    (∃ s rest, out = s :: rest ∧ s ∈ sentences)
    ∨ (let '(a, r, e) := flags_of m in
       m ≠ MEpics ∧ ∃ x rest, out = row_text x :: rest ∧ x ∈ rows_s a r e)
    ∨ (m = MEpics ∧ ∃ e rest, out = format_tree_line rw w "" "" false (state_icon e false) (t_id e) (t_title e) [] ""
                                      (t_is_epic e) :: rest ∧ is_live g e ∧ t_is_epic e = true).
  Proof.
    intros H. destruct m; cbn [list_output flags_of] in *.
    - (* default *)
      destruct (non_epic_tasks g) as [|t0 ts] eqn:E1.
      + destruct (list_roots g false false "") eqn:E2; injection H as <-.
        * left. eexists _, _. split; [reflexivity|]. unfold sentences. rewrite !elem_of_cons. tauto.
        * right. left. split; [discriminate|].
          destruct (rows_nonempty false false "") as (x & rest & -> & Hx); [rewrite E2; discriminate|].
          eexists _, _. split; [reflexivity|exact Hx].
      + rewrite <- E1 in *. destruct (active_tasks g) as [|t1 ts1] eqn:E2; injection H as <-.
        * left. eexists _, _. split; [reflexivity|]. unfold sentences. rewrite !elem_of_cons. tauto.
        * right. left. split; [discriminate|].
          assert (t1 ∈ active_tasks g) as Ht1 by (rewrite E2; left).
          unfold active_tasks in Ht1. apply elem_of_list_filter in Ht1 as [Hopen Ht1].
          apply non_epic_live in Ht1 as [Hl Hne]. apply (live_key g Hok) in Hl.
          destruct (default_active_once rw g Hok w repo) as [_ Hin]. specialize (Hin _ _ Hl Hne Hopen).
          rewrite (list_rows_s_items rw g w repo) in Hin. apply items_nonempty_roots in Hin.
          destruct (rows_nonempty false false "" Hin) as (x & rest & -> & Hx).
          eexists _, _. split; [reflexivity|exact Hx].
    - (* --all *)
      destruct (non_epic_tasks g) as [|t0 ts] eqn:E1; [destruct (list_roots g true false "") eqn:E2|]; injection H as <-.
      + left. eexists _, _. split; [reflexivity|]. unfold sentences. rewrite !elem_of_cons. tauto.
      + right. left. split; [discriminate|].
        destruct (rows_nonempty true false "") as (x & rest & -> & Hx); [rewrite E2; discriminate|].
        eexists _, _. split; [reflexivity|exact Hx].
      + right. left. split; [discriminate|].
        assert (t0 ∈ non_epic_tasks g) as Ht0 by (rewrite E1; left). apply non_epic_live in Ht0 as [Hl Hne].
        apply (live_key g Hok) in Hl.
        assert (t_id t0 ∈ items (list_roots g true false "")) as Hin.
        { rewrite <- (list_rows_s_items rw g w repo). rewrite (all_complete rw g Hok w repo).
          apply elem_of_list_fmap. exists (t_id t0, t0). split; [reflexivity|]. apply elem_of_map_to_list, Hl. }
        apply items_nonempty_roots in Hin.
        destruct (rows_nonempty true false "" Hin) as (x & rest & -> & Hx).
        eexists _, _. split; [reflexivity|exact Hx].
    - (* --ready *)
      destruct (non_epic_tasks g) as [|t0 ts] eqn:E1.
      { injection H as <-. left. eexists _, _. split; [reflexivity|]. unfold sentences. rewrite !elem_of_cons. tauto. }
      rewrite <- E1 in *. destruct (ready_list g (non_epic_tasks g)) as [|t1 ts1] eqn:E2; injection H as <-.
      + left. eexists _, _. split; [reflexivity|]. unfold sentences. rewrite !elem_of_cons. tauto.
      + right. left. split; [discriminate|].
        assert (t1 ∈ ready_list g (non_epic_tasks g)) as Ht1 by (rewrite E2; left).
        unfold ready_list in Ht1. apply elem_of_list_filter in Ht1 as [Hr Ht1].
        apply non_epic_live in Ht1 as [Hl Hne]. apply (live_key g Hok) in Hl.
        destruct (ready_exact rw g Hok w repo) as (_ & Hin & _). apply (Hin _ _ Hl Hne) in Hr.
        rewrite (list_rows_s_items rw g w repo) in Hr. apply items_nonempty_roots in Hr.
        destruct (rows_nonempty false true "" Hr) as (x & rest & -> & Hx).
        eexists _, _. split; [reflexivity|exact Hx].
    - (* --epic e *)
      destruct (is_live_epic g e) eqn:Ee; [|discriminate]. cbn [negb] in H. injection H as <-.
      right. left. split; [discriminate|].
      destruct (rows_nonempty false false e) as (x & rest & -> & Hx).
      { unfold list_roots, is_live_epic in *. destruct (String.eqb_spec e "") as [->|Hne].
        - destruct (g_tasks g !! "") eqn:E0; [|discriminate]. exfalso. apply (ok_nonempty g Hok _ E0).
        - destruct (g_tasks g !! e); [|discriminate]. rewrite Ee. discriminate. }
      eexists _, _. split; [reflexivity|exact Hx].
    - destruct (is_live_epic g e) eqn:Ee; [|discriminate]. cbn [negb] in H. injection H as <-.
      right. left. split; [discriminate|].
      destruct (rows_nonempty false true e) as (x & rest & -> & Hx).
      { unfold list_roots, is_live_epic in *. destruct (String.eqb_spec e "") as [->|Hne].
        - destruct (g_tasks g !! "") eqn:E0; [|discriminate]. exfalso. apply (ok_nonempty g Hok _ E0).
        - destruct (g_tasks g !! e); [|discriminate]. rewrite Ee. discriminate. }
      eexists _, _. split; [reflexivity|exact Hx].
    - (* --epics *)
      destruct (epics_by_creation g) as [|e0 es] eqn:E; injection H as <-.
      + left. eexists _, _. split; [reflexivity|]. unfold sentences. rewrite !elem_of_cons. tauto.
      + right. right. split; [reflexivity|]. exists e0, ((λ e, format_tree_line rw w "" "" false (state_icon e false) (t_id e)
                                                     (t_title e) [] "" (t_is_epic e)) <$> es).
        split; [reflexivity|].
        assert (e0 ∈ epics_by_creation g) as He by (rewrite E; left).
        unfold epics_by_creation in He. rewrite merge_sort_Permutation in He.
        apply elem_of_list_filter in He as [He Hl]. apply elem_of_all_tasks in Hl. split; assumption.
  Qed.
End c19_output.

(** * Examples: a concrete store, rows as printed by the real tool
      (verif-rpc [tree] / [ergo list], go-runewidth widths: CJK = 2). *)
Definition ex_rw (r : N) : nat :=
  if ((12288 <=? r) && (r <=? 40959))%N then 2 else if (r <? 32)%N then 0 else 1.

Global Instance ex_rw_ok : RwOk ex_rw.
Proof.
  split; try reflexivity.
  - intros r. unfold ex_rw. repeat case_match; lia.
  - intros r Hr. unfold ex_rw.
    destruct (N.leb_spec 12288 r); [lia|]. destruct (N.ltb_spec r 32); [lia|]. reflexivity.
Qed.

Definition ex_events : list event :=
  [ENew true "EPIC01" "u-EPIC01" "" "todo" "Release 2.0" "" (Some 1790000000000000000%Z);
   ENew true "EPIC02" "u-EPIC02" "" "todo" "日本語のエピック" "" (Some 1790000001000000000%Z);
   ENew false "TASK01" "u-TASK01" "EPIC01" "todo" "Write the changelog" "" (Some 1790000002000000000%Z);
   ENew false "TASK02" "u-TASK02" "EPIC01" "todo" "Tag the release" "" (Some 1790000003000000000%Z);
   ENew false "TASK03" "u-TASK03" "EPIC01" "done" "Announce on the mailing list and the blog, then update the website" "" (Some 1790000004000000000%Z);
   ENew false "TASK04" "u-TASK04" "EPIC02" "todo" "翻訳を確認する" "" (Some 1790000005000000000%Z);
   ENew false "TASK05" "u-TASK05" "" "todo" "Fix login" "" (Some 1790000006000000000%Z);
   ENew false "TASK06" "u-TASK06" "" "canceled" "Old idea" "" (Some 1790000007000000000%Z);
   ENew false "TASK07" "u-TASK07" "EPIC02" "todo" "Ship it" "" (Some 1790000008000000000%Z);
   ELink "TASK02" "TASK01" "depends";
   ELink "EPIC02" "EPIC01" "depends";
   EClaim "TASK04" "alice" (Some 1790000010000000000%Z);
   EState "TASK04" "doing" (Some 1790000010000000000%Z);
   EResult "TASK03" "sent" "out/announce.txt" "abababababababababababababababababababababababababababababababab" "" "" (Some 1790000011000000000%Z)].

Example ex_default_40 :
  (match replay ex_events with Ok g => list_rows ex_rw g 40 "/r" false false "" | Err _ => [] end)
  = ["○ Fix login                     TASK05";
     "Ⓔ  Release 2.0                  EPIC01";
     "├ ○ Write the changelog         TASK01";
     "├ · Tag the release   ⧗ Wri…    TASK02";
     "└ ✓ Announce on the mailing…    TASK03";
     "    → file:///r/out/announce.txt";
     "Ⓔ  日本語のエピック   ⧗ Rel…    EPIC02";
     "├ ◐ 翻訳を確認する  @alice      TASK04";
     "└ · Ship it                     TASK07"].
Proof. vm_compute. reflexivity. Qed.

Example ex_all_80 :
  (match replay ex_events with Ok g => list_rows ex_rw g 80 "/r" true false "" | Err _ => [] end)
  = ["○ Fix login                                                             TASK05";
     "✗ Old idea                                                              TASK06";
     "Ⓔ  Release 2.0                                                          EPIC01";
     "├ ○ Write the changelog                                                 TASK01";
     "├ · Tag the release                         ⧗ Write the changelog       TASK02";
     "└ ✓ Announce on the mailing list and the blog, then update the webs…    TASK03";
     "    → file:///r/out/announce.txt";
     "Ⓔ  日本語のエピック                         ⧗ Release 2.0               EPIC02";
     "├ ◐ 翻訳を確認する  @alice                                              TASK04";
     "└ · Ship it                                                             TASK07"].
Proof. vm_compute. reflexivity. Qed.

Example ex_ready_40 :
  (match replay ex_events with Ok g => list_rows ex_rw g 40 "/r" false true "" | Err _ => [] end)
  = ["○ Fix login                     TASK05";
     "Ⓔ  Release 2.0                  EPIC01";
     "└ ○ Write the changelog         TASK01"].
Proof. vm_compute. reflexivity. Qed.

Example ex_epic_60 :
  (match replay ex_events with Ok g => list_rows ex_rw g 60 "/r" false false "EPIC02" | Err _ => [] end)
  = ["Ⓔ  日本語のエピック              ⧗ Release 2.0      EPIC02";
     "├ ◐ 翻訳を確認する  @alice                          TASK04";
     "└ · Ship it                                         TASK07"].
Proof. vm_compute. reflexivity. Qed.

Example ex_out_ready :
  (match replay ex_events with Ok g => list_output ex_rw g 80 "/r" MReady | Err _ => None end)
  = Some ["○ Fix login                                                             TASK05";
     "Ⓔ  Release 2.0                                                          EPIC01";
     "└ ○ Write the changelog                                                 TASK01";
     "";
     "2 ready"].
Proof. vm_compute. reflexivity. Qed.

Example ex_out_epics :
  (match replay ex_events with Ok g => list_output ex_rw g 80 "/r" MEpics | Err _ => None end)
  = Some ["Ⓔ  Release 2.0                                                          EPIC01";
     "Ⓔ  日本語のエピック                                                     EPIC02"].
Proof. vm_compute. reflexivity. Qed.

Example ex_out_epic_ready :
  (match replay ex_events with Ok g => list_output ex_rw g 80 "/r" (MEpicReady "EPIC01") | Err _ => None end)
  = Some ["Ⓔ  Release 2.0                                                          EPIC01";
     "└ ○ Write the changelog                                                 TASK01";
     "";
     "1 ready"].
Proof. vm_compute. reflexivity. Qed.

(** the general theorems instantiated on the example store *)
Example ex_layout_instance :
  ∀ g, replay ex_events = Ok g → G_ok g → texts_plain g →
  ∀ r, r ∈ list_rows_s ex_rw g 40 "/r" false false "" → row_result r = false →
  Layout.vl ex_rw (row_text r) = 38%Z.
Proof.
  intros g _ Hok Htx r Hr Hres.
  destruct (row_layout ex_rw g Hok 40 "/r" false false "" r Htx ltac:(lia) Hr Hres) as (_ & _ & _ & H & _). exact H.
Qed.

Print Assumptions topo_sort_perm_irrel.
Print Assumptions topo_sort_complete.
Print Assumptions topo_fuel_enough.
Print Assumptions all_complete.
Print Assumptions default_active_once.
Print Assumptions ready_exact.
Print Assumptions glyphs.
Print Assumptions kids_under_own_epic.
Print Assumptions summary_counts.
Print Assumptions count_sum.
Print Assumptions bucket_of_spec.
Print Assumptions empty_sentence.
Print Assumptions format_tree_line_layout.
Print Assumptions row_layout.
Print Assumptions epics_row_layout.
Print Assumptions rows_valid_utf8.
Print Assumptions decode_encode.
Print Assumptions ex_all_80.
