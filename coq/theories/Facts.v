(** Facts.v — small user-facing lemmas about single transactions and replay
    used by the property files (C07 mirror, C09 gone-for-good, C14 rejection). *)
From Ergo Require Import Base Text Events Replay Ready Compact Path Cmd Input Graphs TextFacts Invariants.
Local Open Scope string_scope.
Local Open Scope list_scope.

(** * deps / rdeps mirror each other *)
Lemma elem_of_sort_strings x l : x ∈ sort_strings l <-> x ∈ l.
Proof. unfold sort_strings. rewrite merge_sort_Permutation. reflexivity. Qed.

Lemma deps_of_spec g a b : b ∈ deps_of g a <-> (a, b) ∈ g_deps g.
Proof.
  unfold deps_of. rewrite elem_of_sort_strings, elem_of_list_fmap. split.
  - intros ([x y] & -> & Hin). apply elem_of_list_filter in Hin as [Hx Hin]. cbn in Hx. subst.
    apply elem_of_elements in Hin. exact Hin.
  - intros Hin. exists (a, b). split; [reflexivity|]. apply elem_of_list_filter. split; [reflexivity|].
    apply elem_of_elements. exact Hin.
Qed.
Lemma rdeps_of_spec g a b : a ∈ rdeps_of g b <-> (a, b) ∈ g_deps g.
Proof.
  unfold rdeps_of. rewrite elem_of_sort_strings, elem_of_list_fmap. split.
  - intros ([x y] & -> & Hin). apply elem_of_list_filter in Hin as [Hy Hin]. cbn in Hy. subst.
    apply elem_of_elements in Hin. exact Hin.
  - intros Hin. exists (a, b). split; [reflexivity|]. apply elem_of_list_filter. split; [reflexivity|].
    apply elem_of_elements. exact Hin.
Qed.
Lemma deps_rdeps_mirror g a b : b ∈ deps_of g a <-> a ∈ rdeps_of g b.
Proof. rewrite deps_of_spec, rdeps_of_spec. reflexivity. Qed.

(** * A tombstoned id is gone for good, whatever the event order *)
Definition gone (p : string) (g : graph) : Prop :=
  g_tasks g !! p = None /\ forall a b, (a, b) ∈ g_deps g -> a <> p /\ b <> p.

Lemma apply_event_tombs_mono g e g' p : apply_event g e = Ok g' -> p ∈ g_tombs g -> p ∈ g_tombs g'.
Proof.
  intros H Hin.
  destruct e as [k i uu ep st ti bo [ts|] | j s [ts|] | j a [ts|] | j | a b ty | a b ty | j ti [ts|] | j b [ts|] | j ep [ts|]
                 | j ag [ts|] | j su pa sha mt gi [ts|] | |]; cbn in H; unfold on_item in H;
    repeat match type of H with
    | context [if ?c then _ else _] => destruct c
    | context [match g_tasks g !! ?i with _ => _ end] => destruct (g_tasks g !! i)
    end; try discriminate; injection H as <-; cbn; try done; set_solver.
Qed.

Lemma apply_event_gone g e g' p :
  apply_event g e = Ok g' -> p ∈ g_tombs g -> gone p g -> gone p g'.
Proof.
  intros H Hin [Hnone Hed].
  assert (Ht : tombed g p = true) by (apply tombed_true; exact Hin).
  destruct e as [k i uu ep st ti bo [ts|] | j s [ts|] | j a [ts|] | j | a b ty | a b ty | j ti [ts|] | j b [ts|] | j ep [ts|]
                 | j ag [ts|] | j su pa sha mt gi [ts|] | |]; cbn in H; unfold on_item in H;
    try (injection H as <-; split; assumption); try discriminate;
    try (match type of H with
         | context [tombed g ?x] =>
           destruct (tombed g x) eqn:Htj; [injection H as <-; split; assumption|];
           destruct (g_tasks g !! x) eqn:Hlj;
           first [ discriminate
                 | injection H as <-;
                   first [ split; assumption
                         | split; [|exact Hed]; cbn; rewrite lookup_alter_ne; [exact Hnone|]; intros ->; congruence ] ]
         end).
  (* ENew *)
  - destruct (tombed g i) eqn:Hti; [injection H as <-; split; assumption|].
    destruct (g_tasks g !! i) eqn:Hli; [discriminate|]. injection H as <-. split; [|exact Hed]. cbn.
    rewrite lookup_insert_ne; [exact Hnone|]. intros ->. rewrite Ht in Hti. discriminate.
  (* link *)
  - destruct (tombed g a || tombed g b || negb (String.eqb ty depends))%bool eqn:Hc; injection H as <-; [split; assumption|].
    apply orb_false_elim in Hc as [Hc _]. apply orb_false_elim in Hc as [Ha Hb].
    split; [exact Hnone|]. cbn. intros x y Hxy. apply elem_of_union in Hxy as [Hxy|Hxy]; [|apply Hed; exact Hxy].
    apply elem_of_singleton in Hxy. injection Hxy as -> ->. split; intros ->; congruence.
  (* unlink *)
  - destruct (tombed g a || tombed g b || negb (String.eqb ty depends))%bool; injection H as <-; [split; assumption|].
    split; [exact Hnone|]. cbn. intros x y Hxy. apply Hed. set_solver.
  (* tombstone *)
  - injection H as <-. split; cbn.
    + destruct (decide (j = p)) as [->|Hne]; [apply lookup_delete|]. rewrite lookup_delete_ne by done. exact Hnone.
    + intros x y Hxy. apply elem_of_filter in Hxy as [_ Hxy]. apply Hed. exact Hxy.
Qed.

Lemma apply_tombstone_gone g p : gone p (apply_tombstone g p) /\ p ∈ g_tombs (apply_tombstone g p).
Proof.
  split; [split|]; cbn.
  - apply lookup_delete.
  - intros a b Hab. apply elem_of_filter in Hab as [[Ha Hb] _]. cbn in *. done.
  - set_solver.
Qed.

Lemma replay_from_gone es : forall g g' p,
  replay_from g es = Ok g' -> p ∈ g_tombs g -> gone p g -> gone p g' /\ p ∈ g_tombs g'.
Proof.
  induction es as [|e es IH]; intros g g' p H Hin Hg; cbn in H.
  - injection H as <-. done.
  - unfold replay_from in H. cbn in H. destruct (apply_event g e) as [g1|] eqn:He; [|discriminate].
    apply (IH g1 g' p H); [eapply apply_event_tombs_mono; eauto|eapply apply_event_gone; eauto].
Qed.

(** The C09 statement: a log that contains a tombstone of [p] anywhere replays to a graph without
    [p] — no event order and no later event brings it back. *)
Theorem tombstoned_gone es1 ag ts es2 g p :
  replay_raw (es1 ++ ETomb p ag (Some ts) :: es2) = Ok g ->
  gone p g /\ p ∈ g_tombs g.
Proof.
  unfold replay_raw. rewrite replay_from_app. destruct (replay_from empty_graph es1) as [g1|] eqn:H1; [|discriminate].
  cbn [rbind]. unfold replay_from at 1. cbn [foldM apply_event].
  intros H. destruct (apply_tombstone_gone g1 p) as [Hg Hin].
  apply (replay_from_gone es2 _ g p H Hin Hg).
Qed.

Lemma gone_finalize p g : gone p g -> gone p (finalize g).
Proof. intros [H1 H2]. split; [rewrite finalize_lookup, H1; reflexivity|exact H2]. Qed.

(** * Requests naming a bad epic or a pruned / unknown id are rejected *)
Lemma set_txn_target e i u agent g evs :
  set_txn e i u agent g = Some evs -> tombed g i = false /\ exists t, g_tasks g !! i = Some t.
Proof.
  unfold set_txn. destruct (result_req u) as [rq|]; [|discriminate].
  destruct rq as [[p s]|].
  - destruct (build_result_event e g i s p) as [ev|] eqn:Hb; [|discriminate].
    intros _. apply result_event_upd in Hb as (_ & _ & _ & Ht & t & Hl & _). eauto.
  - cbn [is_some andb]. destruct (tombed g i); [discriminate|]. destruct (g_tasks g !! i) as [t|]; [|discriminate]. eauto.
Qed.

Lemma set_txn_epic_ok e i u agent g evs ep t :
  set_txn e i u agent g = Some evs -> g_tasks g !! i = Some t -> u_epic u = Some ep -> ep <> "" ->
  t_is_epic t = false /\ exists et, g_tasks g !! ep = Some et /\ t_is_epic et = true.
Proof.
  unfold set_txn. intros H Hl Hu Hne.
  destruct (result_req u) as [rq|]; [|discriminate].
  destruct (match rq with Some (p, s) => _ | None => Some [] end) as [ev_res|]; [|discriminate].
  assert (Hnre : upd_nonresult_empty u = false).
  { unfold upd_nonresult_empty. rewrite Hu. cbn. rewrite !orb_true_r. reflexivity. }
  rewrite Hnre, andb_false_r in H. destruct (tombed g i); [discriminate|]. rewrite Hl in H.
  destruct (t_is_epic t && (is_some (u_state u) || is_some (u_claim u)))%bool eqn:Hes; [discriminate|].
  rewrite Hu in H. apply eqb_false in Hne. rewrite Hne in H. cbn [orb] in H.
  destruct (t_is_epic t) eqn:Hk.
  - cbn [negb] in H. destruct (build_set_events i t u agent (e_now e)) as [sevs|] eqn:Hb; [|discriminate].
    apply build_set_events_spec in Hb. destruct (ss_epic_item _ _ _ _ Hb Hk) as [_ Hno].
    + cbn in Hes. destruct (u_state u); [discriminate|reflexivity].
    + congruence.
  - split; [reflexivity|]. destruct (g_tasks g !! ep) as [et|]; [|discriminate].
    destruct (t_is_epic et) eqn:Hek; [|discriminate]. eauto.
Qed.

(** * New ids avoid live and pruned ids *)
Lemma new_txn_fresh e k title body epic u agent g evs i st :
  new_txn e k title body epic u agent g = Some (evs, RCreated i st) ->
  g_tasks g !! i = None /\ i ∉ g_tombs g.
Proof.
  unfold new_txn. destruct (negb _); [discriminate|].
  destruct (pick_id (e_ids e) (taken_in g [])) as [[j rest]|] eqn:Hp; [|discriminate].
  apply pick_id_fresh, taken_in_false in Hp as (Hf & Ht & _). apply tombed_false in Ht.
  intros H.
  assert (j = i) as <-.
  { repeat match type of H with
    | context [if ?c then _ else _] => destruct c
    | context [match ?x with _ => _ end] => destruct x eqn:?
    end; try discriminate; congruence. }
  done.
Qed.

(** * Text survives replay *)
Lemma migrate_nonblank t : is_blank (t_title t) = false -> migrate t = t.
Proof. unfold migrate. intros ->. reflexivity. Qed.
