(** Reach.v — every store reachable through any sequence of commands, under
    any environment oracle (clock, id stream, file system), satisfies the
    invariant bundle.  [Reach] is over logs; the graph is their replay. *)
From Ergo Require Import Base Text Events Replay Ready Compact Path Cmd Input Graphs TextFacts CompactCore Invariants PrunePlan.
Local Open Scope string_scope.
Local Open Scope list_scope.

(** * has_cycle / seq_txn only look at what finalisation preserves *)
Lemma dep_ids_finalize g i : dep_ids (finalize g) i = dep_ids g i.
Proof. reflexivity. Qed.

Lemma reach_fuel_deps n g1 g2 fr seen tg :
  g_deps g1 = g_deps g2 -> reach_fuel n g1 fr seen tg = reach_fuel n g2 fr seen tg.
Proof.
  intros Hd. revert fr seen. induction n as [|n IH]; intros fr seen; cbn; [done|].
  destruct (mem_str tg fr); [done|].
  assert (Hdi : forall i, dep_ids g1 i = dep_ids g2 i) by (intros i; unfold dep_ids; rewrite Hd; done).
  assert (Hmap : (dep_ids g1 <$> fr) = (dep_ids g2 <$> fr)).
  { apply list_fmap_ext. intros; apply Hdi. }
  rewrite Hmap. destruct (filter _ _); [done|]. apply IH.
Qed.
Lemma has_cycle_deps g1 g2 a b : g_deps g1 = g_deps g2 -> has_cycle g1 a b = has_cycle g2 a b.
Proof. intros Hd. unfold has_cycle. rewrite Hd. destruct (String.eqb a b); [done|]. apply reach_fuel_deps. done. Qed.

Lemma link_ok_finalize link g a b : link_ok link (finalize g) a b = link_ok link g a b.
Proof.
  unfold link_ok. rewrite !finalize_tombed, !finalize_lookup.
  destruct (tombed g a || tombed g b)%bool; [done|].
  destruct (g_tasks g !! a) as [ta|]; [|done]. destruct (g_tasks g !! b) as [tb|]; [|done]. cbn.
  mig ta. mig tb. rewrite Hmk, Hmk0. rewrite (has_cycle_deps (finalize g) g) by done. done.
Qed.

Lemma seq_txn_finalize link g edges : seq_txn link (finalize g) edges = seq_txn link g edges.
Proof.
  revert g. induction edges as [|[a b] es IH]; intros g; cbn [seq_txn]; [done|].
  rewrite link_ok_finalize. destruct (link_ok link g a b); [|done].
  destruct link.
  - change (Graph (g_tasks (finalize g)) ({[(a, b)]} ∪ g_deps (finalize g)) (g_tombs (finalize g)))
      with (finalize (Graph (g_tasks g) ({[(a, b)]} ∪ g_deps g) (g_tombs g))).
    rewrite IH. done.
  - change (Graph (g_tasks (finalize g)) (g_deps (finalize g) ∖ {[(a, b)]}) (g_tombs (finalize g)))
      with (finalize (Graph (g_tasks g) (g_deps g ∖ {[(a, b)]}) (g_tombs g))).
    rewrite IH. done.
Qed.

(** * Invariant under a change of the edge set only *)
Lemma inv_deps_change g g' :
  Inv g -> g_tasks g' = g_tasks g -> g_tombs g' = g_tombs g ->
  (forall a b, (a, b) ∈ g_deps g' -> (a, b) ∈ g_deps g \/
     (a <> b /\ exists ta tb, g_tasks g !! a = Some ta /\ g_tasks g !! b = Some tb /\ t_is_epic ta = t_is_epic tb)) ->
  Inv g'.
Proof.
  intros HI Ht Htb Hd. split; rewrite ?Ht, ?Htb.
  - apply (inv_key g HI).
  - apply (inv_state g HI).
  - apply (inv_epic g HI).
  - apply (inv_ref g HI).
  - intros a b Hab. destruct (Hd a b Hab) as [Hold|Hnew]; [apply (inv_deps g HI); done|done].
  - apply (inv_tombs g HI).
Qed.

Lemma seq_txn_inv link graw edges evs :
  Inv graw -> acyclic graw -> seq_txn link (finalize graw) edges = Some evs ->
  exists g', replay_from graw evs = Ok g' /\ Inv g' /\ acyclic g'.
Proof.
  intros HI HA. rewrite seq_txn_finalize. intros Hs. destruct link.
  - destruct (seq_txn_link_replay graw edges evs Hs) as (He & Hr & Hac).
    exists (add_edges graw edges). split; [done|]. split; [|auto].
    apply (inv_deps_change graw); try done.
    + apply add_edges_tasks.
    + apply add_edges_tombs.
    + intros a b. rewrite add_edges_deps, elem_of_union, elem_of_list_to_set.
      intros [Hin|Hold]; [|left; done]. right.
      apply elem_of_list_split in Hin as (l1 & l2 & Hsplit).
      destruct (seq_txn_link_edges graw edges evs Hs l1 a b l2 Hsplit) as (_ & _ & Hne & Hlive & _).
      split; [exact Hne|exact Hlive].
  - destruct (seq_txn_unlink_replay graw edges evs Hs) as (He & Hr & Hsub & Hac).
    exists (del_edges graw edges). split; [done|]. split; [|auto].
    apply (inv_deps_change graw); try done.
    + apply del_edges_tasks.
    + apply del_edges_tombs.
    + intros a b Hab. left. apply Hsub. done.
Qed.

(** * compact *)
Lemma inv_of_core g g' :
  Inv g ->
  (forall i, task_core <$> (g_tasks g' !! i) = task_core <$> (g_tasks g !! i)) ->
  (forall i t, g_tasks g' !! i = Some t -> m_created t = t_created t) ->
  (forall i t, g_tasks g' !! i = Some t -> t_is_epic t = true -> m_epic t = "") ->
  g_deps g' = g_deps g -> g_tombs g' = ∅ -> Inv g'.
Proof.
  intros HI Hcore Hcr Hme Hd Ht.
  assert (Hlk : forall i t', g_tasks g' !! i = Some t' -> exists t, g_tasks g !! i = Some t /\ task_core t' = task_core t).
  { intros i t' Hl. specialize (Hcore i). rewrite Hl in Hcore. destruct (g_tasks g !! i) as [t|]; [|discriminate].
    cbn in Hcore. exists t. split; [done|congruence]. }
  assert (Hlk' : forall i t, g_tasks g !! i = Some t -> exists t', g_tasks g' !! i = Some t' /\ task_core t' = task_core t).
  { intros i t Hl. specialize (Hcore i). rewrite Hl in Hcore. destruct (g_tasks g' !! i) as [t'|]; [|discriminate].
    cbn in Hcore. exists t'. split; [done|congruence]. }
  unfold task_core in *.
  split.
  - intros i t' Hl. destruct (Hlk _ _ Hl) as (t & Hl0 & [= H1 H2 H3 H4 H5 H6]).
    split; [rewrite H1; apply (inv_key g HI i t Hl0)|eapply Hcr; eauto].
  - intros i t' Hl Hk. destruct (Hlk _ _ Hl) as (t & Hl0 & [= H1 H2 H3 H4 H5 H6]).
    rewrite H3, H4. apply (inv_state g HI i t Hl0). congruence.
  - intros i t' Hl Hk. destruct (Hlk _ _ Hl) as (t & Hl0 & [= H1 H2 H3 H4 H5 H6]).
    rewrite H3, H4, H5. destruct (inv_epic g HI i t Hl0) as (? & ? & ? & ?); [congruence|].
    repeat split; try done. eapply Hme; eauto.
  - intros i t' Hl Hne. destruct (Hlk _ _ Hl) as (t & Hl0 & [= H1 H2 H3 H4 H5 H6]).
    rewrite H5 in *. destruct (inv_ref g HI i t Hl0 Hne) as (e & He & Hek).
    destruct (Hlk' _ _ He) as (e' & He' & [= E1 E2 E3 E4 E5 E6]). exists e'. split; [done|congruence].
  - intros a b. rewrite Hd. intros Hab. destruct (inv_deps g HI a b Hab) as (Hne & ta & tb & Ha & Hb & Hk).
    split; [done|].
    destruct (Hlk' _ _ Ha) as (ta' & Ha' & [= A1 A2 A3 A4 A5 A6]).
    destruct (Hlk' _ _ Hb) as (tb' & Hb' & [= B1 B2 B3 B4 B5 B6]).
    exists ta', tb'. repeat split; try done. congruence.
  - intros i. rewrite Ht. set_solver.
Qed.

Lemma compact_inv graw :
  Inv graw -> acyclic graw ->
  exists g', replay_raw (compact_events (finalize graw)) = Ok g' /\ Inv g' /\ acyclic g'
    /\ (forall i, task_core <$> (g_tasks g' !! i) = task_core <$> (g_tasks graw !! i))
    /\ g_deps g' = g_deps graw /\ g_tombs g' = ∅.
Proof.
  intros HI HA.
  destruct (compact_core_gen graw) as (Hr & Hcore & Hd & Ht).
  - intros k t Hl. apply (inv_key graw HI k t Hl).
  - intros i t Hl Hk. destruct (inv_epic graw HI i t Hl Hk) as (_ & _ & -> & ->). done.
  - intros i t Hl. apply created_at_of_m_created. apply (inv_key graw HI i t Hl).
  - exists (compact_graph graw). split; [done|]. split; [|split; [|done]].
    + apply (inv_of_core graw); try done.
      * intros i t. rewrite compact_graph_lookup. destruct (g_tasks graw !! i) as [t0|]; [|discriminate].
        intros [= <-]. rewrite rebuild_m_created, rebuild_created. done.
      * intros i t. rewrite compact_graph_lookup. destruct (g_tasks graw !! i) as [t0|] eqn:Hl; [|discriminate].
        intros [= <-]. rewrite rebuild_is_epic, rebuild_m_epic. mig t0. rewrite Hmk, Hmme.
        intros Hk. destruct (inv_epic graw HI i t0 Hl Hk) as (_ & _ & _ & ->). done.
    + apply (subgraph_acyclic graw); [rewrite Hd; done|done].
Qed.

(** * The reachable stores *)
Definition Good (log : list event) : Prop :=
  exists g, replay_raw log = Ok g /\ Inv g /\ acyclic g.

Lemma good_nil : Good [].
Proof. exists empty_graph. split; [done|]. split; [apply inv_empty|apply empty_graph_acyclic]. Qed.

Lemma replay_of_raw log g : replay_raw log = Ok g -> replay log = Ok (finalize g).
Proof. unfold replay. intros ->. done. Qed.

Lemma replay_raw_app log es g : replay_raw log = Ok g -> replay_raw (log ++ es) = replay_from g es.
Proof. unfold replay_raw. rewrite replay_from_app. intros ->. done. Qed.

Lemma acyclic_put g i t : acyclic g -> acyclic (put g i t).
Proof. intros H. apply (subgraph_acyclic g); [done|exact H]. Qed.

(** Update-only transactions leave the edge set alone. *)
Lemma replay_upds_acyclic g i t evs g' :
  g_tasks g !! i = Some t -> tombed g i = false -> Forall (is_upd i) evs ->
  replay_from g evs = Ok g' -> g_deps g' = g_deps g.
Proof. intros Hl Ht Hu. rewrite (replay_upds g i t evs Hl Ht Hu). intros [= <-]. done. Qed.

Lemma good_same_deps log es g g' :
  replay_raw log = Ok g -> acyclic g -> replay_from g es = Ok g' -> Inv g' -> g_deps g' = g_deps g ->
  Good (log ++ es).
Proof.
  intros Hr HA Hr' HI' Hd. exists g'. split; [rewrite (replay_raw_app log es g Hr); done|]. split; [done|].
  apply (subgraph_acyclic g); [rewrite Hd; done|done].
Qed.

Theorem step_good e c log : Good log -> Good (exec e log c).1.
Proof.
  intros (g & Hr & HI & HA). unfold exec.
  destruct (run_txn e c log) as [d r] eqn:Hrun. cbn [fst].
  assert (Hgood : Good log) by (exists g; done).
  destruct c as [is_epic title body epic u agent | i u agent | i agent | epic agent | link ids | yes agent | | p];
    cbn [run_txn] in Hrun; rewrite ?(replay_of_raw log g Hr) in Hrun.
  - (* new *)
    destruct (new_txn e is_epic title body epic u agent (finalize g)) as [[es r']|] eqn:Hn;
      injection Hrun as <- <-; cbn [apply_decision]; [|done].
    destruct (new_txn_inv _ _ _ _ _ _ _ _ _ _ HI Hn) as (g' & Hr' & HI' & Hd).
    eapply good_same_deps; eauto.
  - (* set *)
    destruct (upd_empty u); [injection Hrun as <- <-; done|].
    destruct (set_txn e i u agent (finalize g)) as [es|] eqn:Hs; injection Hrun as <- <-; cbn [apply_decision]; [|done].
    destruct (set_txn_inv _ _ _ _ _ _ HI Hs) as (g' & Hr' & HI' & Hd).
    eapply good_same_deps; eauto.
  - (* claim <id> *)
    destruct (String.eqb agent ""); [injection Hrun as <- <-; done|].
    destruct (set_txn e i _ agent (finalize g)) as [es|] eqn:Hs; injection Hrun as <- <-; cbn [apply_decision]; [|done].
    destruct (set_txn_inv _ _ _ _ _ _ HI Hs) as (g' & Hr' & HI' & Hd).
    eapply good_same_deps; eauto.
  - (* claim oldest *)
    destruct (String.eqb agent "") eqn:Hag; [injection Hrun as <- <-; done|]. apply String.eqb_neq in Hag.
    destruct (ready_tasks (finalize g) epic) as [|t rest] eqn:Hrt; injection Hrun as <- <-; cbn [apply_decision].
    + rewrite app_nil_r. done.
    + destruct (claim_oldest_inv e epic agent g t rest HI Hag Hrt) as (g' & Hr' & HI' & Hd).
      eapply good_same_deps; eauto.
  - (* sequence *)
    destruct (seq_edges ids) as [|ed eds] eqn:Hse; [injection Hrun as <- <-; done|].
    destruct (seq_txn link (finalize g) (ed :: eds)) as [es|] eqn:Hs; injection Hrun as <- <-; cbn [apply_decision]; [|done].
    destruct (seq_txn_inv _ _ _ _ HI HA Hs) as (g' & Hr' & HI' & HA').
    exists g'. split; [rewrite (replay_raw_app log es g Hr); done|done].
  - (* prune *)
    destruct yes; injection Hrun as <- <-; cbn [apply_decision]; [|rewrite app_nil_r; done].
    destruct (prune_inv g agent (e_now e) HI HA) as (g' & Hr' & HI' & HA' & _).
    exists g'. split; [rewrite (replay_raw_app log _ g Hr); done|done].
  - (* compact *)
    injection Hrun as <- <-. cbn [apply_decision].
    destruct (compact_inv g HI HA) as (g' & Hr' & HI' & HA' & _). exists g'. done.
  - (* plan *)
    destruct (plan_valid p); cbn [negb] in Hrun; [|injection Hrun as <- <-; done].
    destruct (plan_txn e p log (finalize g)) as [[es r']|] eqn:Hp; injection Hrun as <- <-; cbn [apply_decision]; [|done].
    destruct (plan_inv e p log g es r' HI HA Hp) as (eid & tids & edges & new & g' & _ & -> & Hr' & HI' & HA' & _).
    exists g'. split; [rewrite (replay_raw_app log _ g Hr); done|done].
Qed.

(** Every store reachable from the empty store by ANY requests (every command, every input mode)
    under ANY environment oracle (clock readings, candidate ids incl. collisions, uuids, file system). *)
Inductive Reach : list event -> Prop :=
| reach_init : Reach []
| reach_step log e q : Reach log -> Reach (exec_req e log q).1.

Theorem reach_good log : Reach log -> Good log.
Proof.
  induction 1 as [|log e q _ IH]; [apply good_nil|].
  unfold exec_req in *. destruct (normalize q) as [c|]; [|exact IH].
  apply step_good; done.
Qed.
