(** Serial.v — generic concurrency / crash theorems for the LTS of Sched.v. *)
From stdpp Require Import base list option relations.
From Coq Require Import Lia.
From Ergo Require Import Sched.

Section serial.
Context {ev : Type}.
Notation file := (file ev).
Notation pst := (pst ev).
Notation entry := (entry ev).
Notation world := (world ev).
Notation decision := (decision ev).
Notation txn := (txn ev).

Implicit Types (w : world) (p q r : pid) (h : list entry) (e : entry) (f : file)
  (d : decision) (evs es : list ev) (cs : list (list ev)) (s : pst).

(** * Basic list / setp / mark facts *)

Lemma lookup_setp w p q s s' :
  setp w p s !! q = Some s' ->
  (q = p /\ s' = s /\ p < length (w_procs w)) \/ (q <> p /\ w_procs w !! q = Some s').
Proof.
  unfold setp. intros H. destruct (decide (q = p)) as [->|Hne].
  - destruct (decide (p < length (w_procs w))) as [Hlt|Hge].
    + rewrite list_lookup_insert in H by done. left. by inversion H.
    + rewrite list_insert_ge in H by lia. apply lookup_lt_Some in H. lia.
  - right. split; [done|]. by rewrite list_lookup_insert_ne in H.
Qed.
Lemma setp_same w p s s0 : w_procs w !! p = Some s0 -> setp w p s !! p = Some s.
Proof. intros H. unfold setp. apply list_lookup_insert. by eapply lookup_lt_Some. Qed.
Lemma setp_ne w p q s : q <> p -> setp w p s !! q = w_procs w !! q.
Proof. intros H. unfold setp. by rewrite list_lookup_insert_ne. Qed.

Definition not_decided e : Prop := en_status e <> SDecided.
Definition entries_of p h : list entry := filter (fun e => en_pid e = p) h.

Lemma entries_of_app p h1 h2 : entries_of p (h1 ++ h2) = entries_of p h1 ++ entries_of p h2.
Proof. apply filter_app. Qed.
Lemma entries_of_snoc_ne p h q d st :
  q <> p -> entries_of p (h ++ [Entry q d st]) = entries_of p h.
Proof.
  intros Hne. rewrite entries_of_app. unfold entries_of at 2.
  rewrite filter_cons. simpl. destruct (decide (q = p)); [done|]. by rewrite filter_nil, app_nil_r.
Qed.
Lemma entries_of_snoc_eq p h d st :
  entries_of p (h ++ [Entry p d st]) = entries_of p h ++ [Entry p d st].
Proof.
  rewrite entries_of_app. unfold entries_of at 2.
  rewrite filter_cons. simpl. destruct (decide (p = p)); [|done]. by rewrite filter_nil.
Qed.

Lemma mark_snoc_decided h p d st :
  mark (h ++ [Entry p d SDecided]) p st = h ++ [Entry p d st].
Proof.
  unfold mark. rewrite reverse_snoc. destruct (decide (p = p)); [|done].
  by rewrite reverse_cons, reverse_involutive.
Qed.
Lemma mark_snoc_nd h e p st : not_decided e -> mark (h ++ [e]) p st = h ++ [e].
Proof.
  unfold mark, not_decided. rewrite reverse_snoc. destruct e as [q d []]; simpl; try done.
Qed.
Lemma mark_snoc_ne h q d st0 p st : q <> p -> mark (h ++ [Entry q d st0]) p st = h ++ [Entry q d st0].
Proof.
  unfold mark. rewrite reverse_snoc. intros Hne. destruct st0; try done.
  by destruct (decide (q = p)).
Qed.
Lemma mark_spec h p st :
  mark h p st = h \/ exists h' d, h = h' ++ [Entry p d SDecided] /\ mark h p st = h' ++ [Entry p d st].
Proof.
  destruct h as [|e h _] using rev_ind; [by left|].
  destruct e as [q d st0]. destruct (decide (q = p)) as [->|Hne].
  - destruct st0.
    + right. exists h, d. split; [done|]. apply mark_snoc_decided.
    + left. by apply mark_snoc_nd.
    + left. by apply mark_snoc_nd.
  - left. by apply mark_snoc_ne.
Qed.
Lemma mark_all_nd h p st : Forall not_decided h -> mark h p st = h.
Proof.
  intros Hnd. destruct (mark_spec h p st) as [?|(h'&d&->&_)]; [done|].
  apply Forall_app in Hnd as [_ Hnd]. rewrite Forall_singleton in Hnd. exfalso. by apply Hnd.
Qed.
Lemma entries_of_mark_ne q h p st : q <> p -> entries_of q (mark h p st) = entries_of q h.
Proof.
  intros Hne. destruct (mark_spec h p st) as [->|(h'&d&->&->)]; [done|].
  by rewrite !entries_of_snoc_ne.
Qed.
Lemma mark_length h p st : length (mark h p st) = length h.
Proof.
  destruct (mark_spec h p st) as [->|(h'&d&->&->)]; [done|]. by rewrite !app_length.
Qed.

Lemma cur_file_set w f lk pr hi :
  w_cur w < length (w_inodes w) ->
  cur_file (World (set_cur w f) (w_cur w) lk pr hi) = f.
Proof. intros H. unfold cur_file, set_cur. simpl. by rewrite list_lookup_insert. Qed.
Lemma cur_file_snoc w f lk pr hi :
  cur_file (World (w_inodes w ++ [f]) (length (w_inodes w)) lk pr hi) = f.
Proof. unfold cur_file. simpl. by rewrite list_lookup_middle. Qed.
Lemma cur_file_same w lk pr hi :
  cur_file (World (w_inodes w) (w_cur w) lk pr hi) = cur_file w.
Proof. done. Qed.

(** * The meaning of a history with crash contributions *)

(** [c] is what a crashed append left behind (a prefix of its lines); it is [[]] for every other entry. *)
Definition app1 evs e (c : list ev) : list ev :=
  match en_status e with SCommitted => effect (en_dec e) evs | _ => evs ++ c end.
Fixpoint serialc evs h cs : list ev :=
  match h, cs with
  | e :: h, c :: cs => serialc (app1 evs e c) h cs
  | _, _ => evs
  end.
Definition contrib_ok e (c : list ev) : Prop :=
  match en_status e, en_dec e with
  | SCrashed, Append es => c `prefix_of` es
  | _, _ => c = []
  end.

Lemma serialc_snoc evs h cs e c :
  length h = length cs -> serialc evs (h ++ [e]) (cs ++ [c]) = app1 (serialc evs h cs) e c.
Proof.
  revert evs cs. induction h as [|e0 h IH]; intros evs [|c0 cs] Hl; simpl in *; try done; try lia.
  apply IH. lia.
Qed.
Lemma serialc_serial evs h cs :
  length h = length cs -> Forall (fun c => c = []) cs -> serialc evs h cs = serial evs h.
Proof.
  revert evs cs. induction h as [|e0 h IH]; intros evs [|c0 cs] Hl Hc; simpl in *; try done; try lia.
  apply Forall_cons in Hc as [-> Hc]. rewrite IH by (done || lia).
  unfold serial. simpl. unfold app1. destruct (en_status e0); by rewrite ?app_nil_r.
Qed.
Lemma serial_snoc evs h e :
  serial evs (h ++ [e]) =
  match en_status e with SCommitted => effect (en_dec e) (serial evs h) | _ => serial evs h end.
Proof. unfold serial. by rewrite fold_left_app. Qed.
Lemma serial_app evs h1 h2 : serial evs (h1 ++ h2) = serial (serial evs h1) h2.
Proof. unfold serial. by rewrite fold_left_app. Qed.

Lemma Forall2_snoc_inv_l {A B} (R : A -> B -> Prop) l x k :
  Forall2 R (l ++ [x]) k -> exists k' y, k = k' ++ [y] /\ Forall2 R l k' /\ R x y.
Proof.
  intros H. apply Forall2_app_inv_l in H as (k'&k2&H1&H2&->).
  apply Forall2_cons_inv_l in H2 as (y&k3&Hy&H3&->). apply Forall2_nil_inv_l in H3 as ->.
  eauto.
Qed.
Lemma Forall2_snoc {A B} (R : A -> B -> Prop) l x k y :
  Forall2 R l k -> R x y -> Forall2 R (l ++ [x]) (k ++ [y]).
Proof. intros. apply Forall2_app; [done|]. by constructor. Qed.

(** * Transaction provenance *)
Section with_ps0.
Variable ps0 : list pst.
Variable f0 : file.

Definition dec_ok evs e : Prop :=
  exists t, ps0 !! en_pid e = Some (PStart t) /\ en_dec e = t evs.
Fixpoint decs_ok evs h cs : Prop :=
  match h, cs with
  | e :: h, c :: cs => dec_ok evs e /\ decs_ok (app1 evs e c) h cs
  | _, _ => True
  end.
Lemma decs_ok_snoc evs h cs e c :
  length h = length cs ->
  decs_ok evs (h ++ [e]) (cs ++ [c]) <-> decs_ok evs h cs /\ dec_ok (serialc evs h cs) e.
Proof.
  revert evs cs. induction h as [|e0 h IH]; intros evs [|c0 cs] Hl; simpl in *; try done; try lia.
  - tauto.
  - rewrite IH by lia. tauto.
Qed.
Lemma decs_ok_split evs h1 e h2 cs :
  length (h1 ++ e :: h2) = length cs -> decs_ok evs (h1 ++ e :: h2) cs ->
  dec_ok (serialc evs h1 (take (length h1) cs)) e.
Proof.
  revert evs cs. induction h1 as [|e0 h1 IH]; intros evs [|c0 cs] Hl Hd; simpl in *; try done; try lia.
  - tauto.
  - apply IH; [lia|tauto].
Qed.

(** * The invariant *)

Definition proc_ok h q s : Prop :=
  match s with
  | PStart t | PLocked t => ps0 !! q = Some (PStart t) /\ entries_of q h = []
  | PDone OBusy => entries_of q h = []
  | PDone OOk => exists d, entries_of q h = [Entry q d SCommitted] /\ d <> Abort
  | PDone OFail => entries_of q h = [Entry q Abort SCommitted]
  | PDead => length (entries_of q h) <= 1
  | PAppend _ | PTmp _ | PRename _ | PUnlock _ => True
  | RStart | ROpened _ | RProbed _ _ | RDone _ => entries_of q h = []
  end.

Definition holder_ok w p s : Prop :=
  match s with
  | PLocked t => Forall not_decided (w_hist w)
  | PAppend es =>
      exists h', w_hist w = h' ++ [Entry p (Append es) SDecided] /\ Forall not_decided h' /\
        entries_of p h' = [] /\ f_tail (cur_file w) = TClean /\ es <> []
  | PTmp es' | PRename es' =>
      exists h' d, w_hist w = h' ++ [Entry p d SDecided] /\ Forall not_decided h' /\
        entries_of p h' = [] /\ es' = effect d (read_events (cur_file w)) /\ d <> Abort
  | PUnlock ok =>
      exists h' d st, w_hist w = h' ++ [Entry p d st] /\ Forall not_decided h' /\
        entries_of p h' = [] /\ (if ok then d <> Abort else d = Abort) /\
        (st = SCommitted \/ (st = SDecided /\ (d = Abort \/ d = Append [])))
  | _ => False
  end.

Record Inv w cs : Prop := {
  inv_cur : w_cur w < length (w_inodes w);
  inv_cs : Forall2 contrib_ok (w_hist w) cs;
  inv_file : read_events (cur_file w) = serialc (read_events f0) (w_hist w) cs;
  inv_decs : decs_ok (read_events f0) (w_hist w) cs;
  inv_procs : forall q s, w_procs w !! q = Some s -> proc_ok (w_hist w) q s;
  inv_lock :
    match w_lock w with
    | None => Forall not_decided (w_hist w) /\
              forall q s, w_procs w !! q = Some s -> in_section s = false
    | Some p => exists s, w_procs w !! p = Some s /\ in_section s = true /\ holder_ok w p s /\
                forall q s', q <> p -> w_procs w !! q = Some s' -> in_section s' = false
    end }.

Definition init_ok (ps : list pst) : Prop :=
  Forall (fun s => (exists t, s = PStart t) \/ s = RStart) ps.

Lemma proc_ok_ext h h' q s : entries_of q h' = entries_of q h -> proc_ok h q s -> proc_ok h' q s.
Proof. intros Heq. unfold proc_ok. by rewrite Heq. Qed.

Lemma holder_inv w cs p s :
  Inv w cs -> w_procs w !! p = Some s -> in_section s = true ->
  w_lock w = Some p /\ holder_ok w p s /\
  forall q s', q <> p -> w_procs w !! q = Some s' -> in_section s' = false.
Proof.
  intros HI Hp Hin. pose proof (inv_lock _ _ HI) as HL. destruct (w_lock w) as [p'|].
  - destruct HL as (s'&Hp'&Hin'&Hh&Hoth). destruct (decide (p = p')) as [->|Hne].
    + rewrite Hp in Hp'. inversion Hp'; subst s'. done.
    + rewrite (Hoth p s Hne Hp) in Hin. done.
  - destruct HL as [_ Hno]. rewrite (Hno p s Hp) in Hin. done.
Qed.
Lemma free_inv w cs p s :
  Inv w cs -> w_procs w !! p = Some s -> in_section s = false -> w_lock w <> Some p.
Proof.
  intros HI Hp Hin Hl. pose proof (inv_lock _ _ HI) as HL. rewrite Hl in HL.
  destruct HL as (s'&Hp'&Hin'&_). rewrite Hp in Hp'. inversion Hp'; subst. congruence.
Qed.

Lemma release_other w p : w_lock w <> Some p -> release w p = w_lock w.
Proof.
  unfold release. destruct (w_lock w) as [q|]; [|done]. destruct (decide (q = p)); congruence.
Qed.
Lemma release_self w p : w_lock w = Some p -> release w p = None.
Proof. unfold release. intros ->. by destruct (decide (p = p)). Qed.

Lemma torn_file_read f es c :
  f_tail f = TClean ->
  exists c', c' `prefix_of` es /\ read_events (torn_file f es c) = read_events f ++ c'.
Proof.
  intros Ht. unfold read_events at 2. rewrite Ht, app_nil_r. destruct c as [n|n|n]; simpl.
  - exists (take n es). split; [exists (drop n es); by rewrite take_drop|].
    unfold read_events. simpl. by rewrite app_nil_r.
  - exists (take n es). split; [exists (drop n es); by rewrite take_drop|].
    unfold read_events. simpl. destruct (decide (n < length es)); by rewrite app_nil_r.
  - destruct (es !! n) as [e|] eqn:He.
    + exists (take (S n) es). split; [exists (drop (S n) es); by rewrite take_drop|].
      unfold read_events. simpl. erewrite take_S_r by done. by rewrite app_assoc.
    + exists es. split; [done|]. unfold read_events. simpl. by rewrite app_nil_r.
Qed.

(** A process outside any section changes only its own (non-section) state. *)
Lemma inv_setp_free w cs p s s' :
  Inv w cs -> w_procs w !! p = Some s -> in_section s = false -> in_section s' = false ->
  proc_ok (w_hist w) p s' ->
  Inv (World (w_inodes w) (w_cur w) (w_lock w) (setp w p s') (w_hist w)) cs.
Proof.
  intros HI Hp Hin Hin' Hok. destruct HI as [Hc Hcs Hf Hd Hpr Hl].
  split; simpl; try done.
  - intros q sq Hq. apply lookup_setp in Hq as [(->&->&_)|(Hne&Hq)]; eauto.
  - destruct (w_lock w) as [p'|].
    + destruct Hl as (sh&Hp'&Hinh&Hh&Hoth).
      assert (p <> p') as Hne. { intros ->. congruence. }
      exists sh. split; [by rewrite setp_ne|]. split; [done|]. split; [exact Hh|].
      intros q sq Hneq Hq. apply lookup_setp in Hq as [(->&->&_)|(_&Hq)]; eauto.
    + destruct Hl as [Hnd Hno]. split; [done|]. intros q sq Hq.
      apply lookup_setp in Hq as [(->&->&_)|(_&Hq)]; eauto.
Qed.

Ltac others_tac Hoth :=
  let q := fresh "q" in let sq := fresh "sq" in let Hne := fresh "Hne" in let Hq := fresh "Hq" in
  intros q sq Hne Hq; rewrite setp_ne in Hq by done; eapply Hoth; eauto.

Lemma inv_lock_ok w cs p t :
  Inv w cs -> w_procs w !! p = Some (PStart t) -> w_lock w = None ->
  Inv (World (w_inodes w) (w_cur w) (Some p) (setp w p (PLocked t)) (w_hist w)) cs.
Proof.
  intros HI Hp Hlk. pose proof (inv_procs _ _ HI _ _ Hp) as Hpo.
  destruct HI as [Hc Hcs Hf Hd Hpr Hl]. rewrite Hlk in Hl. destruct Hl as [Hnd Hno].
  split; simpl; try done.
  - intros q sq Hq. apply lookup_setp in Hq as [(->&->&_)|(Hne&Hq)]; eauto.
  - exists (PLocked t). split; [by eapply setp_same|]. split; [done|]. split; [exact Hnd|].
    intros q sq Hne Hq. rewrite setp_ne in Hq by done. eauto.
Qed.

Definition next_of (t : txn) (f : file) : pst :=
  match t (read_events f) with
  | Abort => PUnlock false
  | Append [] => PUnlock true
  | Append es => match f_tail f with TClean => PAppend es | _ => PTmp (read_events f ++ es) end
  | Replace es => PTmp es
  end.

Lemma inv_load w cs p t :
  Inv w cs -> w_procs w !! p = Some (PLocked t) ->
  Inv (World (w_inodes w) (w_cur w) (w_lock w) (setp w p (next_of t (cur_file w)))
             (w_hist w ++ [Entry p (t (read_events (cur_file w))) SDecided])) (cs ++ [[]]).
Proof.
  intros HI Hp. destruct (holder_inv _ _ _ _ HI Hp eq_refl) as (Hlk&Hnd&Hoth).
  pose proof (inv_procs _ _ HI _ _ Hp) as [Hps0 Hent].
  destruct HI as [Hc Hcs Hf Hd Hpr Hl]. simpl in Hnd.
  pose proof (Forall2_length _ _ _ Hcs) as Hlen.
  set (d := t (read_events (cur_file w))).
  split; simpl.
  - done.
  - apply Forall2_snoc; [done|]. done.
  - rewrite serialc_snoc by done. unfold app1. simpl. by rewrite app_nil_r.
  - apply decs_ok_snoc; [done|]. split; [done|]. exists t. simpl. split; [done|].
    unfold d. by rewrite Hf.
  - intros q sq Hq. apply lookup_setp in Hq as [(->&->&_)|(Hne&Hq)].
    + unfold next_of. fold d. destruct d as [|[|e0 es]|es]; simpl; try done.
      destruct (f_tail (cur_file w)); done.
    + eapply proc_ok_ext; [|eauto]. by rewrite entries_of_snoc_ne.
  - rewrite Hlk. exists (next_of t (cur_file w)). split; [by eapply setp_same|].
    assert (in_section (next_of t (cur_file w)) = true /\
            holder_ok (World (w_inodes w) (w_cur w) (Some p) (setp w p (next_of t (cur_file w)))
              (w_hist w ++ [Entry p d SDecided])) p (next_of t (cur_file w))) as [? ?].
    { unfold next_of. fold d. destruct d as [|[|e0 es]|es] eqn:Hdeq; simpl.
      - split; [done|]. exists (w_hist w), Abort, SDecided. eauto 10.
      - split; [done|]. exists (w_hist w), (Append []), SDecided. eauto 10.
      - destruct (f_tail (cur_file w)) eqn:Ht; simpl.
        + split; [done|]. exists (w_hist w). rewrite cur_file_same. eauto 10.
        + split; [done|]. exists (w_hist w), (Append (e0 :: es)). rewrite cur_file_same. eauto 10.
        + split; [done|]. exists (w_hist w), (Append (e0 :: es)). rewrite cur_file_same. eauto 10.
      - split; [done|]. exists (w_hist w), (Replace es). eauto 10. }
    split; [done|]. split; [done|]. others_tac Hoth.
Qed.
Lemma contrib_ok_decided_inv p d c : contrib_ok (Entry p d SDecided) c -> c = [].
Proof. done. Qed.
Lemma contrib_ok_committed_inv p d c : contrib_ok (Entry p d SCommitted) c -> c = [].
Proof. done. Qed.
Lemma contrib_ok_crashed_nil p d : contrib_ok (Entry p d SCrashed) [].
Proof. unfold contrib_ok. simpl. destruct d; try done. apply prefix_nil. Qed.

Lemma inv_append w cs p es :
  Inv w cs -> w_procs w !! p = Some (PAppend es) ->
  Inv (World (set_cur w (File (f_evs (cur_file w) ++ es) TClean)) (w_cur w) (w_lock w)
             (setp w p (PUnlock true)) (mark (w_hist w) p SCommitted)) cs.
Proof.
  intros HI Hp. destruct (holder_inv _ _ _ _ HI Hp eq_refl) as (Hlk&Hh&Hoth).
  destruct HI as [Hc Hcs Hf Hd Hpr Hl]. simpl in Hh.
  destruct Hh as (h'&Hh&Hnd&Hent&Ht&Hne). rewrite Hh in *. clear Hh.
  apply Forall2_snoc_inv_l in Hcs as (cs0&c&->&Hcs0&Hc0).
  apply contrib_ok_decided_inv in Hc0 as ->.
  pose proof (Forall2_length _ _ _ Hcs0) as Hlen.
  rewrite mark_snoc_decided.
  rewrite serialc_snoc in Hf by done. unfold app1 in Hf. simpl in Hf. rewrite app_nil_r in Hf.
  apply decs_ok_snoc in Hd as [Hd1 Hd2]; [|done].
  split; simpl.
  - unfold set_cur. by rewrite insert_length.
  - by apply Forall2_snoc.
  - rewrite cur_file_set by done. rewrite serialc_snoc by done. unfold app1. simpl.
    rewrite <- Hf. unfold read_events. rewrite Ht. simpl. by rewrite !app_nil_r.
  - apply decs_ok_snoc; [done|]. split; [done|]. exact Hd2.
  - intros q sq Hq. apply lookup_setp in Hq as [(->&->&_)|(Hneq&Hq)]; [done|].
    eapply proc_ok_ext; [|eauto]. by rewrite !entries_of_snoc_ne.
  - rewrite Hlk. exists (PUnlock true). split; [by eapply setp_same|]. split; [done|]. split.
    + simpl. exists h', (Append es), SCommitted. eauto 10.
    + others_tac Hoth.
Qed.

Lemma inv_tmp w cs p es :
  Inv w cs -> w_procs w !! p = Some (PTmp es) ->
  Inv (World (w_inodes w) (w_cur w) (w_lock w) (setp w p (PRename es)) (w_hist w)) cs.
Proof.
  intros HI Hp. destruct (holder_inv _ _ _ _ HI Hp eq_refl) as (Hlk&Hh&Hoth).
  destruct HI as [Hc Hcs Hf Hd Hpr Hl].
  split; simpl; try done.
  - intros q sq Hq. apply lookup_setp in Hq as [(->&->&_)|(Hneq&Hq)]; [done|]. eauto.
  - rewrite Hlk. exists (PRename es). split; [by eapply setp_same|]. split; [done|]. split.
    + exact Hh.
    + others_tac Hoth.
Qed.

Lemma inv_rename w cs p es :
  Inv w cs -> w_procs w !! p = Some (PRename es) ->
  Inv (World (w_inodes w ++ [File es TClean]) (length (w_inodes w)) (w_lock w)
             (setp w p (PUnlock true)) (mark (w_hist w) p SCommitted)) cs.
Proof.
  intros HI Hp. destruct (holder_inv _ _ _ _ HI Hp eq_refl) as (Hlk&Hh&Hoth).
  destruct HI as [Hc Hcs Hf Hd Hpr Hl]. simpl in Hh.
  destruct Hh as (h'&d&Hh&Hnd&Hent&Hes&Hne). rewrite Hh in *. clear Hh.
  apply Forall2_snoc_inv_l in Hcs as (cs0&c&->&Hcs0&Hc0).
  apply contrib_ok_decided_inv in Hc0 as ->.
  pose proof (Forall2_length _ _ _ Hcs0) as Hlen.
  rewrite mark_snoc_decided.
  rewrite serialc_snoc in Hf by done. unfold app1 in Hf. simpl in Hf. rewrite app_nil_r in Hf.
  apply decs_ok_snoc in Hd as [Hd1 Hd2]; [|done].
  split; simpl.
  - rewrite app_length. simpl. lia.
  - by apply Forall2_snoc.
  - rewrite cur_file_snoc. rewrite serialc_snoc by done. unfold app1. simpl.
    rewrite <- Hf. unfold read_events at 1. simpl. by rewrite app_nil_r.
  - apply decs_ok_snoc; [done|]. split; [done|]. exact Hd2.
  - intros q sq Hq. apply lookup_setp in Hq as [(->&->&_)|(Hneq&Hq)]; [done|].
    eapply proc_ok_ext; [|eauto]. by rewrite !entries_of_snoc_ne.
  - rewrite Hlk. exists (PUnlock true). split; [by eapply setp_same|]. split; [done|]. split.
    + simpl. exists h', d, SCommitted. eauto 10.
    + others_tac Hoth.
Qed.

Lemma inv_unlock w cs p ok :
  Inv w cs -> w_procs w !! p = Some (PUnlock ok) ->
  Inv (World (w_inodes w) (w_cur w) (release w p) (setp w p (PDone (if ok then OOk else OFail)))
             (mark (w_hist w) p SCommitted)) cs.
Proof.
  intros HI Hp. destruct (holder_inv _ _ _ _ HI Hp eq_refl) as (Hlk&Hh&Hoth).
  destruct HI as [Hc Hcs Hf Hd Hpr Hl]. simpl in Hh.
  destruct Hh as (h'&d&st&Hh&Hnd&Hent&Hok&Hst). rewrite Hh in *. clear Hh.
  apply Forall2_snoc_inv_l in Hcs as (cs0&c&->&Hcs0&Hc0).
  pose proof (Forall2_length _ _ _ Hcs0) as Hlen.
  rewrite (release_self _ _ Hlk).
  rewrite serialc_snoc in Hf by done.
  apply decs_ok_snoc in Hd as [Hd1 Hd2]; [|done].
  assert (mark (h' ++ [Entry p d st]) p SCommitted = h' ++ [Entry p d SCommitted]) as ->.
  { destruct Hst as [->|[-> _]]; [by apply mark_snoc_nd|apply mark_snoc_decided]. }
  assert (c = []) as ->. { destruct Hst as [->|[-> _]]; done. }
  split; simpl.
  - done.
  - by apply Forall2_snoc.
  - rewrite cur_file_same, Hf. rewrite serialc_snoc by done. unfold app1. simpl.
    destruct Hst as [->|[-> [->| ->]]]; simpl; by rewrite ?app_nil_r.
  - apply decs_ok_snoc; [done|]. split; [done|]. exact Hd2.
  - intros q sq Hq. apply lookup_setp in Hq as [(->&->&_)|(Hneq&Hq)].
    + destruct ok; simpl; rewrite entries_of_snoc_eq, Hent; simpl; [eauto|by subst d].
    + eapply proc_ok_ext; [|eauto]. by rewrite !entries_of_snoc_ne.
  - split.
    + apply Forall_app. split; [done|]. by apply Forall_singleton.
    + intros q sq Hq. apply lookup_setp in Hq as [(->&->&_)|(Hneq&Hq)]; [done|]. eauto.
Qed.

(** Killing the lock holder once it has an entry: the entry keeps or loses its pending status. *)
Lemma inv_kill_holder w cs p s h' d st st' inodes' c' :
  Inv w cs -> w_procs w !! p = Some s -> in_section s = true ->
  w_hist w = h' ++ [Entry p d st] -> Forall not_decided h' -> entries_of p h' = [] ->
  st' <> SDecided ->
  (* either nothing changes, or a pending entry crashes, possibly leaving part of its append *)
  ((st' = st /\ inodes' = w_inodes w /\ c' = []) \/
   (st = SDecided /\ st' = SCrashed /\ contrib_ok (Entry p d SCrashed) c' /\
    length inodes' = length (w_inodes w) /\
    read_events (default (File [] TClean) (inodes' !! w_cur w)) = read_events (cur_file w) ++ c')) ->
  exists cs', Inv (World inodes' (w_cur w) None (setp w p PDead) (h' ++ [Entry p d st'])) cs' /\
     (c' = [] -> Forall (fun c => c = []) cs -> Forall (fun c => c = []) cs').
Proof.
  intros HI Hp Hin Hh Hnd Hent Hst' Hcase.
  destruct (holder_inv _ _ _ _ HI Hp Hin) as (Hlk&_&Hoth).
  destruct HI as [Hc Hcs Hf Hd Hpr Hl]. rewrite Hh in *. clear Hh.
  apply Forall2_snoc_inv_l in Hcs as (cs0&c&->&Hcs0&Hc0).
  pose proof (Forall2_length _ _ _ Hcs0) as Hlen.
  rewrite serialc_snoc in Hf by done.
  apply decs_ok_snoc in Hd as [Hd1 Hd2]; [|done].
  assert (exists c2, contrib_ok (Entry p d st') c2 /\ length inodes' = length (w_inodes w) /\
            read_events (default (File [] TClean) (inodes' !! w_cur w)) =
              app1 (serialc (read_events f0) h' cs0) (Entry p d st') c2 /\ (c' = [] -> c = [] -> c2 = []))
    as (c2&Hc2&Hlen'&Hf'&Hnil).
  { destruct Hcase as [(->&->&->)|(->&->&Hc'&Hl'&Hr)].
    - exists c. split; [done|]. split; [done|]. split; [exact Hf|done].
    - exists c'. split; [done|]. split; [done|]. split; [|done].
      rewrite Hr, Hf. apply contrib_ok_decided_inv in Hc0 as ->.
      unfold app1. simpl. by rewrite app_nil_r. }
  exists (cs0 ++ [c2]). split.
  - split; simpl.
    + lia.
    + by apply Forall2_snoc.
    + rewrite serialc_snoc by done. exact Hf'.
    + apply decs_ok_snoc; [done|]. split; [done|]. exact Hd2.
    + intros q sq Hq. apply lookup_setp in Hq as [(->&->&_)|(Hneq&Hq)].
      * simpl. rewrite entries_of_snoc_eq, Hent. simpl. lia.
      * eapply proc_ok_ext; [|eauto]. by rewrite !entries_of_snoc_ne.
    + split.
      * apply Forall_app. split; [done|]. by apply Forall_singleton.
      * intros q sq Hq. apply lookup_setp in Hq as [(->&->&_)|(Hneq&Hq)]; [done|]. eauto.
  - intros Hc' Hall. apply Forall_app in Hall as [Hall1 Hall2]. rewrite Forall_singleton in Hall2.
    apply Forall_app. split; [done|]. apply Forall_singleton. auto.
Qed.
Lemma inv_kill_locked w cs p t :
  Inv w cs -> w_procs w !! p = Some (PLocked t) ->
  Inv (World (w_inodes w) (w_cur w) None (setp w p PDead) (w_hist w)) cs.
Proof.
  intros HI Hp. destruct (holder_inv _ _ _ _ HI Hp eq_refl) as (Hlk&Hnd&Hoth).
  pose proof (inv_procs _ _ HI _ _ Hp) as [Hps0 Hent].
  destruct HI as [Hc Hcs Hf Hd Hpr Hl]. simpl in Hnd.
  split; simpl; try done.
  - intros q sq Hq. apply lookup_setp in Hq as [(->&->&_)|(Hneq&Hq)]; [|eauto].
    simpl. rewrite Hent. simpl. lia.
  - split; [done|].
    intros q sq Hq. apply lookup_setp in Hq as [(->&->&_)|(Hneq&Hq)]; [done|]. eauto.
Qed.

Lemma inv_kill_free w cs p s :
  Inv w cs -> w_procs w !! p = Some s -> in_section s = false -> entries_of p (w_hist w) = [] ->
  Inv (World (w_inodes w) (w_cur w) (release w p) (setp w p PDead) (w_hist w)) cs.
Proof.
  intros HI Hp Hin Hent. rewrite release_other by (by eapply free_inv).
  eapply inv_setp_free; eauto. simpl. rewrite Hent. simpl. lia.
Qed.

Definition not_torn (a : action) : Prop := match a with AKillTorn _ => False | _ => True end.
Definition nil_cs cs : Prop := Forall (fun c => c = []) cs.

Lemma step_inv w cs p a w' :
  Inv w cs -> step_fn w p a = Some w' ->
  exists cs', Inv w' cs' /\ (not_torn a -> nil_cs cs -> nil_cs cs').
Proof.
  intros HI Hs. unfold step_fn in Hs. destruct (w_procs w !! p) as [s|] eqn:Hp; [|done].
  pose proof (inv_procs _ _ HI _ _ Hp) as Hpo.
  destruct a as [| |c].
  - (* AStep *)
    destruct s; try done.
    + destruct (w_lock w) eqn:Hlk; inversion Hs; subst w'; clear Hs.
      * exists cs. split; [|done]. rewrite <- Hlk. eapply inv_setp_free; eauto. simpl. by destruct Hpo.
      * exists cs. split; [|done]. by apply inv_lock_ok.
    + inversion Hs; subst w'; clear Hs. exists (cs ++ [[]]). split; [exact (inv_load _ _ _ _ HI Hp)|].
      intros _ Hn. apply Forall_app. split; [done|]. by apply Forall_singleton.
    + inversion Hs; subst w'; clear Hs. exists cs. split; [by apply inv_append|done].
    + inversion Hs; subst w'; clear Hs. exists cs. split; [by apply inv_tmp|done].
    + inversion Hs; subst w'; clear Hs. exists cs. split; [by apply inv_rename|done].
    + inversion Hs; subst w'; clear Hs. exists cs. split; [by apply inv_unlock|done].
    + inversion Hs; subst w'; clear Hs. exists cs. split; [|done]. eapply inv_setp_free; eauto.
    + inversion Hs; subst w'; clear Hs. exists cs. split; [|done]. eapply inv_setp_free; eauto.
    + inversion Hs; subst w'; clear Hs. exists cs. split; [|done]. eapply inv_setp_free; eauto.
  - (* AKill *)
    destruct s; simpl in Hs; try done; inversion Hs; subst w'; clear Hs.
    + exists cs. split; [|done]. eapply inv_kill_free; eauto. by destruct Hpo.
    + destruct (holder_inv _ _ _ _ HI Hp eq_refl) as (Hlk&Hnd&Hoth). simpl in Hnd.
      rewrite mark_all_nd by done. rewrite (release_self _ _ Hlk).
      exists cs. split; [|done]. by eapply inv_kill_locked.
    + destruct (holder_inv _ _ _ _ HI Hp eq_refl) as (Hlk&Hh&Hoth). simpl in Hh.
      destruct Hh as (h'&Hh&Hnd&Hent&Ht&Hne). rewrite (release_self _ _ Hlk), Hh, mark_snoc_decided.
      destruct (inv_kill_holder w cs p _ h' _ SDecided SCrashed (w_inodes w) [] HI Hp eq_refl Hh Hnd Hent)
        as (cs'&HI'&Hn); [done| |exists cs'; split; [exact HI'|intros _; by apply Hn]].
      right. split; [done|]. split; [done|].
      split; [apply contrib_ok_crashed_nil|]. split; [done|]. by rewrite app_nil_r.
    + destruct (holder_inv _ _ _ _ HI Hp eq_refl) as (Hlk&Hh&Hoth). simpl in Hh.
      destruct Hh as (h'&d&Hh&Hnd&Hent&Ht&Hne). rewrite (release_self _ _ Hlk), Hh, mark_snoc_decided.
      destruct (inv_kill_holder w cs p _ h' _ SDecided SCrashed (w_inodes w) [] HI Hp eq_refl Hh Hnd Hent)
        as (cs'&HI'&Hn); [done| |exists cs'; split; [exact HI'|intros _; by apply Hn]].
      right. split; [done|]. split; [done|].
      split; [apply contrib_ok_crashed_nil|]. split; [done|]. by rewrite app_nil_r.
    + destruct (holder_inv _ _ _ _ HI Hp eq_refl) as (Hlk&Hh&Hoth). simpl in Hh.
      destruct Hh as (h'&d&Hh&Hnd&Hent&Ht&Hne). rewrite (release_self _ _ Hlk), Hh, mark_snoc_decided.
      destruct (inv_kill_holder w cs p _ h' _ SDecided SCrashed (w_inodes w) [] HI Hp eq_refl Hh Hnd Hent)
        as (cs'&HI'&Hn); [done| |exists cs'; split; [exact HI'|intros _; by apply Hn]].
      right. split; [done|]. split; [done|].
      split; [apply contrib_ok_crashed_nil|]. split; [done|]. by rewrite app_nil_r.
    + destruct (holder_inv _ _ _ _ HI Hp eq_refl) as (Hlk&Hh&Hoth). simpl in Hh.
      destruct Hh as (h'&d&st&Hh&Hnd&Hent&Hok&Hst). rewrite (release_self _ _ Hlk), Hh.
      destruct Hst as [->|[-> _]].
      * rewrite mark_snoc_nd by done.
        destruct (inv_kill_holder w cs p _ h' _ SCommitted SCommitted (w_inodes w) [] HI Hp eq_refl Hh Hnd Hent)
          as (cs'&HI'&Hn); [done|by left|exists cs'; split; [exact HI'|intros _; by apply Hn]].
      * rewrite mark_snoc_decided.
        destruct (inv_kill_holder w cs p _ h' _ SDecided SCrashed (w_inodes w) [] HI Hp eq_refl Hh Hnd Hent)
          as (cs'&HI'&Hn); [done| |exists cs'; split; [exact HI'|intros _; by apply Hn]].
        right. split; [done|]. split; [done|].
        split; [apply contrib_ok_crashed_nil|]. split; [done|]. by rewrite app_nil_r.
    + exists cs. split; [|done]. eapply inv_kill_free; eauto.
    + exists cs. split; [|done]. eapply inv_kill_free; eauto.
    + exists cs. split; [|done]. eapply inv_kill_free; eauto.
  - (* AKillTorn *)
    destruct s; try done. inversion Hs; subst w'; clear Hs.
    destruct (holder_inv _ _ _ _ HI Hp eq_refl) as (Hlk&Hh&Hoth). simpl in Hh.
    destruct Hh as (h'&Hh&Hnd&Hent&Ht&Hne). rewrite (release_self _ _ Hlk), Hh, mark_snoc_decided.
    destruct (torn_file_read (cur_file w) es c Ht) as (c'&Hpre&Hr).
    edestruct (inv_kill_holder w cs p _ h' (Append es) SDecided SCrashed
                 (set_cur w (torn_file (cur_file w) es c)) c' HI Hp eq_refl Hh Hnd Hent)
      as (cs'&HI'&_); [done| |exists cs'; split; [exact HI'|intros []]].
    right. split; [done|]. split; [done|]. split; [exact Hpre|]. split.
    + unfold set_cur. by rewrite insert_length.
    + unfold set_cur. rewrite list_lookup_insert by (by destruct HI). exact Hr.
Qed.
Lemma init_inv : init_ok ps0 -> Inv (init_world f0 ps0) [].
Proof.
  intros Hok. split; simpl.
  - lia.
  - constructor.
  - done.
  - done.
  - intros q s Hq. unfold init_ok in Hok. rewrite Forall_lookup in Hok.
    destruct (Hok _ _ Hq) as [[t ->]| ->]; simpl; done.
  - split; [constructor|]. intros q s Hq. unfold init_ok in Hok. rewrite Forall_lookup in Hok.
    destruct (Hok _ _ Hq) as [[t ->]| ->]; done.
Qed.

Lemma run_inv w cs (s : sched) :
  Inv w cs -> exists cs', Inv (run_schedule w s) cs' /\ (tear_free s -> nil_cs cs -> nil_cs cs').
Proof.
  revert w cs. induction s as [|[p a] s IH]; intros w cs HI; simpl.
  - eauto.
  - destruct (step_fn w p a) as [w'|] eqn:Hs; simpl.
    + destruct (step_inv _ _ _ _ _ HI Hs) as (cs1&HI1&Hn1).
      destruct (IH _ _ HI1) as (cs2&HI2&Hn2). exists cs2. split; [done|].
      intros Htf Hn. apply Forall_cons in Htf as [Ha Htf]. apply Hn2; [done|]. apply Hn1; [|done].
      by destruct a.
    + destruct (IH _ _ HI) as (cs2&HI2&Hn2). exists cs2. split; [done|].
      intros Htf. apply Forall_cons in Htf as [_ Htf]. eauto.
Qed.

End with_ps0.

(** * Auxiliary invariants that do not need [Inv] *)

Definition all_clean w : Prop := Forall (fun f => f_tail f = TClean) (w_inodes w).
Definition no_crashed h : Prop := Forall (fun e => en_status e <> SCrashed) h.

Lemma mark_Forall (P : entry -> Prop) h p st :
  Forall P h -> (forall q d, P (Entry q d SDecided) -> P (Entry q d st)) -> Forall P (mark h p st).
Proof.
  intros HP Hst. destruct (mark_spec h p st) as [->|(h'&d&->&->)]; [done|].
  apply Forall_app in HP as [HP1 HP2]. rewrite Forall_singleton in HP2.
  apply Forall_app. split; [done|]. apply Forall_singleton. auto.
Qed.

Lemma step_clean w p a w' :
  not_torn a -> step_fn w p a = Some w' -> all_clean w -> all_clean w'.
Proof.
  intros Ha Hs Hc. unfold step_fn in Hs. destruct (w_procs w !! p) as [s|]; [|done].
  unfold all_clean in *.
  destruct a as [| |c]; [| |done].
  - destruct s; try done; try (inversion Hs; subst w'; simpl; done).
    + destruct (w_lock w); inversion Hs; subst w'; done.
    + inversion Hs; subst w'; simpl. unfold set_cur. by apply Forall_insert.
    + inversion Hs; subst w'; simpl. apply Forall_app. split; [done|]. by apply Forall_singleton.
  - destruct (terminal s); [done|]. inversion Hs; subst w'; done.
Qed.

Lemma step_no_crashed w p w' :
  step_fn w p AStep = Some w' -> no_crashed (w_hist w) -> no_crashed (w_hist w').
Proof.
  intros Hs Hc. unfold step_fn in Hs. destruct (w_procs w !! p) as [s|]; [|done].
  unfold no_crashed in *.
  destruct s; try done; try (inversion Hs; subst w'; simpl; done);
    try (inversion Hs; subst w'; simpl; by apply mark_Forall).
  - destruct (w_lock w); inversion Hs; subst w'; done.
  - inversion Hs; subst w'; simpl. apply Forall_app. split; [done|]. by apply Forall_singleton.
Qed.

Lemma crash_free_tear_free (s : sched) : crash_free s -> tear_free s.
Proof.
  unfold crash_free, tear_free. intros H. eapply Forall_impl; [exact H|]. intros [p a]. simpl. by destruct a.
Qed.

Lemma run_clean w (s : sched) : tear_free s -> all_clean w -> all_clean (run_schedule w s).
Proof.
  revert w. induction s as [|[p a] s IH]; intros w Htf Hc; simpl; [done|].
  apply Forall_cons in Htf as [Ha Htf]. apply IH; [done|].
  destruct (step_fn w p a) as [w'|] eqn:Hs; simpl; [|done].
  eapply step_clean; [|exact Hs|done]. by destruct a.
Qed.
Lemma run_no_crashed w (s : sched) :
  crash_free s -> no_crashed (w_hist w) -> no_crashed (w_hist (run_schedule w s)).
Proof.
  revert w. induction s as [|[p a] s IH]; intros w Htf Hc; simpl; [done|].
  apply Forall_cons in Htf as [Ha Htf]. apply IH; [done|]. simpl in Ha.
  destruct a; try done.
  destruct (step_fn w p AStep) as [w'|] eqn:Hs; simpl; [|done].
  eapply step_no_crashed; eauto.
Qed.

(** * Reachability *)
Definition Reachable (w0 w : world) : Prop := rtc step w0 w.

Lemma run_reachable w (s : sched) : Reachable w (run_schedule w s).
Proof.
  revert w. induction s as [|[p a] s IH]; intros w; simpl; [apply rtc_refl|].
  destruct (step_fn w p a) as [w'|] eqn:Hs; simpl; [|apply IH].
  eapply rtc_l; [|apply IH]. by econstructor.
Qed.
Lemma reachable_run w0 w : Reachable w0 w -> exists s : sched, w = run_schedule w0 s.
Proof.
  induction 1 as [w|w1 w2 w3 Hs _ (s&->)]; [by exists []|].
  destruct Hs as [w1 p a w2 Hs]. exists ((p, a) :: s). simpl. by rewrite Hs.
Qed.
Lemma run_app w (s1 s2 : sched) : run_schedule w (s1 ++ s2) = run_schedule (run_schedule w s1) s2.
Proof. revert w. induction s1 as [|[p a] s1 IH]; intros w; simpl; [done|]. apply IH. Qed.

Lemma entries_of_nil p h : entries_of p h = [] <-> Forall (fun e => en_pid e <> p) h.
Proof.
  induction h as [|e h IH]; simpl; [split; [constructor|done]|].
  unfold entries_of in *. rewrite filter_cons. destruct (decide (en_pid e = p)) as [Heq|Hne].
  - split; [done|]. intros H. apply Forall_cons in H as [H _]. done.
  - rewrite IH. split; [by constructor|]. intros H. by apply Forall_cons in H as [_ H].
Qed.

Lemma inv_reach f0 ps (s : sched) :
  init_ok ps ->
  exists cs, Inv ps f0 (run_schedule (init_world f0 ps) s) cs /\ (tear_free s -> nil_cs cs).
Proof.
  intros Hps. destruct (run_inv ps f0 _ _ s (init_inv ps f0 Hps)) as (cs&HI&Hn).
  exists cs. split; [done|]. intros Htf. apply Hn; [done|]. constructor.
Qed.

(** Only the last entry of the history can be pending. *)
Lemma inv_front_nd ps f0 w cs :
  Inv ps f0 w cs -> exists h' tl, w_hist w = h' ++ tl /\ Forall not_decided h' /\ length tl <= 1 /\
    (w_lock w = None -> tl = []).
Proof.
  intros HI. pose proof (inv_lock _ _ _ _ HI) as HL. destruct (w_lock w) as [p|].
  - destruct HL as (sp&Hp&Hin&Hh&_). destruct sp; simpl in Hh; try done.
    + exists (w_hist w), []. rewrite app_nil_r. simpl. split; [done|]. split; [done|]. split; [lia|done].
    + destruct Hh as (h'&->&Hnd&_). exists h', [Entry p (Append es) SDecided]. split; [done|]. split; [done|]. split; [simpl; lia|done].
    + destruct Hh as (h'&d&->&Hnd&_). exists h', [Entry p d SDecided]. split; [done|]. split; [done|]. split; [simpl; lia|done].
    + destruct Hh as (h'&d&->&Hnd&_). exists h', [Entry p d SDecided]. split; [done|]. split; [done|]. split; [simpl; lia|done].
    + destruct Hh as (h'&d&st&->&Hnd&_). exists h', [Entry p d st]. split; [done|]. split; [done|]. split; [simpl; lia|done].
  - destruct HL as [Hnd _]. exists (w_hist w), []. rewrite app_nil_r. simpl. split; [done|]. split; [done|]. split; [lia|done].
Qed.
Lemma inv_split_nd ps f0 w cs h1 e h2 :
  Inv ps f0 w cs -> w_hist w = h1 ++ e :: h2 -> h2 <> [] \/ w_lock w = None -> not_decided e.
Proof.
  intros HI Hh Hcase. destruct (inv_front_nd _ _ _ _ HI) as (h'&tl&Hh'&Hnd&Hlen&Hnone).
  assert (length h1 < length h') as Hlt.
  { assert (length (w_hist w) = length h1 + S (length h2)) as H1 by (rewrite Hh, app_length; simpl; lia).
    assert (length (w_hist w) = length h' + length tl) as H2 by (rewrite Hh', app_length; lia).
    destruct Hcase as [Hne|Hl].
    - destruct h2; [done|]. simpl in *. lia.
    - rewrite (Hnone Hl) in H2. simpl in H2. lia. }
  assert (w_hist w !! length h1 = Some e) as Hl by (rewrite Hh; apply list_lookup_middle; done).
  rewrite Hh', lookup_app_l in Hl by done.
  rewrite Forall_lookup in Hnd. eauto.
Qed.

(** * A. Mutual exclusion and lock discipline *)

Theorem mutual_exclusion f0 ps (s : sched) :
  init_ok ps ->
  let w := run_schedule (init_world f0 ps) s in
  (forall p q sp sq, w_procs w !! p = Some sp -> in_section sp = true ->
                     w_procs w !! q = Some sq -> in_section sq = true -> p = q) /\
  (forall p, w_lock w = Some p <-> exists sp, w_procs w !! p = Some sp /\ in_section sp = true).
Proof.
  intros Hps w. destruct (inv_reach f0 ps s Hps) as (cs&HI&_). fold w in HI. split.
  - intros p q sp sq Hp Hip Hq Hiq.
    destruct (holder_inv _ _ _ _ _ _ HI Hp Hip) as [H1 _].
    destruct (holder_inv _ _ _ _ _ _ HI Hq Hiq) as [H2 _]. congruence.
  - intros p. split.
    + intros Hl. pose proof (inv_lock _ _ _ _ HI) as HL. rewrite Hl in HL.
      destruct HL as (sp&?&?&_). eauto.
    + intros (sp&Hp&Hin). by destruct (holder_inv _ _ _ _ _ _ HI Hp Hin) as [H1 _].
Qed.

Corollary mutual_exclusion_reachable f0 ps w :
  init_ok ps -> Reachable (init_world f0 ps) w ->
  (forall p q sp sq, w_procs w !! p = Some sp -> in_section sp = true ->
                     w_procs w !! q = Some sq -> in_section sq = true -> p = q) /\
  (forall p, w_lock w = Some p <-> exists sp, w_procs w !! p = Some sp /\ in_section sp = true).
Proof. intros Hps (s&->)%reachable_run. by apply mutual_exclusion. Qed.

Theorem no_waiting w p sp :
  w_procs w !! p = Some sp -> terminal sp = false -> exists w', step_fn w p AStep = Some w'.
Proof.
  intros Hp Ht. unfold step_fn. rewrite Hp. destruct sp; try done; eauto.
  destruct (w_lock w); eauto.
Qed.

Theorem kill_releases_lock w p w' :
  w_lock w = Some p -> step_fn w p AKill = Some w' -> w_lock w' = None.
Proof.
  intros Hl Hs. unfold step_fn in Hs. destruct (w_procs w !! p) as [sp|]; [|done].
  destruct (terminal sp); [done|]. inversion Hs; subst w'. simpl. by apply release_self.
Qed.

(** The step that makes a process [PDone OBusy] is its first and last, and changes nothing else. *)
Lemma busy_step w p a w' :
  step_fn w p a = Some w' -> w_procs w' !! p = Some (PDone OBusy) ->
  exists t q, w_procs w !! p = Some (PStart t) /\ a = AStep /\ w_lock w = Some q /\
    w' = World (w_inodes w) (w_cur w) (w_lock w) (setp w p (PDone OBusy)) (w_hist w).
Proof.
  intros Hs Hb. unfold step_fn in Hs. destruct (w_procs w !! p) as [sp|] eqn:Hp; [|done].
  assert (forall s' lk ino cu hi, w' = World ino cu lk (setp w p s') hi -> s' = PDone OBusy) as Hset.
  { intros s' lk ino cu hi ->. simpl in Hb. erewrite setp_same in Hb by done. congruence. }
  destruct a as [| |c].
  - destruct sp; try done;
      try (inversion Hs as [Hw]; symmetry in Hw; apply Hset in Hw; exfalso; revert Hw;
           repeat case_match; done).
    destruct (w_lock w) as [q|] eqn:Hl; inversion Hs as [Hw]; symmetry in Hw.
    + exists t, q. done.
    + apply Hset in Hw. done.
  - destruct (terminal sp); [done|]. inversion Hs as [Hw]; symmetry in Hw; apply Hset in Hw. done.
  - destruct sp; try done. inversion Hs as [Hw]; symmetry in Hw; apply Hset in Hw. done.
Qed.

Theorem lock_busy_no_entry f0 ps (s : sched) p :
  init_ok ps ->
  let w := run_schedule (init_world f0 ps) s in
  w_procs w !! p = Some (PDone OBusy) -> Forall (fun e => en_pid e <> p) (w_hist w).
Proof.
  intros Hps w Hp. destruct (inv_reach f0 ps s Hps) as (cs&HI&_). fold w in HI.
  apply entries_of_nil. exact (inv_procs _ _ _ _ HI _ _ Hp).
Qed.

(** The shape of any step: only the stepping process changes state, and the history changes in one of three ways. *)
Lemma step_shape w p a w' :
  step_fn w p a = Some w' ->
  exists sp s', w_procs w !! p = Some sp /\ terminal sp = false /\ w_procs w' = setp w p s' /\
    (w_hist w' = w_hist w \/ (exists st, w_hist w' = mark (w_hist w) p st) \/
     (exists t d, sp = PLocked t /\ w_hist w' = w_hist w ++ [Entry p d SDecided])).
Proof.
  intros Hs. unfold step_fn in Hs. destruct (w_procs w !! p) as [sp|] eqn:Hp; [|done].
  exists sp. destruct a as [| |c].
  - destruct sp; try done; try (inversion Hs; subst w'; simpl; by eauto 10).
    destruct (w_lock w); inversion Hs; subst w'; simpl; by eauto 10.
  - destruct (terminal sp) eqn:Ht; [done|]. inversion Hs; subst w'; simpl.
    destruct (in_section sp); eauto 10.
  - destruct sp; try done. inversion Hs; subst w'; simpl. eauto 10.
Qed.

Definition pids_ok w : Prop := Forall (fun e => en_pid e < length (w_procs w)) (w_hist w).
Lemma step_pids w p a w' : step_fn w p a = Some w' -> pids_ok w -> pids_ok w'.
Proof.
  intros Hs Hok. destruct (step_shape _ _ _ _ Hs) as (sp&s'&Hp&_&Hpr&Hh). unfold pids_ok in *.
  rewrite Hpr. unfold setp. rewrite insert_length.
  destruct Hh as [->|[(st&->)|(t&d&_&->)]]; [done|by apply mark_Forall|].
  apply Forall_app. split; [done|]. apply Forall_singleton. simpl. by eapply lookup_lt_Some.
Qed.
Lemma run_pids w (s : sched) : pids_ok w -> pids_ok (run_schedule w s).
Proof.
  revert w. induction s as [|[p a] s IH]; intros w Hok; simpl; [done|]. apply IH.
  destruct (step_fn w p a) as [w'|] eqn:Hs; simpl; [|done]. by eapply step_pids.
Qed.

(** * B. Serializability (crash-free runs from a clean file) *)

Lemma read_events_clean f : f_tail f = TClean -> read_events f = f_evs f.
Proof. intros Ht. unfold read_events. by rewrite Ht, app_nil_r. Qed.
Lemma file_clean_eq f evs : f_tail f = TClean -> read_events f = evs -> f = File evs TClean.
Proof. intros Ht Hr. rewrite read_events_clean in Hr by done. destruct f; simpl in *; congruence. Qed.
Lemma cur_file_clean w : all_clean w -> w_cur w < length (w_inodes w) -> f_tail (cur_file w) = TClean.
Proof.
  intros Hc Hlt. unfold cur_file. destruct (lookup_lt_is_Some_2 _ _ Hlt) as [f Hf].
  rewrite Hf. simpl. unfold all_clean in Hc. rewrite Forall_lookup in Hc. eauto.
Qed.
Lemma init_clean f0 ps : f_tail f0 = TClean -> all_clean (init_world f0 ps).
Proof. intros H. unfold all_clean. simpl. by apply Forall_singleton. Qed.

(** [kill_between_syscalls_atomic] (D) is the general statement; B is its crash-free instance. *)
Theorem kill_between_syscalls_atomic f0 ps (s : sched) :
  init_ok ps -> f_tail f0 = TClean -> tear_free s ->
  let w := run_schedule (init_world f0 ps) s in
  (* every inode consists of whole lines *)
  all_clean w /\
  (* the log is exactly the committed sections, in history order: a crashed or pending one contributes nothing *)
  cur_file w = File (serial (f_evs f0) (w_hist w)) TClean /\
  (* with the lock free nothing is pending *)
  (w_lock w = None -> Forall not_decided (w_hist w)) /\
  (* every section decided on the serial state before it; only the last entry can be pending *)
  (forall h1 e h2, w_hist w = h1 ++ e :: h2 ->
     (h2 <> [] \/ w_lock w = None -> not_decided e) /\
     exists t, ps !! en_pid e = Some (PStart t) /\ en_dec e = t (serial (f_evs f0) h1)).
Proof.
  intros Hps Hcl Htf w. destruct (inv_reach f0 ps s Hps) as (cs&HI&Hn). fold w in HI.
  specialize (Hn Htf).
  assert (all_clean w) as Hac by (apply run_clean; [done|by apply init_clean]).
  pose proof (Forall2_length _ _ _ (inv_cs _ _ _ _ HI)) as Hlen.
  split; [done|]. split; [|split].
  - apply file_clean_eq; [apply cur_file_clean; [done|by destruct HI]|].
    rewrite (inv_file _ _ _ _ HI). rewrite serialc_serial by done. by rewrite read_events_clean.
  - intros Hl. destruct (inv_front_nd _ _ _ _ HI) as (h'&tl&Hh&Hnd&_&Hnil).
    rewrite Hh, (Hnil Hl), app_nil_r. done.
  - intros h1 e h2 Hh. split; [by eapply inv_split_nd|].
    pose proof (inv_decs _ _ _ _ HI) as Hd. rewrite Hh in Hd, Hlen.
    apply decs_ok_split in Hd; [|done]. destruct Hd as (t&Ht1&Ht2). exists t. split; [done|].
    rewrite Ht2. rewrite serialc_serial, read_events_clean; [done|done| |].
    + rewrite take_length. rewrite app_length in Hlen. lia.
    + by apply Forall_take.
Qed.

Theorem serializable f0 ps (s : sched) :
  init_ok ps -> f_tail f0 = TClean -> crash_free s ->
  let w := run_schedule (init_world f0 ps) s in
  cur_file w = File (serial (f_evs f0) (w_hist w)) TClean /\
  (w_lock w = None -> Forall (fun e => en_status e = SCommitted) (w_hist w)) /\
  (forall h1 e h2, w_hist w = h1 ++ e :: h2 ->
     (h2 <> [] \/ w_lock w = None -> en_status e = SCommitted) /\ en_status e <> SCrashed /\
     exists t, ps !! en_pid e = Some (PStart t) /\ en_dec e = t (serial (f_evs f0) h1)).
Proof.
  intros Hps Hcl Hcf w.
  destruct (kill_between_syscalls_atomic f0 ps s Hps Hcl (crash_free_tear_free _ Hcf))
    as (_&Hfile&Hnone&Hsplit). fold w in Hfile, Hnone, Hsplit.
  assert (no_crashed (w_hist w)) as Hnc by (apply run_no_crashed; [done|constructor]).
  assert (forall e, e ∈ w_hist w -> not_decided e -> en_status e = SCommitted) as Hcm.
  { intros e He Hnd. unfold no_crashed in Hnc. rewrite Forall_forall in Hnc. specialize (Hnc e He).
    unfold not_decided in Hnd. by destruct (en_status e). }
  split; [done|]. split.
  - intros Hl. specialize (Hnone Hl). rewrite Forall_forall in Hnone |- *. auto.
  - intros h1 e h2 Hh. destruct (Hsplit h1 e h2 Hh) as [H1 H2].
    assert (e ∈ w_hist w) as He. { rewrite Hh. apply elem_of_app. right. by left. }
    split; [auto|]. split; [|done]. unfold no_crashed in Hnc. rewrite Forall_forall in Hnc. auto.
Qed.

Theorem whole_lines f0 ps (s : sched) :
  init_ok ps -> f_tail f0 = TClean -> crash_free s ->
  Forall (fun f => f_tail f = TClean) (w_inodes (run_schedule (init_world f0 ps) s)).
Proof. intros Hps Hcl Hcf. apply run_clean; [by apply crash_free_tear_free|by apply init_clean]. Qed.

(** What the file looks like while the lock is held, per holder state. *)
Theorem holder_state f0 ps (s : sched) :
  init_ok ps -> f_tail f0 = TClean -> tear_free s ->
  let w := run_schedule (init_world f0 ps) s in
  forall p, w_lock w = Some p -> exists sp, w_procs w !! p = Some sp /\
    match sp with
    | PLocked _ => Forall not_decided (w_hist w) /\ cur_file w = File (serial (f_evs f0) (w_hist w)) TClean
    | PAppend es => exists h', w_hist w = h' ++ [Entry p (Append es) SDecided] /\
        cur_file w = File (serial (f_evs f0) h') TClean
    | PTmp es' | PRename es' => exists h' d, w_hist w = h' ++ [Entry p d SDecided] /\
        cur_file w = File (serial (f_evs f0) h') TClean /\ es' = effect d (serial (f_evs f0) h')
    | PUnlock ok => exists h' d st, w_hist w = h' ++ [Entry p d st] /\
        cur_file w = File (effect d (serial (f_evs f0) h')) TClean
    | _ => False
    end.
Proof.
  intros Hps Hcl Htf w p Hl. destruct (inv_reach f0 ps s Hps) as (cs&HI&_). fold w in HI.
  destruct (kill_between_syscalls_atomic f0 ps s Hps Hcl Htf) as (_&Hfile&_). fold w in Hfile.
  pose proof (inv_lock _ _ _ _ HI) as HL. rewrite Hl in HL. destruct HL as (sp&Hp&Hin&Hh&_).
  exists sp. split; [done|]. destruct sp; simpl in Hh; try done.
  - destruct Hh as (h'&Hh&_). exists h'. split; [done|]. by rewrite Hfile, Hh, serial_snoc.
  - destruct Hh as (h'&d&Hh&_&_&Hes&_). exists h', d. split; [done|].
    rewrite Hfile, Hh, serial_snoc in *. simpl in *. split; [done|].
    by rewrite Hes, read_events_clean.
  - destruct Hh as (h'&d&Hh&_&_&Hes&_). exists h', d. split; [done|].
    rewrite Hfile, Hh, serial_snoc in *. simpl in *. split; [done|].
    by rewrite Hes, read_events_clean.
  - destruct Hh as (h'&d&st&Hh&_&_&_&Hst). exists h', d, st. split; [done|].
    rewrite Hfile, Hh, serial_snoc. simpl.
    destruct Hst as [->|[-> [->| ->]]]; simpl; by rewrite ?app_nil_r.
Qed.

Theorem outcome_meaning f0 ps (s : sched) p o :
  init_ok ps ->
  let w := run_schedule (init_world f0 ps) s in
  w_procs w !! p = Some (PDone o) ->
  match o with
  | OOk => exists d, entries_of p (w_hist w) = [Entry p d SCommitted] /\ d <> Abort
  | OFail => entries_of p (w_hist w) = [Entry p Abort SCommitted]
  | OBusy => entries_of p (w_hist w) = []
  end.
Proof.
  intros Hps w Hp. destruct (inv_reach f0 ps s Hps) as (cs&HI&_). fold w in HI.
  pose proof (inv_procs _ _ _ _ HI _ _ Hp) as Hpo. by destruct o.
Qed.

Theorem one_entry_per_process f0 ps (s : sched) p :
  init_ok ps -> length (entries_of p (w_hist (run_schedule (init_world f0 ps) s))) <= 1.
Proof.
  intros Hps. destruct (inv_reach f0 ps s Hps) as (cs&HI&_).
  set (w := run_schedule (init_world f0 ps) s) in *.
  destruct (w_procs w !! p) as [sp|] eqn:Hp.
  - pose proof (inv_procs _ _ _ _ HI _ _ Hp) as Hpo.
    destruct (in_section sp) eqn:Hin.
    + destruct (holder_inv _ _ _ _ _ _ HI Hp Hin) as (_&Hh&_).
      destruct sp; simpl in *; try done.
      * destruct Hpo as [_ ->]. simpl. lia.
      * destruct Hh as (h'&->&_&Hent&_). rewrite entries_of_snoc_eq, Hent. simpl. lia.
      * destruct Hh as (h'&d&->&_&Hent&_). rewrite entries_of_snoc_eq, Hent. simpl. lia.
      * destruct Hh as (h'&d&->&_&Hent&_). rewrite entries_of_snoc_eq, Hent. simpl. lia.
      * destruct Hh as (h'&d&st&->&_&Hent&_). rewrite entries_of_snoc_eq, Hent. simpl. lia.
    + destruct sp as [| | | | | |[]| | | | |]; simpl in *; try done;
        repeat match goal with
               | H : _ /\ _ |- _ => destruct H as [_ H]
               | H : exists _, _ |- _ => destruct H as (?&H&_)
               end; try rewrite Hpo; simpl; lia.
  - (* no such process: no entry can carry its pid *)
    assert (pids_ok w) as Hpids by (apply run_pids; constructor).
    apply lookup_ge_None in Hp.
    assert (entries_of p (w_hist w) = []) as ->; [|simpl; lia].
    apply entries_of_nil. eapply Forall_impl; [exact Hpids|]. simpl. intros e He. lia.
Qed.

(** * F. Readers (crash-free runs from a clean file) *)

Definition committed h : Prop := Forall (fun e => en_status e = SCommitted) h.

Lemma committed_nd h : committed h -> Forall not_decided h.
Proof. intros H. eapply Forall_impl; [exact H|]. intros e He. unfold not_decided. by rewrite He. Qed.
Lemma nd_nc_committed h : Forall not_decided h -> no_crashed h -> committed h.
Proof.
  unfold no_crashed, committed. rewrite !Forall_forall. intros H1 H2 e He.
  specialize (H1 e He). specialize (H2 e He). unfold not_decided in H1. by destruct (en_status e).
Qed.
Lemma prefix_snoc_inv {A} (l k : list A) x : l `prefix_of` k ++ [x] -> l `prefix_of` k \/ l = k ++ [x].
Proof.
  intros [m Hm]. destruct m as [|y m _] using rev_ind.
  - right. by rewrite app_nil_r in Hm.
  - left. rewrite app_assoc in Hm. apply app_inj_tail in Hm as [-> _]. by exists m.
Qed.
Lemma prefix_mark h' h p st : h' `prefix_of` h -> Forall not_decided h' -> h' `prefix_of` mark h p st.
Proof.
  intros Hpre Hnd. destruct (mark_spec h p st) as [->|(h1&d&->&->)]; [done|].
  apply prefix_snoc_inv in Hpre as [Hpre| ->]; [by apply prefix_app_r|].
  apply Forall_app in Hnd as [_ Hnd]. rewrite Forall_singleton in Hnd. exfalso. by apply Hnd.
Qed.
Lemma hist_prefix_step w p a w' h' :
  step_fn w p a = Some w' -> h' `prefix_of` w_hist w -> Forall not_decided h' -> h' `prefix_of` w_hist w'.
Proof.
  intros Hs Hpre Hnd. destruct (step_shape _ _ _ _ Hs) as (sp&s'&_&_&_&Hh).
  destruct Hh as [->|[(st&->)|(t&d&_&->)]]; [done|by apply prefix_mark|by apply prefix_app_r].
Qed.

Lemma cur_lookup w : w_cur w < length (w_inodes w) -> w_inodes w !! w_cur w = Some (cur_file w).
Proof.
  intros Hlt. unfold cur_file. destruct (lookup_lt_is_Some_2 _ _ Hlt) as [f Hf]. by rewrite Hf.
Qed.

Lemma step_inode_lookup w p w' i f :
  step_fn w p AStep = Some w' -> w_inodes w !! i = Some f ->
  w_inodes w' !! i = Some f \/
  (i = w_cur w /\ w_cur w' = w_cur w /\ exists es, w_procs w !! p = Some (PAppend es) /\
     w_hist w' = mark (w_hist w) p SCommitted).
Proof.
  intros Hs Hi. unfold step_fn in Hs. destruct (w_procs w !! p) as [sp|] eqn:Hp; [|done].
  destruct sp; try done; try (inversion Hs; subst w'; simpl; by left).
  - destruct (w_lock w); inversion Hs; subst w'; simpl; by left.
  - inversion Hs; subst w'; simpl. destruct (decide (i = w_cur w)) as [->|Hne].
    + right. eauto.
    + left. unfold set_cur. by rewrite list_lookup_insert_ne.
  - inversion Hs; subst w'; simpl. left. by apply lookup_app_l_Some.
Qed.

Section readers.
Variables (ps0 : list pst) (f0 : file).
Hypothesis Hf0 : f_tail f0 = TClean.
Notation evs0 := (f_evs f0).

(** Worlds reachable by crash-free schedules. *)
Definition CF w : Prop :=
  exists cs, Inv ps0 f0 w cs /\ nil_cs cs /\ all_clean w /\ no_crashed (w_hist w).

Lemma CF_init : init_ok ps0 -> CF (init_world f0 ps0).
Proof.
  intros Hps. exists []. split; [by apply init_inv|]. split; [constructor|].
  split; [by apply init_clean|constructor].
Qed.
Lemma CF_step w p w' : CF w -> step_fn w p AStep = Some w' -> CF w'.
Proof.
  intros (cs&HI&Hn&Hc&Hnc) Hs. destruct (step_inv _ _ _ _ _ _ _ HI Hs) as (cs'&HI'&Hn').
  exists cs'. split; [done|]. split; [by apply Hn'|]. split; [by eapply step_clean; eauto|].
  by eapply step_no_crashed.
Qed.
Lemma CF_run w (s : sched) : crash_free s -> CF w -> CF (run_schedule w s).
Proof.
  revert w. induction s as [|[p a] s IH]; intros w Hcf HC; simpl; [done|].
  apply Forall_cons in Hcf as [Ha Hcf]. apply IH; [done|]. simpl in Ha. destruct a; try done.
  destruct (step_fn w p AStep) as [w'|] eqn:Hs; simpl; [|done]. by eapply CF_step.
Qed.
Lemma CF_file w : CF w -> cur_file w = File (serial evs0 (w_hist w)) TClean.
Proof.
  intros (cs&HI&Hn&Hc&Hnc). pose proof (Forall2_length _ _ _ (inv_cs _ _ _ _ HI)) as Hlen.
  apply file_clean_eq; [apply cur_file_clean; [done|by destruct HI]|].
  rewrite (inv_file _ _ _ _ HI). rewrite serialc_serial by done. by rewrite read_events_clean.
Qed.
Lemma CF_cur w : CF w -> w_cur w < length (w_inodes w).
Proof. intros (cs&HI&_). by destruct HI. Qed.

(** The longest committed prefix of the history (everything but a possibly pending last entry). *)
Lemma CF_max_prefix w :
  CF w -> exists hm, hm `prefix_of` w_hist w /\ committed hm /\
    serial evs0 hm = serial evs0 (w_hist w) /\
    forall h0, h0 `prefix_of` w_hist w -> committed h0 -> h0 `prefix_of` hm.
Proof.
  intros (cs&HI&Hn&Hc&Hnc). destruct (inv_front_nd _ _ _ _ HI) as (h'&tl&Hh&Hnd&Hlen&_).
  rewrite Hh in *. apply Forall_app in Hnc as [Hnc1 Hnc2].
  pose proof (nd_nc_committed _ Hnd Hnc1) as Hcm.
  destruct tl as [|e [|? ?]]; simpl in Hlen; [| |lia].
  - exists h'. rewrite app_nil_r. done.
  - destruct (en_status e) eqn:He.
    + exists h'. split; [by apply prefix_app_r|]. split; [done|]. split; [by rewrite serial_snoc, He|].
      intros h0 Hpre Hc0. apply prefix_snoc_inv in Hpre as [?| ->]; [done|].
      apply Forall_app in Hc0 as [_ Hc0]. rewrite Forall_singleton in Hc0. congruence.
    + exists (h' ++ [e]). split; [done|]. split; [|done].
      apply Forall_app. split; [done|]. by apply Forall_singleton.
    + rewrite Forall_singleton in Hnc2. done.
Qed.

(** Inode [i] holds a state the store passed through, no older than [h0]. *)
Definition ino_inv h0 (i : nat) w : Prop :=
  exists h', w_inodes w !! i = Some (File (serial evs0 h') TClean) /\
    h0 `prefix_of` h' /\ h' `prefix_of` w_hist w /\ committed h'.

Lemma ino_step h0 i w p w' :
  CF w -> step_fn w p AStep = Some w' -> ino_inv h0 i w -> ino_inv h0 i w'.
Proof.
  intros HC Hs (h'&Hi&Hp0&Hph&Hcm). pose proof (CF_step _ _ _ HC Hs) as HC'.
  destruct (step_inode_lookup _ _ _ _ _ Hs Hi) as [Hi'|(->&Hcur&es&Hp&Hh')].
  - exists h'. split; [done|]. split; [done|]. split; [|done].
    eapply hist_prefix_step; eauto. by apply committed_nd.
  - destruct HC as (cs&HI&Hn&Hc&Hnc).
    destruct (holder_inv _ _ _ _ _ _ HI Hp eq_refl) as (_&Hh&_). simpl in Hh.
    destruct Hh as (hh&Hh&Hnd&_). rewrite Hh in *. rewrite mark_snoc_decided in Hh'.
    exists (w_hist w'). split; [|split; [|split]].
    + rewrite <- Hcur. rewrite cur_lookup by (by apply CF_cur). by rewrite (CF_file _ HC').
    + rewrite Hh'. etrans; [exact Hp0|].
      apply prefix_snoc_inv in Hph as [Hph| ->]; [by apply prefix_app_r|].
      apply Forall_app in Hcm as [_ Hcm]. rewrite Forall_singleton in Hcm. done.
    + done.
    + rewrite Hh'. apply Forall_app in Hnc as [Hnc _]. apply Forall_app. split.
      * by apply nd_nc_committed.
      * by apply Forall_singleton.
Qed.

Definition reader_inv h0 w (r : pid) : Prop :=
  match w_procs w !! r with
  | Some (ROpened j) | Some (RProbed j _) => ino_inv h0 j w
  | Some (RDone res) => exists h', res = Some (serial evs0 h') /\
      h0 `prefix_of` h' /\ h' `prefix_of` w_hist w /\ committed h'
  | _ => False
  end.

Lemma reader_step h0 w p w' r :
  CF w -> step_fn w p AStep = Some w' -> reader_inv h0 w r -> reader_inv h0 w' r.
Proof.
  intros HC Hs HR. destruct (decide (p = r)) as [->|Hne].
  - unfold reader_inv in HR. unfold step_fn in Hs.
    destruct (w_procs w !! r) as [sr|] eqn:Hr; [|done].
    destruct sr; try done; inversion Hs; subst w'; clear Hs; unfold reader_inv; simpl;
      erewrite setp_same by done.
    + exact HR.
    + destruct HR as (h'&Hi&Hp0&Hph&Hcm). exists h'. rewrite Hi. simpl.
      unfold read_with_probe, read_events. simpl. by rewrite app_nil_r.
  - destruct (step_shape _ _ _ _ Hs) as (sp&s'&_&_&Hpr&_).
    unfold reader_inv in *. rewrite Hpr, setp_ne by done.
    destruct (w_procs w !! r) as [sr|]; [|done]. destruct sr; try done.
    + by eapply ino_step.
    + by eapply ino_step.
    + destruct HR as (h'&Hres&Hp0&Hph&Hcm). exists h'. split; [done|]. split; [done|].
      split; [|done]. eapply hist_prefix_step; eauto. by apply committed_nd.
Qed.
Lemma reader_run h0 w (s : sched) r :
  crash_free s -> CF w -> reader_inv h0 w r -> reader_inv h0 (run_schedule w s) r.
Proof.
  revert w. induction s as [|[p a] s IH]; intros w Hcf HC HR; simpl; [done|].
  apply Forall_cons in Hcf as [Ha Hcf]. simpl in Ha. destruct a; try done.
  destruct (step_fn w p AStep) as [w'|] eqn:Hs; simpl; [|by apply IH].
  apply IH; [done|by eapply CF_step|by eapply reader_step].
Qed.

Lemma CF_cur_ino w : CF w -> ino_inv [] (w_cur w) w.
Proof.
  intros HC. destruct (CF_max_prefix _ HC) as (hm&Hpre&Hcm&Hser&_).
  exists hm. split; [|split; [apply prefix_nil|done]].
  rewrite cur_lookup by (by apply CF_cur). by rewrite (CF_file _ HC), Hser.
Qed.

Definition is_rd s : bool := match s with ROpened _ | RProbed _ _ | RDone _ => true | _ => false end.

Lemma step_inodes_length w p w' :
  step_fn w p AStep = Some w' ->
  length (w_inodes w') = length (w_inodes w) \/ w_cur w' = length (w_inodes w).
Proof.
  intros Hs. unfold step_fn in Hs. destruct (w_procs w !! p) as [sp|] eqn:Hp; [|done].
  destruct sp; try done; try (inversion Hs; subst w'; simpl; by left).
  - destruct (w_lock w); inversion Hs; subst w'; simpl; by left.
  - inversion Hs; subst w'; simpl. left. unfold set_cur. by rewrite insert_length.
  - inversion Hs; subst w'; simpl. by right.
Qed.
Lemma step_becomes_reader w p w' r sr' :
  step_fn w p AStep = Some w' -> w_procs w' !! r = Some sr' -> is_rd sr' = true ->
  (exists sr, w_procs w !! r = Some sr /\ is_rd sr = true) \/ sr' = ROpened (w_cur w').
Proof.
  intros Hs Hr' Hrd. destruct (decide (p = r)) as [->|Hne].
  - destruct (w_procs w !! r) as [sr|] eqn:Hr; unfold step_fn in Hs; rewrite Hr in Hs; [|done].
    destruct sr; try done; try (left; by eauto);
      try (inversion Hs; subst w'; simpl in *; erewrite setp_same in Hr' by done;
           inversion Hr'; subst sr'; try done; by right).
    + destruct (w_lock w); inversion Hs; subst w'; simpl in *; erewrite setp_same in Hr' by done;
        inversion Hr'; subst sr'; done.
    + inversion Hs; subst w'; simpl in *; erewrite setp_same in Hr' by done.
      inversion Hr'; subst sr'. exfalso. revert Hrd. repeat case_match; done.
  - destruct (step_shape _ _ _ _ Hs) as (sp&s'&_&_&Hpr&_). rewrite Hpr, setp_ne in Hr' by done.
    left. eauto.
Qed.

Definition GI w : Prop :=
  (forall i, i < length (w_inodes w) -> ino_inv [] i w) /\
  (forall r sr, w_procs w !! r = Some sr -> is_rd sr = true -> reader_inv [] w r).

Lemma GI_step w p w' : CF w -> GI w -> step_fn w p AStep = Some w' -> GI w'.
Proof.
  intros HC [HG1 HG2] Hs. pose proof (CF_step _ _ _ HC Hs) as HC'.
  assert (forall i, i < length (w_inodes w') -> ino_inv [] i w') as HG1'.
  { intros i Hi. destruct (decide (i < length (w_inodes w))) as [Hlt|Hge].
    - eapply ino_step; [exact HC|exact Hs|by apply HG1].
    - destruct (step_inodes_length _ _ _ Hs) as [Hl|Hc]; [lia|].
      assert (i = w_cur w') as ->.
      { pose proof (CF_cur _ HC').
        assert (length (w_inodes w') <= S (length (w_inodes w))); [|lia].
        clear -Hs. unfold step_fn in Hs. destruct (w_procs w !! p) as [sp|]; [|done].
        destruct sp; try done; try (inversion Hs; subst w'; simpl; lia).
        - destruct (w_lock w); inversion Hs; subst w'; simpl; lia.
        - inversion Hs; subst w'; simpl. unfold set_cur. rewrite insert_length. lia.
        - inversion Hs; subst w'; simpl. rewrite app_length. simpl. lia. }
      by apply CF_cur_ino. }
  split; [done|].
  intros r sr' Hr' Hrd. destruct (step_becomes_reader _ _ _ _ _ Hs Hr' Hrd) as [(sr&Hr&Hrd0)| ->].
  - eapply reader_step; [exact HC|exact Hs|by eapply HG2].
  - unfold reader_inv. rewrite Hr'. apply HG1'. by apply CF_cur.
Qed.
Lemma GI_run w (s : sched) : crash_free s -> CF w -> GI w -> GI (run_schedule w s).
Proof.
  revert w. induction s as [|[p a] s IH]; intros w Hcf HC HG; simpl; [done|].
  apply Forall_cons in Hcf as [Ha Hcf]. simpl in Ha. destruct a; try done.
  destruct (step_fn w p AStep) as [w'|] eqn:Hs; simpl; [|by apply IH].
  apply IH; [done|by eapply CF_step|by eapply GI_step].
Qed.

End readers.

(** A reader that completes returns, without error, a state the store actually passed through:
    the serial meaning of a committed prefix [h'] of the history.  Moreover, if the reader opened
    the log after [s1], then [h'] contains every section committed by then, and [h'] is a prefix of
    the history of every world from its scan step on (take [s2] to end with the scan step). *)
Theorem reader_prefix_state f0 ps (s1 s2 : sched) r res :
  init_ok ps -> f_tail f0 = TClean -> crash_free s1 -> crash_free s2 ->
  let w1 := run_schedule (init_world f0 ps) s1 in
  let w2 := run_schedule (init_world f0 ps) (s1 ++ (r, AStep) :: s2) in
  w_procs w1 !! r = Some RStart ->
  w_procs w2 !! r = Some (RDone res) ->
  exists h', res = Some (serial (f_evs f0) h') /\ committed h' /\ h' `prefix_of` w_hist w2 /\
    forall h0, h0 `prefix_of` w_hist w1 -> committed h0 -> h0 `prefix_of` h'.
Proof.
  intros Hps Hcl Hcf1 Hcf2 w1 w2 Hr1 Hr2.
  assert (CF ps f0 w1) as HC1 by (apply CF_run; [done|by apply CF_init]).
  destruct (CF_max_prefix ps f0 _ HC1) as (hm&Hpre&Hcm&Hser&Hmax).
  assert (step_fn w1 r AStep =
          Some (World (w_inodes w1) (w_cur w1) (w_lock w1) (setp w1 r (ROpened (w_cur w1))) (w_hist w1)))
    as Hs by (unfold step_fn; by rewrite Hr1).
  unfold w2 in Hr2. rewrite run_app in Hr2. simpl in Hr2. fold w1 in Hr2. rewrite Hs in Hr2. simpl in Hr2.
  pose proof (CF_step ps f0 _ _ _ HC1 Hs) as HC1'.
  set (w1' := World (w_inodes w1) (w_cur w1) (w_lock w1) (setp w1 r (ROpened (w_cur w1))) (w_hist w1)) in *.
  assert (reader_inv f0 hm w1' r) as HR.
  { unfold reader_inv, w1'. simpl. erewrite setp_same by done.
    exists hm. simpl. split; [|done].
    rewrite cur_lookup by (by eapply CF_cur). by rewrite (CF_file ps f0 Hcl _ HC1), Hser. }
  pose proof (reader_run ps f0 Hcl hm _ s2 r Hcf2 HC1' HR) as HR2.
  unfold reader_inv in HR2. rewrite Hr2 in HR2. destruct HR2 as (h'&Hres&Hp0&Hph&Hcm').
  exists h'. split; [done|]. split; [done|]. split.
  - unfold w2. rewrite run_app. simpl. fold w1. rewrite Hs. done.
  - intros h0 H0 Hc0. etrans; [by apply Hmax|done].
Qed.

(** The same without locating the open step. *)
Theorem reader_result f0 ps (s : sched) r res :
  init_ok ps -> f_tail f0 = TClean -> crash_free s ->
  let w := run_schedule (init_world f0 ps) s in
  w_procs w !! r = Some (RDone res) ->
  exists h', res = Some (serial (f_evs f0) h') /\ committed h' /\ h' `prefix_of` w_hist w.
Proof.
  intros Hps Hcl Hcf w Hr.
  assert (GI f0 w) as [_ HG].
  { apply (GI_run ps f0 Hcl); [done|by apply CF_init|]. split.
    - intros i Hi. simpl in Hi. assert (i = 0) as -> by lia.
      apply (CF_cur_ino ps f0 Hcl (init_world f0 ps)). by apply CF_init.
    - intros r' sr Hr' Hrd. simpl in Hr'. unfold init_ok in Hps. rewrite Forall_lookup in Hps.
      destruct (Hps _ _ Hr') as [[t ->]| ->]; done. }
  specialize (HG r _ Hr eq_refl). unfold reader_inv in HG. rewrite Hr in HG.
  destruct HG as (h'&?&?&?&?). eauto.
Qed.
(** * E. Crash safety with torn writes (arbitrary schedules, arbitrary initial tail) *)

Theorem crash_safe f0 ps (s : sched) :
  init_ok ps ->
  let w := run_schedule (init_world f0 ps) s in
  exists cs,
    (* what each section left in the log: all of its effect if committed, a prefix of its lines if
       it was an append that crashed, nothing otherwise *)
    Forall2 contrib_ok (w_hist w) cs /\
    read_events (cur_file w) = serialc (read_events f0) (w_hist w) cs /\
    (w_lock w = None -> Forall not_decided (w_hist w)) /\
    (forall h1 e h2, w_hist w = h1 ++ e :: h2 ->
       (h2 <> [] \/ w_lock w = None -> not_decided e) /\
       exists t, ps !! en_pid e = Some (PStart t) /\
         en_dec e = t (serialc (read_events f0) h1 (take (length h1) cs))).
Proof.
  intros Hps w. destruct (inv_reach f0 ps s Hps) as (cs&HI&_). fold w in HI.
  pose proof (Forall2_length _ _ _ (inv_cs _ _ _ _ HI)) as Hlen.
  exists cs. split; [by destruct HI|]. split; [by destruct HI|]. split.
  - intros Hl. destruct (inv_front_nd _ _ _ _ HI) as (h'&tl&Hh&Hnd&_&Hnil).
    rewrite Hh, (Hnil Hl), app_nil_r. done.
  - intros h1 e h2 Hh. split; [by eapply inv_split_nd|].
    pose proof (inv_decs _ _ _ _ HI) as Hd. rewrite Hh in Hd, Hlen.
    by apply decs_ok_split in Hd.
Qed.

Lemma serialc_app evs h1 h2 cs1 cs2 :
  length h1 = length cs1 ->
  serialc evs (h1 ++ h2) (cs1 ++ cs2) = serialc (serialc evs h1 cs1) h2 cs2.
Proof.
  revert evs cs1. induction h1 as [|e h1 IH]; intros evs [|c cs1] Hl; simpl in *; try done; try lia.
  apply IH. lia.
Qed.
Definition no_replace e : Prop := ~ (en_status e = SCommitted /\ exists es, en_dec e = Replace es).
Lemma serialc_no_replace evs h cs :
  Forall no_replace h -> exists b, serialc evs h cs = evs ++ b.
Proof.
  revert evs cs. induction h as [|e h IH]; intros evs cs Hnr; simpl.
  - exists []. by rewrite app_nil_r.
  - destruct cs as [|c cs]; [exists []; by rewrite app_nil_r|].
    apply Forall_cons in Hnr as [He Hnr].
    destruct (IH (app1 evs e c) cs Hnr) as (b&->).
    unfold app1. destruct (en_status e) eqn:Hst.
    + exists (c ++ b). by rewrite app_assoc.
    + destruct (en_dec e) as [|es|es] eqn:Hd; simpl.
      * by exists b.
      * exists (es ++ b). by rewrite app_assoc.
      * exfalso. apply He. eauto.
    + exists (c ++ b). by rewrite app_assoc.
Qed.

Theorem committed_never_lost f0 ps (s : sched) h1 e es h2 :
  init_ok ps ->
  let w := run_schedule (init_world f0 ps) s in
  w_hist w = h1 ++ e :: h2 -> en_status e = SCommitted -> en_dec e = Append es ->
  Forall no_replace h2 ->
  exists a b, read_events (cur_file w) = a ++ es ++ b.
Proof.
  intros Hps w Hh Hst Hd Hnr. destruct (inv_reach f0 ps s Hps) as (cs&HI&_). fold w in HI.
  pose proof (inv_cs _ _ _ _ HI) as Hcs. rewrite (inv_file _ _ _ _ HI). rewrite Hh in *.
  apply Forall2_app_inv_l in Hcs as (cs1&cs2&Hcs1&Hcs2&->).
  apply Forall2_cons_inv_l in Hcs2 as (c&cs3&_&_&->).
  rewrite serialc_app by (by eapply Forall2_length). simpl.
  destruct (serialc_no_replace (app1 (serialc (read_events f0) h1 cs1) e c) h2 cs3 Hnr) as (b&->).
  unfold app1. rewrite Hst, Hd. simpl. exists (serialc (read_events f0) h1 cs1), b.
  by rewrite app_assoc.
Qed.

(** A torn or unterminated tail can only be the trace of a crashed append (or of the initial file). *)
Definition upd (b : bool) e : bool :=
  match en_status e, en_dec e with
  | SCrashed, Append _ => true
  | SCommitted, Append (_ :: _) | SCommitted, Replace _ => false
  | _, _ => b
  end.
Definition dirtyb (b : bool) h : bool := fold_left upd h b.
Lemma dirtyb_snoc b h e : dirtyb b (h ++ [e]) = upd (dirtyb b h) e.
Proof. unfold dirtyb. by rewrite fold_left_app. Qed.

Definition no_effect e : Prop :=
  en_status e <> SCommitted \/ en_dec e = Abort \/ en_dec e = Append [].
Lemma dirtyb_split h :
  dirtyb false h = true ->
  exists h1 e es h2, h = h1 ++ e :: h2 /\ en_status e = SCrashed /\ en_dec e = Append es /\
    Forall no_effect h2.
Proof.
  induction h as [|x h IH] using rev_ind; [done|].
  rewrite dirtyb_snoc. unfold upd at 1. intros Hu.
  assert (no_effect x -> dirtyb false h = true ->
    exists h1 e es h2, h ++ [x] = h1 ++ e :: h2 /\ en_status e = SCrashed /\ en_dec e = Append es /\
      Forall no_effect h2) as Hrec.
  { intros Hx Hd. destruct (IH Hd) as (h1&e&es&h2&->&?&?&?). exists h1, e, es, (h2 ++ [x]).
    rewrite <- app_assoc. simpl. split; [done|]. split; [done|]. split; [done|].
    apply Forall_app. split; [done|]. by apply Forall_singleton. }
  unfold no_effect in Hrec.
  destruct (en_status x) eqn:Hst.
  - apply Hrec; [by left|done].
  - destruct (en_dec x) as [|[|? ?]|?] eqn:Hd; try done; apply Hrec; auto.
  - destruct (en_dec x) as [|es|?] eqn:Hd; try (apply Hrec; [by left|done]).
    exists h, x, es, []. auto.
Qed.

Section tail.
Variables (ps0 : list pst) (f0 : file).
Let b0 : bool := match f_tail f0 with TClean => false | _ => true end.
Definition tail_inv w : Prop := f_tail (cur_file w) <> TClean -> dirtyb b0 (w_hist w) = true.

Lemma tail_step w cs p a w' :
  Inv ps0 f0 w cs -> step_fn w p a = Some w' -> tail_inv w -> tail_inv w'.
Proof.
  intros HI Hs HT. unfold tail_inv in *.
  unfold step_fn in Hs. destruct (w_procs w !! p) as [sp|] eqn:Hp; [|done].
  assert (forall st, in_section sp = true -> f_tail (cur_file w) <> TClean ->
            (st = SCommitted -> exists ok, sp = PUnlock ok) ->
            dirtyb b0 (mark (w_hist w) p st) = true) as Hmark.
  { intros st Hin Hne Hcm. specialize (HT Hne).
    destruct (mark_spec (w_hist w) p st) as [->|(h'&d&Hh&->)]; [done|].
    rewrite Hh, dirtyb_snoc in HT. unfold upd in HT. simpl in HT.
    rewrite dirtyb_snoc. unfold upd. simpl. rewrite HT.
    destruct st; [done| |by destruct d].
    destruct (Hcm eq_refl) as (ok&->).
    destruct (holder_inv _ _ _ _ _ _ HI Hp eq_refl) as (_&Hh'&_). simpl in Hh'.
    destruct Hh' as (h2&d2&st2&Hh2&_&_&_&Hst2). rewrite Hh in Hh2.
    apply app_inj_tail in Hh2 as [_ Heq]. inversion Heq; subst d2 st2.
    destruct Hst2 as [?|[_ [->| ->]]]; done. }
  pose proof (inv_cur _ _ _ _ HI) as Hcur.
  destruct a as [| |c].
  - destruct sp; try done; try (inversion Hs; subst w'; simpl; rewrite ?cur_file_same; done).
    + destruct (w_lock w); inversion Hs; subst w'; simpl; rewrite ?cur_file_same; done.
    + inversion Hs; subst w'; simpl. rewrite cur_file_same. intros Hne.
      rewrite dirtyb_snoc. unfold upd. simpl. auto.
    + inversion Hs; subst w'; simpl. rewrite cur_file_set by done. done.
    + inversion Hs; subst w'; simpl. rewrite cur_file_snoc. done.
    + inversion Hs; subst w'; simpl. rewrite cur_file_same. intros Hne.
      apply Hmark; eauto.
  - destruct (terminal sp) eqn:Hterm; [done|]. inversion Hs; subst w'; simpl. rewrite cur_file_same.
    intros Hne. destruct (in_section sp) eqn:Hin; [|auto]. apply Hmark; try done.
  - destruct sp; try done. inversion Hs; subst w'; simpl. intros _.
    destruct (holder_inv _ _ _ _ _ _ HI Hp eq_refl) as (_&Hh'&_). simpl in Hh'.
    destruct Hh' as (h2&Hh2&_). rewrite Hh2, mark_snoc_decided, dirtyb_snoc. done.
Qed.
End tail.

Theorem torn_tail_only_after_crash f0 ps (s : sched) :
  init_ok ps -> f_tail f0 = TClean ->
  let w := run_schedule (init_world f0 ps) s in
  f_tail (cur_file w) <> TClean ->
  exists h1 e es h2, w_hist w = h1 ++ e :: h2 /\ en_status e = SCrashed /\ en_dec e = Append es /\
    Forall no_effect h2.
Proof.
  intros Hps Hcl w Hne. apply dirtyb_split.
  assert (forall (s : sched) w0 cs, Inv ps f0 w0 cs -> tail_inv f0 w0 -> tail_inv f0 (run_schedule w0 s)) as Hrun.
  { clear. induction s as [|[p a] s IH]; intros w0 cs HI HT; simpl; [done|].
    destruct (step_fn w0 p a) as [w'|] eqn:Hs; simpl; [|by eapply IH].
    destruct (step_inv _ _ _ _ _ _ _ HI Hs) as (cs'&HI'&_).
    eapply IH; [exact HI'|]. eapply tail_step; [exact HI|exact Hs|exact HT]. }
  specialize (Hrun s _ _ (init_inv ps f0 Hps)). unfold tail_inv in Hrun. rewrite Hcl in Hrun.
  apply Hrun; [|done]. intros H. done.
Qed.
(** A fresh writer running alone from any world with the lock free completes its section. *)
Lemma run_cons_some w p a w' (s : sched) :
  step_fn w p a = Some w' -> run_schedule w ((p, a) :: s) = run_schedule w' s.
Proof. intros H. simpl. by rewrite H. Qed.
Lemma run_cons_none w p a (s : sched) :
  step_fn w p a = None -> run_schedule w ((p, a) :: s) = run_schedule w s.
Proof. intros H. simpl. by rewrite H. Qed.
Lemma run_done w p o n :
  w_procs w !! p = Some (PDone o) -> run_schedule w (replicate n (p, AStep)) = w.
Proof.
  intros Hp. induction n as [|n IH]; simpl; [done|].
  unfold step_fn at 1. rewrite Hp. simpl. done.
Qed.

Opaque run_schedule.
Lemma sf_start w p t :
  w_procs w !! p = Some (PStart t) -> w_lock w = None ->
  step_fn w p AStep = Some (World (w_inodes w) (w_cur w) (Some p) (setp w p (PLocked t)) (w_hist w)).
Proof. intros Hp Hl. unfold step_fn. by rewrite Hp, Hl. Qed.
Lemma sf_locked w p t :
  w_procs w !! p = Some (PLocked t) ->
  step_fn w p AStep = Some (World (w_inodes w) (w_cur w) (w_lock w) (setp w p (next_of t (cur_file w)))
                             (w_hist w ++ [Entry p (t (read_events (cur_file w))) SDecided])).
Proof. intros Hp. unfold step_fn. by rewrite Hp. Qed.
Lemma sf_append w p es :
  w_procs w !! p = Some (PAppend es) ->
  step_fn w p AStep = Some (World (set_cur w (File (f_evs (cur_file w) ++ es) TClean)) (w_cur w) (w_lock w)
                        (setp w p (PUnlock true)) (mark (w_hist w) p SCommitted)).
Proof. intros Hp. unfold step_fn. by rewrite Hp. Qed.
Lemma sf_tmp w p es :
  w_procs w !! p = Some (PTmp es) ->
  step_fn w p AStep = Some (World (w_inodes w) (w_cur w) (w_lock w) (setp w p (PRename es)) (w_hist w)).
Proof. intros Hp. unfold step_fn. by rewrite Hp. Qed.
Lemma sf_rename w p es :
  w_procs w !! p = Some (PRename es) ->
  step_fn w p AStep = Some (World (w_inodes w ++ [File es TClean]) (length (w_inodes w)) (w_lock w)
                        (setp w p (PUnlock true)) (mark (w_hist w) p SCommitted)).
Proof. intros Hp. unfold step_fn. by rewrite Hp. Qed.
Lemma sf_unlock w p ok :
  w_procs w !! p = Some (PUnlock ok) ->
  step_fn w p AStep = Some (World (w_inodes w) (w_cur w) (release w p)
                        (setp w p (PDone (if ok then OOk else OFail))) (mark (w_hist w) p SCommitted)).
Proof. intros Hp. unfold step_fn. by rewrite Hp. Qed.
Lemma cur_file_eq (ino : list file) cur lk (pr : list pst) (hi : list entry) :
  cur_file (World ino cur lk pr hi) = default (File [] TClean) (ino !! cur).
Proof. done. Qed.

Ltac proj := cbn [w_inodes w_cur w_lock w_procs w_hist].
Ltac norm_world :=
  proj; unfold setp, release, set_cur; proj; rewrite ?cur_file_eq, ?list_insert_insert.

Theorem later_writers_succeed w p t :
  w_lock w = None -> w_cur w < length (w_inodes w) -> w_procs w !! p = Some (PStart t) ->
  let d := t (read_events (cur_file w)) in
  let w' := run_schedule w (replicate 5 (p, AStep)) in
  cur_file w' = commit d (cur_file w) /\
  read_events (cur_file w') = effect d (read_events (cur_file w)) /\
  w_lock w' = None /\
  w_procs w' !! p = Some (PDone (match d with Abort => OFail | _ => OOk end)) /\
  w_hist w' = w_hist w ++ [Entry p d SCommitted] /\
  ((exists (x : ev) es, d = Append (x :: es)) \/ (exists es, d = Replace es) -> f_tail (cur_file w') = TClean).
Proof.
  intros Hl Hcur Hp.
  destruct w as [ino cur lk pr hi]. simpl in Hl, Hcur, Hp. subst lk.
  pose proof (lookup_lt_Some _ _ _ Hp) as Hlt.
  assert (forall x, <[p:=x]> pr !! p = Some x) as Hlk by (intros; by apply list_lookup_insert).
  intros d w'. unfold w', d. clear w' d. cbn [replicate]. rewrite cur_file_eq.
  destruct (lookup_lt_is_Some_2 _ _ Hcur) as [f Hf]. rewrite Hf. cbn [default from_option id].
  (* step 1: take the lock;  step 2: load and decide *)
  erewrite run_cons_some by (by apply sf_start). norm_world.
  erewrite run_cons_some by (apply (sf_locked _ _ t); proj; apply Hlk). norm_world.
  rewrite Hf. cbn [default from_option id]. unfold next_of.
  assert (decide (p = p) = left eq_refl) as Hdec.
  { destruct (decide (p = p)) as [Heq|]; [|done]. f_equal. apply (proof_irrel _). }
  destruct (t (read_events f)) as [|[|e0 es]|es] eqn:Hd.
  - (* Abort *)
    erewrite run_cons_some by (apply (sf_unlock _ _ false); proj; apply Hlk). norm_world.
    rewrite Hdec, mark_snoc_decided.
    erewrite (run_done _ p OFail 2) by (proj; apply Hlk). rewrite cur_file_eq. proj. rewrite Hf.
    split; [done|]. split; [done|]. split; [done|]. split; [apply Hlk|]. split; [done|].
    intros [(?&?&?)|(?&?)]; done.
  - (* Append [] *)
    erewrite run_cons_some by (apply (sf_unlock _ _ true); proj; apply Hlk). norm_world.
    rewrite Hdec, mark_snoc_decided.
    erewrite (run_done _ p OOk 2) by (proj; apply Hlk). rewrite cur_file_eq. proj. rewrite Hf.
    split; [done|]. split; [simpl; by rewrite app_nil_r|]. split; [done|]. split; [apply Hlk|]. split; [done|].
    intros [(?&?&?)|(?&?)]; done.
  - (* Append (e0 :: es) *)
    destruct (f_tail f) eqn:Ht.
    + erewrite run_cons_some by (apply (sf_append _ _ (e0 :: es)); proj; apply Hlk). norm_world.
      rewrite Hf. cbn [default from_option id]. rewrite mark_snoc_decided.
      erewrite run_cons_some by (apply (sf_unlock _ _ true); proj; apply Hlk). norm_world.
      rewrite Hdec, mark_snoc_nd by done.
      erewrite (run_done _ p OOk 1) by (proj; apply Hlk). rewrite cur_file_eq. proj.
      rewrite list_lookup_insert by done. cbn [default from_option id].
      unfold commit. rewrite !(read_events_clean f Ht).
      split; [done|]. split; [unfold read_events; simpl; by rewrite app_nil_r|].
      split; [done|]. split; [apply Hlk|]. split; [done|]. done.
    + erewrite run_cons_some by (apply (sf_tmp _ _ (read_events f ++ e0 :: es)); proj; apply Hlk). norm_world.
      erewrite run_cons_some by (apply (sf_rename _ _ (read_events f ++ e0 :: es)); proj; apply Hlk). norm_world.
      rewrite mark_snoc_decided.
      erewrite run_cons_some by (apply (sf_unlock _ _ true); proj; apply Hlk). norm_world.
      rewrite Hdec, mark_snoc_nd by done.
      Transparent run_schedule. cbn [run_schedule]. Opaque run_schedule.
      rewrite cur_file_eq. proj. rewrite list_lookup_middle by done. cbn [default from_option id]. unfold commit.
      split; [done|]. split; [unfold read_events at 1; simpl; by rewrite app_nil_r|].
      split; [done|]. split; [apply Hlk|]. split; [done|]. done.
    + erewrite run_cons_some by (apply (sf_tmp _ _ (read_events f ++ e0 :: es)); proj; apply Hlk). norm_world.
      erewrite run_cons_some by (apply (sf_rename _ _ (read_events f ++ e0 :: es)); proj; apply Hlk). norm_world.
      rewrite mark_snoc_decided.
      erewrite run_cons_some by (apply (sf_unlock _ _ true); proj; apply Hlk). norm_world.
      rewrite Hdec, mark_snoc_nd by done.
      Transparent run_schedule. cbn [run_schedule]. Opaque run_schedule.
      rewrite cur_file_eq. proj. rewrite list_lookup_middle by done. cbn [default from_option id]. unfold commit.
      split; [done|]. split; [unfold read_events at 1; simpl; by rewrite app_nil_r|].
      split; [done|]. split; [apply Hlk|]. split; [done|]. done.
  - (* Replace es *)
    erewrite run_cons_some by (apply (sf_tmp _ _ es); proj; apply Hlk). norm_world.
    erewrite run_cons_some by (apply (sf_rename _ _ es); proj; apply Hlk). norm_world.
    rewrite mark_snoc_decided.
    erewrite run_cons_some by (apply (sf_unlock _ _ true); proj; apply Hlk). norm_world.
    rewrite Hdec, mark_snoc_nd by done.
    Transparent run_schedule. cbn [run_schedule]. Opaque run_schedule.
    rewrite cur_file_eq. proj. rewrite list_lookup_middle by done. cbn [default from_option id]. unfold commit.
    split; [done|]. split; [unfold read_events at 1; simpl; by rewrite app_nil_r|].
    split; [done|]. split; [apply Hlk|]. split; [done|]. done.
Qed.
Corollary later_writers_succeed_reachable f0 ps (s : sched) p t :
  init_ok ps ->
  let w := run_schedule (init_world f0 ps) s in
  w_lock w = None -> w_procs w !! p = Some (PStart t) ->
  let d := t (read_events (cur_file w)) in
  let w' := run_schedule w (replicate 5 (p, AStep)) in
  cur_file w' = commit d (cur_file w) /\
  read_events (cur_file w') = effect d (read_events (cur_file w)) /\
  w_lock w' = None /\
  w_procs w' !! p = Some (PDone (match d with Abort => OFail | _ => OOk end)) /\
  w_hist w' = w_hist w ++ [Entry p d SCommitted] /\
  ((exists (x : ev) es, d = Append (x :: es)) \/ (exists es, d = Replace es) -> f_tail (cur_file w') = TClean).
Proof.
  intros Hps w Hl Hp. destruct (inv_reach f0 ps s Hps) as (cs&HI&_). fold w in HI.
  apply later_writers_succeed; [done|by destruct HI|done].
Qed.

(** * C. Real-time order *)

(** Entries are never removed or reordered, pid and decision never change, and a status changes
    only from [SDecided]. *)
Definition hist_ext h1 h2 : Prop :=
  forall i e, h1 !! i = Some e ->
    exists st, h2 !! i = Some (Entry (en_pid e) (en_dec e) st) /\ (en_status e <> SDecided -> st = en_status e).

Lemma hist_ext_refl h : hist_ext h h.
Proof. intros i [q d st] Hi. exists st. done. Qed.
Lemma hist_ext_trans h1 h2 h3 : hist_ext h1 h2 -> hist_ext h2 h3 -> hist_ext h1 h3.
Proof.
  intros H12 H23 i e Hi. destruct (H12 i e Hi) as (st&Hi2&Hst).
  destruct (H23 i _ Hi2) as (st'&Hi3&Hst'). simpl in *. exists st'. split; [done|].
  intros Hnd. rewrite <- (Hst Hnd). apply Hst'. by rewrite (Hst Hnd).
Qed.
Lemma hist_ext_snoc h x : hist_ext h (h ++ [x]).
Proof.
  intros i [q d st] Hi. exists st. split; [|done]. by apply lookup_app_l_Some.
Qed.
Lemma hist_ext_mark h p st : hist_ext h (mark h p st).
Proof.
  destruct (mark_spec h p st) as [->|(h'&d&->&->)]; [apply hist_ext_refl|].
  intros i e Hi. apply lookup_app_Some in Hi as [Hi|[Hge Hi]].
  - destruct e as [q d' st']. exists st'. split; [|done]. by apply lookup_app_l_Some.
  - apply list_lookup_singleton_Some in Hi as [Hi <-]. exists st. simpl. split; [|done].
    assert (i = length h') as -> by lia. by apply list_lookup_middle.
Qed.
Lemma step_hist_ext w p a w' : step_fn w p a = Some w' -> hist_ext (w_hist w) (w_hist w').
Proof.
  intros Hs. destruct (step_shape _ _ _ _ Hs) as (sp&s'&_&_&_&Hh).
  destruct Hh as [->|[(st&->)|(t&d&_&->)]];
    [apply hist_ext_refl|apply hist_ext_mark|apply hist_ext_snoc].
Qed.
Lemma run_hist_ext w (s : sched) : hist_ext (w_hist w) (w_hist (run_schedule w s)).
Proof.
  revert w. induction s as [|[p a] s IH]; intros w; [apply hist_ext_refl|].
  Transparent run_schedule. simpl.
  destruct (step_fn w p a) as [w'|] eqn:Hs; simpl; [|apply IH].
  eapply hist_ext_trans; [by eapply step_hist_ext|apply IH].
Qed.

(** Entries are appended only by the [PLocked] step of their own process: this is [step_shape].
    Hence the history after [s1] is a prefix of any later history, up to the status of its last
    (possibly pending) entry. *)
Theorem hist_order_is_lock_order f0 ps (s1 s2 : sched) :
  init_ok ps ->
  let h1 := w_hist (run_schedule (init_world f0 ps) s1) in
  let h2 := w_hist (run_schedule (init_world f0 ps) (s1 ++ s2)) in
  hist_ext h1 h2 /\
  (forall i e, h1 !! i = Some e -> S i < length h1 -> h2 !! i = Some e).
Proof.
  intros Hps h1 h2.
  assert (hist_ext h1 h2) as Hext by (unfold h1, h2; rewrite run_app; apply run_hist_ext).
  split; [done|]. intros i e Hi Hlt. destruct (Hext i e Hi) as (st&Hi2&Hst).
  destruct (inv_reach f0 ps s1 Hps) as (cs&HI&_).
  assert (not_decided e) as Hnd.
  { apply elem_of_list_split_length in Hi as (l1&l2&Hh&Hlen). fold h1 in Hh.
    eapply inv_split_nd; [exact HI|exact Hh|]. left. intros Hl2.
    subst l2. rewrite Hh, app_length in Hlt. simpl in Hlt. lia. }
  rewrite Hi2. rewrite (Hst Hnd). by destruct e.
Qed.

Lemma mark_pids h p st : en_pid <$> mark h p st = en_pid <$> h.
Proof.
  destruct (mark_spec h p st) as [->|(h'&d&->&->)]; [done|]. by rewrite !fmap_app.
Qed.

(** If [p] has finished (or died) when [q] has not yet tried the lock, [p]'s section precedes
    [q]'s in the serial order. *)
Theorem real_time_order f0 ps (s1 s2 : sched) p q sp t :
  init_ok ps ->
  let w1 := run_schedule (init_world f0 ps) s1 in
  let w2 := run_schedule (init_world f0 ps) (s1 ++ s2) in
  w_procs w1 !! p = Some sp -> terminal sp = true ->
  w_procs w1 !! q = Some (PStart t) ->
  forall i j ep eq, w_hist w2 !! i = Some ep -> en_pid ep = p ->
                    w_hist w2 !! j = Some eq -> en_pid eq = q -> i < j.
Proof.
  intros Hps w1 w2 Hp Hterm Hq.
  set (n := length (w_hist w1)).
  set (P := fun w : world => w_procs w !! p = Some sp /\
     (forall i, (en_pid <$> w_hist w) !! i = Some p -> i < n) /\
     (forall j, (en_pid <$> w_hist w) !! j = Some q -> n <= j) /\ n <= length (w_hist w)).
  assert (P w1) as HP1.
  { split; [done|]. split; [|split; [|done]].
    - intros i Hi. apply lookup_lt_Some in Hi. by rewrite fmap_length in Hi.
    - intros j Hj. exfalso. destruct (inv_reach f0 ps s1 Hps) as (cs&HI&_). fold w1 in HI.
      pose proof (inv_procs _ _ _ _ HI _ _ Hq) as [_ Hent]. apply entries_of_nil in Hent.
      rewrite list_lookup_fmap in Hj. destruct (w_hist w1 !! j) as [e|] eqn:He; [|done].
      simpl in Hj. inversion Hj as [Hpid]. rewrite Forall_lookup in Hent. by apply (Hent _ _ He). }
  assert (forall (s : sched) w, P w -> P (run_schedule w s)) as Hrun.
  { clear HP1. induction s as [|[p' a] s IH]; intros w HP; [done|]. simpl.
    destruct (step_fn w p' a) as [w'|] eqn:Hs; simpl; [|by apply IH]. apply IH.
    destruct HP as (Hsp&Hpi&Hqj&Hn).
    destruct (step_shape _ _ _ _ Hs) as (sp'&s'&Hp'&Hterm'&Hpr&Hh).
    assert (p' <> p) as Hne by (intros ->; congruence).
    split; [by rewrite Hpr, setp_ne|].
    destruct Hh as [->|[(st&->)|(t'&d&_&->)]].
    - done.
    - rewrite mark_pids, mark_length. done.
    - rewrite fmap_app, app_length. simpl. split; [|split; [|lia]].
      + intros i Hi. apply lookup_app_Some in Hi as [Hi|[Hge Hi]]; [by apply Hpi|].
        apply list_lookup_singleton_Some in Hi as [_ Hi]. done.
      + intros j Hj. apply lookup_app_Some in Hj as [Hj|[Hge Hj]]; [by apply Hqj|].
        rewrite fmap_length in Hge. lia. }
  intros i j ep eq Hi Hpi Hj Hqj.
  assert (P w2) as (_&H1&H2&_) by (unfold w2; rewrite run_app; by apply Hrun).
  assert (i < n); [|assert (n <= j); [|lia]].
  - apply H1. rewrite list_lookup_fmap, Hi. simpl. by rewrite Hpi.
  - apply H2. rewrite list_lookup_fmap, Hj. simpl. by rewrite Hqj.
Qed.
Opaque run_schedule.
(** * A (cont.) A process that found the lock busy had no effect at all *)
Transparent run_schedule.
Definition pre_busy s : bool := match s with PStart _ | PDone OBusy => true | _ => false end.

Lemma busy_step' w p a w' s' :
  step_fn w p a = Some w' -> w_procs w' !! p = Some s' -> pre_busy s' = true ->
  exists t q, w_procs w !! p = Some (PStart t) /\ a = AStep /\ w_lock w = Some q /\ s' = PDone OBusy /\
    w' = World (w_inodes w) (w_cur w) (w_lock w) (setp w p (PDone OBusy)) (w_hist w).
Proof.
  intros Hs Hb Hpb. unfold step_fn in Hs. destruct (w_procs w !! p) as [sp|] eqn:Hp; [|done].
  assert (forall s2 lk ino cu hi, w' = World ino cu lk (setp w p s2) hi -> s2 = s') as Hset.
  { intros s2 lk ino cu hi ->. simpl in Hb. erewrite setp_same in Hb by done. congruence. }
  destruct a as [| |c].
  - destruct sp; try done;
      try (inversion Hs as [Hw]; symmetry in Hw; apply Hset in Hw; subst s'; exfalso; revert Hpb;
           repeat case_match; done).
    destruct (w_lock w) as [q|] eqn:Hl; inversion Hs as [Hw]; symmetry in Hw.
    + pose proof (Hset _ _ _ _ _ Hw) as <-. exists t, q. done.
    + apply Hset in Hw. subst s'. done.
  - destruct (terminal sp); [done|]. inversion Hs as [Hw]; symmetry in Hw; apply Hset in Hw. subst s'. simpl in Hpb. done.
  - destruct sp; try done. inversion Hs as [Hw]; symmetry in Hw; apply Hset in Hw. subst s'. simpl in Hpb. done.
Qed.
Lemma step_pre_busy w p' a w' p s' :
  step_fn w p' a = Some w' -> w_procs w' !! p = Some s' -> pre_busy s' = true ->
  exists s0, w_procs w !! p = Some s0 /\ pre_busy s0 = true.
Proof.
  intros Hs Hp Hpb. destruct (decide (p' = p)) as [->|Hne].
  - destruct (busy_step' _ _ _ _ _ Hs Hp Hpb) as (t&q&Hp0&_). eauto.
  - destruct (step_shape _ _ _ _ Hs) as (sp&s2&_&_&Hpr&_). rewrite Hpr, setp_ne in Hp by done. eauto.
Qed.
Lemma run_pre_busy w (s : sched) p s' :
  w_procs (run_schedule w s) !! p = Some s' -> pre_busy s' = true ->
  exists s0, w_procs w !! p = Some s0 /\ pre_busy s0 = true.
Proof.
  revert w. induction s as [|[p' a] s IH]; intros w Hp Hpb; simpl in Hp; [eauto|].
  destruct (step_fn w p' a) as [w'|] eqn:Hs; simpl in Hp; [|by eapply IH].
  destruct (IH _ Hp Hpb) as (s1&Hp1&Hpb1). by eapply step_pre_busy.
Qed.

(** If [p] ends [PDone OBusy] it has no history entry, and every enabled action of [p] anywhere in
    the schedule left the inodes, the current inode, the lock and the history unchanged. *)
Theorem lock_busy_no_effect f0 ps (s : sched) p :
  init_ok ps ->
  w_procs (run_schedule (init_world f0 ps) s) !! p = Some (PDone OBusy) ->
  Forall (fun e => en_pid e <> p) (w_hist (run_schedule (init_world f0 ps) s)) /\
  forall (s1 s2 : sched) a w1', s = s1 ++ (p, a) :: s2 ->
    let w1 := run_schedule (init_world f0 ps) s1 in
    step_fn w1 p a = Some w1' ->
    w_inodes w1' = w_inodes w1 /\ w_cur w1' = w_cur w1 /\ w_lock w1' = w_lock w1 /\
    w_hist w1' = w_hist w1.
Proof.
  intros Hps Hb. split; [by apply lock_busy_no_entry|].
  intros s1 s2 a w1' -> w1 Hs. rewrite run_app in Hb. fold w1 in Hb. simpl in Hb. rewrite Hs in Hb.
  simpl in Hb. destruct (run_pre_busy _ _ _ _ Hb eq_refl) as (s0&Hp0&Hpb0).
  destruct (busy_step' _ _ _ _ _ Hs Hp0 Hpb0) as (t&q&_&_&_&_&->). done.
Qed.
Opaque run_schedule.
(** * F (cont.) A reader can fail only if a write was torn between its probe and its scan *)
Transparent run_schedule.
Definition ino_at w (i : nat) : file := default (File [] TClean) (w_inodes w !! i).

Lemma step_ino_tail w p a w' i :
  step_fn w p a = Some w' -> not_torn a -> f_tail (ino_at w i) = TClean -> f_tail (ino_at w' i) = TClean.
Proof.
  intros Hs Ha Hc. unfold step_fn in Hs. destruct (w_procs w !! p) as [sp|] eqn:Hp; [|done].
  unfold ino_at in *.
  destruct a as [| |c]; [| |done].
  - destruct sp; try done; try (inversion Hs; subst w'; simpl; done).
    + destruct (w_lock w); inversion Hs; subst w'; done.
    + inversion Hs; subst w'; simpl. unfold set_cur.
      destruct (decide (i = w_cur w)) as [->|Hne]; [|by rewrite list_lookup_insert_ne].
      destruct (decide (w_cur w < length (w_inodes w))).
      * by rewrite list_lookup_insert.
      * by rewrite list_insert_ge by lia.
    + inversion Hs; subst w'; simpl.
      destruct (decide (i < length (w_inodes w))).
      * by rewrite lookup_app_l.
      * rewrite lookup_app_r by lia. destruct (i - length (w_inodes w)) as [|k]; simpl; [done|].
        by destruct k.
  - destruct (terminal sp); [done|]. inversion Hs; subst w'; done.
Qed.

Theorem reader_may_fail_only_after_torn_crash w1 r i (s2 : sched) res :
  w_procs w1 !! r = Some (ROpened i) -> tear_free s2 ->
  w_procs (run_schedule w1 ((r, AStep) :: s2)) !! r = Some (RDone res) -> res <> None.
Proof.
  intros Hr Htf. simpl. unfold step_fn at 1. rewrite Hr. simpl.
  set (c := probe (default (File [] TClean) (w_inodes w1 !! i))).
  set (w1' := World (w_inodes w1) (w_cur w1) (w_lock w1) (setp w1 r (RProbed i c)) (w_hist w1)).
  set (Q := fun w : world => (c = true -> f_tail (ino_at w i) = TClean) /\
     match w_procs w !! r with
     | Some (RProbed j c') => j = i /\ c' = c
     | Some (RDone res) => res <> None
     | Some PDead => True
     | _ => False
     end).
  assert (Q w1') as HQ.
  { split.
    - unfold c, probe, ino_at, w1'. simpl. by destruct (f_tail _).
    - unfold w1'. simpl. erewrite setp_same by done. done. }
  assert (forall (s : sched) w, tear_free s -> Q w -> Q (run_schedule w s)) as Hrun.
  { clear HQ. induction s as [|[p a] s IH]; intros w Hs HQ; [done|]. simpl.
    apply Forall_cons in Hs as [Ha Hs]. simpl in Ha.
    destruct (step_fn w p a) as [w'|] eqn:Hst; simpl; [|by apply IH]. apply IH; [done|].
    destruct HQ as [Hc HQ].
    assert (not_torn a) as Hnt by (by destruct a).
    split; [intros Hct; eapply step_ino_tail; eauto|].
    destruct (decide (p = r)) as [->|Hne].
    - unfold step_fn in Hst. destruct (w_procs w !! r) as [sr|] eqn:Hsr; [|done].
      destruct sr; try done.
      + by destruct a.
      + destruct HQ as [-> ->]. destruct a; try done.
        * inversion Hst; subst w'. simpl. erewrite setp_same by done.
          fold (ino_at w i). unfold read_with_probe.
          destruct c.
          -- rewrite Hc by done. done.
          -- by destruct (f_tail (ino_at w i)).
        * simpl in Hst. inversion Hst; subst w'. simpl. erewrite setp_same by done. done.
      + by destruct a.
    - destruct (step_shape _ _ _ _ Hst) as (sp&s'&_&_&Hpr&_). by rewrite Hpr, setp_ne. }
  intros Hres. specialize (Hrun s2 w1' Htf HQ). destruct Hrun as [_ Hrun].
  fold c in Hres. fold w1' in Hres. by rewrite Hres in Hrun.
Qed.
Opaque run_schedule.
(* ==END== *)
End serial.

(** * G. Examples ([ev := nat]) *)
Section examples.
Transparent run_schedule.
Let f0 : file nat := File [1; 2] TClean.

(** Two appenders, a compactor and a reader. *)
Let ps1 : list (pst nat) :=
  [ PStart (fun _ => Append [10]);
    PStart (fun evs => Append [length evs]);
    PStart (fun evs => Replace (drop 1 evs));
    RStart ].
Let s1 : sched :=
  [ (3, AStep);                                     (* reader opens inode 0 *)
    (0, AStep); (1, AStep);                         (* 0 takes the lock, 1 finds it busy *)
    (0, AStep); (3, AStep); (0, AStep); (0, AStep); (* 0 loads; reader probes; 0 writes, unlocks *)
    (2, AStep); (2, AStep); (2, AStep); (2, AStep); (* compactor: lock, load, tmp, rename *)
    (3, AStep);                                     (* reader scans the old inode *)
    (2, AStep) ].                                   (* compactor unlocks *)

Example ex1_hyps : init_ok ps1 /\ crash_free s1 /\ f_tail f0 = TClean.
Proof.
  split; [|split; [|done]].
  - unfold init_ok, ps1.
    repeat (apply Forall_cons_2; [first [left; eexists; reflexivity|right; reflexivity]|]).
    apply Forall_nil_2.
  - unfold crash_free, s1. repeat constructor.
Qed.
Example ex1_run :
  let w := run_schedule (init_world f0 ps1) s1 in
  w_inodes w = [File [1; 2; 10] TClean; File [2; 10] TClean] /\ w_cur w = 1 /\ w_lock w = None /\
  w_procs w = [PDone OOk; PDone OBusy; PDone OOk; RDone (Some [1; 2; 10])] /\
  w_hist w = [Entry 0 (Append [10]) SCommitted; Entry 2 (Replace [2; 10]) SCommitted].
Proof. vm_compute. repeat split. Qed.

(** A second schedule in which both appenders succeed. *)
Let s2 : sched :=
  [ (0, AStep); (0, AStep); (0, AStep); (0, AStep);
    (1, AStep); (1, AStep); (3, AStep); (1, AStep); (1, AStep);
    (2, AStep); (2, AStep); (2, AStep); (3, AStep); (2, AStep); (3, AStep); (2, AStep) ].
Example ex2_run :
  let w := run_schedule (init_world f0 ps1) s2 in
  w_inodes w = [File [1; 2; 10; 3] TClean; File [2; 10; 3] TClean] /\ w_cur w = 1 /\
  w_procs w = [PDone OOk; PDone OOk; PDone OOk; RDone (Some [1; 2; 10; 3])] /\
  w_hist w = [Entry 0 (Append [10]) SCommitted; Entry 1 (Append [3]) SCommitted;
              Entry 2 (Replace [2; 10; 3]) SCommitted].
Proof. vm_compute. repeat split. Qed.

(** A write torn inside its second line, then a writer that repairs through tmp + rename. *)
Let ps3 : list (pst nat) :=
  [ PStart (fun _ => Append [7; 8]); PStart (fun evs => Append [length evs]); RStart ].
Let s3 : sched :=
  [ (0, AStep); (0, AStep); (0, AKillTorn (CutInside 1));
    (2, AStep); (2, AStep); (2, AStep);             (* a reader of the torn file drops the fragment *)
    (1, AStep); (1, AStep); (1, AStep); (1, AStep); (1, AStep) ].
Example ex3_run :
  let w := run_schedule (init_world f0 ps3) s3 in
  w_inodes w = [File [1; 2; 7] TTorn; File [1; 2; 7; 3] TClean] /\ w_cur w = 1 /\ w_lock w = None /\
  w_procs w = [PDead; PDone OOk; RDone (Some [1; 2; 7])] /\
  w_hist w = [Entry 0 (Append [7; 8]) SCrashed; Entry 1 (Append [3]) SCommitted].
Proof. vm_compute. repeat split. Qed.
End examples.

(** * Assumptions *)
Print Assumptions mutual_exclusion.
Print Assumptions mutual_exclusion_reachable.
Print Assumptions no_waiting.
Print Assumptions lock_busy_no_effect.
Print Assumptions kill_releases_lock.
Print Assumptions serializable.
Print Assumptions holder_state.
Print Assumptions outcome_meaning.
Print Assumptions one_entry_per_process.
Print Assumptions whole_lines.
Print Assumptions hist_order_is_lock_order.
Print Assumptions real_time_order.
Print Assumptions kill_between_syscalls_atomic.
Print Assumptions crash_safe.
Print Assumptions committed_never_lost.
Print Assumptions later_writers_succeed.
Print Assumptions later_writers_succeed_reachable.
Print Assumptions torn_tail_only_after_crash.
Print Assumptions reader_prefix_state.
Print Assumptions reader_result.
Print Assumptions reader_may_fail_only_after_torn_crash.
Print Assumptions ex1_run.
Print Assumptions ex3_run.
