(** Input.v — the three input modes of [new] / [set] (commands_create.go,
    commands_work.go:26-217, json_input.go:259-347, body_stdin.go) reduced to a
    normalisation from the raw request to the transaction-level [cmd]. *)
From Ergo Require Import Base Text Events Replay Cmd.
Local Open Scope string_scope.
Local Open Scope list_scope.

Inductive mode := MJson | MFlags | MBodyStdin.

(** Raw fields as given.  JSON: [None] = key absent.  Flag modes: the flag's
    value ([Some ""] and [None] both mean "not given", as in Go). For
    [MBodyStdin] [w_body] is the stdin content. *)
Record raw := Raw {
  w_title : option string; w_body : option string; w_epic : option string;
  w_state : option string; w_claim : option string;
  w_rpath : option string; w_rsum : option string }.

Inductive request :=
| QNew (is_epic : bool) (m : mode) (r : raw) (agent : string)
| QSet (i : string) (m : mode) (r : raw) (agent : string)
| QCmd (c : cmd)
| QMalformed.   (* rejected before any I/O: unparsable stdin, unknown key, usage error *)

Definition nonempty (o : option string) : option string :=
  match o with Some s => if String.eqb s "" then None else Some s | None => None end.
Definition nonblank_trim (o : option string) : option string :=
  match o with Some s => let s' := trim_space s in if String.eqb s' "" then None else Some s' | None => None end.
Definition blank_opt (o : option string) : bool :=
  match o with Some s => is_blank s | None => false end.

(** TaskInput.validate (json_input.go:259-330) *)
Definition json_valid (require_title is_epic : bool) (r : raw) : bool :=
  let has_title := match w_title r with Some t => negb (is_blank t) | None => false end in
  ((if require_title then has_title else negb (blank_opt (w_title r)))
   && negb (blank_opt (w_body r))
   && match w_state r with Some s => valid_state s | None => true end
   && negb (match w_state r, w_claim r with
            | Some s, Some c => ((String.eqb s "doing" || String.eqb s "error") && String.eqb c "")
            | _, _ => false end)
   && Bool.eqb (is_some (w_rpath r)) (is_some (w_rsum r))
   && (if is_epic then negb (is_some (w_epic r) || is_some (w_state r) || is_some (w_claim r)) else true))%bool.

Definition flag_upd (r : raw) : upd :=
  Upd (nonblank_trim (w_title r)) None (nonempty (w_epic r)) (nonempty (w_state r))
      (nonempty (w_claim r)) (nonempty (w_rpath r)) (nonempty (w_rsum r)).
Definition with_body (u : upd) (b : option string) : upd :=
  Upd (u_title u) b (u_epic u) (u_state u) (u_claim u) (u_rpath u) (u_rsum u).
Definition create_upd (u : upd) : upd :=   (* state / claim / result only *)
  Upd None None None (u_state u) (u_claim u) (u_rpath u) (u_rsum u).

Definition normalize (q : request) : option cmd :=
  match q with
  | QMalformed => None
  | QCmd c => Some c
  | QNew is_epic MJson r agent =>
      if negb (json_valid true is_epic r) then None else
      let title := opt_default "" (w_title r) in
      let body := opt_default "" (w_body r) in
      if is_epic then Some (CNew true title body "" upd_none agent)
      else
        let u := if (is_some (w_state r) || is_some (w_claim r) || is_some (w_rpath r))%bool
                 then Upd None None None (w_state r) (w_claim r) (w_rpath r) (w_rsum r)
                 else upd_none in
        Some (CNew false title body (opt_default "" (w_epic r)) u agent)
  | QNew is_epic MFlags r agent =>
      let has_input :=
        if is_epic then is_some (nonblank_trim (w_title r))
        else (is_some (nonblank_trim (w_title r)) || is_some (nonempty (w_body r)) || is_some (nonempty (w_epic r))
              || is_some (nonempty (w_state r)) || is_some (nonempty (w_claim r)))%bool in
      if negb has_input then None else
      match nonblank_trim (w_title r) with
      | None => None
      | Some title =>
          let body := opt_default "" (w_body r) in
          if is_epic then Some (CNew true title body "" upd_none agent)
          else Some (CNew false title body (opt_default "" (w_epic r))
                          (Upd None None None (nonempty (w_state r)) (nonempty (w_claim r)) None None) agent)
      end
  | QNew is_epic MBodyStdin r agent =>
      match nonblank_trim (w_title r) with
      | None => None
      | Some title =>
          let body := opt_default "" (w_body r) in
          if is_epic then Some (CNew true title body "" upd_none agent)
          else Some (CNew false title body (opt_default "" (w_epic r))
                          (Upd None None None (nonempty (w_state r)) (nonempty (w_claim r)) None None) agent)
      end
  | QSet i MJson r agent =>
      if negb (json_valid false false r) then None else
      let u := Upd (w_title r) (w_body r) (w_epic r) (w_state r) (w_claim r) (w_rpath r) (w_rsum r) in
      if upd_empty u then None else Some (CSet i u agent)
  | QSet i MFlags r agent =>
      let u := with_body (flag_upd r) (nonempty (w_body r)) in
      if upd_empty u then None else Some (CSet i u agent)
  | QSet i MBodyStdin r agent =>
      match w_body r with
      | Some b => if is_blank b then None else Some (CSet i (with_body (flag_upd r) (Some b)) agent)
      | None => None
      end
  end.

Definition exec_req (e : env) (log : list event) (q : request) : list event * (bool * reply) :=
  match normalize q with
  | Some c => exec e log c
  | None => (log, (false, RNone))
  end.
