(** Progress.v — C15: when the effective waits-for relation (own dependencies
    plus those inherited from the epic's dependencies) has no cycle, a quiet
    store with a todo task has a ready task; and the reachable counterexample
    showing that the relation CAN have a cycle. *)
From Ergo Require Import Base Text Events Replay Ready Compact Path Cmd Input Graphs TextFacts
  Invariants ReadySpec PrunePlan Reach.
Local Open Scope string_scope.
Local Open Scope list_scope.

(** * A finite non-empty set without sinks contains a cycle *)
Lemma tc_mono {A} (R R' : relation A) x y : (forall a b, R a b -> R' a b) -> tc R x y -> tc R' x y.
Proof.
  intros Hsub H. induction H as [x y H|x y z H _ IH]; [apply tc_once; auto|].
  eapply tc_l; [apply Hsub; exact H|exact IH].
Qed.

Lemma pred_no_sink_cycle {A} `{EqDecision A} (n : nat) :
  forall (R : relation A) (P : A -> Prop) (l : list A),
  length l <= n ->
  (forall x, P x -> x ∈ l) -> (exists x, P x) ->
  (forall x, P x -> exists y, P y /\ R x y) ->
  exists x, P x /\ tc R x x.
Proof.
  induction n as [|n IH]; intros R P l Hlen Hfin [a Ha] Hsucc.
  - apply Hfin in Ha. destruct l; [inversion Ha|cbn in Hlen; lia].
  - destruct (Hsucc a Ha) as (z & Hz & Haz).
    destruct (decide (z = a)) as [->|Hza].
    { exists a. split; [exact Ha|apply tc_once; exact Haz]. }
    set (R' := fun x y => R x y \/ (R x a /\ R a y)).
    set (P' := fun x => P x /\ x <> a).
    assert (Hsub : forall x y, tc R' x y -> tc R x y).
    { intros x y H. induction H as [x y [H|[H1 H2]]|x y w [H|[H1 H2]] _ IH'].
      - apply tc_once; exact H.
      - eapply tc_l; [exact H1|apply tc_once; exact H2].
      - eapply tc_l; [exact H|exact IH'].
      - eapply tc_l; [exact H1|]. eapply tc_l; [exact H2|exact IH']. }
    destruct (IH R' P' (filter (fun x => x <> a) l)) as (x & [Hx _] & Hcyc).
    + pose proof (filter_length_lt (fun x => x <> a) l a (Hfin a Ha)) as Hlt.
      assert (~ a <> a) as Hna by (intros H; apply H; reflexivity).
      specialize (Hlt Hna). lia.
    + intros x [Hx Hne]. apply elem_of_list_filter. split; [exact Hne|apply Hfin; exact Hx].
    + exists z. split; assumption.
    + intros x [Hx Hne]. destruct (Hsucc x Hx) as (y & Hy & Hxy).
      destruct (decide (y = a)) as [->|Hya].
      * exists z. split; [split; assumption|]. right. split; assumption.
      * exists y. split; [split; assumption|]. left. exact Hxy.
    + exists x. split; [exact Hx|apply Hsub; exact Hcyc].
Qed.

Theorem finite_no_sink_cycle {A} `{EqDecision A} (R : relation A) (l : list A) :
  l <> [] -> (forall x, x ∈ l -> exists y, y ∈ l /\ R x y) -> exists x, x ∈ l /\ tc R x x.
Proof.
  intros Hne Hs. apply (pred_no_sink_cycle (length l) R (fun x => x ∈ l) l); auto.
  destruct l as [|a l]; [contradiction|]. exists a. left.
Qed.

(** * The effective waits-for relation *)
(* t waits for o: o is a live dependency of t, or o is a child of a live epic that t's epic depends on *)
Definition waits_for (g : graph) (a b : string) : Prop :=
  (a, b) ∈ g_deps g \/
  exists ta tb, g_tasks g !! a = Some ta /\ g_tasks g !! b = Some tb /\ t_epic ta <> "" /\
                exists d de, (t_epic ta, d) ∈ g_deps g /\ g_tasks g !! d = Some de /\ t_is_epic de = true /\ t_epic tb = d /\ t_is_epic tb = false.

Definition quiet (g : graph) : Prop :=   (* nothing is held up by an agent or a human *)
  forall k t, g_tasks g !! k = Some t -> t_is_epic t = false -> t_state t = "todo" \/ t_state t = "done" \/ t_state t = "canceled".

Definition todo_task (g : graph) (k : string) : Prop :=
  exists t, g_tasks g !! k = Some t /\ t_is_epic t = false /\ t_state t = "todo".

Lemma forallb_false_ex {A} (f : A -> bool) l : forallb f l = false -> exists x, x ∈ l /\ f x = false.
Proof.
  induction l as [|a l IH]; cbn; [discriminate|].
  destruct (f a) eqn:E; cbn.
  - intros H. destruct (IH H) as (x & Hx & Hfx). exists x. split; [right; exact Hx|exact Hfx].
  - intros _. exists a. split; [left|exact E].
Qed.

Lemma not_finished_todo g k o :
  quiet g -> g_tasks g !! k = Some o -> t_is_epic o = false -> done_or_canceled (t_state o) = false ->
  t_state o = "todo".
Proof.
  intros Hq Hl Hk Hnf. destruct (Hq k o Hl Hk) as [H|[H|H]]; [exact H| |]; rewrite H in Hnf; discriminate.
Qed.

Lemma todo_unclaimed g k t : Inv g -> g_tasks g !! k = Some t -> t_is_epic t = false -> t_state t = "todo" -> t_claimed t = "".
Proof.
  intros HI Hl Hk Hst. destruct (inv_state g HI k t Hl Hk) as [_ Hc].
  unfold claim_inv, validate_claim_invariant in Hc. rewrite Hst in Hc. cbn in Hc. apply String.eqb_eq in Hc. exact Hc.
Qed.

(** A todo task that is not ready waits for another todo task.  [Hnoempty]: no
    epic depends on an item whose id is the empty string (true when no item has
    the empty id, and when there are no epic-level dependencies at all). *)
Lemma unready_has_successor g k t :
  Inv g -> quiet g ->
  (forall a ta, (a, "") ∈ g_deps g -> g_tasks g !! a = Some ta -> t_is_epic ta = false) ->
  g_tasks g !! k = Some t -> t_is_epic t = false -> t_state t = "todo" ->
  is_ready g t = false ->
  exists k', todo_task g k' /\ waits_for g k k'.
Proof.
  intros HI Hq Hnoempty Hl Hk Hst Hnr.
  destruct (inv_key g HI k t Hl) as [Hid _].
  pose proof (todo_unclaimed g k t HI Hl Hk Hst) as Hcl.
  unfold is_ready in Hnr. rewrite Hst, Hcl, Hid in Hnr. cbn [String.eqb Ascii.eqb Bool.eqb andb] in Hnr.
  change (String.eqb "todo" "todo") with true in Hnr. cbn [andb] in Hnr.
  destruct (deps_satisfied g k) eqn:Hds.
  - (* the epic's dependencies *)
    cbn [andb] in Hnr. destruct (String.eqb (t_epic t) "") eqn:Hep; [discriminate|]. apply String.eqb_neq in Hep.
    unfold epic_deps_complete in Hnr. apply forallb_false_ex in Hnr as (d & Hd & Hf).
    apply dep_ids_spec in Hd. unfold edge in Hd.
    destruct (g_tasks g !! d) as [de|] eqn:Hde; [|discriminate].
    destruct (t_is_epic de) eqn:Hkde; [|discriminate].
    unfold is_epic_complete in Hf. apply forallb_false_ex in Hf as (c & Hc & Hfc).
    apply all_tasks_lookup in Hc as (k' & Hk').
    destruct (String.eqb (t_epic c) d) eqn:Hcd; [|discriminate]. apply String.eqb_eq in Hcd.
    destruct (inv_ref g HI k t Hl Hep) as (et & Het & Hket).
    assert (Hdne : d <> "").
    { intros ->. specialize (Hnoempty (t_epic t) et Hd Het). congruence. }
    assert (Hkc : t_is_epic c = false).
    { destruct (t_is_epic c) eqn:Hkc; [|reflexivity].
      destruct (inv_epic g HI k' c Hk' Hkc) as (_ & _ & He & _). congruence. }
    exists k'. split.
    + exists c. split; [exact Hk'|]. split; [exact Hkc|]. eapply not_finished_todo; eauto.
    + right. exists t, c. split; [exact Hl|]. split; [exact Hk'|]. split; [exact Hep|].
      exists d, de. repeat split; assumption.
  - (* an own dependency *)
    unfold deps_satisfied in Hds. apply forallb_false_ex in Hds as (d & Hd & Hf).
    apply dep_ids_spec in Hd. unfold edge in Hd.
    destruct (g_tasks g !! d) as [o|] eqn:Ho; [|discriminate].
    destruct (inv_deps g HI k d Hd) as (_ & ta & tb & Hta & Htb & Hkk).
    rewrite Hl in Hta. injection Hta as <-. rewrite Ho in Htb. injection Htb as <-.
    exists d. split.
    + exists o. split; [exact Ho|]. split; [congruence|]. eapply not_finished_todo; eauto; congruence.
    + left. exact Hd.
Qed.

Lemma progress_core g :
  Inv g ->
  (forall a ta, (a, "") ∈ g_deps g -> g_tasks g !! a = Some ta -> t_is_epic ta = false) ->
  (forall a, ~ tc (waits_for g) a a) -> quiet g ->
  (exists k t, g_tasks g !! k = Some t /\ t_is_epic t = false /\ t_state t = "todo") ->
  exists k t, g_tasks g !! k = Some t /\ t_is_epic t = false /\ Ready g t.
Proof.
  intros HI Hnoempty Hac Hq (k0 & t0 & Hl0 & Hk0 & Hst0).
  destruct (ready_tasks g "") as [|t rest] eqn:Hrt.
  - exfalso.
    destruct (pred_no_sink_cycle (length (map_to_list (g_tasks g)).*1) (waits_for g) (todo_task g)
                (map_to_list (g_tasks g)).*1) as (x & _ & Hcyc).
    + lia.
    + intros x (t & Hl & _). apply elem_of_list_fmap. exists (x, t). split; [reflexivity|].
      apply elem_of_map_to_list. exact Hl.
    + exists k0, t0. auto.
    + intros x (t & Hl & Hk & Hst). apply (unready_has_successor g x t); try assumption.
      destruct (is_ready g t) eqn:Hr; [|reflexivity]. exfalso.
      assert (Hin : t ∈ ready_tasks g "").
      { apply ready_tasks_spec. split; [eauto|]. split; [left; reflexivity|]. split; [exact Hk|].
        apply is_ready_spec. exact Hr. }
      rewrite Hrt in Hin. inversion Hin.
    + exact (Hac x Hcyc).
  - assert (Hin : t ∈ ready_tasks g "") by (rewrite Hrt; left).
    apply ready_tasks_spec in Hin as ((k & Hl) & _ & Hk & HR). exists k, t. auto.
Qed.

(** C15, conditional form.  The extra hypothesis [g_tasks g !! "" = None] (no item has the
    empty id; ids drawn by newShortID are six characters) is needed: an epic whose id is ""
    would count every epic as its unfinished child. *)
Theorem C15_progress_if_acyclic g :
  Inv g -> g_tasks g !! "" = None ->
  (forall a, ~ tc (waits_for g) a a) -> quiet g ->
  (exists k t, g_tasks g !! k = Some t /\ t_is_epic t = false /\ t_state t = "todo") ->
  exists k t, g_tasks g !! k = Some t /\ t_is_epic t = false /\ Ready g t.
Proof.
  intros HI Hne. apply progress_core; [exact HI|].
  intros a ta Hd _. destruct (inv_deps g HI a "" Hd) as (_ & ? & tb & _ & Htb & _). congruence.
Qed.

(** * What a reader of the finalized graph sees *)
Lemma ready_finalize g t : Ready g t -> Ready (finalize g) (migrate t).
Proof.
  intros (Hst & Hcl & Hds & Hep). mig t. unfold Ready. rewrite Hmst, Hmcl, Hmid, Hmep.
  split; [exact Hst|]. split; [exact Hcl|]. split.
  - intros d o Hd Ho. apply finalize_lookup_Some in Ho as (o0 & Ho0 & ->). mig o0. rewrite Hmst0.
    exact (Hds d o0 Hd Ho0).
  - intros Hne d de Hd Hde Hkde. apply finalize_lookup_Some in Hde as (de0 & Hde0 & ->). mig de0.
    rewrite Hmk0 in Hkde. intros k c Hc Hcd. apply finalize_lookup_Some in Hc as (c0 & Hc0 & ->). mig c0.
    rewrite Hmst1. rewrite Hmep1 in Hcd. exact (Hep Hne d de0 Hd Hde0 Hkde k c0 Hc0 Hcd).
Qed.

Corollary C15_progress_finalized g :
  Inv g -> g_tasks g !! "" = None ->
  (forall a, ~ tc (waits_for g) a a) -> quiet g ->
  (exists k t, g_tasks g !! k = Some t /\ t_is_epic t = false /\ t_state t = "todo") ->
  exists k t, g_tasks (finalize g) !! k = Some t /\ t_is_epic t = false /\ Ready (finalize g) t.
Proof.
  intros HI Hne Hac Hq Hex. destruct (C15_progress_if_acyclic g HI Hne Hac Hq Hex) as (k & t & Hl & Hk & HR).
  exists k, (migrate t). split; [rewrite finalize_lookup, Hl; reflexivity|]. mig t. split; [congruence|].
  apply ready_finalize. exact HR.
Qed.

(** In terms of the model's [claim]: it does not answer "no ready task". *)
Corollary C15_claim_succeeds g e agent log :
  Inv g -> g_tasks g !! "" = None ->
  (forall a, ~ tc (waits_for g) a a) -> quiet g ->
  (exists k t, g_tasks g !! k = Some t /\ t_is_epic t = false /\ t_state t = "todo") ->
  agent <> "" -> replay log = Ok (finalize g) ->
  (run_txn e (CClaimOldest "" agent) log).2 <> RNoReady /\
  exists i, run_txn e (CClaimOldest "" agent) log =
            (Append [EClaim i agent (Some (e_now e)); EState i "doing" (Some (e_now e))], RClaimed i).
Proof.
  intros HI Hne Hac Hq Hex Hag Hr.
  destruct (C15_progress_finalized g HI Hne Hac Hq Hex) as (k & t & Hl & Hk & HR).
  pose proof (claim_oldest_spec e "" agent log (finalize g) Hag Hr) as Hspec.
  destruct (run_txn e (CClaimOldest "" agent) log) as [d r].
  destruct d as [|evs|evs]; try contradiction.
  destruct r as [| | i | | |]; try (destruct evs; contradiction).
  - assert (Hev : evs = [EClaim i agent (Some (e_now e)); EState i "doing" (Some (e_now e))]).
    { destruct evs; destruct Hspec as (t' & _ & _ & _ & _ & _ & _ & Hev); exact Hev. }
    rewrite Hev. split; [discriminate|]. exists i. reflexivity.
  - destruct evs; [|contradiction]. exfalso. apply (Hspec t). split; [eauto|]. split; [left; reflexivity|]. auto.
Qed.

(** * Without epic-level dependencies the relation is the edge relation *)
Lemma waits_for_edge g a b :
  Inv g ->
  (forall a b, (a, b) ∈ g_deps g -> forall ta, g_tasks g !! a = Some ta -> t_is_epic ta = false) ->
  waits_for g a b -> edge g a b.
Proof.
  intros HI Hno [H|(ta & tb & Hta & Htb & Hep & d & de & Hd & Hde & Hkde & _)]; [exact H|exfalso].
  destruct (inv_ref g HI a ta Hta Hep) as (et & Het & Hket).
  specialize (Hno _ _ Hd et Het). congruence.
Qed.

Theorem C15_no_epic_deps_acyclic g :
  Inv g -> acyclic g ->
  (forall a b, (a, b) ∈ g_deps g -> forall ta, g_tasks g !! a = Some ta -> t_is_epic ta = false) ->
  forall a, ~ tc (waits_for g) a a.
Proof.
  intros HI Hac Hno a Hcyc. apply (Hac a). eapply tc_mono; [|exact Hcyc].
  intros x y. apply waits_for_edge; assumption.
Qed.

Theorem C15_reachable_without_epic_deps log g :
  Reach log -> replay_raw log = Ok g ->
  (forall a b, (a, b) ∈ g_deps g -> forall ta, g_tasks g !! a = Some ta -> t_is_epic ta = false) ->
  quiet g ->
  (exists k t, g_tasks g !! k = Some t /\ t_is_epic t = false /\ t_state t = "todo") ->
  exists k t, g_tasks g !! k = Some t /\ t_is_epic t = false /\ Ready g t.
Proof.
  intros HR Hr Hno Hq Hex. destruct (reach_good log HR) as (g' & Hr' & HI & Hac).
  rewrite Hr in Hr'. injection Hr' as <-.
  apply progress_core; try assumption.
  - intros a ta Hd Hta. exact (Hno a "" Hd ta Hta).
  - apply C15_no_epic_deps_acyclic; assumption.
Qed.

(** * The finding: the relation can have a cycle in a reachable store *)
Definition flag_env (i : string) (now : time) : env := Env [i] ["u"] now now [] FMissing "" "" "".
Definition raw_new (title : string) (epic : option string) : raw := Raw (Some title) None epic None None None None.

(** ergo epic new e1; ergo epic new e2; ergo new a --epic E1; ergo new b --epic E2;
    ergo sequence B A; ergo sequence E1 E2 *)
Definition bad_session : list (env * request) :=
  [ (flag_env "E1" 1%Z, QNew true MFlags (raw_new "e1" None) "");
    (flag_env "E2" 2%Z, QNew true MFlags (raw_new "e2" None) "");
    (flag_env "A" 3%Z, QNew false MFlags (raw_new "a" (Some "E1")) "");
    (flag_env "B" 4%Z, QNew false MFlags (raw_new "b" (Some "E2")) "");
    (flag_env "" 5%Z, QCmd (CSeq true ["B"; "A"]));
    (flag_env "" 6%Z, QCmd (CSeq true ["E1"; "E2"])) ].

Definition run_session (l : list (env * request)) (log : list event) : list event :=
  fold_left (fun log (eq : env * request) => (exec_req eq.1 log eq.2).1) l log.

Lemma reach_run_session l log : Reach log -> Reach (run_session l log).
Proof.
  revert log. induction l as [|[e q] l IH]; intros log H; [exact H|].
  cbn. apply IH. apply reach_step. exact H.
Qed.

Definition bad_log : list event :=
  [ ENew true "E1" "u" "" "todo" "e1" "" (Some 1%Z);
    ENew true "E2" "u" "" "todo" "e2" "" (Some 2%Z);
    ENew false "A" "u" "E1" "todo" "a" "" (Some 3%Z);
    ENew false "B" "u" "E2" "todo" "b" "" (Some 4%Z);
    ELink "A" "B" depends;
    ELink "E2" "E1" depends ].

Lemma bad_session_log : run_session bad_session [] = bad_log.
Proof. vm_compute. reflexivity. Qed.

Lemma bad_log_reach : Reach bad_log.
Proof. rewrite <- bad_session_log. apply reach_run_session. apply reach_init. Qed.

Definition bad_graph : graph := match replay_raw bad_log with Ok g => g | Err _ => empty_graph end.
Lemma bad_graph_replay : replay_raw bad_log = Ok bad_graph.
Proof. vm_compute. reflexivity. Qed.

Lemma bad_graph_all_todo :
  forallb (fun t => (t_is_epic t || String.eqb (t_state t) "todo")%bool) (all_tasks bad_graph) = true.
Proof. vm_compute. reflexivity. Qed.

Ltac vm_decide_goal :=
  match goal with |- ?P =>
    let H := fresh in assert (H : bool_decide P = true) by (vm_compute; reflexivity);
    exact (proj1 (bool_decide_eq_true P) H) end.

Theorem C15_refuted :
  exists log g,
    Reach log /\ replay_raw log = Ok g /\ Inv g /\ acyclic g /\ g_tasks g !! "" = None /\
    quiet g /\
    (forall k t, g_tasks g !! k = Some t -> t_is_epic t = false -> t_state t = "todo") /\
    (exists ta tb, g_tasks g !! "A" = Some ta /\ g_tasks g !! "B" = Some tb /\
                   t_is_epic ta = false /\ t_is_epic tb = false) /\
    ready_tasks (finalize g) "" = [] /\
    (forall k t, g_tasks g !! k = Some t -> t_is_epic t = false -> ~ Ready g t) /\
    (forall e agent, agent <> "" -> run_txn e (CClaimOldest "" agent) log = (Append [], RNoReady)) /\
    waits_for g "A" "B" /\ waits_for g "B" "A" /\ tc (waits_for g) "A" "A".
Proof.
  exists bad_log, bad_graph.
  destruct (reach_good _ bad_log_reach) as (g' & Hr' & HI & Hac).
  rewrite bad_graph_replay in Hr'. injection Hr' as <-.
  assert (Htodo : forall k t, g_tasks bad_graph !! k = Some t -> t_is_epic t = false -> t_state t = "todo").
  { intros k t Hl Hk. pose proof bad_graph_all_todo as H. rewrite forallb_forall in H.
    specialize (H t). rewrite Hk in H. apply String.eqb_eq. apply H.
    apply elem_of_list_In, all_tasks_lookup. eauto. }
  assert (Hrt : ready_tasks bad_graph "" = []) by (vm_compute; reflexivity).
  assert (Hrtf : ready_tasks (finalize bad_graph) "" = []) by (vm_compute; reflexivity).
  assert (HAB : waits_for bad_graph "A" "B").
  { left. vm_decide_goal. }
  assert (HBA : waits_for bad_graph "B" "A").
  { right. do 2 eexists. split; [vm_compute; reflexivity|]. split; [vm_compute; reflexivity|].
    split; [cbn; discriminate|]. exists "E1". eexists.
    split; [vm_decide_goal|].
    split; [vm_compute; reflexivity|]. repeat split. }
  split; [exact bad_log_reach|]. split; [exact bad_graph_replay|]. split; [exact HI|]. split; [exact Hac|].
  split; [vm_compute; reflexivity|].
  split; [intros k t Hl Hk; left; eauto|]. split; [exact Htodo|].
  split.
  { do 2 eexists. split; [vm_compute; reflexivity|]. split; [vm_compute; reflexivity|]. split; reflexivity. }
  split; [exact Hrtf|].
  split.
  { intros k t Hl Hk HR. assert (Hin : t ∈ ready_tasks bad_graph "").
    { apply ready_tasks_spec. split; [eauto|]. split; [left; reflexivity|]. auto. }
    rewrite Hrt in Hin. inversion Hin. }
  split.
  { intros e agent Hag. cbn [run_txn]. rewrite (replay_of_raw _ _ bad_graph_replay).
    apply String.eqb_neq in Hag. rewrite Hag, Hrtf. reflexivity. }
  split; [exact HAB|]. split; [exact HBA|].
  eapply tc_l; [exact HAB|apply tc_once; exact HBA].
Qed.

Print Assumptions finite_no_sink_cycle.
Print Assumptions C15_progress_if_acyclic.
Print Assumptions C15_progress_finalized.
Print Assumptions C15_claim_succeeds.
Print Assumptions C15_no_epic_deps_acyclic.
Print Assumptions C15_reachable_without_epic_deps.
Print Assumptions C15_refuted.
