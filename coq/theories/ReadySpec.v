(** ReadySpec.v — the manual's sentences about ready / blocked / claim order as
    [Prop]s, and the proofs that the executable definitions decide them. *)
From Ergo Require Import Base Text Events Replay Ready Compact Cmd Graphs TextFacts Invariants.
Local Open Scope string_scope.
Local Open Scope list_scope.

Definition finished (st : string) : Prop := st = "done" \/ st = "canceled".
Lemma done_or_canceled_spec st : done_or_canceled st = true <-> finished st.
Proof.
  unfold done_or_canceled, finished. rewrite orb_true_iff, !String.eqb_eq. reflexivity.
Qed.

(** "every task it depends on is done, canceled or pruned" *)
Definition DepsSatisfied (g : graph) (i : string) : Prop :=
  forall d o, (i, d) ∈ g_deps g -> g_tasks g !! d = Some o -> finished (t_state o).
(** "an epic is complete when all its children are done or canceled" *)
Definition EpicComplete (g : graph) (e : string) : Prop :=
  forall k c, g_tasks g !! k = Some c -> t_epic c = e -> finished (t_state c).
(** "every epic that its epic depends on has only done or canceled children" *)
Definition EpicDepsComplete (g : graph) (e : string) : Prop :=
  forall d de, (e, d) ∈ g_deps g -> g_tasks g !! d = Some de -> t_is_epic de = true -> EpicComplete g d.

Definition Ready (g : graph) (t : task) : Prop :=
  t_state t = "todo" /\ t_claimed t = "" /\ DepsSatisfied g (t_id t) /\
  (t_epic t <> "" -> EpicDepsComplete g (t_epic t)).

Lemma deps_satisfied_spec g i : deps_satisfied g i = true <-> DepsSatisfied g i.
Proof.
  unfold deps_satisfied, DepsSatisfied. rewrite forallb_forall. split.
  - intros H d o Hd Ho. apply dep_ids_spec in Hd. apply elem_of_list_In in Hd. specialize (H d Hd).
    rewrite Ho in H. apply done_or_canceled_spec. exact H.
  - intros H d Hd. apply elem_of_list_In, dep_ids_spec in Hd. destruct (g_tasks g !! d) as [o|] eqn:Ho; [|reflexivity].
    apply done_or_canceled_spec. eapply H; eauto.
Qed.

Lemma is_epic_complete_spec g e : is_epic_complete g e = true <-> EpicComplete g e.
Proof.
  unfold is_epic_complete, EpicComplete. rewrite forallb_forall. split.
  - intros H k c Hk He. assert (Hin : In c (all_tasks g)).
    { apply elem_of_list_In, all_tasks_lookup. eauto. }
    specialize (H c Hin). rewrite <- He, String.eqb_refl in H. apply done_or_canceled_spec. exact H.
  - intros H c Hin. apply elem_of_list_In, all_tasks_lookup in Hin as (k & Hk).
    destruct (String.eqb (t_epic c) e) eqn:E; [|reflexivity]. apply String.eqb_eq in E.
    apply done_or_canceled_spec. eapply H; eauto.
Qed.

Lemma epic_deps_complete_spec g e : epic_deps_complete g e = true <-> EpicDepsComplete g e.
Proof.
  unfold epic_deps_complete, EpicDepsComplete. rewrite forallb_forall. split.
  - intros H d de Hd Hl Hk. apply dep_ids_spec, elem_of_list_In in Hd. specialize (H d Hd).
    rewrite Hl, Hk in H. apply is_epic_complete_spec. exact H.
  - intros H d Hd. apply elem_of_list_In, dep_ids_spec in Hd.
    destruct (g_tasks g !! d) as [de|] eqn:Hl; [|reflexivity]. destruct (t_is_epic de) eqn:Hk; [|reflexivity].
    apply is_epic_complete_spec. eapply H; eauto.
Qed.

Theorem is_ready_spec g t : is_ready g t = true <-> Ready g t.
Proof.
  unfold is_ready, Ready. rewrite !andb_true_iff, !String.eqb_eq, deps_satisfied_spec.
  destruct (String.eqb (t_epic t) "") eqn:E.
  - apply String.eqb_eq in E. split; [intros [[[? ?] ?] _]|intros (? & ? & ? & _)]; repeat split; try assumption.
    intros Hne. contradiction.
  - apply String.eqb_neq in E. rewrite epic_deps_complete_spec. split.
    + intros [[[? ?] ?] ?]. repeat split; try assumption. intros _. assumption.
    + intros (? & ? & ? & H). repeat split; try assumption. apply H. exact E.
Qed.

(** blocked = state blocked, or todo + unclaimed + not ready *)
Theorem is_blocked_spec g t :
  is_blocked g t = (String.eqb (t_state t) "blocked"
                    || (String.eqb (t_state t) "todo" && String.eqb (t_claimed t) "" && negb (is_ready g t)))%bool.
Proof.
  unfold is_blocked, is_ready.
  destruct (String.eqb (t_state t) "blocked") eqn:Eb.
  - reflexivity.
  - cbn [orb]. destruct (String.eqb (t_state t) "todo"); [|reflexivity].
    destruct (String.eqb (t_claimed t) ""); [|reflexivity]. cbn [andb negb].
    destruct (deps_satisfied g (t_id t)); [|reflexivity]. cbn [negb andb].
    destruct (String.eqb (t_epic t) ""); [reflexivity|]. reflexivity.
Qed.

(** * claim order *)
Global Instance claim_le_total : Total claim_le.
Proof.
  intros a b. unfold claim_le. destruct (Z.eqb_spec (t_created a) (t_created b)) as [E|E].
  - rewrite E, Z.eqb_refl. apply str_le_total.
  - destruct (Z.eqb_spec (t_created b) (t_created a)) as [E'|E']; [congruence|]. lia.
Qed.
Global Instance claim_le_trans : Transitive claim_le.
Proof.
  intros a b c. unfold claim_le.
  destruct (Z.eqb_spec (t_created a) (t_created b)) as [E1|E1];
  destruct (Z.eqb_spec (t_created b) (t_created c)) as [E2|E2];
  destruct (Z.eqb_spec (t_created a) (t_created c)) as [E3|E3]; try lia; try congruence.
  apply str_le_trans.
Qed.

Definition in_scope (epic : string) (t : task) : Prop := epic = "" \/ t_epic t = epic.

Theorem ready_tasks_spec g epic t :
  t ∈ ready_tasks g epic <->
  (exists k, g_tasks g !! k = Some t) /\ in_scope epic t /\ t_is_epic t = false /\ Ready g t.
Proof.
  unfold ready_tasks. rewrite merge_sort_Permutation, elem_of_list_filter, all_tasks_lookup, is_ready_spec.
  unfold in_scope. tauto.
Qed.

Theorem ready_tasks_head_min g epic t rest :
  ready_tasks g epic = t :: rest -> forall t', t' ∈ ready_tasks g epic -> claim_le t t'.
Proof.
  intros H t' Hin. pose proof (StronglySorted_merge_sort claim_le
    (filter (fun t => (epic = "" \/ t_epic t = epic) /\ t_is_epic t = false /\ is_ready g t = true) (all_tasks g))) as HS.
  unfold ready_tasks in H, Hin. rewrite H in HS, Hin. inversion HS as [|? ? _ Hall]; subst.
  apply elem_of_cons in Hin as [->|Hin].
  - destruct (claim_le_total t t); assumption.
  - rewrite Forall_forall in Hall. apply Hall. apply elem_of_list_In. exact Hin.
Qed.

(** [claim] (oldest-ready) answers "no ready" exactly when the ready set in scope is empty,
    otherwise hands out a ready task that is minimal for (created_at, id), never an epic. *)
Theorem claim_oldest_spec e epic agent log g :
  agent <> "" -> replay log = Ok g ->
  match run_txn e (CClaimOldest epic agent) log with
  | (Append [], RNoReady) => forall t, ~ ((exists k, g_tasks g !! k = Some t) /\ in_scope epic t /\ t_is_epic t = false /\ Ready g t)
  | (Append evs, RClaimed i) =>
      exists t, t_id t = i /\ (exists k, g_tasks g !! k = Some t) /\ in_scope epic t /\ t_is_epic t = false /\ Ready g t
                /\ (forall t', (exists k, g_tasks g !! k = Some t') -> in_scope epic t' -> t_is_epic t' = false -> Ready g t' -> claim_le t t')
                /\ evs = [EClaim i agent (Some (e_now e)); EState i "doing" (Some (e_now e))]
  | _ => False
  end.
Proof.
  intros Hag Hr. cbn [run_txn]. rewrite Hr. apply String.eqb_neq in Hag. rewrite Hag.
  destruct (ready_tasks g epic) as [|t rest] eqn:Hrt.
  - intros t Ht. apply ready_tasks_spec in Ht. rewrite Hrt in Ht. inversion Ht.
  - exists t. split; [reflexivity|].
    assert (Hin : t ∈ ready_tasks g epic) by (rewrite Hrt; left).
    apply ready_tasks_spec in Hin as (Hk & Hs & He & HR).
    split; [exact Hk|]. split; [exact Hs|]. split; [exact He|]. split; [exact HR|]. split; [|reflexivity].
    intros t' Hk' Hs' He' HR'. eapply ready_tasks_head_min; [exact Hrt|]. apply ready_tasks_spec. tauto.
Qed.
