(** Graphs.v — the depends-on relation as a graph: correctness of the fuelled
    cycle check [has_cycle] (Ready.v) and acyclicity preservation by the link /
    unlink / plan transactions (Cmd.v) and by replay (Replay.v). *)
From stdpp Require Import relations.
From Ergo Require Import Base Text Events Replay Ready Compact Path Cmd.
Local Open Scope list_scope.

(** * Definitions *)
Definition edge (g : graph) (a b : string) : Prop := (a, b) ∈ g_deps g.
Definition acyclic (g : graph) : Prop := forall a, ¬ tc (edge g) a a.
Definition add_edge (g : graph) (a b : string) : graph :=
  Graph (g_tasks g) ({[ (a, b) ]} ∪ g_deps g) (g_tombs g).
Definition del_edge (g : graph) (a b : string) : graph :=
  Graph (g_tasks g) (g_deps g ∖ {[ (a, b) ]}) (g_tombs g).

Definition add_edges (g : graph) (es : list (string * string)) : graph :=
  fold_left (λ g e, add_edge g e.1 e.2) es g.
Definition del_edges (g : graph) (es : list (string * string)) : graph :=
  fold_left (λ g e, del_edge g e.1 e.2) es g.
Definition link_ev (e : string * string) : event := ELink e.1 e.2 depends.
Definition unlink_ev (e : string * string) : event := EUnlink e.1 e.2 depends.

(** * 1. dep_ids *)
Lemma dep_ids_spec g a b : b ∈ dep_ids g a <-> edge g a b.
Proof.
  unfold dep_ids, edge. rewrite elem_of_list_fmap. split.
  - intros ([x y] & -> & H). apply elem_of_list_filter in H as [E H]. cbn in *. subst.
    by apply elem_of_elements in H.
  - intros H. exists (a, b). split; [done|]. apply elem_of_list_filter. split; [done|].
    by apply elem_of_elements.
Qed.

Lemma mem_str_true x l : mem_str x l = true <-> x ∈ l.
Proof. rewrite mem_str_In. symmetry. apply elem_of_list_In. Qed.
Lemma mem_str_false x l : mem_str x l = false <-> x ∉ l.
Proof. rewrite <- mem_str_true. destruct (mem_str x l); naive_solver. Qed.

Lemma elem_of_next g frontier seen' y :
  y ∈ filter (λ d, mem_str d seen' = false) (concat (dep_ids g <$> frontier))
  <-> y ∉ seen' ∧ ∃ x, x ∈ frontier ∧ edge g x y.
Proof.
  rewrite elem_of_list_filter, mem_str_false. apply and_iff_compat_l.
  rewrite elem_of_list_In, in_concat. split.
  - intros (l & Hl & Hy). apply elem_of_list_In, elem_of_list_fmap in Hl as (x & -> & Hx).
    exists x. split; [done|]. by apply dep_ids_spec, elem_of_list_In.
  - intros (x & Hx & He). exists (dep_ids g x). split.
    + apply elem_of_list_In, elem_of_list_fmap. eauto.
    + by apply elem_of_list_In, dep_ids_spec.
Qed.

(** * 2. reach_fuel: soundness *)
Lemma reach_fuel_sound n g frontier seen target :
  reach_fuel n g frontier seen target = true ->
  ∃ x, x ∈ frontier ∧ rtc (edge g) x target.
Proof.
  revert frontier seen. induction n as [|n IH]; intros frontier seen; cbn.
  - intros H%mem_str_true. exists target. split; [done|apply rtc_refl].
  - destruct (mem_str target frontier) eqn:Hm.
    { intros _. apply mem_str_true in Hm. exists target. split; [done|apply rtc_refl]. }
    set (next := filter _ _).
    destruct next as [|y next'] eqn:Hn; [done|]. rewrite <- Hn. intros H.
    apply IH in H as (x & Hx & Hr). subst next.
    apply elem_of_next in Hx as (_ & z & Hz & He).
    exists z. split; [done|]. by eapply rtc_l.
Qed.

(** * 2. reach_fuel: completeness.  The measure is the number of edge targets
    not yet discovered. *)
Definition edge_targets (g : graph) : gset string :=
  list_to_set (snd <$> elements (g_deps g)).

Lemma edge_targets_spec g y : y ∈ edge_targets g <-> ∃ x, edge g x y.
Proof.
  unfold edge_targets, edge. rewrite elem_of_list_to_set, elem_of_list_fmap. split.
  - intros ([x y'] & -> & H%elem_of_elements). by exists x.
  - intros (x & H). exists (x, y). split; [done|]. by apply elem_of_elements.
Qed.

Lemma size_list_to_set_le (l : list string) :
  size (list_to_set (C:=gset string) l) <= length l.
Proof.
  induction l as [|x l IH]; cbn.
  - by rewrite size_empty.
  - rewrite size_union_alt, size_singleton.
    assert (size (list_to_set (C:=gset string) l ∖ {[x]}) <= size (list_to_set (C:=gset string) l)).
    { apply subseteq_size. set_solver. }
    lia.
Qed.

Lemma edge_targets_size g : size (edge_targets g) <= size (g_deps g).
Proof.
  unfold edge_targets. etrans; [apply size_list_to_set_le|].
  rewrite fmap_length. done.
Qed.

Definition undiscovered (g : graph) (l : list string) : gset string :=
  edge_targets g ∖ list_to_set l.

Lemma reach_fuel_complete n g frontier seen target :
  size (undiscovered g (frontier ++ seen)) < n ->
  (forall x y, x ∈ seen -> edge g x y -> y ∈ frontier ++ seen) ->
  target ∉ seen ->
  (∃ x, x ∈ frontier ++ seen ∧ rtc (edge g) x target) ->
  reach_fuel n g frontier seen target = true.
Proof.
  revert frontier seen. induction n as [|n IH]; intros frontier seen Hsz Hcl Hts Hex; [lia|].
  cbn. destruct (mem_str target frontier) eqn:Hm; [done|].
  apply mem_str_false in Hm.
  set (seen' := frontier ++ seen). set (next := filter _ _).
  assert (Hts' : target ∉ seen') by (unfold seen'; set_solver).
  assert (Hcl' : forall x y, x ∈ seen' -> edge g x y -> y ∈ next ++ seen').
  { intros x y Hx He. destruct (decide (y ∈ seen')) as [|Hy]; [set_solver|].
    apply elem_of_app. left. apply elem_of_next. split; [done|].
    apply elem_of_app in Hx as [Hx|Hx]; [by eauto|].
    exfalso. apply Hy. by eapply Hcl. }
  destruct next as [|y next'] eqn:Hn.
  - (* frontier exhausted: [seen'] is closed, so the target would be in it *)
    exfalso. destruct Hex as (x & Hx & Hr). apply Hts'. fold seen' in Hx.
    clear -Hx Hr Hcl'. induction Hr as [|x y z He Hr IHr]; [done|].
    apply IHr. specialize (Hcl' _ _ Hx He). by rewrite app_nil_l in Hcl'.
  - rewrite <- Hn. apply IH; try done.
    + (* measure decreases: [y] is a fresh edge target *)
      assert (Hy : y ∈ next) by (rewrite Hn; left).
      pose proof Hy as Hy'. apply elem_of_next in Hy' as (Hy1 & z & _ & He).
      assert (undiscovered g (next ++ seen') ⊂ undiscovered g (frontier ++ seen)).
      { fold seen'. unfold undiscovered. split.
        - rewrite list_to_set_app. set_solver.
        - intros Hsub. assert (Hin : y ∈ edge_targets g ∖ list_to_set (C:=gset string) seen').
          { apply elem_of_difference. split; [apply edge_targets_spec; eauto|].
            by rewrite elem_of_list_to_set. }
          apply Hsub in Hin. apply elem_of_difference in Hin as [_ Hin].
          apply Hin. rewrite elem_of_list_to_set. set_solver. }
      apply subset_size in H. lia.
    + by rewrite Hn.
    + destruct Hex as (x & Hx & Hr). exists x. split; [|done]. fold seen' in Hx. set_solver.
Qed.

Theorem has_cycle_spec g from to :
  has_cycle g from to = true <-> from = to \/ rtc (edge g) to from.
Proof.
  unfold has_cycle. destruct (String.eqb from to) eqn:E.
  { apply String.eqb_eq in E. naive_solver. }
  apply String.eqb_neq in E. split.
  - intros (x & Hx & Hr)%reach_fuel_sound. apply elem_of_list_singleton in Hx as ->. by right.
  - intros [?|Hr]; [done|]. apply reach_fuel_complete.
    + pose proof (edge_targets_size g).
      assert (size (undiscovered g ([to] ++ [])) <= size (edge_targets g)).
      { apply subseteq_size. unfold undiscovered. set_solver. }
      lia.
    + intros x y Hx. by apply elem_of_nil in Hx.
    + apply not_elem_of_nil.
    + exists to. split; [set_solver|done].
Qed.

Corollary has_cycle_false g from to :
  has_cycle g from to = false <-> from ≠ to ∧ ¬ rtc (edge g) to from.
Proof.
  pose proof (has_cycle_spec g from to). destruct (has_cycle g from to); naive_solver.
Qed.

(** * 3. Adding an edge *)
Lemma edge_add_edge g a b x y : edge (add_edge g a b) x y <-> (x = a ∧ y = b) ∨ edge g x y.
Proof. unfold edge, add_edge. cbn. set_solver. Qed.
Lemma edge_del_edge g a b x y : edge (del_edge g a b) x y <-> edge g x y ∧ (x, y) ≠ (a, b).
Proof. unfold edge, del_edge. cbn. set_solver. Qed.

Lemma rtc_add_edge g a b x y :
  rtc (edge (add_edge g a b)) x y ->
  rtc (edge g) x y ∨ (rtc (edge g) x a ∧ rtc (edge g) b y).
Proof.
  induction 1 as [x|x z y He Hr IH].
  - left. apply rtc_refl.
  - apply edge_add_edge in He as [[-> ->]|He].
    + right. split; [apply rtc_refl|]. tauto.
    + destruct IH as [IH|[IH1 IH2]].
      * left. by eapply rtc_l.
      * right. split; [by eapply rtc_l|done].
Qed.

Theorem add_edge_acyclic g a b :
  acyclic g -> has_cycle g a b = false -> acyclic (add_edge g a b).
Proof.
  intros Hac [Hne Hnr]%has_cycle_false x Hc.
  assert (∃ z, edge (add_edge g a b) x z ∧ rtc (edge (add_edge g a b)) z x) as (z & He & Hr).
  { inversion Hc; subst; [eexists; split; [done|apply rtc_refl]|].
    eexists; split; [done|]. by apply tc_rtc. }
  apply rtc_add_edge in Hr. apply edge_add_edge in He as [[-> ->]|He].
  - tauto.
  - destruct Hr as [Hr|[Hr1 Hr2]].
    + apply (Hac x). eapply tc_rtc_r; [by apply tc_once|done].
    + apply Hnr. etrans; [done|]. by eapply rtc_l.
Qed.

Theorem add_edge_cyclic g a b :
  has_cycle g a b = true -> ¬ acyclic (add_edge g a b).
Proof.
  intros H%has_cycle_spec Hac. apply (Hac a).
  assert (He : edge (add_edge g a b) a b) by (apply edge_add_edge; tauto).
  destruct H as [<-|Hr]; [by apply tc_once|].
  eapply tc_rtc_r; [by apply tc_once|].
  eapply rtc_subrel; [|done]. intros x y ?. apply edge_add_edge. tauto.
Qed.

(** * 4. Subgraphs *)
Theorem subgraph_acyclic g g' : g_deps g' ⊆ g_deps g -> acyclic g -> acyclic g'.
Proof.
  intros Hsub Hac x Hc. apply (Hac x).
  eapply (tc_congruence (λ x, x)); [|done]. intros ?? H. by apply Hsub.
Qed.

Corollary del_edge_acyclic g a b : acyclic g -> acyclic (del_edge g a b).
Proof. apply subgraph_acyclic. cbn. set_solver. Qed.

Corollary apply_tombstone_acyclic g i : acyclic g -> acyclic (apply_tombstone g i).
Proof.
  apply subgraph_acyclic. cbn. intros p Hp. by apply elem_of_filter in Hp as [_ ?].
Qed.

Lemma no_edges_acyclic g : g_deps g = ∅ -> acyclic g.
Proof.
  intros E x Hc. inversion Hc as [?? He|??? He]; unfold edge in He; rewrite E in He; set_solver.
Qed.
Lemma empty_graph_acyclic : acyclic empty_graph.
Proof. by apply no_edges_acyclic. Qed.

(** * 5. Transactions *)
Lemma link_ok_spec link g a b :
  link_ok link g a b = true <->
  a ∉ g_tombs g ∧ b ∉ g_tombs g ∧ a ≠ b ∧
  (∃ ta tb, g_tasks g !! a = Some ta ∧ g_tasks g !! b = Some tb ∧ t_is_epic ta = t_is_epic tb) ∧
  (link = true -> has_cycle g a b = false).
Proof.
  unfold link_ok, tombed.
  destruct (decide (a ∈ g_tombs g)) as [Ha|Ha].
  { rewrite (bool_decide_eq_true_2 _ Ha). cbn. naive_solver. }
  rewrite (bool_decide_eq_false_2 _ Ha).
  destruct (decide (b ∈ g_tombs g)) as [Hb|Hb].
  { rewrite (bool_decide_eq_true_2 _ Hb). cbn. naive_solver. }
  rewrite (bool_decide_eq_false_2 _ Hb). cbn.
  destruct (g_tasks g !! a) as [ta|]; [|naive_solver].
  destruct (g_tasks g !! b) as [tb|]; [|naive_solver].
  destruct (String.eqb a b) eqn:E.
  { apply String.eqb_eq in E. naive_solver. }
  apply String.eqb_neq in E.
  destruct (Bool.eqb (t_is_epic ta) (t_is_epic tb)) eqn:Ek; cbn.
  - apply Bool.eqb_prop in Ek.
    destruct link; [destruct (has_cycle g a b)|]; cbn; naive_solver.
  - apply Bool.eqb_false_iff in Ek. naive_solver.
Qed.

Lemma add_edges_cons g e es : add_edges g (e :: es) = add_edges (add_edge g e.1 e.2) es.
Proof. done. Qed.
Lemma del_edges_cons g e es : del_edges g (e :: es) = del_edges (del_edge g e.1 e.2) es.
Proof. done. Qed.
Lemma add_edges_app g l1 l2 : add_edges g (l1 ++ l2) = add_edges (add_edges g l1) l2.
Proof. apply fold_left_app. Qed.
Lemma del_edges_app g l1 l2 : del_edges g (l1 ++ l2) = del_edges (del_edges g l1) l2.
Proof. apply fold_left_app. Qed.

Lemma add_edges_tasks g es : g_tasks (add_edges g es) = g_tasks g.
Proof. revert g; induction es as [|e es IH]; intros g; [done|]. by rewrite add_edges_cons, IH. Qed.
Lemma add_edges_tombs g es : g_tombs (add_edges g es) = g_tombs g.
Proof. revert g; induction es as [|e es IH]; intros g; [done|]. by rewrite add_edges_cons, IH. Qed.
Lemma add_edges_deps g es : g_deps (add_edges g es) = list_to_set es ∪ g_deps g.
Proof.
  revert g; induction es as [|[a b] es IH]; intros g; cbn; [set_solver|].
  fold (add_edge g a b). fold (add_edges (add_edge g a b) es). rewrite IH. cbn. set_solver.
Qed.
Lemma del_edges_tasks g es : g_tasks (del_edges g es) = g_tasks g.
Proof. revert g; induction es as [|e es IH]; intros g; [done|]. by rewrite del_edges_cons, IH. Qed.
Lemma del_edges_tombs g es : g_tombs (del_edges g es) = g_tombs g.
Proof. revert g; induction es as [|e es IH]; intros g; [done|]. by rewrite del_edges_cons, IH. Qed.
Lemma del_edges_deps g es : g_deps (del_edges g es) = g_deps g ∖ list_to_set es.
Proof.
  revert g; induction es as [|[a b] es IH]; intros g; cbn; [set_solver|].
  fold (del_edge g a b). fold (del_edges (del_edge g a b) es). rewrite IH. cbn. set_solver.
Qed.

(** Every accepted edge passed [link_ok] on the graph extended by its predecessors. *)
Definition each_ok (step : graph -> list (string * string) -> graph)
    (ok : graph -> string -> string -> Prop) (g : graph) (edges : list (string * string)) : Prop :=
  forall l1 a b l2, edges = l1 ++ (a, b) :: l2 -> ok (step g l1) a b.

Lemma each_ok_cons (step : graph -> list (string * string) -> graph)
    (ok : graph -> string -> string -> Prop) g a b es :
  (forall e l, step g (e :: l) = step (step g [e]) l) -> step g [] = g ->
  ok g a b -> each_ok step ok (step g [(a, b)]) es -> each_ok step ok g ((a, b) :: es).
Proof.
  intros Hstep Hnil H0 Hes l1 a' b' l2 E. destruct l1 as [|e l1]; cbn in E.
  - injection E as <- <- <-. by rewrite Hnil.
  - injection E as <- ->. rewrite Hstep. by eapply Hes.
Qed.

Theorem seq_txn_link_spec g edges evs :
  seq_txn true g edges = Some evs ->
  evs = link_ev <$> edges ∧
  each_ok add_edges (λ g a b, link_ok true g a b = true) g edges.
Proof.
  revert g evs. induction edges as [|[a b] es IH]; intros g evs; cbn.
  - intros [= <-]. split; [done|]. intros [|??] ???; discriminate.
  - destruct (link_ok true g a b) eqn:Hok; [|done].
    fold (add_edge g a b).
    destruct (seq_txn true (add_edge g a b) es) as [evs'|] eqn:Hs; [|done].
    intros [= <-]. apply IH in Hs as [-> Hes]. split; [done|].
    by apply each_ok_cons.
Qed.

Lemma each_ok_acyclic (ok : graph -> string -> string -> Prop) g edges :
  (forall g a b, ok g a b -> has_cycle g a b = false) ->
  each_ok add_edges ok g edges -> acyclic g -> acyclic (add_edges g edges).
Proof.
  intros Hok. revert g. induction edges as [|[a b] es IH]; intros g Hes Hac; [done|].
  rewrite add_edges_cons. apply IH.
  - intros l1 a' b' l2 E. specialize (Hes ((a, b) :: l1) a' b' l2). cbn in Hes.
    apply Hes. by rewrite E.
  - apply add_edge_acyclic; [done|]. apply Hok. by apply (Hes [] a b es).
Qed.

Theorem seq_txn_acyclic g edges evs :
  acyclic g -> seq_txn true g edges = Some evs -> acyclic (add_edges g edges).
Proof.
  intros Hac [_ Hes]%seq_txn_link_spec. eapply each_ok_acyclic; [|done..].
  cbn. intros g' a b H%link_ok_spec. naive_solver.
Qed.

(** The same, unpacked: every accepted edge has live, distinct, same-kind
    endpoints in the ORIGINAL graph and closes no cycle in the graph extended
    by the edges accepted before it. *)
Theorem seq_txn_link_edges g edges evs :
  seq_txn true g edges = Some evs ->
  forall l1 a b l2, edges = l1 ++ (a, b) :: l2 ->
    a ∉ g_tombs g ∧ b ∉ g_tombs g ∧ a ≠ b ∧
    (∃ ta tb, g_tasks g !! a = Some ta ∧ g_tasks g !! b = Some tb ∧ t_is_epic ta = t_is_epic tb) ∧
    has_cycle (add_edges g l1) a b = false.
Proof.
  intros [_ Hes]%seq_txn_link_spec l1 a b l2 E.
  specialize (Hes l1 a b l2 E). apply link_ok_spec in Hes.
  rewrite add_edges_tasks, add_edges_tombs in Hes. naive_solver.
Qed.

(** Converse: the transaction accepts exactly when every edge is [link_ok] in turn. *)
Theorem seq_txn_accepts (link : bool) g edges :
  each_ok (if link then add_edges else del_edges) (λ g a b, link_ok link g a b = true) g edges ->
  is_Some (seq_txn link g edges).
Proof.
  revert g. induction edges as [|[a b] es IH]; intros g Hes; cbn; [by eexists|].
  pose proof (Hes [] a b es eq_refl) as H0. cbn in H0.
  replace ((if link then add_edges else del_edges) g []) with g in H0 by by destruct link.
  rewrite H0.
  set (g' := if link then _ else _).
  destruct (IH g') as [evs ->]; [|by eexists].
  intros l1 a' b' l2 E. specialize (Hes ((a, b) :: l1) a' b' l2). cbn in Hes.
  subst g'. destruct link; apply Hes; by rewrite E.
Qed.

Theorem plan_links_spec g edges evs :
  plan_links g edges = Some evs ->
  evs = link_ev <$> edges ∧
  each_ok add_edges (λ g a b, a ≠ b ∧ has_cycle g a b = false) g edges.
Proof.
  revert g evs. induction edges as [|[a b] es IH]; intros g evs; cbn.
  - intros [= <-]. split; [done|]. intros [|??] ???; discriminate.
  - destruct (String.eqb a b) eqn:E; [done|]. apply String.eqb_neq in E. cbn.
    destruct (has_cycle g a b) eqn:Hc; [done|].
    fold (add_edge g a b).
    destruct (plan_links (add_edge g a b) es) as [evs'|] eqn:Hs; [|done].
    intros [= <-]. apply IH in Hs as [-> Hes]. split; [done|].
    by apply each_ok_cons.
Qed.

Theorem plan_links_acyclic g edges evs :
  acyclic g -> plan_links g edges = Some evs -> acyclic (add_edges g edges).
Proof.
  intros Hac [_ Hes]%plan_links_spec. eapply each_ok_acyclic; [|done..].
  cbn. naive_solver.
Qed.

Theorem seq_txn_unlink_spec g edges evs :
  seq_txn false g edges = Some evs ->
  evs = unlink_ev <$> edges ∧
  each_ok del_edges (λ g a b, link_ok false g a b = true) g edges.
Proof.
  revert g evs. induction edges as [|[a b] es IH]; intros g evs; cbn.
  - intros [= <-]. split; [done|]. intros [|??] ???; discriminate.
  - destruct (link_ok false g a b) eqn:Hok; [|done].
    fold (del_edge g a b).
    destruct (seq_txn false (del_edge g a b) es) as [evs'|] eqn:Hs; [|done].
    intros [= <-]. apply IH in Hs as [-> Hes]. split; [done|].
    by apply each_ok_cons.
Qed.

Theorem del_edges_subseteq g edges : g_deps (del_edges g edges) ⊆ g_deps g.
Proof. rewrite del_edges_deps. set_solver. Qed.
Theorem del_edges_single g a b : g_deps (del_edges g [(a, b)]) = g_deps g ∖ {[ (a, b) ]}.
Proof. done. Qed.
Corollary del_edges_acyclic g edges : acyclic g -> acyclic (del_edges g edges).
Proof. apply subgraph_acyclic, del_edges_subseteq. Qed.

(** * 6. Replay connection *)
Lemma apply_event_link g a b :
  a ∉ g_tombs g -> b ∉ g_tombs g -> apply_event g (ELink a b depends) = Ok (add_edge g a b).
Proof.
  intros Ha Hb. cbn. unfold tombed.
  by rewrite (bool_decide_eq_false_2 _ Ha), (bool_decide_eq_false_2 _ Hb).
Qed.
Lemma apply_event_unlink g a b :
  a ∉ g_tombs g -> b ∉ g_tombs g -> apply_event g (EUnlink a b depends) = Ok (del_edge g a b).
Proof.
  intros Ha Hb. cbn. unfold tombed.
  by rewrite (bool_decide_eq_false_2 _ Ha), (bool_decide_eq_false_2 _ Hb).
Qed.
(** A link / unlink touching a tombstoned endpoint is a no-op. *)
Lemma apply_event_link_tombed g a b :
  a ∈ g_tombs g ∨ b ∈ g_tombs g -> apply_event g (ELink a b depends) = Ok g.
Proof.
  intros H. cbn. unfold tombed.
  destruct H as [H|H]; rewrite (bool_decide_eq_true_2 _ H); cbn; [done|].
  by destruct (bool_decide _).
Qed.

Definition live_ends (g : graph) (e : string * string) : Prop := e.1 ∉ g_tombs g ∧ e.2 ∉ g_tombs g.

Theorem replay_links g edges :
  Forall (live_ends g) edges -> replay_from g (link_ev <$> edges) = Ok (add_edges g edges).
Proof.
  unfold replay_from. revert g. induction edges as [|[a b] es IH]; intros g Hl; [done|].
  apply Forall_cons_1 in Hl as [[Ha Hb] Hl]. cbn in Ha, Hb.
  change (foldM apply_event (link_ev <$> (a, b) :: es) g)
    with (rbind (apply_event g (ELink a b depends)) (foldM apply_event (link_ev <$> es))).
  rewrite apply_event_link by done. cbn [rbind]. rewrite add_edges_cons. apply IH.
  exact Hl.
Qed.
Theorem replay_unlinks g edges :
  Forall (live_ends g) edges -> replay_from g (unlink_ev <$> edges) = Ok (del_edges g edges).
Proof.
  unfold replay_from. revert g. induction edges as [|[a b] es IH]; intros g Hl; [done|].
  apply Forall_cons_1 in Hl as [[Ha Hb] Hl]. cbn in Ha, Hb.
  change (foldM apply_event (unlink_ev <$> (a, b) :: es) g)
    with (rbind (apply_event g (EUnlink a b depends)) (foldM apply_event (unlink_ev <$> es))).
  rewrite apply_event_unlink by done. cbn [rbind]. rewrite del_edges_cons. apply IH.
  exact Hl.
Qed.

Lemma each_ok_live_ends (step : graph -> list (string * string) -> graph) link g edges :
  (forall g l, g_tombs (step g l) = g_tombs g) ->
  each_ok step (λ g a b, link_ok link g a b = true) g edges -> Forall (live_ends g) edges.
Proof.
  intros Htomb Hes. apply list.Forall_forall. intros [a b] Hin.
  apply elem_of_list_split in Hin as (l1 & l2 & ->).
  specialize (Hes l1 a b l2 eq_refl). apply link_ok_spec in Hes as (Ha & Hb & _).
  rewrite Htomb in Ha, Hb. by split.
Qed.

(** The full statement for [sequence] (link): accepted => events are the links
    in order, replaying them on [g] yields [g] plus exactly those edges, and
    acyclicity is preserved. *)
Theorem seq_txn_link_replay g edges evs :
  seq_txn true g edges = Some evs ->
  evs = link_ev <$> edges ∧
  replay_from g evs = Ok (add_edges g edges) ∧
  (acyclic g -> acyclic (add_edges g edges)).
Proof.
  intros H. pose proof H as [-> Hes]%seq_txn_link_spec. split; [done|]. split.
  - apply replay_links. eapply each_ok_live_ends; [|done]. apply add_edges_tombs.
  - intros Hac. by eapply seq_txn_acyclic.
Qed.

Theorem seq_txn_unlink_replay g edges evs :
  seq_txn false g edges = Some evs ->
  evs = unlink_ev <$> edges ∧
  replay_from g evs = Ok (del_edges g edges) ∧
  g_deps (del_edges g edges) ⊆ g_deps g ∧
  (acyclic g -> acyclic (del_edges g edges)).
Proof.
  intros H. pose proof H as [-> Hes]%seq_txn_unlink_spec. split; [done|]. split; [|split].
  - apply replay_unlinks. eapply each_ok_live_ends; [|done]. apply del_edges_tombs.
  - apply del_edges_subseteq.
  - apply del_edges_acyclic.
Qed.

Corollary seq_txn_unlink_single g a b evs :
  seq_txn false g [(a, b)] = Some evs ->
  evs = [EUnlink a b depends] ∧
  ∃ g', replay_from g evs = Ok g' ∧ g_deps g' = g_deps g ∖ {[ (a, b) ]} ∧
        g_tasks g' = g_tasks g ∧ g_tombs g' = g_tombs g.
Proof.
  intros (-> & Hr & _)%seq_txn_unlink_replay. split; [done|].
  exists (del_edges g [(a, b)]). by rewrite Hr.
Qed.

(** [plan_links] does not itself check tombstones (plan ids are fresh), so the
    replay statement takes liveness of the endpoints as a hypothesis. *)
Theorem plan_links_replay g edges evs :
  plan_links g edges = Some evs -> Forall (live_ends g) edges ->
  evs = link_ev <$> edges ∧
  replay_from g evs = Ok (add_edges g edges) ∧
  (acyclic g -> acyclic (add_edges g edges)).
Proof.
  intros H Hl. pose proof H as [-> Hes]%plan_links_spec. split; [done|]. split.
  - by apply replay_links.
  - intros Hac. by eapply plan_links_acyclic.
Qed.

(** * Satisfiability of the hypotheses: a 4-node chain a -> b -> c -> d. *)
Section example.
  Local Open Scope string_scope.
  Let mk (i : string) : task := new_task false i "" "" "todo" i "" 0%Z.
  Let g4 : graph :=
    Graph (list_to_map [("a", mk "a"); ("b", mk "b"); ("c", mk "c"); ("d", mk "d")])
          (list_to_set [("a", "b"); ("b", "c")]) ∅.

  Example ex_accept :
    seq_txn true g4 [("c", "d")] = Some [ELink "c" "d" depends].
  Proof. vm_compute. reflexivity. Qed.
  Example ex_reject_cycle :
    has_cycle g4 "c" "a" = true ∧ seq_txn true g4 [("c", "a")] = None.
  Proof. vm_compute. split; reflexivity. Qed.
  Example ex_reject_second :
    seq_txn true g4 [("c", "d"); ("d", "a")] = None ∧
    is_Some (seq_txn true g4 [("c", "d"); ("a", "d")]).
  Proof. vm_compute. split; [reflexivity|by eexists]. Qed.
  Example ex_unlink :
    seq_txn false g4 [("a", "b")] = Some [EUnlink "a" "b" depends].
  Proof. vm_compute. reflexivity. Qed.
  Example ex_g4_acyclic : acyclic g4.
  Proof.
    (* built from the empty graph by two accepted links *)
    pose (g0 := Graph (g_tasks g4) ∅ ∅).
    assert (Hs : is_Some (seq_txn true g0 [("b", "c"); ("a", "b")])) by (vm_compute; by eexists).
    destruct Hs as [evs Hs].
    assert (Hac0 : acyclic g0).
    { by apply no_edges_acyclic. }
    pose proof (seq_txn_acyclic _ _ _ Hac0 Hs) as Hac.
    eapply subgraph_acyclic; [|exact Hac].
    rewrite add_edges_deps. cbn. set_solver.
  Qed.
End example.

Print Assumptions has_cycle_spec.
Print Assumptions add_edge_acyclic.
Print Assumptions add_edge_cyclic.
Print Assumptions seq_txn_acyclic.
Print Assumptions seq_txn_link_edges.
Print Assumptions plan_links_acyclic.
Print Assumptions seq_txn_link_replay.
Print Assumptions seq_txn_unlink_replay.
Print Assumptions plan_links_replay.
Print Assumptions seq_txn_accepts.
