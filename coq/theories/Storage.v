(** Storage.v — storage.go:109-178 readEvents over classified lines: the
    pending-line logic (a line is processed only once the NEXT token has been
    scanned), the newline probe, blank lines, the line-length limit. *)
From Ergo Require Import Base Events.
Local Open Scope list_scope.

Inductive line :=
| LGood (e : event)     (* parses as an Event envelope *)
| LBad                  (* not JSON / not the envelope shape *)
| LBlank                (* empty after TrimSpace *)
| LHuge.                (* longer than the scanner's limit *)

Definition process (k : nat) (l : line) (acc : list event) : res (list event) :=
  match l with
  | LGood e => Ok (acc ++ [e])
  | LBlank => Ok acc
  | LBad => Err (RBadJSON k)
  | LHuge => Err RTooLong
  end.

Definition is_huge (l : line) : bool := match l with LHuge => true | _ => false end.
Definition is_bad (l : line) : bool := match l with LBad => true | _ => false end.

(** [n] lines have been consumed before [ls]. *)
Fixpoint scan (ls : list line) (n : nat) (acc : list event) (ends_nl : bool) : res (list event) :=
  match ls with
  | [] => Ok acc
  | l :: rest =>
      if is_huge l then Err RTooLong else
      match rest with
      | [] => match process (S n) l acc with
              | Ok a => Ok a
              | Err e => if ends_nl then Err e else Ok acc       (* truncated final line tolerated *)
              end
      | l2 :: _ =>
          if is_huge l2 then Err RTooLong                        (* Scan fails: [l] is never processed *)
          else match process (S n) l acc with
               | Ok a => scan rest (S n) a ends_nl
               | Err e => Err e
               end
      end
  end.

Definition read_lines (ls : list line) (ends_nl : bool) : res (list event) := scan ls 0 [] ends_nl.

Definition goods (ls : list line) : list event :=
  concat ((fun l => match l with LGood e => [e] | _ => [] end) <$> ls).
Definition clean (ls : list line) : Prop := Forall (fun l => is_bad l = false /\ is_huge l = false) ls.

Lemma goods_app a b : goods (a ++ b) = goods a ++ goods b.
Proof. unfold goods. rewrite fmap_app, concat_app. reflexivity. Qed.

Lemma process_clean k l acc : is_bad l = false -> is_huge l = false ->
  process k l acc = Ok (acc ++ goods [l]).
Proof. destruct l; cbn; intros; try discriminate; rewrite ?app_nil_r; reflexivity. Qed.

(** A clean prefix is consumed, accumulating its good lines in order. *)
Lemma scan_clean_prefix pre : forall rest n acc nl,
  clean pre -> rest <> [] -> (forall l r, rest = l :: r -> is_huge l = false) ->
  scan (pre ++ rest) n acc nl = scan rest (n + length pre) (acc ++ goods pre) nl.
Proof.
  induction pre as [|l pre IH]; intros rest n acc nl Hc Hne Hh.
  - cbn. rewrite Nat.add_0_r, app_nil_r. reflexivity.
  - inversion Hc as [|? ? [Hb Hg] Hc']; subst. cbn [app scan]. rewrite Hg.
    destruct (pre ++ rest) as [|l2 tl] eqn:E.
    { destruct pre; cbn in E; [subst; contradiction|discriminate]. }
    assert (Hh2 : is_huge l2 = false).
    { destruct pre as [|p pre']; cbn in E.
      - subst rest. eapply Hh; reflexivity.
      - injection E as <- _. inversion Hc' as [|? ? [_ Hg'] _]. exact Hg'. }
    rewrite Hh2, (process_clean _ _ _ Hb Hg). rewrite <- E, (IH rest (S n) _ nl Hc' Hne Hh).
    change (l :: pre) with ([l] ++ pre). rewrite goods_app, app_assoc. cbn [length app]. f_equal. lia.
Qed.

(** * The three outcomes on a file whose lines are otherwise fine *)
Theorem read_clean ls nl : clean ls -> read_lines ls nl = Ok (goods ls).
Proof.
  unfold read_lines. intros Hc. destruct ls as [|l ls] using rev_ind; [reflexivity|].
  apply Forall_app in Hc as [Hc Hl]. inversion Hl as [|? ? [Hb Hg] _]; subst.
  rewrite (scan_clean_prefix ls [l] 0 [] nl Hc); [|discriminate|intros ? ? [= <- _]; exact Hg].
  cbn [scan]. rewrite Hg, (process_clean _ _ _ Hb Hg), goods_app. reflexivity.
Qed.

(** A truncated (unparsable, unterminated) final line is dropped — exactly then. *)
Theorem read_torn_tail body : clean body -> read_lines (body ++ [LBad]) false = Ok (goods body).
Proof.
  unfold read_lines. intros Hc.
  rewrite (scan_clean_prefix body [LBad] 0 [] false Hc); [|discriminate|intros ? ? [= <- _]; reflexivity].
  cbn. rewrite ?app_nil_r. reflexivity.
Qed.

(** Otherwise the FIRST unparsable line is reported with its 1-based line number. *)
Theorem read_bad_line pre post nl :
  clean pre -> (post <> [] \/ nl = true) -> (forall l r, post = l :: r -> is_huge l = false) ->
  read_lines (pre ++ LBad :: post) nl = Err (RBadJSON (S (length pre))).
Proof.
  unfold read_lines. intros Hc Hp Hh.
  rewrite (scan_clean_prefix pre (LBad :: post) 0 [] nl Hc); [|discriminate|intros ? ? [= <- _]; reflexivity].
  cbn [scan is_huge]. destruct post as [|l2 r].
  - destruct Hp as [Hp| ->]; [contradiction|]. cbn. reflexivity.
  - rewrite (Hh l2 r eq_refl). cbn. reflexivity.
Qed.

Theorem read_huge_line pre post nl : clean pre -> read_lines (pre ++ LHuge :: post) nl = Err RTooLong.
Proof.
  unfold read_lines. intros Hc. destruct pre as [|l pre] using rev_ind.
  - reflexivity.
  - apply Forall_app in Hc as [Hc Hl]. inversion Hl as [|? ? [Hb Hg] _]; subst.
    rewrite <- app_assoc. cbn [app].
    rewrite (scan_clean_prefix pre (l :: LHuge :: post) 0 [] nl Hc); [|discriminate|intros ? ? [= <- _]; exact Hg].
    cbn [scan]. rewrite Hg. reflexivity.
Qed.

(** Totality: [read_lines] is a total function into [res]; its only errors are the two classified ones. *)
Theorem read_errors_classified ls nl e :
  read_lines ls nl = Err e -> (exists k, e = RBadJSON k) \/ e = RTooLong.
Proof.
  unfold read_lines. generalize 0 as n. generalize (@nil event) as acc. revert e.
  induction ls as [|l rest IH]; intros e acc n; cbn [scan]; [discriminate|].
  destruct (is_huge l); [intros [= <-]; right; reflexivity|].
  destruct rest as [|l2 r].
  - destruct l; cbn; try discriminate; destruct nl; try discriminate; intros [= <-]; eauto.
  - destruct (is_huge l2); [intros [= <-]; right; reflexivity|].
    destruct l; cbn [process]; try (intros [= <-]; eauto; fail); apply IH.
Qed.
