(** Compact.v — graph.go:344-504 compactEvents (with the state-before-claim order). *)
From Ergo Require Import Base Text Events Replay.
Local Open Scope string_scope.
Local Open Scope list_scope.

Definition key_le {A} (a b : string * A) : Prop := str_le a.1 b.1.
Global Instance key_le_dec {A} (a b : string * A) : Decision (key_le a b).
Proof. unfold key_le. apply _. Defined.
Definition sorted_tasks (g : graph) : list task :=
  snd <$> merge_sort key_le (map_to_list (g_tasks g)).

Definition pair_le (a b : string * string) : Prop :=
  if String.eqb a.1 b.1 then str_le a.2 b.2 else str_le a.1 b.1.
Global Instance pair_le_dec a b : Decision (pair_le a b).
Proof. unfold pair_le. destruct (String.eqb _ _); apply _. Defined.
Definition sorted_edges (g : graph) : list (string * string) :=
  merge_sort pair_le (elements (g_deps g)).

Definition created_at (t : task) : time := if is_zero (m_created t) then t_created t else m_created t.
Definition created_state (t : task) : string := if String.eqb (m_state t) "" then t_state t else m_state t.
Definition created_title (t : task) : string := if String.eqb (m_title t) "" then t_title t else m_title t.
Definition created_body (t : task) : string := if String.eqb (m_body t) "" then t_body t else m_body t.

Definition touched (last created : time) : bool := (negb (is_zero last) && after last created)%bool.

Definition compact_task (t : task) : list event :=
  let ca := created_at t in
  [ENew (t_is_epic t) (t_id t) (t_uuid t) (m_epic t) (created_state t) (created_title t) (created_body t) (Some ca)]
  ++ (if (negb (String.eqb (t_title t) (created_title t)) || touched (m_last_title t) ca)%bool
      then [ETitle (t_id t) (t_title t) (Some (pick_time (m_last_title t) (t_updated t)))] else [])
  ++ (if (negb (String.eqb (t_body t) (created_body t)) || touched (m_last_body t) ca)%bool
      then [EBody (t_id t) (t_body t) (Some (pick_time (m_last_body t) (t_updated t)))] else [])
  ++ (if (negb (t_is_epic t) && (negb (String.eqb (t_epic t) (m_epic t)) || touched (m_last_epic t) ca))%bool
      then [EEpic (t_id t) (t_epic t) (Some (pick_time (m_last_epic t) (t_updated t)))] else [])
  ++ (if (negb (String.eqb (t_state t) (created_state t)) || touched (m_last_state t) ca)%bool
      then [EState (t_id t) (t_state t) (Some (pick_time (m_last_state t) (t_updated t)))] else [])
  ++ (if negb (String.eqb (t_claimed t) "")
      then [EClaim (t_id t) (t_claimed t) (Some (pick_time (m_last_claim t) (t_updated t)))] else [])
  ++ ((λ r, EResult (t_id t) (r_summary r) (r_path r) (r_sha r) (r_mtime r) (r_git r) (Some (r_at r)))
        <$> rev (t_results t)).

Definition compact_events (g : graph) : list event :=
  concat (compact_task <$> sorted_tasks g)
  ++ ((λ p, ELink p.1 p.2 depends) <$> sorted_edges g).
