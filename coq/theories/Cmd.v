(** Cmd.v — the command layer (commands_*.go, prune.go, storage.go:274-396,
    502-555) as transactions: every mutating command is ONE lock section
    [load -> validate -> decide]; [run_txn] is that decision as a pure
    function of the loaded event list and an environment oracle. *)
From Ergo Require Import Base Text Events Replay Ready Compact Path.
Local Open Scope string_scope.
Local Open Scope list_scope.

(** * Environment oracle *)
Inductive fkind := FMissing | FDir | FOther | FRegular.
Record env := Env {
  e_ids : list string;      (* candidate ids drawn by newShortID, in draw order *)
  e_uuids : list string;    (* uuids, one per created item *)
  e_now : time;             (* clock reading of the section (create/set/claim/prune/plan epic) *)
  e_now_result : time;      (* clock reading inside buildResultEvent *)
  e_nows : list time;       (* plan: one reading per task *)
  e_fkind : fkind;          (* what os.Stat says about the result file of this command *)
  e_sha : string; e_mtime : string; e_git : string }.

(** * State machine (model.go:57-118) *)
Definition valid_state (s : string) : bool :=
  mem_str s ["todo"; "doing"; "done"; "blocked"; "canceled"; "error"].
Definition transitions (from : string) : option (list string) :=
  if String.eqb from "todo" then Some ["doing"; "done"; "blocked"; "canceled"]
  else if String.eqb from "doing" then Some ["todo"; "done"; "blocked"; "canceled"; "error"]
  else if String.eqb from "blocked" then Some ["todo"; "doing"; "done"; "canceled"]
  else if String.eqb from "done" then Some ["todo"]
  else if String.eqb from "canceled" then Some ["todo"]
  else if String.eqb from "error" then Some ["todo"; "doing"; "canceled"]
  else None.
Definition validate_transition (from to : string) : bool :=
  if String.eqb from to then true else
  match transitions from with None => false | Some l => mem_str to l end.
Definition validate_claim_invariant (st claimed : string) : bool :=
  if (String.eqb st "doing" || String.eqb st "error")%bool then negb (String.eqb claimed "")
  else if clears_claim st then String.eqb claimed ""
  else true.

(** * Requests *)
Record upd := Upd {
  u_title : option string; u_body : option string; u_epic : option string;
  u_state : option string; u_claim : option string;
  u_rpath : option string; u_rsum : option string }.
Definition upd_none : upd := Upd None None None None None None None.
Definition is_some {A} (o : option A) : bool := match o with Some _ => true | None => false end.
Definition upd_nonresult_empty (u : upd) : bool :=
  negb (is_some (u_title u) || is_some (u_body u) || is_some (u_epic u) || is_some (u_state u) || is_some (u_claim u)).
Definition upd_empty (u : upd) : bool :=
  (upd_nonresult_empty u && negb (is_some (u_rpath u)) && negb (is_some (u_rsum u)))%bool.

Record ptask := PTask { pt_title : string; pt_body : option string; pt_after : list string }.
Record plan := Plan { p_title : string; p_body : option string; p_tasks : list ptask }.

Inductive cmd :=
| CNew (is_epic : bool) (title body epic : string) (u : upd) (agent : string)
| CSet (i : string) (u : upd) (agent : string)
| CClaimId (i : string) (agent : string)
| CClaimOldest (epic : string) (agent : string)
| CSeq (link : bool) (ids : list string)
| CPrune (yes : bool) (agent : string)
| CCompact
| CPlan (p : plan).

Inductive decision := Abort | Append (es : list event) | Replace (es : list event).
Inductive reply :=
| RNone
| RCreated (i st : string)
| RClaimed (i : string)
| RNoReady
| RPruned (ids : list string)
| RPlanned (epic : string) (tasks : list string) (edges : list (string * string)).

Definition apply_decision (log : list event) (d : decision) : list event :=
  match d with Abort => log | Append es => log ++ es | Replace es => es end.

(** * buildSetEvents (commands_work.go:478-630), on a loaded task *)
Definition build_set_events (i : string) (t : task) (u : upd) (agent : string) (now : time)
  : option (list event) :=
  let ts := Some now in
  (* implicit claim *)
  let claim0 :=
    match u_claim u with
    | Some c => Some (Some c)
    | None =>
        if (negb (t_is_epic t) && String.eqb (t_claimed t) "")%bool then
          match u_state u with
          | Some s => if (String.eqb s "doing" || String.eqb s "error")%bool
                      then (if String.eqb agent "" then None else Some (Some agent))
                      else Some None
          | None => Some None
          end
        else Some None
    end in
  match claim0 with
  | None => None
  | Some claim =>
  (* title *)
  match (match u_title u with
         | Some ti => let ti' := trim_space ti in
                      if String.eqb ti' "" then None else Some [ETitle i ti' ts]
         | None => Some [] end) with
  | None => None
  | Some ev_title =>
  let ev_body := match u_body u with Some b => [EBody i b ts] | None => [] end in
  match (match u_epic u with
         | Some e => if t_is_epic t then None else Some [EEpic i e ts]
         | None => Some [] end) with
  | None => None
  | Some ev_epic =>
  let claim_set := (is_some claim && negb (t_is_epic t))%bool in
  let claim_val := opt_default "" claim in
  let ev_claim :=
    if claim_set then (if String.eqb claim_val "" then [EUnclaim i] else [EClaim i claim_val ts])
    else [] in
  match u_state u with
  | Some s =>
      if negb (valid_state s) then None
      else if negb (validate_transition (t_state t) s) then None
      else
        let nc := if claim_set then claim_val else t_claimed t in
        let nc := if clears_claim s then "" else nc in
        if negb (validate_claim_invariant s nc) then None
        else Some (ev_title ++ ev_body ++ ev_epic ++ ev_claim ++ [EState i s ts])
  | None =>
      if (claim_set && negb (String.eqb claim_val ""))%bool then
        if validate_transition (t_state t) "doing"
        then Some (ev_title ++ ev_body ++ ev_epic ++ ev_claim ++ [EState i "doing" ts])
        else None
      else if (claim_set && String.eqb claim_val "")%bool then
        if validate_claim_invariant (t_state t) ""
        then Some (ev_title ++ ev_body ++ ev_epic ++ ev_claim)
        else None
      else Some (ev_title ++ ev_body ++ ev_epic ++ ev_claim)
  end end end end.

(** * Result attachment (storage.go:405-555 buildResultEvent) *)
Definition valid_summary (s : string) : option string :=
  let s' := trim_space s in
  if String.eqb s' "" then None
  else if contains_nl_cr s' then None
  else if Nat.ltb 120 (byte_len s') then None
  else Some s'.

Definition build_result_event (e : env) (g : graph) (i summary path : string) : option event :=
  if tombed g i then None else
  match g_tasks g !! i with
  | None => None
  | Some t =>
      if t_is_epic t then None else
      match valid_summary summary with
      | None => None
      | Some s' =>
          match lexical_result_path path with
          | None => None
          | Some c =>
              match e_fkind e with
              | FRegular => Some (EResult i s' c (e_sha e) (e_mtime e) (e_git e) (Some (e_now_result e)))
              | _ => None
              end
          end
      end
  end.

(** Result pairing check (applySetUpdates, before the lock). [Some None] = no result. *)
Definition result_req (u : upd) : option (option (string * string)) :=
  match u_rpath u, u_rsum u with
  | None, None => Some None
  | Some p, Some s => Some (Some (p, s))
  | _, _ => None
  end.

(** * applySetUpdates: one section *)
Definition set_txn (e : env) (i : string) (u : upd) (agent : string) (g : graph) : option (list event) :=
  match result_req u with
  | None => None
  | Some rq =>
    match (match rq with
           | Some (p, s) => match build_result_event e g i s p with
                            | Some ev => Some [ev] | None => None end
           | None => Some [] end) with
    | None => None
    | Some ev_res =>
      if (is_some rq && upd_nonresult_empty u)%bool then Some ev_res
      else
      if tombed g i then None else
      match g_tasks g !! i with
      | None => None
      | Some t =>
          if (t_is_epic t && (is_some (u_state u) || is_some (u_claim u)))%bool then None
          else
          let epic_ok :=
            match u_epic u with
            | Some ep =>
                if (String.eqb ep "" || t_is_epic t)%bool then true
                else match g_tasks g !! ep with
                     | Some et => t_is_epic et
                     | None => false
                     end
            | None => true
            end in
          if negb epic_ok then None
          else match build_set_events i t u agent (e_now e) with
               | None => None
               | Some evs => Some (ev_res ++ evs)
               end
      end
    end
  end.

(** * newShortID: first of at most 64 candidates that is neither live nor pruned *)
Fixpoint pick_id_fuel (n : nat) (cands : list string) (taken : string -> bool) : option (string * list string) :=
  match n, cands with
  | S n', c :: rest => if taken c then pick_id_fuel n' rest taken else Some (c, rest)
  | _, _ => None
  end.
Definition pick_id := pick_id_fuel 64.
Definition taken_in (g : graph) (extra : list string) (c : string) : bool :=
  (is_some (g_tasks g !! c) || tombed g c || mem_str c extra)%bool.

Definition final_state_of (u : upd) : string :=
  match u_state u with
  | Some s => s
  | None => match u_claim u with
            | Some c => if String.eqb c "" then "todo" else "doing"
            | None => "todo"
            end
  end.

(** * createTaskWithDir (one section, create + optional updates) *)
Definition new_txn (e : env) (is_epic : bool) (title body epic : string) (u0 : upd) (agent : string)
                   (g : graph) : option (list event * reply) :=
  (* RunNewTask deletes title / body / epic from the updates before the call *)
  let u := Upd None None None (u_state u0) (u_claim u0) (u_rpath u0) (u_rsum u0) in
  let epic_ok :=
    if (negb is_epic && negb (String.eqb epic ""))%bool then
      match g_tasks g !! epic with Some et => t_is_epic et | None => false end
    else true in
  if negb epic_ok then None else
  match pick_id (e_ids e) (taken_in g []) with
  | None => None
  | Some (i, _) =>
      let uuid := opt_default "" (head (e_uuids e)) in
      let ep := if is_epic then "" else epic in
      let create := ENew is_epic i uuid ep "todo" title body (Some (e_now e)) in
      if (is_epic || upd_empty u)%bool then Some ([create], RCreated i "todo") else
      match result_req u with
      | None => None
      | Some rq =>
        let t := new_task false i uuid ep "todo" title body (e_now e) in
        let g' := Graph (<[i := t]> (g_tasks g)) (g_deps g) (g_tombs g) in
        match (match rq with
               | Some (p, s) => match build_result_event e g' i s p with
                                | Some ev => Some [ev] | None => None end
               | None => Some [] end) with
        | None => None
        | Some ev_res =>
            if upd_nonresult_empty u then Some (create :: ev_res, RCreated i "todo") else
            match build_set_events i t u agent (e_now e) with
            | None => None
            | Some evs => Some (create :: ev_res ++ evs, RCreated i (final_state_of u))
            end
        end
      end
  end.

(** * sequence: all edges validated against the graph as it grows, one append *)
Fixpoint seq_edges (ids : list string) : list (string * string) :=
  match ids with
  | a :: ((b :: _) as rest) => (b, a) :: seq_edges rest
  | _ => []
  end.

Definition link_ok (link : bool) (g : graph) (from to : string) : bool :=
  if (tombed g from || tombed g to)%bool then false else
  match g_tasks g !! from, g_tasks g !! to with
  | Some ft, Some tk =>
      if String.eqb from to then false
      else if negb (Bool.eqb (t_is_epic ft) (t_is_epic tk)) then false
      else if link then negb (has_cycle g from to) else true
  | _, _ => false
  end.

Fixpoint seq_txn (link : bool) (g : graph) (edges : list (string * string)) : option (list event) :=
  match edges with
  | [] => Some []
  | (from, to) :: rest =>
      if link_ok link g from to then
        let g' := if link then Graph (g_tasks g) ({[ (from, to) ]} ∪ g_deps g) (g_tombs g)
                  else Graph (g_tasks g) (g_deps g ∖ {[ (from, to) ]}) (g_tombs g) in
        match seq_txn link g' rest with
        | Some evs => Some ((if link then ELink from to depends else EUnlink from to depends) :: evs)
        | None => None
        end
      else None
  end.

(** * prune policy (prune.go:66-113) *)
Definition prune_targets (g : graph) : list string :=
  let ts := all_tasks g in
  let eligible t := (negb (t_is_epic t) && done_or_canceled (t_state t))%bool in
  (* Go counts a remaining child only under a non-empty epic id (prune.go: `task.EpicID != ""`) *)
  let remaining ep := existsb (λ t, (negb (t_is_epic t) && negb (eligible t) && negb (String.eqb (t_epic t) "") && String.eqb (t_epic t) ep)%bool) ts in
  sort_strings (t_id <$> filter (λ t, (if t_is_epic t then negb (remaining (t_id t)) else eligible t) = true) ts).

(** * plan *)
Fixpoint lookup_title (m : list (string * string)) (ti : string) : string :=
  match m with
  | [] => ""
  | (k, v) :: r => if String.eqb k ti then v else lookup_title r ti
  end.
(* later assignment wins in Go's map; titles are unique after validation *)

Fixpoint plan_ids (cands : list string) (g : graph) (taken : list string) (n : nat) : option (list string) :=
  match n with
  | O => Some []
  | S n' => match pick_id cands (taken_in g taken) with
            | None => None
            | Some (i, rest) => match plan_ids rest g (i :: taken) n' with
                                | Some l => Some (i :: l) | None => None end
            end
  end.

Definition plan_valid (p : plan) : bool :=
  let titles := pt_title <$> p_tasks p in
  (negb (is_blank (p_title p))
   && match p_body p with Some b => negb (is_blank b) | None => true end
   && negb (match p_tasks p with [] => true | _ => false end)
   && forallb (λ t, negb (is_blank (pt_title t))
                    && match pt_body t with Some b => negb (is_blank b) | None => true end
                    && forallb (λ a, negb (is_blank a) && negb (String.eqb a (pt_title t)) && mem_str a titles) (pt_after t))%bool
              (p_tasks p)
   && bool_decide (NoDup titles))%bool.

Definition plan_edges (p : plan) (tid : string -> string) : list (string * string) :=
  let raw := concat ((λ t, (λ a, (tid (pt_title t), tid a)) <$> pt_after t) <$> p_tasks p) in
  fold_left (λ acc e, if bool_decide (e ∈ acc) then acc else acc ++ [e]) raw [].

Fixpoint plan_links (g : graph) (edges : list (string * string)) : option (list event) :=
  match edges with
  | [] => Some []
  | (from, to) :: rest =>
      if (String.eqb from to || has_cycle g from to)%bool then None else
      match plan_links (Graph (g_tasks g) ({[ (from, to) ]} ∪ g_deps g) (g_tombs g)) rest with
      | Some evs => Some (ELink from to depends :: evs)
      | None => None
      end
  end.

Definition plan_txn (e : env) (p : plan) (log : list event) (g : graph) : option (list event * reply) :=
  if negb (plan_valid p) then None else
  let n := length (p_tasks p) in
  match plan_ids (e_ids e) g [] (S n) with
  | Some (eid :: tids) =>
      let uu k := opt_default "" (e_uuids e !! k) in
      let epic_ev := ENew true eid (uu 0%nat) "" "todo" (p_title p) (opt_default "" (p_body p)) (Some (e_now e)) in
      let task_evs :=
        imap (λ k '(t, i), ENew false i (uu (S k)) eid "todo" (pt_title t) (opt_default "" (pt_body t))
                                (Some (opt_default (e_now e) (e_nows e !! k))))
             (zip (p_tasks p) tids) in
      let tmap := zip (pt_title <$> p_tasks p) tids in
      let edges := plan_edges p (lookup_title tmap) in
      match plan_links g edges with
      | None => None
      | Some links => Some (log ++ epic_ev :: task_evs ++ links, RPlanned eid tids edges)
      end
  | _ => None
  end.

(** * The transaction of each command *)
Definition run_txn (e : env) (c : cmd) (log : list event) : decision * reply :=
  match c with
  | CCompact =>
      match replay log with
      | Ok g => (Replace (compact_events g), RNone)
      | Err _ => (Abort, RNone)
      end
  | CPlan p =>
      if negb (plan_valid p) then (Abort, RNone) else
      match replay log with
      | Ok g => match plan_txn e p log g with
                | Some (es, r) => (Replace es, r)
                | None => (Abort, RNone)
                end
      | Err _ => (Abort, RNone)
      end
  | _ =>
    match replay log with
    | Err _ => (Abort, RNone)
    | Ok g =>
      match c with
      | CNew is_epic title body epic u agent =>
          match new_txn e is_epic title body epic u agent g with
          | Some (es, r) => (Append es, r)
          | None => (Abort, RNone)
          end
      | CSet i u agent =>
          if upd_empty u then (Abort, RNone) else
          match set_txn e i u agent g with
          | Some es => (Append es, RNone)
          | None => (Abort, RNone)
          end
      | CClaimId i agent =>
          if String.eqb agent "" then (Abort, RNone) else
          match set_txn e i (Upd None None None (Some "doing") (Some agent) None None) agent g with
          | Some es => (Append es, RClaimed i)
          | None => (Abort, RNone)
          end
      | CClaimOldest epic agent =>
          if String.eqb agent "" then (Abort, RNone) else
          match ready_tasks g epic with
          | [] => (Append [], RNoReady)
          | t :: _ => (Append [EClaim (t_id t) agent (Some (e_now e)); EState (t_id t) "doing" (Some (e_now e))],
                       RClaimed (t_id t))
          end
      | CSeq link ids =>
          match seq_edges ids with
          | [] => (Abort, RNone)
          | edges => match seq_txn link g edges with
                     | Some es => (Append es, RNone)
                     | None => (Abort, RNone)
                     end
          end
      | CPrune yes agent =>
          let ids := prune_targets g in
          if yes then (Append ((λ i, ETomb i agent (Some (e_now e))) <$> ids), RPruned ids)
          else (Append [], RPruned ids)
      | CCompact | CPlan _ => (Abort, RNone)
      end
    end
  end.

Definition is_abort (d : decision) : bool := match d with Abort => true | _ => false end.

Definition exec (e : env) (log : list event) (c : cmd) : list event * (bool * reply) :=
  let '(d, r) := run_txn e c log in (apply_decision log d, (negb (is_abort d), r)).
