(** Invariants.v — the store invariants (C06 state/claim, C14 epic references,
    C07 endpoint/kind part, tombstone disjointness) and their preservation by
    every appending transaction of Cmd.v. *)
From Ergo Require Import Base Text Events Replay Ready Compact Path Cmd Input.
Local Open Scope string_scope.
Local Open Scope list_scope.

(** * The invariant *)
Definition claim_inv (st cl : string) : Prop := validate_claim_invariant st cl = true.

Record Inv (g : graph) : Prop := {
  inv_key : forall i t, g_tasks g !! i = Some t -> t_id t = i /\ m_created t = t_created t;
  inv_state : forall i t, g_tasks g !! i = Some t -> t_is_epic t = false ->
              valid_state (t_state t) = true /\ claim_inv (t_state t) (t_claimed t);
  inv_epic : forall i t, g_tasks g !! i = Some t -> t_is_epic t = true ->
              t_state t = "todo" /\ t_claimed t = "" /\ t_epic t = "" /\ m_epic t = "";
  inv_ref : forall i t, g_tasks g !! i = Some t -> t_epic t <> "" ->
              exists e, g_tasks g !! (t_epic t) = Some e /\ t_is_epic e = true;
  inv_deps : forall a b, (a, b) ∈ g_deps g -> a <> b /\
              exists ta tb, g_tasks g !! a = Some ta /\ g_tasks g !! b = Some tb /\ t_is_epic ta = t_is_epic tb;
  inv_tombs : forall i, i ∈ g_tombs g -> g_tasks g !! i = None }.

Lemma inv_empty : Inv empty_graph.
Proof.
  split; cbn; intros; try (rewrite lookup_empty in *; discriminate); try set_solver.
Qed.

(** * Basic facts *)
Lemma tombed_true g i : tombed g i = true <-> i ∈ g_tombs g.
Proof. unfold tombed. rewrite bool_decide_eq_true. reflexivity. Qed.
Lemma tombed_false g i : tombed g i = false <-> i ∉ g_tombs g.
Proof. unfold tombed. rewrite bool_decide_eq_false. reflexivity. Qed.

Lemma live_not_tombed g i t : Inv g -> g_tasks g !! i = Some t -> tombed g i = false.
Proof.
  intros HI Hl. apply tombed_false. intros Hin. apply (inv_tombs g HI) in Hin. congruence.
Qed.

Lemma eqb_true a b : String.eqb a b = true <-> a = b. Proof. apply String.eqb_eq. Qed.
Lemma eqb_false a b : String.eqb a b = false <-> a <> b. Proof. apply String.eqb_neq. Qed.

(** Update events on one item. *)
Definition ev_fun (e : event) : task -> task :=
  match e with
  | EState _ s (Some ts) => set_state s ts
  | EClaim _ a (Some ts) => set_claim a ts
  | EUnclaim _ => set_unclaim
  | ETitle _ ti (Some ts) => set_title ti ts
  | EBody _ b (Some ts) => set_body b ts
  | EEpic _ e (Some ts) => set_epic e ts
  | EResult _ su pa sha mt gi (Some ts) => add_result (Result su pa sha mt gi ts)
  | _ => fun t => t
  end.
Definition is_upd (i : string) (e : event) : Prop :=
  match e with
  | EState j _ (Some _) | EClaim j _ (Some _) | ETitle j _ (Some _) | EBody j _ (Some _)
  | EEpic j _ (Some _) | EResult j _ _ _ _ _ (Some _) | EUnclaim j => j = i
  | _ => False
  end.

Definition put (g : graph) (i : string) (t : task) : graph :=
  Graph (<[i := t]> (g_tasks g)) (g_deps g) (g_tombs g).

Lemma upd_task_put g i t f : g_tasks g !! i = Some t -> upd_task g i f = put g i (f t).
Proof.
  intros Hl. unfold upd_task, put. f_equal.
  apply map_eq. intros j. destruct (decide (i = j)) as [->|Hne].
  - rewrite lookup_alter, lookup_insert, Hl. reflexivity.
  - rewrite lookup_alter_ne, lookup_insert_ne by done. reflexivity.
Qed.

Lemma apply_upd g i t e :
  g_tasks g !! i = Some t -> tombed g i = false -> is_upd i e ->
  apply_event g e = Ok (put g i (ev_fun e t)).
Proof.
  intros Hl Ht Hu.
  destruct e as [| j s [ts|] | j a [ts|] | j | | | j ti [ts|] | j b [ts|] | j ep [ts|] | | j su pa sha mt gi [ts|] | |];
    cbn in Hu; try contradiction; subst; cbn [apply_event ev_fun]; unfold on_item;
    rewrite ?Ht, ?Hl; try (rewrite (upd_task_put _ _ _ _ Hl)); reflexivity.
Qed.

Lemma put_lookup g i t : g_tasks (put g i t) !! i = Some t.
Proof. cbn. apply lookup_insert. Qed.
Lemma put_tombed g i t j : tombed (put g i t) j = tombed g j.
Proof. reflexivity. Qed.
Lemma put_put g i t t' : put (put g i t) i t' = put g i t'.
Proof. unfold put; cbn. f_equal. apply insert_insert. Qed.

Lemma replay_upds g i t evs :
  g_tasks g !! i = Some t -> tombed g i = false -> Forall (is_upd i) evs ->
  replay_from g evs = Ok (put g i (fold_left (fun t e => ev_fun e t) evs t)).
Proof.
  intros Hl Ht Hall. revert g t Hl Ht.
  induction Hall as [|e evs He Hall IH]; intros g t Hl Ht.
  - cbn. f_equal. unfold put. destruct g as [ts ds tb]; cbn in *. f_equal.
    symmetry. apply insert_id. exact Hl.
  - unfold replay_from in *. cbn [foldM fold_left].
    rewrite (apply_upd g i t e Hl Ht He).
    rewrite (IH (put g i (ev_fun e t)) (ev_fun e t) (put_lookup _ _ _) Ht).
    rewrite put_put. reflexivity.
Qed.

(** The (state, claimant) projection of update events. *)
Definition sc_step (e : event) (sc : string * string) : string * string :=
  match e with
  | EState _ s (Some _) => (s, if clears_claim s then "" else sc.2)
  | EClaim _ a (Some _) => (sc.1, a)
  | EUnclaim _ => (sc.1, "")
  | _ => sc
  end.
Lemma ev_fun_sc e t : (t_state (ev_fun e t), t_claimed (ev_fun e t)) = sc_step e (t_state t, t_claimed t).
Proof.
  destruct e as [| j s [ts|] | j a [ts|] | j | | | j ti [ts|] | j b [ts|] | j ep [ts|] | | j su pa sha mt gi [ts|] | |];
    reflexivity.
Qed.
Lemma ev_fun_fixed e t :
  t_id (ev_fun e t) = t_id t /\ t_is_epic (ev_fun e t) = t_is_epic t /\ m_epic (ev_fun e t) = m_epic t
  /\ m_created (ev_fun e t) = m_created t /\ t_created (ev_fun e t) = t_created t.
Proof.
  destruct e as [| j s [ts|] | j a [ts|] | j | | | j ti [ts|] | j b [ts|] | j ep [ts|] | | j su pa sha mt gi [ts|] | |];
    repeat split; reflexivity.
Qed.
Definition epic_step (e : event) (ep : string) : string :=
  match e with EEpic _ x (Some _) => x | _ => ep end.
Lemma ev_fun_epic e t : t_epic (ev_fun e t) = epic_step e (t_epic t).
Proof.
  destruct e as [| j s [ts|] | j a [ts|] | j | | | j ti [ts|] | j b [ts|] | j ep [ts|] | | j su pa sha mt gi [ts|] | |];
    reflexivity.
Qed.

Lemma fold_sc evs t :
  let t' := fold_left (fun t e => ev_fun e t) evs t in
  (t_state t', t_claimed t') = fold_left (fun sc e => sc_step e sc) evs (t_state t, t_claimed t)
  /\ t_id t' = t_id t /\ t_is_epic t' = t_is_epic t
  /\ t_epic t' = fold_left (fun ep e => epic_step e ep) evs (t_epic t)
  /\ m_epic t' = m_epic t /\ m_created t' = m_created t /\ t_created t' = t_created t.
Proof.
  revert t; induction evs as [|e evs IH]; intros t; cbn [fold_left]; [repeat split; reflexivity|].
  specialize (IH (ev_fun e t)). cbn zeta in IH. destruct IH as (H1 & H2 & H3 & H4 & H5 & H6 & H7).
  cbn zeta. rewrite H1, H2, H3, H4, H5, H6, H7, ev_fun_sc, ev_fun_epic.
  destruct (ev_fun_fixed e t) as (-> & -> & -> & -> & ->). repeat split; reflexivity.
Qed.

(** Replacing a live task by one with the same id / kind and an admissible
    (state, claimant, epic) keeps the invariant. *)
Lemma inv_put g i t t' :
  Inv g -> g_tasks g !! i = Some t ->
  (t_id t' = i /\ m_created t' = t_created t') -> t_is_epic t' = t_is_epic t ->
  (t_is_epic t' = false -> valid_state (t_state t') = true /\ claim_inv (t_state t') (t_claimed t')) ->
  (t_is_epic t' = true -> t_state t' = "todo" /\ t_claimed t' = "" /\ t_epic t' = "" /\ m_epic t' = "") ->
  (t_epic t' <> "" -> exists e, g_tasks g !! (t_epic t') = Some e /\ t_is_epic e = true) ->
  Inv (put g i t').
Proof.
  intros HI Hl Hid Hk Hs He Hr.
  assert (Hlook : forall j x, g_tasks (put g i t') !! j = Some x ->
            (j = i /\ x = t') \/ (j <> i /\ g_tasks g !! j = Some x)).
  { intros j x. cbn. destruct (decide (i = j)) as [->|Hne].
    - rewrite lookup_insert. intros [= <-]. left; done.
    - rewrite lookup_insert_ne by done. intros H. right. split; [congruence|done]. }
  assert (Hlive : forall j x, g_tasks g !! j = Some x ->
            exists x', g_tasks (put g i t') !! j = Some x' /\ t_is_epic x' = t_is_epic x).
  { intros j x Hj. cbn. destruct (decide (i = j)) as [->|Hne].
    - rewrite lookup_insert. exists t'. split; [done|]. rewrite Hk. congruence.
    - rewrite lookup_insert_ne by done. eauto. }
  split.
  - intros j x Hj. destruct (Hlook _ _ Hj) as [[-> ->]|[_ Hj']]; [done|]. eapply inv_key; eauto.
  - intros j x Hj Hx. destruct (Hlook _ _ Hj) as [[-> ->]|[_ Hj']]; [auto|]. eapply inv_state; eauto.
  - intros j x Hj Hx. destruct (Hlook _ _ Hj) as [[-> ->]|[_ Hj']]; [auto|]. eapply inv_epic; eauto.
  - intros j x Hj Hx.
    assert (exists e, g_tasks g !! t_epic x = Some e /\ t_is_epic e = true) as (e & He1 & He2).
    { destruct (Hlook _ _ Hj) as [[-> ->]|[_ Hj']]; [auto|]. eapply inv_ref; eauto. }
    destruct (Hlive _ _ He1) as (e' & He1' & He2'). exists e'. split; [done|congruence].
  - intros a b Hab. cbn in Hab. destruct (inv_deps g HI a b Hab) as (Hne & ta & tb & Ha & Hb & Hkab).
    split; [done|].
    destruct (Hlive _ _ Ha) as (ta' & Ha' & Hka). destruct (Hlive _ _ Hb) as (tb' & Hb' & Hkb).
    exists ta', tb'. repeat split; try done. congruence.
  - intros j Hj. cbn in Hj. cbn. destruct (decide (i = j)) as [->|Hne].
    + apply (inv_tombs g HI) in Hj. congruence.
    + rewrite lookup_insert_ne by done. apply (inv_tombs g HI). done.
Qed.

(** * buildSetEvents: shape and effect of its events *)
Definition sc_neutral (e : event) : Prop := forall sc, sc_step e sc = sc.
Lemma fold_sc_neutral l sc : Forall sc_neutral l -> fold_left (fun sc e => sc_step e sc) l sc = sc.
Proof. intros H; revert sc; induction H as [|e l He _ IH]; intros sc; cbn; [done|]. rewrite He. apply IH. Qed.
Definition epic_neutral (e : event) : Prop := forall ep, epic_step e ep = ep.
Lemma fold_epic_neutral l ep : Forall epic_neutral l -> fold_left (fun ep e => epic_step e ep) l ep = ep.
Proof. intros H; revert ep; induction H as [|e l He _ IH]; intros ep; cbn; [done|]. rewrite He. apply IH. Qed.

Lemma valid_state_cases s : valid_state s = true ->
  s = "todo" \/ s = "doing" \/ s = "done" \/ s = "blocked" \/ s = "canceled" \/ s = "error".
Proof.
  unfold valid_state. rewrite mem_str_In. cbn. intuition.
Qed.

Lemma claim_inv_doing c : c <> "" -> claim_inv "doing" c.
Proof. intros H. unfold claim_inv, validate_claim_invariant. cbn. apply eqb_false in H. rewrite H. reflexivity. Qed.

Record set_spec (i : string) (t : task) (u : upd) (evs : list event) : Prop := {
  ss_upd : Forall (is_upd i) evs;
  ss_sc : t_is_epic t = false -> valid_state (t_state t) = true -> claim_inv (t_state t) (t_claimed t) ->
          let sc := fold_left (fun sc e => sc_step e sc) evs (t_state t, t_claimed t) in
          valid_state sc.1 = true /\ claim_inv sc.1 sc.2;
  ss_epic_item : t_is_epic t = true -> u_state u = None ->
          fold_left (fun sc e => sc_step e sc) evs (t_state t, t_claimed t) = (t_state t, t_claimed t)
          /\ u_epic u = None;
  ss_epic : fold_left (fun ep e => epic_step e ep) evs (t_epic t) = opt_default (t_epic t) (u_epic u);
  ss_trans : validate_transition (t_state t)
               (fold_left (fun sc e => sc_step e sc) evs (t_state t, t_claimed t)).1 = true }.

Lemma validate_transition_refl s : validate_transition s s = true.
Proof. unfold validate_transition. rewrite String.eqb_refl. reflexivity. Qed.

Local Ltac inv_some H := injection H as <-.

Lemma build_set_events_spec i t u agent now evs :
  build_set_events i t u agent now = Some evs -> set_spec i t u evs.
Proof.
  unfold build_set_events. intros H.
  (* implicit claim *)
  set (claim0 := match u_claim u with Some c => Some (Some c) | None => _ end) in H.
  destruct claim0 as [claim|] eqn:Hclaim0; [|discriminate].
  destruct (match u_title u with Some ti => _ | None => Some [] end) as [ev_title|] eqn:Htitle; [|discriminate].
  destruct (match u_epic u with Some e => _ | None => Some [] end) as [ev_epic|] eqn:Hepic; [|discriminate].
  set (ev_body := match u_body u with Some b => [EBody i b (Some now)] | None => [] end) in H.
  set (claim_set := (is_some claim && negb (t_is_epic t))%bool) in H.
  set (claim_val := opt_default "" claim) in H.
  set (ev_claim := if claim_set then _ else []) in H.
  (* facts about the prefix events *)
  assert (Ht_upd : Forall (is_upd i) ev_title /\ Forall sc_neutral ev_title /\ Forall epic_neutral ev_title).
  { destruct (u_title u) as [ti|]; [|inv_some Htitle; repeat split; constructor].
    destruct (String.eqb (trim_space ti) ""); [discriminate|]. inv_some Htitle.
    repeat split; repeat constructor. }
  assert (Hb_upd : Forall (is_upd i) ev_body /\ Forall sc_neutral ev_body /\ Forall epic_neutral ev_body).
  { subst ev_body. destruct (u_body u); repeat split; repeat constructor. }
  assert (He_upd : Forall (is_upd i) ev_epic /\ Forall sc_neutral ev_epic
                   /\ fold_left (fun ep e => epic_step e ep) ev_epic (t_epic t) = opt_default (t_epic t) (u_epic u)
                   /\ (t_is_epic t = true -> u_epic u = None)).
  { destruct (u_epic u) as [e|]; [|inv_some Hepic; repeat split; try constructor; done].
    destruct (t_is_epic t); [discriminate|]. inv_some Hepic. repeat split; repeat constructor. discriminate. }
  assert (Hc_upd : Forall (is_upd i) ev_claim /\ Forall epic_neutral ev_claim).
  { subst ev_claim. destruct claim_set; [|split; constructor].
    destruct (String.eqb claim_val ""); split; repeat constructor. }
  destruct Ht_upd as (Ht1 & Ht2 & Ht3). destruct Hb_upd as (Hb1 & Hb2 & Hb3).
  destruct He_upd as (He1 & He2 & He3 & He4). destruct Hc_upd as (Hc1 & Hc3).
  (* effect of the claim events on (state, claimant) *)
  assert (Hclaim_sc : forall sc, fold_left (fun sc e => sc_step e sc) ev_claim sc
                                 = if claim_set then (sc.1, claim_val) else sc).
  { intros sc. subst ev_claim. destruct claim_set; [|done].
    destruct (String.eqb claim_val "") eqn:E; cbn; [apply eqb_true in E; rewrite E|]; done. }
  assert (Hpre_sc : forall tail sc, fold_left (fun sc e => sc_step e sc) (ev_title ++ ev_body ++ ev_epic ++ ev_claim ++ tail) sc
                    = fold_left (fun sc e => sc_step e sc) tail (if claim_set then (sc.1, claim_val) else sc)).
  { intros tail sc. rewrite !fold_left_app, (fold_sc_neutral _ _ Ht2), (fold_sc_neutral _ _ Hb2),
      (fold_sc_neutral _ _ He2), Hclaim_sc. done. }
  assert (Hpre_ep : forall tail, Forall epic_neutral tail ->
            fold_left (fun ep e => epic_step e ep) (ev_title ++ ev_body ++ ev_epic ++ ev_claim ++ tail) (t_epic t)
            = opt_default (t_epic t) (u_epic u)).
  { intros tail Htl. rewrite !fold_left_app, (fold_epic_neutral _ _ Ht3), (fold_epic_neutral _ _ Hb3), He3,
      (fold_epic_neutral _ _ Hc3), (fold_epic_neutral _ _ Htl). done. }
  assert (Hpre_upd : forall tail, Forall (is_upd i) tail ->
            Forall (is_upd i) (ev_title ++ ev_body ++ ev_epic ++ ev_claim ++ tail)).
  { intros tail Htl. repeat (apply Forall_app; split); assumption. }
  (* epics never get claim events, and the implicit claim does not fire *)
  assert (Hepic_claim : t_is_epic t = true -> claim_set = false).
  { intros Hk. subst claim_set. rewrite Hk. apply andb_false_r. }
  destruct (u_state u) as [s|] eqn:Hstate.
  - (* explicit state *)
    destruct (valid_state s) eqn:Hvs; [|discriminate]. cbn [negb] in H.
    destruct (validate_transition (t_state t) s) eqn:Hvt; [|discriminate]. cbn [negb] in H.
    set (nc := if clears_claim s then "" else if claim_set then claim_val else t_claimed t) in H.
    destruct (validate_claim_invariant s nc) eqn:Hci; [|discriminate]. cbn [negb] in H. inv_some H.
    split.
    + apply Hpre_upd. repeat constructor.
    + intros _ _ _. cbn zeta. rewrite Hpre_sc. cbn [fold_left sc_step fst snd].
      split; [destruct claim_set; exact Hvs|].
      subst nc. unfold claim_inv. destruct claim_set; cbn [fst snd]; exact Hci.
    + intros Hk Hn. rewrite Hstate in Hn. discriminate.
    + apply Hpre_ep. repeat constructor.
    + rewrite Hpre_sc. cbn [fold_left sc_step fst snd]. destruct claim_set; exact Hvt.
  - (* no state key *)
    destruct (claim_set && negb (String.eqb claim_val ""))%bool eqn:Hc1'.
    + destruct (validate_transition (t_state t) "doing") eqn:Hvt; [|discriminate]. inv_some H.
      apply andb_prop in Hc1' as [Hcs Hne]. apply negb_true_iff, eqb_false in Hne.
      split.
      * apply Hpre_upd. repeat constructor.
      * intros _ _ _. cbn zeta. rewrite Hpre_sc, Hcs. cbn. split; [reflexivity|]. apply claim_inv_doing. exact Hne.
      * intros Hk _. rewrite (Hepic_claim Hk) in Hcs. discriminate.
      * apply Hpre_ep. repeat constructor.
      * rewrite Hpre_sc, Hcs. cbn. exact Hvt.
    + destruct (claim_set && String.eqb claim_val "")%bool eqn:Hc2'.
      * destruct (validate_claim_invariant (t_state t) "") eqn:Hci; [|discriminate]. inv_some H.
        apply andb_prop in Hc2' as [Hcs He]. apply eqb_true in He.
        split.
        -- rewrite <- (app_nil_r ev_claim). apply Hpre_upd. constructor.
        -- intros _ Hvs _. cbn zeta. rewrite <- (app_nil_r ev_claim), Hpre_sc, Hcs, He. cbn. split; [exact Hvs|exact Hci].
        -- intros Hk _. rewrite (Hepic_claim Hk) in Hcs. discriminate.
        -- rewrite <- (app_nil_r ev_claim). apply Hpre_ep. constructor.
        -- rewrite <- (app_nil_r ev_claim), Hpre_sc, Hcs. cbn. apply validate_transition_refl.
      * inv_some H.
        assert (Hcs : claim_set = false).
        { destruct claim_set; [|done]. cbn in Hc1', Hc2'. destruct (String.eqb claim_val ""); discriminate. }
        split.
        -- rewrite <- (app_nil_r ev_claim). apply Hpre_upd. constructor.
        -- intros _ Hvs Hci. cbn zeta. rewrite <- (app_nil_r ev_claim), Hpre_sc, Hcs. cbn. split; assumption.
        -- intros Hk _. split; [|auto]. rewrite <- (app_nil_r ev_claim), Hpre_sc, Hcs. reflexivity.
        -- rewrite <- (app_nil_r ev_claim). apply Hpre_ep. constructor.
        -- rewrite <- (app_nil_r ev_claim), Hpre_sc, Hcs. cbn. apply validate_transition_refl.
Qed.

(** * Finalisation does not touch what the invariant talks about *)
Lemma migrate_fields t :
  t_id (migrate t) = t_id t /\ t_is_epic (migrate t) = t_is_epic t /\ t_state (migrate t) = t_state t
  /\ t_claimed (migrate t) = t_claimed t /\ t_epic (migrate t) = t_epic t /\ m_epic (migrate t) = m_epic t
  /\ t_created (migrate t) = t_created t.
Proof.
  unfold migrate. destruct (is_blank (t_title t)); [|repeat split; reflexivity].
  destruct (derive_title_body (t_body t)). repeat split; reflexivity.
Qed.
Lemma finalize_lookup g i : g_tasks (finalize g) !! i = migrate <$> (g_tasks g !! i).
Proof. cbn. apply lookup_fmap. Qed.
Lemma finalize_lookup_Some g i t :
  g_tasks (finalize g) !! i = Some t -> exists t0, g_tasks g !! i = Some t0 /\ t = migrate t0.
Proof. rewrite finalize_lookup. destruct (g_tasks g !! i) as [t0|]; [|discriminate]. intros [= <-]. eauto. Qed.
Lemma finalize_tombed g i : tombed (finalize g) i = tombed g i.
Proof. reflexivity. Qed.

Ltac mig t := destruct (migrate_fields t) as (?Hmid & ?Hmk & ?Hmst & ?Hmcl & ?Hmep & ?Hmme & ?Hmcr).

Lemma result_event_upd e g i s p ev :
  build_result_event e g i s p = Some ev ->
  is_upd i ev /\ sc_neutral ev /\ epic_neutral ev /\ tombed g i = false
  /\ exists t, g_tasks g !! i = Some t /\ t_is_epic t = false.
Proof.
  unfold build_result_event. destruct (tombed g i) eqn:Ht; [discriminate|].
  destruct (g_tasks g !! i) as [t|] eqn:Hl; [|discriminate].
  destruct (t_is_epic t) eqn:Hk; [discriminate|].
  destruct (valid_summary s); [|discriminate]. destruct (lexical_result_path p); [|discriminate].
  destruct (e_fkind e); try discriminate. intros [= <-].
  repeat split; try done. eauto.
Qed.

(** * set / claim <id> *)
Lemma set_txn_inv e i u agent graw evs :
  Inv graw -> set_txn e i u agent (finalize graw) = Some evs ->
  exists g', replay_from graw evs = Ok g' /\ Inv g' /\ g_deps g' = g_deps graw.
Proof.
  intros HI. unfold set_txn.
  destruct (result_req u) as [rq|]; [|discriminate].
  set (R := match rq with Some (p, s) => _ | None => Some [] end).
  destruct R as [ev_res|] eqn:HR; [|discriminate].
  (* facts about the optional result event *)
  assert (Hres : ev_res = [] \/ exists ev t0, ev_res = [ev] /\ is_upd i ev /\ sc_neutral ev /\ epic_neutral ev
                   /\ g_tasks graw !! i = Some t0 /\ t_is_epic t0 = false).
  { subst R. destruct rq as [[p s]|]; [|left; congruence].
    destruct (build_result_event e (finalize graw) i s p) as [ev|] eqn:Hb; [|discriminate].
    injection HR as <-. right. apply result_event_upd in Hb as (H1 & H2 & H3 & H4 & t & Hl & Hk).
    apply finalize_lookup_Some in Hl as (t0 & Hl0 & ->). mig t0. exists ev, t0. repeat split; try done. congruence. }
  destruct (is_some rq && upd_nonresult_empty u)%bool eqn:Honly.
  - (* result only *)
    intros [= <-]. destruct Hres as [->|(ev & t0 & -> & Hu & Hn & Hen & Hl & Hk)].
    + exists graw. split; [reflexivity|split; [assumption|reflexivity]].
    + rewrite (replay_upds graw i t0 [ev] Hl (live_not_tombed _ _ _ HI Hl)) by (constructor; [done|constructor]).
      eexists; split; [reflexivity|]. split; [|reflexivity].
      cbn [fold_left]. destruct (ev_fun_fixed ev t0) as (Hid & Hkk & Hme & Hmc & Htc).
      pose proof (ev_fun_sc ev t0) as Hsc. rewrite Hn in Hsc. injection Hsc as Hst Hcl.
      pose proof (ev_fun_epic ev t0) as Hep. rewrite Hen in Hep.
      apply (inv_put graw i t0); try done.
      * rewrite Hid, Hmc, Htc. eapply inv_key; eauto.
      * intros _. rewrite Hst, Hcl. eapply inv_state; eauto.
      * rewrite Hkk, Hk. discriminate.
      * rewrite Hep. eapply inv_ref; eauto.
  - rewrite finalize_tombed. destruct (tombed graw i) eqn:Htomb; [discriminate|].
    rewrite finalize_lookup. destruct (g_tasks graw !! i) as [t0|] eqn:Hl; [|discriminate]. cbn [fmap option_fmap option_map].
    mig t0. rewrite Hmk.
    destruct (t_is_epic t0 && (is_some (u_state u) || is_some (u_claim u)))%bool eqn:Hepst; [discriminate|].
    set (epic_ok := match u_epic u with Some ep => _ | None => true end).
    destruct epic_ok eqn:Hepok; [|discriminate]. cbn [negb].
    destruct (build_set_events i (migrate t0) u agent (e_now e)) as [sevs|] eqn:Hb; [|discriminate].
    intros [= <-].
    apply build_set_events_spec in Hb as [Hupd Hsc Hepi Hepc].
    rewrite Hmk, Hmst, Hmcl, Hmep in *.
    assert (Hall : Forall (is_upd i) (ev_res ++ sevs)).
    { apply Forall_app. split; [|done]. destruct Hres as [->|(ev & ? & -> & Hu & _)]; repeat constructor; done. }
    assert (Hres_sc : Forall sc_neutral ev_res /\ Forall epic_neutral ev_res).
    { destruct Hres as [->|(ev & ? & -> & _ & Hn & Hen & _)]; split; repeat constructor; done. }
    destruct Hres_sc as [Hrs Hre].
    rewrite (replay_upds graw i t0 _ Hl Htomb Hall). eexists; split; [reflexivity|]. split; [|reflexivity].
    set (t' := fold_left _ _ t0).
    destruct (fold_sc (ev_res ++ sevs) t0) as (Hfsc & Hfid & Hfk & Hfep & Hfme & Hfmc & Hftc). fold t' in Hfsc, Hfid, Hfk, Hfep, Hfme, Hfmc, Hftc.
    rewrite fold_left_app, (fold_sc_neutral _ _ Hrs) in Hfsc.
    rewrite fold_left_app, (fold_epic_neutral _ _ Hre), Hepc in Hfep.
    apply (inv_put graw i t0); try done.
    + rewrite Hfid, Hfmc, Hftc. eapply inv_key; eauto.
    + rewrite Hfk. intros Hk. destruct (inv_state graw HI i t0 Hl Hk) as [Hv Hc].
      specialize (Hsc Hk Hv Hc). cbn zeta in Hsc. rewrite <- Hfsc in Hsc. exact Hsc.
    + rewrite Hfk. intros Hk. rewrite Hk in Hepst. cbn in Hepst.
      destruct (u_state u) eqn:Hus; [discriminate|].
      destruct (Hepi Hk eq_refl) as [Hsame Hnoep].
      rewrite Hsame in Hfsc. injection Hfsc as Hst Hcl.
      rewrite Hfep, Hnoep, Hst, Hcl, Hfme. cbn. eapply inv_epic; eauto.
    + rewrite Hfep. subst epic_ok. destruct (u_epic u) as [ep|] eqn:Hue; cbn [opt_default].
      * intros Hne. destruct (String.eqb ep "") eqn:E; [apply eqb_true in E; contradiction|]. cbn in Hepok.
        destruct (t_is_epic t0) eqn:Hk.
        -- destruct (u_state u) eqn:Hus; [cbn in Hepst; discriminate|].
           destruct (Hepi eq_refl eq_refl) as [_ Hno]. discriminate.
        -- rewrite lookup_fmap in Hepok. destruct (g_tasks graw !! ep) as [et|] eqn:Het; [|discriminate].
           cbn in Hepok. mig et. exists et. split; [done|congruence].
      * eapply inv_ref; eauto.
Qed.

(** * claim (oldest ready) *)
Lemma all_tasks_lookup g t : t ∈ all_tasks g <-> exists k, g_tasks g !! k = Some t.
Proof.
  unfold all_tasks. rewrite elem_of_list_fmap. split.
  - intros ([k t'] & -> & Hin). apply elem_of_map_to_list in Hin. eauto.
  - intros (k & Hk). exists (k, t). split; [done|]. apply elem_of_map_to_list. done.
Qed.

Lemma ready_tasks_elem g epic t :
  t ∈ ready_tasks g epic ->
  t ∈ all_tasks g /\ (epic = "" \/ t_epic t = epic) /\ t_is_epic t = false /\ is_ready g t = true.
Proof.
  unfold ready_tasks. rewrite merge_sort_Permutation. rewrite elem_of_list_filter. tauto.
Qed.

Lemma is_ready_todo g t : is_ready g t = true -> t_state t = "todo" /\ t_claimed t = "".
Proof.
  unfold is_ready. intros H. repeat (apply andb_prop in H as [H ?]).
  split; apply eqb_true; assumption.
Qed.

Lemma claim_oldest_inv e epic agent graw t rest :
  Inv graw -> agent <> "" -> ready_tasks (finalize graw) epic = t :: rest ->
  exists g', replay_from graw [EClaim (t_id t) agent (Some (e_now e)); EState (t_id t) "doing" (Some (e_now e))] = Ok g'
             /\ Inv g' /\ g_deps g' = g_deps graw.
Proof.
  intros HI Hag Hrt.
  assert (Hin : t ∈ ready_tasks (finalize graw) epic) by (rewrite Hrt; left).
  apply ready_tasks_elem in Hin as (Hall & _ & Hk & Hr).
  apply all_tasks_lookup in Hall as (k & Hl). apply finalize_lookup_Some in Hl as (t0 & Hl0 & ->).
  mig t0. apply is_ready_todo in Hr as [Hst Hcl]. rewrite Hmst in Hst. rewrite Hmcl in Hcl. rewrite Hmk in Hk.
  destruct (inv_key graw HI k t0 Hl0) as [Hkey Hcr]. rewrite Hmid, Hkey.
  rewrite (replay_upds graw k t0 _ Hl0 (live_not_tombed _ _ _ HI Hl0)) by (repeat constructor).
  eexists; split; [reflexivity|]. split; [|reflexivity]. cbn [fold_left ev_fun].
  apply (inv_put graw k t0); try done; cbn.
  - intros _. split; [reflexivity|]. apply claim_inv_doing. exact Hag.
  - rewrite Hk. discriminate.
  - eapply inv_ref; eauto.
Qed.

(** * create (with optional updates) *)
Lemma inv_insert_fresh g i t :
  Inv g -> g_tasks g !! i = None -> i ∉ g_tombs g ->
  (t_id t = i /\ m_created t = t_created t) ->
  (t_is_epic t = false -> valid_state (t_state t) = true /\ claim_inv (t_state t) (t_claimed t)) ->
  (t_is_epic t = true -> t_state t = "todo" /\ t_claimed t = "" /\ t_epic t = "" /\ m_epic t = "") ->
  (t_epic t <> "" -> exists e, g_tasks g !! (t_epic t) = Some e /\ t_is_epic e = true) ->
  Inv (put g i t).
Proof.
  intros HI Hfresh Hnt Hid Hs He Hr.
  assert (Hlook : forall j x, g_tasks (put g i t) !! j = Some x ->
            (j = i /\ x = t) \/ (j <> i /\ g_tasks g !! j = Some x)).
  { intros j x. cbn. destruct (decide (i = j)) as [->|Hne].
    - rewrite lookup_insert. intros [= <-]. left; done.
    - rewrite lookup_insert_ne by done. intros H. right. split; [congruence|done]. }
  assert (Hlive : forall j x, g_tasks g !! j = Some x -> g_tasks (put g i t) !! j = Some x).
  { intros j x Hj. cbn. rewrite lookup_insert_ne; [done|]. intros ->. congruence. }
  split.
  - intros j x Hj. destruct (Hlook _ _ Hj) as [[-> ->]|[_ Hj']]; [done|]. eapply inv_key; eauto.
  - intros j x Hj Hx. destruct (Hlook _ _ Hj) as [[-> ->]|[_ Hj']]; [auto|]. eapply inv_state; eauto.
  - intros j x Hj Hx. destruct (Hlook _ _ Hj) as [[-> ->]|[_ Hj']]; [auto|]. eapply inv_epic; eauto.
  - intros j x Hj Hx.
    assert (exists e, g_tasks g !! t_epic x = Some e /\ t_is_epic e = true) as (e & He1 & He2).
    { destruct (Hlook _ _ Hj) as [[-> ->]|[_ Hj']]; [auto|]. eapply inv_ref; eauto. }
    exists e. split; [apply Hlive; done|done].
  - intros a b Hab. cbn in Hab. destruct (inv_deps g HI a b Hab) as (Hne & ta & tb & Ha & Hb & Hkab).
    split; [done|]. exists ta, tb. repeat split; try done; apply Hlive; done.
  - intros j Hj. cbn in Hj. cbn. destruct (decide (i = j)) as [->|Hne]; [contradiction|].
    rewrite lookup_insert_ne by done. apply (inv_tombs g HI). done.
Qed.

Lemma pick_id_fresh n cands taken i rest :
  pick_id_fuel n cands taken = Some (i, rest) -> taken i = false.
Proof.
  revert cands; induction n as [|n IH]; intros cands; cbn; [discriminate|].
  destruct cands as [|c cs]; [discriminate|]. destruct (taken c) eqn:E; [apply IH|]. intros [= <- _]. exact E.
Qed.

Lemma taken_in_false g extra c :
  taken_in g extra c = false -> g_tasks g !! c = None /\ tombed g c = false /\ mem_str c extra = false.
Proof.
  unfold taken_in. intros H. apply orb_false_elim in H as [H H3]. apply orb_false_elim in H as [H1 H2].
  repeat split; try done. destruct (g_tasks g !! c); [discriminate|done].
Qed.

Lemma new_task_fields k i uuid ep st ti b ts :
  let t := new_task k i uuid ep st ti b ts in
  t_id t = i /\ t_is_epic t = k /\ t_state t = st /\ t_claimed t = "" /\ t_epic t = ep /\ m_epic t = ep.
Proof. repeat split. Qed.

Lemma new_txn_inv e is_epic title body epic u agent graw evs r :
  Inv graw -> new_txn e is_epic title body epic u agent (finalize graw) = Some (evs, r) ->
  exists g', replay_from graw evs = Ok g' /\ Inv g' /\ g_deps g' = g_deps graw.
Proof.
  intros HI. unfold new_txn.
  set (u' := Upd None None None (u_state u) (u_claim u) (u_rpath u) (u_rsum u)).
  set (epic_ok := if (negb is_epic && negb (String.eqb epic ""))%bool then _ else true).
  destruct epic_ok eqn:Hepok; [|discriminate]. cbn [negb].
  destruct (pick_id (e_ids e) (taken_in (finalize graw) [])) as [[i rest]|] eqn:Hpick; [|discriminate].
  apply pick_id_fresh, taken_in_false in Hpick as (Hfresh & Hnt & _).
  rewrite finalize_lookup in Hfresh. destruct (g_tasks graw !! i) eqn:Hfresh0; [discriminate|]. clear Hfresh.
  rewrite finalize_tombed in Hnt.
  set (uuid := opt_default "" (head (e_uuids e))).
  set (ep := if is_epic then "" else epic).
  set (t := new_task is_epic i uuid ep "todo" title body (e_now e)).
  assert (Hcreate : apply_event graw (ENew is_epic i uuid ep "todo" title body (Some (e_now e))) = Ok (put graw i t)).
  { cbn. rewrite Hnt, Hfresh0. reflexivity. }
  assert (HI1 : Inv (put graw i t)).
  { apply inv_insert_fresh; try done.
    - apply tombed_false. done.
    - cbn. intros ->. subst ep. done.
    - cbn. subst ep. destruct is_epic; [done|]. intros Hne. subst epic_ok. cbn in Hepok.
      apply eqb_false in Hne. rewrite Hne in Hepok. cbn in Hepok.
      rewrite lookup_fmap in Hepok. destruct (g_tasks graw !! epic) as [et|]; [|discriminate].
      cbn in Hepok. mig et. exists et. split; [done|congruence]. }
  destruct (is_epic || upd_empty u')%bool eqn:Hplain.
  { intros [= <- _]. exists (put graw i t). split; [|split; [done|reflexivity]]. unfold replay_from. cbn [foldM]. rewrite Hcreate. done. }
  apply orb_false_elim in Hplain as [Hisep _]. subst is_epic. cbn in ep.
  destruct (result_req u') as [rq|]; [|discriminate].
  set (g' := Graph _ _ _).
  set (R := match rq with Some (p, s) => _ | None => Some [] end).
  destruct R as [ev_res|] eqn:HR; [|discriminate].
  assert (Hres : ev_res = [] \/ exists ev, ev_res = [ev] /\ is_upd i ev /\ sc_neutral ev /\ epic_neutral ev).
  { subst R. destruct rq as [[p s]|]; [|left; congruence].
    destruct (build_result_event e g' i s p) as [ev|] eqn:Hb; [|discriminate].
    injection HR as <-. right. apply result_event_upd in Hb as (H1 & H2 & H3 & _). eauto. }
  assert (Hrs : Forall (is_upd i) ev_res /\ Forall sc_neutral ev_res /\ Forall epic_neutral ev_res).
  { destruct Hres as [->|(ev & -> & ? & ? & ?)]; repeat split; repeat constructor; done. }
  destruct Hrs as (Hr1 & Hr2 & Hr3).
  assert (Hfin : forall sevs, set_spec i t u' sevs \/ sevs = [] ->
            exists g2, replay_from graw (ENew false i uuid ep "todo" title body (Some (e_now e)) :: ev_res ++ sevs) = Ok g2 /\ Inv g2
                       /\ g_deps g2 = g_deps graw).
  { intros sevs Hspec.
    assert (Hupd : Forall (is_upd i) sevs) by (destruct Hspec as [[]| ->]; [done|constructor]).
    unfold replay_from. cbn [foldM]. rewrite Hcreate.
    change (foldM apply_event (ev_res ++ sevs) (put graw i t)) with (replay_from (put graw i t) (ev_res ++ sevs)).
    assert (Hall : Forall (is_upd i) (ev_res ++ sevs)) by (apply Forall_app; done).
    rewrite (replay_upds (put graw i t) i t _ (put_lookup _ _ _) Hnt Hall). rewrite put_put.
    eexists; split; [reflexivity|]. split; [|reflexivity].
    destruct (fold_sc (ev_res ++ sevs) t) as (Hfsc & Hfid & Hfk & Hfep & Hfme & Hfmc & Hftc).
    set (t' := fold_left (fun t e => ev_fun e t) (ev_res ++ sevs) t) in *.
    rewrite fold_left_app, (fold_sc_neutral _ _ Hr2) in Hfsc.
    rewrite fold_left_app, (fold_epic_neutral _ _ Hr3) in Hfep.
    rewrite <- (put_put graw i t). apply (inv_put (put graw i t) i t); try done; try apply put_lookup.
    - rewrite Hfid, Hfmc, Hftc. done.
    - intros _. destruct Hspec as [[_ Hsc _ Hepc]| ->].
      + specialize (Hsc eq_refl eq_refl eq_refl). cbn zeta in Hsc. rewrite <- Hfsc in Hsc. exact Hsc.
      + cbn in Hfsc. injection Hfsc as -> ->. split; reflexivity.
    - rewrite Hfk. discriminate.
    - rewrite Hfep. destruct Hspec as [[_ _ _ Hepc]| ->].
      + rewrite Hepc. cbn [u' u_epic opt_default]. eapply (inv_ref _ HI1 i t). apply put_lookup.
      + cbn. eapply (inv_ref _ HI1 i t). apply put_lookup. }
  change (new_task false i uuid ep "todo" title body (e_now e)) with t.
  destruct (upd_nonresult_empty u');
    first [ intros [= <- _]; rewrite <- (app_nil_r ev_res); apply Hfin; right; reflexivity
          | destruct (build_set_events i t u' agent (e_now e)) as [sevs|] eqn:Hb; [|discriminate];
            intros [= <- _]; apply Hfin; left; apply build_set_events_spec in Hb; exact Hb ].
Qed.
