(** Sched.v — the lock / write / read protocol of util.go:45-71 (withLock),
    storage.go (readEvents, appendEvents with its repair path,
    replaceEventsAtomically) as a labelled transition system over processes.

    Every mutating command is ONE lock section: try-lock (non-blocking) ->
    load -> decide -> one write(2) or tmp+rename -> unlock.  Readers take no
    lock: open, probe the last byte, scan.  A schedule is a list of
    (process, action); [step_fn] is a deterministic function of it, so the
    same schedule can be fed to the real binary (sync points of the verif
    build) and to [run_schedule]; theorems quantify over all schedules. *)
From stdpp Require Import base list option.
From Coq Require Import Lia.

Section sched.
Context {ev : Type}.

(** * Files: whole event lines plus an optional defective tail *)
Inductive tail :=
| TClean                 (* ends in '\n' (or empty) *)
| TTorn                  (* last line is an unparsable fragment without newline *)
| TValid (e : ev).       (* last line is a complete event lacking only its newline *)
Record file := File { f_evs : list ev; f_tail : tail }.

(** readEvents on a quiescent file: a torn tail is dropped, a valid unterminated line counts. *)
Definition read_events (f : file) : list ev :=
  f_evs f ++ match f_tail f with TValid e => [e] | _ => [] end.
(** The reader's probe "file ends in newline" (size 0 => false). *)
Definition probe (f : file) : bool :=
  match f_tail f, f_evs f with TClean, _ :: _ => true | _, _ => false end.
(** Scan with a probe taken earlier on the same inode: a torn tail is an error iff the probe saw '\n'. *)
Definition read_with_probe (clean : bool) (f : file) : option (list ev) :=
  match f_tail f with
  | TTorn => if clean then None else Some (f_evs f)
  | _ => Some (read_events f)
  end.

Inductive decision := Abort | Append (es : list ev) | Replace (es : list ev).
Definition txn := list ev -> decision.

(** What a completed section does to the log file (appendEvents rewrites through a rename when the
    tail is unterminated, so the result is the same function of [read_events]). *)
Definition commit (d : decision) (f : file) : file :=
  match d with
  | Abort | Append [] => f
  | Append es => File (read_events f ++ es) TClean
  | Replace es => File es TClean
  end.

Inductive outcome := OOk | OFail | OBusy.

Inductive pst :=
| PStart (t : txn)              (* about to attempt the lock *)
| PLocked (t : txn)             (* lock held; about to load and decide *)
| PAppend (es : list ev)        (* about to issue the single write(2) of es (non-empty, clean tail) *)
| PTmp (es : list ev)           (* about to write path.tmp *)
| PRename (es : list ev)        (* tmp written and synced; about to rename *)
| PUnlock (ok : bool)           (* about to release the lock *)
| PDone (o : outcome)
| PDead
| RStart                        (* reader: about to open the log *)
| ROpened (ino : nat)           (* holds inode [ino]; about to probe *)
| RProbed (ino : nat) (clean : bool)   (* about to scan *)
| RDone (r : option (list ev)).

(** Where a write(2) of lines [es] can be cut by a kill. *)
Inductive cut :=
| CutBoundary (n : nat)         (* n whole lines reached the file *)
| CutInside (n : nat)           (* n whole lines + a fragment of the next *)
| CutBeforeNL (n : nat).        (* n whole lines + the next line without its '\n' *)

Inductive action := AStep | AKill | AKillTorn (c : cut).

Definition pid := nat.
Inductive status := SDecided | SCommitted | SCrashed.
Record entry := Entry { en_pid : pid; en_dec : decision; en_status : status }.

Record world := World {
  w_inodes : list file;          (* every inode the log path ever pointed to *)
  w_cur : nat;                   (* index of the current one *)
  w_lock : option pid;
  w_procs : list pst;
  w_hist : list entry }.         (* ghost: sections in lock-acquisition (= load) order *)

Definition cur_file (w : world) : file := default (File [] TClean) (w_inodes w !! w_cur w).
Definition set_cur (w : world) (f : file) : list file := <[w_cur w := f]> (w_inodes w).
Definition setp (w : world) (p : pid) (s : pst) : list pst := <[p := s]> (w_procs w).

Definition torn_file (f : file) (es : list ev) (c : cut) : file :=
  match c with
  | CutBoundary n => File (f_evs f ++ take n es) TClean
  | CutInside n => File (f_evs f ++ take n es) (if decide (n < length es) then TTorn else TClean)
  | CutBeforeNL n => match es !! n with
                     | Some e => File (f_evs f ++ take n es) (TValid e)
                     | None => File (f_evs f ++ es) TClean
                     end
  end.

Definition mark (h : list entry) (p : pid) (st : status) : list entry :=
  match reverse h with
  | Entry q d SDecided :: r => if decide (q = p) then reverse (Entry q d st :: r) else h
  | _ => h
  end.

Definition release (w : world) (p : pid) : option pid :=
  match w_lock w with Some q => if decide (q = p) then None else Some q | None => None end.

Definition in_section (s : pst) : bool :=
  match s with PLocked _ | PAppend _ | PTmp _ | PRename _ | PUnlock _ => true | _ => false end.
Definition terminal (s : pst) : bool :=
  match s with PDone _ | PDead | RDone _ => true | _ => false end.

(** One step of process [p]. [None] = that action is not enabled. *)
Definition step_fn (w : world) (p : pid) (a : action) : option world :=
  match w_procs w !! p with
  | None => None
  | Some s =>
    match a with
    | AKill =>
        if terminal s then None else
        Some (World (w_inodes w) (w_cur w) (release w p) (setp w p PDead)
                    (if in_section s then mark (w_hist w) p SCrashed else w_hist w))
    | AKillTorn c =>
        match s with
        | PAppend es =>
            Some (World (set_cur w (torn_file (cur_file w) es c)) (w_cur w) (release w p) (setp w p PDead)
                        (mark (w_hist w) p SCrashed))
        | _ => None
        end
    | AStep =>
        match s with
        | PStart t =>
            match w_lock w with
            | None => Some (World (w_inodes w) (w_cur w) (Some p) (setp w p (PLocked t)) (w_hist w))
            | Some _ => Some (World (w_inodes w) (w_cur w) (w_lock w) (setp w p (PDone OBusy)) (w_hist w))
            end
        | PLocked t =>
            let f := cur_file w in
            let d := t (read_events f) in
            let next :=
              match d with
              | Abort => PUnlock false
              | Append [] => PUnlock true
              | Append es => match f_tail f with TClean => PAppend es | _ => PTmp (read_events f ++ es) end
              | Replace es => PTmp es
              end in
            Some (World (w_inodes w) (w_cur w) (w_lock w) (setp w p next) (w_hist w ++ [Entry p d SDecided]))
        | PAppend es =>
            Some (World (set_cur w (File (f_evs (cur_file w) ++ es) TClean)) (w_cur w) (w_lock w)
                        (setp w p (PUnlock true)) (mark (w_hist w) p SCommitted))
        | PTmp es => Some (World (w_inodes w) (w_cur w) (w_lock w) (setp w p (PRename es)) (w_hist w))
        | PRename es =>
            Some (World (w_inodes w ++ [File es TClean]) (length (w_inodes w)) (w_lock w)
                        (setp w p (PUnlock true)) (mark (w_hist w) p SCommitted))
        | PUnlock ok =>
            Some (World (w_inodes w) (w_cur w) (release w p) (setp w p (PDone (if ok then OOk else OFail)))
                        (mark (w_hist w) p SCommitted))
        | RStart => Some (World (w_inodes w) (w_cur w) (w_lock w) (setp w p (ROpened (w_cur w))) (w_hist w))
        | ROpened i =>
            Some (World (w_inodes w) (w_cur w) (w_lock w)
                        (setp w p (RProbed i (probe (default (File [] TClean) (w_inodes w !! i))))) (w_hist w))
        | RProbed i c =>
            Some (World (w_inodes w) (w_cur w) (w_lock w)
                        (setp w p (RDone (read_with_probe c (default (File [] TClean) (w_inodes w !! i))))) (w_hist w))
        | PDone _ | PDead | RDone _ => None
        end
    end
  end.

Definition sched := list (pid * action).

(** Disabled actions are skipped (the controller never issues them; skipping keeps the function total). *)
Fixpoint run_schedule (w : world) (s : sched) : world :=
  match s with
  | [] => w
  | (p, a) :: r => run_schedule (default w (step_fn w p a)) r
  end.

Inductive step : world -> world -> Prop :=
| step_intro w p a w' : step_fn w p a = Some w' -> step w w'.

Definition init_world (f0 : file) (ps : list pst) : world := World [f0] 0 None ps [].

Definition is_kill (a : action) : bool := match a with AStep => false | _ => true end.
Definition crash_free (s : sched) : Prop := Forall (fun pa => is_kill pa.2 = false) s.
Definition tear_free (s : sched) : Prop :=
  Forall (fun pa => match pa.2 with AKillTorn _ => False | _ => True end) s.

(** The serial meaning of a history: fold the committed decisions, in order, over the initial events. *)
Definition effect (d : decision) (evs : list ev) : list ev :=
  match d with Abort => evs | Append es => evs ++ es | Replace es => es end.
Definition serial (evs0 : list ev) (h : list entry) : list ev :=
  fold_left (fun evs e => match en_status e with SCommitted => effect (en_dec e) evs | _ => evs end) h evs0.

End sched.
Arguments tail : clear implicits. Arguments file : clear implicits. Arguments decision : clear implicits.
Arguments txn : clear implicits. Arguments pst : clear implicits. Arguments entry : clear implicits.
Arguments world : clear implicits.
