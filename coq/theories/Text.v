(** Text.v — byte-level string helpers mirroring the Go [strings] functions the
    code uses: TrimSpace (Unicode White_Space on UTF-8 bytes), Split/Join on
    "\n", HasPrefix, ContainsAny. *)
From Ergo Require Import Base.
From Coq Require Import Ascii String.
Local Open Scope string_scope.
Local Open Scope char_scope.

Definition byte_of (c : ascii) : N := N_of_ascii c.
Definition is_ascii_ws (c : ascii) : bool :=
  let n := byte_of c in
  (N.eqb n 9 || N.eqb n 10 || N.eqb n 11 || N.eqb n 12 || N.eqb n 13 || N.eqb n 32)%bool.

(** [ws3 a b c]: the three bytes encode one of the 3-byte White_Space runes. *)
Definition ws3 (a b c : ascii) : bool :=
  let x := byte_of a in let y := byte_of b in let z := byte_of c in
  ((N.eqb x 225 && N.eqb y 154 && N.eqb z 128)                       (* U+1680 *)
   || (N.eqb x 226 && N.eqb y 128 &&
        ((N.leb 128 z && N.leb z 138) || N.eqb z 168 || N.eqb z 169 || N.eqb z 175)) (* U+2000-200A, 2028, 2029, 202F *)
   || (N.eqb x 226 && N.eqb y 129 && N.eqb z 159)                    (* U+205F *)
   || (N.eqb x 227 && N.eqb y 128 && N.eqb z 128))%bool.             (* U+3000 *)
Definition ws2 (a b : ascii) : bool :=
  let x := byte_of a in let y := byte_of b in
  (N.eqb x 194 && (N.eqb y 133 || N.eqb y 160))%bool.                (* U+0085, U+00A0 *)

Fixpoint trim_left (s : string) : string :=
  match s with
  | EmptyString => s
  | String a r1 =>
      if is_ascii_ws a then trim_left r1 else
      match r1 with
      | EmptyString => s
      | String b r2 =>
          if ws2 a b then trim_left r2 else
          match r2 with
          | EmptyString => s
          | String c r3 => if ws3 a b c then trim_left r3 else s
          end
      end
  end.

(** Same on the reversed string: patterns appear reversed. *)
Fixpoint trim_left_rev (s : string) : string :=
  match s with
  | EmptyString => s
  | String a r1 =>
      if is_ascii_ws a then trim_left_rev r1 else
      match r1 with
      | EmptyString => s
      | String b r2 =>
          if ws2 b a then trim_left_rev r2 else
          match r2 with
          | EmptyString => s
          | String c r3 => if ws3 c b a then trim_left_rev r3 else s
          end
      end
  end.

Fixpoint rev_app (s acc : string) : string :=
  match s with EmptyString => acc | String a r => rev_app r (String a acc) end.
Definition rev_str (s : string) : string := rev_app s EmptyString.

Definition trim_space (s : string) : string :=
  rev_str (trim_left_rev (rev_str (trim_left s))).
Definition is_blank (s : string) : bool :=
  match trim_space s with EmptyString => true | _ => false end.

Definition nl : ascii := ascii_of_N 10.
Definition cr : ascii := ascii_of_N 13.

(** strings.Split(s, "\n") *)
Fixpoint split_nl_aux (s : string) (cur : string) : list string :=
  match s with
  | EmptyString => [rev_str cur]
  | String a r => if Ascii.eqb a nl then rev_str cur :: split_nl_aux r EmptyString
                  else split_nl_aux r (String a cur)
  end.
Definition split_nl (s : string) : list string := split_nl_aux s EmptyString.

Fixpoint join_nl (l : list string) : string :=
  match l with
  | [] => EmptyString
  | [x] => x
  | x :: xs => x ++ String nl (join_nl xs)
  end%string.

Definition has_prefix (p s : string) : bool := String.prefix p s.

Fixpoint contains_nl_cr (s : string) : bool :=
  match s with
  | EmptyString => false
  | String a r => (Ascii.eqb a nl || Ascii.eqb a cr || contains_nl_cr r)%bool
  end.

Fixpoint drop_hashes (s : string) : string :=
  match s with
  | String a r => if Ascii.eqb a "#" then drop_hashes r else s
  | EmptyString => s
  end.

(** graph.go isLegacyHeading *)
Definition is_legacy_heading (line : string) : bool :=
  let l := trim_space line in
  match l with
  | EmptyString => false
  | String a _ => if Ascii.eqb a "#" then negb (is_blank (drop_hashes l)) else false
  end.

(** graph.go deriveTitleAndBodyFromLegacy *)
Fixpoint derive_lines (ls : list string) : option (string * option (list string)) :=
  match ls with
  | [] => None
  | raw :: rest =>
      let t := trim_space raw in
      if (match t with EmptyString => true | _ => false end || is_legacy_heading t)%bool
      then derive_lines rest
      else Some (t, match rest with [] => None | _ => Some rest end)
  end.
Definition derive_title_body (body : string) : string * string :=
  match derive_lines (split_nl body) with
  | Some (t, None) => (t, EmptyString)
  | Some (t, Some rest) => (t, join_nl rest)
  | None => if is_blank body then ("(untitled)"%string, EmptyString) else ("(untitled)"%string, body)
  end.

Definition byte_len (s : string) : nat := String.length s.
