(** Layout.v — tree_view.go row layout with [useColor = false]: visibleLen,
    stripANSICodes, truncateToWidth, abbreviate, formatTreeLine,
    formatResultLine.  Rune display widths are an oracle [rw] (go-runewidth's
    RuneWidth); [visible_len] is the sum of [rw] over the runes that survive
    stripANSICodes.  (go-runewidth's StringWidth is grapheme-cluster based; it
    coincides with this sum on strings in which no cluster has two runes of
    non-zero width — see the differential test for the exact domain.) *)
From Ergo Require Import Base Text Utf8Lite.
From Coq Require Import Ascii.
From Coq Require String.
Local Open Scope string_scope.
Local Open Scope list_scope.

(** Glyphs the program emits, as UTF-8 byte strings. *)
Definition g_ellipsis : string := Eval vm_compute in of_runes [8230%N].   (* … *)
Definition g_tee      : string := Eval vm_compute in of_runes [9500%N].   (* ├ *)
Definition g_corner   : string := Eval vm_compute in of_runes [9492%N].   (* └ *)
Definition g_bar      : string := Eval vm_compute in of_runes [9474%N].   (* │ *)
Definition g_done     : string := Eval vm_compute in of_runes [10003%N].  (* ✓ *)
Definition g_ready    : string := Eval vm_compute in of_runes [9675%N].   (* ○ *)
Definition g_doing    : string := Eval vm_compute in of_runes [9680%N].   (* ◐ *)
Definition g_blocked  : string := Eval vm_compute in of_runes [183%N].    (* · *)
Definition g_canceled : string := Eval vm_compute in of_runes [10007%N].  (* ✗ *)
Definition g_error    : string := Eval vm_compute in of_runes [9888%N].   (* ⚠ *)
Definition g_epic     : string := Eval vm_compute in of_runes [9402%N].   (* Ⓔ *)
Definition g_hourglass: string := Eval vm_compute in of_runes [10711%N].  (* ⧗ *)
Definition g_arrow    : string := Eval vm_compute in of_runes [8594%N].   (* → *)

(** What the proofs need to know about go-runewidth (each field is measured by
    the harness through the [runewidth] RPC). *)
Class RwOk (rw : N → nat) : Prop := {
  rw_le2 : ∀ r, rw r ≤ 2;
  rw_ascii : ∀ r, (32 ≤ r ≤ 126)%N → rw r = 1;
  rw_ellipsis : rw 8230%N = 1;
  rw_tee : rw 9500%N = 1;
  rw_corner : rw 9492%N = 1;
  rw_bar : rw 9474%N = 1;
  rw_done : rw 10003%N = 1;
  rw_ready : rw 9675%N = 1;
  rw_doing : rw 9680%N = 1;
  rw_blocked : rw 183%N = 1;
  rw_canceled : rw 10007%N = 1;
  rw_error : rw 9888%N = 1;
  rw_epic : rw 9402%N = 1;
  rw_hourglass : rw 10711%N = 1;
  rw_arrow : rw 8594%N = 1 }.

Fixpoint spaces (n : nat) : string :=
  match n with O => "" | S n' => String " "%char (spaces n') end.

Fixpoint sjoin (sep : string) (l : list string) : string :=
  match l with
  | [] => ""
  | [x] => x
  | x :: xs => x +:+ sep +:+ sjoin sep xs
  end.

(** stripANSICodes on runes: ESC starts an escape, which ends after the next 'm'. *)
Fixpoint strip (l : list N) (esc : bool) : list N :=
  match l with
  | [] => []
  | r :: l' =>
      if N.eqb r 27 then strip l' true
      else if esc then strip l' (negb (N.eqb r 109))
      else r :: strip l' false
  end.

Section layout.
  Variable rw : N → nat.

  Definition wsum (l : list N) : nat := sum_list (rw <$> l).

  Definition visible_len (s : string) : nat := wsum (strip (runes s) false).
  Definition vl (s : string) : Z := Z.of_nat (visible_len s).

  (** The loop of truncateToWidth. *)
  Fixpoint trunc_loop (l : list N) (width target : nat) (esc : bool) : list N :=
    match l with
    | [] => []
    | r :: l' =>
        if N.eqb r 27 then r :: trunc_loop l' width target true
        else if esc then r :: trunc_loop l' width target (negb (N.eqb r 109))
        else if (target <? width + rw r)%nat then []
        else r :: trunc_loop l' (width + rw r) target false
    end.

  Definition truncate_to_width (s : string) (max_width : Z) : string :=
    if (max_width <=? 0)%Z then ""
    else if (max_width <=? 1)%Z then g_ellipsis
    else if (vl s <=? max_width)%Z then s
    else
      let target := (max_width - Z.of_nat (rw 8230%N))%Z in
      if (target <? 1)%Z then g_ellipsis
      else of_runes (trunc_loop (runes s) 0 (Z.to_nat target) false) +:+ g_ellipsis.

  Definition abbreviate (s : string) (max_len : Z) : string :=
    let rs := runes s in
    if (Z.of_nat (length rs) <=? max_len)%Z then s
    else if (max_len <=? 1)%Z then g_ellipsis
    else of_runes (take (Z.to_nat (max_len - 1)) rs) +:+ g_ellipsis.

  (** strings.HasSuffix(stripANSICodes(s), " ") *)
  Definition ends_space (s : string) : bool :=
    match list.last (strip (runes s) false) with Some 32%N => true | _ => false end.

  Definition zspaces (z : Z) : string := spaces (Z.to_nat z).

  Definition id_start (w : Z) (i : string) : Z :=
    Z.max 0 (w - 2 - Z.of_nat (String.length i) - 2).

  Definition icon_str (icon : string) (is_epic : bool) : string :=
    if String.eqb icon "" then "" else icon +:+ " " +:+ (if is_epic then " " else "").

  Definition annotation_str (anns : list string) : string :=
    match anns with [] => "" | _ => "  " +:+ sjoin "  " anns end.

  Definition base_str (pfx connector : string) (show_conn : bool) (icon : string) (is_epic : bool) : string :=
    (if show_conn then pfx +:+ connector +:+ " " else "") +:+ icon_str icon is_epic.

  Definition title_sep (base : string) : string := if ends_space base then "" else " ".

  (** title and annotation after fitting into [max_content]. *)
  Definition fit (title ann : string) (max_content : Z) : string * string :=
    if (vl title + vl ann >? max_content)%Z then
      let max_ann := (max_content - vl title)%Z in
      (if (vl title >? max_content)%Z then truncate_to_width title max_content else title,
       if ((max_ann >? 0)%Z && negb (String.eqb ann ""))%bool then truncate_to_width ann max_ann else "")
    else (title, ann).

  Definition with_blocker (w : Z) (ids : Z) (left blocker : string) : string :=
    if String.eqb blocker "" then left else
    let available := (ids - 2 - vl left)%Z in
    if (available >? 6)%Z then
      let bcol := Z.min (Z.quot (w * 55) 100) (ids - 2 - 1) in
      let pad := (bcol - vl left)%Z in
      let sb1 := left +:+ (if (pad >? 1)%Z then zspaces pad else "  ") in
      let maxb := (ids - 2 - vl sb1)%Z in
      if (maxb >? 0)%Z then
        sb1 +:+ (if (vl blocker >? maxb)%Z then truncate_to_width blocker maxb else blocker)
      else sb1
    else left.

  Definition format_tree_line (w : Z) (pfx connector : string) (show_conn : bool)
      (icon i title : string) (anns : list string) (blocker : string) (is_epic : bool) : string :=
    let ids := id_start w i in
    let base := base_str pfx connector show_conn icon is_epic in
    let sep := title_sep base in
    let base_w := (vl base + vl sep)%Z in
    let max_content := Z.max 0 (ids - 2 - base_w) in
    let '(title', ann') := fit title (annotation_str anns) max_content in
    let left := base +:+ sep +:+ title' +:+ ann' in
    let sb := with_blocker w ids left blocker in
    let padding := Z.max 0 (ids - vl sb) in
    sb +:+ zspaces padding +:+ "  " +:+ i.

  Definition format_result_line (pfx url : string) : string :=
    pfx +:+ "  " +:+ g_arrow +:+ " " +:+ url.
End layout.

(** * Proofs *)

Lemma sapp_assoc (a b c : string) : (a +:+ b) +:+ c = a +:+ (b +:+ c).
Proof.
  induction a as [|x a IH]; [reflexivity|].
  change (String x a +:+ b) with (String x (a +:+ b)).
  change (String x (a +:+ b) +:+ c) with (String x ((a +:+ b) +:+ c)).
  change (String x a +:+ (b +:+ c)) with (String x (a +:+ (b +:+ c))).
  f_equal. exact IH.
Qed.

Lemma sapp_nil_r (a : string) : a +:+ "" = a.
Proof.
  induction a as [|x a IH]; [reflexivity|].
  change (String x a +:+ "") with (String x (a +:+ "")). f_equal. exact IH.
Qed.

Lemma bytes_of_length s : length (bytes_of s) = String.length s.
Proof.
  unfold bytes_of. induction s as [|a s IH]; [reflexivity|]. cbn. f_equal. exact IH.
Qed.

(** runes that are Unicode scalar values other than ESC *)
Definition ok_rune (r : N) : Prop := is_scalar r = true ∧ r ≠ 27%N.

(** [plain s]: valid UTF-8 without ESC. *)
Definition plain (s : string) : Prop := ∃ l, s = of_runes l ∧ Forall ok_rune l.

Lemma sanitize_ok r : ok_rune r → sanitize r = r.
Proof. intros [H _]. unfold sanitize. rewrite H. reflexivity. Qed.

Lemma sanitize_ok_list l : Forall ok_rune l → sanitize <$> l = l.
Proof.
  induction 1 as [|r l Hr _ IH]; [reflexivity|]. cbn. rewrite sanitize_ok by exact Hr. f_equal. exact IH.
Qed.

Lemma runes_plain l : Forall ok_rune l → runes (of_runes l) = l.
Proof. intros H. rewrite runes_of_runes. apply sanitize_ok_list, H. Qed.

Lemma strip_plain l : Forall ok_rune l → strip l false = l.
Proof.
  induction 1 as [|r l [_ Hr] _ IH]; [reflexivity|]. cbn.
  destruct (N.eqb_spec r 27); [contradiction|]. f_equal. exact IH.
Qed.

Lemma plain_valid s : plain s → valid_utf8 s.
Proof. intros (l & -> & _). exists l. reflexivity. Qed.

Lemma plain_nil : plain "".
Proof. exists []. split; [reflexivity|constructor]. Qed.

Lemma plain_app s t : plain s → plain t → plain (s +:+ t).
Proof.
  intros (l1 & -> & H1) (l2 & -> & H2). exists (l1 ++ l2). split.
  - symmetry. apply of_runes_app.
  - apply Forall_app. split; assumption.
Qed.

Lemma of_runes_cons_ascii b l : (b < 128)%N → of_runes (b :: l) = String (ascii_of_N b) (of_runes l).
Proof.
  intros Hb. unfold of_runes, encode. cbn [fmap list_fmap List.concat].
  unfold enc_rune at 1. destruct (N.ltb_spec b 128); [|lia]. reflexivity.
Qed.

Definition ascii_str (s : string) : Prop := Forall (λ b, (32 ≤ b ≤ 126)%N) (bytes_of s).

Lemma ascii_str_of_runes s : ascii_str s → s = of_runes (bytes_of s).
Proof.
  unfold ascii_str. induction s as [|a s IH]; intros H; [reflexivity|].
  change (bytes_of (String a s)) with (N_of_ascii a :: bytes_of s) in *.
  apply Forall_cons_1 in H as [Ha Hs].
  rewrite of_runes_cons_ascii by lia. rewrite ascii_N_embedding. f_equal. apply IH, Hs.
Qed.

Lemma ascii_ok_runes l : Forall (λ b, (32 ≤ b ≤ 126)%N) l → Forall ok_rune l.
Proof.
  apply Forall_impl. intros b Hb. split.
  - unfold is_scalar. destruct (N.ltb_spec b 55296); [reflexivity|lia].
  - lia.
Qed.

Lemma plain_ascii s : ascii_str s → plain s.
Proof.
  intros H. exists (bytes_of s). split; [apply ascii_str_of_runes, H|apply ascii_ok_runes, H].
Qed.

Lemma spaces_of_runes n : spaces n = of_runes (replicate n 32%N).
Proof.
  induction n as [|n IH]; [reflexivity|]. cbn [replicate spaces].
  rewrite of_runes_cons_ascii by lia. rewrite IH. reflexivity.
Qed.

Lemma plain_spaces n : plain (spaces n).
Proof.
  exists (replicate n 32%N). split; [apply spaces_of_runes|].
  apply Forall_replicate. split; [reflexivity|discriminate].
Qed.

Section layout_proofs.
  Context (rw : N → nat) {Hrw : RwOk rw}.
  Notation wsum := (wsum rw).
  Notation vl := (vl rw).
  Notation visible_len := (visible_len rw).

  Lemma wsum_app l1 l2 : wsum (l1 ++ l2) = wsum l1 + wsum l2.
  Proof. unfold Layout.wsum. induction l1 as [|r l IH]; [reflexivity|]. cbn in *. rewrite IH. lia. Qed.

  Lemma visible_len_of_runes l : Forall ok_rune l → visible_len (of_runes l) = wsum l.
  Proof. intros H. unfold Layout.visible_len. rewrite runes_plain, strip_plain by exact H. reflexivity. Qed.

  Lemma vl_app s t : plain s → plain t → vl (s +:+ t) = (vl s + vl t)%Z.
  Proof.
    intros (l1 & -> & H1) (l2 & -> & H2). unfold Layout.vl.
    rewrite <- of_runes_app, !visible_len_of_runes by (try apply Forall_app; auto).
    rewrite wsum_app. lia.
  Qed.

  Lemma vl_nil : vl "" = 0%Z.
  Proof. reflexivity. Qed.

  Lemma vl_nonneg s : (0 ≤ vl s)%Z.
  Proof. unfold Layout.vl. lia. Qed.

  Lemma wsum_ascii l : Forall (λ b, (32 ≤ b ≤ 126)%N) l → wsum l = length l.
  Proof.
    induction 1 as [|b l Hb _ IH]; [reflexivity|].
    unfold Layout.wsum in *. cbn. rewrite IH, rw_ascii by exact Hb. reflexivity.
  Qed.

  Lemma vl_ascii s : ascii_str s → vl s = Z.of_nat (String.length s).
  Proof.
    intros H. unfold Layout.vl. rewrite (ascii_str_of_runes s H) at 1.
    rewrite visible_len_of_runes by (apply ascii_ok_runes, H).
    rewrite wsum_ascii by exact H. rewrite bytes_of_length. reflexivity.
  Qed.

  Lemma vl_spaces n : vl (spaces n) = Z.of_nat n.
  Proof.
    unfold Layout.vl. rewrite spaces_of_runes, visible_len_of_runes
      by (apply Forall_replicate; split; [reflexivity|discriminate]).
    rewrite wsum_ascii by (apply Forall_replicate; lia). rewrite replicate_length. reflexivity.
  Qed.

  Lemma plain_zspaces z : plain (zspaces z).
  Proof. apply plain_spaces. Qed.
  Lemma vl_zspaces z : (0 ≤ z)%Z → vl (zspaces z) = z.
  Proof. intros H. unfold zspaces. rewrite vl_spaces. lia. Qed.

  (** a one-rune glyph *)
  Lemma plain_glyph r : ok_rune r → plain (of_runes [r]).
  Proof. intros H. exists [r]. split; [reflexivity|]. constructor; [exact H|constructor]. Qed.
  Lemma vl_glyph r : ok_rune r → vl (of_runes [r]) = Z.of_nat (rw r).
  Proof.
    intros H. unfold Layout.vl. rewrite visible_len_of_runes by (constructor; [exact H|constructor]).
    unfold Layout.wsum. cbn. lia.
  Qed.

  Local Ltac glyph_ok := split; [reflexivity|discriminate].

  Lemma plain_ellipsis : plain g_ellipsis. Proof. apply (plain_glyph 8230). glyph_ok. Qed.
  Lemma vl_ellipsis : vl g_ellipsis = 1%Z.
  Proof. change g_ellipsis with (of_runes [8230%N]). rewrite vl_glyph by glyph_ok. rewrite rw_ellipsis. reflexivity. Qed.
  Lemma plain_tee : plain g_tee. Proof. apply (plain_glyph 9500). glyph_ok. Qed.
  Lemma vl_tee : vl g_tee = 1%Z.
  Proof. change g_tee with (of_runes [9500%N]). rewrite vl_glyph by glyph_ok. rewrite rw_tee. reflexivity. Qed.
  Lemma plain_corner : plain g_corner. Proof. apply (plain_glyph 9492). glyph_ok. Qed.
  Lemma vl_corner : vl g_corner = 1%Z.
  Proof. change g_corner with (of_runes [9492%N]). rewrite vl_glyph by glyph_ok. rewrite rw_corner. reflexivity. Qed.
  Lemma plain_hourglass : plain g_hourglass. Proof. apply (plain_glyph 10711). glyph_ok. Qed.

  (** ** truncateToWidth *)
  Lemma trunc_loop_plain l wd tg :
    Forall ok_rune l →
    ∃ p, trunc_loop rw l wd tg false = p ∧ p `prefix_of` l ∧ (wd ≤ tg → wd + wsum p ≤ tg).
  Proof.
    intros H. revert wd. induction H as [|r l [Hs Hr] Hl IH]; intros wd.
    { exists []. split; [reflexivity|]. split; [apply prefix_nil|]. unfold Layout.wsum. cbn. lia. }
    cbn [trunc_loop]. destruct (N.eqb_spec r 27); [contradiction|].
    destruct (Nat.ltb_spec tg (wd + rw r)).
    { exists []. split; [reflexivity|]. split; [apply prefix_nil|]. unfold Layout.wsum. cbn. lia. }
    destruct (IH (wd + rw r)) as (p & -> & Hp & Hw).
    exists (r :: p). split; [reflexivity|]. split; [apply prefix_cons, Hp|].
    intros _. unfold Layout.wsum in *. cbn. lia.
  Qed.

  Lemma prefix_Forall {A} (P : A → Prop) (p l : list A) : p `prefix_of` l → Forall P l → Forall P p.
  Proof. intros [k ->] H. apply Forall_app in H. tauto. Qed.

  Lemma truncate_plain s m :
    plain s → plain (truncate_to_width rw s m) ∧ (vl (truncate_to_width rw s m) ≤ Z.max 0 m)%Z.
  Proof.
    intros Hs. unfold truncate_to_width.
    destruct (Z.leb_spec m 0). { split; [apply plain_nil|]. rewrite vl_nil. lia. }
    destruct (Z.leb_spec m 1). { split; [apply plain_ellipsis|]. rewrite vl_ellipsis. lia. }
    destruct (Z.leb_spec (vl s) m). { split; [exact Hs|lia]. }
    rewrite rw_ellipsis.
    destruct (Z.ltb_spec (m - Z.of_nat 1) 1). { split; [apply plain_ellipsis|]. rewrite vl_ellipsis. lia. }
    destruct Hs as (l & -> & Hl). rewrite runes_plain by exact Hl.
    destruct (trunc_loop_plain l 0 (Z.to_nat (m - Z.of_nat 1)) Hl) as (p & -> & Hp & Hw).
    pose proof (prefix_Forall _ _ _ Hp Hl) as Hpl.
    assert (plain (of_runes p)) as Hpp by (exists p; split; [reflexivity|exact Hpl]).
    split; [apply plain_app; [exact Hpp|apply plain_ellipsis]|].
    rewrite vl_app by (try exact Hpp; apply plain_ellipsis). rewrite vl_ellipsis.
    unfold Layout.vl at 1. rewrite visible_len_of_runes by exact Hpl. lia.
  Qed.

  Lemma abbreviate_plain s m : plain s → plain (abbreviate s m).
  Proof.
    intros Hs. unfold abbreviate.
    destruct (Z.leb_spec (Z.of_nat (length (runes s))) m); [exact Hs|].
    destruct (Z.leb_spec m 1); [apply plain_ellipsis|].
    apply plain_app; [|apply plain_ellipsis].
    destruct Hs as (l & -> & Hl). rewrite runes_plain by exact Hl.
    exists (take (Z.to_nat (m - 1)) l). split; [reflexivity|]. apply Forall_take, Hl.
  Qed.

  (** ** fitting title + annotations *)
  Lemma fit_spec title ann mc t' a' :
    plain title → plain ann → (0 ≤ mc)%Z → fit rw title ann mc = (t', a') →
    plain t' ∧ plain a' ∧ (vl t' + vl a' ≤ mc)%Z.
  Proof.
    intros Ht Ha Hmc. unfold fit.
    destruct (Z.gtb_spec (vl title + vl ann) mc) as [Hgt|Hle].
    2:{ intros [= <- <-]. split; [exact Ht|]. split; [exact Ha|lia]. }
    intros [= <- <-].
    pose proof (truncate_plain title mc Ht) as [Hpt Hvt].
    pose proof (truncate_plain ann (mc - vl title) Ha) as [Hpa Hva].
    pose proof (vl_nonneg title). pose proof (vl_nonneg ann).
    destruct (Z.gtb_spec (vl title) mc) as [Hgt2|Hle2].
    - split; [exact Hpt|].
      destruct (Z.gtb_spec (mc - vl title) 0); [lia|]. cbn [andb].
      split; [apply plain_nil|]. rewrite vl_nil. lia.
    - split; [exact Ht|].
      destruct (Z.gtb_spec (mc - vl title) 0); cbn [andb].
      + destruct (negb (String.eqb ann "")).
        * split; [exact Hpa|]. lia.
        * split; [apply plain_nil|]. rewrite vl_nil. lia.
      + split; [apply plain_nil|]. rewrite vl_nil. lia.
  Qed.

  (** ** the blocker column *)
  Lemma with_blocker_spec w ids left blocker :
    plain left → plain blocker → (vl left ≤ ids)%Z →
    plain (with_blocker rw w ids left blocker) ∧ (vl (with_blocker rw w ids left blocker) ≤ ids)%Z.
  Proof.
    intros Hl Hb Hle. unfold with_blocker.
    destruct (String.eqb blocker ""); [split; assumption|].
    destruct (Z.gtb_spec (ids - 2 - vl left) 6) as [Hav|Hav]; [|split; assumption].
    set (bcol := Z.min (Z.quot (w * 55) 100) (ids - 2 - 1)).
    set (pad := (bcol - vl left)%Z).
    set (sp := if (pad >? 1)%Z then zspaces pad else "  ").
    assert (plain sp ∧ (vl left + vl sp ≤ ids - 3)%Z) as [Hsp Hvsp].
    { unfold sp. destruct (Z.gtb_spec pad 1).
      - split; [apply plain_zspaces|]. rewrite vl_zspaces by lia. unfold pad, bcol. lia.
      - split; [apply (plain_spaces 2)|]. change "  " with (spaces 2). rewrite vl_spaces. lia. }
    assert (plain (left +:+ sp)) as Hsb1 by (apply plain_app; assumption).
    assert (vl (left +:+ sp) = vl left + vl sp)%Z as Hv1 by (apply vl_app; assumption).
    destruct (Z.gtb_spec (ids - 2 - vl (left +:+ sp)) 0) as [Hmb|Hmb].
    2:{ split; [exact Hsb1|lia]. }
    set (maxb := (ids - 2 - vl (left +:+ sp))%Z) in *.
    pose proof (truncate_plain blocker maxb Hb) as [Hpt Hvt].
    destruct (Z.gtb_spec (vl blocker) maxb).
    - split; [apply plain_app; assumption|]. rewrite vl_app by assumption. lia.
    - split; [apply plain_app; assumption|]. rewrite vl_app by assumption. lia.
  Qed.

  Lemma plain_sjoin sep l : plain sep → Forall plain l → plain (sjoin sep l).
  Proof.
    intros Hs. induction 1 as [|x l Hx Hl IH]; [apply plain_nil|].
    cbn [sjoin]. destruct l as [|y l']; [exact Hx|].
    apply plain_app; [exact Hx|]. apply plain_app; [exact Hs|exact IH].
  Qed.

  Lemma plain_annotation_str anns : Forall plain anns → plain (annotation_str anns).
  Proof.
    intros H. unfold annotation_str. destruct anns as [|a l]; [apply plain_nil|].
    apply plain_app; [apply (plain_spaces 2)|]. apply plain_sjoin; [apply (plain_spaces 2)|exact H].
  Qed.

  Lemma plain_icon_str icon e : plain icon → plain (icon_str icon e).
  Proof.
    intros H. unfold icon_str. destruct (String.eqb icon ""); [apply plain_nil|].
    apply plain_app; [exact H|]. apply plain_app; [apply (plain_spaces 1)|].
    destruct e; [apply (plain_spaces 1)|apply plain_nil].
  Qed.

  Lemma plain_base_str pfx conn show icon e :
    plain pfx → plain conn → plain icon → plain (base_str pfx conn show icon e).
  Proof.
    intros Hp Hc Hi. unfold base_str. apply plain_app; [|apply plain_icon_str, Hi].
    destruct show; [|apply plain_nil].
    apply plain_app; [exact Hp|]. apply plain_app; [exact Hc|apply (plain_spaces 1)].
  Qed.

  Lemma plain_title_sep b : plain (title_sep b).
  Proof. unfold title_sep. destruct (ends_space b); [apply plain_nil|apply (plain_spaces 1)]. Qed.

  (** ** formatTreeLine: the row is exactly [w - 2] columns wide and ends with
      the id, which starts at column [w - 2 - len id], provided the fixed part
      (tree glyphs, icon, separator) itself fits left of the id column. *)
  Theorem format_tree_line_layout w pfx conn show icon i title anns blocker e :
    plain pfx → plain conn → plain icon → plain title → Forall plain anns → plain blocker →
    ascii_str i →
    let base := base_str pfx conn show icon e in
    (0 ≤ w - 4 - Z.of_nat (String.length i))%Z →
    (vl base + vl (title_sep base) ≤ id_start w i)%Z →
    ∃ body, format_tree_line rw w pfx conn show icon i title anns blocker e = body +:+ i
            ∧ plain body
            ∧ vl body = (w - 2 - Z.of_nat (String.length i))%Z
            ∧ plain (format_tree_line rw w pfx conn show icon i title anns blocker e)
            ∧ vl (format_tree_line rw w pfx conn show icon i title anns blocker e) = (w - 2)%Z.
  Proof.
    intros Hp Hc Hi Ht Ha Hb Hid base Hw Hbase.
    unfold format_tree_line. fold base.
    set (ids := id_start w i) in *.
    assert (ids = w - 4 - Z.of_nat (String.length i))%Z as Hids by (unfold ids, id_start; lia).
    set (sep := title_sep base) in *.
    set (mc := Z.max 0 (ids - 2 - (vl base + vl sep))).
    destruct (fit rw title (annotation_str anns) mc) as [t' a'] eqn:Hfit.
    assert (plain base) as Hpb by (apply plain_base_str; assumption).
    assert (plain sep) as Hps by apply plain_title_sep.
    destruct (fit_spec _ _ mc _ _ Ht (plain_annotation_str _ Ha) ltac:(lia) Hfit) as (Hpt & Hpa & Hfw).
    set (left := base +:+ sep +:+ t' +:+ a').
    assert (plain left) as Hpl by (repeat first [assumption|apply plain_app]).
    assert (vl left = vl base + vl sep + vl t' + vl a')%Z as Hvl.
    { unfold left. rewrite !vl_app by (repeat first [assumption|apply plain_app]). lia. }
    pose proof (vl_nonneg t'). pose proof (vl_nonneg a').
    assert (vl left ≤ ids)%Z as Hll by lia.
    destruct (with_blocker_spec w ids left blocker Hpl Hb Hll) as [Hpsb Hvsb].
    set (sb := with_blocker rw w ids left blocker) in *.
    set (pad := Z.max 0 (ids - vl sb)).
    assert (plain (sb +:+ zspaces pad +:+ "  ")) as Hbody.
    { apply plain_app; [exact Hpsb|]. apply plain_app; [apply plain_zspaces|apply (plain_spaces 2)]. }
    assert (vl (sb +:+ zspaces pad +:+ "  ") = w - 2 - Z.of_nat (String.length i))%Z as Hvbody.
    { rewrite !vl_app by (try apply plain_app; try apply plain_zspaces; try apply (plain_spaces 2); assumption).
      rewrite vl_zspaces by lia. change "  " with (spaces 2). rewrite vl_spaces. unfold pad. lia. }
    exists (sb +:+ zspaces pad +:+ "  "). split.
    { rewrite !sapp_assoc. reflexivity. }
    split; [exact Hbody|]. split; [exact Hvbody|].
    assert (sb +:+ zspaces pad +:+ "  " +:+ i = (sb +:+ zspaces pad +:+ "  ") +:+ i) as ->
      by (rewrite !sapp_assoc; reflexivity).
    split; [apply plain_app; [exact Hbody|apply plain_ascii, Hid]|].
    rewrite vl_app by (try exact Hbody; apply plain_ascii, Hid).
    rewrite Hvbody, vl_ascii by exact Hid. lia.
  Qed.
End layout_proofs.

(** * UTF-8 validity of rows (no assumption on ESC or widths) *)
Section validity.
  Variable rw : N → nat.

  Lemma valid_nil : valid_utf8 "".
  Proof. exists []. reflexivity. Qed.
  Lemma valid_of_runes l : valid_utf8 (of_runes l).
  Proof. exists l. reflexivity. Qed.
  Lemma valid_spaces n : valid_utf8 (spaces n).
  Proof. apply plain_valid, plain_spaces. Qed.
  Lemma valid_ellipsis : valid_utf8 g_ellipsis.
  Proof. apply (valid_of_runes [8230%N]). Qed.

  Lemma truncate_valid s m : valid_utf8 s → valid_utf8 (truncate_to_width rw s m).
  Proof.
    intros Hs. unfold truncate_to_width.
    repeat case_match; try apply valid_nil; try apply valid_ellipsis; try exact Hs.
    apply valid_utf8_app; [apply valid_of_runes|apply valid_ellipsis].
  Qed.

  Lemma abbreviate_valid s m : valid_utf8 s → valid_utf8 (abbreviate s m).
  Proof.
    intros Hs. unfold abbreviate.
    repeat case_match; try apply valid_ellipsis; try exact Hs.
    apply valid_utf8_app; [apply valid_of_runes|apply valid_ellipsis].
  Qed.

  Lemma sjoin_valid sep l : valid_utf8 sep → Forall valid_utf8 l → valid_utf8 (sjoin sep l).
  Proof.
    intros Hs. induction 1 as [|x l Hx Hl IH]; [apply valid_nil|].
    cbn [sjoin]. destruct l as [|y l']; [exact Hx|].
    apply valid_utf8_app; [exact Hx|]. apply valid_utf8_app; [exact Hs|exact IH].
  Qed.

  Lemma format_tree_line_valid w pfx conn show icon i title anns blocker e :
    valid_utf8 pfx → valid_utf8 conn → valid_utf8 icon → valid_utf8 title → Forall valid_utf8 anns →
    valid_utf8 blocker → valid_utf8 i →
    valid_utf8 (format_tree_line rw w pfx conn show icon i title anns blocker e).
  Proof.
    intros Hp Hc Hi Ht Ha Hb Hid. unfold format_tree_line.
    assert (valid_utf8 (annotation_str anns)) as Hann.
    { unfold annotation_str. destruct anns; [apply valid_nil|].
      apply valid_utf8_app; [apply (valid_spaces 2)|]. apply sjoin_valid; [apply (valid_spaces 2)|exact Ha]. }
    assert (valid_utf8 (base_str pfx conn show icon e)) as Hbase.
    { unfold base_str, icon_str. apply valid_utf8_app.
      - destruct show; [|apply valid_nil]. repeat apply valid_utf8_app; try assumption. apply (valid_spaces 1).
      - destruct (String.eqb icon ""); [apply valid_nil|].
        repeat apply valid_utf8_app; try assumption; [apply (valid_spaces 1)|].
        destruct e; [apply (valid_spaces 1)|apply valid_nil]. }
    set (base := base_str pfx conn show icon e) in *.
    assert (valid_utf8 (title_sep base)) as Hsep.
    { unfold title_sep. destruct (ends_space base); [apply valid_nil|apply (valid_spaces 1)]. }
    destruct (fit rw title (annotation_str anns) _) as [t' a'] eqn:Hfit.
    assert (valid_utf8 t' ∧ valid_utf8 a') as [Ht' Ha'].
    { unfold fit in Hfit. repeat case_match; injection Hfit as <- <-; split;
        try apply truncate_valid; try apply valid_nil; assumption. }
    set (left := base +:+ title_sep base +:+ t' +:+ a').
    assert (valid_utf8 left) as Hl by (unfold left; repeat first [assumption|apply valid_utf8_app]).
    assert (valid_utf8 (with_blocker rw w (id_start w i) left blocker)) as Hsb.
    { unfold with_blocker. repeat case_match; try exact Hl;
        repeat first [assumption | apply valid_spaces | apply truncate_valid | apply valid_utf8_app];
        unfold zspaces; try apply valid_spaces; apply (valid_spaces 2). }
    apply valid_utf8_app; [exact Hsb|]. apply valid_utf8_app; [apply valid_spaces|].
    apply valid_utf8_app; [apply (valid_spaces 2)|exact Hid].
  Qed.
End validity.
