(** Events.v — the typed event vocabulary of the log (model.go:211-285), as
    replay sees it: payload stamps are [option time] ([None] = not RFC 3339);
    the envelope [ts] is not modelled (replay ignores it). *)
From Ergo Require Import Base.
Local Open Scope string_scope.

Inductive event :=
| ENew (is_epic : bool) (i uuid epic state title body : string) (at_ : option time)
| EState (i st : string) (at_ : option time)
| EClaim (i agent : string) (at_ : option time)
| EUnclaim (i : string)
| ELink (from to ltype : string)
| EUnlink (from to ltype : string)
| ETitle (i title : string) (at_ : option time)
| EBody (i body : string) (at_ : option time)
| EEpic (i epic : string) (at_ : option time)
| ETomb (i agent : string) (at_ : option time)
| EResult (i summary path sha mtime git : string) (at_ : option time)
| EBad     (* payload of a known type that does not decode: replay fails *)
| EOther.  (* unknown event type: ignored by replay *)

Definition depends : string := "depends".

(** The ids an event mentions (used by C09). *)
Definition ev_mentions (p : string) (e : event) : bool :=
  match e with
  | ENew _ i _ _ _ _ _ _ | EState i _ _ | EClaim i _ _ | EUnclaim i | ETitle i _ _
  | EBody i _ _ | EEpic i _ _ | ETomb i _ _ | EResult i _ _ _ _ _ _ => String.eqb i p
  | ELink a b _ | EUnlink a b _ => (String.eqb a p || String.eqb b p)%bool
  | EBad | EOther => false
  end.
