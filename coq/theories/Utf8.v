(** Utf8.v — byte-level model of the parts of Go's [unicode/utf8] (go1.24) that
    [encoding/json] string coding depends on: [ValidString], [DecodeRuneInString]
    (including the (RuneError, 1) result on malformed input) and [AppendRune].
    Strings are Coq [string]s = byte sequences; bytes and code points are [N]. *)
From Coq Require Import ZArith NArith Ascii String List Bool Lia ZifyN ZifyNat.
Import ListNotations.
Local Open Scope N_scope.

(* let [lia] see through div/mod by constants (local to this file) *)
Local Ltac Zify.zify_post_hook ::= Z.div_mod_to_equations.

Definition bv (c : ascii) : N := N_of_ascii c.      (* = Text.byte_of *)
Definition ch (n : N) : ascii := ascii_of_N n.

Fixpoint bytes (l : list N) : string :=
  match l with [] => EmptyString | x :: r => String (ch x) (bytes r) end.

(** s[n:] and s[:n] (saturating). *)
Fixpoint sdrop (n : nat) (s : string) : string :=
  match n, s with
  | O, _ => s
  | S n, String _ r => sdrop n r
  | S _, EmptyString => EmptyString
  end.
Fixpoint stake (n : nat) (s : string) : string :=
  match n, s with
  | S n, String a r => String a (stake n r)
  | _, _ => EmptyString
  end.

Definition rune_error : N := 0xFFFD.
Definition in_range (lo hi x : N) : bool := (lo <=? x) && (x <=? hi).
Definition is_cont (x : N) : bool := in_range 0x80 0xBF x.     (* locb..hicb *)

(** Go's [first] table joined with [acceptRanges], for lead bytes >= 0x80:
    [Some (size, lo, hi)] where [lo..hi] is the accepted range of the second
    byte; [None] is the [xx] entry (illegal lead byte). *)
Definition first_info (s0 : N) : option (nat * N * N) :=
  if s0 <? 0xC2 then None
  else if s0 <=? 0xDF then Some (2%nat, 0x80, 0xBF)       (* s1 *)
  else if s0 =? 0xE0 then Some (3%nat, 0xA0, 0xBF)        (* s2 *)
  else if s0 =? 0xED then Some (3%nat, 0x80, 0x9F)        (* s4 *)
  else if s0 <=? 0xEF then Some (3%nat, 0x80, 0xBF)       (* s3 *)
  else if s0 =? 0xF0 then Some (4%nat, 0x90, 0xBF)        (* s5 *)
  else if s0 <=? 0xF3 then Some (4%nat, 0x80, 0xBF)       (* s6 *)
  else if s0 =? 0xF4 then Some (4%nat, 0x80, 0x8F)        (* s7 *)
  else None.

(** [utf8.DecodeRuneInString]: (rune, size).  Empty input gives (RuneError, 0),
    malformed input gives (RuneError, 1).  The masks/shifts of the Go code are
    written with mod/*, which is the same function on bytes. *)
Definition decode_rune (s : string) : N * nat :=
  match s with
  | EmptyString => (rune_error, 0%nat)
  | String a r1 =>
    let s0 := bv a in
    if s0 <? 0x80 then (s0, 1%nat) else
    match first_info s0 with
    | None => (rune_error, 1%nat)
    | Some (sz, lo, hi) =>
      match r1 with
      | EmptyString => (rune_error, 1%nat)
      | String a1 r2 =>
        let s1 := bv a1 in
        if negb (in_range lo hi s1) then (rune_error, 1%nat)
        else if (sz =? 2)%nat then ((s0 mod 32) * 64 + s1 mod 64, 2%nat)
        else match r2 with
        | EmptyString => (rune_error, 1%nat)
        | String a2 r3 =>
          let s2 := bv a2 in
          if negb (is_cont s2) then (rune_error, 1%nat)
          else if (sz =? 3)%nat then
            ((s0 mod 16) * 4096 + (s1 mod 64) * 64 + s2 mod 64, 3%nat)
          else match r3 with
          | EmptyString => (rune_error, 1%nat)
          | String a3 r4 =>
            let s3 := bv a3 in
            if negb (is_cont s3) then (rune_error, 1%nat)
            else ((s0 mod 8) * 262144 + (s1 mod 64) * 4096
                  + (s2 mod 64) * 64 + s3 mod 64, 4%nat)
          end
        end
      end
    end
  end.

(** The result [(RuneError, 1)] that callers test for. *)
Definition is_bad (d : N * nat) : bool := (fst d =? rune_error) && (snd d =? 1)%nat.

(** [utf8.ValidString]. *)
Fixpoint valid_utf8 (s : string) : bool :=
  match s with
  | EmptyString => true
  | String a r1 =>
    let s0 := bv a in
    if s0 <? 0x80 then valid_utf8 r1 else
    match first_info s0 with
    | None => false
    | Some (sz, lo, hi) =>
      match r1 with
      | EmptyString => false
      | String a1 r2 =>
        if negb (in_range lo hi (bv a1)) then false
        else if (sz =? 2)%nat then valid_utf8 r2
        else match r2 with
        | EmptyString => false
        | String a2 r3 =>
          if negb (is_cont (bv a2)) then false
          else if (sz =? 3)%nat then valid_utf8 r3
          else match r3 with
          | EmptyString => false
          | String a3 r4 =>
            if negb (is_cont (bv a3)) then false else valid_utf8 r4
          end
        end
      end
    end
  end.

(** Unicode scalar values: what [utf8.ValidRune] accepts. *)
Definition is_scalar (r : N) : bool :=
  (r <? 0xD800) || ((0xDFFF <? r) && (r <=? 0x10FFFF)).

(** [utf8.AppendRune(nil, r)]. *)
Definition encode_rune (r : N) : string :=
  if r <=? 0x7F then bytes [r]
  else if r <=? 0x7FF then bytes [0xC0 + r / 64; 0x80 + r mod 64]
  else if (r <? 0xD800) || ((0xDFFF <? r) && (r <=? 0xFFFF)) then
    bytes [0xE0 + r / 4096; 0x80 + (r / 64) mod 64; 0x80 + r mod 64]
  else if (0xFFFF <? r) && (r <=? 0x10FFFF) then
    bytes [0xF0 + r / 262144; 0x80 + (r / 4096) mod 64;
           0x80 + (r / 64) mod 64; 0x80 + r mod 64]
  else bytes [0xEF; 0xBF; 0xBD].

(** * Basic facts *)
Lemma bv_ch n : n < 256 -> bv (ch n) = n.
Proof. apply N_ascii_embedding. Qed.
Lemma ch_bv a : ch (bv a) = a.
Proof. apply ascii_N_embedding. Qed.
Lemma bv_lt a : bv a < 256.
Proof. apply N_ascii_bounded. Qed.
Lemma ch_eq a n : bv a = n -> a = ch n.
Proof. intros <-. symmetry. apply ch_bv. Qed.

Lemma bytes_app l1 l2 : bytes (l1 ++ l2) = (bytes l1 ++ bytes l2)%string.
Proof. induction l1; simpl; congruence. Qed.

Lemma app_assoc_s (a b c : string) : ((a ++ b) ++ c = a ++ (b ++ c))%string.
Proof. induction a; simpl; congruence. Qed.
Lemma app_nil_r_s (a : string) : (a ++ "" = a)%string.
Proof. induction a; simpl; congruence. Qed.
Lemma length_app_s (a b : string) :
  String.length (a ++ b) = (String.length a + String.length b)%nat.
Proof. induction a; simpl; congruence. Qed.

Lemma sdrop_app a b : sdrop (String.length a) (a ++ b) = b.
Proof. induction a; simpl; auto. Qed.
Lemma stake_app a b : stake (String.length a) (a ++ b) = a.
Proof. induction a; simpl; congruence. Qed.
Lemma stake_sdrop n s : (stake n s ++ sdrop n s)%string = s.
Proof. revert s; induction n; intros [|a r]; simpl; auto. now rewrite IHn. Qed.
Lemma sdrop_length n s : (String.length (sdrop n s) <= String.length s)%nat.
Proof. revert s; induction n; intros [|a r]; simpl; auto. Qed.
Lemma sdrop_length_lt n s : (0 < n)%nat -> s <> EmptyString ->
  (String.length (sdrop n s) < String.length s)%nat.
Proof.
  destruct n, s; simpl; try lia; try congruence.
  intros _ _. pose proof (sdrop_length n s). lia.
Qed.

(** * Arithmetic cores (bytes <-> code point) *)
Lemma dec2_arith s0 s1 : 0xC2 <= s0 <= 0xDF -> 0x80 <= s1 <= 0xBF ->
  let r := (s0 mod 32) * 64 + s1 mod 64 in
  0x80 <= r <= 0x7FF /\ 0xC0 + r / 64 = s0 /\ 0x80 + r mod 64 = s1.
Proof. intros; subst r. lia. Qed.
Lemma dec3_arith s0 s1 s2 : 0xE0 <= s0 <= 0xEF -> 0x80 <= s1 <= 0xBF -> 0x80 <= s2 <= 0xBF ->
  (s0 = 0xE0 -> 0xA0 <= s1) -> (s0 = 0xED -> s1 <= 0x9F) ->
  let r := (s0 mod 16) * 4096 + (s1 mod 64) * 64 + s2 mod 64 in
  (0x800 <= r < 0xD800 \/ 0xDFFF < r <= 0xFFFF) /\
  0xE0 + r / 4096 = s0 /\ 0x80 + (r / 64) mod 64 = s1 /\ 0x80 + r mod 64 = s2.
Proof. intros; subst r.
 assert (s0 mod 16 = s0 - 0xE0) as -> by lia.
 assert (s1 mod 64 = s1 - 0x80) as -> by lia.
 assert (s2 mod 64 = s2 - 0x80) as -> by lia.
 repeat split; try lia. Qed.
Lemma dec4_arith s0 s1 s2 s3 : 0xF0 <= s0 <= 0xF4 -> 0x80 <= s1 <= 0xBF ->
  0x80 <= s2 <= 0xBF -> 0x80 <= s3 <= 0xBF ->
  (s0 = 0xF0 -> 0x90 <= s1) -> (s0 = 0xF4 -> s1 <= 0x8F) ->
  let r := (s0 mod 8) * 262144 + (s1 mod 64) * 4096 + (s2 mod 64) * 64 + s3 mod 64 in
  0xFFFF < r <= 0x10FFFF /\
  0xF0 + r / 262144 = s0 /\ 0x80 + (r / 4096) mod 64 = s1 /\
  0x80 + (r / 64) mod 64 = s2 /\ 0x80 + r mod 64 = s3.
Proof. intros; subst r.
 assert (s0 mod 8 = s0 - 0xF0) as -> by lia.
 assert (s1 mod 64 = s1 - 0x80) as -> by lia.
 assert (s2 mod 64 = s2 - 0x80) as -> by lia.
 assert (s3 mod 64 = s3 - 0x80) as -> by lia.
 repeat split; try lia. Qed.

(* reverse direction *)
Lemma enc2_arith r : 0x80 <= r <= 0x7FF ->
  let s0 := 0xC0 + r / 64 in let s1 := 0x80 + r mod 64 in
  0xC2 <= s0 <= 0xDF /\ 0x80 <= s1 <= 0xBF /\ (s0 mod 32) * 64 + s1 mod 64 = r.
Proof. intros H s0 s1; subst s0 s1. 
  assert ((0xC0 + r / 64) mod 32 = r / 64) as -> by lia.
  assert ((0x80 + r mod 64) mod 64 = r mod 64) as -> by lia.
  repeat split; try lia. Qed.
Lemma enc3_arith r : 0x800 <= r <= 0xFFFF ->
  let s0 := 0xE0 + r / 4096 in let s1 := 0x80 + (r / 64) mod 64 in let s2 := 0x80 + r mod 64 in
  0xE0 <= s0 <= 0xEF /\ 0x80 <= s1 <= 0xBF /\ 0x80 <= s2 <= 0xBF /\
  (s0 = 0xE0 -> 0xA0 <= s1) /\ (s0 = 0xED -> (s1 <= 0x9F <-> r < 0xD800)) /\
  (s0 mod 16) * 4096 + (s1 mod 64) * 64 + s2 mod 64 = r.
Proof. intros H s0 s1 s2; subst s0 s1 s2.
  assert ((0xE0 + r / 4096) mod 16 = r / 4096) as -> by lia.
  assert ((0x80 + (r / 64) mod 64) mod 64 = (r / 64) mod 64) as -> by lia.
  assert ((0x80 + r mod 64) mod 64 = r mod 64) as -> by lia.
  repeat split; try lia. Qed.
Lemma enc4_arith r : 0xFFFF < r <= 0x10FFFF ->
  let s0 := 0xF0 + r / 262144 in let s1 := 0x80 + (r / 4096) mod 64 in
  let s2 := 0x80 + (r / 64) mod 64 in let s3 := 0x80 + r mod 64 in
  0xF0 <= s0 <= 0xF4 /\ 0x80 <= s1 <= 0xBF /\ 0x80 <= s2 <= 0xBF /\ 0x80 <= s3 <= 0xBF /\
  (s0 = 0xF0 -> 0x90 <= s1) /\ (s0 = 0xF4 -> s1 <= 0x8F) /\
  (s0 mod 8) * 262144 + (s1 mod 64) * 4096 + (s2 mod 64) * 64 + s3 mod 64 = r.
Proof. intros H s0 s1 s2 s3; subst s0 s1 s2 s3.
  assert ((0xF0 + r / 262144) mod 8 = r / 262144) as -> by lia.
  assert ((0x80 + (r / 4096) mod 64) mod 64 = (r / 4096) mod 64) as -> by lia.
  assert ((0x80 + (r / 64) mod 64) mod 64 = (r / 64) mod 64) as -> by lia.
  assert ((0x80 + r mod 64) mod 64 = r mod 64) as -> by lia.
  repeat split; try lia. Qed.

(** * String-level lemmas *)
Ltac cmp :=
  repeat match goal with
  | |- context [?a <=? ?b] => destruct (N.leb_spec a b); try lia
  | |- context [?a <? ?b] => destruct (N.ltb_spec a b); try lia
  | |- context [?a =? ?b] => destruct (N.eqb_spec a b); try lia
  end.

Lemma first_info_2 s0 : 0xC2 <= s0 <= 0xDF -> first_info s0 = Some (2%nat, 0x80, 0xBF).
Proof. intros; unfold first_info; cmp; auto. Qed.
Lemma first_info_3 s0 : 0xE0 <= s0 <= 0xEF ->
  first_info s0 = Some (3%nat, if s0 =? 0xE0 then 0xA0 else 0x80, if s0 =? 0xED then 0x9F else 0xBF).
Proof. intros; unfold first_info; cmp; auto. Qed.
Lemma first_info_4 s0 : 0xF0 <= s0 <= 0xF4 ->
  first_info s0 = Some (4%nat, if s0 =? 0xF0 then 0x90 else 0x80, if s0 =? 0xF4 then 0x8F else 0xBF).
Proof. intros; unfold first_info; cmp; auto. Qed.
Lemma first_info_some s0 x : first_info s0 = Some x ->
  0xC2 <= s0 <= 0xDF \/ 0xE0 <= s0 <= 0xEF \/ 0xF0 <= s0 <= 0xF4.
Proof. unfold first_info; cmp; try discriminate; lia. Qed.

(** A well-formed encoded rune at the head of a string: [rune_head s r sz t]
    = [s] starts with the [sz]-byte encoding of [r], followed by [t]. *)
Inductive rune_head : string -> N -> nat -> string -> Prop :=
| RH1 a t : bv a < 0x80 -> rune_head (String a t) (bv a) 1 t
| RH2 a a1 t : 0xC2 <= bv a <= 0xDF -> 0x80 <= bv a1 <= 0xBF ->
    rune_head (String a (String a1 t)) ((bv a mod 32) * 64 + bv a1 mod 64) 2 t
| RH3 a a1 a2 t : 0xE0 <= bv a <= 0xEF -> 0x80 <= bv a1 <= 0xBF -> 0x80 <= bv a2 <= 0xBF ->
    (bv a = 0xE0 -> 0xA0 <= bv a1) -> (bv a = 0xED -> bv a1 <= 0x9F) ->
    rune_head (String a (String a1 (String a2 t)))
      ((bv a mod 16) * 4096 + (bv a1 mod 64) * 64 + bv a2 mod 64) 3 t
| RH4 a a1 a2 a3 t : 0xF0 <= bv a <= 0xF4 -> 0x80 <= bv a1 <= 0xBF ->
    0x80 <= bv a2 <= 0xBF -> 0x80 <= bv a3 <= 0xBF ->
    (bv a = 0xF0 -> 0x90 <= bv a1) -> (bv a = 0xF4 -> bv a1 <= 0x8F) ->
    rune_head (String a (String a1 (String a2 (String a3 t))))
      ((bv a mod 8) * 262144 + (bv a1 mod 64) * 4096 + (bv a2 mod 64) * 64 + bv a3 mod 64) 4 t.

Lemma in_range_true lo hi x : in_range lo hi x = true <-> lo <= x <= hi.
Proof. unfold in_range. rewrite andb_true_iff, !N.leb_le. tauto. Qed.
Lemma in_range_false lo hi x : in_range lo hi x = false <-> ~ (lo <= x <= hi).
Proof. rewrite <- in_range_true. destruct (in_range lo hi x); intuition congruence. Qed.

Lemma rune_head_decode s r sz t : rune_head s r sz t -> decode_rune s = (r, sz) /\ sdrop sz s = t.
Proof.
  intros H; destruct H; unfold decode_rune; simpl sdrop; split; auto.
  - destruct (N.ltb_spec (bv a) 0x80); auto; lia.
  - destruct (N.ltb_spec (bv a) 0x80); [lia|]. rewrite first_info_2 by auto.
    replace (in_range 0x80 0xBF (bv a1)) with true by (symmetry; apply in_range_true; auto).
    reflexivity.
  - destruct (N.ltb_spec (bv a) 0x80); [lia|]. rewrite first_info_3 by auto.
    match goal with |- context [in_range ?l ?h ?x] => replace (in_range l h x) with true end.
    2:{ symmetry; apply in_range_true. cmp. }
    unfold is_cont.
    replace (in_range 0x80 0xBF (bv a2)) with true by (symmetry; apply in_range_true; auto).
    reflexivity.
  - destruct (N.ltb_spec (bv a) 0x80); [lia|]. rewrite first_info_4 by auto.
    match goal with |- context [in_range ?l ?h ?x] => replace (in_range l h x) with true end.
    2:{ symmetry; apply in_range_true. cmp. }
    unfold is_cont.
    replace (in_range 0x80 0xBF (bv a2)) with true by (symmetry; apply in_range_true; auto).
    replace (in_range 0x80 0xBF (bv a3)) with true by (symmetry; apply in_range_true; auto).
    reflexivity.
Qed.

Lemma decode_rune_inv s r sz : decode_rune s = (r, sz) -> is_bad (r, sz) = false ->
  s <> EmptyString -> exists t, rune_head s r sz t.
Proof.
  destruct s as [|a r1]; [congruence|]. intros H Hb _. unfold decode_rune in H.
  assert (Bad : (rune_error, 1%nat) = (r, sz) -> False).
  { intros E; inversion E; subst. discriminate Hb. }
  destruct (N.ltb_spec (bv a) 0x80).
  { inversion H; subst. eexists; constructor; auto. }
  destruct (first_info (bv a)) as [[[sz' lo] hi]|] eqn:F; [|destruct (Bad H)].
  destruct r1 as [|a1 r2]; [destruct (Bad H)|].
  destruct (in_range lo hi (bv a1)) eqn:R1; simpl negb in H; cbv iota in H; [|destruct (Bad H)].
  apply in_range_true in R1.
  destruct (first_info_some _ _ F) as [C|[C|C]].
  - rewrite first_info_2 in F by auto. inversion F; subst. simpl in H. inversion H; subst.
    eexists; constructor; auto.
  - rewrite first_info_3 in F by auto. inversion F; subst. simpl Nat.eqb in H; cbv iota in H.
    destruct r2 as [|a2 r3]; [destruct (Bad H)|].
    unfold is_cont in H.
    destruct (in_range 0x80 0xBF (bv a2)) eqn:R2; simpl negb in H; cbv iota in H; [|destruct (Bad H)].
    apply in_range_true in R2. inversion H; subst.
    eexists; constructor; auto.
    + revert R1; cmp.
    + intros E; rewrite E in R1; simpl in R1; lia.
    + intros E; rewrite E in R1; simpl in R1; lia.
  - rewrite first_info_4 in F by auto. inversion F; subst. simpl Nat.eqb in H; cbv iota in H.
    destruct r2 as [|a2 r3]; [destruct (Bad H)|].
    unfold is_cont in H.
    destruct (in_range 0x80 0xBF (bv a2)) eqn:R2; simpl negb in H; cbv iota in H; [|destruct (Bad H)].
    destruct r3 as [|a3 r4]; [destruct (Bad H)|].
    destruct (in_range 0x80 0xBF (bv a3)) eqn:R3; simpl negb in H; cbv iota in H; [|destruct (Bad H)].
    apply in_range_true in R2. apply in_range_true in R3. inversion H; subst.
    eexists; constructor; auto.
    + revert R1; cmp.
    + intros E; rewrite E in R1; simpl in R1; lia.
    + intros E; rewrite E in R1; simpl in R1; lia.
Qed.

Lemma rune_head_encode s r sz t : rune_head s r sz t ->
  is_scalar r = true /\ s = (encode_rune r ++ t)%string /\ sz = String.length (encode_rune r).
Proof.
  intros H; destruct H.
  - unfold is_scalar, encode_rune. cmp. cbn [bytes append String.length]. rewrite ch_bv. auto.
  - destruct (dec2_arith _ _ H H0) as (Hr & E0 & E1).
    set (r := _ + _) in *. clearbody r.
    unfold is_scalar, encode_rune. cmp. cbn [bytes append String.length]. rewrite E0, E1, !ch_bv. auto.
  - destruct (dec3_arith _ _ _ H H0 H1 H2 H3) as (Hr & E0 & E1 & E2).
    set (r := _ + _) in *. clearbody r.
    unfold is_scalar, encode_rune. cmp; cbn [bytes append String.length]; rewrite E0, E1, E2, !ch_bv; auto.
  - destruct (dec4_arith _ _ _ _ H H0 H1 H2 H3 H4) as (Hr & E0 & E1 & E2 & E3).
    set (r := _ + _) in *. clearbody r.
    unfold is_scalar, encode_rune. cmp; cbn [bytes append String.length]; rewrite E0, E1, E2, E3, !ch_bv; auto.
Qed.

Lemma is_scalar_spec r : is_scalar r = true <-> r < 0xD800 \/ 0xDFFF < r <= 0x10FFFF.
Proof. unfold is_scalar. cmp; simpl; intuition (try discriminate; try lia). Qed.

Lemma encode_head r t : is_scalar r = true ->
  rune_head (encode_rune r ++ t) r (String.length (encode_rune r)) t.
Proof.
  rewrite is_scalar_spec. intros Hs. unfold encode_rune.
  destruct (N.leb_spec r 0x7F).
  { cbn [bytes append String.length]. rewrite <- (bv_ch r) at 2 by lia. constructor. rewrite bv_ch; lia. }
  destruct (N.leb_spec r 0x7FF).
  { destruct (enc2_arith r) as (A & B & C); [lia|]. cbn [bytes append String.length].
    rewrite <- C at 3. 
    rewrite <- (bv_ch (0xC0 + r / 64)) at 2 by lia.
    rewrite <- (bv_ch (0x80 + r mod 64)) at 2 by lia.
    constructor; rewrite bv_ch; lia. }
  destruct ((r <? 0xD800) || ((0xDFFF <? r) && (r <=? 0xFFFF))) eqn:E3.
  { assert (r <= 0xFFFF) by (revert E3; cmp; simpl; try discriminate; lia).
    destruct (enc3_arith r) as (A & B & C & D & E & F); [lia|]. cbn [bytes append String.length].
    rewrite <- F at 4.
    rewrite <- (bv_ch (0xE0 + r / 4096)) at 2 by lia.
    rewrite <- (bv_ch (0x80 + (r / 64) mod 64)) at 2 by lia.
    rewrite <- (bv_ch (0x80 + r mod 64)) at 2 by lia.
    constructor; rewrite ?bv_ch; try lia. }
  assert (0xFFFF < r <= 0x10FFFF) by (revert E3; cmp; simpl; try discriminate; lia).
  replace ((0xFFFF <? r) && (r <=? 0x10FFFF)) with true by (cmp; auto).
  destruct (enc4_arith r) as (A & B & C & D & E & F & G); [lia|]. cbn [bytes append String.length].
  rewrite <- G at 5.
  rewrite <- (bv_ch (0xF0 + r / 262144)) at 2 by lia.
  rewrite <- (bv_ch (0x80 + (r / 4096) mod 64)) at 2 by lia.
  rewrite <- (bv_ch (0x80 + (r / 64) mod 64)) at 2 by lia.
  rewrite <- (bv_ch (0x80 + r mod 64)) at 2 by lia.
  constructor; rewrite ?bv_ch; try lia.
Qed.

Lemma rune_head_shape s r sz t : rune_head s r sz t ->
  exists a s', s = String a s' /\ (bv a <? 0x80) = (r <? 0x80) /\
    (r < 0x80 -> r = bv a /\ t = s' /\ sz = 1%nat) /\ (0x80 <= r -> sz <> 1%nat /\ 0xC2 <= bv a).
Proof.
  intros H; destruct H.
  - exists a, t. repeat split; auto; lia.
  - destruct (dec2_arith _ _ H H0) as (Hr & _). set (r := _ + _) in *. clearbody r.
    exists a, (String a1 t). split; auto. split; [cmp; auto|]. split; [lia|]. intros; split; [congruence|lia].
  - destruct (dec3_arith _ _ _ H H0 H1 H2 H3) as (Hr & _). set (r := _ + _) in *. clearbody r.
    eexists _, _. split; eauto. split; [cmp; auto|]. split; [lia|]. intros; split; [congruence|lia].
  - destruct (dec4_arith _ _ _ _ H H0 H1 H2 H3 H4) as (Hr & _). set (r := _ + _) in *. clearbody r.
    eexists _, _. split; eauto. split; [cmp; auto|]. split; [lia|]. intros; split; [congruence|lia].
Qed.

Lemma rune_head_not_bad s r sz t : rune_head s r sz t -> is_bad (r, sz) = false.
Proof.
  intros H. destruct (rune_head_shape _ _ _ _ H) as (a & s' & _ & _ & Hlt & Hge).
  unfold is_bad, rune_error; cbn [fst snd].
  destruct (N.eqb_spec r 0xFFFD); auto. destruct Hge as [Hne _]; [lia|].
  destruct (Nat.eqb_spec sz 1); auto. contradiction.
Qed.

Lemma rune_head_length s r sz t : rune_head s r sz t ->
  String.length s = (sz + String.length t)%nat /\ (1 <= sz)%nat.
Proof. intros H; destruct H; simpl; lia. Qed.

Lemma is_bad_high a r1 : is_bad (decode_rune (String a r1)) = true -> 0x80 <= bv a.
Proof.
  unfold decode_rune. destruct (N.ltb_spec (bv a) 0x80); auto.
  unfold is_bad, rune_error; cbn [fst snd]. destruct (N.eqb_spec (bv a) 0xFFFD); [lia|discriminate].
Qed.

(** [ValidString] is "no (RuneError,1) from DecodeRune" *)
Lemma valid_utf8_unfold a r1 :
  valid_utf8 (String a r1) =
  let d := decode_rune (String a r1) in
  if is_bad d then false else valid_utf8 (sdrop (snd d) (String a r1)).
Proof.
  cbn [valid_utf8]. unfold decode_rune.
  destruct (N.ltb_spec (bv a) 0x80).
  { cbv zeta. unfold is_bad, rune_error; cbn [fst snd sdrop].
    destruct (N.eqb_spec (bv a) 0xFFFD); [lia|reflexivity]. }
  destruct (first_info (bv a)) as [[[sz lo] hi]|]; [|reflexivity].
  destruct r1 as [|a1 r2]; [reflexivity|].
  destruct (in_range lo hi (bv a1)); cbn [negb]; [|reflexivity].
  destruct (sz =? 2)%nat.
  { cbv zeta. unfold is_bad; cbn [fst snd sdrop]. rewrite andb_false_r. reflexivity. }
  destruct r2 as [|a2 r3]; [reflexivity|].
  destruct (is_cont (bv a2)); cbn [negb]; [|reflexivity].
  destruct (sz =? 3)%nat.
  { cbv zeta. unfold is_bad; cbn [fst snd sdrop]. rewrite andb_false_r. reflexivity. }
  destruct r3 as [|a3 r4]; [reflexivity|].
  destruct (is_cont (bv a3)); cbn [negb]; [|reflexivity].
  cbv zeta. unfold is_bad; cbn [fst snd sdrop]. rewrite andb_false_r. reflexivity.
Qed.

Lemma valid_utf8_head s r sz t : rune_head s r sz t -> valid_utf8 s = valid_utf8 t.
Proof.
  intros H. destruct (rune_head_decode _ _ _ _ H) as [D E].
  pose proof (rune_head_not_bad _ _ _ _ H) as B.
  destruct (rune_head_shape _ _ _ _ H) as (a & s' & -> & _).
  rewrite valid_utf8_unfold. cbv zeta. rewrite D, B. cbn [snd]. rewrite E. reflexivity.
Qed.

Lemma valid_utf8_inv s : valid_utf8 s = true -> s <> EmptyString ->
  exists r sz t, rune_head s r sz t /\ valid_utf8 t = true.
Proof.
  destruct s as [|a r1]; [congruence|]. intros V _.
  rewrite valid_utf8_unfold in V. cbv zeta in V.
  destruct (decode_rune (String a r1)) as [r sz] eqn:D.
  destruct (is_bad (r, sz)) eqn:B; [discriminate|].
  destruct (decode_rune_inv _ _ _ D B) as [t Ht]; [congruence|].
  exists r, sz, t. split; auto.
  destruct (rune_head_decode _ _ _ _ Ht) as [_ <-]. exact V.
Qed.

Lemma valid_utf8_encode_app r t : is_scalar r = true ->
  valid_utf8 (encode_rune r ++ t) = valid_utf8 t.
Proof. intros Hs. eapply valid_utf8_head, encode_head, Hs. Qed.

(** Induction over the runes of a valid string. *)
Lemma valid_utf8_ind (P : string -> Prop) :
  P EmptyString ->
  (forall r t, is_scalar r = true -> valid_utf8 t = true -> P t -> P (encode_rune r ++ t)%string) ->
  forall s, valid_utf8 s = true -> P s.
Proof.
  intros P0 PS s. remember (String.length s) as n eqn:Hn.
  revert s Hn. induction n as [n IH] using lt_wf_ind. intros s Hn V.
  destruct s as [|a r1]; [exact P0|].
  destruct (valid_utf8_inv _ V) as (r & sz & t & H & Vt); [congruence|].
  destruct (rune_head_encode _ _ _ _ H) as (Hs & E & _).
  destruct (rune_head_length _ _ _ _ H) as [L1 L2].
  rewrite E. apply PS; auto. eapply IH; [|reflexivity|exact Vt]. lia.
Qed.

Lemma valid_utf8_app a b : valid_utf8 a = true -> valid_utf8 (a ++ b) = valid_utf8 b.
Proof.
  intros V. revert a V. apply (valid_utf8_ind (fun a => valid_utf8 (a ++ b) = valid_utf8 b)); auto.
  intros r t Hs _ IH. rewrite app_assoc_s, valid_utf8_encode_app; auto.
Qed.

Lemma valid_utf8_encode_rune r : valid_utf8 (encode_rune r) = true.
Proof.
  destruct (is_scalar r) eqn:Hs.
  - rewrite <- (app_nil_r_s (encode_rune r)), valid_utf8_encode_app; auto.
  - assert (encode_rune r = encode_rune 0xFFFD) as ->; [|reflexivity].
    unfold is_scalar in Hs. unfold encode_rune at 1. revert Hs. cmp; simpl; try discriminate; reflexivity.
Qed.

(** DecodeRune after AppendRune *)
Lemma decode_rune_encode r t : is_scalar r = true ->
  decode_rune (encode_rune r ++ t) = (r, String.length (encode_rune r)) /\
  sdrop (String.length (encode_rune r)) (encode_rune r ++ t) = t.
Proof. intros Hs. apply rune_head_decode, encode_head, Hs. Qed.

(** What DecodeRune accepts is exactly an AppendRune output *)
Lemma decode_rune_ok s r sz : decode_rune s = (r, sz) -> is_bad (r, sz) = false -> s <> EmptyString ->
  is_scalar r = true /\ s = (encode_rune r ++ sdrop sz s)%string /\ sz = String.length (encode_rune r).
Proof.
  intros D B N. destruct (decode_rune_inv _ _ _ D B N) as [t H].
  destruct (rune_head_decode _ _ _ _ H) as [_ <-]. apply rune_head_encode, H.
Qed.

(** * Examples *)
Example valid_ex1 : valid_utf8 (bytes [104; 195; 169; 228; 184; 150; 240; 159; 152; 128; 244; 143; 191; 191]) = true.
Proof. vm_compute. reflexivity. Qed.
Example invalid_exs :
  map valid_utf8 [bytes [128]; bytes [192; 128]; bytes [224; 159; 191]; bytes [237; 160; 128];
                  bytes [244; 144; 128; 128]; bytes [226; 128]; bytes [240; 159; 152]; bytes [255]]
  = [false; false; false; false; false; false; false; false].
Proof. vm_compute. reflexivity. Qed.
Example decode_ex : map decode_rune [bytes [226; 128; 168; 65]; bytes [226; 128]; bytes [65]; bytes []; bytes [239; 191; 189]]
  = [(0x2028, 3%nat); (0xFFFD, 1%nat); (65, 1%nat); (0xFFFD, 0%nat); (0xFFFD, 3%nat)].
Proof. vm_compute. reflexivity. Qed.
Example encode_ex : map encode_rune [0x41; 0xE9; 0x2028; 0x1F600; 0xD800; 0x110000]
  = [bytes [65]; bytes [195; 169]; bytes [226; 128; 168]; bytes [240; 159; 152; 128]; bytes [239; 191; 189]; bytes [239; 191; 189]].
Proof. vm_compute. reflexivity. Qed.

Print Assumptions decode_rune_encode.
Print Assumptions decode_rune_ok.
Print Assumptions valid_utf8_unfold.
Print Assumptions valid_utf8_ind.
Print Assumptions valid_utf8_app.
Print Assumptions valid_utf8_encode_rune.
