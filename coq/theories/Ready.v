(** Ready.v — graph.go:506-681: readiness, blockedness, epic completeness,
    the claim order, and cycle detection (executable definitions). *)
From Ergo Require Import Base Text Events Replay.
Local Open Scope string_scope.
Local Open Scope list_scope.

Definition done_or_canceled (st : string) : bool :=
  (String.eqb st "done" || String.eqb st "canceled")%bool.

(** The keys of [graph.Deps[i]] in some order (order is irrelevant to every user below). *)
Definition dep_ids (g : graph) (i : string) : list string :=
  snd <$> filter (λ p, p.1 = i) (elements (g_deps g)).

Definition all_tasks (g : graph) : list task := snd <$> map_to_list (g_tasks g).

Definition is_epic_complete (g : graph) (e : string) : bool :=
  forallb (λ t, if String.eqb (t_epic t) e then done_or_canceled (t_state t) else true) (all_tasks g).

Definition epic_deps_complete (g : graph) (e : string) : bool :=
  forallb (λ d, match g_tasks g !! d with
                | None => true
                | Some de => if t_is_epic de then is_epic_complete g d else true
                end) (dep_ids g e).

Definition deps_satisfied (g : graph) (i : string) : bool :=
  forallb (λ d, match g_tasks g !! d with
                | None => true
                | Some o => done_or_canceled (t_state o)
                end) (dep_ids g i).

Definition is_ready (g : graph) (t : task) : bool :=
  (String.eqb (t_state t) "todo" && String.eqb (t_claimed t) "" && deps_satisfied g (t_id t)
   && (if String.eqb (t_epic t) "" then true else epic_deps_complete g (t_epic t)))%bool.

Definition is_blocked (g : graph) (t : task) : bool :=
  if String.eqb (t_state t) "blocked" then true else
  if negb (String.eqb (t_state t) "todo" && String.eqb (t_claimed t) "")%bool then false else
  if negb (deps_satisfied g (t_id t)) then true else
  if String.eqb (t_epic t) "" then false else negb (epic_deps_complete g (t_epic t)).

(** Claim order: (created_at, id) ascending (graph.go:515-520). *)
Definition claim_le (a b : task) : Prop :=
  if Z.eqb (t_created a) (t_created b) then str_le (t_id a) (t_id b)
  else (t_created a < t_created b)%Z.
Global Instance claim_le_dec a b : Decision (claim_le a b).
Proof. unfold claim_le. destruct (Z.eqb _ _); apply _. Defined.

Definition ready_tasks (g : graph) (epic : string) : list task :=
  merge_sort claim_le
    (filter (λ t, (epic = "" ∨ t_epic t = epic) ∧ t_is_epic t = false ∧ is_ready g t = true)
            (all_tasks g)).

(** hasCycle(graph, from, to): is [from] reachable from [to] along deps (or from = to).
    Fuelled frontier search; fuel = number of edges + 1 is always enough (Graphs.v). *)
Fixpoint reach_fuel (n : nat) (g : graph) (frontier : list string) (seen : list string) (target : string) : bool :=
  match n with
  | O => mem_str target frontier
  | S n' =>
      if mem_str target frontier then true else
      let seen' := frontier ++ seen in
      let next := filter (λ d, mem_str d seen' = false) (concat (dep_ids g <$> frontier)) in
      match next with
      | [] => false
      | _ => reach_fuel n' g next seen' target
      end
  end.
Definition has_cycle (g : graph) (from to : string) : bool :=
  if String.eqb from to then true
  else reach_fuel (S (size (g_deps g))) g [to] [] from.
