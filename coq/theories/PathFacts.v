(** PathFacts.v — facts about the model of Unix [filepath.Clean] in Path.v and
    about the lexical part of validateResultPath (property C20). *)
From Ergo Require Import Base Text Path.
From Coq Require Import Ascii String List.
Local Open Scope string_scope.
Local Open Scope list_scope.

(** * Strings *)
(* std++ marks [String.append] as [simpl never]; undo that locally. *)
Local Arguments String.append !_ _ / : simpl nomatch.
Lemma sapp_nil_r s : s +:+ "" = s.
Proof. induction s; cbn; congruence. Qed.
Lemma sapp_assoc a b c : (a +:+ b) +:+ c = a +:+ (b +:+ c).
Proof. induction a; cbn; congruence. Qed.
Lemma rev_app_spec s acc : rev_app s acc = rev_str s +:+ acc.
Proof.
  unfold rev_str. revert acc. induction s as [|a r IH]; intros acc; cbn; [reflexivity|].
  rewrite IH, (IH (String a "")), sapp_assoc. reflexivity.
Qed.
Lemma rev_str_cons a s : rev_str (String a s) = rev_str s +:+ String a "".
Proof. unfold rev_str at 1. cbn. apply rev_app_spec. Qed.

Fixpoint has_slash (s : string) : bool :=
  match s with EmptyString => false | String a r => (Ascii.eqb a slash || has_slash r)%bool end.
Notation noslash c := (has_slash c = false).

(** * Splitting and joining on '/' *)
(** A structurally recursive description of [split_slash] (= strings.Split(s, "/")). *)
Fixpoint splits (s : string) : list string :=
  match s with
  | EmptyString => [EmptyString]
  | String a r => if Ascii.eqb a slash then EmptyString :: splits r
                  else match splits r with x :: xs => String a x :: xs | [] => [String a EmptyString] end
  end.

Lemma splits_ne s : splits s <> [].
Proof. destruct s as [|a r]; cbn; [discriminate|]. destruct (Ascii.eqb a slash); [discriminate|]. destruct (splits r); discriminate. Qed.

Definition prepend (pre : string) (l : list string) : list string :=
  match l with x :: xs => (pre +:+ x) :: xs | [] => [pre] end.

Lemma split_slash_aux_spec s cur : split_slash_aux s cur = prepend (rev_str cur) (splits s).
Proof.
  revert cur. induction s as [|a r IH]; intros cur; cbn.
  - rewrite sapp_nil_r. reflexivity.
  - destruct (Ascii.eqb a slash); cbn.
    + rewrite sapp_nil_r, IH. cbn. destruct (splits r) eqn:E; [destruct (splits_ne _ E)|]. reflexivity.
    + rewrite IH, rev_str_cons. destruct (splits r) eqn:E; [destruct (splits_ne _ E)|]. cbn.
      rewrite sapp_assoc. reflexivity.
Qed.
Lemma split_slash_splits s : split_slash s = splits s.
Proof.
  unfold split_slash. rewrite split_slash_aux_spec. cbn.
  destruct (splits s) eqn:E; [destruct (splits_ne _ E)|]. reflexivity.
Qed.

Lemma join_splits s : join_slash (splits s) = s.
Proof.
  induction s as [|a r IH]; cbn; [reflexivity|].
  destruct (Ascii.eqb a slash) eqn:Ea.
  - apply Ascii.eqb_eq in Ea. subst a. cbn. destruct (splits r) eqn:E; [destruct (splits_ne _ E)|].
    rewrite IH. reflexivity.
  - destruct (splits r) as [|x xs] eqn:E; [destruct (splits_ne _ E)|].
    cbn in *. destruct xs; cbn in *; congruence.
Qed.

Lemma splits_noslash s : Forall (fun c => noslash c) (splits s).
Proof.
  induction s as [|a r IH]; cbn; [repeat constructor|].
  destruct (Ascii.eqb a slash) eqn:Ea; [constructor; [reflexivity|exact IH]|].
  destruct (splits r) as [|x xs]; [repeat constructor; cbn; rewrite Ea; reflexivity|].
  inversion IH; subst. constructor; [cbn; rewrite Ea; assumption|assumption].
Qed.

Lemma splits_app_slash a b : splits (a +:+ String slash b) = splits a ++ splits b.
Proof.
  induction a as [|c a IH]; cbn; [reflexivity|].
  destruct (Ascii.eqb c slash); [rewrite IH; reflexivity|].
  rewrite IH. destruct (splits a) eqn:E; [destruct (splits_ne _ E)|]. reflexivity.
Qed.

Lemma splits_single c : noslash c -> splits c = [c].
Proof.
  induction c as [|a r IH]; cbn; [reflexivity|]. intros H.
  apply orb_false_iff in H as [Ha Hr]. rewrite Ha, (IH Hr). reflexivity.
Qed.

Lemma splits_join l : l <> [] -> Forall (fun c => noslash c) l -> splits (join_slash l) = l.
Proof.
  induction l as [|x l IH]; [congruence|]. intros _ H. inversion H; subst.
  destruct l as [|y l]; [cbn; apply splits_single; assumption|].
  change (join_slash (x :: y :: l)) with (x +:+ String slash (join_slash (y :: l))).
  rewrite splits_app_slash, splits_single, IH by (assumption || discriminate). reflexivity.
Qed.

Lemma join_slash_cons x y l : join_slash (x :: y :: l) = x +:+ String slash (join_slash (y :: l)).
Proof. reflexivity. Qed.

Lemma join_slash_app l1 l2 : l1 <> [] -> l2 <> [] ->
  join_slash (l1 ++ l2) = join_slash l1 +:+ String slash (join_slash l2).
Proof.
  induction l1 as [|x l1 IH]; [congruence|]. intros _ H2.
  destruct l1 as [|y l1].
  - destruct l2; [congruence|]. reflexivity.
  - change ((x :: y :: l1) ++ l2) with (x :: y :: (l1 ++ l2)).
    rewrite !join_slash_cons. change (y :: l1 ++ l2) with ((y :: l1) ++ l2).
    rewrite IH, sapp_assoc by (discriminate || assumption). reflexivity.
Qed.

Lemma join_slash_empty l : join_slash l = "" -> l = [] \/ l = [""].
Proof.
  destruct l as [|x l]; [auto|]. destruct l; cbn.
  - intros ->. auto.
  - destruct x; cbn; discriminate.
Qed.

Lemma is_abs_join x l : x <> "" -> is_abs (join_slash (x :: l)) = is_abs x.
Proof. destruct x; [congruence|]. destruct l; reflexivity. Qed.

(** * Components *)
(** The non-empty components of a path. *)
Definition nonempty (c : string) : bool := negb (c =?s "").
Definition comps (p : string) : list string := List.filter nonempty (split_slash p).

(** A normal component: not empty, not ".", not "..", no slash. *)
Definition nc (c : string) : Prop := c <> "" /\ c <> "." /\ c <> ".." /\ noslash c.
Definition ncb (c : string) : bool :=
  (negb (c =?s "") && negb (c =?s ".") && negb (c =?s "..") && negb (has_slash c))%bool.
Lemma ncb_nc c : ncb c = true <-> nc c.
Proof.
  unfold ncb, nc. rewrite !andb_true_iff, !negb_true_iff, !str_eqb_neq. tauto.
Qed.

Lemma filter_nonempty_id l : Forall (fun c => c <> "") l -> List.filter nonempty l = l.
Proof.
  induction 1 as [|x l Hx _ IH]; [reflexivity|]. cbn. unfold nonempty at 1.
  apply str_eqb_neq in Hx. rewrite Hx. cbn. congruence.
Qed.

Lemma Forall_nc_noslash l : Forall nc l -> Forall (fun c => noslash c) l.
Proof. apply Forall_impl. intros c H. apply H. Qed.
Lemma Forall_nc_nonempty l : Forall nc l -> Forall (fun c => c <> "") l.
Proof. apply Forall_impl. intros c H. apply H. Qed.
Lemma nc_not_dotdot l : Forall nc l -> ~ In ".." l.
Proof. intros H Hin. rewrite Forall_forall in H. apply H in Hin. destruct Hin as (_ & _ & E & _). congruence. Qed.
Lemma nc_not_dot l : Forall nc l -> ~ In "." l.
Proof. intros H Hin. rewrite Forall_forall in H. apply H in Hin. destruct Hin as (_ & E & _). congruence. Qed.

Lemma repeat_dd_noslash k : Forall (fun c => noslash c) (repeat ".." k).
Proof. induction k; cbn; constructor; auto. Qed.
Lemma repeat_dd_nonempty k : Forall (fun c => c <> "") (repeat ".." k).
Proof. induction k; cbn; constructor; auto; discriminate. Qed.

(** * Lexical resolution (stack semantics of a component sequence) *)
Definition skipc (c : string) : bool := ((c =?s "") || (c =?s "."))%bool.
(** [walkr acc cs]: walk [cs] starting from the directory whose components,
    innermost first, are [acc]; ".." at the root stays at the root. *)
Fixpoint walkr (acc : list string) (cs : list string) : list string :=
  match cs with
  | [] => acc
  | c :: r => if skipc c then walkr acc r
              else if c =?s ".." then walkr (tl acc) r
              else walkr (c :: acc) r
  end.
Definition walk (root : list string) (cs : list string) : list string := rev (walkr (rev root) cs).

Lemma walkr_app acc a b : walkr acc (a ++ b) = walkr (walkr acc a) b.
Proof.
  revert acc. induction a as [|c a IH]; intros acc; cbn; [reflexivity|].
  destruct (skipc c); [apply IH|]. destruct (c =?s ".."); apply IH.
Qed.
Lemma walk_app root a b : walk root (a ++ b) = walk (walk root a) b.
Proof. unfold walk. rewrite walkr_app, rev_involutive. reflexivity. Qed.

Lemma walkr_nc acc cs : Forall nc cs -> walkr acc cs = rev cs ++ acc.
Proof.
  revert acc. induction cs as [|c cs IH]; intros acc H; cbn; [reflexivity|].
  inversion H as [|? ? (H1 & H2 & H3 & _) Hr]; subst.
  unfold skipc. apply str_eqb_neq in H1, H2, H3. rewrite H1, H2, H3. cbn.
  rewrite IH, <- app_assoc by assumption. reflexivity.
Qed.
Lemma walk_nc root cs : Forall nc cs -> walk root cs = root ++ cs.
Proof. intros H. unfold walk. rewrite walkr_nc, rev_app_distr, !rev_involutive by assumption. reflexivity. Qed.

Lemma walkr_Forall_nc acc cs :
  Forall (fun c => noslash c) cs -> Forall nc acc -> Forall nc (walkr acc cs).
Proof.
  revert acc. induction cs as [|c cs IH]; intros acc Hs Ha; cbn; [assumption|].
  inversion Hs; subst. unfold skipc.
  destruct (c =?s "") eqn:E1; [apply IH; assumption|].
  destruct (c =?s ".") eqn:E2; [apply IH; assumption|]. cbn.
  destruct (c =?s "..") eqn:E3.
  - apply IH; [assumption|]. destruct acc; [constructor|]. inversion Ha; assumption.
  - apply IH; [assumption|]. constructor; [|assumption].
    apply str_eqb_neq in E1, E2, E3. repeat split; assumption.
Qed.

(** * [clean_comps] *)
Definition render (rooted : bool) (l : list string) : string :=
  let out := join_slash l in
  if rooted then String slash out else match out with EmptyString => "." | _ => out end.

Lemma clean_unfold p : p <> "" ->
  clean p = render (is_abs p) (clean_comps (is_abs p) (splits p) []).
Proof. intros H. destruct p; [congruence|]. unfold clean, render. rewrite split_slash_splits. reflexivity. Qed.

(** Rooted: [clean_comps] is exactly the stack walk. *)
Lemma clean_comps_rooted cs acc :
  Forall (fun c => c <> "..") acc -> clean_comps true cs acc = rev (walkr acc cs).
Proof.
  revert acc. induction cs as [|c cs IH]; intros acc Ha; cbn; [reflexivity|].
  unfold skipc. destruct ((c =?s "") || (c =?s "."))%bool; [apply IH; assumption|].
  destruct (c =?s "..") eqn:E.
  - destruct acc as [|top acc']; [apply IH; assumption|].
    inversion Ha as [|? ? Ht Hr]; subst. apply str_eqb_neq in Ht. rewrite Ht. apply IH; assumption.
  - apply IH. constructor; [apply str_eqb_neq; assumption|assumption].
Qed.

(** Not rooted: the stack is kept in the shape  normal components over a run of "..". *)
Lemma clean_comps_rel cs : forall ns k,
  Forall (fun c => noslash c) cs -> Forall nc ns ->
  exists k' ns', clean_comps false cs (ns ++ repeat ".." k) = repeat ".." k' ++ ns' /\ Forall nc ns'.
Proof.
  induction cs as [|c cs IH]; intros ns k Hs Hn.
  - exists k, (rev ns). cbn. rewrite rev_app_distr. split.
    + f_equal. clear. induction k; cbn; [reflexivity|]. rewrite IHk. clear.
      induction k; cbn; congruence.
    + apply Forall_rev. assumption.
  - inversion Hs; subst. cbn.
    destruct (c =?s "") eqn:E1; [apply IH; assumption|].
    destruct (c =?s ".") eqn:E2; [apply IH; assumption|]. cbn.
    destruct (c =?s "..") eqn:E3.
    + apply str_eqb_eq in E3. subst c.
      destruct ns as [|n ns'].
      * cbn. destruct k as [|k]; cbn.
        -- apply (IH [] 1%nat); [assumption|constructor].
        -- apply (IH [] (S (S k))); [assumption|constructor].
      * cbn. inversion Hn as [|? ? (_ & _ & Hdd & _) Hn']; subst.
        apply str_eqb_neq in Hdd. rewrite Hdd. apply IH; assumption.
    + apply (IH (c :: ns) k); [assumption|]. constructor; [|assumption].
      apply str_eqb_neq in E1, E2, E3. repeat split; assumption.
Qed.

(** * The shape of cleaned paths *)
Inductive clean_form : string -> Prop :=
| CF_dot : clean_form "."
| CF_abs ns : Forall nc ns -> clean_form (String slash (join_slash ns))
| CF_rel k ns : Forall nc ns -> (0 < k + length ns)%nat -> clean_form (join_slash (repeat ".." k ++ ns)).

Lemma clean_abs_walk p : is_abs p = true ->
  clean p = String slash (join_slash (walk [] (splits p))).
Proof.
  intros Ha. rewrite clean_unfold by (destruct p; [discriminate|congruence]).
  rewrite Ha. unfold render, walk. rewrite clean_comps_rooted by constructor. reflexivity.
Qed.

Lemma walk_root_nc p : Forall nc (walk [] (splits p)).
Proof. unfold walk. apply Forall_rev, walkr_Forall_nc; [apply splits_noslash|constructor]. Qed.

Theorem clean_form_clean p : clean_form (clean p).
Proof.
  destruct (string_dec p "") as [->|Hp]; [apply CF_dot|].
  destruct (is_abs p) eqn:Ha.
  - rewrite clean_abs_walk by assumption. apply CF_abs, walk_root_nc.
  - rewrite clean_unfold, Ha by assumption.
    destruct (clean_comps_rel (splits p) [] 0 (splits_noslash p) (Forall_nil _)) as (k & ns & E & Hn).
    cbn in E. rewrite E. unfold render.
    destruct (join_slash (repeat ".." k ++ ns)) eqn:Ej; [apply CF_dot|]. rewrite <- Ej.
    apply CF_rel; [assumption|].
    destruct k; [|cbn; lia]. destruct ns; [discriminate|cbn; lia].
Qed.

(** What [split_slash]/[comps] see of each shape. *)
Lemma rel_list_props k ns : Forall nc ns ->
  Forall (fun c => noslash c) (repeat ".." k ++ ns) /\ Forall (fun c => c <> "") (repeat ".." k ++ ns).
Proof.
  intros H. split; apply Forall_app; split;
    auto using repeat_dd_noslash, repeat_dd_nonempty, Forall_nc_noslash, Forall_nc_nonempty.
Qed.

Lemma split_rel k ns : Forall nc ns -> (0 < k + length ns)%nat ->
  split_slash (join_slash (repeat ".." k ++ ns)) = repeat ".." k ++ ns.
Proof.
  intros H Hl. rewrite split_slash_splits. apply splits_join; [|apply rel_list_props; assumption].
  destruct k; [|discriminate]. destruct ns; [cbn in Hl; lia|discriminate].
Qed.
Lemma comps_rel k ns : Forall nc ns -> (0 < k + length ns)%nat ->
  comps (join_slash (repeat ".." k ++ ns)) = repeat ".." k ++ ns.
Proof. intros H Hl. unfold comps. rewrite split_rel by assumption. apply filter_nonempty_id, rel_list_props; assumption. Qed.

Lemma split_abs ns : Forall nc ns ->
  split_slash (String slash (join_slash ns)) = "" :: (match ns with [] => [""] | _ => ns end).
Proof.
  intros H. rewrite split_slash_splits. cbn. f_equal.
  destruct ns; [reflexivity|]. apply splits_join; [discriminate|apply Forall_nc_noslash; assumption].
Qed.
Lemma comps_abs ns : Forall nc ns -> comps (String slash (join_slash ns)) = ns.
Proof.
  intros H. unfold comps. rewrite split_abs by assumption. cbn.
  destruct ns; [reflexivity|]. apply filter_nonempty_id, Forall_nc_nonempty; assumption.
Qed.

Lemma rel_nonempty k ns : Forall nc ns -> (0 < k + length ns)%nat ->
  join_slash (repeat ".." k ++ ns) <> "" /\ is_abs (join_slash (repeat ".." k ++ ns)) = false.
Proof.
  intros H Hl. destruct k as [|k].
  - destruct ns as [|n ns]; [cbn in Hl; lia|]. cbn [repeat app].
    inversion H as [|? ? (Hn & _ & _ & Hs) _]; subst. split.
    + intros E. apply join_slash_empty in E as [E|E]; [discriminate|]. congruence.
    + rewrite is_abs_join by assumption. destruct n; [congruence|]. cbn in *.
      apply orb_false_iff in Hs. apply Hs.
  - cbn [repeat app]. split.
    + intros E. apply join_slash_empty in E as [E|E]; discriminate.
    + rewrite is_abs_join by discriminate. reflexivity.
Qed.

Lemma clean_comps_nc rooted ns acc : Forall nc ns -> clean_comps rooted ns acc = rev acc ++ ns.
Proof.
  revert acc. induction ns as [|c ns IH]; intros acc H; cbn; [rewrite app_nil_r; reflexivity|].
  inversion H as [|? ? (H1 & H2 & H3 & _) Hr]; subst.
  apply str_eqb_neq in H1, H2, H3. rewrite H1, H2, H3. cbn. rewrite IH by assumption. cbn.
  rewrite <- app_assoc. reflexivity.
Qed.
Lemma clean_comps_dd k : forall j rest,
  clean_comps false (repeat ".." k ++ rest) (repeat ".." j) = clean_comps false rest (repeat ".." (k + j)).
Proof.
  induction k as [|k IH]; intros j rest; [reflexivity|]. cbn [repeat app clean_comps].
  change (".." =?s "") with false. change (".." =?s ".") with false. change (".." =?s "..") with true. cbn [orb].
  destruct j as [|j].
  - cbn [repeat]. rewrite (IH 1%nat). f_equal. f_equal. lia.
  - cbn [repeat]. change (".." =?s "..") with true. cbn iota.
    rewrite (IH (S (S j))). f_equal. f_equal. lia.
Qed.
Lemma rev_repeat {A} (x : A) k : rev (repeat x k) = repeat x k.
Proof.
  induction k; cbn; [reflexivity|]. rewrite IHk. clear. induction k; cbn; congruence.
Qed.

Lemma clean_fixed c : clean_form c -> clean c = c.
Proof.
  destruct 1 as [|ns H|k ns H Hl].
  - reflexivity.
  - rewrite clean_abs_walk by reflexivity. rewrite <- split_slash_splits, split_abs by assumption.
    f_equal. f_equal. destruct ns as [|n ns]; [reflexivity|].
    unfold walk. change (walkr (rev []) ("" :: n :: ns)) with (walkr [] (n :: ns)).
    rewrite walkr_nc, app_nil_r, rev_involutive by assumption. reflexivity.
  - destruct (rel_nonempty k ns H Hl) as [Hne Hrel].
    rewrite clean_unfold, Hrel, <- split_slash_splits, split_rel by assumption.
    change (@nil string) with (repeat ".." 0).
    rewrite (clean_comps_dd k 0 ns), clean_comps_nc, rev_repeat, Nat.add_0_r by assumption.
    unfold render. destruct (join_slash (repeat ".." k ++ ns)); [congruence|reflexivity].
Qed.

(** ** B2 *)
Theorem clean_idempotent p : clean (clean p) = clean p.
Proof. apply clean_fixed, clean_form_clean. Qed.

Lemma is_abs_clean p : is_abs (clean p) = is_abs p.
Proof.
  destruct (string_dec p "") as [->|Hp]; [reflexivity|].
  destruct (is_abs p) eqn:Ha.
  - rewrite clean_abs_walk by assumption. reflexivity.
  - pose proof (clean_form_clean p) as F. rewrite clean_unfold, Ha in * by assumption.
    unfold render in *. destruct (join_slash (clean_comps false (splits p) [])) eqn:E; [reflexivity|].
    rewrite <- E in *. clear E.
    destruct (clean_comps_rel (splits p) [] 0 (splits_noslash p) (Forall_nil _)) as (k & ns & E & Hn).
    cbn in E. rewrite E in *. destruct k as [|k].
    + destruct ns as [|n ns]; [reflexivity|]. cbn [repeat app].
      inversion Hn as [|? ? (Hne & _ & _ & Hs) _]; subst.
      rewrite is_abs_join by assumption. destruct n; [congruence|]. cbn in *.
      apply orb_false_iff in Hs. apply Hs.
    + cbn [repeat app]. rewrite is_abs_join by discriminate. reflexivity.
Qed.

(** ** B1 — the normal form, spelled out on components. *)
Theorem clean_normal_form p :
  let c := clean p in
  c <> ""
  /\ (c <> "." -> ~ In "." (split_slash c))
  /\ (c <> "/" -> split_slash c = (if is_abs c then [""] else []) ++ comps c)
  /\ (if is_abs c then ~ In ".." (comps c)
      else exists k ns, comps c = repeat ".." k ++ ns /\ ~ In ".." ns).
Proof.
  cbv zeta. destruct (clean_form_clean p) as [|ns H|k ns H Hl].
  - repeat split; try discriminate; try congruence. exists 0%nat, ["."]. split; [reflexivity|].
    cbn. intros [E|[]]. discriminate.
  - split; [discriminate|]. split; [|split].
    + intros _. rewrite split_abs by assumption. intros [E|Hin]; [discriminate|].
      destruct ns; [destruct Hin as [E|[]]; discriminate|]. revert Hin. apply nc_not_dot. assumption.
    + intros Hne. rewrite comps_abs, split_abs by assumption. cbn. destruct ns; [exfalso; apply Hne; reflexivity|reflexivity].
    + cbn [is_abs]. change (Ascii.eqb slash slash) with true. cbn iota.
      rewrite comps_abs by assumption. apply nc_not_dotdot. assumption.
  - destruct (rel_nonempty k ns H Hl) as [Hne Hrel]. split; [assumption|]. split; [|split].
    + intros _. rewrite split_rel by assumption. intros Hin. apply in_app_or in Hin as [Hin|Hin].
      * apply repeat_spec in Hin. discriminate.
      * revert Hin. apply nc_not_dot. assumption.
    + intros _. rewrite Hrel, comps_rel, split_rel by assumption. reflexivity.
    + rewrite Hrel, comps_rel by assumption. exists k, ns. split; [reflexivity|apply nc_not_dotdot; assumption].
Qed.

(** * Cleaning preserves lexical resolution of relative paths *)
Definition resolve (root : list string) (p : string) : list string := walk root (split_slash p).

Lemma walkr_clean_comps_rel R cs : forall acc,
  Forall (fun c => noslash c) cs -> Forall (fun c => c = ".." \/ nc c) acc ->
  walkr R (clean_comps false cs acc) = walkr R (rev acc ++ cs).
Proof.
  induction cs as [|c cs IH]; intros acc Hs Ha; [cbn; rewrite app_nil_r; reflexivity|].
  inversion Hs; subst. rewrite walkr_app. cbn [clean_comps walkr]. unfold skipc.
  destruct (c =?s "") eqn:E1; cbn [orb]; [rewrite IH, walkr_app by assumption; reflexivity|].
  destruct (c =?s ".") eqn:E2; cbn [orb]; [rewrite IH, walkr_app by assumption; reflexivity|].
  destruct (c =?s "..") eqn:E3.
  - apply str_eqb_eq in E3. subst c. destruct acc as [|top acc'].
    + rewrite IH by (assumption || (constructor; auto)). reflexivity.
    + inversion Ha as [|? ? Ht Ha']; subst. destruct (top =?s "..") eqn:Et.
      * rewrite IH by (assumption || (constructor; auto)). cbn [rev].
        rewrite <- app_assoc, !walkr_app. reflexivity.
      * destruct Ht as [Ht|(N1 & N2 & N3 & _)]; [apply str_eqb_neq in Et; congruence|].
        rewrite IH, walkr_app by assumption. cbn [rev]. rewrite walkr_app. cbn [walkr]. unfold skipc.
        apply str_eqb_neq in N1, N2, N3. rewrite N1, N2, N3. reflexivity.
  - assert (nc c) by (apply str_eqb_neq in E1, E2, E3; repeat split; assumption).
    rewrite IH by (assumption || (constructor; auto)). cbn [rev].
    rewrite <- app_assoc, !walkr_app. cbn [app walkr]. unfold skipc. rewrite E1, E2, E3. reflexivity.
Qed.

Lemma walkr_dot R : walkr R ["."] = R.  Proof. reflexivity. Qed.

Theorem clean_preserves_resolution root p :
  is_abs p = false -> resolve root (clean p) = resolve root p.
Proof.
  intros Ha. unfold resolve, walk. f_equal. rewrite !split_slash_splits.
  destruct (string_dec p "") as [->|Hp]; [reflexivity|].
  rewrite clean_unfold, Ha by assumption. unfold render.
  destruct (join_slash (clean_comps false (splits p) [])) eqn:Ej.
  - apply join_slash_empty in Ej.
    rewrite <- (walkr_clean_comps_rel _ (splits p) []) by (apply splits_noslash || constructor).
    destruct Ej as [-> | ->]; reflexivity.
  - rewrite <- Ej. clear Ej.
    destruct (clean_comps_rel (splits p) [] 0 (splits_noslash p) (Forall_nil _)) as (k & ns & E & Hn).
    cbn in E. rewrite <- (walkr_clean_comps_rel _ (splits p) []) by (apply splits_noslash || constructor).
    rewrite E. destruct (repeat ".." k ++ ns) eqn:El; [reflexivity|]. rewrite <- El.
    rewrite splits_join; [reflexivity|rewrite El; discriminate|apply rel_list_props; assumption].
Qed.

(** * The lexical verdict of validateResultPath (property C20) *)
Lemma sprefix_cons a s b t :
  String.prefix (String a s) (String b t) = if Ascii.eqb a b then String.prefix s t else false.
Proof.
  change (String.prefix (String a s) (String b t)) with (if ascii_dec a b then String.prefix s t else false).
  destruct (ascii_dec a b), (Ascii.eqb_spec a b); congruence.
Qed.
Lemma prefix_nil_l t : String.prefix "" t = true.
Proof. destruct t; reflexivity. Qed.
Lemma prefix_app a t : String.prefix a (a +:+ t) = true.
Proof.
  induction a as [|c a IH]; [apply prefix_nil_l|]. cbn [String.append].
  rewrite sprefix_cons, Ascii.eqb_refl. assumption.
Qed.
Lemma prefix_exists a b : String.prefix a b = true -> exists t, b = a +:+ t.
Proof.
  revert b. induction a as [|c a IH]; intros b; [exists b; reflexivity|].
  destruct b as [|d b]; [discriminate|]. rewrite sprefix_cons.
  destruct (Ascii.eqb_spec c d); [|discriminate]. subst.
  intros H. apply IH in H as [t ->]. exists t. reflexivity.
Qed.

Lemma prefix_slash_noslash a c : Ascii.eqb a slash = false -> String.prefix "/.." (String a c) = false.
Proof.
  intros Ha. rewrite sprefix_cons. rewrite Ascii.eqb_sym. unfold slash in Ha. rewrite Ha. reflexivity.
Qed.
Lemma contains_sub_noslash c : noslash c -> contains_sub "/.." c = false.
Proof.
  induction c as [|a c IH]; [reflexivity|]. intros H. cbn in H. apply orb_false_iff in H as [Ha Hc].
  cbn [contains_sub]. rewrite IH by assumption.
  rewrite (prefix_slash_noslash a c Ha). reflexivity.
Qed.
Lemma contains_sub_noslash_app c t : noslash c -> contains_sub "/.." (c +:+ t) = contains_sub "/.." t.
Proof.
  induction c as [|a c IH]; [reflexivity|]. intros H. cbn in H. apply orb_false_iff in H as [Ha Hc].
  cbn [String.append contains_sub]. rewrite IH by assumption.
  rewrite (prefix_slash_noslash a (c +:+ t) Ha). reflexivity.
Qed.

(** On a joined list of slash-free, non-empty components the two substring
    tests of validateResultPath say: some component starts with "..". *)
Lemma prefix_dd_join x l : x <> "" -> noslash x ->
  String.prefix ".." (join_slash (x :: l)) = String.prefix ".." x.
Proof.
  intros Hx Hs. destruct l as [|y l]; [reflexivity|]. rewrite join_slash_cons.
  destruct x as [|a x]; [congruence|]. destruct x as [|b x]; cbn [String.append]; rewrite !sprefix_cons.
  - destruct (Ascii.eqb "." a); reflexivity.
  - rewrite !prefix_nil_l. reflexivity.
Qed.
Lemma contains_dd_join x l :
  Forall (fun c => c <> "") (x :: l) -> Forall (fun c => noslash c) (x :: l) ->
  contains_sub "/.." (join_slash (x :: l)) = existsb (String.prefix "..") l.
Proof.
  revert x. induction l as [|y l IH]; intros x Hne Hs.
  - cbn. apply contains_sub_noslash. inversion Hs; assumption.
  - inversion Hne; inversion Hs; subst. rewrite join_slash_cons, contains_sub_noslash_app by assumption.
    cbn [contains_sub existsb]. rewrite IH by assumption.
    inversion H2; inversion H6; subst.
    change (String.prefix "/.." (String slash (join_slash (y :: l))))
      with (String.prefix ".." (join_slash (y :: l))).
    rewrite prefix_dd_join by assumption. reflexivity.
Qed.

Lemma ergo_prefix_join x l :
  Forall (fun c => c <> "") (x :: l) -> Forall (fun c => noslash c) (x :: l) ->
  (String.prefix ".ergo/" (join_slash (x :: l)) || (join_slash (x :: l) =?s ".ergo"))%bool = (x =?s ".ergo").
Proof.
  intros Hne Hs. destruct (x =?s ".ergo") eqn:E.
  - apply str_eqb_eq in E. subst x. destruct l as [|y l]; [reflexivity|]. rewrite join_slash_cons.
    change (".ergo" +:+ String slash (join_slash (y :: l))) with (".ergo/" +:+ join_slash (y :: l)).
    rewrite prefix_app. reflexivity.
  - apply orb_false_iff. split.
    + destruct (String.prefix ".ergo/" (join_slash (x :: l))) eqn:P; [|reflexivity].
      apply prefix_exists in P as [t Et]. apply (f_equal splits) in Et.
      rewrite splits_join in Et by (discriminate || assumption).
      change (".ergo/" +:+ t) with (".ergo" +:+ String slash t) in Et. rewrite splits_app_slash in Et.
      cbn in Et. injection Et as -> _. discriminate.
    + apply str_eqb_neq. intros Ej. apply (f_equal splits) in Ej.
      rewrite splits_join in Ej by (discriminate || assumption). cbn in Ej. injection Ej as -> _. discriminate.
Qed.

(** The verdict, as a function of the components of the cleaned path. *)
Definition lexical_spec (p : string) : option string :=
  let c := clean p in
  if (is_abs p
      || existsb (String.prefix "..") (comps c)
      || match comps c with x :: _ => x =?s ".ergo" | [] => false end)%bool
  then None else Some c.

Theorem lexical_result_path_spec p : lexical_result_path p = lexical_spec p.
Proof.
  unfold lexical_result_path, lexical_spec. cbv zeta. rewrite is_abs_clean.
  destruct (is_abs p) eqn:Ha; [reflexivity|]. cbn [orb].
  pose proof (is_abs_clean p) as Hc. rewrite Ha in Hc.
  destruct (clean_form_clean p) as [|ns H|k ns H Hl]; [reflexivity|discriminate|].
  rewrite comps_rel by assumption.
  destruct (rel_list_props k ns H) as [Hs Hne].
  destruct (repeat ".." k ++ ns) as [|x l] eqn:El.
  { destruct k; [destruct ns; [cbn in Hl; lia|discriminate]|discriminate]. }
  inversion Hs; inversion Hne; subst.
  rewrite prefix_dd_join, contains_dd_join, ergo_prefix_join by assumption.
  cbn [existsb]. destruct (String.prefix ".." x || existsb (String.prefix "..") l)%bool; [reflexivity|].
  cbn [orb]. destruct (x =?s ".ergo"); reflexivity.
Qed.

(** ** B3 — accepted paths are confined. *)
Theorem lexical_confined p c : lexical_result_path p = Some c ->
  c = clean p /\ is_abs p = false /\ is_abs c = false /\
  ~ In ".." (comps c) /\ hd_error (comps c) <> Some ".ergo" /\
  (c = "." \/ exists n ns, c = join_slash (n :: ns) /\ comps c = n :: ns /\ split_slash c = n :: ns
                          /\ Forall nc (n :: ns) /\ n <> ".ergo").
Proof.
  rewrite lexical_result_path_spec. unfold lexical_spec. cbv zeta.
  destruct (is_abs p) eqn:Ha; [discriminate|]. cbn [orb].
  destruct (existsb (String.prefix "..") (comps (clean p))) eqn:Ed; [discriminate|]. cbn [orb].
  destruct (match comps (clean p) with [] => false | x :: _ => x =?s ".ergo" end) eqn:Ee; [discriminate|].
  intros [= <-]. split; [reflexivity|]. split; [reflexivity|].
  split; [rewrite is_abs_clean; assumption|].
  assert (Hdd : ~ In ".." (comps (clean p))).
  { intros Hin. assert (existsb (String.prefix "..") (comps (clean p)) = true); [|congruence].
    apply existsb_exists. exists "..". split; [assumption|reflexivity]. }
  split; [assumption|]. split.
  { destruct (comps (clean p)); [discriminate|]. cbn. intros [= ->]. discriminate. }
  pose proof (is_abs_clean p) as Hc. rewrite Ha in Hc.
  destruct (clean_form_clean p) as [|ns H|k ns H Hl]; [left; reflexivity|discriminate|]. right.
  rewrite comps_rel in * by assumption. rewrite split_rel by assumption.
  destruct k as [|k]; [|exfalso; apply Hdd; left; reflexivity]. cbn [repeat app] in *.
  destruct ns as [|n ns]; [cbn in Hl; lia|]. exists n, ns. repeat split; try assumption; try (apply H).
  apply str_eqb_neq. assumption.
Qed.

(** Resolving an accepted path from any root directory stays below that root
    and does not enter root/.ergo.  ("." resolves to the root itself; it is
    accepted lexically and then refused by the is-a-directory check.) *)
Theorem lexical_resolve p c root : lexical_result_path p = Some c ->
  resolve root p = resolve root c /\
  ((c = "." /\ resolve root c = root)
   \/ exists n ns, resolve root c = root ++ n :: ns /\ n <> ".ergo" /\ Forall nc (n :: ns)).
Proof.
  intros H. apply lexical_confined in H as (-> & Ha & _ & _ & _ & [E | (n & ns & Ej & _ & Es & Hn & Hne)]).
  - split; [symmetry; apply clean_preserves_resolution; assumption|]. left. split; [assumption|].
    rewrite E. unfold resolve, walk. cbn. apply rev_involutive.
  - split; [symmetry; apply clean_preserves_resolution; assumption|]. right. exists n, ns.
    split; [|split; assumption]. unfold resolve. rewrite Es. apply walk_nc. assumption.
Qed.

(** ** B4 — the documented rejection classes. *)
Theorem lexical_rejects p :
  (is_abs p = true -> lexical_result_path p = None)
  /\ (In ".." (comps (clean p)) -> lexical_result_path p = None)
  /\ (hd_error (comps (clean p)) = Some ".ergo" -> lexical_result_path p = None)
  /\ (clean p = ".ergo" -> lexical_result_path p = None)
  /\ (String.prefix ".ergo/" (clean p) = true -> lexical_result_path p = None)
  /\ (String.prefix ".." (clean p) = true -> lexical_result_path p = None).
Proof.
  split; [|split; [|split; [|split; [|split]]]].
  - intros Ha. rewrite lexical_result_path_spec. unfold lexical_spec. cbv zeta. rewrite Ha. reflexivity.
  - intros Hin. destruct (lexical_result_path p) eqn:E; [|reflexivity].
    apply lexical_confined in E as (-> & _ & _ & Hn & _). contradiction.
  - intros Hh. destruct (lexical_result_path p) eqn:E; [|reflexivity].
    apply lexical_confined in E as (-> & _ & _ & _ & Hn & _). contradiction.
  - intros E. unfold lexical_result_path. cbv zeta. rewrite E. reflexivity.
  - intros E. unfold lexical_result_path. cbv zeta. rewrite E.
    destruct (is_abs (clean p)); [reflexivity|]. destruct (_ || _)%bool; reflexivity.
  - intros E. unfold lexical_result_path. cbv zeta. rewrite E. destruct (is_abs (clean p)); reflexivity.
Qed.

(** Exactly when a path is accepted. *)
Corollary lexical_accepts_iff p :
  is_Some (lexical_result_path p) <->
  is_abs p = false /\ (forall x, In x (comps (clean p)) -> String.prefix ".." x = false)
  /\ hd_error (comps (clean p)) <> Some ".ergo".
Proof.
  rewrite lexical_result_path_spec. unfold lexical_spec. cbv zeta. split.
  - intros [c Hc]. destruct (is_abs p); [discriminate|]. cbn [orb] in Hc.
    destruct (existsb _ _) eqn:E1; [discriminate|]. cbn [orb] in Hc. split; [reflexivity|]. split.
    + intros x Hx. destruct (String.prefix ".." x) eqn:Ex; [|reflexivity].
      assert (existsb (String.prefix "..") (comps (clean p)) = true); [|congruence].
      apply existsb_exists. eauto.
    + destruct (comps (clean p)); [discriminate|]. cbn. intros [= ->]. discriminate.
  - intros (-> & Hx & Hh). cbn [orb].
    destruct (existsb _ _) eqn:E1.
    { apply existsb_exists in E1 as (x & Hin & Ex). rewrite (Hx x Hin) in Ex. discriminate. }
    cbn [orb]. destruct (comps (clean p)) as [|x l]; [eexists; reflexivity|].
    destruct (x =?s ".ergo") eqn:E; [|eexists; reflexivity].
    apply str_eqb_eq in E. subst. exfalso. apply Hh. reflexivity.
Qed.

(** * Examples *)
Example ex_clean1 : clean "a//b/./c/../d/" = "a/b/d". Proof. vm_compute. reflexivity. Qed.
Example ex_clean2 : clean "/../a/../.." = "/". Proof. vm_compute. reflexivity. Qed.
Example ex_clean3 : clean "a/../../b" = "../b". Proof. vm_compute. reflexivity. Qed.
Example ex_clean4 : clean "" = "." /\ clean "./" = "." /\ clean "a/.." = ".". Proof. vm_compute. auto. Qed.
Example ex_lex_ok : lexical_result_path "docs/./out//r.md" = Some "docs/out/r.md". Proof. vm_compute. reflexivity. Qed.
Example ex_lex_sneak : lexical_result_path "a/../.ergo/plans.jsonl" = None. Proof. vm_compute. reflexivity. Qed.
Example ex_lex_up : lexical_result_path "a/../../etc/passwd" = None. Proof. vm_compute. reflexivity. Qed.
Example ex_lex_abs : lexical_result_path "/etc/passwd" = None. Proof. vm_compute. reflexivity. Qed.
Example ex_lex_dot : lexical_result_path "." = Some "." /\ lexical_result_path "" = Some "."
                     /\ lexical_result_path "a/.." = Some ".". Proof. vm_compute. auto. Qed.
Example ex_lex_inner_ergo : lexical_result_path "sub/.ergo/plans.jsonl" = Some "sub/.ergo/plans.jsonl".
Proof. vm_compute. reflexivity. Qed.
(** Over-approximation (safe): harmless names starting with ".." are refused too. *)
Example ex_lex_overapprox :
  lexical_result_path "a/..b" = None /\ lexical_result_path "..x" = None /\ lexical_result_path "a/..." = None
  /\ resolve ["root"] "a/..b" = ["root"; "a"; "..b"].
Proof. vm_compute. auto. Qed.
Example ex_lex_not_over : lexical_result_path "a/b.." = Some "a/b.." /\ lexical_result_path ".ergox" = Some ".ergox".
Proof. vm_compute. auto. Qed.

Print Assumptions clean_normal_form.
Print Assumptions clean_idempotent.
Print Assumptions clean_preserves_resolution.
Print Assumptions lexical_result_path_spec.
Print Assumptions lexical_confined.
Print Assumptions lexical_resolve.
Print Assumptions lexical_rejects.
Print Assumptions lexical_accepts_iff.
